"""Regenerate MANIFEST.json from checks/C*.py (claimed) and properties.jsonl (everything else -> not_applicable)."""
import importlib, json, os, subprocess
from . import core, setup

BASELINE_CMD = "./baseline_off.sh"


def main():
    ids = [json.loads(l)["id"] for l in open(os.path.join(core.VERIF, "properties.jsonl")) if l.strip()]
    claimed = {}
    for pid in setup.all_ids():
        try:
            m = importlib.import_module("checks." + pid)
        except Exception as e:
            print(f"WARNING: checks/{pid}.py does not load: {e}")
            continue
        if getattr(m, "CLAIMED", True) and hasattr(m, "SPEC"):
            claimed[pid] = m.SPEC
    pending = {}
    pp = os.path.join(core.VERIF, "not_applicable.json")
    if os.path.exists(pp):
        pending = json.load(open(pp))
    checks = []
    for pid in ids:
        if pid not in claimed:
            continue
        s = claimed[pid]
        checks.append({
            "property_id": pid,
            "quick_cmd": f"./check {pid} quick",
            "thorough_cmd": f"./check {pid} thorough",
            "evidence_file": f"/verif/evidence/{pid}.json",
            "replay_cmd_template": f"./check {pid} --replay {{path}}",
            "engine": "lean4-proof+correspondence",
            "level_claimed": {"category": s.get("level", "proof"), "text": s.get("level_text", ""),
                              "design_ref": s.get("design_ref", f"DESIGN.md §5 {pid}")},
            "level_note": s.get("level_note", "; ".join(s.get("trusted", []))),
            "technique": s.get("technique", "Lean 4 theorems over an executable model + regenerated facts + differential correspondence"),
        })
    na = [{"property_id": pid, "reason": pending.get(pid, "check not built yet in this session (planned, see DESIGN.md §5); not claimed")}
          for pid in ids if pid not in claimed]
    hooks_commits = []
    hp = os.path.join(core.VERIF, "hooks_commits.txt")
    if os.path.exists(hp):
        hooks_commits = [l.split()[0] for l in open(hp) if l.strip() and not l.startswith("#")]
    man = {
        "version": 1,
        "setup_cmd": "./check setup",
        "hooks": {"guard": "verif", "enable": "go build -tags verif (hook files are src/**/*_verif.go with //go:build verif)",
                  "baseline_off_cmd": BASELINE_CMD, "source_commits": hooks_commits, "add_only": True},
        "engines": [
            {"name": "lean4-proof+correspondence", "path": "/verif/lean", "serves_properties": sorted(claimed),
             "kind_free_text": "Lean 4.33 theorems (lake project PlzVerif, core only) about executable models; models tied to /repo by go/ast fact "
                               "extractors regenerating lean/PlzVerif/Generated/*.lean on every run and by differential correspondence "
                               "(harness/cmd/* built with -tags verif against /repo's working tree vs lean/Driver/*.lean)"}],
        "checks": checks,
        "not_applicable": na,
        "notes": "Single entry point ./check <id> <tier>; see DESIGN.md. known_findings.json lists recorded defects; evidence/ is rewritten by every run.",
    }
    json.dump(man, open(os.path.join(core.VERIF, "MANIFEST.json"), "w"), indent=1)
    print(f"MANIFEST.json: {len(checks)} checks, {len(na)} not claimed")
    return 0
