"""./check setup: regenerate all facts, build the Lean library, every harness binary and plz.
Setup is a warm-up: every check rebuilds what it needs itself, so a property whose module or harness does not build is
reported here as a warning and by its own check as a broken obligation — it must not keep the other checks from running."""
import glob, os, re, sys, importlib
from . import core


def all_ids():
    return sorted(os.path.basename(p)[:-3] for p in glob.glob(os.path.join(core.VERIF, "checks", "C*.py")))


def load_specs():
    out = []
    for pid in all_ids():
        try:
            m = importlib.import_module("checks." + pid)
        except Exception as e:
            print(f"WARNING: checks/{pid}.py does not load: {e}")
            continue
        if hasattr(m, "SPEC"):
            out.append((m.SPEC, bool(getattr(m, "CLAIMED", True))))
    return out


def main():
    rc = 0
    failed = []
    specs = load_specs()
    for spec, claimed in specs:
        tag = spec["id"] + ("" if claimed else " (unclaimed)")
        st, detail = core.extract_facts(spec.get("extract", []))
        if st == "unreadable":
            print(f"{tag}: facts unreadable: {detail}")
        mods = [spec["props"][:-5].replace("/", ".")]
        if spec.get("driver"):
            src = open(os.path.join(core.LEAN, spec["driver"])).read()
            mods += re.findall(r"^\s*import\s+(PlzVerif[\w.]*)", src, re.M)
        r, out = core.lake_build(sorted(set(mods)))
        if r != 0:
            print(f"{tag}: lake build failed\n{out[-1500:]}")
            failed.append(tag + " (lean)")
        if spec.get("harness"):
            r, out, _ = core.build_harness(spec["harness"])
            if r != 0:
                print(f"{tag}: harness build failed\n{out[-1500:]}")
                failed.append(tag + " (harness)")
        print(f"{tag}: setup ok" if r == 0 else f"{tag}: setup FAILED")
    if any(s.get("needs_plz") for s, _ in specs):
        r, out, _ = core.build_plz()
        print("plz:", r)
        if r != 0:
            print(out[-2000:]); rc = 1
    if failed:
        print("WARNING: not built during setup (their own checks will report it):", ", ".join(failed))
    return rc
