"""./check setup: regenerate all facts, build the Lean library, every harness binary and plz."""
import glob, os, re, sys, importlib
from . import core


def all_ids():
    return sorted(os.path.basename(p)[:-3] for p in glob.glob(os.path.join(core.VERIF, "checks", "C*.py")))


def main():
    rc = 0
    specs = []
    for pid in all_ids():
        m = importlib.import_module("checks." + pid)
        specs.append(m.SPEC)
    ex = sorted({e for s in specs for e in s.get("extract", [])})
    st, detail = core.extract_facts(ex)
    print("facts:", st, detail)
    mods = sorted({s["props"][:-5].replace("/", ".") for s in specs})
    for s in specs:
        if s.get("driver"):
            src = open(os.path.join(core.LEAN, s["driver"])).read()
            mods += re.findall(r"^\s*import\s+(PlzVerif[\w.]*)", src, re.M)
    r, out = core.lake_build(sorted(set(mods)))
    print("lake build:", r)
    if r != 0:
        print(out[-3000:]); rc = 1
    for h in sorted({s["harness"] for s in specs if s.get("harness")}):
        r, out, _ = core.build_harness(h)
        print("harness", h, r)
        if r != 0:
            print(out[-2000:]); rc = 1
    if any(s.get("needs_plz") for s in specs):
        r, out, _ = core.build_plz()
        print("plz:", r)
        if r != 0:
            print(out[-2000:]); rc = 1
    return rc
