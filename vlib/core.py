"""Shared machinery of ./check: facts extraction, Lean proof audit, correspondence run, decision, evidence.

One check run (DESIGN.md 2.1):  extract -> prove -> correspond -> decide -> evidence.
"""
import fcntl, json, os, re, shutil, subprocess, sys, time, glob, hashlib

VERIF = os.path.dirname(os.path.dirname(os.path.abspath(__file__)))
REPO = os.environ.get("VERIF_REPO", "/repo")
LEAN = os.path.join(VERIF, "lean")
HARNESS = os.path.join(VERIF, "harness")
BUILD = os.path.join(VERIF, ".build")
ALT = REPO != "/repo"            # mutation dry-runs: VERIF_REPO=/var/tmp/<copy> ./check Cxx quick
BIN = os.path.join(BUILD, "bin" if not ALT else "bin-" + hashlib.sha1(REPO.encode()).hexdigest()[:10])
SCRATCH = os.path.join(BUILD, "scratch")
REPLAYS = os.path.join(VERIF, "replays") if os.environ.get("VERIF_REPO", "/repo") == "/repo" else os.path.join(VERIF, ".build", "replays-alt")
ALLOWED_AXIOMS = {"propext", "Classical.choice", "Quot.sound"}
AUDIT_TEMPLATE = """import Lean
import MODULE
open Lean Elab Command in
run_cmd do
  let env ← getEnv
  let some idx := env.getModuleIdx? `MODULE | throwError "no module"
  for n in env.header.moduleData[idx.toNat]!.constNames do
    if n.isInternalDetail then continue
    match env.find? n with
    | some (.thmInfo _) =>
      let axs ← Lean.collectAxioms n
      logInfo m!"AXIOMS {n} {axs.toList}"
    | _ => pure ()
"""
FORBIDDEN = re.compile(r"\bsorry\b|\badmit\b|^\s*axiom\s|native_decide|bv_decide|implemented_by|\bunsafe\s|maxHeartbeats\s+0\b|\bpartial\s+def\b", re.M)


def goenv():
    e = dict(os.environ)
    e["GOFLAGS"] = "-mod=mod"
    e["GOPROXY"] = "off"
    e.pop("GOTOOLCHAIN", None)      # auto: the cached go1.26.1 toolchain is selected by go.mod
    e.pop("GOSUMDB", None)
    e["VERIF_REPO"] = REPO
    e.setdefault("GOMAXPROCS", "16")
    return e


class Lock:
    def __init__(self, name, shared=False):
        os.makedirs(BUILD, exist_ok=True)
        self.path = os.path.join(BUILD, name + ".lock")
        self.shared = shared

    def __enter__(self):
        self.f = open(self.path, "a")
        fcntl.flock(self.f, fcntl.LOCK_SH if self.shared else fcntl.LOCK_EX)
        return self

    def __exit__(self, *a):
        fcntl.flock(self.f, fcntl.LOCK_UN)
        self.f.close()


def sh(cmd, cwd=None, env=None, timeout=None, stdin=None, stdout=subprocess.PIPE):
    p = subprocess.run(cmd, cwd=cwd, env=env, timeout=timeout, stdin=stdin, stdout=stdout,
                       stderr=subprocess.STDOUT, text=True, errors="replace")
    return p.returncode, (p.stdout or "")


# ---------------------------------------------------------------- facts (tie B)

def modfile_args():
    """With VERIF_REPO set to a scratch copy, build the harness against it through an alternative go.mod."""
    if not ALT:
        return []
    d = BIN + "-mod"
    os.makedirs(d, exist_ok=True)
    mod = open(os.path.join(HARNESS, "go.mod")).read().replace("=> /repo", "=> " + REPO)
    mp = os.path.join(d, "go.mod")
    if not os.path.exists(mp) or open(mp).read() != mod:
        open(mp, "w").write(mod)
    shutil.copy(os.path.join(REPO, "go.sum"), os.path.join(d, "go.sum"))
    return ["-modfile=" + mp]


def sync_gosum():
    src, dst = os.path.join(REPO, "go.sum"), os.path.join(HARNESS, "go.sum")
    try:
        if open(src).read() != (open(dst).read() if os.path.exists(dst) else ""):
            shutil.copy(src, dst)
    except OSError:
        pass


def extract_facts(names, repo=None):
    """Run the go/ast extractors; returns (status, detail). status: regenerated | unreadable | none."""
    if not names:
        return "none", ""
    status, detail = "regenerated", []
    sync_gosum()
    env = goenv()
    if repo:
        env["VERIF_REPO"] = repo
    for n in names:
        gen = os.path.join(LEAN, "PlzVerif", "Generated", n.upper() if re.fullmatch(r"c\d+", n) else n)
        with Lock("go-extract-" + n.lower()):
            rc, out = sh(["go", "run"] + modfile_args() + ["./extract/" + n.lower()], cwd=HARNESS, env=env, timeout=600)
        if rc != 0:
            status = "unreadable"
            detail.append(f"{n}: rc={rc} {out.strip()[-400:]}")
            exp = os.path.join(LEAN, "Expected", os.path.basename(gen) + ".lean")
            if os.path.exists(exp):
                cur = open(gen + ".lean").read() if os.path.exists(gen + ".lean") else ""
                if cur != open(exp).read():
                    shutil.copy(exp, gen + ".lean")
    return status, "; ".join(detail)


# ---------------------------------------------------------------- prove

def strip_comments(src):
    src = re.sub(r"/-.*?-/", "", src, flags=re.S)
    return re.sub(r"--[^\n]*", "", src)


def import_closure(relpath):
    """All project-local .lean files transitively imported by relpath (relative to lean/)."""
    seen, todo = [], [relpath]
    while todo:
        p = todo.pop()
        if p in seen or not os.path.exists(os.path.join(LEAN, p)):
            continue
        seen.append(p)
        for m in re.findall(r"^\s*(?:public\s+)?import\s+(PlzVerif[\w.]*)", open(os.path.join(LEAN, p)).read(), re.M):
            todo.append(m.replace(".", "/") + ".lean")
    return seen


def lake_build(mods):
    with Lock("lake"):
        return sh(["lake", "build"] + mods, cwd=LEAN, timeout=3000)


def prove(props_rel, leanchecker=False):
    """Build the property module, re-elaborate it for `#print axioms`, audit. Returns dict."""
    path = os.path.join(LEAN, props_rel)
    src = open(path).read()
    code = strip_comments(src)
    theorems = []
    lines = src.split("\n")
    for i, l in enumerate(lines):
        m = re.match(r"\s*(?:@\[[^\]]*\]\s*)?(?:protected\s+|private\s+)?theorem\s+([^\s:({\[]+)", l)
        if m and not l.lstrip().startswith("--"):
            theorems.append((m.group(1), i + 1))
    mod = props_rel[:-5].replace("/", ".")
    t0 = time.time()
    rc, out = lake_build([mod])
    res = {"module": mod, "theorems": [t for t, _ in theorems], "build_rc": rc, "errors": [], "axioms": {},
           "failed_theorems": [], "forbidden": [], "build_s": round(time.time() - t0, 1)}
    # forbidden tokens anywhere in the import closure
    for f in import_closure(props_rel):
        c = strip_comments(open(os.path.join(LEAN, f)).read())
        for m in FORBIDDEN.finditer(c):
            res["forbidden"].append(f + ": " + m.group(0).strip())
    errs = []
    if rc != 0:
        for m in re.finditer(r"error: (\S+\.lean):(\d+):(\d+): (.*)", out):
            errs.append((m.group(1), int(m.group(2)), m.group(4)))
        if not errs:
            errs.append(("?", 0, out.strip()[-600:]))
    # audit: a generated Lean file imports the compiled property module and prints the axioms of EVERY
    # theorem declared in it (no reliance on hand-written `#print axioms` lines)
    failed = set()
    if rc == 0:
        os.makedirs(os.path.join(BUILD, "audit"), exist_ok=True)
        ap = os.path.join(BUILD, "audit", mod.split(".")[-1] + f"_{os.getpid()}.lean")
        open(ap, "w").write(AUDIT_TEMPLATE.replace("MODULE", mod))
        with Lock("lake", shared=True):
            rc2, out2 = sh(["lake", "env", "lean", ap], cwd=LEAN, timeout=3000)
        os.unlink(ap)
        for m in re.finditer(r"AXIOMS (\S+) \[([^\]]*)\]", out2):
            res["axioms"][m.group(1)] = [a.strip() for a in m.group(2).split(",") if a.strip()]
        if rc2 != 0 or not res["axioms"]:
            errs.append(("?", 0, "axiom audit failed: " + out2.strip()[-400:]))
        else:
            declared = {t for t, _ in theorems}
            theorems = [(k.split(".")[-1] if k.split(".")[-1] in declared else k, 0) for k in sorted(res["axioms"])]
            res["theorems"] = [t for t, _ in theorems]
    for f, ln, msg in errs:
        res["errors"].append(f"{f}:{ln}: {msg[:300]}")
        if f.endswith(props_rel) or f == "?":
            owner = None
            for t, tl in theorems:
                if tl <= ln:
                    owner = t
            failed.add(owner or "(module)")
        else:
            failed.add("(import) " + f)
    # every theorem must have an axioms line, within the allowed set
    bad_axioms = {}
    for t, _ in theorems:
        full = [k for k in res["axioms"] if k == t or k.endswith("." + t)]
        if not full:
            if rc == 0:
                failed.add(t)
                res["errors"].append(f"no `#print axioms` output for theorem {t}")
            continue
        extra = set(res["axioms"][full[0]]) - ALLOWED_AXIOMS
        if extra:
            bad_axioms[t] = sorted(extra)
            failed.add(t)
    if res["forbidden"]:
        failed.add("(forbidden-token)")
    if rc != 0 and not failed:
        failed.add("(module)")
    res["bad_axioms"] = bad_axioms
    res["failed_theorems"] = sorted(failed)
    res["obligations"] = len(theorems)
    nfail = len([t for t, _ in theorems if t in failed])
    if any(f.startswith("(") for f in failed):
        nfail = len(theorems)           # import / module level failure: nothing is discharged
    res["discharged"] = len(theorems) - nfail
    res["axioms_used"] = sorted({a for v in res["axioms"].values() for a in v})
    res["checker_cmd"] = f"cd lean && lake build {mod} && lake env lean {props_rel}"
    if leanchecker and rc == 0:
        with Lock("lake", shared=True):
            rc3, out3 = sh(["lake", "env", "leanchecker", mod], cwd=LEAN, timeout=3000)
        res["leanchecker_rc"] = rc3
        res["checker_cmd"] += f" && lake env leanchecker {mod}"
        if rc3 != 0:
            res["errors"].append("leanchecker: " + out3.strip()[-300:])
            res["failed_theorems"].append("(leanchecker)")
            res["discharged"] = 0
    return res


# ---------------------------------------------------------------- correspond

def build_harness(name):
    os.makedirs(BIN, exist_ok=True)
    sync_gosum()
    out = os.path.join(BIN, name)
    with Lock("go-" + os.path.basename(BIN) + "-" + name):       # per output binary: go's own cache is concurrency-safe
        rc, o = sh(["go", "build"] + modfile_args() + ["-tags", "verif", "-o", out, "./cmd/" + name], cwd=HARNESS, env=goenv(), timeout=1800)
    return rc, o, out


def build_plz():
    """Build the real plz binary from /repo's working tree with hooks on."""
    os.makedirs(BIN, exist_ok=True)
    out = os.path.join(BIN, "plz")
    with Lock("go-" + os.path.basename(BIN) + "-plz"):
        rc, o = sh(["go", "build", "-tags", "verif", "-o", out, "./src"], cwd=REPO, env=goenv(), timeout=3000)
    return rc, o, out


def run_driver(driver_rel, ops_path, out_path):
    mods = [m for m in re.findall(r"^\s*import\s+(PlzVerif[\w.]*)", open(os.path.join(LEAN, driver_rel)).read(), re.M)]
    rc, out = lake_build(mods)
    if rc != 0:
        return rc, "driver imports failed to build:\n" + out[-1500:]
    # The driver only READS compiled modules (at start-up); it is run without the lake lock so that one long
    # interpretation cannot serialise every other check.  A writer replacing an .olean exactly while the driver
    # loads it is possible in principle: retry once (after re-building the imports) before reporting.
    for attempt in (1, 2):
        with open(ops_path) as i, open(out_path, "w") as o:
            p = subprocess.run(["lake", "env", "lean", "--run", driver_rel], cwd=LEAN, stdin=i, stdout=o,
                               stderr=subprocess.PIPE, text=True, timeout=3000)
        if p.returncode == 0:
            break
        lake_build(mods)
    return p.returncode, p.stderr[-1500:]


def read_lines(p):
    with open(p, errors="replace") as f:
        return f.read().split("\n")[:-1] if os.path.getsize(p) else []


def correspond(spec, seed, tier, outdir, replay=None, extra_args=None):
    """Run harness + driver; returns dict with disagreements, oracle failures, stats."""
    os.makedirs(outdir, exist_ok=True)
    res = {"ok": True, "disagreements": [], "oracle": [], "stats": {}, "error": None}
    hname = spec.get("harness")
    if spec.get("needs_plz"):
        rc, o, plz = build_plz()
        if rc != 0:
            res.update(ok=False, error="plz build failed: " + o[-1500:], build_failed=True)
            return res
    rc, o, hbin = build_harness(hname)
    if rc != 0:
        res.update(ok=False, error="harness build failed: " + o[-1500:], build_failed=True)
        return res
    cmd = [hbin] + list(spec.get("harness_args", [])) + ["-seed", str(seed), "-tier", tier, "-out", outdir] + (extra_args or [])
    if replay:
        cmd += ["-replay", replay]
    env = goenv()
    env["VERIF_PLZ"] = os.path.join(BIN, "plz")
    env["VERIF_SCRATCH"] = outdir
    t0 = time.time()
    try:
        rc, o = sh(cmd, cwd=VERIF, env=env, timeout=spec.get("harness_timeout", 3000))
    except subprocess.TimeoutExpired:
        rc, o = 124, "harness timed out"
    res["harness_s"] = round(time.time() - t0, 1)
    if rc != 0:
        res.update(ok=False, error=f"harness exited {rc}: " + o[-1500:])
        return res
    try:
        res["stats"] = json.load(open(os.path.join(outdir, "stats.json")))
    except Exception as e:
        res.update(ok=False, error="no stats.json: " + str(e))
        return res
    opath = os.path.join(outdir, "oracle.jsonl")
    if os.path.exists(opath):
        for l in read_lines(opath):
            try:
                res["oracle"].append(json.loads(l))
            except Exception:
                pass
    if spec.get("driver"):
        t0 = time.time()
        rc, err = run_driver(spec["driver"], os.path.join(outdir, "ops.txt"), os.path.join(outdir, "model.txt"))
        res["driver_s"] = round(time.time() - t0, 1)
        if rc != 0:
            res.update(ok=False, error=f"model driver exited {rc}: {err}")
            return res
        ops = read_lines(os.path.join(outdir, "ops.txt"))
        impl = read_lines(os.path.join(outdir, "impl.txt"))
        model = read_lines(os.path.join(outdir, "model.txt"))
        if not (len(ops) == len(impl) == len(model)):
            res["ok"] = False
            res["disagreements"].append({"line": min(len(impl), len(model)), "op": "(stream length)",
                                         "impl": f"{len(impl)} lines", "model": f"{len(model)} lines"})
        for i, (a, b, c) in enumerate(zip(ops, impl, model)):
            if b != c:
                res["ok"] = False
                if len(res["disagreements"]) < 20:
                    res["disagreements"].append({"line": i + 1, "op": a, "impl": b, "model": c})
        res["compared"] = len(ops)
    return res


# ---------------------------------------------------------------- known findings

def load_findings(pid):
    p = os.path.join(VERIF, "known_findings.json")
    out = []
    if os.path.exists(p):
        out = [f for f in json.load(open(p)).get("findings", []) if f.get("property") == pid]
    extra = os.environ.get("VERIF_EXTRA_FINDINGS")      # development only: not-yet-merged inbox entries
    if extra and os.path.exists(extra):
        for l in open(extra):
            if l.strip():
                f = json.loads(l)
                if f.get("property") == pid:
                    out.append(f)
    return out


# ---------------------------------------------------------------- evidence

def write_evidence(pid, ev):
    # dry-runs against a scratch copy (VERIF_REPO) must never overwrite the evidence of /repo itself
    d = os.path.join(VERIF, "evidence") if not ALT else os.path.join(BUILD, "evidence-alt")
    os.makedirs(d, exist_ok=True)
    p = os.path.join(d, pid + ".json")
    tmp = p + ".tmp%d" % os.getpid()
    json.dump(ev, open(tmp, "w"), indent=1, sort_keys=True)
    os.replace(tmp, p)


def write_replay(pid, name, content):
    d = os.path.join(REPLAYS, pid)
    os.makedirs(d, exist_ok=True)
    p = os.path.join(d, name)
    with open(p, "w") as f:
        f.write(content)
    return p


# ---------------------------------------------------------------- the generic check

def run_check(spec, tier, seed, replay=None):
    """One whole check.  Checks that share regenerated facts (the same extractor writes the same Generated/*.lean, whose
    compiled form every run reads) are serialised against each other: a dry-run on a scratch copy (VERIF_REPO) must not
    swap the facts under a run on /repo.  Locks are taken in sorted order."""
    names = sorted(set(spec.get("extract", []))) or [spec["id"].lower()]
    locks = [Lock("facts-" + n) for n in names]
    for l in locks:
        l.__enter__()
    try:
        return _run_check(spec, tier, seed, replay)
    finally:
        for l in reversed(locks):
            l.__exit__()


def _run_check(spec, tier, seed, replay=None):
    pid = spec["id"]
    t0 = time.time()
    violations = []          # (replay_path, suffix)
    notes = []
    scratch = os.path.join(SCRATCH, f"{pid}-{os.getpid()}")
    shutil.rmtree(scratch, ignore_errors=True)
    os.makedirs(scratch, exist_ok=True)
    if not replay:
        shutil.rmtree(os.path.join(REPLAYS, pid), ignore_errors=True)
    findings = load_findings(pid)
    known = {f["class"]: f for f in findings if f.get("status") == "known"}

    # 1. facts
    facts_status, facts_detail = extract_facts(spec.get("extract", []))
    if facts_status == "unreadable":
        notes.append("facts tie unreadable: " + facts_detail)

    # 2. prove
    pr = prove(spec["props"], leanchecker=(tier == "thorough"))
    if facts_status == "unreadable":
        # <Id>_facts_ok was checked against the committed Expected copy, not against what the source says now: the
        # theorems are no longer about the current code, so that obligation does not count as discharged.
        pr["failed_theorems"] = list(pr["failed_theorems"]) + [f"{pid}_facts_ok (facts of the current source unreadable)"]
        pr["errors"] = list(pr["errors"]) + ["facts tie unreadable: " + " ".join(facts_detail.split())[:400]]
        pr["discharged"] = max(0, pr["discharged"] - 1)
    proof_broken = pr["discharged"] != pr["obligations"] or bool(pr["failed_theorems"])

    # 3. correspond: corpus first, then generated
    corr_runs = []
    oracle_fails = []
    disagreements = []
    corr_error = None
    corr_tier = "thorough" if (tier == "thorough" or facts_status == "unreadable") else "quick"
    if spec.get("harness"):
        corpus = sorted(glob.glob(os.path.join(VERIF, "corpus", pid, "*.ops")))
        plan = [("corpus:" + os.path.basename(c), c, corr_tier) for c in corpus]
        if replay:
            plan = [("replay", replay, corr_tier)]
        else:
            plan.append(("generated", None, corr_tier))
        for label, rp, t in plan:
            od = os.path.join(scratch, re.sub(r"\W", "_", label))
            r = correspond(spec, seed, t, od, replay=rp)
            r["label"] = label
            corr_runs.append(r)
            if r.get("error"):
                corr_error = r["error"]
            for d in r["disagreements"]:
                d["run"] = label
                disagreements.append(d)
            for o in r["oracle"]:
                o["run"] = label
                oracle_fails.append(o)

    # 4. decide
    unknown = [o for o in oracle_fails if o.get("class") not in known]
    seen_known = {}
    for o in oracle_fails:
        if o.get("class") in known:
            seen_known.setdefault(o["class"], o)
    searched = False
    if (proof_broken or disagreements or corr_error) and not unknown and spec.get("harness") and not replay \
            and not (corr_error and any(r.get("build_failed") for r in corr_runs)):
        # widened search for a concrete failing input on the real code (direct oracle), other seeds / thorough tier
        searched = True
        for k in range(spec.get("search_rounds", 2)):
            od = os.path.join(scratch, f"search{k}")
            r = correspond(dict(spec, driver=None), seed + 7919 * (k + 1), "thorough", od)
            for o in r["oracle"]:
                o["run"] = f"search{k}"
                if o.get("class") not in known:
                    unknown.append(o)
                else:
                    seen_known.setdefault(o["class"], o)
            if unknown:
                break
    if unknown:
        by_class = {}
        for o in unknown:
            by_class.setdefault(o.get("class"), o)
        for cls, o in by_class.items():
            body = json.dumps({"property": pid, "kind": "failing-input", "class": cls, "input": o.get("input"),
                               "detail": o.get("detail"), "run": o.get("run"), "seed": seed, "tier": tier,
                               "replay_ops": o.get("input") if isinstance(o.get("input"), str) else None}, indent=1)
            p = write_replay(pid, f"violation-{re.sub(r'[^A-Za-z0-9_.-]', '_', str(cls))}.json", body)
            if isinstance(o.get("input"), str):
                write_replay(pid, f"violation-{re.sub(r'[^A-Za-z0-9_.-]', '_', str(cls))}.ops", o["input"] + "\n")
            violations.append((p, ""))
    else:
        if proof_broken:
            body = json.dumps({"property": pid, "kind": "proof-obligation-broken",
                               "theorems_no_longer_checking": pr["failed_theorems"], "errors": pr["errors"][:10],
                               "forbidden_tokens": pr["forbidden"], "bad_axioms": pr.get("bad_axioms"),
                               "facts_tie": facts_status, "searched_for_failing_input": searched,
                               "checker_cmd": pr["checker_cmd"]}, indent=1)
            violations.append((write_replay(pid, "proof-broken.json", body), " no-failing-input-found"))
        if disagreements or corr_error:
            ops = "".join(d["op"] + "\n" for d in disagreements if d.get("op") and not d["op"].startswith("("))
            if ops:
                write_replay(pid, "correspondence-broken.ops", ops)
            body = json.dumps({"property": pid, "kind": "correspondence-broken",
                               "correspondence": f"{spec.get('harness')} vs {spec.get('driver')}",
                               "first_disagreements": disagreements[:10], "error": corr_error,
                               "searched_for_failing_input": searched, "seed": seed, "tier": tier}, indent=1)
            violations.append((write_replay(pid, "correspondence-broken.json", body), " no-failing-input-found"))

    # 5. report
    for cls, f in known.items():
        st = "confirmed on this run" if cls in seen_known else "NOT reproduced on this run (entry may be stale)"
        print(f"KNOWN-FINDING: property={pid} {cls}: {f.get('what', '')} [{st}]")
    if corr_error:
        notes.append("correspondence run failed: " + " ".join(str(corr_error).split())[:600])
    if proof_broken:
        notes.append("proof obligations not discharged: " + ", ".join(pr["failed_theorems"][:8]) + " | " + " ".join(" ".join(pr["errors"][:3]).split())[:500])
    for d in disagreements[:3]:
        notes.append(f"disagreement ({d.get('run')}, line {d.get('line')}): op={str(d.get('op'))[:160]} impl={str(d.get('impl'))[:120]} model={str(d.get('model'))[:120]}")
    for n in notes:
        print("NOTE: " + n)
    for p, suffix in violations:
        print(f"VIOLATION property={pid} replay={p}{suffix}")

    # 6. evidence
    stats = {}
    for r in corr_runs:
        if r["label"] == "generated" or r["label"] == "replay":
            stats = r.get("stats", {})
    evals = sum(r.get("stats", {}).get("evaluations", 0) for r in corr_runs)
    dn = sum(r.get("stats", {}).get("distinct_nontrivial", 0) for r in corr_runs if r["label"] in ("generated", "replay"))
    samples = list(stats.get("samples") or [])
    level = spec.get("level", "proof")
    trusted = ["Lean 4.33.0 kernel", "axioms used by the property theorems: " + (", ".join(pr["axioms_used"]) or "none")] \
        + spec.get("trusted", [])
    cov = {
        "obligations": pr["obligations"], "discharged": pr["discharged"], "checker_cmd": pr["checker_cmd"],
        "trusted_base": trusted, "theorems": pr["theorems"], "failed_theorems": pr["failed_theorems"],
        "axioms_per_theorem": pr["axioms"], "proof_build_s": pr["build_s"],
        "facts_tie": facts_status, "facts_extractors": spec.get("extract", []),
        "evaluations": evals, "distinct_nontrivial": dn,
        "rule": stats.get("rule", spec.get("rule", "")), "samples": samples[:8] or ["(no correspondence cases)"],
        "exhaustive": bool(stats.get("exhaustive", False)),
        "generator_distribution": stats.get("distribution", {}),
        "programs": evals, "disagreements_checked": len(disagreements),
        "corpus_files_replayed": len([r for r in corr_runs if r["label"].startswith("corpus:")]),
        "correspondence_lines_compared": sum(r.get("compared", 0) for r in corr_runs),
        "oracle_failures_total": len(oracle_fails),
        "known_findings_confirmed": sorted(seen_known), "known_findings_listed": sorted(known),
        "fixed_findings_listed": [f["class"] for f in findings if f.get("status") == "fixed"],
        "widened_search_run": searched,
        "explanation": spec.get("explanation", ""),
    }
    if spec.get("extra_coverage"):
        cov.update(spec["extra_coverage"])
    ev = {"property_id": pid, "tier": tier, "seed": seed, "level": level, "coverage": cov,
          "assumptions": spec.get("assumptions", []), "wall_s": round(time.time() - t0, 2),
          "violations": len(violations)}
    write_evidence(pid, ev)
    shutil.rmtree(scratch, ignore_errors=True)
    if ALT:   # dry-run against a scratch copy: put the shared Generated/ files back to what /repo says
        extract_facts(spec.get("extract", []), repo="/repo")
    print(f"{pid} {tier}: obligations {pr['discharged']}/{pr['obligations']} facts={facts_status} "
          f"cases={evals} nontrivial={dn} disagreements={len(disagreements)} oracle_fail={len(oracle_fails)} "
          f"(known classes {sorted(seen_known)}) wall={ev['wall_s']}s")
    return 1 if violations else 0
