"""./check baseline [tree]: run the pinned suite (guard OFF) on an rsync copy of `tree` (default /repo) and compare
with /root/.vp/BASELINE.json's stable_pass list.  Exit 0 iff every stable_pass test passed."""
import json, os, shutil, subprocess, sys, tempfile
from . import core


def run(tree="/repo", keep_log=None):
    base = json.load(open("/root/.vp/BASELINE.json"))
    want = set(base["stable_pass"])
    copy = tempfile.mkdtemp(prefix="plz-baseline.", dir="/var/tmp")
    try:
        subprocess.run(["rsync", "-a", "--exclude", "plz-out", "--exclude", ".git", tree.rstrip("/") + "/", copy + "/"], check=True)
        env = core.goenv()
        passed, failed = set(), set()
        log = open(keep_log, "w") if keep_log else None
        for m in [".", "./test"]:
            p = subprocess.Popen(["go", "test", "-mod=mod", "-json", "-vet=off", "-count=1", "-timeout", "25m", "./..."],
                                 cwd=os.path.join(copy, m), env=env, stdout=subprocess.PIPE, stderr=subprocess.DEVNULL, text=True, errors="replace")
            for line in p.stdout:
                if log:
                    log.write(line)
                line = line.strip()
                if not line.startswith("{"):
                    continue
                try:
                    ev = json.loads(line)
                except Exception:
                    continue
                a, pkg, t = ev.get("Action"), ev.get("Package", ""), ev.get("Test")
                if t is None or a not in ("pass", "fail"):
                    continue
                (passed if a == "pass" else failed).add(pkg + "::" + t)
            p.wait()
        passed -= failed
        missing = sorted(want - passed)
        print(f"baseline on {tree}: {len(want & passed)}/{len(want)} stable tests pass; {len(missing)} missing/failed")
        for m in missing[:40]:
            print("  NOT PASSING:", m, "(failed)" if m in failed else "(not run)")
        return 0 if not missing else 1
    finally:
        subprocess.run(["chmod", "-R", "u+w", copy])
        shutil.rmtree(copy, ignore_errors=True)


def main(argv):
    # one suite run at a time on this machine: src/cache's tests listen on a fixed port (8989) and several packages are
    # timing-sensitive, so two concurrent runs make each other fail
    with core.Lock("baseline"):
        return run(argv[0] if argv else "/repo")
