"""./check merge-findings: merge findings_inbox/*.jsonl into known_findings.json (keyed by property+class; inbox wins on text,
but an entry already marked fixed stays fixed)."""
import glob, json, os
from . import core


def main():
    p = os.path.join(core.VERIF, "known_findings.json")
    d = json.load(open(p)) if os.path.exists(p) else {"findings": []}
    idx = {(f["property"], f["class"]): f for f in d["findings"]}
    n = 0
    for fn in sorted(glob.glob(os.path.join(core.VERIF, "findings_inbox", "*.jsonl"))):
        for l in open(fn):
            if not l.strip():
                continue
            f = json.loads(l)
            k = (f["property"], f["class"])
            if k in idx:
                if idx[k].get("status") == "fixed":
                    continue
                idx[k].update(f)
            else:
                d["findings"].append(f)
                idx[k] = f
                n += 1
    d["findings"].sort(key=lambda f: (f["property"], f["class"]))
    json.dump(d, open(p, "w"), indent=1)
    print(f"known_findings.json: {len(d['findings'])} entries ({n} new)")
    return 0
