#!/bin/bash
# Runs the repository's pinned test suite with the verif guard OFF, on an rsync copy of /repo's working tree
# (the suite writes into the tree it runs in, so it must never run inside /repo).  Prints go test -json output.
set -u
COPY=$(mktemp -d /var/tmp/plz-baseline.XXXXXX)
trap 'chmod -R u+w "$COPY" 2>/dev/null; rm -rf "$COPY"' EXIT
rsync -a --exclude plz-out /repo/ "$COPY/"
cd "$COPY" || exit 2
export GOFLAGS=-mod=mod GOPROXY=off
rc=0
for m in . ./test ; do
  (cd "$COPY/$m" && go test -mod=mod -json -vet=off -count=1 -timeout 25m ./...) || rc=$?
done
exit $rc
