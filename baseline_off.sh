#!/bin/bash
# MANIFEST.hooks.baseline_off_cmd: the repository's pinned test suite with the verif guard OFF (no -tags), run on an rsync
# copy of /repo's working tree (the suite writes into the tree it runs in), compared with /root/.vp/BASELINE.json's
# stable_pass list.  Exit 0 iff all 347 stable tests pass.  The raw `go test -json` stream is kept in
# /verif/.build/baseline.gotest.json for anyone who wants to parse it with their own tool.
cd "$(dirname "$0")" && exec python3 - <<'PY'
import sys
sys.path.insert(0, ".")
from vlib import baseline, core
import os
os.makedirs(core.BUILD, exist_ok=True)
with core.Lock("baseline"):
    sys.exit(baseline.run("/repo", keep_log=os.path.join(core.BUILD, "baseline.gotest.json")))
PY
