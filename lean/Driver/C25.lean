import PlzVerif.Base.Proto
import PlzVerif.Model.GC
open PlzVerif PlzVerif.GC PlzVerif.Proto

def parseAdj (s : String) : Option (List (Nat × List Nat)) :=
  if s = "-" then some [] else
  (s.splitOn ";").mapM fun e =>
    match e.splitOn ":" with
    | [k, v] => do
      let k ← k.toNat?
      let v ← parseNats v
      pure (k, v)
    | _ => none

/-- an adjacency field must have exactly one entry per id `0..n-1`, values below `bound` -/
def adjOK (al : List (Nat × List Nat)) (n bound : Nat) : Bool :=
  al.length == n && (List.range n).all (fun i => (al.map (·.1)).count i == 1) && al.all (fun e => e.2.all (· < bound))

def look (al : List (Nat × List Nat)) (t : Nat) : List Nat := match al.lookup t with | some ds => ds | none => []

def insertSorted (x : Nat) : List Nat → List Nat
  | [] => [x]
  | y :: ys => if x ≤ y then x :: y :: ys else y :: insertSorted x ys

def countFields (s : String) : Nat := if s = "-" then 0 else (s.splitOn ",").length

def step (line : String) : String :=
  match line.splitOn " " with
  | ["gc", it, filter, args, named, subincs, names, files, nodes, decl, res, flags, pl, sibs, srcs, data] =>
    match parseNats filter, parseNats args, parseNats named, parseNats subincs, parseNats nodes, parseAdj decl,
          parseAdj res, parseNats flags, parseNats pl, parseAdj sibs, parseAdj srcs, parseAdj data with
    | some filter, some args, some named, some subincs, some nodes, some decl, some res, some flags, some pl,
      some sibs, some srcs, some data =>
      let n := countFields names
      let nf := countFields files
      if (it == "0" || it == "1") && nodes.length == n && (List.range n).all (fun i => nodes.count i == 1) &&
         flags.length == n && flags.all (· < 32) && pl.length == n &&
         adjOK decl n n && adjOK res n n && adjOK sibs n n && adjOK srcs n nf && adjOK data n nf &&
         (filter ++ args ++ named ++ subincs).all (· < n) then
        let bit := fun (t b : Nat) => match flags[t]? with | some f => (f / b) % 2 == 1 | none => false
        let G : Graph := {
          nodes := nodes, decl := look decl, res := look res
          isBinary := fun t => bit t 1, isTest := fun t => bit t 2, testOnly := fun t => bit t 4
          keepLabel := fun t => bit t 8, hasParent := fun t => bit t 16
          pl := fun t => match pl[t]? with | some p => p | none => t
          sibs := look sibs, srcs := look srcs, data := look data }
        let Q : Query := { filter := filter, args := args, named := named, subincs := subincs, includeTests := it == "1" }
        match targetsToRemove G Q with
        | none => "oof"
        | some (ts, fs) => showNats ts ++ " / " ++ showNats (fs.foldr insertSorted [])
      else "bad-op"
    | _, _, _, _, _, _, _, _, _, _, _, _ => "bad-op"
  | _ => "bad-op"

def main : IO Unit := runStateless step
