import PlzVerif.Base.Proto
import PlzVerif.Model.Config
import PlzVerif.Generated.C39
open PlzVerif PlzVerif.Config PlzVerif.Proto

/-
Line protocol (one scenario per line):
  cfg p=<#profiles> x=<#xdgdirs>,<0|1> [s:<role>:<profile index or ->:<stmts>]… [o:<opt>=<hex>]…
  stmts = "-" (present but empty) or ';'-separated  <opt>=<hex value>  |  <opt>!   (blank)
Output: err | operr | i=<value> for every option of the table joined by '|'
  single: hex, "~" when absent;  list/plugin: "[" hex,… "]", "~" when absent
-/

def parseOptId (t : String) : Option Nat := do
  let o ← t.toNat?
  if o < table.length then some o else none

def parseStmt (t : String) : Option Stmt :=
  if t.endsWith "!" then (parseOptId (t.dropEnd 1).toString).map fun o => ⟨o, none⟩
  else match t.splitOn "=" with
    | [o, v] => do
      let o ← parseOptId o
      let v ← strOfHex v
      pure ⟨o, some v⟩
    | _ => none

def parseStmts (t : String) : Option Source :=
  if t = "-" then some [] else (t.splitOn ";").mapM parseStmt

structure Scenario where
  profiles : Nat := 0
  xdgDirs : Nat := 0
  xdgHome : Bool := false
  sources : List (SrcName × Source) := []
  ovs : List Override := []

def parseTok (sc : Scenario) (t : String) : Option Scenario :=
  if t.startsWith "p=" then (t.drop 2).toString.toNat?.map fun n => { sc with profiles := n }
  else if t.startsWith "x=" then
    match (t.drop 2).toString.splitOn "," with
    | [d, h] => do
      let d ← d.toNat?
      let h ← h.toNat?
      pure { sc with xdgDirs := d, xdgHome := h != 0 }
    | _ => none
  else if t.startsWith "s:" then
    match t.splitOn ":" with
    | [_, role, p, st] => do
      let st ← parseStmts st
      let prof ← if p = "-" then some none else p.toNat?.map fun i => some ("p" ++ toString i)
      pure { sc with sources := sc.sources ++ [((role, prof), st)] }
    | _ => none
  else if t.startsWith "o:" then
    match (t.drop 2).toString.splitOn "=" with
    | [o, v] => do
      let o ← parseOptId o
      let v ← strOfHex v
      pure { sc with ovs := sc.ovs ++ [⟨o, v⟩] }
    | _ => none
  else none

def showList (l : List String) : String := "[" ++ ",".intercalate (l.map hexOfStr) ++ "]"

def showOpt (c : Cfg) (o : Nat) : String :=
  toString o ++ "=" ++
  match kindOf o with
  | .str | .bool | .mapKey => (match c.single o with | some v => hexOfStr v | none => "~")
  | .list => showList (c.list o)
  | .plugin => (match c.plugin o with | some v => showList v | none => "~")

def run (sc : Scenario) : String :=
  let mode := (ProfileMode.ofString Generated.C39.profileMode).getD .none
  let files := expandRoles (Generated.C39.fileOrder.map roleOf) sc.xdgDirs sc.xdgHome
  let profiles := (List.range sc.profiles).map fun i => "p" ++ toString i
  let order := readOrder mode files profiles
  let srcs : List (Option Source) := order.map fun n => (sc.sources.find? (·.1 == n)).map (·.2)
  let init := initOf Generated.C39.scalarDefaults Generated.C39.prepopulatedSlices
  let D := defaultsOf Generated.C39.sliceDefaults
  match readConfig kindOf init D srcs with
  | none => "err"
  | some c =>
    match applyOverrides kindOf lowOf c sc.ovs with
    | none => "operr"
    | some c => "|".intercalate ((List.range table.length).map (showOpt c))

def step (line : String) : String :=
  match line.splitOn " " with
  | "cfg" :: toks =>
    match toks.foldlM parseTok ({} : Scenario) with
    | some sc => run sc
    | none => "bad-op"
  | _ => "bad-op"

def main : IO Unit := runStateless step
