import PlzVerif.Base.Proto
import PlzVerif.Model.AspRender
import PlzVerif.Model.AspGenerated
open PlzVerif PlzVerif.Asp PlzVerif.Proto

def F : Facts := genF

def label : String := "//fz:d"

def showRun (r : Except String (List (String × Globals) × List (String × Globals))) : String :=
  match r with
  | .ok ([(_, g)], _) => showGlobalsR g
  | .ok _ => "ERR model: shape"
  | .error e => if e.startsWith "model:" || e == "fuel" then "ERR " ++ e else "ERR"

/-- `fz <application> ( pair <value> ( prog … ) )` -/
def step (line : String) : String :=
  match line.splitOn " " with
  | "fz" :: _name :: rest =>
    match parseSExp (" ".intercalate rest) with
    | some (.node [.atom "pair", v, .node (.atom "prog" :: stmts)]) =>
      match toExpr 1000 v, toStmts 1000 stmts with
      | some ve, some prog =>
        let localRun := runPackages F 20000 [] [("p", Stmt.assign "X" ve :: prog)]
        let sub := Stmt.expr (.call "subinclude" [(none, .str label)])
        let importedRun := runPackages F 20000 [(label, [Stmt.assign "X" ve])] [("p", sub :: prog)]
        "local=" ++ showRun localRun ++ "|imported=" ++ showRun importedRun
      | _, _ => "bad-op"
    | _ => "bad-op"
  | _ => "bad-op"

def main : IO Unit := runStateless step
