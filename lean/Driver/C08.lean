import PlzVerif.Base.Proto
import PlzVerif.Model.RuleHash
import PlzVerif.Model.RuleProto
import PlzVerif.Model.Sha1
import PlzVerif.Generated.C08
/-!
Line protocol for C08 (see harness/rulehash/rulehash.go; the C07 ops live in Driver/C07.lean):
  rule <ctx+target tokens>                          -> hex sha1(ruleSer)
  pre  <ctx+target tokens>                          -> hex ruleSer
  pair <ctx> ; <target> ; [<ctx> ;] <target>        -> same | ne | eq <root-cause class>
Tokens are `key=value`; byte strings hex ("-" empty), lists "," separated ("." empty), labels `sub|pkg|name`,
maps `k:v`, groups `k:v1/v2` (".": no members).
-/
open PlzVerif PlzVerif.RuleHash PlzVerif.Proto PlzVerif.RuleProto

def F : Facts := Generated.C08.facts

def hexOut (b : Bytes) : String := if b.isEmpty then "-" else hexOfBytes b

def isKV : Item → Bool
  | .kv _ => true
  | _ => false

/-- Root cause of an equal pre-image for two targets whose relevant attributes differ. -/
def classify (c c2 : Ctx) (a b : Target) : String :=
  let ca := chunks F c (view F c a)
  let cb := chunks F c2 (view F c2 b)
  if ca != cb then
    (if ca.filter (fun x => !isKV x.1) == cb.filter (fun x => !isKV x.1) then "hashmap-kv-unframed"
     else "rulehash-writes-unframed")
  else if a.tools != b.tools || keysOrder true a.namedTools != keysOrder true b.namedTools then "rulehash-omits-tools"
  else if keysOrder true a.namedSrcs != keysOrder true b.namedSrcs then "rulehash-omits-named-src-names"
  else if keysOrder true a.namedSecrets != keysOrder true b.namedSecrets then "rulehash-omits-named-secrets"
  else "unexplained-rulehash-collision"

def pairOut (c c2 : Ctx) (a b : Target) : String :=
  if !(wellFormed c a && wellFormed c2 b) then "bad-op"
  else if relevant c a = relevant c2 b then "same"
  else if ruleSer F c a != ruleSer F c2 b then "ne"
  else "eq " ++ classify c c2 a b

def step (line : String) : String :=
  match line.splitOn " " with
  | "pair" :: rest =>
    let body := " ".intercalate rest
    match body.splitOn " ; " with
    | [pc, pa, pb] =>
      match parseToks true false {} (pc.splitOn " "), parseToks false true {} (pa.splitOn " "),
            parseToks false true {} (pb.splitOn " ") with
      | some (c, _), some (_, a), some (_, b) => pairOut c c a b
      | _, _, _ => "bad-op"
    | [pc, pa, pc2, pb] =>
      match parseToks true false {} (pc.splitOn " "), parseToks false true {} (pa.splitOn " "),
            parseToks true false {} (pc2.splitOn " "), parseToks false true {} (pb.splitOn " ") with
      | some (c, _), some (_, a), some (c2, _), some (_, b) =>
        if c2.runtime = c.runtime && c2.config = c.config && c2.fallback = c.fallback then pairOut c c2 a b else "bad-op"
      | _, _, _, _ => "bad-op"
    | _ => "bad-op"
  | ["e2e08", seed] =>
    -- pre-build functions end to end: decided on the real binary alone (harness/rulehash/c08e2e.go); the order of
    -- memoisation it exercises is the regenerated fact `earlyRuleHashCalls` of Props/C08
    match seed.toNat? with
    | some n => if toString n = seed then "ok" else "bad-op"
    | none => "bad-op"
  | op :: toks =>
    if op = "rule" || op = "pre" then
      match parseToks true true {} toks with
      | some (c, t) =>
        if !wellFormed c t then "bad-op"
        else if op = "pre" then hexOut (ruleSer F c t)
        else hexOfBytes (Sha1.sha1 (ruleSer F c t))
      | none => "bad-op"
    else "bad-op"
  | _ => "bad-op"

def main : IO Unit := runStateless step
