import PlzVerif.Base.Proto
import PlzVerif.Model.RuleHash
import PlzVerif.Model.Sha1
import PlzVerif.Generated.C08
/-!
Line protocol for C08 / C07 (see harness/cmd/c08):
  rule <ctx+target tokens>                          -> hex sha1(ruleSer)
  pre  <ctx+target tokens>                          -> hex ruleSer
  pair <ctx> ; <target> ; [<ctx> ;] <target>        -> same | ne | eq <root-cause class>
  perm <ctx+target tokens>                          -> as `rule` (C07: the harness feeds permuted encodings)
  rehash <ctx+target tokens>                        -> post-build rule hash before / after UnprefixedHashes()
  e2e <seed>                                        -> ok <number of targets of the generated repository>
Tokens are `key=value`; byte strings hex ("-" empty), lists "," separated ("." empty), labels `sub|pkg|name`,
maps `k:v`, groups `k:v1/v2` (".": no members).
-/
open PlzVerif PlzVerif.RuleHash PlzVerif.Proto

def F : Facts := Generated.C08.facts

def unhx (s : String) : Option Bytes :=
  if s = "-" then some [] else if s.isEmpty then none else bytesOfHex s

def decList (s : String) : Option (List Bytes) :=
  if s = "." then some [] else (s.splitOn ",").mapM unhx

def decLabel (s : String) : Option Label :=
  match s.splitOn "|" with
  | [a, b, c] => do pure ⟨← unhx a, ← unhx b, ← unhx c⟩
  | _ => none

def decLabels (sep : String) (s : String) : Option (List Label) :=
  if s = "." then some [] else (s.splitOn sep).mapM decLabel

def decKVs (s : String) : Option (List (Bytes × Bytes)) :=
  if s = "." then some [] else (s.splitOn ",").mapM fun p =>
    match p.splitOn ":" with
    | [k, v] => do pure (← unhx k, ← unhx v)
    | _ => none

def decGroups (s : String) : Option (List (Bytes × List Bytes)) :=
  if s = "." then some [] else (s.splitOn ",").mapM fun p =>
    match p.splitOn ":" with
    | [k, v] => do pure (← unhx k, ← (if v = "." then some [] else (v.splitOn "/").mapM unhx))
    | _ => none

def decPGroups (s : String) : Option (List (Bytes × List Label)) :=
  if s = "." then some [] else (s.splitOn ",").mapM fun p =>
    match p.splitOn ":" with
    | [k, v] => do pure (← unhx k, ← decLabels "/" v)
    | _ => none

def flagNames : List String := ["isBinary", "isSubrepo", "sandbox", "needsTransitiveDeps", "outputIsComplete", "stamp",
  "isFilegroup", "isTextFile", "isRemoteFile", "isLocal", "srcListFiles", "exitOnError", "preBuild", "postBuild",
  "testSandbox", "isTest"]

def setFlag (t : Target) : String → Option Target
  | "isBinary" => some { t with isBinary := true }
  | "isSubrepo" => some { t with isSubrepo := true }
  | "sandbox" => some { t with sandbox := true }
  | "needsTransitiveDeps" => some { t with needsTransitiveDeps := true }
  | "outputIsComplete" => some { t with outputIsComplete := true }
  | "stamp" => some { t with stamp := true }
  | "isFilegroup" => some { t with isFilegroup := true }
  | "isTextFile" => some { t with isTextFile := true }
  | "isRemoteFile" => some { t with isRemoteFile := true }
  | "isLocal" => some { t with isLocal := true }
  | "srcListFiles" => some { t with srcListFiles := true }
  | "exitOnError" => some { t with exitOnError := true }
  | "preBuild" => some { t with preBuild := true }
  | "postBuild" => some { t with postBuild := true }
  | "testSandbox" => some { t with testSandbox := true }
  | "isTest" => some { t with isTest := true }
  | _ => none

def nodupS (l : List String) : Bool := match l with
  | [] => true
  | x :: r => !r.contains x && nodupS r

/-- One `key=value` token applied to the context / target. `ctxOK`/`tgtOK`: which of the two may be set. -/
def applyTok (ctxOK tgtOK : Bool) (st : Ctx × Target) (tok : String) : Option (Ctx × Target) :=
  let (c, t) := st
  match tok.splitOn "=" with
  | [k, v] =>
    let ctxKey := k = "runtime" || k = "config" || k = "fallback" || k = "environ"
    if ctxKey then
      if !ctxOK then none else
      match k with
      | "runtime" => if v = "1" then some ({ c with runtime := true }, t) else none
      | "config" => (unhx v).map fun b => ({ c with config := b }, t)
      | "fallback" => (unhx v).map fun b => ({ c with fallback := b }, t)
      | _ => (decKVs v).map fun m => ({ c with environ := m }, t)
    else if !tgtOK then none else
    match k with
    | "label" => (decLabel v).map fun x => (c, { t with label := x })
    | "deps" => (decLabels "," v).map fun x => (c, { t with deps := x })
    | "visibility" => (decLabels "," v).map fun x => (c, { t with visibility := x })
    | "hashes" => (decList v).map fun x => (c, { t with hashes := x })
    | "srcs" => (decList v).map fun x => (c, { t with srcs := x })
    | "namedSrcs" => (decGroups v).map fun x => (c, { t with namedSrcs := x })
    | "outs" => (decList v).map fun x => (c, { t with outs := x })
    | "namedOuts" => (decGroups v).map fun x => (c, { t with namedOuts := x })
    | "licences" => (decList v).map fun x => (c, { t with licences := x })
    | "optionalOuts" => (decList v).map fun x => (c, { t with optionalOuts := x })
    | "labels" => (decList v).map fun x => (c, { t with labels := x })
    | "secrets" => (decList v).map fun x => (c, { t with secrets := x })
    | "command" => (unhx v).map fun x => (c, { t with command := x })
    | "commands" => (decKVs v).map fun x => (c, { t with commands := some x })
    | "requires" => (decList v).map fun x => (c, { t with requires := x })
    | "provides" => (decPGroups v).map fun x => (c, { t with provides := x })
    | "passEnv" => (decList v).map fun x => (c, { t with passEnv := some x })
    | "outputDirs" => (decList v).map fun x => (c, { t with outputDirs := x })
    | "entryPoints" => (decKVs v).map fun x => (c, { t with entryPoints := x })
    | "env" => (decKVs v).map fun x => (c, { t with env := x })
    | "fileContent" => (unhx v).map fun x => (c, { t with fileContent := x })
    | "data" => (decList v).map fun x => (c, { t with data := x })
    | "namedData" => (decGroups v).map fun x => (c, { t with namedData := x })
    | "testOutputs" => (decList v).map fun x => (c, { t with testOutputs := x })
    | "testCommand" => (unhx v).map fun x => (c, { t with testCommand := x })
    | "testCommands" => (decKVs v).map fun x => (c, { t with testCommands := some x })
    | "testArgsPlaceholder" => (unhx v).map fun x => (c, { t with testArgsPlaceholder := x })
    | "tools" => (decList v).map fun x => (c, { t with tools := x })
    | "namedTools" => (decGroups v).map fun x => (c, { t with namedTools := x })
    | "namedSecrets" => (decGroups v).map fun x => (c, { t with namedSecrets := x })
    | "passUnsafeEnv" => (decList v).map fun x => (c, { t with passUnsafeEnv := some x })
    | "flags" =>
      let names := v.splitOn ","
      if !nodupS names then none else (names.foldlM setFlag t).map fun t' => (c, t')
    | _ => none
  | _ => none

def parseToks (ctxOK tgtOK : Bool) (c0 : Ctx) (toks : List String) : Option (Ctx × Target) :=
  let keys := toks.map fun t => (t.splitOn "=").headD ""
  if !nodupS keys then none else toks.foldlM (applyTok ctxOK tgtOK) (c0, {})

/-! well-formedness: what the Add* API guarantees (mirrors `wellFormed` in the harness) -/

def nodupB (l : List Bytes) : Bool := match l with
  | [] => true
  | x :: r => !r.contains x && nodupB r

def hasDotSlash : Bytes → Bool
  | 46 :: 47 :: _ => true
  | _ => false

def strictlySorted : List Bytes → Bool
  | [] => true
  | [x] => !x.isEmpty && !hasDotSlash x
  | x :: y :: r => !x.isEmpty && !hasDotSlash x && bytesLt x y && strictlySorted (y :: r)

def envNameOK (b : Bytes) : Bool := !b.isEmpty && !b.contains 61 && !b.contains 0

def isSpace (b : UInt8) : Bool := b == 32 || b == 9 || b == 10 || b == 11 || b == 12 || b == 13 || b == 0x85 || b == 0xA0

/-- `strings.TrimSpace(l) == l` for the byte strings the harness uses (ASCII white space at either end). -/
def trimmed (b : Bytes) : Bool :=
  match b, b.getLast? with
  | x :: _, some y => !(x == 32 || x == 9 || x == 10 || x == 11 || x == 12 || x == 13) &&
                      !(y == 32 || y == 9 || y == 10 || y == 11 || y == 12 || y == 13)
  | _, _ => true

def nodupL (l : List Label) : Bool := match l with
  | [] => true
  | x :: r => !r.contains x && nodupL r

def wellFormed (c : Ctx) (t : Target) : Bool :=
  strictlySorted t.outs && strictlySorted t.optionalOuts && strictlySorted t.testOutputs &&
  nodupB t.srcs && nodupB t.secrets && nodupB (t.namedSrcs.map (·.1)) && nodupB (t.namedOuts.map (·.1)) &&
  nodupB (t.namedData.map (·.1)) && nodupB (t.namedTools.map (·.1)) && nodupB (t.namedSecrets.map (·.1)) &&
  nodupB (t.entryPoints.map (·.1)) && nodupB (t.env.map (·.1)) && nodupB (c.environ.map (·.1)) &&
  t.namedOuts.all (fun g => strictlySorted g.2) && t.namedSrcs.all (fun g => nodupB g.2) &&
  t.namedSecrets.all (fun g => nodupB g.2) && nodupB (t.provides.map (·.1)) &&
  nodupL t.deps && !t.deps.contains t.label &&
  (t.commands.map fun m => nodupB (m.map (·.1))).getD true &&
  (t.testCommands.map fun m => nodupB (m.map (·.1))).getD true &&
  (t.passEnv.map fun l => l.all envNameOK).getD true &&
  c.environ.all (fun kv => envNameOK kv.1 && !kv.2.contains 0) &&
  t.licences.all trimmed && nodupB t.licences &&
  (t.isTest || (t.testOutputs.isEmpty && t.testCommand.isEmpty && t.testCommands.isNone &&
                t.testArgsPlaceholder.isEmpty && !t.testSandbox)) &&
  t.entryPoints.all (fun e => t.namedOuts.all fun g => e.1 != g.1) &&
  (!t.isFilegroup || t.entryPoints.all (fun e => t.namedSrcs.all fun g => e.1 != g.1)) &&
  t.label != ⟨[], [], []⟩ && t.label != ⟨[], [], originalName⟩

def hexOut (b : Bytes) : String := if b.isEmpty then "-" else hexOfBytes b

def isKV : Item → Bool
  | .kv _ => true
  | _ => false

/-- Root cause of an equal pre-image for two targets whose relevant attributes differ. -/
def classify (c c2 : Ctx) (a b : Target) : String :=
  let ca := chunks F c (view F c a)
  let cb := chunks F c2 (view F c2 b)
  if ca != cb then
    (if ca.filter (fun x => !isKV x.1) == cb.filter (fun x => !isKV x.1) then "hashmap-kv-unframed"
     else "rulehash-writes-unframed")
  else if a.tools != b.tools || keysOrder true a.namedTools != keysOrder true b.namedTools then "rulehash-omits-tools"
  else if keysOrder true a.namedSrcs != keysOrder true b.namedSrcs then "rulehash-omits-named-src-names"
  else if keysOrder true a.namedSecrets != keysOrder true b.namedSecrets then "rulehash-omits-named-secrets"
  else "unexplained-rulehash-collision"

def pairOut (c c2 : Ctx) (a b : Target) : String :=
  if !(wellFormed c a && wellFormed c2 b) then "bad-op"
  else if relevant c a = relevant c2 b then "same"
  else if ruleSer F c a != ruleSer F c2 b then "ne"
  else "eq " ++ classify c c2 a b

def step (line : String) : String :=
  match line.splitOn " " with
  | "pair" :: rest =>
    let body := " ".intercalate rest
    match body.splitOn " ; " with
    | [pc, pa, pb] =>
      match parseToks true false {} (pc.splitOn " "), parseToks false true {} (pa.splitOn " "),
            parseToks false true {} (pb.splitOn " ") with
      | some (c, _), some (_, a), some (_, b) => pairOut c c a b
      | _, _, _ => "bad-op"
    | [pc, pa, pc2, pb] =>
      match parseToks true false {} (pc.splitOn " "), parseToks false true {} (pa.splitOn " "),
            parseToks true false {} (pc2.splitOn " "), parseToks false true {} (pb.splitOn " ") with
      | some (c, _), some (_, a), some (c2, _), some (_, b) =>
        if c2.runtime = c.runtime && c2.config = c.config && c2.fallback = c.fallback then pairOut c c2 a b else "bad-op"
      | _, _, _, _ => "bad-op"
    | _ => "bad-op"
  | ["e2e", seed] =>
    -- end-to-end determinism is decided on the real binary alone; the model only knows the repository's size
    match seed.toNat? with
    | some n => if toString n = seed then s!"ok {(3 + n % 4) * 4}" else "bad-op"
    | none => "bad-op"
  | op :: toks =>
    if op = "rehash" then
      match parseToks true true {} toks with
      | some (c, t) =>
        if !wellFormed c t then "bad-op"
        else
          let c := { c with runtime := false }
          hexOfBytes (Sha1.sha1 (postBuildSer F c t t)) ++ " " ++ hexOfBytes (Sha1.sha1 (postBuildSer F c t (afterHashCheck t)))
      | none => "bad-op"
    else if op = "rule" || op = "pre" || op = "perm" then
      match parseToks true true {} toks with
      | some (c, t) =>
        if !wellFormed c t then "bad-op"
        else if op = "pre" then hexOut (ruleSer F c t)
        else hexOfBytes (Sha1.sha1 (ruleSer F c t))
      | none => "bad-op"
    else "bad-op"
  | _ => "bad-op"

def main : IO Unit := runStateless step
