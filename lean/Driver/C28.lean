import PlzVerif.Base.Proto
import PlzVerif.Model.DirBuilder
import PlzVerif.Generated.C28
open PlzVerif PlzVerif.DirBuilder PlzVerif.Proto

/-
Line protocol:
  db <op>…        op = d:<path> | f:<path>:<name>:<dg>:<0|1> | n:<path>:<name>:<dg|nil> | s:<path>:<name>:<target>
                  <path> = "." or hex components joined by "/", <name>/<target> hex, <dg> an alphanumeric token
    -> root=<ser root> em=<sorted distinct ser of every emitted message joined by "+">   |  panic
  env <sandbox 0|1> <binary 0|1> <hexloc> <hexhome> [<hexname>=<hexvalue>]…
    -> <hexname>=<hexvalue> … in the order buildEnv returns them ("-" when empty)
-/

def bytesNat (s : String) : Option (List Nat) :=
  if s.isEmpty then none else (bytesOfHex s).map fun l => l.map (·.toNat)

def parsePath (s : String) : Option Path :=
  if s = "." then some [] else (s.splitOn "/").mapM bytesNat

def okToken (s : String) : Bool := !s.isEmpty && s.all fun c => c.isAlphanum

def parseOp (t : String) : Option Op :=
  match t.splitOn ":" with
  | ["d", p] => (parsePath p).map Op.dir
  | ["f", p, n, dg, x] => do
    let p ← parsePath p
    let n ← bytesNat n
    if !okToken dg then none
    let x ← if x = "1" then some true else if x = "0" then some false else none
    pure (Op.file p ⟨n, dg, x⟩)
  | ["n", p, n, dg] => do
    let p ← parsePath p
    let n ← bytesNat n
    if !okToken dg then none
    pure (Op.dirNode p ⟨n, if dg = "nil" then none else some dg⟩)
  | ["s", p, n, t] => do
    let p ← parsePath p
    let n ← bytesNat n
    let t ← bytesNat t
    pure (Op.sym p ⟨n, t⟩)
  | _ => none

def insertSorted (s : String) : List String → List String
  | [] => [s]
  | x :: xs => if s < x then s :: x :: xs else if s = x then x :: xs else x :: insertSorted s xs

def runDb (ops : List Op) : String :=
  match walk Generated.C28.sharedLast ser (applyOps ops) with
  | none => "panic"
  | some w =>
    let em := (w.emitted.map ser).foldr insertSorted []
    "root=" ++ ser w.msg ++ " em=" ++ "+".intercalate em

def splitBytes (sep : Nat) (l : List Nat) : List (List Nat) :=
  let r := l.foldr (fun b (acc : List Nat × List (List Nat)) => if b = sep then ([], acc.1 :: acc.2) else (b :: acc.1, acc.2)) ([], [])
  r.1 :: r.2

def joinBytes (sep : Nat) : List (List Nat) → List Nat
  | [] => []
  | [x] => x
  | x :: xs => x ++ sep :: joinBytes sep xs

def runEnv (sandbox binary : Bool) (loc home : List Nat) (env : List (Name × List Nat)) : String :=
  let fix := fun v => joinBytes 58 (stripPath loc home (splitBytes 58 v))
  let pathName : Name := [80, 65, 84, 72]   -- "PATH"
  let out := buildEnvWith (msort (·.1)) pathName fix sandbox binary env
  if out.isEmpty then "-" else " ".intercalate (out.map fun e => hexName e.1 ++ "=" ++ hexName e.2)

def step (line : String) : String :=
  match line.splitOn " " with
  | "db" :: toks =>
    match (toks.filter (· ≠ "")).mapM parseOp with
    | some ops => runDb ops
    | none => "bad-op"
  | "env" :: sb :: bin :: loc :: home :: vars =>
    match bytesNat loc, bytesNat home, vars.mapM (fun v => match v.splitOn "=" with
        | [k, x] => do let k ← bytesNat k; let x ← bytesNat x; pure (k, x)
        | _ => none) with
    | some l, some h, some e =>
      if (sb = "0" ∨ sb = "1") ∧ (bin = "0" ∨ bin = "1") then runEnv (sb = "1") (bin = "1") l h e else "bad-op"
    | _, _, _ => "bad-op"
  | _ => "bad-op"

def main : IO Unit := runStateless step
