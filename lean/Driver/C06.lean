import PlzVerif.Base.Proto
import PlzVerif.Model.Cycle
import PlzVerif.Model.CycleFacts
open PlzVerif PlzVerif.Cycle PlzVerif.Proto

/-- `0:1,2;1:-;2:0` → association list; `none` on any malformed entry. -/
def parseAdj (s : String) : Option (List (Nat × List Nat)) :=
  if s = "-" then some [] else
  (s.splitOn ";").mapM fun e =>
    match e.splitOn ":" with
    | [k, v] => do
      let k ← k.toNat?
      let v ← parseNats v
      pure (k, v)
    | _ => none

/-- one step of a sequence: `nodes/adj`, well formed as for `check` -/
def parseStep (tok : String) : Option (Graph × List Nat) :=
  match tok.splitOn "/" with
  | [ns, adj] =>
    match parseNats ns, parseAdj adj with
    | some nodes, some al =>
      let keys := al.map (·.1)
      if nodes.all (fun n => keys.count n == 1) && keys.all (nodes.contains ·) &&
         al.all (fun e => e.2.all (nodes.contains ·)) then
        some (fun t => match al.lookup t with | some ds => ds | none => [], nodes)
      else none
    | _, _ => none
  | _ => none

def kindOf (c : Char) : Option Kind :=
  if c == 'd' || c == 't' then some .dep else if c == 's' then some .source else if c == 'a' then some .data
  else if c == 'r' then some .runtime else if c == 'i' then some .internal else none

/-- `0:1d,2a;1:-` : dependencies with a kind letter (d dep, t tool, s source, a data, r run-time, i internal) -/
def parseKAdj (s : String) : Option (List (Nat × List (Nat × Kind))) :=
  if s = "-" then some [] else
  (s.splitOn ";").mapM fun e =>
    match e.splitOn ":" with
    | [k, v] => do
      let k ← k.toNat?
      if v = "-" then pure (k, [])
      else
        let es ← (v.splitOn ",").mapM fun tok => do
          let cs := tok.toList
          match cs.getLast? with
          | some c =>
            let kind ← kindOf c
            let n ← (String.ofList cs.dropLast).toNat?
            pure (n, kind)
          | none => none
        pure (k, es)
    | _ => none

def showRes : Res → String
  | .none => "none"
  | .cyc c _ => "cycle " ++ showNats c
  | .oof => "oof"

def step (line : String) : String :=
  match line.splitOn " " with
  | ["kcheck", ns, kadj] =>
    match parseNats ns, parseKAdj kadj with
    | some nodes, some al =>
      let keys := al.map (·.1)
      if nodes.all (fun n => keys.count n == 1) && keys.all (nodes.contains ·) &&
         al.all (fun e => e.2.all (fun d => nodes.contains d.1)) then
        let kg : KGraph := fun t => match al.lookup t with | some ds => ds | none => []
        showRes (kcheck genCfg genAccessor kg nodes)
      else "bad-op"
    | _, _ => "bad-op"
  | "seq" :: toks =>
    if toks.isEmpty then "bad-op" else
    match toks.mapM parseStep with
    | some calls => "|".intercalate ((runSeq genCfg genPersist ⟨[], []⟩ calls).map showRes)
    | none => "bad-op"
  | ["check", ns, adj] =>
    match parseNats ns, parseAdj adj with
    | some nodes, some al =>
      -- the graph must be well formed: one entry per listed node, every dependency listed (else the real
      -- graph could not have been built)
      let keys := al.map (·.1)
      if nodes.all (fun n => keys.count n == 1) && keys.all (nodes.contains ·) &&
         al.all (fun e => e.2.all (nodes.contains ·)) then
        let g : Graph := fun t => match al.lookup t with | some ds => ds | none => []
        match check genCfg g nodes with
        | .none => "none"
        | .cyc c _ => "cycle " ++ showNats c
        | .oof => "oof"
      else "bad-op"
    | _, _ => "bad-op"
  | _ => "bad-op"

def main : IO Unit := runStateless step
