import PlzVerif.Base.Proto
import PlzVerif.Model.Coverage
import PlzVerif.Generated.C27
open PlzVerif PlzVerif.Coverage PlzVerif.Proto

def cmp := cmpOf Generated.C27.mergeCmp

def parseFiles (s : String) : Option Files :=
  if s = "-" then some [] else
  (s.splitOn ";").mapM fun e =>
    match e.splitOn ":" with
    | [k, v] => (parseNats v).map fun l => (k, l)
    | _ => none

def insertSorted (e : String × List Nat) : Files → Files
  | [] => [e]
  | x :: xs => if e.1 < x.1 then e :: x :: xs else x :: insertSorted e xs

def showFiles (f : Files) : String :=
  let sorted := f.foldr insertSorted []
  if sorted.isEmpty then "-" else ";".intercalate (sorted.map fun e => e.1 ++ ":" ++ showNats e.2)

def step (line : String) : String :=
  match line.splitOn " " with
  | ["merge", a, b] =>
    match parseNats a, parseNats b with
    | some xs, some ys => showNats (mergeWith cmp xs ys)
    | _, _ => "bad-op"
  | "fold" :: init :: runs =>
    match parseNats init, runs.mapM parseNats with
    | some i, some rs => showNats (rs.foldl (mergeWith cmp) i)
    | _, _ => "bad-op"
  | "agg" :: fs =>
    match fs.mapM parseFiles with
    | some (f :: rest) => showFiles (rest.foldl (aggregateWith cmp) f)
    | _ => "bad-op"
  | _ => "bad-op"

def main : IO Unit := runStateless step
