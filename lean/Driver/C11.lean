import PlzVerif.Base.Proto
import PlzVerif.Model.TestE2E
open PlzVerif PlzVerif.Proto PlzVerif.Build PlzVerif.BuildE2E PlzVerif.TestCache PlzVerif.TestE2E

structure St where
  files   : List (String × String) := []               -- source tree: path ↦ contents
  defs    : List TAttrs := []
  cacheOn : Bool := false                              -- `[cache] dir` configured
  inodes  : List (String × Nat) := []                  -- source tree: path ↦ inode (an in-place edit keeps it)
  nextIno : Nat := 0
  ts      : TSt := TState.empty                        -- plz-out (outputs, results files) and the artifact cache

def findDef (st : St) (l : String) : Option TAttrs := st.defs.find? (·.b.label = l)

def srcLabels (a : TAttrs) : List String := a.b.srcs.filter TestE2E.isLabel
def allDeps (a : TAttrs) : List String := srcLabels a ++ a.data.filter TestE2E.isLabel
def fileSrcsOf (a : TAttrs) : List String :=
  (a.b.srcs.filter (fun s => !TestE2E.isLabel s)).map (fun f => TestE2E.pkgOf a.b.label ++ "/" ++ f)

/-- DFS post-order of the dependency closure (sources and data labels); `none` on an undefined label / cycle. -/
def visit (st : St) : Nat → List String → String → Option (List String)
  | 0, _, _ => none
  | fuel + 1, done, l =>
    if done.contains l then some done else
    match findDef st l with
    | none => none
    | some a => do
      let done' ← (allDeps a).foldlM (fun d x => visit st fuel d x) done
      pure (if done'.contains l then done' else done' ++ [l])

def closure (st : St) (req : List String) : Option (List String) :=
  req.foldlM (fun d x => visit st (st.defs.length + 1) d x) []

def insEntry (e : String × String) : List (String × String) → List (String × String)
  | [] => [e]
  | x :: xs => if e.1 < x.1 then e :: x :: xs else if e.1 = x.1 then e :: xs else x :: insEntry e xs

/-- A path of the source tree: a file, or the (one-level) directory of the files directly under it. -/
def treeAt (st : St) (p : String) : Tree :=
  match st.files.lookup p with
  | some c => .file c
  | none =>
    let pre := p ++ "/"
    .dir ((st.files.filterMap fun e =>
      if e.1.startsWith pre then
        let rest := (e.1.drop pre.length).toString
        if rest.contains '/' then none else some (rest, e.2)
      else none).foldl (fun acc e => insEntry e acc) [])

def mkRepo (st : St) (order : List String) : TRepo String TAttrs String String Tree TAttrs String :=
  { repo :=
      { files := treeAt st,
        fname := id,
        outName := fun k => match findDef st k with | some a => TestE2E.pkgOf k ++ "/" ++ a.b.out | none => "",
        targets := order.filterMap fun l => (findDef st l).map fun a =>
          { key := l, attrs := a, srcs := fileSrcsOf a, deps := srcLabels a } },
    tests := fun k => (findDef st k).bind mkTestDef,
    ownName := fun k => match findDef st k with | some a => a.b.out | none => "",
    cfg := "", cacheOn := st.cacheOn,
    -- a runtime file that is the output of a filegroup over one source file is a hard link of that file
    linkOf := fun n => (st.defs.find? fun a => a.b.cmd == .fg && TestE2E.pkgOf a.b.label ++ "/" ++ a.b.out == n).bind fun a =>
      match fileSrcsOf a with
      | [f] => st.inodes.lookup f
      | _ => none }

/-- a gentest without `cmd` has no build command, so it never shows up in the action log -/
def hasCmd (st : St) (l : String) : Bool :=
  match findDef st l with | some a => a.kind != .puretest && a.b.cmd != .fg | none => true

def insSorted (s : String) : List String → List String
  | [] => [s]
  | x :: xs => if s < x then s :: x :: xs else x :: insSorted s xs
def sortStrs (l : List String) : List String := l.foldr insSorted []

def splitList (s : String) : List String := if s = "-" then [] else s.splitOn ","

def showOutcome : Outcome → String
  | .pass => "pass" | .fail => "fail" | .error => "error"

def parseBool (s : String) : Option Bool := if s = "1" then some true else if s = "0" then some false else none

def parseTCmd : List String → Option TCmd
  | ["tt"] => some .tt
  | ["ff"] => some .ff
  | ["has", p] => some (.has p)
  | ["grep", p, hw] => (strOfHex hw).map (.grep p)
  | _ => none

def parseFlags (s : String) : Option Flags :=
  if s = "-" then some {} else if s = "rerun" then some { rerun := true } else if s = "runs2" then some { numRuns := 2 } else none

def step (st : St) (line : String) : St × String :=
  match line.splitOn " " with
  | ["reset"] => ({}, "ok")
  | ["file", p, hc] =>
    match strOfHex hc with
    | some c =>      -- written to a temporary file and renamed over the old one: a NEW inode
      ({ st with files := (p, c) :: st.files.filter (·.1 ≠ p), inodes := (p, st.nextIno) :: st.inodes.filter (·.1 ≠ p),
                 nextIno := st.nextIno + 1 }, "ok")
    | none => (st, "bad-op")
  | ["filei", p, hc] =>
    match strOfHex hc with
    | some c =>      -- truncated and rewritten IN PLACE: the inode (and its xattrs, and its hard links) stays
      if (st.files.lookup p).isSome then ({ st with files := (p, c) :: st.files.filter (·.1 ≠ p) }, "ok")
      else ({ st with files := (p, c) :: st.files, inodes := (p, st.nextIno) :: st.inodes, nextIno := st.nextIno + 1 }, "ok")
    | none => (st, "bad-op")
  | ["rmfile", p] => ({ st with files := st.files.filter (·.1 ≠ p), inodes := st.inodes.filter (·.1 ≠ p) }, "ok")
  | "target" :: label :: kind :: srcs :: out :: rest =>
    let cmd? : Option Cmd := match kind, rest with
      | "cat", [] => some .cat
      | "catfirst", [] => some .catfirst
      | "mkdir", [] => some .mkdir
      | "fg", [] => some .fg
      | "const", [h] => (strOfHex h).map .const
      | _, _ => none
    match cmd? with
    | some cmd =>
      let a : TAttrs := { b := { label := label, cmd := cmd, srcs := splitList srcs, out := out }, kind := .genrule,
                          data := [], tcmd := .tt, noOutput := true, writes := false }
      ({ st with defs := st.defs.filter (·.b.label ≠ label) ++ [a] }, "ok")
    | none => (st, "bad-op")
  | "test" :: label :: bkind :: srcs :: out :: data :: noout :: writes :: tc =>
    let kc? : Option (Kind × Cmd) := match bkind with
      | "none" => some (.puretest, .cat)
      | "cat" => some (.buildtest, .cat)
      | "catfirst" => some (.buildtest, .catfirst)
      | _ => none
    match kc?, parseBool noout, parseBool writes, parseTCmd tc with
    | some (k, cmd), some no, some wr, some tcmd =>
      let a : TAttrs := { b := { label := label, cmd := cmd, srcs := splitList srcs, out := if out = "-" then "" else out },
                          kind := k, data := splitList data, tcmd := tcmd, noOutput := no, writes := wr }
      ({ st with defs := st.defs.filter (·.b.label ≠ label) ++ [a] }, "ok")
    | _, _, _, _ => (st, "bad-op")
  | ["deltarget", label] => ({ st with defs := st.defs.filter (·.b.label ≠ label) }, "ok")
  | ["rmout", label] => ({ st with ts := { st.ts with out := fun k => if k = label then none else st.ts.out k } }, "ok")
  | ["rmres", label] => ({ st with ts := { st.ts with res := fun k => if k = label then none else st.ts.res k } }, "ok")
  | ["cacheon"] => ({ st with cacheOn := true }, "ok")
  | ["wipe"] => ({ st with ts := { st.ts with out := fun _ => none, res := fun _ => none } }, "ok")     -- rm -rf plz-out
  | ["run", ls, fs] =>
    let req := splitList ls
    match closure st req, parseFlags fs with
    | some order, some fl =>
      let r := mkRepo st order
      let sel := fun k => order.contains k
      let tsel := fun k => req.contains k
      let (s1, bran, reps) := plzTestE2E r sel tsel fl st.ts
      let tran := reps.flatMap fun p => match p.2 with | some rep => List.replicate rep.runs p.1 | none => []
      let shown := (sortStrs (reps.map (·.1))).map fun k =>
        match reps.lookup k with
        | some (some rep) => k ++ "=" ++ showOutcome rep.res ++ ":" ++ (if rep.cached then "cached" else "run") ++ ":" ++
                             (if (s1.res k).isSome then "stored" else "none")
        | _ => k ++ "=notbuilt"
      let allPass := reps.all fun p => match p.2 with | some rep => rep.res == .pass | none => false
      ({ st with ts := s1 },
       "bran=" ++ ",".intercalate (sortStrs (bran.filter (hasCmd st))) ++ "|tran=" ++ ",".intercalate (sortStrs tran) ++ "|" ++
       ";".intercalate shown ++ "|rc=" ++ (if allPass then "0" else "1"))
    | _, _ => (st, "error")
  | ["fresh", ls] =>
    let req := splitList ls
    match closure st req with
    | some order =>
      let r := mkRepo st order
      let reps := freshRun generatedFacts ruleSerRT BuildE2E.pathSer outcomeT Build.generatedFacts BuildE2E.mvE2E BuildE2E.rsE2E execT ruleSerB r
        (fun k => order.contains k) (fun k => req.contains k)
      let shown := (sortStrs (reps.map (·.1))).map fun k =>
        match reps.lookup k with
        | some (some rep) => k ++ "=" ++ showOutcome rep.res
        | _ => k ++ "=notbuilt"
      (st, "fresh|" ++ ";".intercalate shown)
    | none => (st, "error")
  | _ => (st, "bad-op")

def main : IO Unit := runStateful ({} : St) step
