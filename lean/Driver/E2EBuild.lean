import PlzVerif.Base.Proto
import PlzVerif.Model.BuildE2E
import PlzVerif.Model.BuildCache
import PlzVerif.Model.Collapse
import PlzVerif.Generated.C02
open PlzVerif PlzVerif.Proto PlzVerif.Build PlzVerif.BuildE2E

structure St where
  files : List (String × String) := []
  defs  : List Attrs := []
  out   : List (String × (Tree × Stamp')) := []
  cacheOn : Bool := false
  cache : List ((String × Stamp') × Tree) := []

def pkgOf (label : String) : String :=
  match (label.drop 2).toString.splitOn ":" with
  | p :: _ => p
  | [] => ""

def isLabel (s : String) : Bool := s.startsWith "//"

def findDef (st : St) (l : String) : Option Attrs := st.defs.find? (·.label = l)

/-- filegroups have no command, so they never show up in the action log -/
def hasCmd (st : St) (l : String) : Bool :=
  match findDef st l with
  | some a => match a.cmd with | .fg => false | .text _ => false | _ => true
  | none => true

def depsOf (a : Attrs) : List String := a.srcs.filter isLabel
def fileSrcsOf (a : Attrs) : List String := (a.srcs.filter (fun s => !isLabel s)).map (fun f => pkgOf a.label ++ "/" ++ f)

/-- DFS post-order of the dependency closure; `none` when a label is undefined or fuel runs out (cycle). -/
def visit (st : St) : Nat → List String → String → Option (List String)
  | 0, _, _ => none
  | fuel + 1, done, l =>
    if done.contains l then some done else
    match findDef st l with
    | none => none
    | some a => do
      let done' ← (depsOf a).foldlM (fun d x => visit st fuel d x) done
      pure (if done'.contains l then done' else done' ++ [l])

def closure (st : St) (req : List String) : Option (List String) :=
  req.foldlM (fun d x => visit st (st.defs.length + 1) d x) []

/-- Keys of plz-out entries are (label, output name): the stamp lives on the output FILE, so an output left
    behind under an earlier name keeps its own stamp and is trusted again if the target is renamed back. -/
def keyOf (st : St) (l : String) : String :=
  match findDef st l with | some a => l ++ "|" ++ a.out | none => l ++ "|"

def labelOfKey (k : String) : String := (k.splitOn "|").headD k

def mkRepo (st : St) (order : List String) : Repo' :=
  { files := fun f => .file ((st.files.lookup f).getD ""),
    fname := id,
    outName := fun k => match k.splitOn "|" with | [l, o] => pkgOf l ++ "/" ++ o | _ => "",
    targets := order.filterMap fun l => (findDef st l).map fun a =>
      { key := keyOf st l, attrs := a, srcs := fileSrcsOf a, deps := (depsOf a).map (keyOf st) } }

def hexS (s : String) : String := hexOfStr s

def showTree : Tree → String
  | .file c => "f:" ++ hexS c
  | .dir es => "d:" ++ ",".intercalate (es.map fun e => e.1 ++ "=" ++ hexS e.2)
  | .filex c => "fx:" ++ hexS c
  | .fileOpt c none => "f:" ++ hexS c
  | .fileOpt c (some e) => "f:" ++ hexS c ++ "+x:" ++ hexS e

def insSorted (s : String) : List String → List String
  | [] => [s]
  | x :: xs => if s < x then s :: x :: xs else x :: insSorted s xs
def sortStrs (l : List String) : List String := l.foldr insSorted []

def splitList (s : String) : List String := if s = "-" then [] else s.splitOn ","

def step (st : St) (line : String) : St × String :=
  match line.splitOn " " with
  | ["reset"] => ({}, "ok")
  | ["file", p, hc] =>
    match strOfHex hc with
    | some c => ({ st with files := (p, c) :: st.files.filter (·.1 ≠ p) }, "ok")
    | none => (st, "bad-op")
  | "target" :: label :: kind :: srcs :: out :: rest =>
    let cmd? : Option Cmd := match kind, rest with
      | "cat", [] => some .cat
      | "catfirst", [] => some .catfirst
      | "mkdir", [] => some .mkdir
      | "catn", [] => some .catn
      | "fg", [] => some .fg
      | "opt", [] => some .opt
      | "catx", [] => some .catx
      | "const", [h] => (strOfHex h).map .const
      | "text", [h] => (strOfHex h).map .text
      | _, _ => none
    match cmd? with
    | some cmd =>
      let a : Attrs := { label := label, cmd := cmd, srcs := splitList srcs, out := out }
      ({ st with defs := st.defs.filter (·.label ≠ label) ++ [a] }, "ok")
    | none => (st, "bad-op")
  | ["deltarget", label] => ({ st with defs := st.defs.filter (·.label ≠ label) }, "ok")
  | ["rmout", label] => ({ st with out := st.out.filter (·.1 ≠ keyOf st label) }, "ok")
  | ["wipe"] => ({ st with out := [] }, "ok")
  | ["cacheon"] => ({ st with cacheOn := true }, "ok")
  | ["cacheon", "z"] => ({ st with cacheOn := true }, "ok")     -- dircompress: same contract, the cache is a black box here
  | ["collapse", h] =>
    match bytesOfHex h with
    | some bs =>
      let key := bs.map (·.toNat)
      if key.length != 80 then (st, "bad-op") else
      (st, hexOfBytes ((Collapse.collapseList Generated.C02.collapseEqualBranch Generated.C02.collapseElseBranch key).map UInt8.ofNat))
    | none => (st, "bad-op")
  | ["build", ls] =>
    let req := splitList ls
    match closure st req with
    | none => (st, "error")
    | some order =>
      let r := mkRepo st order
      let okeys := order.map (keyOf st)
      let sel := fun k => okeys.contains k
      let keys := (st.out.map (·.1) ++ okeys).eraseDups
      if st.cacheOn then
        let (out', cache', ran) := buildC generatedFacts mvE2E rsE2E exec ruleSer pathSer r sel (fun k => st.out.lookup k) (fun q => st.cache.lookup q)
        let outL := keys.filterMap fun k => (out' k).map fun v => (k, v)
        -- cache keys that can have been added: (k, stamp now in plz-out) for k in order
        let newKeys := okeys.filterMap fun k => (out' k).map fun v => (k, v.2)
        let cacheL := (st.cache.map (·.1) ++ newKeys).eraseDups.filterMap fun q => (cache' q).map fun v => (q, v)
        let shown := (sortStrs order).map fun k => k ++ "=" ++ (match out' (keyOf st k) with | some v => showTree v.1 | none => "missing")
        ({ st with out := outL, cache := cacheL }, "ran=" ++ ",".intercalate (sortStrs ((ran.map labelOfKey).filter (hasCmd st))) ++ "|" ++ ";".intercalate shown)
      else
      let (out', ran) := buildE2E r sel (fun k => st.out.lookup k)
      let outL := keys.filterMap fun k => (out' k).map fun v => (k, v)
      let shown := (sortStrs order).map fun k => k ++ "=" ++ (match out' (keyOf st k) with | some v => showTree v.1 | none => "missing")
      ({ st with out := outL }, "ran=" ++ ",".intercalate (sortStrs ((ran.map labelOfKey).filter (hasCmd st))) ++ "|" ++ ";".intercalate shown)
  | ["clean", ls] =>
    let req := splitList ls
    match closure st req with
    | none => (st, "error")
    | some order =>
      let r := mkRepo st order
      let okeys := order.map (keyOf st)
      let res := cleanE2E r (fun k => okeys.contains k)
      let shown := (sortStrs order).map fun k => k ++ "=" ++ (match res.lookup (keyOf st k) with | some v => showTree v | none => "missing")
      (st, "clean|" ++ ";".intercalate shown)
  | _ => (st, "bad-op")

def main : IO Unit := runStateful ({} : St) step
