import PlzVerif.Base.Proto
import PlzVerif.Model.AspLex
import PlzVerif.Model.AspParse
open PlzVerif PlzVerif.AspLex PlzVerif.AspParse PlzVerif.Proto

def tyCode : TokType → String
  | .eof => "-1" | .ident => "-2" | .int => "-3" | .string => "-4" | .lexOp => "-5" | .eol => "-6"
  | .unindent => "-7" | .lit b => toString b.toNat

def hexB (v : Bytes) : String := if v.isEmpty then "-" else hexOfBytes v.toList

def showTok (t : Token) : String := tyCode t.ty ++ ":" ++ hexB t.val ++ ":" ++ toString t.pos

def showMsg : FailMsg → String
  | .unexpectedIndent => "indent" | .tabs => "tab" | .unknownSymbol b => "sym" ++ toString b.toNat
  | .unterminatedString => "str" | .illegalUnicode r => "uni" ++ toString r

def showErr : LexErr → String
  | .oob i => "runtime:oob" ++ toString i
  | .emptyStack => "runtime:emptystack"
  | .fail p m => "fail:" ++ toString p ++ ":" ++ showMsg m
  | .outOfFuel => "model-out-of-fuel"

def showLex (r : Array Token × Option LexErr) : String :=
  let ts := if r.1.isEmpty then "-" else ",".intercalate (r.1.toList.map showTok)
  ts ++ "|" ++ (match r.2 with | none => "ok" | some e => showErr e)

def showKind : PKind → String
  | .unexpected => "unexpected" | .oneof => "oneof" | .continueOutside => "continue" | .breakOutside => "break"
  | .notIn => "notin" | .intTooLarge => "intlarge" | .intInvalid => "intinvalid" | .value => "value"
  | .keyword => "keyword" | .identStmt => "identstmt" | .repeated => "repeated" | .listComp => "listcomp"
  | .dictComp => "dictcomp" | .fbrace => "fbrace"

def showParse : Except PErr Nat → String
  | .ok n => "ok:" ++ toString n
  | .error (.lex e) => showErr e
  | .error (.fail p k) => "fail:" ++ toString p ++ ":" ++ showKind k
  | .error (.runtime _) => "runtime"
  | .error .outOfFuel => "model-out-of-fuel"

def step (line : String) : String :=
  match line.splitOn " " with
  | ["lex", h] =>
    match bytesOfHex h with
    | some d => showLex (lexAll d.toArray)
    | none => "bad-op"
  | ["parse", h] =>
    match bytesOfHex h with
    | some d => showParse (parseFile d.toArray)
    | none => "bad-op"
  | ["stress", _, _, _] => "stress"
  | _ => "bad-op"

def main : IO Unit := runStateless step
