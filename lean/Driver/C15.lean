import PlzVerif.Base.Proto
import PlzVerif.Model.CMap
/-!
Driver for C15.  Line kinds (one line in, one line out):

  seq  <n> <script>   multi-thread script run on the concurrent model (`start`/`advance`), Map[int,int]
  eseq <n> <script>   the same on an ErrMap[int,int] (ops add aog set seterr get gos range)
  spec <n> <script>   single-thread script evaluated by the sequential specification `apply`
  hist <n> <ops> | <order>   a recorded concurrent history plus a linearization order: certificate check
                             against `apply` (order `-`: brute-force search instead)
  gosrace <seed> <n> <threads> <keys> <calls>   random schedule of GetOrSet callers on the model

script = tokens `T:op:args` joined by `;` (`-` = empty); every blocked thread that an op releases is reported
as `|T=result` right after that op's result.
-/
open PlzVerif PlzVerif.CMap PlzVerif.Proto

abbrev VV := Nat × Nat     -- (err, val); err = 0 is nil

def cfgOf (n : Nat) : Cfg VV := ⟨n, fun k => k % n, fun v => v.1 != 0⟩

def sortNats (l : List Nat) : List Nat :=
  let rec ins (x : Nat) : List Nat → List Nat
    | [] => [x]
    | y :: r => if x ≤ y then x :: y :: r else y :: ins x r
  l.foldr ins []

def sortPairs (l : List (Nat × Nat)) : List (Nat × Nat) :=
  let rec ins (x : Nat × Nat) : List (Nat × Nat) → List (Nat × Nat)
    | [] => [x]
    | y :: r => if x.1 < y.1 ∨ (x.1 = y.1 ∧ x.2 ≤ y.2) then x :: y :: r else y :: ins x r
  l.foldr ins []

def tf (b : Bool) : String := if b then "t" else "f"

/-- what kind of call a token is (decides how its result prints) -/
inductive Kind | add | aog | set | get | gow | has | vals | wait | gos | range
deriving BEq

structure Tok where
  t : Tid
  kind : Kind
  call : Option (Call VV)      -- none: harness-level probe (chk)
  probe : Option Chan := none
  key : Key := 0

def parseTok (emode : Bool) (s : String) : Option Tok :=
  match s.splitOn ":" with
  | [t, "add", k, v] => do let t ← t.toNat?; let k ← k.toNat?; let v ← v.toNat?
                           pure ⟨t, .add, some (.op (.add k (0, v))), none, k⟩
  | [t, "aog", k, v] => do let t ← t.toNat?; let k ← k.toNat?; let v ← v.toNat?
                           pure ⟨t, .aog, some (.op (.addOrGet k (0, v))), none, k⟩
  | [t, "set", k, v] => do let t ← t.toNat?; let k ← k.toNat?; let v ← v.toNat?
                           pure ⟨t, .set, some (.op (.set k (0, v))), none, k⟩
  | [t, "seterr", k, e] => do let t ← t.toNat?; let k ← k.toNat?; let e ← e.toNat?
                              if emode && e != 0 then pure ⟨t, .set, some (.op (.set k (e, 0))), none, k⟩ else none
  | [t, "get", k] => do let t ← t.toNat?; let k ← k.toNat?; pure ⟨t, .get, some (.op (.get k)), none, k⟩
  | [t, "gow", k] => do let t ← t.toNat?; let k ← k.toNat?
                        if emode then none else pure ⟨t, .gow, some (.op (.getOrWait k)), none, k⟩
  | [t, "has", k] => do let t ← t.toNat?; let k ← k.toNat?
                        if emode then none else pure ⟨t, .has, some (.op (.contains k)), none, k⟩
  | [t, "vals"] => do let t ← t.toNat?; if emode then none else pure ⟨t, .vals, some (.op .values), none, 0⟩
  | [t, "range"] => do let t ← t.toNat?; if emode then pure ⟨t, .range, some (.op .values), none, 0⟩ else none
  | [t, "wait", c] => do let t ← t.toNat?; let c ← c.toNat?
                         if emode then none else pure ⟨t, .wait, some (.await c), none, 0⟩
  | [t, "chk", c] => do let t ← t.toNat?; let c ← c.toNat?
                        if emode then none else pure ⟨t, .wait, none, some c, 0⟩
  | [t, "gos", k, v, e] => do let t ← t.toNat?; let k ← k.toNat?; let v ← v.toNat?; let e ← e.toNat?
                              if emode then pure ⟨t, .gos, some (.getOrSet k (e, if e = 0 then v else 0)), none, k⟩ else none
  | _ => none

def parseScript (emode : Bool) (s : String) : Option (List Tok) :=
  if s = "-" then some [] else (s.splitOn ";").mapM (parseTok emode)

def showCh (withId : Bool) : Option Chan → String
  | none => "nil"
  | some c => if withId then s!"c{c}" else "c"

/-- print a Map-level result the way the harness prints the real one -/
def showRet (emode withId : Bool) (kind : Kind) : Ret VV → String
  | .bool b => tf b
  | .valBool v b => if emode then s!"{v.2},{tf b},{v.1}" else s!"{v.2},{tf b}"
  | .unit => "-"
  | .val v => if emode then s!"{v.2},{v.1}" else s!"{v.2}"
  | .gw v w f => s!"{v.2},{showCh withId w},{tf f}"
  | .vals l =>
    if kind == .range then "?" else
    showNats (sortNats (l.map (·.2)))

/-- the per-line state of a script run -/
structure Run where
  s : Sys VV
  busy : List (Tid × Kind × Key × Nat)     -- blocked threads: kind, key, fRuns(key) before the call

/-- advance thread `t` until it is a free idle caller again (`some result`) or blocked (`none`) -/
def drive (c : Cfg VV) (t : Tid) : Nat → Sys VV → Option (Ret VV) → Option VV → Sys VV × Bool × Option (Ret VV) × Option VV
  | 0, s, r, g => (s, false, r, g)
  | f + 1, s, r, g =>
    if freeIdle s t then (s, true, r, g) else
    match advance c s t with
    | none => (s, false, r, g)
    | some (l, s') =>
      let r' := match l with | some (.ret _ x) => some x | _ => r
      let g' := match s'.cl t with | .gosRet _ v => some v | _ => g
      drive c t f s' r' g'

def rangeOut (c : Cfg VV) (s : Sys VV) : String :=
  let ps := (List.range c.n).flatMap fun i => ((s.sh.shards i).pairs.filter (fun p => p.2.1 == 0)).map fun p => (p.1, p.2.2)
  let ps := sortPairs ps
  if ps.isEmpty then "-" else ",".intercalate (ps.map fun p => s!"{p.1}={p.2}")

def finish (c : Cfg VV) (emode : Bool) (kind : Kind) (key : Key) (f0 : Nat) (s : Sys VV) (r : Option (Ret VV)) (g : Option VV) : String :=
  match kind with
  | .wait => "ok"
  | .gos => match g with
    | some v => s!"{v.2},{v.1},f{s.fRuns key - f0}"
    | none => "?"
  | .range => rangeOut c s
  | k => match r with
    | some x => showRet emode true k x
    | none => "?"

def stepTok (c : Cfg VV) (emode : Bool) (run : Run) (tk : Tok) : Run × String :=
  let fuel := c.n + 40
  let (run1, out) : Run × String :=
    match tk.call with
    | none =>
      match tk.probe with
      | some ch => (run, if run.s.sh.closed.contains ch then "closed" else "open")
      | none => (run, "?")
    | some call =>
      if run.busy.any (·.1 == tk.t) then (run, "busy") else
      match start run.s tk.t call with
      | none => (run, "busy")
      | some (_, s1) =>
        let f0 := run.s.fRuns tk.key
        let (s2, fin, r, g) := drive c tk.t fuel s1 none none
        if fin then ({ run with s := s2 }, finish c emode tk.kind tk.key f0 s2 r g)
        else ({ s := s2, busy := run.busy ++ [(tk.t, tk.kind, tk.key, f0)] }, "blocked")
  -- release whoever this op unblocked, in thread order
  let sorted := run1.busy.foldr (fun x acc =>
    let rec ins (x : Tid × Kind × Key × Nat) : List (Tid × Kind × Key × Nat) → List (Tid × Kind × Key × Nat)
      | [] => [x]
      | y :: r => if x.1 ≤ y.1 then x :: y :: r else y :: ins x r
    ins x acc) []
  let (s3, still, outs) := sorted.foldl (fun (acc : Sys VV × List (Tid × Kind × Key × Nat) × String) b =>
    let (s, still, o) := acc
    let (s', fin, r, g) := drive c b.1 fuel s none none
    if fin then (s', still, o ++ s!"|{b.1}=" ++ finish c emode b.2.1 b.2.2.1 b.2.2.2 s' r g)
    else (s', still ++ [b], o)) (run1.s, [], "")
  ({ s := s3, busy := still }, out ++ outs)

/-- `cmap.New` panics unless the shard count is a power of two -/
def pow2 (n : Nat) : Bool := n != 0 && n &&& (n - 1) == 0

def runScript (n : Nat) (emode : Bool) (script : String) : String :=
  if !pow2 n then "bad-op" else
  match parseScript emode script with
  | none => "bad-op"
  | some toks =>
    let c := cfgOf n
    let (_, outs) := toks.foldl (fun (acc : Run × List String) tk =>
      let (r, o) := stepTok c emode acc.1 tk
      (r, acc.2 ++ [o])) (⟨Sys.init, []⟩, [])
    if outs.isEmpty then "-" else ";".intercalate outs

/-- `spec`: the same tokens through the sequential specification -/
def runSpec (n : Nat) (script : String) : String :=
  if !pow2 n then "bad-op" else
  match parseScript false script with
  | none => "bad-op"
  | some toks =>
    let c := cfgOf n
    let (_, outs) := toks.foldl (fun (acc : Shared VV × List String) tk =>
      match tk.call with
      | some (.op o) =>
        let r := apply c acc.1 o
        (r.1, acc.2 ++ [showRet false true tk.kind r.2])
      | _ =>
        match tk.probe with
        | some ch => (acc.1, acc.2 ++ [if acc.1.closed.contains ch then "closed" else "open"])
        | none => (acc.1, acc.2 ++ ["unsupported"])) (Shared.init, [])
    if outs.isEmpty then "-" else ";".intercalate outs

/-! ### histories -/

structure HOp where
  tid : Nat
  call : Nat
  ret : Nat
  op : Op VV
  kind : Kind
  out : String

instance : Inhabited HOp := ⟨⟨0, 0, 0, .values, .vals, ""⟩⟩   -- indices are range-checked before every use

def parseHOp (s : String) : Option HOp :=
  match s.splitOn ":" with
  | [t, c, r, "add", k, v, o] => do pure ⟨← t.toNat?, ← c.toNat?, ← r.toNat?, .add (← k.toNat?) (0, ← v.toNat?), .add, o⟩
  | [t, c, r, "aog", k, v, o] => do pure ⟨← t.toNat?, ← c.toNat?, ← r.toNat?, .addOrGet (← k.toNat?) (0, ← v.toNat?), .aog, o⟩
  | [t, c, r, "set", k, v, o] => do pure ⟨← t.toNat?, ← c.toNat?, ← r.toNat?, .set (← k.toNat?) (0, ← v.toNat?), .set, o⟩
  | [t, c, r, "get", k, o] => do pure ⟨← t.toNat?, ← c.toNat?, ← r.toNat?, .get (← k.toNat?), .get, o⟩
  | [t, c, r, "gow", k, o] => do pure ⟨← t.toNat?, ← c.toNat?, ← r.toNat?, .getOrWait (← k.toNat?), .gow, o⟩
  | [t, c, r, "has", k, o] => do pure ⟨← t.toNat?, ← c.toNat?, ← r.toNat?, .contains (← k.toNat?), .has, o⟩
  | [t, c, r, "vals", o] => do pure ⟨← t.toNat?, ← c.toNat?, ← r.toNat?, .values, .vals, o⟩
  | _ => none

/-- does `op` applied at `σ` print `out`? (channel identities are not part of a concurrent history) -/
def legalStep (c : Cfg VV) (σ : Shared VV) (h : HOp) : Option (Shared VV) :=
  let r := apply c σ h.op
  if showRet false false h.kind r.2 == h.out then some r.1 else none

def nodup : List Nat → Bool
  | [] => true
  | x :: r => !r.contains x && nodup r

/-- certificate check: `order` is a permutation of all operations, respects real time, and is legal -/
def checkCert (c : Cfg VV) (ops : Array HOp) (order : List Nat) : String :=
  if order.length != ops.size || !nodup order || order.any (· ≥ ops.size) then "cert-bad:perm" else
  let rec rt : List Nat → Bool
    | [] => true
    | i :: r => r.all (fun j => !(ops[j]!.ret < ops[i]!.call)) && rt r
  if !rt order then "cert-bad:realtime" else
  let fin := order.foldl (fun (σ : Option (Shared VV)) i => σ.bind fun s => legalStep c s ops[i]!) (some Shared.init)
  if fin.isSome then "lin-ok" else "cert-bad:illegal"

/-- brute force: pick any minimal (no other pending op returned before its call) op that is legal -/
def search (c : Cfg VV) (ops : Array HOp) : Nat → Shared VV → List Nat → Bool
  | 0, _, rest => rest.isEmpty
  | f + 1, σ, rest =>
    rest.isEmpty ||
    rest.any fun i =>
      rest.all (fun j => j == i || !(ops[j]!.ret < ops[i]!.call)) &&
      match legalStep c σ ops[i]! with
      | some σ' => search c ops f σ' (rest.erase i)
      | none => false

def runHist (n : Nat) (body : String) : String :=
  if n = 0 then "bad-op" else
  match body.splitOn " | " with
  | [opsS, orderS] =>
    match (if opsS = "-" then some [] else (opsS.splitOn ";").mapM parseHOp) with
    | none => "bad-op"
    | some ops =>
      let arr := ops.toArray
      let c := cfgOf n
      if orderS = "-" then
        (if search c arr (arr.size + 1) Shared.init (List.range arr.size) then "lin-ok" else "illegal")
      else match parseNats orderS with
        | some order => checkCert c arr order
        | none => "bad-op"
  | _ => "bad-op"

/-! ### random schedules of GetOrSet callers on the model -/

def lcg (x : Nat) : Nat := (x * 6364136223846793005 + 1442695040888963407) % 18446744073709551616

/-- `threads` callers each perform `calls` GetOrSet calls on keys `< keys`; f-results are `100*t + i`.
    Checks on the final state: every thread finished, `f` ran at most once per key, all results for a key agree
    and were stored. -/
def runGosRace (seed n threads keys calls : Nat) : String :=
  if !pow2 n || threads = 0 || keys = 0 then "bad-op" else
  let c := cfgOf n
  let total := threads * calls
  let fuel := total * (c.n + 60) + 100
  -- state: sys, rng, per-thread remaining calls, results (key, val)
  let rec go : Nat → Sys VV → Nat → List (Tid × Nat) → List (Key × VV) → List (Tid × Key) → Option (Sys VV × List (Key × VV))
    | 0, _, _, _, _, _ => none
    | f + 1, s, rng, remaining, results, cur =>
      let active := remaining.filter (fun p => p.2 > 0 || !freeIdle s p.1)
      if active.isEmpty then some (s, results) else
      let rng := lcg rng
      let pick := active[(rng / 65536) % active.length]!
      let t := pick.1
      if freeIdle s t then
        let rng2 := lcg rng
        let k := (rng2 / 65536) % keys
        let i := pick.2
        match start s t (.getOrSet k (0, 100 * t + i)) with
        | some (_, s') =>
          go f s' rng2 (remaining.map fun p => if p.1 == t then (t, p.2 - 1) else p) results ((t, k) :: cur.filter (·.1 != t))
        | none => none
      else
        match advance c s t with
        | some (_, s') =>
          let results := match s'.cl t with
            | .gosRet k v => if (match s.cl t with | .gosRet _ _ => false | _ => true) then (k, v) :: results else results
            | _ => results
          go f s' rng remaining results cur
        | none =>
          -- blocked: someone else must move; if nobody can, report deadlock
          if active.any (fun p => freeIdle s p.1 || (advance c s p.1).isSome) then go f s rng remaining results cur
          else none
  match go fuel Sys.init seed ((List.range threads).map fun t => (t, calls)) [] [] with
  | none => "stuck"
  | some (s, results) =>
    let okRuns := (List.range keys).all fun k => s.fRuns k ≤ 1
    let okSame := results.all fun (k, v) => results.all fun (k', v') => k != k' || v == v'
    let okStored := results.all fun (k, v) => (s.sh.stored k).contains v
    let okCount := results.length == total
    if okRuns && okSame && okStored && okCount then "ok" else s!"bad runs={okRuns} same={okSame} stored={okStored} count={okCount}"

def step (line : String) : String :=
  match line.splitOn " " with
  | ["seq", n, script] => match n.toNat? with | some n => runScript n false script | none => "bad-op"
  | ["eseq", n, script] => match n.toNat? with | some n => runScript n true script | none => "bad-op"
  | ["spec", n, script] => match n.toNat? with | some n => runSpec n script | none => "bad-op"
  | "hist" :: n :: rest => match n.toNat? with | some n => runHist n (" ".intercalate rest) | none => "bad-op"
  | "synth" :: n :: rest => match n.toNat? with | some n => runHist n (" ".intercalate rest) | none => "bad-op"
  | ["gosrace", seed, n, th, keys, calls] =>
    match seed.toNat?, n.toNat?, th.toNat?, keys.toNat?, calls.toNat? with
    | some a, some b, some c, some d, some e => runGosRace a b c d e
    | _, _, _, _, _ => "bad-op"
  | _ => "bad-op"

def main : IO Unit := runStateless step
