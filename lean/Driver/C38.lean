import PlzVerif.Base.Proto
import PlzVerif.Model.AspLex
import PlzVerif.Model.FmtSimplify
open PlzVerif PlzVerif.AspLex PlzVerif.FmtSimplify PlzVerif.Proto

/-- Layout normal form of a token stream: no EOL / Unindent, no comma directly before a closing bracket. -/
def isClose (t : Token) : Bool := t.ty == .lit 41 || t.ty == .lit 93 || t.ty == .lit 125

def layoutNormal (ts : List Token) : List (TokType × Bytes) :=
  let step := fun (acc : List (TokType × Bytes)) (t : Token) =>
    if t.ty == .eol || t.ty == .unindent then acc
    else
      let acc := match acc with
        | (ty, _) :: rest => if isClose t && ty == .lit 44 then rest else acc
        | [] => acc
      (t.ty, t.val) :: acc
  (ts.foldl step []).reverse

def firstDiff : List (TokType × Bytes) → List (TokType × Bytes) → Nat → Option Nat
  | [], [], _ => none
  | a :: as, b :: bs, i => if a = b then firstDiff as bs (i + 1) else some i
  | _, _, i => some i

def failPos : LexErr → String
  | .fail p _ => toString p
  | .oob i => "oob" ++ toString i
  | .emptyStack => "emptystack"
  | .outOfFuel => "fuel"

def tokenVerdict (before after : Bytes) : String :=
  let rb := lexAll before
  let ra := lexAll after
  match rb.2, ra.2 with
  | some _, some _ => "lexfail-both"
  | some e, none => "lexfail-before:" ++ failPos e
  | none, some e => "lexfail-after:" ++ failPos e
  | none, none =>
    let nb := layoutNormal rb.1.toList
    let na := layoutNormal ra.1.toList
    match firstDiff nb na 0 with
    | none => "same:" ++ toString nb.length
    | some i => "diff:" ++ toString i

def parseStmts (s : String) : Option (List Stmt × Nat) :=
  if s = "-" then some ([], 0) else
  (s.splitOn ";").foldlM (fun (acc : List Stmt × Nat) c =>
    if c = "o" ∨ c = "n" then some (acc.1 ++ [.other acc.2], acc.2 + 1)
    else if c = "s:-" then some (acc.1 ++ [.sub []], acc.2)
    else if c.startsWith "s:" then some (acc.1 ++ [.sub ((c.drop 2).toString.splitOn ",")], acc.2)
    else none) ([], 0)

def showStmts (l : List Stmt) : String :=
  if l.isEmpty then "-" else
  ";".intercalate (l.map fun
    | .sub [] => "s:-"
    | .sub ls => "s:" ++ ",".intercalate ls
    | .other k => "o" ++ toString k)

def step (line : String) : String :=
  match line.splitOn " " with
  | ["fmt", hb, ha] =>
    match bytesOfHex hb, bytesOfHex ha with
    | some b, some a => tokenVerdict b.toArray a.toArray
    | _, _ => "bad-op"
  | ["simp", s] =>
    match parseStmts s with
    | some (l, _) => showStmts (simplifyLoop l)
    | none => "bad-op"
  | _ => "bad-op"

def main : IO Unit := runStateless step
