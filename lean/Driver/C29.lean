import PlzVerif.Base.Proto
import PlzVerif.Model.CASFS
import PlzVerif.Generated.C29
open PlzVerif PlzVerif.CASFS PlzVerif.Proto
open PlzVerif.Cmd (Str pathClean pathJoin)

def unhx (s : String) : Option Str := (strOfHex s).map String.toList
def hx (s : Str) : String := hexOfStr (String.ofList s)

/-! Recursive-descent parser for `d<perm>[name=dir,…|name:blob:size:perm,…|name>target:perm,…]`
    (fuel = length of the text). -/

def takeUntil (stops : List Char) : List Char → List Char × List Char
  | [] => ([], [])
  | c :: cs => if stops.contains c then ([], c :: cs) else let (a, b) := takeUntil stops cs; (c :: a, b)

def natOf (cs : List Char) : Option Nat :=
  let s := String.ofList cs
  match s.toNat? with
  | some n => if toString n = s then some n else none
  | none => none

def blobSize (id : Nat) : Nat := 5 + (toString id).length + id % 7

def parseFiles : Nat → List Char → Option (List FileN × List Char)
  | 0, _ => none
  | _ + 1, '|' :: r => some ([], r)
  | fuel + 1, cs =>
    let (n, r) := takeUntil [':'] cs
    match unhx (String.ofList n), r with
    | some name, ':' :: r =>
      let (b, r) := takeUntil [':'] r
      match natOf b, r with
      | some blob, ':' :: r =>
        let (s, r) := takeUntil [':'] r
        match natOf s, r with
        | some size, ':' :: r =>
          let (p, r) := takeUntil [',', '|'] r
          match natOf p with
          | some perm =>
            if size ≠ blobSize blob then none else
            match r with
            | ',' :: r' =>
              match r' with
              | '|' :: _ => none
              | _ => do
                let (rest, r'') ← parseFiles fuel r'
                pure (⟨name, blob, size, perm⟩ :: rest, r'')
            | '|' :: r' => pure ([⟨name, blob, size, perm⟩], r')
            | _ => none
          | none => none
        | _, _ => none
      | _, _ => none
    | _, _ => none
def parseLinks : Nat → List Char → Option (List LinkN × List Char)
  | 0, _ => none
  | _ + 1, ']' :: r => some ([], r)
  | fuel + 1, cs =>
    let (n, r) := takeUntil ['>'] cs
    match unhx (String.ofList n), r with
    | some name, '>' :: r =>
      let (t, r) := takeUntil [':'] r
      match unhx (String.ofList t), r with
      | some target, ':' :: r =>
        let (p, r) := takeUntil [',', ']'] r
        match natOf p with
        | some perm =>
          match r with
          | ',' :: r' =>
            match r' with
            | ']' :: _ => none
            | _ => do
              let (rest, r'') ← parseLinks fuel r'
              pure (⟨name, target, perm⟩ :: rest, r'')
          | ']' :: r' => pure ([⟨name, target, perm⟩], r')
          | _ => none
        | none => none
      | _, _ => none
    | _, _ => none


mutual
def parseDir : Nat → List Char → Option (Dir × List Char)
  | 0, _ => none
  | fuel + 1, 'd' :: cs =>
    let (p, r) := takeUntil ['['] cs
    match natOf p, r with
    | some perm, '[' :: r => do
      let (dirs, r) ← parseDirs fuel r
      let (files, r) ← parseFiles fuel r
      let (links, r) ← parseLinks fuel r
      pure (Dir.mk dirs files links perm, r)
    | _, _ => none
  | _, _ => none

def parseDirs : Nat → List Char → Option (List (Str × Dir) × List Char)
  | 0, _ => none
  | _ + 1, '|' :: r => some ([], r)
  | fuel + 1, cs =>
    let (n, r) := takeUntil ['='] cs
    match unhx (String.ofList n), r with
    | some name, '=' :: r => do
      let (d, r) ← parseDir fuel r
      match r with
      | ',' :: r' =>
        match r' with
        | '|' :: _ => none
        | _ => do
          let (rest, r'') ← parseDirs fuel r'
          pure ((name, d) :: rest, r'')
      | '|' :: r' => pure ([(name, d)], r')
      | _ => none
    | _, _ => none
end


def parseTree (s : String) : Option Dir :=
  match parseDir (s.length + 1) s.toList with
  | some (d, []) => some d
  | _ => none

def infoStr (i : Info) : String := s!"{hx i.name}:{i.kind}:{i.size}:{i.perm}"

def entriesStrE (es : List Info) (eof : Bool) : String :=
  (if es.isEmpty then "_" else ",".intercalate (es.map infoStr)) ++ (if eof then "!eof" else "!nil")

def entriesStr (es : List Info) : String := entriesStrE es false

def symlinkCount : Nat → Dir → Nat
  | 0, _ => 0
  | fuel + 1, d => d.links.length + (d.dirs.map fun e => symlinkCount fuel e.2).foldl (· + ·) 0

def step (line : String) : String :=
  match line.splitOn " " with
  | [op, tree, wd, path] =>
    if op = "opage" || op = "onodew" || op = "onodec" then "-" else
    if op = "onode" || op = "olist" || op = "otestfs" then "bad-op" else
    match parseTree tree, unhx wd, unhx path with
    | some root, some wd, some path =>
      let cd := op = "cfind" || op = "cstat" || op = "copen"
      let wd' := if cd then wd else pathClean wd
      let op := if cd then (op.drop 1).toString else op
      if op = "find" then
        match findNode root (comps (pathJoin [wd', path])) with
        | none => "notexist"
        | some (.file f) => "file:" ++ hx f.name
        | some (.dir n _) => "dir:" ++ hx n
        | some (.link l) => "link:" ++ hx l.name ++ ":" ++ hx l.target
      else if op = "stat" then
        match (if cd then statCD root wd path else stat root wd path) with
        | none => "notexist"
        | some i => infoStr i
      else if op = "open" then
        match openWith Generated.C29.openDepthLimit root (symlinkCount tree.length root + 2)
            (pathJoin [if cd then wd else pathClean wd, path]) with
        | .notExist => "notexist"
        | .absLink => "abslink"
        | .tooManyLinks => "toomany"
        | .outOfFuel => "crash"
        | .file f => "file:" ++ infoStr (fileInfo f) ++ ";" ++ toString f.blob
        | .dir n d => "dir:" ++ infoStr (dirInfo n d) ++ ";" ++ entriesStr (readDir d (-1))
      else "bad-op"
    | _, _, _ => "bad-op"
  | ["readdir", tree, wd, path, n, k] =>
    match parseTree tree, unhx wd, unhx path, n.toInt?, k.toNat? with
    | some root, some wd, some path, some n, some k =>
      match openWith Generated.C29.openDepthLimit root (symlinkCount tree.length root + 2) (pathJoin [pathClean wd, path]) with
      | .notExist => "notexist"
      | .absLink => "abslink"
      | .tooManyLinks => "toomany"
      | .outOfFuel => "crash"
      | .file _ => "notdir"
      | .dir _ d => "/".intercalate ((List.range k).map fun i =>
          let r := readDirCall Generated.C29.readDirHasOffset d n i
          entriesStrE r.1 r.2)
    | _, _, _, _, _ => "bad-op"
  | ["onode", _, _] => "-"
  | ["olist", _, _] => "-"
  | ["otestfs", _] => "-"
  | _ => "bad-op"

def main : IO Unit := runStateless step
