import PlzVerif.Base.Proto
import PlzVerif.Model.RuleHash
import PlzVerif.Model.RuleProto
import PlzVerif.Model.Sha1
import PlzVerif.Generated.C08
import PlzVerif.Generated.C07
/-!
Line protocol for C07 (see harness/rulehash/c07.go, c07e2e.go; token syntax in Model/RuleProto.lean):
  perm   <ctx+target tokens>   -> hex sha1(ruleSer) of the encoding as given (the harness feeds permuted encodings)
  rehash <ctx+target tokens>   -> post-build rule hash before / after UnprefixedHashes()
  e2e    <seed>                -> ok <number of targets of the generated repository>
  e2ecfg <seed> <ndefs 2|3> <slow 0|1> <joint 0|1>  -> ok  (harness/rulehash/c07cfg.go)
-/
open PlzVerif PlzVerif.RuleHash PlzVerif.Proto PlzVerif.RuleProto

def F : Facts := Generated.C08.facts

def step (line : String) : String :=
  match line.splitOn " " with
  | ["e2e", seed] =>
    -- end-to-end determinism is decided on the real binary alone; the model only knows the repository's size
    match seed.toNat? with
    | some n => if toString n = seed then s!"ok {(3 + n % 4) * 4}" else "bad-op"
    | none => "bad-op"
  | ["e2ecfg", seed, nd, slow, joint] =>
    -- package-level independence (Props/C07.lean C07_partial_parse_order) is decided on the real binary alone
    match seed.toNat? with
    | some n =>
      if toString n = seed && (nd = "2" || nd = "3") && (slow = "0" || slow = "1") && (joint = "0" || joint = "1")
      then "ok" else "bad-op"
    | none => "bad-op"
  | op :: toks =>
    if op = "perm" || op = "rehash" then
      match parseToks true true {} toks with
      | some (c, t) =>
        if !wellFormed c t then "bad-op"
        else if op = "perm" then hexOfBytes (Sha1.sha1 (ruleSer F c t))
        else
          let c := { c with runtime := false }
          hexOfBytes (Sha1.sha1 (postBuildSer F c t t)) ++ " " ++
            hexOfBytes (Sha1.sha1 (postBuildSer F c t (afterHashCheck Generated.C07.unprefixedAliases t)))
      | none => "bad-op"
    else "bad-op"
  | _ => "bad-op"

def main : IO Unit := runStateless step
