import PlzVerif.Base.Proto
import PlzVerif.Model.Sched
import PlzVerif.Lemmas.SchedFacts
import PlzVerif.Generated.C04
/-!
Driver for C04: replays an observed action log through the scheduler model as an acceptor.

  trace deps=0:;1:0 pk=.. roots=.. n=.. kg=.. fail=.. bad=.. miss=.. ev=S0,E0,S1,E1 rc=0

Every state change goes through `fireG` at the wait-loop fact extracted from /repo on this run, which is `fire` for
the pinned code (`C04_driver_runs_the_model`), so an accepted trace is an execution of the model.  For `S t` the
driver fires, one at a time, the enabled actions that lead to `build.Build(t)` starting: activation of `t`,
the steps of `t`'s building queuer (each `waitDeps` step is enabled only if that dependency has finished and
takes the DependencyFailed branch if it failed), the dispatch of the task and `workerStart`; the event is
rejected if that chain gets stuck.  `E t` / `F t` fire `workerOk` / `workerFail` and `workerDone`.
-/
open PlzVerif PlzVerif.Sched PlzVerif.Proto

structure Case where
  deps : List (List Nat)
  roots : List Nat
  events : List (Char × Nat)
  rc : Nat
  query : Bool := false   -- `plz query deps`: NeedBuild is off, only what packages subinclude is built (forceBuild)

def parseInts (s : String) : Option (List Nat) := if s = "-" || s = "" then some [] else (s.splitOn ",").mapM String.toNat?

def parseDeps (s : String) : Option (List (List Nat)) :=
  (s.splitOn ";").mapM fun e =>
    match e.splitOn ":" with
    | [_, ds] => parseInts ds
    | _ => none

def parseEvents (s : String) : Option (List (Char × Nat)) :=
  if s = "-" then some [] else
  (s.splitOn ",").mapM fun e =>
    match e.toList with
    | k :: rest => if "SEFM".toList.contains k then (String.ofList rest).toNat?.map fun n => (k, n) else none
    | [] => none

def field (kv : List (String × String)) (k : String) : Option String := (kv.find? (·.1 == k)).map (·.2)

/-- `3:4.5,8:9.10` -> [(3,[4,5]),(8,[9,10])] -/
def parseProv (s : String) : Option (List (Nat × List Nat)) :=
  if s = "-" || s = "" then some [] else
  (s.splitOn ",").mapM fun e =>
    match e.splitOn ":" with
    | [i, ps] => do pure (← i.toNat?, ← (ps.splitOn ".").mapM String.toNat?)
    | _ => none

/-- what a target really depends on: declared dependencies with require/provide resolved (a dependent that
    requires "lang" gets the provider's targets instead of the provider), plus what post-build functions of other
    targets attach to it (`late`: adder:target.newdep) -/
def effDeps (deps : List (List Nat)) (prov : List (Nat × List Nat)) (req : List Nat) (late : List (Nat × List Nat))
    (t : Nat) : List Nat :=
  let base := (deps[t]?).getD []
  let resolved := base.flatMap fun d =>
    match prov.find? (·.1 == d) with
    | some (_, ps) => if req.contains t then ps else [d]
    | none => [d]
  let added := late.filterMap fun (_, tx) => match tx with | [t', x] => if t' == t then some x else none | _ => none
  (resolved ++ added).eraseDups

def parseCase (line : String) : Option Case := do
  let fs := (line.splitOn " ").drop 1
  let kv ← fs.mapM fun f => match f.splitOn "=" with | [k, v] => some (k, v) | _ => none
  let deps0 ← parseDeps (← field kv "deps")
  let prov ← parseProv ((field kv "prov").getD "-")
  let req ← parseInts ((field kv "req").getD "-")
  let late ← parseProv ((field kv "late").getD "-")
  if prov.any (fun p => p.1 ≥ deps0.length || p.2.any (· ≥ deps0.length)) || req.any (· ≥ deps0.length)
      || late.any (fun p => p.1 ≥ deps0.length || p.2.length != 2 || p.2.any (· ≥ deps0.length)) then none
  let deps := (List.range deps0.length).map (effDeps deps0 prov req late)
  let roots ← parseInts (← field kv "roots")
  let ev ← parseEvents (← field kv "ev")
  let rc ← (← field kv "rc").toNat?
  let n := deps.length
  if roots.isEmpty || roots.any (· ≥ n) || deps.any (·.any (· ≥ n)) || ev.any (·.2 ≥ n) then none
  pure ⟨deps, roots, ev, rc, (field kv "q").getD "0" == "1"⟩

/-- the wait loop as extracted from /repo on this run (none for the pinned code) -/
def waitSkipRank : Option Nat := Facts.skipOf PlzVerif.Generated.C04.waitSkip

def cfgOf (c : Case) : Cfg := { n := c.deps.length, deps := fun t => (c.deps[t]?).getD [], needBuild := !c.query }

def findIdx (n : Nat) (p : Nat → Bool) : Option Nat := (List.range n).find? p

/-- the next action on the way to `build.Build(t)` starting, or `none` if stuck / `some none` if already building -/
def nextToStart (force : Bool) (s : St) (t : Nat) : Option (Option Action) :=
  match findIdx s.nextW (fun w => s.ws w == some ⟨t, .building⟩) with
  | some _ => some none
  | none =>
    match findIdx s.nextW (fun w => s.ws w == some ⟨t, .taken⟩) with
    | some w => some (some (.workerStart w))
    | none =>
      match findIdx s.nextM (fun m => s.chan m == some t) with
      | some m => some (some (.take m))
      | none =>
        match findIdx s.nextQ (fun i => match s.qs i with | some q => q.t == t && q.building && q.ph != .done | none => false) with
        | some i => some (some (.queuer i))
        | none => if s.st t == .inactive || s.st t == .semiactive then some (some (.activate t force)) else none

def driveStart (c : Cfg) (force : Bool) (t : Nat) : Nat → St → Option St
  | 0, _ => none
  | f + 1, s =>
    match nextToStart force s t with
    | none => none
    | some none => some s
    | some (some a) =>
      match fireG c waitSkipRank s a with
      | some s' => driveStart c force t f s'
      | none => none

def finishWorker (c : Cfg) (s : St) (t : Nat) (ok : Bool) : Option St := do
  let w ← findIdx s.nextW (fun w => s.ws w == some ⟨t, .building⟩)
  let s1 ← fireG c waitSkipRank s (if ok then .workerOk w .built false else .workerFail w)
  fireG c waitSkipRank s1 (.workerDone w)

def showList (l : List Nat) : String := if l.isEmpty then "-" else ",".intercalate (l.map toString)

def replay (cs : Case) : String :=
  let c := cfgOf cs
  let n := cs.deps.length
  let fuel := 4 * n + 20
  let rec go : List (Char × Nat) → Nat → St → Except String St
    | [], _, s => .ok s
    | (k, t) :: r, pos, s =>
      if k == 'S' then
        if s.starts t != 0 then .error s!"rejected at {pos}: second start of {t}" else
        -- with NeedBuild off a command runs only because its target was forced (a subinclude, or a dependency of one)
        match driveStart c cs.query t fuel s with
        | some s' => go r (pos + 1) s'
        | none => .error s!"rejected at {pos}: start of {t} is not enabled"
      else if k == 'E' || k == 'F' then
        match finishWorker c s t (k == 'E') with
        | some s' => go r (pos + 1) s'
        | none => .error s!"rejected at {pos}: {t} is not building"
      else .error s!"rejected at {pos}: dependency output missing for {t}"
  match go cs.events 0 St.init with
  | .error e => e
  | .ok s =>
    let built := (List.range n).filter fun t => s.fin t && (s.st t).isBuilt
    let failed := (List.range n).filter fun t => s.st t == .failed
    -- the invocation fails iff some command failed (C04 runs have no other failure source)
    let rc := if failed.isEmpty then "0" else "nz"
    let real := if cs.rc == 0 then "0" else "nz"
    if rc != real then s!"exit-mismatch model={rc} real={real}" else
    s!"ok built={showList built} failed={showList failed} rc={rc}"

def step (line : String) : String :=
  if line.startsWith "trace " then
    match parseCase line with
    | some c => replay c
    | none => "bad-op"
  else "bad-op"

def main : IO Unit := runStateless step
