import PlzVerif.Base.Proto
import PlzVerif.Model.Cmd
import PlzVerif.Generated.C37
open PlzVerif PlzVerif.Cmd PlzVerif.Proto

def facts : List SeqDef := Generated.C37.seqs.map fun x => ⟨x.1, x.2.1, x.2.2.1, x.2.2.2.1, x.2.2.2.2.1, x.2.2.2.2.2.1, x.2.2.2.2.2.2⟩
def qf : QuoteFacts :=
  ⟨Generated.C37.quoteChars, Generated.C37.quoteLeft, Generated.C37.quoteRight, Generated.C37.multiGuardAccessor == "DeclaredOutputs"⟩

def unhx (s : String) : Option Str := (strOfHex s).map String.toList
def hx (s : Str) : String := hexOfStr (String.ofList s)

def decLabel (s : String) : Option Label :=
  match s.splitOn ":" with
  | [a, b, c] => do pure ⟨← unhx a, ← unhx b, ← unhx c⟩
  | _ => none

def decList (s : String) : Option (List Str) :=
  if s = "_" then some [] else (s.splitOn ",").mapM unhx

def encList (l : List Str) : String := if l.isEmpty then "_" else ",".intercalate (l.map hx)

def strictlyAscending : List Str → Bool
  | a :: b :: r => decide (a < b) && strictlyAscending (b :: r)
  | _ => true

def decBool (b : String) : Option Bool := if b = "0" then some false else if b = "1" then some true else none

def decEP (e : String) : Option (Str × Str) :=
  match e.splitOn "=" with
  | [k, v] => do pure (← unhx k, ← unhx v)
  | _ => none

def decEPs (eps : String) : Option (List (Str × Str)) :=
  if eps = "_" then some [] else (eps.splitOn ",").mapM decEP

def decSpec (s : String) : Option TSpec :=
  match s.splitOn ";" with
  | [l, outs, b, eps, extra] => do
    let l ← decLabel l
    let outs ← decList outs
    let b ← decBool b
    let eps ← decEPs eps
    -- "_" : every output is a plain declared one; "n:<list>": these are named outputs; "f:<list>": a filegroup,
    -- all of whose outputs are derived from its sources
    let isFG := extra.startsWith "f:"
    let ex ← if extra = "_" then some [] else
      if extra.startsWith "n:" || isFG then decList (extra.drop 2).toString else none
    if ex.any (fun e => !outs.contains e) || (isFG && ex ≠ outs) || (extra ≠ "_" && ex.isEmpty) then none else
    if outs.any (fun o => o = [] || hasPrefix o ['.', '/']) || !strictlyAscending outs then none
    else if (eps.map (·.1)).eraseDups.length ≠ eps.length then none
    else pure ⟨l, outs, b, eps, ex⟩
  | _ => none

def decInput (x : String) : Option Input :=
  if x.startsWith "f:" then do
    let s ← unhx (x.drop 2).toString
    pure ⟨s, none⟩
  else if x.startsWith "l:" then do
    let l ← decLabel (x.drop 2).toString
    pure ⟨l.str, some l⟩
  else none

def decInputs (s : String) : Option (List Input) :=
  if s = "_" then some [] else (s.splitOn ",").mapM decInput

def decSpecs (deps : String) : Option (List TSpec) :=
  if deps = "_" then some [] else (deps.splitOn "/").mapM decSpec

def decDep (x : String) : Option DepDecl :=
  match x.splitOn "|" with
  | [l, roles, deps] => do
    let l ← decLabel l
    let n ← roles.toNat?
    let ds ← decSpecs deps
    if n < 1 || n > 15 || toString n ≠ roles then none else pure ⟨l, n, ds⟩
  | _ => none

def decDeps (s : String) : Option (List DepDecl) :=
  if s = "_" then some [] else (s.splitOn "+").mapM decDep

def decTarget (a b c d : String) : Option Target := do
  pure ⟨← decSpec a, ← decInputs b, ← decInputs c, ← decDeps d⟩

def keyOf (i : Input) : Str := match i.label with | some _ => 'l' :: ':' :: i.str | none => i.str

/-- The same well-formedness test the harness applies before it builds a real graph. -/
def wellFormed (t : Target) : Bool :=
  let labels := t.spec.label :: t.deps.map (·.declared)
  let roleOf (l : Label) : Nat := ((t.deps.find? (·.declared = l)).map (·.roles)).getD 0
  labels.eraseDups.length = labels.length &&
  t.deps.all (fun d => match d.deps with | [x] => decide (x.label = d.declared) | _ => false) &&
  t.srcs.all (fun i => match i.label with | some l => roleOf l % 2 = 1 | none => i.str ≠ []) &&
  t.tools.all (fun i => match i.label with | some l => (roleOf l / 4) % 2 = 1 | none => i.str ≠ []) &&
  (t.srcs.filter (·.label.isSome)).length = (t.deps.filter (·.isSrc)).length &&
  (t.tools.filter (·.label.isSome)).length = (t.deps.filter (·.isTool)).length &&
  (t.srcs.map keyOf).eraseDups.length = t.srcs.length &&
  (t.tools.map keyOf).eraseDups.length = t.tools.length

def insertSorted (e : Str) : List Str → List Str
  | [] => [e]
  | x :: xs => if e < x then e :: x :: xs else x :: insertSorted e xs

def inSubset (s : Str) : Bool :=
  s.all fun c => c = ' ' || c = '\t' || (c.toNat > 32 && c.toNat ≠ 127 && !("$`*?[~#{}!|&;()<>".toList.contains c))

def step (line : String) : String :=
  match line.splitOn " " with
  | ["rs", test, root, a, b, c, d, cmd] =>
    match decBool test, unhx root, decTarget a b c d, unhx cmd with
    | some test, some root, some t, some cmd =>
      if !wellFormed t || (a.splitOn ";f:").length > 1 then "bad-op"   -- the rule under test is never a filegroup
      else if test && hasPrefix cmd "$(worker".toList then "unmodelled"
      else
        let cmd := if test && cmd = [] then "$(exe :".toList ++ t.spec.label.name ++ [')'] else cmd
        match replaceSequences facts qf root t test cmd with
        | .ok s => "ok:" ++ hx s
        | .error e => "err:" ++ e.name
    | _, _, _, _ => "bad-op"
  | ["tp", a, b, c, d] =>
    match decTarget a b c d with
    | some t => if !wellFormed t || (a.splitOn ";f:").length > 1 then "bad-op" else encList ((t.tmpPaths.eraseDups).foldr insertSorted [])
    | none => "bad-op"
  | ["pj", parts] =>
    match decList parts with
    | some ps => hx (pathJoin ps)
    | none => "bad-op"
  | ["lbl", inp, pkg, sub] =>
    match unhx inp, unhx pkg, unhx sub with
    | some inp, some pkg, some sub =>
      if !looksLikeLabel inp then "notlabel"
      else match tryParseLabel inp pkg sub with
        | none => "invalid"
        | some l => hx l.sub ++ ":" ++ hx l.pkg ++ ":" ++ hx l.name
    | _, _, _ => "bad-op"
  | ["e2e", kind, name] =>
    -- end-to-end runs of the real binary: oracle only, the model has no say
    match unhx name with
    | some n =>
      if (kind = "file" || kind = "multi" || kind = "nondep" || kind = "typo" || kind = "named" || kind = "fgroup") && n ≠ [] &&
         !(n.any fun c => c = '"' || c = '\\' || c = '\n' || c = '/') && n.head? ≠ some '.' then "-" else "bad-op"
    | none => "bad-op"
  | ["sw", text] =>
    match unhx text with
    | some text =>
      if !inSubset text then "outside"
      else match shellWords text with
        | some ws => encList ws
        | none => "E"
    | none => "bad-op"
  | _ => "bad-op"

def main : IO Unit := runStateless step
