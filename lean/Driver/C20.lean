import PlzVerif.Base.Proto
import PlzVerif.Model.LabelFacts
import PlzVerif.Model.LabelWalk
/-!
Line protocol of C20 (strings are hex, one byte = one `Char`; "-" is the empty string; lists are comma
separated with "_" for the empty list; a label is `pkg:name:sub`):

  rt   T CP SR              parse T in context (CP, SR), print, re-parse in the empty context
  new  P N                  TryNewBuildLabel(P, N)            -> ok | err
  par  L                    L.Parent()                        -> label
  inc  L L'                 L.Includes(L')                    -> 0 | 1
  mat  L L'                 L.Matches(L')                     -> 0 | 1
  exp  L DIRS               L.isExperimental (dirs from config) -> 0 | 1
  sbx  FLAGS L WL DIRS      validateSandbox                   -> ok | err
  sel  inc|mat P N PKGS     which packages of PKGS the pattern //P:N selects -> bit string
  cl   P EXP BL PKGS        command-line expansion of //P/... over the repository with packages PKGS,
                            experimental dirs EXP, blacklist BL -> selected packages, sorted
-/
open PlzVerif PlzVerif.Label PlzVerif.Proto

def facts : Facts := generatedFacts

def unhex (s : String) : Option Str := (bytesOfHex s).map fun b => b.map fun x => Char.ofNat x.toNat
def hex (s : Str) : String := if s.isEmpty then "-" else hexOfBytes (s.map fun c => UInt8.ofNat c.toNat)

def parseLabel (s : String) : Option Label :=
  match s.splitOn ":" with
  | [p, n, u] => do pure ⟨← unhex p, ← unhex n, ← unhex u⟩
  | _ => none

def showLabel (l : Label) : String := hex l.pkg ++ ":" ++ hex l.name ++ ":" ++ hex l.sub

def parseList {α} (item : String → Option α) (s : String) : Option (List α) :=
  if s = "_" then some [] else (s.splitOn ",").mapM item

def bit (b : Bool) : String := if b then "1" else "0"

def parseFlags (s : String) : Option (Bool × Bool × Bool × Option Bool) :=
  match s.toList with
  | [a, b, c, d] =>
    let bb (x : Char) : Option Bool := if x = '1' then some true else if x = '0' then some false else none
    do
      let t ← (if d = 'n' then some none else if d = 't' then some (some true) else if d = 'f' then some (some false) else none)
      pure (← bb a, ← bb b, ← bb c, t)
  | _ => none

def insertSortedStr (x : Str) : List Str → List Str
  | [] => [x]
  | y :: ys => if PlzVerif.Walk.nameLt x y then x :: y :: ys else y :: insertSortedStr x ys

def step (line : String) : String :=
  match line.splitOn " " with
  | ["rt", t, cp, sr] =>
    match unhex t, unhex cp, unhex sr with
    | some t, some cp, some sr =>
      match tryParse facts t cp sr with
      | none => "err"
      | some l =>
        let s := toStr l
        let re := match tryParse facts s [] [] with
          | none => "err"
          | some l2 => if l2 = l then "same" else "diff " ++ showLabel l2
        "ok " ++ showLabel l ++ " | " ++ hex s ++ " | " ++ re
    | _, _, _ => "bad-op"
  | ["new", p, n] =>
    match unhex p, unhex n with
    | some p, some n => if validNames facts p n then "ok" else "err"
    | _, _ => "bad-op"
  | ["par", l] =>
    match parseLabel l with
    | some l => showLabel (parent l)
    | none => "bad-op"
  | ["inc", a, b] =>
    match parseLabel a, parseLabel b with
    | some a, some b => bit (includes facts a b)
    | _, _ => "bad-op"
  | ["mat", a, b] =>
    match parseLabel a, parseLabel b with
    | some a, some b => bit (matchesF facts a b)
    | _, _ => "bad-op"
  | ["exp", l, dirs] =>
    match parseLabel l, parseList unhex dirs with
    | some l, some ds => bit (isExperimental facts ds l)
    | _, _ => "bad-op"
  | ["sbx", fl, l, wl, dirs] =>
    match parseFlags fl, parseLabel l, parseList parseLabel wl, parseList unhex dirs with
    | some (fg, rf, sb, t), some l, some wl, some ds =>
      if validateSandbox facts wl ds ⟨fg, rf, sb, t, l⟩ then "ok" else "err"
    | _, _, _, _ => "bad-op"
  | ["sel", kind, p, n, pkgs] =>
    match unhex p, unhex n, parseList unhex pkgs with
    | some p, some n, some qs =>
      if kind = "inc" then String.join (qs.map fun q => bit (includes facts ⟨p, n, []⟩ ⟨q, [], []⟩))
      else if kind = "mat" then String.join (qs.map fun q => bit (matchesF facts ⟨p, n, []⟩ ⟨q, ['x'], []⟩))
      else "bad-op"
    | _, _, _ => "bad-op"
  | ["cl", p, exp, bl, pkgs] =>
    match unhex p, parseList unhex exp, parseList unhex bl, parseList unhex pkgs with
    | some p, some exp, some bl, some pkgs =>
      let comps (s : Str) : List Str := if s.isEmpty then [] else PlzVerif.Label.comps s
      let okName (c : Str) : Bool := PlzVerif.Walk.goodName c && c != PlzVerif.LabelWalk.buildName
      if !(pkgs.all fun q => (comps q).all okName) || !((comps p).all okName) then "bad-op" else
      match PlzVerif.LabelWalk.cmdlineSelect PlzVerif.LabelWalk.walkFacts [PlzVerif.LabelWalk.buildName] exp bl (comps p)
          (PlzVerif.LabelWalk.repoOf (pkgs.map comps)) with
      | none => "bad-op"
      | some sel =>
        let sorted := sel.foldr (fun x acc => insertSortedStr x acc) []
        if sorted.isEmpty then "_" else ",".intercalate (sorted.map hex)
    | _, _, _, _ => "bad-op"
  | _ => "bad-op"

def main : IO Unit := runStateless step
