import PlzVerif.Base.Proto
import PlzVerif.Model.Clean
import PlzVerif.Generated.C14
/-!
Line-protocol driver for C14 (grammar in harness/cmd/c14/main.go).
  sc <u|c> <d|f> <hexname>                         shouldClean
  ex <u|c> <high> <low> <found> <marks> <late> <win>            one pass, candidates at least a grace period apart: exact outcome
  sp <high> <low> <found> <marks> <late> <win> <evicted> <total> the order-free specification evaluated on a real outcome
     (late = paths marked before the loop tested them; win = paths marked between the loop's test of that very entry and its
      rename - protected only when the test and the rename happen under one lock: regenerated fact)
  fl <u|c> <k>                                     a one-file store suspended before its k-th operation while the cleaner runs
-/
open PlzVerif PlzVerif.Clean PlzVerif.Proto

namespace C14Driver

def natsOfHex (h : String) : Option Bytes := (bytesOfHex h).map (·.map UInt8.toNat)
def hexOfNats (b : Bytes) : String := if b.isEmpty then "-" else hexOfBytes (b.map UInt8.ofNat)

def sfx (compress : Bool) : Bytes := if compress then Generated.C14.compressedSuffixBytes else []

def parseMode (m : String) : Option Bool := if m = "c" then some true else if m = "u" then some false else none

def parseInt (s : String) : Option Int :=
  if s.startsWith "-" then (s.drop 1).toNat?.map fun n => -(n : Int) else s.toNat?.map fun n => (n : Int)

def parseFound (s : String) : Option (List Entry) :=
  if s = "-" then some [] else
  (s.splitOn ",").mapM fun e =>
    match e.splitOn ":" with
    | [p, sz, atm] => do
      let p ← natsOfHex p
      let sz ← sz.toNat?
      let a ← parseInt atm
      pure ⟨p, sz, a⟩
    | _ => none

def parseMarks (s : String) : Option (List (Bytes × Nat)) :=
  if s = "-" then some [] else
  (s.splitOn ",").mapM fun e =>
    match e.splitOn ":" with
    | [p, sz] => do
      let p ← natsOfHex p
      let sz ← sz.toNat?
      pure (p, sz)
    | _ => none

def marksOf (l : List (Bytes × Nat)) : Marks := fun p => (l.find? (·.1 = p)).map (·.2)

def parseLate (s : String) : Option (List (Bytes × Nat)) :=
  if s = "-" then some [] else (s.splitOn ",").mapM fun h => (natsOfHex h).map fun p => (p, 0)

def insertHex (x : String) : List String → List String
  | [] => [x]
  | y :: ys => if x < y then x :: y :: ys else y :: insertHex x ys

def showPaths (l : List Entry) : String :=
  let hs := (l.map fun e => hexOfNats e.path).foldr insertHex []
  if hs.isEmpty then "-" else ",".intercalate hs

def step (line : String) : String :=
  match line.splitOn " " with
  | ["sc", m, k, name] =>
    match parseMode m, natsOfHex name with
    | some c, some n =>
      if k ≠ "d" ∧ k ≠ "f" then "bad-op" else
      toString (shouldClean Generated.C14.nameShapes (sfx c) c (k = "d") n)
    | _, _ => "bad-op"
  | ["ex", m, hi, lo, found, marks, late, win] =>
    match parseMode m, hi.toNat?, lo.toNat?, parseFound found, parseMarks marks, parseLate late, parseLate win with
    | some _, some hi, some lo, some found, some marks, some late, some win =>
      let mk := marksOf marks
      let mk' := marksOf (marks ++ late ++ (if Generated.C14.testAndRenameUnderLock then win else []))
      let order := sortByAtime (scan mk found).1
      let r := clean mk mk' (fun _ => true) (fun _ => true) hi lo found order
      "evicted=" ++ showPaths r.evicted ++ " total=" ++ toString r.total
    | _, _, _, _, _, _, _ => "bad-op"
  | ["sp", hi, lo, found, marks, late, win, evicted, total] =>
    match hi.toNat?, lo.toNat?, parseFound found, parseMarks marks, parseLate late, parseLate win, total.toNat? with
    | some hi, some lo, some found, some marks, some late, some win, some total =>
      let ev? : Option (List Entry) :=
        if evicted = "-" then some [] else
        (evicted.splitOn ",").mapM fun h => (natsOfHex h).bind fun p => found.find? (·.path = p)
      match ev? with
      | none => "violated-unknown-entry"
      | some ev =>
        let mk' := marksOf (marks ++ late ++ (if Generated.C14.testAndRenameUnderLock then win else []))
        if specOK (marksOf marks) mk' hi lo found ev total then "ok" else "violated"
    | _, _, _, _, _, _, _ => "bad-op"
  | ["fl", m, k] =>
    match parseMode m, k.toNat? with
    | some c, some k =>
      -- the temporary exists once the operation that creates it has run: plain [rm-final, ready, link-tree, rename]
      -- -> from k = 2; compressed [rm-final, ready, create, tar-entry, close, stat, rename] -> from k = 3
      let nOps := if c then 7 else 4
      if k ≥ nOps then "bad-op" else
      let tmpExists := if c then decide (k ≥ 3) else decide (k ≥ 2)
      let b := [77, 84, 73, 122, 78, 68, 85, 50, 78, 122, 103, 53, 77, 68, 69, 121, 77, 122, 81, 49, 78, 106, 99, 52, 79, 84, 65, 61]
      let tmp := tmpName b Generated.C14.tmpSuffixBytes (sfx c)
      let final := entryName b (sfx c)
      let recog := shouldClean Generated.C14.nameShapes (sfx c) c (!c) tmp
      -- what Store marks before it does anything (regenerated list of marked roles)
      let protectedNames := (if Generated.C14.storeMarks.contains "final" then markKeys final else []) ++
        (if Generated.C14.storeMarks.contains "tmp" then markKeys tmp else [])
      let marked := protectedNames.contains tmp
      let evicted := tmpExists && recog && !marked
      "tmp-evicted=" ++ toString evicted ++ " hit=" ++ toString (!evicted)
    | _, _ => "bad-op"
  | _ => "bad-op"

end C14Driver

def main : IO Unit := runStateless C14Driver.step
