import PlzVerif.Base.Proto
import PlzVerif.Lemmas.HashCheck
import PlzVerif.Model.HashCheckFacts
open PlzVerif PlzVerif.Proto PlzVerif.HashCheck

/-! Line-protocol driver for C35 (see harness/cmd/c35/main.go for the op language). -/

/-- digest table of one generated content: per algorithm (name, size, hex of the combined hash, hex per output) -/
structure Dig where
  isFile : List Bool
  rows   : List (String × Nat × Str × List Str)

structure Key where
  cfg : String
  checkers : List String      -- [] unless the regenerated facts say the checkers reach the rule / config hash
  shape : String
  variant : Nat
  cid : String
  declared : List Str
deriving DecidableEq

structure TDef where
  name : String
  shape : String
  variant : Nat
  cid : String
  declared : List Str

structure St where
  digs : List (String × Dig) := []
  cfg : String := "sha256"
  checkers : List String := ["sha1", "sha256", "blake3"]
  cacheOn : Bool := false
  defs : List TDef := []
  outs : List (String × (String × Option Key)) := []      -- plz-out per target name
  caches : List (String × List (Key × String)) := []
  fg : List (String × (String × Bool)) := []               -- filegroup outputs in plz-out: content, and whether the file
                                                           -- is still the same inode as the source (def rewrites the source by rename)

/-! encoding -/

def decList (s : String) : Option (List Str) :=
  if s = "-" then some [] else
  (s.splitOn ",").mapM fun p =>
    if p = "e" then some [] else
    if p = "-" ∨ p = "" then none else (strOfHex p).map String.toList

def encList (l : List Str) : String :=
  if l.isEmpty then "-" else
  ",".intercalate (l.map fun s => if s.isEmpty then "e" else hexOfStr (String.ofList s))

def parseDig (kinds table : String) : Option Dig := do
  let isFile ← kinds.toList.mapM fun c => if c = 'f' then some true else if c = 'd' then some false else none
  let rows ← (table.splitOn ";").mapM fun row =>
    match row.splitOn ":" with
    | name :: size :: comb :: phs =>
      if phs.length = isFile.length then (size.toNat?).map fun n => (name, n, comb.toList, phs.map String.toList) else none
    | _ => none
  pure ⟨isFile, rows⟩

/-! the digest environment read from the tables: outputs are (cid, index), digests are their hex strings -/

def envOf (digs : List (String × Dig)) : Env (String × Nat) Str :=
  { ph := fun a o => do
      let d ← digs.lookup o.1
      let row ← d.rows.find? (·.1 = a.name)
      row.2.2.2[o.2]?,
    comb := fun a ds =>
      match digs.findSome? (fun (_, d) => (d.rows.find? (fun r => r.1 = a.name ∧ r.2.2.2 = ds)).map (·.2.2.1)) with
      | some c => c
      | none => ['?'],
    hex := id }

def isFileOf (digs : List (String × Dig)) (o : String × Nat) : Bool :=
  match digs.lookup o.1 with
  | some d => d.isFile.getD o.2 false
  | none => false

def outsOf (digs : List (String × Dig)) (cid : String) : List (String × Nat) :=
  match digs.lookup cid with
  | some d => (List.range d.isFile.length).map fun i => (cid, i)
  | none => []

def sizeOf (digs : List (String × Dig)) (name : String) : Option Nat :=
  digs.findSome? fun (_, d) => (d.rows.find? (·.1 = name)).map (·.2.1)

def algoOf (digs : List (String × Dig)) (name : String) : Option Algo := (sizeOf digs name).map fun n => ⟨name, n⟩

def insSorted (s : String) : List String → List String
  | [] => [s]
  | x :: xs => if s < x then s :: x :: xs else x :: insSorted s xs
def sortStrs (l : List String) : List String := l.foldr insSorted []

def splitCheckers (s : String) : List String := if s = "-" then [] else s.splitOn ","

def setAssoc {β : Type} (l : List (String × β)) (k : String) (v : β) : List (String × β) :=
  (k, v) :: l.filter (·.1 ≠ k)

def firstIs (cid shape : String) : Bool := (cid.toList.take 1) == shape.toList

def knownShapes : List String := ["F", "D", "M", "N", "G"]

def step (st : St) (line : String) : St × String :=
  match line.splitOn " " with
  | ["unprefix", hs] =>
    match decList hs with
    | some l =>
      let (r, th) := unprefixedHashes genU l
      (st, encList r ++ "|" ++ encList th)
    | none => (st, "bad-op")
  | ["dig", cid, kinds, table] =>
    match parseDig kinds table with
    | some d => ({ st with digs := setAssoc st.digs cid d }, "ok")
    | none => (st, "bad-op")
  | ["check", cfg, chk, cid, hs] =>
    match decList hs, algoOf st.digs cfg, (splitCheckers chk).mapM (algoOf st.digs), st.digs.lookup cid with
    | some declared, some cfgA, some checkers, some _ =>
      let env := envOf st.digs
      let outs := outsOf st.digs cid
      match targetOutputHash env (isFileOf st.digs) cfgA outs with
      | none => (st, "hash-error")
      | some h =>
        match checkRuleHashes genU genC env declared outs h checkers with
        | (.ok, th) => (st, "ok|hashes=" ++ encList th)
        | (.bad exp was, th) => (st, "bad exp=" ++ encList exp ++ " was=" ++ encList was ++ "|hashes=" ++ encList th)
    | _, _, _, _ => (st, "bad-op")
  | ["reset"] => ({ digs := st.digs }, "ok")
  | ["conf", cfg, chk] =>
    match algoOf st.digs cfg, (splitCheckers chk).mapM (algoOf st.digs) with
    | some _, some _ => ({ st with cfg := cfg, checkers := splitCheckers chk }, "ok")
    | _, _ =>
      -- before the first dig line the table is empty: accept the six known names
      let known := ["sha1", "sha256", "blake3", "xxhash", "crc32", "crc64"]
      if known.contains cfg ∧ (splitCheckers chk).all known.contains then
        ({ st with cfg := cfg, checkers := splitCheckers chk }, "ok")
      else (st, "bad-op")
  | ["cache", b] => ({ st with cacheOn := b = "1" }, "ok")
  | ["def", name, shape, variant, cid, hs] =>
    match variant.toNat?, decList hs, st.digs.lookup cid with
    | some v, some declared, some _ =>
      let sameShape : Bool := match st.defs.find? (·.name = name) with | some old => old.shape == shape | none => true
      if knownShapes.contains shape && firstIs cid shape && cid.length == 2 && sameShape then
        let d : TDef := ⟨name, shape, v, cid, declared⟩
        ({ st with defs := st.defs.filter (·.name ≠ name) ++ [d],
                   fg := st.fg.map (fun e => if e.1 = name then (name, (e.2.1, false)) else e) }, "ok")
      else (st, "bad-op")
    | _, _, _ => (st, "bad-op")
  | ["inplace", name, cid] =>
    match st.defs.find? (·.name = name), st.digs.lookup cid with
    | some d, some _ =>
      if d.shape == "G" && firstIs cid "G" then
        ({ st with defs := st.defs.map (fun x => if x.name = name then { x with cid := cid } else x),
                   fg := st.fg.map (fun e => if e.1 = name ∧ e.2.2 then (name, (cid, true)) else e) }, "ok")
      else (st, "bad-op")
    | _, _ => (st, "bad-op")
  | ["wipe"] => ({ st with outs := [], fg := [] }, "ok")
  | ["rmout", name] =>
    match st.defs.find? (·.name = name) with
    | some _ => ({ st with outs := st.outs.filter (·.1 ≠ name), fg := st.fg.filter (·.1 ≠ name) }, "ok")
    | none => (st, "bad-op")
  | ["poison", name, cid] =>
    match st.defs.find? (·.name = name), st.digs.lookup cid with
    | some d, some _ =>
      if d.shape != "G" && firstIs cid d.shape then
        let c := ((st.caches.lookup name).getD []).map fun e => (e.1, cid)
        ({ st with caches := setAssoc st.caches name c }, "ok")
      else (st, "bad-op")
    | _, _ => (st, "bad-op")
  | [kw, name] =>
    if kw ≠ "build" ∧ kw ≠ "build-noverify" then (st, "bad-op") else
    match st.defs.find? (·.name = name), algoOf st.digs st.cfg, st.checkers.mapM (algoOf st.digs) with
    | some d, some cfgA, some checkers =>
      let env := envOf st.digs
      let fl : Flags := { verify := kw = "build" }
      let check : Key → Option String → String → Bool :=
        if kw = "build" then
          concreteCheck genU genC env (isFileOf st.digs) (fun _ => cfgA) (fun _ => checkers) (fun k => k.declared) (outsOf st.digs)
        else fun k memo c =>
          (calcAndCheck genU genC env (isFileOf st.digs) cfgA checkers fl k.declared (outsOf st.digs c)
            (memo.bind fun m => targetOutputHash env (isFileOf st.digs) cfgA (outsOf st.digs m))).isSome
      let key : Key := ⟨st.cfg, if keyCoversCheckers ∧ ¬ d.declared.isEmpty then st.checkers else [], d.shape, d.variant, d.cid, d.declared⟩
      if d.shape = "G" then
        let cur := st.fg.lookup name
        let (out', res) := buildFilegroup genS check key d.cid (cur.map (·.1))
        let fg' := match out' with
          | some c => setAssoc st.fg name (c, if res = .reused then (cur.map (·.2)).getD false else true)
          | none => st.fg.filter (·.1 ≠ name)
        let rc := if res = .failed then "fail" else "ok"
        ({ st with fg := fg' }, "rc=" ++ rc ++ " ran=0 out=" ++ (out'.getD "missing") ++ " stamp=0 cache=-")
      else
        let assoc := (st.caches.lookup name).getD []
        let ts : TState Key String := ⟨st.outs.lookup name, fun q => assoc.lookup q⟩
        let (ts', res) := buildTarget genS check st.cacheOn key d.cid ts
        let keys := (assoc.map (·.1) ++ [key]).eraseDups
        let assoc' := keys.filterMap fun q => (ts'.cache q).map fun c => (q, c)
        let outs' := match ts'.out with
          | some o => setAssoc st.outs name o
          | none => st.outs.filter (·.1 ≠ name)
        let rc := if res = .failed then "fail" else "ok"
        let ran := if res = .built ∨ res = .failed then "1" else "0"
        let outS := match ts'.out with | some o => o.1 | none => "missing"
        let stamp := match ts'.out with | some (_, some _) => "1" | _ => "0"
        let cacheS := if st.cacheOn ∧ ¬ assoc'.isEmpty then ",".intercalate (sortStrs (assoc'.map (·.2))) else "-"
        ({ st with outs := outs', caches := setAssoc st.caches name assoc' },
          "rc=" ++ rc ++ " ran=" ++ ran ++ " out=" ++ outS ++ " stamp=" ++ stamp ++ " cache=" ++ cacheS)
    | _, _, _ => (st, "bad-op")
  | _ => (st, "bad-op")

def main : IO Unit := runStateful ({} : St) step
