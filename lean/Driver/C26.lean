import PlzVerif.Base.Proto
import PlzVerif.Model.TestResults
import PlzVerif.Generated.C26
open PlzVerif PlzVerif.TestResults PlzVerif.Proto

/-
Line protocol:
  counts <cases>                      cases = "-" | case;case…   case = <hexcls>.<hexname>.<execs>
                                      execs = "-" | digits 0-7 (bit 1 failure, 2 error, 4 skip)
  flake <n> <run>|<run>…              run = cases
  e2e <n> <run>|<run>…                the same through the real `plz test` (one execution per case); output without cases=
  parse <doc> <doc>…                  doc = x:<layout>:<suite>/<suite>…   layout = flat | suites | bare | nested
                                            suite = "-" | xcase;xcase…   xcase = <hexcls>.<hexname>.<m><ff><fe><rf><re>
                                            (m = mask of failure/error/skipped elements, then four counts 0-9)
                                          | t:tree:<tree>  (one <testsuite> root, suites nested to any depth)
                                          | t:trees:<tree><tree>…  (<testsuites> root);  tree = "(" suite tree… ")"
                                          | g:<gcase>;<gcase>…           gcase = <hexname>.<P|F|S|U>
Output: cases=<cases> tests=N pass=N fail=N err=N skip=N flaky=N all=0|1
-/

def parseExecs (s : String) : Option (List Exec) :=
  if s = "-" then some [] else if s.isEmpty then none else
  s.toList.mapM fun c =>
    if '0' ≤ c ∧ c ≤ '7' then
      let n := c.toNat - 48
      some ⟨n % 2 = 1, n / 2 % 2 = 1, n / 4 % 2 = 1⟩
    else none

def parseCase (t : String) : Option Case :=
  match t.splitOn "." with
  | [c, n, e] => do
    let c ← strOfHex c
    let n ← strOfHex n
    let e ← parseExecs e
    pure ⟨c, n, e⟩
  | _ => none

def parseCases (s : String) : Option (List Case) :=
  if s = "-" then some [] else (s.splitOn ";").mapM parseCase

def showExec (e : Exec) : String := toString ((if e.failure then 1 else 0) + (if e.error then 2 else 0) + (if e.skip then 4 else 0))

def showCase (c : Case) : String :=
  hexOfStr c.cls ++ "." ++ hexOfStr c.name ++ "." ++ (if c.execs.isEmpty then "-" else String.join (c.execs.map showExec))

def counts (l : List Case) : String :=
  "tests=" ++ toString (tests l) ++ " pass=" ++ toString (passes l) ++ " fail=" ++ toString (failures l)
  ++ " err=" ++ toString (errors l) ++ " skip=" ++ toString (skips l) ++ " flaky=" ++ toString (flakyPassesWith (flakyStrictOf Generated.C26.flakyCond) l)
  ++ " all=" ++ (if allSucceeded l then "1" else "0")

def summary (l : List Case) : String :=
  "cases=" ++ (if l.isEmpty then "-" else ";".intercalate (l.map showCase))
  ++ " tests=" ++ toString (tests l) ++ " pass=" ++ toString (passes l) ++ " fail=" ++ toString (failures l)
  ++ " err=" ++ toString (errors l) ++ " skip=" ++ toString (skips l) ++ " flaky=" ++ toString (flakyPassesWith (flakyStrictOf Generated.C26.flakyCond) l)
  ++ " all=" ++ (if allSucceeded l then "1" else "0")

def digit (c : Char) : Option Nat := if '0' ≤ c ∧ c ≤ '9' then some (c.toNat - 48) else none

def parseXCase (t : String) : Option XCase :=
  match t.splitOn "." with
  | [c, n, spec] => do
    let c ← strOfHex c
    let n ← strOfHex n
    match spec.toList with
    | [m, a, b, r, q] => do
      let m ← digit m
      if m > 7 then none
      let a ← digit a; let b ← digit b; let r ← digit r; let q ← digit q
      pure ⟨c, n, m % 2 = 1, m / 2 % 2 = 1, m / 4 % 2 = 1, a, b, r, q⟩
    | _ => none
  | _ => none

def parseXSuite (s : String) : Option (List XCase) :=
  if s = "-" then some [] else (s.splitOn ";").mapM parseXCase

/-- Suite trees: tree = "(" cases children… ")" with cases = "-" | xcase;xcase… ; several trees are juxtaposed. -/
structure TreeSt where
  stack : List (List Char × List XSuite)   -- per open suite: its case text (reversed), its children so far (reversed)
  roots : List XSuite                      -- finished top-level suites (reversed)

def treeStep (st : Option TreeSt) (c : Char) : Option TreeSt := do
  let st ← st
  if c = '(' then pure { st with stack := ([], []) :: st.stack }
  else if c = ')' then
    match st.stack with
    | [] => none
    | (txt, kids) :: rest =>
      let cases ← parseXSuite (String.ofList txt.reverse)
      let node := XSuite.mk cases kids.reverse
      match rest with
      | [] => pure { stack := [], roots := node :: st.roots }
      | (t2, k2) :: rest2 => pure { st with stack := (t2, node :: k2) :: rest2 }
  else
    match st.stack with
    | (txt, []) :: rest => pure { st with stack := (c :: txt, []) :: rest }
    | _ => none

def parseTrees (s : String) : Option (List XSuite) :=
  match s.toList.foldl treeStep (some ⟨[], []⟩) with
  | some ⟨[], roots⟩ => if roots.isEmpty then none else some roots.reverse
  | _ => none

def parseGo (t : String) : Option Case :=
  match t.splitOn "." with
  | [n, r] => do
    let n ← strOfHex n
    let r ← match r with
      | "P" => some GoResult.pass | "F" => some GoResult.fail | "S" => some GoResult.skip | "U" => some GoResult.unknown
      | _ => none
    pure ⟨"", n, [goExec Generated.C26.goSets r]⟩
  | _ => none

def parseDoc (d : String) : Option (List Case) :=
  match d.splitOn ":" with
  | ["x", layout, suites] => do
    let ss ← (suites.splitOn "/").mapM parseXSuite
    match layout with
    | "flat" => pure ((XSuite.mk ss.flatten []).casesMode Generated.C26.nestedTraversal)
    | "suites" => pure (ss.flatMap fun s => (XSuite.mk s []).casesMode Generated.C26.nestedTraversal)
    | "bare" => if ss.flatten.isEmpty then none else pure (ss.flatten.map (bareCase Generated.C26.bareCaseFields))
    | "nested" =>
      match ss with
      | [] => none
      | outer :: inner => pure ((XSuite.mk outer (inner.map fun s => XSuite.mk s [])).casesMode Generated.C26.nestedTraversal)
    | _ => none
  | ["t", layout, trees] => do
    let ts ← parseTrees trees
    match layout with
    | "tree" => match ts with
      | [t] => pure (t.casesMode Generated.C26.nestedTraversal)
      | _ => none
    | "trees" => pure (ts.flatMap fun t => t.casesMode Generated.C26.nestedTraversal)
    | _ => none
  | ["g", cases] => if cases = "-" then some [] else (cases.splitOn ";").mapM parseGo
  | _ => none

def step (line : String) : String :=
  match line.splitOn " " with
  | ["counts", cs] =>
    match parseCases cs with
    | some l => summary l
    | none => "bad-op"
  | ["flake", n, runs] =>
    match n.toNat?, (runs.splitOn "|").mapM parseCases with
    | some n, some rs => summary (flakeLoop n rs [])
    | _, _ => "bad-op"
  | ["e2e", n, runs] =>
    match n.toNat?, (runs.splitOn "|").mapM parseCases with
    | some n, some rs =>
      if n < 1 ∨ n > 9 ∨ rs.any (fun run => run.any fun c => c.execs.length ≠ 1 ∨
          c.execs.any fun e => (e.failure && e.error) || (e.failure && e.skip) || (e.error && e.skip)) then "bad-op"
      else counts (flakeLoop n rs [])
    | _, _ => "bad-op"
  | "parse" :: docs =>
    if docs.isEmpty then "bad-op" else
    match docs.mapM parseDoc with
    | some ls => summary ls.flatten
    | none => "bad-op"
  | _ => "bad-op"

def main : IO Unit := runStateless step
