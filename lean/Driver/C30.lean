import PlzVerif.Base.Proto
import PlzVerif.Model.Exec
import PlzVerif.Generated.C30
open PlzVerif PlzVerif.Exec PlzVerif.Proto

def tm : Timing :=
  ⟨Generated.C30.termWaitMs, Generated.C30.killWaitMs, Generated.C30.secondRoundAlways, Generated.C30.killsGroup⟩

def natOf (s : String) : Option Nat :=
  match s.toNat? with
  | some n => if toString n = s && n ≤ 600000 then some n else none
  | none => none

def bitOf (s : String) : Option Bool := if s = "0" then some false else if s = "1" then some true else none

def childOf (s : String) : Option Child :=
  match s.splitOn ":" with
  | [a, b, c] => do pure ⟨← natOf a, ← bitOf b, ← bitOf c⟩
  | _ => none

def childrenOf (s : String) : Option (List Child) :=
  if s = "_" then some [] else (s.splitOn ",").mapM childOf

/-- Survivors as the harness observes them (it looks 600 ms after the return): group members alive at the
    return whose own exit is more than a second away. -/
def lateSurvivors (sc : Script) (s : St) (ret : Nat) : Nat :=
  ((s.others.zip sc.children).filter fun (p, c) => p.alive && p.inGroup && decide (c.exitAt > ret + 1000)).length +
  (if s.leader.alive && s.leader.inGroup then 1 else 0)

def step (line : String) : String :=
  match line.splitOn " " with
  | [kind, t, la, li, ch] =>
    match natOf t, natOf la, bitOf li, childrenOf ch with
    | some t, some la, some li, some ch =>
      if kind = "xr" then "-"
      else if kind ≠ "x" then "bad-op"
      else
        let sc : Script := ⟨la, li, ch⟩
        let s := runScript tm sc (2 * ch.length + 12) (initScript t sc)
        match s.phase with
        | .returned timedOut ret =>
          (if timedOut then "timeout" else "normal") ++ ";survivors=" ++ toString (lateSurvivors sc s ret)
        | _ => "model-did-not-return"
    | _, _, _, _ => "bad-op"
  | _ => "bad-op"

def main : IO Unit := runStateless step
