import PlzVerif.Base.Proto
import PlzVerif.Model.DirCache
import PlzVerif.Generated.C12
/-!
Line-protocol driver for C12 (see harness/cmd/c12/main.go for the grammar).  Path components travel as the hex
of their bytes, so component order is byte order and nothing depends on UTF-8.
-/
open PlzVerif PlzVerif.DirCache PlzVerif.Proto

namespace C12Driver

/-- hex of a slash separated byte path → components (each kept as hex); none when malformed or empty component. -/
def parsePath (h : String) : Option Path := do
  let b ← bytesOfHex h
  if b.isEmpty then none else
  let comps := b.splitOn 47
  if comps.any (·.isEmpty) then none else
  some (comps.map hexOfBytes)

def showPath (p : Path) : String := "2f".intercalate p

def parseItem (k d : String) : Option Item := do
  let b ← bytesOfHex d
  match k with
  | "f" => some (.file b false)
  | "x" => some (.file b true)
  | "l" => some (.link b)
  | "d" => if b.isEmpty then some .dir else none
  | _ => none

def parseTree (s : String) : Option Tree :=
  if s = "-" then some [] else
  (s.splitOn ",").mapM fun e =>
    match e.splitOn ":" with
    | [p, k, d] => do
      let p ← parsePath p
      let i ← parseItem k d
      pure (p, i)
    | _ => none

def showBytes (b : Bytes) : String := if b.isEmpty then "-" else hexOfBytes b

def showEntry (e : Path × Item) : String :=
  showPath e.1 ++ ":" ++
  match e.2 with
  | .file c false => "f:" ++ showBytes c
  | .file c true => "x:" ++ showBytes c
  | .link t => "l:" ++ showBytes t
  | .dir => "d:-"

def showTree (t : Tree) : String := if t.isEmpty then "-" else ",".intercalate (t.map showEntry)

/-- walk order: component-wise, a directory before its contents. -/
def walkLt : Path → Path → Bool
  | [], [] => false
  | [], _ :: _ => true
  | _ :: _, [] => false
  | a :: as, b :: bs => if a = b then walkLt as bs else decide (a < b)

/-- removal order: contents before their directory, siblings in name order. -/
def postLt (a b : Path) : Bool :=
  if a = b then false
  else if b.isPrefixOf a then true
  else if a.isPrefixOf b then false
  else walkLt a b

def insertBy {α} (lt : α → α → Bool) (x : α) : List α → List α
  | [] => [x]
  | y :: ys => if lt x y then x :: y :: ys else y :: insertBy lt x ys

def sortBy {α} (lt : α → α → Bool) (l : List α) : List α := l.foldr (insertBy lt) []

def prefixesOf (p : Path) : List Path := (List.range p.length).map fun k => p.take (k + 1)

/-- sorted in walk order, later duplicates of a path dropped in favour of the last one. -/
def canonTree (t : Tree) : Tree :=
  let dedup := t.foldl (fun acc e => acc.filter (·.1 ≠ e.1) ++ [e]) []
  sortBy (fun a b => walkLt a.1 b.1) dedup

inductive Act
  | retr (stale : Tree)
  | store (conc : Bool) (main : Option Nat) (sub : Nat) (src : Tree)
  | damage (keep : Nat)     -- compressed only: the entry tarball is cut to keep% of its bytes

def parseCrash (c : String) : Option (Option Nat × Nat) :=
  if c = "-" then some (none, 0) else
  match c.splitOn "." with
  | [m] => m.toNat?.map fun m => (some m, 0)
  | [m, k] => do
    let m ← m.toNat?
    let k ← k.toNat?
    pure (some m, k)
  | _ => none

def parseAct (a : String) : Option Act :=
  if a = "R" then some (.retr []) else
  match a.splitOn "/" with
  | ["R", tr] => (parseTree tr).map .retr
  | ["D", k] => (k.toNat?).bind fun k => if k ≤ 75 then some (.damage k) else none
  | [t, c, tr] =>
    if t = "S" ∨ t = "X" then do
      let (m, k) ← parseCrash c
      let src ← parseTree tr
      pure (.store (t = "X") m k src)
    else none
  | _ => none

def stepName : Step → String
  | .rmFinal => "rm-final@F"
  | .ready o => "ready@T/" ++ showPath o
  | .linkTree o => "link-tree@T/" ++ showPath o
  | .rename => "rename@T"
  | .readyC => "ready@T"
  | .create => "create@T"
  | .tarEntry p => "tar-entry@S/" ++ showPath p
  | .close => "close@T"
  | .stat => "stat@T"
  | .rmFailed => "rm-failed@T"

def showTrace (s : List Step) : String := if s.isEmpty then "-" else ",".intercalate (s.map stepName)

def showRes : Res → String
  | .miss => "miss"
  | .hit t => "hit/" ++ showTree (canonTree t)

def order := Generated.C12.storeOrder

/-! plain mode -/

def existing (fs : FS) (r : Root) (cands : List Path) : List Path := cands.filter fun p => fs r p ≠ none

def storeU (fs : FS) (cands outs : List Path) (main : Option Nat) (sub : Nat) (src : Tree) : FS × List Step :=
  let steps := stepsU order outs
  let m := main.getD steps.length
  let done := steps.take m
  let fs1 := applyOps fs (done.flatMap (expandU src []))
  let part : List Op :=
    match steps[m]? with
    | some .rmFinal =>
      ((sortBy postLt (existing fs1 .final cands)).map (Op.rmSub .final) ++ [Op.rmSub .final []]).take sub
    | some (.linkTree o) => (linkTreeOps src o).take sub
    | _ => []
  (applyOps fs1 part, done)

def showSliceU (fs : FS) (cands : List Path) : String :=
  let one (r : Root) : String :=
    match fs r [] with
    | none => "-"
    | some _ => "d/" ++ showTree ((existing fs r cands).filterMap fun p => (fs r p).map (p, ·))
  "F=" ++ one .final ++ " T=" ++ one .tmp

def readerResult (cands outs : List Path) (s1 s2 : FS) : Res :=
  match readRun cands outs (fun i => if i = 0 then s1 else s2) (2 * cands.length + outs.length + 4) with
  | .done r => r
  | _ => .miss

def runU (cands outs : List Path) (acts : List Act) : String :=
  let (fs, pieces) := acts.foldl (fun (st : FS × List String) a =>
    let (fs, pieces) := st
    match a with
    | .retr _ => (fs, pieces ++ [showRes (retrieveU fs cands outs)])   -- plain: every output is removed, then linked back
    | .damage _ => (fs, pieces)
    | .store false m k src =>
      let (fs', tr) := storeU fs cands outs m k src
      (fs', pieces ++ [showTrace tr])
    | .store true m k src =>
      let (fs', tr) := storeU fs cands outs m k src
      let r := if fs .final [] = none then Res.miss else readerResult cands outs fs fs'
      (fs', pieces ++ [showTrace tr ++ ";" ++ showRes r])) (FS.empty, [])
  "|".intercalate (pieces ++ [showSliceU fs cands])

/-! compressed mode -/

def storeC (fs : CFS) (outs : List Path) (main : Option Nat) (sub : Nat) (src : Tree) : CFS × List Step :=
  let steps := stepsC order src outs
  let m := main.getD steps.length
  let done := steps.take m
  let fs1 := applyOpsC fs (done.flatMap (expandC src))
  let part : List COp :=
    match steps[m]? with
    | some .rmFinal => if sub ≥ 1 then [COp.rm .final] else []
    | _ => []
  (applyOpsC fs1 part, done)

def showSliceC (fs : CFS) : String :=
  let one (r : Root) : String :=
    match fs r with
    | none => "-"
    | some t => if t.closed then "z/" ++ showTree t.es else "z!"
  "F=" ++ one .final ++ " T=" ++ one .tmp

def runC (cands outs : List Path) (acts : List Act) : String :=
  let (fs, pieces) := acts.foldl (fun (st : CFS × List String) a =>
    let (fs, pieces) := st
    match a with
    | .retr stale =>
      let d0 : Dest := fun p => stale.get p
      (fs, pieces ++ [showRes (retrieveCInto (Generated.C12.retrievePreparesEveryEntry && !Generated.C12.retrieveReadyReturnsBeforeUnlink) Generated.C12.retrieveOpenTruncates
        Generated.C12.damagedIsMiss fs d0 cands outs)])
    | .damage _ =>
      -- the cut reaches at least a quarter into the compressed stream: entry data or the end marker is gone
      -- (cuts confined to the last few bytes are outside the protocol: see harness/cmd/c12/main.go)
      let fs' : CFS := fun r => if r = .final then (fs .final).map fun t => { t with closed := false } else fs r
      (fs', pieces ++ ["damaged"])
    | .store false m k src =>
      let (fs', tr) := storeC fs outs m k src
      (fs', pieces ++ [showTrace tr])
    | .store true m k src =>
      let (fs', tr) := storeC fs outs m k src
      let r := retrieveC2 Generated.C12.enoentIsMiss Generated.C12.damagedIsMiss fs fs' outs
      (fs', pieces ++ [showTrace tr ++ ";" ++ showRes r])) (CFS.empty, [])
  "|".intercalate (pieces ++ [showSliceC fs])

def step (line : String) : String :=
  match line.splitOn " " with
  | mode :: outsS :: actsS =>
    if mode ≠ "u" ∧ mode ≠ "c" then "bad-op" else
    let outs? : Option (List Path) := if outsS = "-" then some [] else (outsS.splitOn ",").mapM parsePath
    match outs?, actsS.mapM parseAct with
    | some outs, some acts =>
      if mode = "u" ∧ acts.any (fun a => match a with | .damage _ => true | _ => false) then "bad-op" else
      let treePaths := acts.flatMap fun a => match a with
        | .store _ _ _ src => src.map (·.1)
        | _ => []
      let all := (treePaths ++ outs).flatMap prefixesOf
      let cands := sortBy walkLt (all.foldl (fun acc p => if acc.contains p then acc else acc ++ [p]) [])
      if mode = "u" then runU cands outs acts else runC cands outs acts
    | _, _ => "bad-op"
  | _ => "bad-op"

end C12Driver

def main : IO Unit := runStateless C12Driver.step
