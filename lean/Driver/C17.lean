import PlzVerif.Base.Proto
import PlzVerif.Model.AspFacts
import PlzVerif.Model.AspRender
import PlzVerif.Model.AspGenerated
open PlzVerif PlzVerif.Asp PlzVerif.Proto


def F : Facts := genF

def step (line : String) : String :=
  match line.splitOn " " with
  | "ms" :: rest =>
    match parseFileSet (" ".intercalate rest) with
    | none => "bad-op"
    | some (defs, pkgs) =>
      match runPackages F 20000 defs pkgs with
      | .ok r => showPackages r
      | .error e => if e.startsWith "model:" || e == "fuel" then "ERR " ++ e else "ERR"
  | _ => "bad-op"

def main : IO Unit := runStateless step
