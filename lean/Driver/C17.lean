import PlzVerif.Base.Proto
import PlzVerif.Model.AspFacts
import PlzVerif.Model.AspRender
import PlzVerif.Generated.C16
open PlzVerif PlzVerif.Asp PlzVerif.Proto

def raw : RawFacts :=
  { precTable := Generated.C16.precTable, precDefault := Generated.C16.precDefault, lazyOps := Generated.C16.lazyOps,
    operators := Generated.C16.operators, intOps := Generated.C16.intOps,
    listAddAppendsToReceiver := Generated.C16.listAddAppendsToReceiver, freezeWraps := Generated.C16.freezeWraps,
    sortedArg := Generated.C16.sortedArg, reversedArg := Generated.C16.reversedArg,
    constantFoldsLists := Generated.C16.constantFoldsLists, listSlice := Generated.C16.listSlice }

def F : Facts := factsOf raw

def step (line : String) : String :=
  match line.splitOn " " with
  | "ms" :: rest =>
    match parseFileSet (" ".intercalate rest) with
    | none => "bad-op"
    | some (defs, pkgs) =>
      match runPackages F 20000 defs pkgs with
      | .ok r => showPackages r
      | .error e => if e.startsWith "model:" || e == "fuel" then "ERR " ++ e else "ERR"
  | _ => "bad-op"

def main : IO Unit := runStateless step
