import PlzVerif.Base.Proto
import PlzVerif.Model.RuleHash
import PlzVerif.Model.RuleProto
import PlzVerif.Model.Env
import PlzVerif.Model.Sha1
import PlzVerif.Generated.C08
import PlzVerif.Generated.C10
/-!
Line protocol for C10 (see harness/rulehash/c10.go): target tokens as for C08 plus `c.*` (configuration), `d.*`
(derived strings) and `caller=` / `callerA=` / `callerB=`.
  env      -> the sorted `k=v` entries of the action environment (hex, comma separated) | unstable
  cfghash  -> hex sha1(configSer)
  hermetic -> env:<same|diff|unstable> rule:<same|diff> cfg:<same|diff>
  exec     -> exact
  userenv  -> deterministic | order-dependent
  e2e10 <seed> -> ok
-/
open PlzVerif PlzVerif.RuleHash PlzVerif.Proto PlzVerif.RuleProto PlzVerif.Env

def F : Facts := Generated.C08.facts

structure Op where
  cfg : Cfg := {}
  d : Derived := {}
  t : Target := {}
  caller : Caller := []
  callerB : Option Caller := none

def applyC (o : Op) (k v : String) : Option Op :=
  match k with
  | "c.lang" => (unhx v).map fun x => { o with cfg := { o.cfg with lang := x } }
  | "c.nonce" => (unhx v).map fun x => { o with cfg := { o.cfg with nonce := x } }
  | "c.location" => (unhx v).map fun x => { o with cfg := { o.cfg with location := x } }
  | "c.buildconfig" => (unhx v).map fun x => { o with cfg := { o.cfg with buildConfig := x } }
  | "c.pkgconfig" => (unhx v).map fun x => { o with cfg := { o.cfg with pkgConfigPath := x } }
  | "c.reporoot" => (unhx v).map fun x => { o with cfg := { o.cfg with repoRoot := x } }
  | "c.arch" => (unhx v).map fun x => { o with cfg := { o.cfg with arch := x } }
  | "c.os" => (unhx v).map fun x => { o with cfg := { o.cfg with os := x } }
  | "c.xarch" => (unhx v).map fun x => { o with cfg := { o.cfg with xarch := x } }
  | "c.xos" => (unhx v).map fun x => { o with cfg := { o.cfg with xos := x } }
  | "c.reject" => (decList v).map fun x => { o with cfg := { o.cfg with licencesReject := x } }
  | "c.passenv" => (decList v).map fun x => { o with cfg := { o.cfg with passEnv := x } }
  | "c.passunsafe" => (decList v).map fun x => { o with cfg := { o.cfg with passUnsafeEnv := x } }
  | "c.path" => (decList v).map fun x => { o with cfg := { o.cfg with path := x } }
  | "c.sandboxdirs" => (decList v).map fun x => { o with cfg := { o.cfg with sandboxDirs := x } }
  | "c.buildenv" => (decKVs v).map fun x => { o with cfg := { o.cfg with buildEnv := x } }
  | "c.remote" => if v = "1" then some { o with cfg := { o.cfg with remote := true } } else none
  | "c.bazel" => if v = "1" then some { o with cfg := { o.cfg with bazelCompat := true } } else none
  | "d.pkgdir" => (unhx v).map fun x => { o with d := { o.d with pkgDir := x } }
  | "d.outresolved" => (unhx v).map fun x => { o with d := { o.d with outResolved := x } }
  | "d.tmpdir" => (unhx v).map fun x => { o with d := { o.d with tmpDir := x } }
  | "d.sources" => (decList v).map fun x => { o with d := { o.d with sources := x } }
  | "d.outenv" => (decList v).map fun x => { o with d := { o.d with outEnv := x } }
  | "d.namedsrcs" => (decGroups v).map fun x => { o with d := { o.d with namedSrcPaths := x } }
  | "d.namedouts" => (decGroups v).map fun x => { o with d := { o.d with namedOutTmp := x } }
  | "caller" => (decKVs v).map fun x => { o with caller := x }
  | "callerA" => (decKVs v).map fun x => { o with caller := x }
  | "callerB" => (decKVs v).map fun x => { o with callerB := some x }
  | _ => none

def isC10Key (k : String) : Bool := k.startsWith "c." || k.startsWith "d." || k.startsWith "caller"

def parseOp (toks : List String) : Option Op :=
  let keys := toks.map fun t => (t.splitOn "=").headD ""
  if !nodupS keys then none else
  let mine := toks.filter fun t => isC10Key ((t.splitOn "=").headD "")
  let rest := toks.filter fun t => !isC10Key ((t.splitOn "=").headD "")
  match parseToks false true {} rest with
  | none => none
  | some (_, t) =>
    mine.foldlM (fun (o : Op) tok =>
      match tok.splitOn "=" with
      | [k, v] => applyC o k v
      | _ => none) { t := t }

def isAscii (b : Bytes) : Bool := b.all (· < 128)

def upperNodup (l : List Bytes) : Bool := nodupB (l.map upper) && l.all isAscii

def wellFormedOp (o : Op) : Bool :=
  let ctx : Ctx := { config := o.cfg.buildConfig, fallback := o.cfg.buildConfig, environ := o.caller }
  wellFormed ctx o.t && nodupB (o.caller.map (·.1)) && nodupB ((o.callerB.getD []).map (·.1)) &&
  (o.caller ++ o.callerB.getD []).all (fun kv => envNameOK kv.1 && !kv.2.contains 0) &&
  nodupB (o.cfg.buildEnv.map fun kv => normKey kv.1) && o.cfg.buildEnv.all (fun kv => !kv.1.isEmpty && isAscii kv.1) &&
  o.cfg.passEnv.all envNameOK && o.cfg.passUnsafeEnv.all envNameOK &&
  ((o.t.passUnsafeEnv.map fun l => l.all envNameOK).getD true) &&
  upperNodup (o.t.namedSrcs.map (·.1)) && upperNodup (o.t.namedOuts.map (·.1)) &&
  upperNodup (o.t.namedTools.map (·.1)) && upperNodup (o.t.namedSecrets.map (·.1)) &&
  !o.t.isFilegroup && o.t.label.subrepo.isEmpty

def envOf (o : Op) (c : Caller) (t : Target) : List Bytes := toSlice (buildEnvironment Generated.C10.userEnvSorted o.cfg t o.d c)

def perms {α : Type} : List α → List (List α)
  | [] => [[]]
  | x :: r => (perms r).flatMap fun p => (List.range (p.length + 1)).map fun i => p.take i ++ x :: p.drop i

/-- Is the environment independent of the iteration order of `target.Env`? -/
def stable (o : Op) (c : Caller) : Bool :=
  if o.t.env.length < 2 then true
  else (perms o.t.env).all fun p => envOf o c { o.t with env := p } == envOf o c o.t

def showSlice (l : List Bytes) : String := if l.isEmpty then "-" else ",".intercalate (l.map hexOfBytes)

def ctxOf (o : Op) (c : Caller) : Ctx := { config := o.cfg.buildConfig, fallback := o.cfg.buildConfig, environ := c }

def sd (b : Bool) : String := if b then "same" else "diff"

def step (line : String) : String :=
  match line.splitOn " " with
  | ["e2e10", seed] =>
    -- decided on the real binary alone (see harness/rulehash/c10e2e.go)
    match seed.toNat? with
    | some n => if toString n = seed then "ok" else "bad-op"
    | none => "bad-op"
  | op :: toks =>
    match parseOp toks with
    | none => "bad-op"
    | some o =>
      if !wellFormedOp o then "bad-op"
      else if op = "env" then (if stable o o.caller then showSlice (envOf o o.caller o.t) else "unstable")
      else if op = "cfghash" then hexOfBytes (Sha1.sha1 (configSer o.cfg o.caller))
      else if op = "exec" then "exact"
      else if op = "userenv" then (if stable o o.caller then "deterministic" else "order-dependent")
      else if op = "hermetic" then
        match o.callerB with
        | none => "bad-op"
        | some cb =>
          let envWord := if !(stable o o.caller && stable o cb) then "unstable" else sd (envOf o o.caller o.t == envOf o cb o.t)
          let rule := ruleSer F (ctxOf o o.caller) o.t == ruleSer F (ctxOf o cb) o.t
          let cfg := configSer o.cfg o.caller == configSer o.cfg cb
          s!"env:{envWord} rule:{sd rule} cfg:{sd cfg}"
      else "bad-op"
  | _ => "bad-op"

def main : IO Unit := runStateless step
