import PlzVerif.Base.Proto
import PlzVerif.Model.FilterFacts
/-!
Line protocol of C36 (strings are hex, one byte = one `Char`, "-" = empty string, "_" = empty list):

  m   PAT S                     match(PAT, S) through HasLabel on a one-label target        -> 0 | 1
  hl  TARGET LAB                target.HasLabel(LAB)                                         -> 0 | 1
  si  TARGET INC EXC            target.ShouldInclude(INC, EXC)                               -> 0 | 1
  ss  PKG TARGET INC EXC        SetIncludeAndExclude(INC, EXC); state.ShouldInclude(target)  -> 0 | 1
  ex  P:N:S JT INC EXC PKGS     SetIncludeAndExclude; expand the pseudo-target over the graph -> sorted labels

  TARGET = NAME~(t|n)~LABELS     LABELS = _ | hex+hex+…      INC/EXC = _ | hex,hex,…
  PKGS   = _ | PKG;PKG;…         PKG = NAME=_ | NAME=TARGET/TARGET/…
-/
open PlzVerif PlzVerif.Label PlzVerif.Filter PlzVerif.Proto

def lf : Label.Facts := generatedFacts
def ff : FFacts := generatedFFacts

def unhex (s : String) : Option Str := (bytesOfHex s).map fun b => b.map fun x => Char.ofNat x.toNat
def hex (s : Str) : String := if s.isEmpty then "-" else hexOfBytes (s.map fun c => UInt8.ofNat c.toNat)
def bit (b : Bool) : String := if b then "1" else "0"

def parseList {α} (sep : String) (item : String → Option α) (s : String) : Option (List α) :=
  if s = "_" then some [] else (s.splitOn sep).mapM item

def parseTarget (pkg : Str) (s : String) : Option Target :=
  match s.splitOn "~" with
  | [n, k, ls] => do
    let n ← unhex n
    let t ← (if k = "t" then some true else if k = "n" then some false else none)
    let ls ← parseList "+" unhex ls
    pure ⟨⟨pkg, n, []⟩, ls, t⟩
  | _ => none

def parsePkg (s : String) : Option Pkg :=
  match s.splitOn "=" with
  | [n, ts] => do
    let n ← unhex n
    let ts ← parseList "/" (parseTarget n) ts
    pure (n, ts)
  | _ => none

def parseLabel (s : String) : Option Label :=
  match s.splitOn ":" with
  | [p, n, u] => do pure ⟨← unhex p, ← unhex n, ← unhex u⟩
  | _ => none

def showLabel (l : Label) : String := hex l.pkg ++ ":" ++ hex l.name ++ ":" ++ hex l.sub

/-- byte-wise lexicographic `<` (Go string comparison). -/
def ltStr : Str → Str → Bool
  | [], [] => false
  | [], _ :: _ => true
  | _ :: _, [] => false
  | a :: as, b :: bs => if a.toNat < b.toNat then true else if b.toNat < a.toNat then false else ltStr as bs

/-- `BuildLabel.Less`. -/
def lessLabel (a b : Label) : Bool :=
  if a.sub != b.sub then ltStr a.sub b.sub
  else if a.pkg != b.pkg then ltStr a.pkg b.pkg
  else ltStr a.name b.name

def insertSorted (x : Label) : List Label → List Label
  | [] => [x]
  | y :: ys => if lessLabel x y then x :: y :: ys else y :: insertSorted x ys

/-- excludes the real code cannot take without a repo root or dies on -/
def excludesOK (exc : List Str) : Bool :=
  exc.all fun e => !looksLikeLabel e || (e.head? != some ':' && (tryParse lf e [] []).isSome)

def mkState (inc exc : List Str) : Option FilterState :=
  if excludesOK exc then setIncludeAndExclude lf inc exc else none

def step (line : String) : String :=
  match line.splitOn " " with
  | ["m", p, s] =>
    match unhex p, unhex s with
    | some p, some s => bit (hasLabel ff ⟨⟨[], ['x'], []⟩, [s], false⟩ p)
    | _, _ => "bad-op"
  | ["hl", t, lab] =>
    match parseTarget [] t, unhex lab with
    | some t, some lab => bit (hasLabel ff t lab)
    | _, _ => "bad-op"
  | ["si", t, inc, exc] =>
    match parseTarget [] t, parseList "," unhex inc, parseList "," unhex exc with
    | some t, some inc, some exc => bit (shouldIncludeT ff t inc exc)
    | _, _, _ => "bad-op"
  | ["ss", p, t, inc, exc] =>
    match unhex p, parseList "," unhex inc, parseList "," unhex exc with
    | some p, some inc, some exc =>
      match parseTarget p t, mkState inc exc with
      | some t, some st => bit (shouldIncludeS lf ff st t)
      | _, _ => "bad-op"
    | _, _, _ => "bad-op"
  | ["ex", pat, jt, inc, exc, pkgs] =>
    match parseLabel pat, parseList "," unhex inc, parseList "," unhex exc, parseList ";" parsePkg pkgs with
    | some pat, some inc, some exc, some pkgs =>
      let dup := !(pkgs.map (·.1)).Nodup || pkgs.any (fun p => !(p.2.map (·.label.name)).Nodup)
      if (jt != "0" && jt != "1") || !(pat.name == dots || pat.name == allName) || dup then "bad-op" else
      match mkState inc exc with
      | some st =>
        let ls := (expand lf ff st pkgs pat (jt == "1")).foldr insertSorted []
        if ls.isEmpty then "_" else ",".intercalate (ls.map showLabel)
      | none => "bad-op"
    | _, _, _, _ => "bad-op"
  | _ => "bad-op"

def main : IO Unit := runStateless step
