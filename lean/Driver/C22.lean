import PlzVerif.Base.Proto
import PlzVerif.Model.Walk
import PlzVerif.Generated.C22
/-!
Line protocol of C22:
  walk <root> <prefix> <buildnames> <experimental> <blacklist> <tree>
    root, prefix          hex strings ("-" empty); root is a clean relative path, "-" = repository root
    buildnames, ...       ';'-separated hex strings, "_" for the empty list
    tree                  ','-separated pre-order tokens of the repository root's entries:
                          d<hex> (directory, closed by "^")  f<hex> (file)  l<hex> (symlink to a directory)
                          s<hex> (other symlink); "_" for an empty root
  answer: the names sent on the channel, in order, hex, ','-separated ("_" when none);
          "no-root" when <root> does not name an entry of the tree, "root-not-dir" when it names a non-directory
          (not run on the real code: `fs.WalkMode` + `log.Fatalf` would end the process when the callback skips it).
-/
open PlzVerif PlzVerif.Walk PlzVerif.Proto

def facts : Facts :=
  { outDir := Generated.C22.outDir, chain := Generated.C22.chain, blCond := Generated.C22.blCond,
    cutOnNonDir := Generated.C22.cutOnNonDir, sorted := Generated.C22.sorted }

/-- Hex of valid UTF-8 only (the model compares code points, Go compares bytes: the two agree on valid UTF-8). -/
def nameOfHex (h : String) : Option Name := do
  let b ← bytesOfHex h
  let s ← String.fromUTF8? (ByteArray.mk b.toArray)
  pure s.toList

def parseList (s : String) : Option (List Name) :=
  if s = "_" then some [] else (s.splitOn ";").mapM nameOfHex

/-- An entry name the file system can hold. -/
def validEntry (n : Name) : Bool :=
  !n.isEmpty && !n.contains '/' && !n.contains (Char.ofNat 0) && n != ['.'] && n != ['.', '.'] &&
  (String.ofList n).utf8ByteSize ≤ 255

def Forest.names : Forest → List Name
  | .nil => []
  | .cons n _ rest => n :: Forest.names rest

def nodupNames : List Name → Bool
  | [] => true
  | n :: rest => !rest.contains n && nodupNames rest

/-- Parse tokens into a forest; returns the forest, the remaining tokens and whether a closing "^" ended it. -/
def parseForest : Nat → List String → Option (Forest × List String × Bool)
  | 0, _ => none
  | _ + 1, [] => some (.nil, [], false)
  | fuel + 1, tok :: rest =>
    if tok = "^" then some (.nil, rest, true) else
    let kind := (tok.take 1).toString
    match nameOfHex (tok.drop 1).toString with
    | none => none
    | some n =>
      if !validEntry n then none else
      if kind = "d" then
        match parseForest fuel rest with
        | some (kids, rest', true) =>
          if !nodupNames (Forest.names kids) then none else
          match parseForest fuel rest' with
          | some (sibs, rest'', c) => some (.cons n (.dir kids) sibs, rest'', c)
          | none => none
        | _ => none
      else
        let k : Option Kind := if kind = "f" then some .file else if kind = "l" then some .linkDir
          else if kind = "s" then some .linkOther else none
        match k with
        | none => none
        | some k =>
          match parseForest fuel rest with
          | some (sibs, rest', c) => some (.cons n (.leaf k) sibs, rest', c)
          | none => none

def Forest.find (n : Name) : Forest → Option Tree
  | .nil => none
  | .cons m t rest => if m = n then some t else Forest.find n rest

def lookup : Tree → List Name → Option Tree
  | t, [] => some t
  | .leaf _, _ :: _ => none
  | .dir cs, n :: rest => match Forest.find n cs with
    | none => none
    | some t => lookup t rest

def splitSlash (n : Name) : List Name :=
  if n.isEmpty then [] else (String.ofList n).splitOn "/" |>.map String.toList

def showNames (l : List Name) : String :=
  if l.isEmpty then "_" else ",".intercalate (l.map fun n => hexOfStr (String.ofList n))

def step (line : String) : String :=
  match line.splitOn " " with
  | ["walk", root, pfx, bn, ex, bl, tree] =>
    match nameOfHex root, nameOfHex pfx, parseList bn, parseList ex, parseList bl with
    | some root, some pfx, some bn, some ex, some bl =>
      let toks := if tree = "_" then [] else tree.splitOn ","
      match parseForest (toks.length + 1) toks with
      | some (f, [], false) =>
        if !nodupNames (Forest.names f) then "bad-op" else
        let comps := splitSlash root
        match lookup (.dir f) comps with
        | some (.leaf _) => "root-not-dir"
        | some t => showNames (findAll facts ⟨bn, ex, bl, pfx⟩ comps t)
        | none => "no-root"
      | _ => "bad-op"
    | _, _, _, _, _ => "bad-op"
  | _ => "bad-op"

def main : IO Unit := runStateless step
