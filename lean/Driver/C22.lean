import PlzVerif.Base.Proto
import PlzVerif.Model.Walk
import PlzVerif.Model.TreeProto
import PlzVerif.Generated.C22
/-!
Line protocol of C22:
  walk <root> <prefix> <buildnames> <experimental> <blacklist> <tree>
    root, prefix          hex strings ("-" empty); root is a clean relative path, "-" = repository root
    buildnames, ...       ';'-separated hex strings, "_" for the empty list
    tree                  ','-separated pre-order tokens of the repository root's entries:
                          d<hex> (directory, closed by "^")  f<hex> (file)  l<hex> (symlink to a directory)
                          s<hex> (other symlink); "_" for an empty root
  answer: the names sent on the channel, in order, hex, ','-separated ("_" when none);
          "no-root" when <root> does not name an entry of the tree, "root-not-dir" when it names a non-directory
          (not run on the real code: `fs.WalkMode` + `log.Fatalf` would end the process when the callback skips it).
-/
open PlzVerif PlzVerif.Walk PlzVerif.Proto PlzVerif.TreeProto

def facts : Facts :=
  { outDir := Generated.C22.outDir, chain := Generated.C22.chain, blCond := Generated.C22.blCond,
    cutOnNonDir := Generated.C22.cutOnNonDir, sorted := Generated.C22.sorted }

def step (line : String) : String :=
  match line.splitOn " " with
  | ["walk", root, pfx, bn, ex, bl, tree] =>
    match nameOfHex root, nameOfHex pfx, parseList bn, parseList ex, parseList bl with
    | some root, some pfx, some bn, some ex, some bl =>
      let toks := if tree = "_" then [] else tree.splitOn ","
      match parseForest (toks.length + 1) toks with
      | some (f, [], false) =>
        if !nodupNames (Forest.names f) then "bad-op" else
        let comps := splitSlash root
        match lookup (.dir f) comps with
        | some (.leaf _) => "root-not-dir"
        | some t => showNames (findAll facts ⟨bn, ex, bl, pfx⟩ comps t)
        | none => "no-root"
      | _ => "bad-op"
    | _, _, _, _, _ => "bad-op"
  | _ => "bad-op"

def main : IO Unit := runStateless step
