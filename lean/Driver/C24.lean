import PlzVerif.Base.Proto
import PlzVerif.Model.Changes
import PlzVerif.Model.QueryFacts
import PlzVerif.Generated.C24
open PlzVerif PlzVerif.Query PlzVerif.Changes PlzVerif.Proto

def parsePath (s : String) : Path := if s = "." then [] else s.splitOn "/"

def parseAdj (s : String) : Option (List (Nat × List Nat)) :=
  if s = "-" then some [] else
  (s.splitOn ";").mapM fun e =>
    match e.splitOn ":" with
    | [k, v] => do
      let k ← k.toNat?
      let v ← parseNats v
      pure (k, v)
    | _ => none

/-- `0:a/b|c;1:-` ; the value part may itself contain ':' (labels), so only the first ':' separates -/
def parseInputs (s : String) : Option (List (Nat × List Path)) :=
  if s = "-" then some [] else
  (s.splitOn ";").mapM fun e =>
    match e.splitOn ":" with
    | k :: v :: rest => do
      let k ← k.toNat?
      let v := ":".intercalate (v :: rest)
      if v = "" then none
      else if v = "-" then pure (k, [])
      else
        let parts := v.splitOn "|"
        if parts.any (· = "") then none else pure (k, parts.map parsePath)
    | _ => none

def pkgOfName (nm : String) : Option Path :=
  match nm.splitOn ":" with
  | [p, n] => if p = "" || n = "" then none else some (parsePath p)
  | _ => none

/-- `go,py;manual` → [["go","py"],["manual"]] ; "-" = none -/
def parseFilter (s : String) : Option (List (List String)) :=
  if s = "-" then some [] else
  let es := (s.splitOn ";").map (·.splitOn ",")
  if es.any (·.any (· = "")) then none else some es

/-- `0:manual|go;1:-` -/
def parseLabels (s : String) : Option (List (Nat × List String)) :=
  if s = "-" then some [] else
  (s.splitOn ";").mapM fun e =>
    match e.splitOn ":" with
    | [k, v] => do
      let k ← k.toNat?
      if v = "" then none
      else if v = "-" then pure (k, [])
      else
        let parts := v.splitOn "|"
        if parts.any (· = "") then none else pure (k, parts)
    | _ => none

def parseLevel (s : String) : Option (Option Limit) :=
  if s = "u" then some (some none)
  else match s.toNat? with
    | some 0 => some none
    | some n => some (some (some n))
    | none => none

def insertAt (pos : Nat → Nat) (x : Nat) : List Nat → List Nat
  | [] => [x]
  | y :: ys => if x == y then y :: ys else if pos x < pos y then x :: y :: ys else y :: insertAt pos x ys

def step (line : String) : String :=
  match line.splitOn " " with
  | ["changes", lvl, files, changed0, names, pkgs, nodes, adj, inputs, tools, labels, inc, exc] =>
    match parseLevel lvl, parseNats changed0, parseNats nodes, parseAdj adj, parseInputs inputs, parseInputs tools,
          parseLabels labels, parseFilter inc, parseFilter exc with
    | some level, some changed0, some nodes, some al, some ins, some tls, some lbs, some inc, some exc =>
      let nms := if names = "-" then [] else names.splitOn ","
      match nms.mapM pkgOfName with
      | none => "bad-op"
      | some pkgOf =>
        let n := nms.length
        if nodes.length == n && (List.range n).all (fun i => nodes.count i == 1 && (al.map (·.1)).count i == 1 && (ins.map (·.1)).count i == 1 && (tls.map (·.1)).count i == 1 && (lbs.map (·.1)).count i == 1) &&
           al.length == n && ins.length == n && tls.length == n && lbs.length == n && al.all (fun e => e.2.all (· < n)) && changed0.all (· < n) then
          let G : Graph := { nodes := nodes, adj := fun t => match al.lookup t with | some ds => ds | none => [],
                             pl := fun t => t, hid := fun _ => false }
          let C : CGraph := { G := G, pkgs := if pkgs = "-" then [] else (pkgs.splitOn ",").map parsePath,
                              pkgOf := fun t => match pkgOf[t]? with | some p => p | none => [],
                              inputs := fun t => match ins.lookup t with | some l => l | none => [],
                              tools := fun t => match tls.lookup t with | some l => l | none => [],
                              incl := fun t => shouldInclude (match lbs.lookup t with | some l => l | none => []) inc exc }
          let fs := if files = "-" then [] else (files.splitOn ",").map parsePath
          let out := changedTargets genCfg PlzVerif.Generated.C24.seedsFiltered C fs changed0 level
          let pos := fun x => nodes.idxOf x
          showNats (out.foldr (insertAt pos) [])
        else "bad-op"
    | _, _, _, _, _, _, _, _, _ => "bad-op"
  | _ => "bad-op"

def main : IO Unit := runStateless step
