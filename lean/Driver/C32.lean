import PlzVerif.Base.Proto
import PlzVerif.Model.CrashBuild
import PlzVerif.Model.WriteFile
import PlzVerif.Generated.C32
/-!
Driver for C32.  Line protocol (see harness/cmd/c32/main.go):

  trace   <mode> <cache> <pb> <kinds> <pre>                 -> hook-point names of the interrupted build step, in order
  crash   <mode> <cache> <pb> <kinds> <pre> <k> <j> <next>  -> files of the target after the kill | what the next build does
  crash2  <mode> <cache> <pb> <kinds> <pre> <k1> <j1> <k2> <j2> <next>  -> the same after a second, plain build was killed too
  fbtrunc <kinds> <len>                                      -> next build after a fallback record was cut to <len> bytes
  wf      <old|none> <new> <mode> <chunk> <n> <how>          -> destination / temporary (content:mode) after fs.WriteFile died;
             how = p|k (the reader dies after n bytes: panic | SIGKILL) or <close|rename|renamed>-<p|k> (crash point of WriteFile)
  gob     <hex>                                              -> number of strict prefixes of the gob that decode (claim: 0)
  tkill   ...                                                -> what the theorems say about a same-tree recovery

mode x|f (stamps as xattrs | fallback records), cache c|n, pb p|-|g|b (p: post-build function, metadata is loaded when
up to date; g: declared hashes that both trees pass; b: declared hashes that only T0 passes — a build of T1 fails), kinds: one letter per output (f file, d directory), pre: none | old:<mask> | cur | old-rmout0 | cur-rmout0 |
cur-rmmd, (k, j): k hook points completed and j atomic steps inside the next one, next: same | revert.
-/
open PlzVerif PlzVerif.Proto PlzVerif.CrashBuild

abbrev P := Params Nat Nat Nat Nat
abbrev T := TState Nat Nat Nat

structure Scn where
  fb : Bool
  cache : Bool
  pb : Bool
  hs : String      -- declared hashes: "-" none, "g" both trees verify, "b" only T0 verifies (a build of T1 fails "Bad output hash")
  kinds : List Char
  pre : String
  mask : List Bool

def gobNew : List UInt8 := [1, 2, 3]

def c0 (i : Nat) : Nat := 10 + i
def c1 (s : Scn) (i : Nat) : Nat := if s.mask.getD i true then 20 + i else 10 + i
def partC : Nat := 99
def s0 : Nat := 100
def s1 : Nat := 200

def parseScn (mode cache pb kinds pre : String) : Option Scn :=
  let ks := kinds.toList
  if !(mode = "x" || mode = "f") || !(cache = "c" || cache = "n") || !(pb = "p" || pb = "-" || pb = "g" || pb = "b") then none
  else if ks.isEmpty || !ks.all (fun c => c = 'f' || c = 'd' || c = 's') then none
  else
    let mask? : Option (List Bool) :=
      match pre.splitOn ":" with
      | ["old", m] => if m.length = ks.length && m.toList.all (fun c => c = '0' || c = '1') then some (m.toList.map (· = '1')) else none
      | [p] => if ["none", "cur", "old-rmout0", "cur-rmout0", "cur-rmmd"].contains p then some (ks.map fun _ => true) else none
      | _ => none
    mask?.map fun m => { fb := mode = "f", cache := cache = "c", pb := pb = "p", hs := (if pb = "g" || pb = "b" then pb else "-"), kinds := ks, pre := (pre.splitOn ":").headD "", mask := m }

/-- the parameters of a build of tree T1 (`cur = true`) or T0 -/
def params (s : Scn) (cur : Bool) : P :=
  { outs := List.range s.kinds.length,
    new := fun i => if cur then c1 s i else c0 i,
    stamp := if cur then s1 else s0,
    hash := id,
    mdBytes := gobNew, mdSplit := [1], mdLoads := fun bs => bs == gobNew,
    useFb := fun i => s.fb || s.kinds.getD i 'f' = 's',      -- fs.RecordAttr: xattrs disabled, or the output is a symlink
    mdUseFb := s.fb,
    rmSteps := fun i => if s.kinds.getD i 'f' = 'd' then [partC] else [],
    fbParts := [50], cache := true,       -- state.Cache is never nil (a no-op cache when none is configured)
    readsMd := s.pb }

def emptySlice : Slice Nat Nat := ⟨none, none, none⟩

def complete (s : Scn) (cur : Bool) : T :=
  let st := if cur then s1 else s0
  { md := some gobNew, mdAttr := if s.fb then none else some st, mdFb := if s.fb then some (.full st) else none,
    out := fun i => if i < s.kinds.length then
      let fb := s.fb || s.kinds.getD i 'f' = 's'
      ⟨none, some ⟨if cur then c1 s i else c0 i, if fb then none else some st⟩, if fb then some (.full st) else none⟩
      else emptySlice,
    cached := 0 }

def preState (s : Scn) : T :=
  match s.pre with
  | "none" => { md := none, mdAttr := none, mdFb := none, out := fun _ => emptySlice, cached := 0 }
  | "old" => complete s false
  | "cur" => complete s true
  | "old-rmout0" => let t := complete s false; { t with out := fun i => if i = 0 then { t.out 0 with gen := none } else t.out i }
  | "cur-rmout0" => let t := complete s true; { t with out := fun i => if i = 0 then { t.out 0 with gen := none } else t.out i }
  | _ => let t := complete s true; { t with md := none, mdAttr := none }       -- cur-rmmd

/-- hook points of the build step: name and the atomic operations between this point and the next -/
structure Macro where
  name : String
  ops : List (Op Nat Nat Nat)

def moveMacros (b : P) (fs : T) (i : Nat) : List Macro :=
  match moveS b (fs.out i) i with
  | [.keep] => [⟨s!"out-keep:{i}", [.out i .keep]⟩]
  | [.rename] => [⟨s!"out-rename:{i}", [.out i .rename]⟩]
  | l => [⟨s!"out-remove:{i}", (l.dropLast).map (.out i)⟩, ⟨s!"out-rename:{i}", [.out i .rename]⟩]

def phaseMacros (b : P) (fs : T) : String → List Macro
  | "metadata" => [⟨"md-remove", [.mdRemove]⟩, ⟨"md-create", [.mdCreate]⟩,
                   ⟨"md-write", (splitBy b.mdSplit b.mdBytes).map .mdAppend⟩, ⟨"md-done", [.mdDone]⟩]
  | "move" => b.outs.flatMap (moveMacros b fs)
  | "stamp" => b.outs.map (fun i => ⟨s!"stamp-out:{i}", (stampS b i).map (.out i)⟩) ++
               [⟨"stamp-md", if b.mdUseFb then [.mdFbTrunc, .mdFbFull b.stamp] else [.mdSetAttr b.stamp]⟩]
  | "cache" => if b.cache then [⟨"cache-store", [.cacheStore]⟩] else []
  | "unstamp" => b.outs.map fun i => ⟨s!"unstamp-out:{i}", [.out i .clear]⟩     -- removeRuleHash (since the repair)
  | _ => []

def macros (forced : Bool) (b : P) (fs : T) : List Macro :=
  -- "cache-retrieve": the cache lookup of retrieveArtifacts (a miss in every scenario; skipped by --rebuild, and
  -- targets whose build can modify them look up their metadata first, which misses and skips it): no writes
  [⟨"prepare", [.prepTmp]⟩] ++ (if forced || b.readsMd then [] else [⟨"cache-retrieve", []⟩]) ++
  [⟨"run-command", b.outs.map fun i => .out i (.run (b.new i))⟩] ++
  Generated.C32.buildPhases.flatMap (phaseMacros b fs) ++ [⟨"finish", [.finish]⟩]

/-- is the record written before the declared hashes are verified? (regenerated from calculateAndCheckRuleHash) -/
def stampFirst : Bool :=
  Generated.C32.verifyThenStamp.idxOf "writeRuleHash" < Generated.C32.verifyThenStamp.idxOf "checkRuleHashes"

/-- does a build of this tree pass the verification of the declared hashes? -/
def verifies (s : Scn) (cur : Bool) : Bool := !(s.hs = "b" && cur)

/-- hook points of a build step that fails the verification of its declared hashes -/
def macrosFail (forced : Bool) (b : P) (fs : T) : List Macro :=
  [⟨"prepare", [.prepTmp]⟩] ++ (if forced || b.readsMd then [] else [⟨"cache-retrieve", []⟩]) ++
  [⟨"run-command", b.outs.map fun i => .out i (.run (b.new i))⟩] ++
  (Generated.C32.buildPhases.takeWhile (· != "stamp")).flatMap (phaseMacros b fs) ++
  (if stampFirst then phaseMacros b fs "stamp" else []) ++
  [⟨"fail-remove-outputs", failOps b⟩]

def macrosFor (verif forced : Bool) (b : P) (fs : T) : List Macro :=
  if verif then macros forced b fs else macrosFail forced b fs

/-- the grouping into hook points must be exactly the operation list the theorems are about -/
def macrosConsistent (b : P) (fs : T) : Bool :=
  (macros false b fs).flatMap (·.ops) == planWith Generated.C32.buildPhases b fs &&
  (macros true b fs).flatMap (·.ops) == planWith Generated.C32.buildPhases b fs &&
  (macrosFail false b fs).flatMap (·.ops) == planFailWith Generated.C32.buildPhases stampFirst b fs

def showMd (m : Option (List UInt8)) : String :=
  match m with
  | none => "absent"
  | some [] => "empty"
  | some bs => if bs == gobNew then "full" else "part"

def showStamp (o : Option Nat) : String :=
  match o with
  | none => "none"
  | some n => if n = s0 then "s0" else if n = s1 then "s1" else "other"

def showSlice (s : Scn) (i : Nat) (sl : Slice Nat Nat) : String :=
  let c := match sl.gen with
    | none => "none"
    | some nd => if nd.content = c0 i then "c0" else if nd.content = c1 s i then "c1" else "part"
  let st := if s.fb || s.kinds.getD i 'f' = 's' then
      (match sl.fb with | none => "none" | some (.trunc _) => "trunc" | some (.full n) => showStamp (some n))
    else showStamp (sl.gen.bind (·.attr))
  s!"o{i}={c}/{st}"

def showState (s : Scn) (fs : T) : String :=
  " ".intercalate ([s!"md={showMd fs.md}"] ++ (List.range s.kinds.length).map fun i => showSlice s i (fs.out i))

def outputsClean (b : P) (fs : T) : Bool :=
  b.outs.all fun i => match (fs.out i).gen with | some nd => nd.content == b.new i | none => false

/-- what the next plain build of the tree described by `b` does from state `fs` -/
def showNext (verif : Bool) (b : P) (fs : T) : String :=
  if !verif then
    -- a clean build of this tree FAILS the verification of its declared hashes and leaves no output: so must this one
    (if needsBuilding b fs then
      let t := applyOps fs (planFailWith Generated.C32.buildPhases stampFirst b fs)
      "next=fail-verify final=" ++ (if b.outs.all (fun i => (t.out i).gen.isNone) then "missing" else "left")
     else "next=skip final=unverified")
  else
  let r := buildFSWith Generated.C32.buildPhases b false fs
  let fin := fun (t : T) => if outputsClean b t then "clean" else "stale"
  if r.2 then
    (if needsBuilding b fs then "next=rebuild" else "next=skip") ++ " final=" ++ fin r.1
  else
    let r2 := buildFSWith Generated.C32.buildPhases b false r.1
    "next=fail second=" ++ (if r2.2 then "ok" else "fail") ++ " final=" ++ fin r2.1

/-- hook points inside which the harness can emulate a partial step -/
def innerAllowed (name : String) : Bool :=
  ["md-write", "out-remove", "stamp-out", "stamp-md"].contains ((name.splitOn ":").headD "")

/-- the files after the build step of T1, started in `fs`, was killed just before hook point `k` plus `j` inner steps -/
def cutAt (verif forced : Bool) (b : P) (fs : T) (k j : Nat) : Option T :=
  let ms := macrosFor verif forced b fs
  if k > ms.length then none else
  match ms[k]? with
  | some m =>
    if j > 0 && (j ≥ m.ops.length || !innerAllowed m.name) then none
    else some (applyOps fs ((ms.take k).flatMap (·.ops) ++ m.ops.take j))
  | none => if j > 0 then none else some (applyOps fs (ms.flatMap (·.ops)))

def stepCrash (s : Scn) (k j : Nat) (next : String) : String :=
  let b := params s true
  let fs := preState s
  if !macrosConsistent b fs then "plan-mismatch" else
  match cutAt (verifies s true) (s.pre = "cur") b fs k j with
  | none => "bad-op"
  | some crash =>
    let bn := params s (next = "same")
    showState s crash ++ " | " ++ showNext (verifies s (next = "same")) bn crash

/-- a second, plain `plz build` of T1 on what the first kill left, itself killed at (k2, j2); a run that finds the
    target up to date has no hook points and ends by itself (failing, and removing the outputs, when the metadata does
    not load); so does a run with fewer than k2 hook points -/
def stepCrash2 (s : Scn) (k1 j1 k2 j2 : Nat) (next : String) : String :=
  let b := params s true
  let fs := preState s
  if !macrosConsistent b fs then "plan-mismatch" else
  match cutAt (verifies s true) (s.pre = "cur") b fs k1 j1 with
  | none => "bad-op"
  | some c1 =>
    if !macrosConsistent b c1 then "plan-mismatch" else
    let second : Option T :=
      if needsBuilding b c1 then
        (if k2 ≥ (macrosFor (verifies s true) false b c1).length then
           (if j2 > 0 then none else some (applyOps c1 ((macrosFor (verifies s true) false b c1).flatMap (·.ops))))
         else cutAt (verifies s true) false b c1 k2 j2)
      else if j2 > 0 then none
      else if mdFails b c1 then some (removeOutputs b c1) else some c1
    match second with
    | none => "bad-op"
    | some c2 =>
      let bn := params s (next = "same")
      showState s c2 ++ " | " ++ showNext (verifies s (next = "same")) bn c2

def parseNat? (s : String) : Option Nat := s.toNat?

/-! fs.WriteFile -/
open PlzVerif.WriteFile in
def stepWf (old new : Option (List UInt8)) (mode chunk n : Nat) (how : String) : String :=
  match new with
  | none => "bad-op"
  | some data =>
    if chunk = 0 then "bad-op" else
    let d0 : Dir := fun x => if x = "dest" then old.map (fun o => ⟨o, 0o644⟩) else none
    let point := (how.splitOn "-").headD ""
    let atPoint := point = "close" || point = "rename" || point = "renamed"
    -- the reader hands out `chunk` bytes at a time and dies when asked for more than `n` bytes in total;
    -- for a crash at a named point of WriteFile itself it delivers everything
    let delivered := if atPoint then data else data.take n
    let rec pieces (fuel : Nat) (l : List UInt8) : List (List UInt8) :=
      match fuel with
      | 0 => []
      | fuel + 1 => if l.isEmpty then [] else l.take chunk :: pieces fuel (l.drop chunk)
    let chunks := pieces (delivered.length + 1) delivered
    -- Chmod is applied to the path the extractor found it applied to
    let ct := if Generated.C32.writeFileChmodArgs.head? == some "dest" then "dest" else "tmp"
    let all := opsWith Generated.C32.writeFileCalls ct "tmp" "dest" chunks mode
    let isClose : Op → Bool := fun o => match o with | .close => true | _ => false
    let isRename : Op → Bool := fun o => match o with | .rename _ _ => true | _ => false
    let ops :=
      if point = "close" then all.takeWhile (fun o => !isClose o)
      else if point = "rename" then all.takeWhile (fun o => !isRename o)
      else if point = "renamed" then all.takeWhile (fun o => !isRename o) ++ all.filter isRename
      else if n > data.length then all
      else [Op.mkdirAll, Op.createTemp "tmp"] ++ chunks.map (Op.write "tmp")
    let d := run d0 ops
    let sh := fun (f : Option File) => match f with
      | none => "none"
      | some f => (if f.data.isEmpty then "-" else hexOfBytes f.data) ++ ":" ++ toString f.mode
    s!"dest={sh (d "dest")} temp={sh (d "tmp")}"

def optHex (s : String) : Option (Option (List UInt8)) :=
  if s = "none" then some none else (bytesOfHex s).map some

def step (line : String) : String :=
  match line.splitOn " " with
  | ["trace", mode, cache, pb, kinds, pre] =>
    match parseScn mode cache pb kinds pre with
    | some s =>
      let b := params s true
      let fs := preState s
      if !macrosConsistent b fs then "plan-mismatch" else ",".intercalate ((macrosFor (verifies s true) (s.pre = "cur") b fs).map (·.name))
    | none => "bad-op"
  | ["crash", mode, cache, pb, kinds, pre, k, j, next] =>
    match parseScn mode cache pb kinds pre, parseNat? k, parseNat? j with
    | some s, some k, some j => if next = "same" || next = "revert" then stepCrash s k j next else "bad-op"
    | _, _, _ => "bad-op"
  | ["crash2", mode, cache, pb, kinds, pre, k1, j1, k2, j2, next] =>
    match parseScn mode cache pb kinds pre, parseNat? k1, parseNat? j1, parseNat? k2, parseNat? j2 with
    | some s, some k1, some j1, some k2, some j2 =>
      if next = "same" || next = "revert" then stepCrash2 s k1 j1 k2 j2 next else "bad-op"
    | _, _, _, _, _ => "bad-op"
  | ["fbtrunc", kinds, len] =>
    match parseScn "f" "n" "-" kinds "cur", parseNat? len with
    | some s, some len =>
      if len ≥ 100 then "bad-op" else
      let fs := complete s true
      let fs' : T := { fs with out := fun i => if i = 0 then { fs.out 0 with fb := some (.trunc len) } else fs.out i }
      showNext true (params s true) fs'
    | _, _ => "bad-op"
  | ["wf", old, new, mode, chunk, n, how] =>
    match optHex old, optHex new, parseNat? mode, parseNat? chunk, parseNat? n with
    | some o, some nw, some m, some c, some n =>
      if ["p", "k", "close-p", "close-k", "rename-p", "rename-k", "renamed-p", "renamed-k"].contains how then stepWf o nw m c n how
      else "bad-op"
    | _, _, _, _, _ => "bad-op"
  | ["gob", h] =>
    match bytesOfHex h with
    | some _ => "prefix-decodes=0"          -- hypothesis `hdec` of C32_recover_readsMd, checked against encoding/gob
    | none => "bad-op"
  | "tkill" :: _ => "recovered=clean"        -- C32_recover / C32_main_partial with C32_interleaving
  | _ => "bad-op"

def main : IO Unit := runStateless step
