import PlzVerif.Base.Proto
import PlzVerif.Model.PathHash
import PlzVerif.Model.Sha1
import PlzVerif.Lemmas.PathHash
import PlzVerif.Generated.C09
/-!
Line protocol for C09 (see harness/cmd/c09):
  pre  <root> <path> <ext> <tree>      -> hex of the pre-image `pathSer schema root path ext tree`
  sha1 <root> <path> <ext> <tree>      -> hex of its SHA-1
  pair <root> <path> <tree> <tree>     -> same | ne | eq <root-cause class>
Byte strings are hex ("-" = empty); a leading "$W" / "$X" stands for the harness's working / external
directory (the model uses "/W" and "/X").  tree := f<hex> | l<hex> | d[<hexname>=<tree>,...]
-/
open PlzVerif PlzVerif.PathHash PlzVerif.Proto

def S : Schema := Generated.C09.schema

def hexv (c : Char) : Option Nat := hexVal c

/-- hex run (or "-") at the head of the input -/
def takeHex : List Char → Option (Bytes × List Char)
  | '-' :: r => some ([], r)
  | cs =>
    let rec go : Nat → List Char → Bytes → Option (Bytes × List Char)
      | 0, r, acc => some (acc.reverse, r)
      | n + 1, a :: b :: r, acc =>
        match hexv a, hexv b with
        | some x, some y => go n r (UInt8.ofNat (x * 16 + y) :: acc)
        | _, _ => if acc.isEmpty then none else some (acc.reverse, a :: b :: r)
      | _ + 1, r, acc => if acc.isEmpty then none else some (acc.reverse, r)
    go cs.length cs []

mutual
def parseTree : Nat → List Char → Option (Tree × List Char)
  | 0, _ => none
  | _ + 1, 'f' :: r => (takeHex r).map fun (b, r) => (.file b, r)
  | _ + 1, 'l' :: r => (takeHex r).map fun (b, r) => (.symlink b, r)
  | _ + 1, 'd' :: '[' :: ']' :: r => some (.dir [], r)
  | n + 1, 'd' :: '[' :: r => (parseEntries n r).map fun (es, r) => (.dir es, r)
  | _ + 1, _ => none
def parseEntries : Nat → List Char → Option (List (Bytes × Tree) × List Char)
  | 0, _ => none
  | n + 1, cs =>
    match takeHex cs with
    | some (name, '=' :: r) =>
      match parseTree n r with
      | some (t, ',' :: r) => (parseEntries n r).map fun (es, r) => ((name, t) :: es, r)
      | some (t, ']' :: r) => some ([(name, t)], r)
      | _ => none
    | _ => none
end

def parseTreeStr (s : String) : Option Tree :=
  match parseTree (s.length + 1) s.toList with
  | some (t, []) => if t.sorted then some t else none
  | _ => none

/-- "$W…" / "$X…" → "/W…" / "/X…" -/
def expand : Bytes → Bytes
  | 36 :: 87 :: r => 47 :: 87 :: r
  | 36 :: 88 :: r => 47 :: 88 :: r
  | b => b

mutual
def expandTree : Tree → Tree
  | .file c => .file c
  | .symlink d => .symlink (expand d)
  | .dir es => .dir (expandList es)
def expandList : List (Bytes × Tree) → List (Bytes × Tree)
  | [] => []
  | (n, t) :: r => (n, expandTree t) :: expandList r
end

def hexOut (b : Bytes) : String := if b.isEmpty then "-" else hexOfBytes b

def pairOut (r p : Bytes) (t1 t2 : Tree) : String :=
  let t1 := expandTree t1
  let t2 := expandTree t2
  let r' := expand r
  let p' := expand p
  if !(managed r' (ensureRelative r' p') t1 && managed r' (ensureRelative r' p') t2) then "bad-op"
  else if t1 = t2 then "same"
  else if pathSer S r' p' [] t1 = pathSer S r' p' [] t2 then
    "eq " ++ (match classify S.marker r' t1 t2 with | .none => "unexplained-collision" | c => c.name)
  else "ne"

def step (line : String) : String :=
  match line.splitOn " " with
  | ["pair", root, path, t1, t2] =>
    match bytesOfHex root, bytesOfHex path, parseTreeStr t1, parseTreeStr t2 with
    | some r, some p, some t1, some t2 => pairOut r p t1 t2
    | _, _, _, _ => "bad-op"
  | [op, root, path, ext, tree] =>
    match bytesOfHex root, bytesOfHex path, bytesOfHex ext, parseTreeStr tree with
    | some r, some p, some e, some t =>
      let pre := pathSer S (expand r) (expand p) e (expandTree t)
      if op = "pre" then hexOut pre
      else if op = "sha1" then hexOfBytes (Sha1.sha1 pre)
      else "bad-op"
    | _, _, _, _ => "bad-op"
  | _ => "bad-op"

def main : IO Unit := runStateless step
