import PlzVerif.Base.Proto
import PlzVerif.Model.RemoteCache
import PlzVerif.Generated.C13
/-!
Line-protocol driver for C13 (grammar in harness/cmd/c13/main.go).
  h <outs> <fault>              HTTP: Store, then a later Retrieve.  fault: - | s (store transport cut) | r<pct> (retrieve body cut to pct%)
  c <kind> <rfail 0|1> <outs> <stored>  command cache: kind n | a (naive / commit-on-success store command), nf<bytes> | af<bytes>
                                (the same, but the command stops after <bytes> and exits 1); what the store command left
                                (measured: - | <entries>.<cut 0|1>.<end marker 0|1>), then a later Retrieve whose command exits non-zero when rfail = 1
  outs  = output;output;…   output = item,item,…   item = <o|d|l|v|u>:<hexname>:<size>
-/
open PlzVerif PlzVerif.RemoteCache PlzVerif.Proto

namespace C13Driver

def natsOfHex (h : String) : Option Bytes := (bytesOfHex h).map (·.map UInt8.toNat)
def hexOfNats (b : Bytes) : String := if b.isEmpty then "-" else hexOfBytes (b.map UInt8.ofNat)

def parseItem (s : String) : Option Src :=
  match s.splitOn ":" with
  | [k, n, sz] => do
    let name ← natsOfHex n
    let size ← sz.toNat?
    -- only whether the content is empty matters to the model
    let data : Bytes := if size = 0 then [] else [size]
    match k with
    | "o" => some (.ok ⟨name, 0, data⟩)
    | "d" => if size = 0 then some (.ok ⟨name, 1, []⟩) else none
    | "l" => some (.ok ⟨name, 2, data⟩)
    | "v" => some (.vanished ⟨name, 0, data⟩)
    | "u" => some (.unreadable ⟨name, 0, data⟩)
    | _ => none
  | _ => none

def parseOuts (s : String) : Option (List (List Src)) :=
  if s = "-" then some [] else
  (s.splitOn ";").mapM fun o =>
    if o = "" then none else
    ((o.splitOn ",").mapM parseItem).bind fun its =>
      -- only an output itself can have vanished: inside a directory a missing name is never walked
      if (its.drop 1).any (fun s => match s with | .vanished _ => true | _ => false) then none else some its

def insertS (x : String) : List String → List String
  | [] => [x]
  | y :: ys => if x < y then x :: y :: ys else y :: insertS x ys

def showRes : Res → String
  | .miss => "miss"
  | .hit es =>
    let ns := (es.map fun e => hexOfNats e.name).foldr insertS []
    "hit/" ++ (if ns.isEmpty then "-" else ",".intercalate ns)

def httpContinues : Bool := !(Generated.C13.httpOnWalkError.contains "return" || Generated.C13.httpOnWalkError.contains "break")
def httpPropagates : Bool := Generated.C13.httpOnWalkError.contains "close-with-error"
def cmdFinishesOnError : Bool := Generated.C13.cmdDeferred.contains "tar.Close"

def step (line : String) : String :=
  match line.splitOn " " with
  | ["h", outs, fault] =>
    match parseOuts outs with
    | some outs =>
      let isR : Bool := fault.startsWith "r" && (match (fault.drop 1).toNat? with | some p => decide (1 ≤ p) && decide (p ≤ 75) | none => false)
      if fault ≠ "-" ∧ fault ≠ "s" ∧ isR = false then "bad-op" else
      let stored := httpStored httpContinues httpPropagates (fault ≠ "s") outs
      "committed=" ++ toString stored.isSome ++ " later=" ++ showRes (httpRetrieve stored (!isR))
    | none => "bad-op"
  | ["c", k, rfail, outs, stored] =>
    match parseOuts outs with
    | some outs =>
      let failing : Bool := (k.startsWith "nf" || k.startsWith "af") && ((k.drop 2).toNat?).isSome
      if (k ≠ "n" ∧ k ≠ "a" ∧ failing = false) ∨ (rfail ≠ "0" ∧ rfail ≠ "1") then "bad-op" else
      let kind := if k.startsWith "n" then CmdKind.naive else CmdKind.atomic
      -- the measured state of the store: nothing, or how many entries are there, whether the last is cut, and whether
      -- tar's end marker follows them
      let r := cmdWrite ⟨[], false⟩ outs
      let bit (x : String) : Option Bool := if x = "0" then some false else if x = "1" then some true else none
      let meas? : Option (Option (Nat × Bool × Bool)) :=
        if stored = "-" then some none else
        match stored.splitOn "." with
        | [a, c, m] =>
          match a.toNat?, bit c, bit m with
          | some a, some c, some m => some (some (a, c, m))
          | _, _, _ => none
        | _ => none
      match meas? with
      | none => "bad-op"
      | some meas =>
        let st : Option Stored :=
          match meas with
          | none => none
          | some (a, c, m) =>
            -- a commit-on-success command that lost nothing to the kill holds the finished archive; otherwise what was measured
            if kind == CmdKind.atomic then cmdStored cmdFinishesOnError kind outs failing a c m false
            else cmdStored cmdFinishesOnError kind outs failing a c m true
        let finished := (r.1.toks.length, false, !r.1.broken && (cmdFinishesOnError || !r.2))
        -- is the measurement one of the states the model allows?
        let allowed : Bool :=
          match meas with
          | none => r.2 || failing                -- nothing stored: only after a fault or a failed command
          | some (a, c, m) =>
            if failing then kind == CmdKind.naive && a ≤ r.1.toks.length && (!m || (a, c, m) == finished)
            else if !r.2 then (a, c, m) == finished                       -- no fault: the whole archive
            else if kind == CmdKind.atomic then
              -- the kill lost: everything written so far (a stuck writer leaves its last entry cut)
              (a, c, m) == (r.1.toks.length, r.1.broken, !r.1.broken && cmdFinishesOnError)
            else a ≤ r.1.toks.length && (!m || ((a, c) == (r.1.toks.length, false) && !r.1.broken && cmdFinishesOnError))
        let stFinal : Option Stored :=
          -- for a stuck writer the last entry is short in the stream itself: the model already has it as `full = false`
          match meas, st with
          | some (a, _, _), _ =>
            if r.1.broken && a == r.1.toks.length then some ⟨r.1.toks, false⟩ else st
          | none, _ => st
        (if allowed then "" else "unexpected-store-state ") ++ "later=" ++ showRes (cmdRetrieve stFinal (rfail = "0"))
    | none => "bad-op"
  | _ => "bad-op"

end C13Driver

def main : IO Unit := runStateless C13Driver.step
