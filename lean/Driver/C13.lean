import PlzVerif.Base.Proto
import PlzVerif.Model.RemoteCache
import PlzVerif.Generated.C13
/-!
Line-protocol driver for C13 (grammar in harness/cmd/c13/main.go).
  h <outs> <fault>              HTTP: Store, then a later Retrieve.  fault: - | s (store transport cut) | r (retrieve body cut)
  c <n|a> <rfail 0|1> <outs> <stored>   command cache: what the store command left (measured: - | <entries>.<cut 0|1>),
                                then a later Retrieve whose command exits non-zero when rfail = 1
  outs  = output;output;…   output = item,item,…   item = <o|d|l|v|u>:<hexname>:<size>
-/
open PlzVerif PlzVerif.RemoteCache PlzVerif.Proto

namespace C13Driver

def natsOfHex (h : String) : Option Bytes := (bytesOfHex h).map (·.map UInt8.toNat)
def hexOfNats (b : Bytes) : String := if b.isEmpty then "-" else hexOfBytes (b.map UInt8.ofNat)

def parseItem (s : String) : Option Src :=
  match s.splitOn ":" with
  | [k, n, sz] => do
    let name ← natsOfHex n
    let size ← sz.toNat?
    -- only whether the content is empty matters to the model
    let data : Bytes := if size = 0 then [] else [size]
    match k with
    | "o" => some (.ok ⟨name, 0, data⟩)
    | "d" => if size = 0 then some (.ok ⟨name, 1, []⟩) else none
    | "l" => some (.ok ⟨name, 2, data⟩)
    | "v" => some (.vanished ⟨name, 0, data⟩)
    | "u" => some (.unreadable ⟨name, 0, data⟩)
    | _ => none
  | _ => none

def parseOuts (s : String) : Option (List (List Src)) :=
  if s = "-" then some [] else
  (s.splitOn ";").mapM fun o =>
    if o = "" then none else
    ((o.splitOn ",").mapM parseItem).bind fun its =>
      -- only an output itself can have vanished: inside a directory a missing name is never walked
      if (its.drop 1).any (fun s => match s with | .vanished _ => true | _ => false) then none else some its

def insertS (x : String) : List String → List String
  | [] => [x]
  | y :: ys => if x < y then x :: y :: ys else y :: insertS x ys

def showRes : Res → String
  | .miss => "miss"
  | .hit es =>
    let ns := (es.map fun e => hexOfNats e.name).foldr insertS []
    "hit/" ++ (if ns.isEmpty then "-" else ",".intercalate ns)

def httpContinues : Bool := !(Generated.C13.httpOnWalkError.contains "return" || Generated.C13.httpOnWalkError.contains "break")
def httpPropagates : Bool := Generated.C13.httpOnWalkError.contains "close-with-error"

def step (line : String) : String :=
  match line.splitOn " " with
  | ["h", outs, fault] =>
    match parseOuts outs with
    | some outs =>
      if fault ≠ "-" ∧ fault ≠ "s" ∧ fault ≠ "r" then "bad-op" else
      let stored := httpStored httpContinues httpPropagates (fault ≠ "s") outs
      "committed=" ++ toString stored.isSome ++ " later=" ++ showRes (httpRetrieve stored (fault ≠ "r"))
    | none => "bad-op"
  | ["c", k, rfail, outs, stored] =>
    match parseOuts outs with
    | some outs =>
      if (k ≠ "n" ∧ k ≠ "a") ∨ (rfail ≠ "0" ∧ rfail ≠ "1") then "bad-op" else
      let kind := if k = "n" then CmdKind.naive else CmdKind.atomic
      -- the measured state of the store: nothing, or how many entries are there and whether the last is cut
      let r := cmdWrite ⟨[], false⟩ outs
      let meas? : Option (Option (Nat × Bool)) :=
        if stored = "-" then some none else
        match stored.splitOn "." with
        | [a, c] =>
          match a.toNat?, c with
          | some a, "0" => some (some (a, false))
          | some a, "1" => some (some (a, true))
          | _, _ => none
        | _ => none
      match meas? with
      | none => "bad-op"
      | some meas =>
        let st : Option (List Tok) :=
          match meas with
          | none => if r.2 then none else (if r.1.toks.isEmpty then some [] else none)
          | some (a, c) => cmdStored kind outs a c false
        -- is the measurement one of the states the model allows?
        let full := (r.1.toks.length, r.1.broken)
        let allowed : Bool :=
          match meas with
          | none => r.2                                  -- nothing stored: only after a fault
          | some (a, c) =>
            if !r.2 then (a, c) == (r.1.toks.length, false)            -- no fault: the whole archive
            else if kind == CmdKind.atomic then (a, c) == full        -- the kill lost: everything written so far
            else a ≤ r.1.toks.length                                  -- naive: any prefix
        (if allowed then "" else "unexpected-store-state ") ++ "later=" ++ showRes (cmdRetrieve st (rfail = "0"))
    | none => "bad-op"
  | _ => "bad-op"

end C13Driver

def main : IO Unit := runStateless C13Driver.step
