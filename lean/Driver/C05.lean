import PlzVerif.Base.Proto
import PlzVerif.Model.Sched
import PlzVerif.Lemmas.SchedFacts
import PlzVerif.Generated.C04
/-!
Driver for C05: replays an observed action log through the scheduler model as an acceptor (as for C04) and
computes, from the case alone, whether the invocation must fail: a requested target or one of its transitive
dependencies has a failing command, an undefined dependency, lives in a package whose BUILD file does not parse
(syntax error, self-dependency) or that does not exist, or lies on a dependency cycle.

  trace deps=0:;1:0 pk=.. roots=.. n=.. kg=.. fail=.. bad=.. miss=.. ev=S0,E0,S1,E1 rc=0

Every state change goes through `fireG` at the wait-loop fact extracted from /repo on this run, which is `fire` for
the pinned code (`C04_driver_runs_the_model`), so an accepted trace is an execution of the model.  For `S t` the
driver fires, one at a time, the enabled actions that lead to `build.Build(t)` starting: activation of `t`,
the steps of `t`'s building queuer (each `waitDeps` step is enabled only if that dependency has finished and
takes the DependencyFailed branch if it failed), the dispatch of the task and `workerStart`; the event is
rejected if that chain gets stuck.  `E t` / `F t` fire `workerOk` / `workerFail` and `workerDone`.
-/
open PlzVerif PlzVerif.Sched PlzVerif.Proto

structure Case where
  deps : List (List Nat)
  roots : List Nat
  events : List (Char × Nat)
  rc : Nat
  pk : List Nat := []
  failing : List Nat := []      -- targets with fail=exit or fail=undef
  badPkgs : List Nat := []      -- bad ++ miss
  warm : Bool := false          -- second invocation on a built repository: unchanged targets complete without events
  subs : List (Nat × Nat) := [] -- (package, target): the package's BUILD file subincludes the target

def parseInts (s : String) : Option (List Nat) := if s = "-" || s = "" then some [] else (s.splitOn ",").mapM String.toNat?

def parseDeps (s : String) : Option (List (List Nat)) :=
  (s.splitOn ";").mapM fun e =>
    match e.splitOn ":" with
    | [_, ds] => parseInts ds
    | _ => none

def parseEvents (s : String) : Option (List (Char × Nat)) :=
  if s = "-" then some [] else
  (s.splitOn ",").mapM fun e =>
    match e.toList with
    | k :: rest => if "SEFM".toList.contains k then (String.ofList rest).toNat?.map fun n => (k, n) else none
    | [] => none

def parseFailing (s : String) : Option (List Nat) :=
  if s = "-" then some [] else
  (s.splitOn ",").mapM fun e =>
    match e.splitOn ":" with
    | [i, k] => if k = "exit" || k = "undef" then i.toNat? else none
    | _ => none

def field (kv : List (String × String)) (k : String) : Option String := (kv.find? (·.1 == k)).map (·.2)

/-- `3:4.5,8:9.10` -> [(3,[4,5]),(8,[9,10])] -/
def parseProv (s : String) : Option (List (Nat × List Nat)) :=
  if s = "-" || s = "" then some [] else
  (s.splitOn ",").mapM fun e =>
    match e.splitOn ":" with
    | [i, ps] => do pure (← i.toNat?, ← (ps.splitOn ".").mapM String.toNat?)
    | _ => none

/-- what a target really depends on: declared dependencies with require/provide resolved (a dependent that
    requires "lang" gets the provider's targets instead of the provider), plus what post-build functions of other
    targets attach to it (`late`: adder:target.newdep) -/
def effDeps (deps : List (List Nat)) (prov : List (Nat × List Nat)) (req : List Nat) (late : List (Nat × List Nat))
    (t : Nat) : List Nat :=
  let base := (deps[t]?).getD []
  let resolved := base.flatMap fun d =>
    match prov.find? (·.1 == d) with
    | some (_, ps) => if req.contains t then ps else [d]
    | none => [d]
  let added := late.filterMap fun (_, tx) => match tx with | [t', x] => if t' == t then some x else none | _ => none
  (resolved ++ added).eraseDups

/-- `1:0,2:0` -> [(1,0),(2,0)] -/
def parseSubs (s : String) : Option (List (Nat × Nat)) :=
  if s = "-" || s = "" then some [] else
  (s.splitOn ",").mapM fun e =>
    match e.splitOn ":" with
    | [p, t] => do pure (← p.toNat?, ← t.toNat?)
    | _ => none

def parseCase (line : String) : Option Case := do
  let fs := (line.splitOn " ").drop 1
  let kv ← fs.mapM fun f => match f.splitOn "=" with | [k, v] => some (k, v) | _ => none
  let deps0 ← parseDeps (← field kv "deps")
  let prov ← parseProv ((field kv "prov").getD "-")
  let req ← parseInts ((field kv "req").getD "-")
  let late ← parseProv ((field kv "late").getD "-")
  if prov.any (fun p => p.1 ≥ deps0.length || p.2.any (· ≥ deps0.length)) || req.any (· ≥ deps0.length)
      || late.any (fun p => p.1 ≥ deps0.length || p.2.length != 2 || p.2.any (· ≥ deps0.length)) then none
  let deps := (List.range deps0.length).map (effDeps deps0 prov req late)
  let roots ← parseInts (← field kv "roots")
  let ev ← parseEvents (← field kv "ev")
  let rc ← (← field kv "rc").toNat?
  let n := deps.length
  let pk ← parseInts (← field kv "pk")
  let bad ← parseInts (← field kv "bad")
  let miss ← parseInts (← field kv "miss")
  let failing ← parseFailing (← field kv "fail")
  if roots.isEmpty || roots.any (· ≥ n) || deps.any (·.any (· ≥ n)) || ev.any (·.2 ≥ n) || pk.length != n
      || failing.any (· ≥ n) then none
  let warm := (field kv "warm").getD "0" == "1"
  let subs ← parseSubs ((field kv "sub").getD "-")
  if subs.any (fun x => x.2 ≥ n || pk[x.2]? == some x.1) then none
  pure ⟨deps, roots, ev, rc, pk, failing, bad ++ miss, warm, subs⟩

/-- the wait loop as extracted from /repo on this run (none for the pinned code) -/
def waitSkipRank : Option Nat := Facts.skipOf PlzVerif.Generated.C04.waitSkip

/-- the model's configuration: the graph of the case, and how a failed target is treated by the active set and by
    the waiters of a target as extracted from /repo on this run (all `true` for the pinned code, `C05_facts_ok`) -/
def cfgOf (c : Case) : Cfg :=
  { n := c.deps.length, deps := fun t => (c.deps[t]?).getD [], needBuild := true,
    failClears := Facts.failClearsOf PlzVerif.Generated.C04.activeSet,
    failWakes := Facts.failWakesOf PlzVerif.Generated.C04.wakeFacts,
    lateOK := Facts.lateOKOf PlzVerif.Generated.C04.wakeFacts }

def findIdx (n : Nat) (p : Nat → Bool) : Option Nat := (List.range n).find? p

/-- the next action on the way to `build.Build(t)` starting, or `none` if stuck / `some none` if already building -/
def nextToStart (s : St) (t : Nat) : Option (Option Action) :=
  match findIdx s.nextW (fun w => s.ws w == some ⟨t, .building⟩) with
  | some _ => some none
  | none =>
    match findIdx s.nextW (fun w => s.ws w == some ⟨t, .taken⟩) with
    | some w => some (some (.workerStart w))
    | none =>
      match findIdx s.nextM (fun m => s.chan m == some t) with
      | some m => some (some (.take m))
      | none =>
        match findIdx s.nextQ (fun i => match s.qs i with | some q => q.t == t && q.building && q.ph != .done | none => false) with
        | some i => some (some (.queuer i))
        | none => if s.st t == .inactive || s.st t == .semiactive then some (some (.activate t false)) else none

def driveStart (c : Cfg) (t : Nat) : Nat → St → Option St
  | 0, _ => none
  | f + 1, s =>
    match nextToStart s t with
    | none => none
    | some none => some s
    | some (some a) =>
      match fireG c waitSkipRank s a with
      | some s' => driveStart c t f s'
      | none => none

def finishWorker (c : Cfg) (s : St) (t : Nat) (ok : Bool) : Option St := do
  let w ← findIdx s.nextW (fun w => s.ws w == some ⟨t, .building⟩)
  let s1 ← fireG c waitSkipRank s (if ok then .workerOk w .built false else .workerFail w)
  fireG c waitSkipRank s1 (.workerDone w)

def depsOf (cs : Case) (t : Nat) : List Nat := (cs.deps[t]?).getD []

/-- everything reachable from `front` in at most `fuel` rounds -/
def closure (cs : Case) : Nat → List Nat → List Nat
  | 0, acc => acc
  | f + 1, acc =>
    let next := (acc.flatMap (depsOf cs)).filter (fun d => !acc.contains d)
    if next.isEmpty then acc else closure cs f (acc ++ next.eraseDups)

/-- the targets the package of `t` subincludes -/
def subsOf (cs : Case) (t : Nat) : List Nat :=
  match cs.pk[t]? with
  | some p => cs.subs.filterMap fun x => if x.1 == p then some x.2 else none
  | none => []

/-- what the invocation has to build: the requested targets, their dependencies and what their packages subinclude -/
def neededOf (cs : Case) : Nat → List Nat → List Nat
  | 0, acc => acc
  | f + 1, acc =>
    let next := (acc.flatMap fun t => depsOf cs t ++ subsOf cs t).filter (fun d => !acc.contains d)
    if next.isEmpty then acc else neededOf cs f (acc ++ next.eraseDups)

/-- the invocation must fail -/
def mustFail (cs : Case) : Bool :=
  let n := cs.deps.length
  let needed := neededOf cs n cs.roots.eraseDups
  let onCycle := fun t => (closure cs n (depsOf cs t).eraseDups).contains t
  let selfPkgs := (List.range n).filterMap fun t => if (depsOf cs t).contains t then cs.pk[t]? else none
  let own := fun t =>
    cs.failing.contains t || onCycle t ||
    match cs.pk[t]? with
    | some p => cs.badPkgs.contains p || selfPkgs.contains p
    | none => false
  -- a package that subincludes a target that cannot be built does not parse
  let subBroken := fun t => (subsOf cs t).any fun u => (closure cs n [u]).any own
  needed.any fun t => own t || subBroken t

/-- warm cases: bring an up-to-date dependency (no event in the log, not failing) to Built without events, its own
    dependencies first; `none` if the model does not allow it (e.g. one of its dependencies failed) -/
def silentBuild (c : Cfg) (eligible : Nat → Bool) (deps : Nat → List Nat) (fuel : Nat) : Nat → St → Nat → Option St
  | 0, _, _ => none
  | k + 1, s, d =>
    if s.fin d then some s else
    if !eligible d then none else do
      let s1 ← (deps d).foldlM (fun acc x => silentBuild c eligible deps fuel k acc x) s
      let s2 ← driveStart c d fuel s1
      let w ← findIdx s2.nextW (fun w => s2.ws w == some ⟨d, .building⟩)
      let s3 ← fireG c waitSkipRank s2 (.workerOk w .unchanged true)
      fireG c waitSkipRank s3 (.workerDone w)

def showList (l : List Nat) : String := if l.isEmpty then "-" else ",".intercalate (l.map toString)

def replay (cs : Case) : String :=
  let c := cfgOf cs
  let n := cs.deps.length
  let fuel := 4 * n + 20
  let rec go : List (Char × Nat) → Nat → St → Except String St
    | [], _, s => .ok s
    | (k, t) :: r, pos, s =>
      if k == 'S' then
        if s.starts t != 0 then .error s!"rejected at {pos}: second start of {t}" else
        -- warm: dependencies that are up to date finish without events (as far as the model lets them)
        let started := cs.events.filterMap fun e => if e.1 == 'S' then some e.2 else none
        let eligible := fun d => cs.warm && !cs.failing.contains d && !started.contains d
        let s0 := if cs.warm then
            (c.deps t).foldl (fun acc d => (silentBuild c eligible c.deps fuel (n + 1) acc d).getD acc) s
          else s
        -- the parse of `t`'s package has waited for what it subincludes (`WaitForBuiltTarget`): the waiter must have
        -- been woken, by a success
        if (subsOf cs t).any (fun u => !(s0.woken u && (s0.st u).isBuilt)) then
          .error s!"rejected at {pos}: start of {t} before what its package subincludes was built" else
        match driveStart c t fuel s0 with
        | some s' => go r (pos + 1) s'
        | none => .error s!"rejected at {pos}: start of {t} is not enabled"
      else if k == 'E' || k == 'F' then
        match finishWorker c s t (k == 'E') with
        | some s' => go r (pos + 1) s'
        | none => .error s!"rejected at {pos}: {t} is not building"
      else .error s!"rejected at {pos}: dependency output missing for {t}"
  -- the parse tasks of the packages involved ask for what they subinclude (during the initial scan)
  let needed := neededOf cs n cs.roots.eraseDups
  let subTargets := (needed.flatMap (subsOf cs)).eraseDups
  let s0 := subTargets.foldl (fun acc u => (fireG c waitSkipRank acc (.subWait u)).getD acc) St.init
  match go cs.events 0 s0 with
  | .error e => e
  | .ok s =>
    let ended := cs.events.filterMap fun e => if e.1 == 'E' then some e.2 else none
    let built := (List.range n).filter fun t => s.fin t && (s.st t).isBuilt && ended.contains t
    let failed := (List.range n).filter fun t => s.st t == .failed
    let rc := if mustFail cs then "nz" else "0"
    let real := if cs.rc == 0 then "0" else "nz"
    if rc != real then s!"exit-mismatch model={rc} real={real}" else
    s!"ok built={showList built} failed={showList failed} rc={rc}"

def step (line : String) : String :=
  if line.startsWith "trace " then
    match parseCase line with
    | some c => replay c
    | none => "bad-op"
  else "bad-op"

def main : IO Unit := runStateless step
