import PlzVerif.Base.Proto
import PlzVerif.Model.AspFacts
import PlzVerif.Model.AspInterp
import PlzVerif.Model.PyInterp
import PlzVerif.Model.AspGenerated
open PlzVerif PlzVerif.Asp PlzVerif.Proto


def F : Facts := genF

def hex2 (n : Nat) : String := String.ofList [hexDigit (n / 16), hexDigit (n % 16)]

def quote (s : String) : String :=
  "\"" ++ String.join (s.toList.map fun c =>
    if c == '"' then "\\\"" else if c == '\\' then "\\\\" else if c == '\n' then "\\n"
    else if c == '\t' then "\\t" else if c == '\r' then "\\r"
    else if c.toNat < 32 then "\\u00" ++ hex2 c.toNat else String.singleton c) ++ "\""

mutual
  def showR : Nat → RVal → String
    | 0, _ => "\"<deep>\""
    | f + 1, v =>
      match v with
      | .int n => toString n
      | .str s => quote s
      | .bool b => if b then "true" else "false"
      | .none => "null"
      | .list l => "[" ++ ",".intercalate (showRs f l) ++ "]"
      | .dict l => "{" ++ ",".intercalate (showKvs f l) ++ "}"
      | .fn n => quote ("<function " ++ n ++ ">")
      | .deep => "\"<deep>\""
  def showRs : Nat → List RVal → List String
    | 0, _ => []
    | _ + 1, [] => []
    | f + 1, x :: r => showR f x :: showRs f r
  def showKvs : Nat → List (String × RVal) → List String
    | 0, _ => []
    | _ + 1, [] => []
    | f + 1, (k, x) :: r => (quote k ++ ":" ++ showR f x) :: showKvs f r
end

def showGlobals (g : Globals) : String := "{" ++ ",".intercalate (showKvs 100000 g) ++ "}"

def fuel : Nat := 20000

def step (line : String) : String :=
  match line.splitOn " " with
  | "asp" :: mode :: rest =>
    match parseProgram (" ".intercalate rest) with
    | none => "bad-op"
    | some p =>
      if mode != "b" && mode != "d" then "bad-op"
      else match runProgram F (mode == "d") fuel p with
        | .ok g => showGlobals g
        | .error e => if e.startsWith "model:" || e == "fuel" then "ERR " ++ e else "ERR"
  | "py" :: rest =>
    match parseProgram (" ".intercalate rest) with
    | none => "bad-op"
    | some p =>
      match Py.runProgram fuel p with
      | .ok g => showGlobals g
      | .error e => if e.startsWith "unsupported" || e.startsWith "ref:" || e == "fuel" then "ERR " ++ e else "ERR"
  | _ => "bad-op"

def main : IO Unit := runStateless step
