import PlzVerif.Base.Proto
import PlzVerif.Model.Glob
import PlzVerif.Model.Globber
import PlzVerif.Model.TreeProto
import PlzVerif.Generated.C21
/-!
Line protocol of C21:
  glob <root> <buildnames> <includes> <excludes> <hidden 0|1> <symlinks 0|1> <tree>
    root                  hex, clean relative path of the package directory, "-" = repository root
    buildnames, ...       ';'-separated hex strings, "_" for the empty list (excludes: the user's; the BUILD file
                          names are appended like src/parse/asp/builtins.go:717 does)
    tree                  as in C22
  answer: the returned names, de-duplicated and sorted, hex, ','-separated ("_" when none); "error" when Glob panics;
          "unmodelled" when a name or pattern leaves the fragment the model covers; "no-root" / "root-not-dir".
-/
open PlzVerif PlzVerif.Walk PlzVerif.Glob PlzVerif.Proto PlzVerif.TreeProto

def facts : Glob.Facts :=
  { reWrap := Generated.C21.reWrap, replacements := Generated.C21.replacements, doubleStar := Generated.C21.doubleStar,
    outDir := Generated.C21.outDir, hiddenPrefix := Generated.C21.hiddenPrefix, hiddenWrap := Generated.C21.hiddenWrap }

def cfacts : CacheFacts :=
  { keyHasHidden := Generated.C21.cacheKeyHasHidden, hiddenAtWalk := Generated.C21.hiddenAtWalk,
    hiddenPerMatch := Generated.C21.hiddenPerMatch }

def opts : MOpts := optsOfChain Generated.C21.replacements

def plainName (n : Name) : Bool := validEntry n && n.all plainChar

mutual
def treeNamesOK : Tree → Bool
  | .leaf _ => true
  | .dir cs => forestNamesOK cs
def forestNamesOK : Forest → Bool
  | .nil => true
  | .cons n t rest => plainName n && treeNamesOK t && forestNamesOK rest
end

def modelledPattern (p : Name) : Bool :=
  p.isEmpty ||
  (cleanPat p && (parseGlob (p.length + 1) p).isSome)

def insertSortedDedup (n : Name) : List Name → List Name
  | [] => [n]
  | m :: rest => if n = m then m :: rest else if nameLt n m then n :: m :: rest else m :: insertSortedDedup n rest

/-- Cross-check of the two layers of the model: on every pattern of the specification's fragment and every walked
    name, the string-level matcher (`ReplaceAll` chain + parsers) and the parsed-pattern matcher the theorems are about
    (`structMatch`) must agree -- also for the file-name-only reading of relative excludes. -/
def selfCheck (comps : List Name) (w : Walked) (pats : List Name) : Bool :=
  let rootName := nameOf comps
  let names := w.files ++ w.symlinks
  pats.all fun p =>
    match parseSegs p with
    | none => true
    | some segs =>
      -- `(`, `)`, `|` in a `**` pattern (or its package path) are regexp syntax to the code and literals to `structMatch`
      let safe (r : List Name) := !hasDstar segs || opts.escParens || (safePath (Mode.regex opts) r && (p.all reSafe))
      (!safe comps || match patternToMatcher facts rootName p with
       | none => true       -- compile error: nothing to compare
       | some mt => names.all fun m => mt.run m == structMatch opts comps segs m) &&
      (!safe [] || match patternToMatcher facts [] p with
       | none => true
       | some mt => names.all fun m => mt.run (base m) == structMatch opts [] segs (base m))

def step (line : String) : String :=
  match line.splitOn " " with
  | ["glob", root, bn, inc, exc, hid, sym, tree] =>
    if (hid != "0" && hid != "1") || (sym != "0" && sym != "1") then "bad-op" else
    match nameOfHex root, parseList bn, parseList inc, parseList exc with
    | some root, some bn, some inc, some exc =>
      let toks := if tree = "_" then [] else tree.splitOn ","
      match parseForest (toks.length + 1) toks with
      | some (f, [], false) =>
        if !nodupNames (Forest.names f) then "bad-op" else
        let comps := splitSlash root
        match lookup (.dir f) comps with
        | none => "no-root"
        | some (.leaf _) => "root-not-dir"
        | some t =>
          if !(forestNamesOK f && bn.all plainName && (inc ++ exc).all modelledPattern) then "unmodelled" else
          if !selfCheck comps (walkDir facts ⟨bn⟩ comps t) (inc ++ exc ++ bn) then "SELF-CHECK-FAILED" else
          match freshCall cfacts facts ⟨bn⟩ (.dir f) ⟨comps, inc, exc ++ bn, hid = "1", sym = "1"⟩ with
          | none => "error"
          | some l => showNames (l.foldr insertSortedDedup [])
      | _ => "bad-op"
    | _, _, _, _ => "bad-op"
  | "globseq" :: bn :: tree :: calls =>
    -- several Glob calls on ONE Globber (what the glob() calls of one BUILD file do); call = root/includes/excludes/h/s
    match parseList bn with
    | none => "bad-op"
    | some bn =>
      let toks := if tree = "_" then [] else tree.splitOn ","
      match parseForest (toks.length + 1) toks with
      | some (f, [], false) =>
        if !nodupNames (Forest.names f) || calls.isEmpty then "bad-op" else
        let parsed := calls.mapM fun c =>
          match c.splitOn "/" with
          | [root, inc, exc, hid, sym] =>
            if (hid != "0" && hid != "1") || (sym != "0" && sym != "1") then none else
            match nameOfHex root, parseList inc, parseList exc with
            | some root, some inc, some exc => some (splitSlash root, inc, exc, hid == "1", sym == "1")
            | _, _, _ => none
          | _ => none
        match parsed with
        | none => "bad-op"
        | some cs =>
          if !(forestNamesOK f && bn.all plainName && cs.all fun c => (c.2.1 ++ c.2.2.1).all modelledPattern) then "unmodelled" else
          let go := cs.foldl (fun (acc : Cache × List String) c =>
            let (root, inc, exc, hid, sym) := c
            match lookup (.dir f) root with
            | none => (acc.1, acc.2 ++ ["no-root"])
            | some (.leaf _) => (acc.1, acc.2 ++ ["root-not-dir"])
            | some _ =>
              let r := PlzVerif.Glob.step cfacts facts ⟨bn⟩ (.dir f) acc.1 ⟨root, inc, exc ++ bn, hid, sym⟩
              (r.1, acc.2 ++ [match r.2 with | none => "error" | some l => showNames (l.foldr insertSortedDedup [])])) ([], [])
          "|".intercalate go.2
      | _ => "bad-op"
  | _ => "bad-op"

def main : IO Unit := runStateless step
