import PlzVerif.Base.Proto
import PlzVerif.Model.Glob
import PlzVerif.Model.TreeProto
import PlzVerif.Generated.C21
/-!
Line protocol of C21:
  glob <root> <buildnames> <includes> <excludes> <hidden 0|1> <symlinks 0|1> <tree>
    root                  hex, clean relative path of the package directory, "-" = repository root
    buildnames, ...       ';'-separated hex strings, "_" for the empty list (excludes: the user's; the BUILD file
                          names are appended like src/parse/asp/builtins.go:717 does)
    tree                  as in C22
  answer: the returned names, de-duplicated and sorted, hex, ','-separated ("_" when none); "error" when Glob panics;
          "unmodelled" when a name or pattern leaves the fragment the model covers; "no-root" / "root-not-dir".
-/
open PlzVerif PlzVerif.Walk PlzVerif.Glob PlzVerif.Proto PlzVerif.TreeProto

def facts : Glob.Facts :=
  { reWrap := Generated.C21.reWrap, replacements := Generated.C21.replacements, doubleStar := Generated.C21.doubleStar,
    outDir := Generated.C21.outDir, hiddenPrefix := Generated.C21.hiddenPrefix, hiddenWrap := Generated.C21.hiddenWrap }

def plainName (n : Name) : Bool := validEntry n && n.all plainChar

mutual
def treeNamesOK : Tree → Bool
  | .leaf _ => true
  | .dir cs => forestNamesOK cs
def forestNamesOK : Forest → Bool
  | .nil => true
  | .cons n t rest => plainName n && treeNamesOK t && forestNamesOK rest
end

def modelledPattern (p : Name) : Bool :=
  p.isEmpty ||
  ((splitOnSlash p).all (fun s => !s.isEmpty && s != ['.'] && s != ['.', '.']) && (parseGlob (p.length + 1) p).isSome)

def insertSortedDedup (n : Name) : List Name → List Name
  | [] => [n]
  | m :: rest => if n = m then m :: rest else if nameLt n m then n :: m :: rest else m :: insertSortedDedup n rest

def step (line : String) : String :=
  match line.splitOn " " with
  | ["glob", root, bn, inc, exc, hid, sym, tree] =>
    if (hid != "0" && hid != "1") || (sym != "0" && sym != "1") then "bad-op" else
    match nameOfHex root, parseList bn, parseList inc, parseList exc with
    | some root, some bn, some inc, some exc =>
      let toks := if tree = "_" then [] else tree.splitOn ","
      match parseForest (toks.length + 1) toks with
      | some (f, [], false) =>
        if !nodupNames (Forest.names f) then "bad-op" else
        let comps := splitSlash root
        match lookup (.dir f) comps with
        | none => "no-root"
        | some (.leaf _) => "root-not-dir"
        | some t =>
          if !(forestNamesOK f && bn.all plainName && (inc ++ exc).all modelledPattern) then "unmodelled" else
          if (inc ++ exc).any (·.isEmpty) then "error" else     -- mustBeValidGlobString
          match globAll facts ⟨bn⟩ comps t inc (exc ++ bn) (hid = "1") (sym = "1") with
          | none => "error"
          | some l => showNames (l.foldr insertSortedDedup [])
      | _ => "bad-op"
    | _, _, _, _ => "bad-op"
  | _ => "bad-op"

def main : IO Unit := runStateless step
