import PlzVerif.Base.Proto
import PlzVerif.Model.VisibilityFacts
/-!
Line protocol of C33 (strings hex, "-" = empty string, "_" = empty list; LABEL = pkg:name:sub):

  cs DIRS SRC DEP        SRC.CanSee(state, DEP)                         -> 0 | 1
  cd DIRS T DEPS         T.CheckDependencyVisibility(state)             -> ok | vis I | testonly I

  VTARGET = LABEL~ab~VIS   a = test_only, b = is a test (0/1)   VIS = _ | LABEL+LABEL+…
  DIRS = _ | hex,hex,…     DEPS = _ | VTARGET;VTARGET;…
-/
open PlzVerif PlzVerif.Label PlzVerif.Visibility PlzVerif.Proto

def lf : Label.Facts := generatedFacts
def vf : VFacts := generatedVFacts
def df : DFacts := generatedDFacts

def unhex (s : String) : Option Str := (bytesOfHex s).map fun b => b.map fun x => Char.ofNat x.toNat

def parseList {α} (sep : String) (item : String → Option α) (s : String) : Option (List α) :=
  if s = "_" then some [] else (s.splitOn sep).mapM item

def parseLabel (s : String) : Option Label :=
  match s.splitOn ":" with
  | [p, n, u] => do pure ⟨← unhex p, ← unhex n, ← unhex u⟩
  | _ => none

def parseVT (s : String) : Option VTarget :=
  match s.splitOn "~" with
  | [l, fl, vis] => do
    let l ← parseLabel l
    let vis ← parseList "+" parseLabel vis
    match fl.toList with
    | [a, b] =>
      if (a = '0' ∨ a = '1') ∧ (b = '0' ∨ b = '1') then pure ⟨l, vis, a = '1', b = '1'⟩ else none
    | _ => none
  | _ => none

def hexS (s : Str) : String := if s.isEmpty then "-" else hexOfBytes (s.map fun c => UInt8.ofNat c.toNat)
def showLabel (l : Label) : String := hexS l.pkg ++ ":" ++ hexS l.name ++ ":" ++ hexS l.sub

/-- visibility argument code: `_` omitted, `N` None, `E` [], `P` ["PUBLIC"], `L<hex>` ["//pkg/..."], `A<hex>` ["//pkg:all"];
    result: `some none` = not set, `some (some l)` = explicit list -/
def visArg (code : String) : Option (Option (List Label)) :=
  if code = "_" || code = "N" then some none
  else if code = "E" then some (some [])
  else if code = "P" then some (some [⟨[], dots, []⟩])
  else match code.toList with
    | 'L' :: r => (unhex (String.ofList r)).bind fun p => if p.isEmpty then none else some (some [⟨p, dots, []⟩])
    | 'A' :: r => (unhex (String.ofList r)).bind fun p => if p.isEmpty then none else some (some [⟨p, allName, []⟩])
    | _ => none

def boolArg (code : String) : Option (Option Bool) :=
  if code = "_" || code = "N" then some none
  else if code = "T" then some (some true) else if code = "F" then some (some false) else none

def step (line : String) : String :=
  match line.splitOn " " with
  | ["cs", dirs, src, dep] =>
    match parseList "," unhex dirs, parseLabel src, parseVT dep with
    | some dirs, some src, some dep => if canSee lf vf dirs src dep then "1" else "0"
    | _, _, _ => "bad-op"
  | ["cd", dirs, t, deps] =>
    match parseList "," unhex dirs, parseVT t, parseList ";" parseVT deps with
    | some dirs, some t, some deps =>
      let labels := deps.map (·.label)
      if !labels.Nodup || labels.contains t.label then "bad-op" else
      match checkDeps lf vf dirs t deps with
      | none => "ok"
      | some (i, .notVisible) => "vis " ++ toString i
      | some (i, .testOnly) => "testonly " ++ toString i
    | _, _, _ => "bad-op"
  | ["bv", pdv, pdt, vis, to, src] =>
    if pdv = "N" || pdt = "N" then "bad-op" else
    match visArg pdv, boolArg pdt, visArg vis, boolArg to, unhex src with
    | some pdv, some pdt, some vis, some to, some src =>
      if src = "lib".toList || (tryParse lf ("//".toList ++ src ++ ":x".toList) [] []).isNone then "bad-op" else
      let ev := effVis df vis pdv
      let et := effTestOnly df to pdt
      let dep : VTarget := ⟨⟨"lib".toList, "t".toList, []⟩, ev, et, false⟩
      let s : Label := ⟨src, "x".toList, []⟩
      let see := canSee lf vf [] s dep
      let chk := match checkDeps lf vf [] ⟨s, [], false, false⟩ [dep] with
        | none => "ok"
        | some (_, .notVisible) => "vis"
        | some (_, .testOnly) => "testonly"
      "vis=" ++ (if ev.isEmpty then "_" else "+".intercalate (ev.map showLabel)) ++ " to=" ++ (if et then "1" else "0") ++
        " see=" ++ (if see then "1" else "0") ++ " chk=" ++ chk
    | _, _, _, _, _ => "bad-op"
  | _ => "bad-op"

def main : IO Unit := runStateless step
