import PlzVerif.Base.Proto
import PlzVerif.Model.Query
import PlzVerif.Model.QueryFacts
open PlzVerif PlzVerif.Query PlzVerif.Proto

def parseAdj (s : String) : Option (List (Nat × List Nat)) :=
  if s = "-" then some [] else
  (s.splitOn ";").mapM fun e =>
    match e.splitOn ":" with
    | [k, v] => do
      let k ← k.toNat?
      let v ← parseNats v
      pure (k, v)
    | _ => none

def parseBits (s : String) : Option (List Bool) :=
  if s = "-" then some [] else
  s.toList.mapM fun c => if c == '0' then some false else if c == '1' then some true else none

def parseLimit (s : String) : Option Limit :=
  if s = "u" then some none else s.toNat?.map some

def parseFlag (s : String) : Option Bool :=
  if s = "0" then some false else if s = "1" then some true else none

/-- nodes (AllTargets order; a permutation of 0..n-1), adjacency, parent-label ids and hidden bits by id -/
def parseGraph (nodes adj pl hid : String) : Option Graph := do
  let nodes ← parseNats nodes
  let al ← parseAdj adj
  let pl ← parseNats pl
  let hid ← parseBits hid
  let n := nodes.length
  let keys := al.map (·.1)
  if (List.range n).all (fun i => nodes.count i == 1 && keys.count i == 1) && keys.length == n &&
     pl.length == n && hid.length == n && al.all (fun e => e.2.all (· < n)) then
    some { nodes := nodes
           adj := fun t => match al.lookup t with | some ds => ds | none => []
           pl := fun t => match pl[t]? with | some p => p | none => t
           hid := fun t => match hid[t]? with | some b => b | none => false }
  else none

def showOut (o : List (Nat × Nat)) : String :=
  if o.isEmpty then "-" else ",".intercalate (o.map fun e => toString e.1 ++ "@" ++ toString e.2)

def insertSorted (x : Nat) : List Nat → List Nat
  | [] => [x]
  | y :: ys => if x < y then x :: y :: ys else if x == y then y :: ys else y :: insertSorted x ys

def step (line : String) : String :=
  match line.splitOn " " with
  | ["deps", h, lvl, roots, _names, nodes, adj, pl, hid] =>
    match parseFlag h, parseLimit lvl, parseNats roots, parseGraph nodes adj pl hid with
    | some h, some lim, some roots, some G =>
      if roots.all (G.nodes.contains ·) then
        let s := depsAll genCfg G lim h roots
        if s.oof then "oof" else showOut s.out
      else "bad-op"
    | _, _, _, _ => "bad-op"
  | ["revdeps", h, lvl, roots, _names, nodes, adj, pl, hid] =>
    match parseFlag h, parseLimit lvl, parseNats roots, parseGraph nodes adj pl hid with
    | some h, some lim, some roots, some G =>
      if roots.all (G.nodes.contains ·) then
        let s := findRevdeps genCfg G lim h roots
        if s.oof then "oof" else showNats (s.ret.foldr insertSorted [])
      else "bad-op"
    | _, _, _, _ => "bad-op"
  | ["somepath", sh, frm, to, _names, nodes, adj, pl, hid] =>
    match parseFlag sh, parseNats frm, parseNats to, parseGraph nodes adj pl hid with
    | some sh, some frm, some to, some G =>
      if frm.all (G.nodes.contains ·) && to.all (G.nodes.contains ·) && !frm.isEmpty && !to.isEmpty then
        match somePathAll G sh frm to with
        | .found p => "path " ++ showNats p
        | .nopath => "nopath"
        | .oof => "oof"
      else "bad-op"
    | _, _, _, _ => "bad-op"
  | _ => "bad-op"

def main : IO Unit := runStateless step
