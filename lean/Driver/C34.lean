import PlzVerif.Base.Proto
import PlzVerif.Model.Copy
import PlzVerif.Model.TreeProto
import PlzVerif.Generated.C34
/-!
Line protocol of C34:
  copy <mode> <link 0|1> <fallback 0|1> <from> <to> <inodes> <tree>
    mode                  permission bits, decimal
    from, to              hex entry names in the scratch directory
    inodes                ';'-separated `<perm>:<hex content>` in inode-number order, "_" for none
    tree                  ','-separated pre-order tokens of the scratch directory:
                          d<hex> ... ^   f<hex>:<inode>   l<hex>:<hex target>      ("_" when empty)
  answer: "error", or the destination afterwards in the same token format with files as
          f<hex>:<canonical inode>:<perm>:<hex content>  (source inodes keep their numbers, new ones are numbered in
          order of first appearance), followed by " src-same".
-/
open PlzVerif PlzVerif.Copy PlzVerif.Proto PlzVerif.TreeProto
open PlzVerif.Walk (Name)

def facts : Facts :=
  { defaultMode := Generated.C34.defaultMode
    tempThenRename := Generated.C34.tempThenRename
    topLevelSymlinkAware := Generated.C34.topLevelSymlinkAware
    linkRecreatesSymlink := Generated.C34.linkRecreatesSymlink
    fallbackUsesSourceMode := Generated.C34.fallbackUsesSourceMode }

/-- Decimal without sign or leading zeros. -/
def canonNat (s : String) : Option Nat := (s.toNat?).bind fun n => if toString n = s then some n else none

def parseInodes (s : String) : Option (List Inode) :=
  if s = "_" then some [] else
  (s.splitOn ";").mapM fun e =>
    match e.splitOn ":" with
    | [p, c] => do
      let perm ← canonNat p
      let bytes ← bytesOfHex c
      if c != "-" && bytes.isEmpty then none
      pure { content := bytes.map (·.toNat), perm := perm }
    | _ => none

def Ents.namesL : Ents → List Name
  | .nil => []
  | .cons n _ rest => n :: Ents.namesL rest

/-- Parse tokens into entries; returns entries, remaining tokens, and whether a closing "^" ended the list. -/
def parseEnts (k : Nat) : Nat → List String → Option (Ents × List String × Bool)
  | 0, _ => none
  | _ + 1, [] => some (.nil, [], false)
  | fuel + 1, tok :: rest =>
    if tok = "^" then some (.nil, rest, true) else
    let kind := (tok.take 1).toString
    let body := (tok.drop 1).toString
    let parts := body.splitOn ":"
    match parts with
    | [] => none
    | nmHex :: extra =>
      match nameOfHex nmHex with
      | none => none
      | some n =>
        if !validEntry n then none else
        if kind = "d" && extra.isEmpty then
          match parseEnts k fuel rest with
          | some (kids, rest', true) =>
            if !nodupNames (Ents.namesL kids) then none else
            match parseEnts k fuel rest' with
            | some (sibs, rest'', c) => some (.cons n (.dir kids) sibs, rest'', c)
            | none => none
          | _ => none
        else
          let node : Option Node :=
            if kind = "f" then (match extra with | [i] => (canonNat i).bind fun i => if i < k then some (.file i) else none | _ => none)
            else if kind = "l" then (match extra with | [t] => (nameOfHex t).bind fun t => if t.isEmpty || t.contains (Char.ofNat 0) then none else some (.link t) | _ => none)
            else none
          match node with
          | none => none
          | some x =>
            match parseEnts k fuel rest with
            | some (sibs, rest', c) => some (.cons n x sibs, rest', c)
            | none => none

/-- canonical inode numbering: source inodes (< k) keep their number, others are numbered k, k+1, ... by first appearance -/
def canonIno (k : Nat) (seen : List Nat) (i : Nat) : Nat × List Nat :=
  if i < k then (i, seen) else
  match seen.idxOf? i with
  | some j => (k + j, seen)
  | none => (k + seen.length, seen ++ [i])

mutual
def dumpNode (k : Nat) (inos : List Inode) (n : Name) : Node → List Nat → List String × List Nat
  | .file i, seen =>
    let (c, seen') := canonIno k seen i
    let ino := inos[i]?
    ([s!"f{hexOfStr (String.ofList n)}:{c}:{(ino.map (·.perm)).getD 0}:{hexOfBytes (((ino.map (·.content)).getD []).map UInt8.ofNat) |> fun h => if h.isEmpty then "-" else h}"], seen')
  | .link t, seen => ([s!"l{hexOfStr (String.ofList n)}:{hexOfStr (String.ofList t)}"], seen)
  | .dir es, seen =>
    let (body, seen') := dumpEnts k inos es seen
    ([s!"d{hexOfStr (String.ofList n)}"] ++ body ++ ["^"], seen')
def dumpEnts (k : Nat) (inos : List Inode) : Ents → List Nat → List String × List Nat
  | .nil, seen => ([], seen)
  | .cons n x rest, seen =>
    let (a, seen') := dumpNode k inos n x seen
    let (b, seen'') := dumpEnts k inos rest seen'
    (a ++ b, seen'')
end

def step (line : String) : String :=
  match line.splitOn " " with
  | ["copy", mode, lnk, fb, fromH, toH, inodes, tree] =>
    if (lnk != "0" && lnk != "1") || (fb != "0" && fb != "1") then "bad-op" else
    match canonNat mode, nameOfHex fromH, nameOfHex toH, parseInodes inodes with
    | some mode, some fromN, some toN, some inos =>
      let toks := if tree = "_" then [] else tree.splitOn ","
      match parseEnts inos.length (toks.length + 1) toks with
      | some (es, [], false) =>
        if !nodupNames (Ents.namesL es) || !validEntry toN || fromN = toN then "bad-op" else
        match es.find fromN with
        | none => "no-source"
        | some src =>
          match copyTop facts ⟨mode, lnk = "1", fb = "1"⟩ es src (es.find toN) inos with
          | .error _ => "error"
          | .ok (d, inos') =>
            let (toks, _) := dumpNode inos.length inos' toN d.sort []
            ",".intercalate toks ++ " src-same"
      | _ => "bad-op"
    | _, _, _, _ => "bad-op"
  | _ => "bad-op"

def main : IO Unit := runStateless step
