import PlzVerif.Lemmas.DirCacheStore
/-!
Compressed mode: what a complete store leaves in the entry.
-/
namespace PlzVerif.DirCache

theorem find_self : ∀ (rest seen : Tree), srcOK seen rest = true → ∀ e ∈ rest,
    (seen ++ rest).find? (fun x => decide (x.1 = e.1)) = some e := by
  intro rest
  induction rest with
  | nil => intro _ _ e he; cases he
  | cons a rest ih =>
    intro seen hok e he
    simp only [srcOK, Bool.and_eq_true, decide_eq_true_eq] at hok
    obtain ⟨⟨⟨_, h2⟩, _⟩, h4⟩ := hok
    rcases List.mem_cons.mp he with h | h
    · subst h
      rw [List.find?_append]
      have : seen.find? (fun x => decide (x.1 = e.1)) = none := by
        unfold Tree.get at h2
        cases hf : seen.find? (fun x => decide (x.1 = e.1)) with
        | none => rfl
        | some y => rw [hf] at h2; cases h2
      rw [this]
      simp
    · have := ih (seen ++ [a]) h4 e h
      simpa using this

theorem appends_tmp : ∀ (es acc : Tree) (fs : CFS), fs .tmp = some ⟨acc, false⟩ →
    applyOpsC fs (es.map COp.append) .tmp = some ⟨acc ++ es, false⟩ ∧
    applyOpsC fs (es.map COp.append) .final = fs .final := by
  intro es
  induction es with
  | nil => intro acc fs h; simpa [applyOpsC] using h
  | cons e es ih =>
    intro acc fs h
    simp only [List.map_cons, applyOpsC_cons]
    have h1 : applyC1 fs (.append e) .tmp = some ⟨acc ++ [e], false⟩ := by simp [applyC1, h]
    have h2 : applyC1 fs (.append e) .final = fs .final := by simp [applyC1]
    have := ih (acc ++ [e]) _ h1
    rw [this.1, this.2, h2]
    simp

theorem expand_entries (src : Tree) (hsrc : srcOK [] src = true) : ∀ (es : Tree), (∀ e ∈ es, e ∈ src) →
    List.flatMap (expandC src) (es.map fun e => Step.tarEntry e.1) = es.map COp.append := by
  intro es
  induction es with
  | nil => intro _; rfl
  | cons e es ih =>
    intro h
    have hf := find_self src [] hsrc e (h e (List.mem_cons_self ..))
    simp only [List.nil_append] at hf
    simp only [List.map_cons, List.flatMap_cons, expandC, hf]
    rw [ih (fun x hx => h x (List.mem_cons_of_mem _ hx))]
    rfl

theorem tarEntries_sub (src : Tree) : ∀ outs, ∀ e ∈ (tarEntries src outs).1, e ∈ src := by
  intro outs
  induction outs with
  | nil => intro e he; simp [tarEntries] at he
  | cons o os ih =>
    intro e he
    simp only [tarEntries] at he
    split at he
    · simp at he
    · simp only [List.mem_append] at he
      rcases he with h | h
      · exact (List.mem_filter.mp h).1
      · exact ih e h

theorem tarEntries_all (src : Tree) : ∀ outs, (∀ o ∈ outs, src.get o ≠ none) →
    tarEntries src outs = (outs.flatMap (src.below ·), true) := by
  intro outs
  induction outs with
  | nil => intro _; rfl
  | cons o os ih =>
    intro h
    have ho := h o (List.mem_cons_self ..)
    simp only [tarEntries, ho, if_false]
    rw [ih (fun x hx => h x (List.mem_cons_of_mem _ hx))]
    simp

theorem tarEntries_missing (src : Tree) : ∀ outs, (∃ o ∈ outs, src.get o = none) →
    (tarEntries src outs).2 = false := by
  intro outs
  induction outs with
  | nil => intro ⟨o, ho, _⟩; cases ho
  | cons o os ih =>
    intro ⟨x, hx, hxn⟩
    simp only [tarEntries]
    by_cases ho : src.get o = none
    · simp [ho]
    · simp only [ho, if_false]
      rcases List.mem_cons.mp hx with h | h
      · subst h; exact absurd hxn ho
      · exact ih ⟨x, h, hxn⟩

/-- The operations between the removal of the old tarball and the rename. -/
def midC (src : Tree) (outs : List Path) : List COp :=
  [COp.nop, COp.rm .tmp, COp.create] ++ (tarEntries src outs).1.map COp.append ++ [COp.close] ++
    (if (tarEntries src outs).2 then [COp.nop] else [COp.rm .tmp])

theorem midC_tmpOnly (src : Tree) (outs : List Path) : ∀ op ∈ midC src outs, op.tmpOnly = true := by
  intro op h
  simp only [midC] at h
  cases hb : (tarEntries src outs).2 <;>
    simp only [hb, if_true, if_false, Bool.false_eq_true, List.mem_append, List.mem_cons, List.mem_nil_iff,
      or_false, List.mem_map] at h <;>
    (rcases h with (((h | h | h) | ⟨e, _, h⟩) | h) | h <;> subst h <;> rfl)

theorem storeOpsC_shape (src : Tree) (hsrc : srcOK [] src = true) (outs : List Path) :
    storeOpsC canonOrder src outs = COp.rm .final :: (midC src outs ++ [COp.rename]) := by
  have hexp := expand_entries src hsrc (tarEntries src outs).1 (tarEntries_sub src outs)
  simp only [storeOpsC, stepsC, canonOrder, midC]
  cases hte : tarEntries src outs with
  | mk es ok =>
    rw [hte] at hexp
    simp only at hexp
    cases ok <;>
      simp [List.flatMap_cons, List.flatMap_append, expandC, hexp]

theorem storeC_end (fs0 : CFS) (es : Tree) (ok : Bool) :
    applyOpsC fs0 (COp.rm .final :: (([COp.nop, COp.rm .tmp, COp.create] ++ es.map COp.append ++ [COp.close] ++
      (if ok then [COp.nop] else [COp.rm .tmp])) ++ [COp.rename])) .final =
      if ok then some ⟨es, true⟩ else none := by
  let s3 := applyC1 (applyC1 (applyC1 (applyC1 fs0 (.rm .final)) .nop) (.rm .tmp)) .create
  have h3t : s3 .tmp = some ⟨[], false⟩ := by simp [s3, applyC1]
  have h3f : s3 .final = none := by simp [s3, applyC1]
  have happ := appends_tmp es [] s3 h3t
  simp only [List.nil_append] at happ
  have e1 : applyOpsC fs0 (COp.rm .final :: (([COp.nop, COp.rm .tmp, COp.create] ++ es.map COp.append ++ [COp.close] ++
      (if ok then [COp.nop] else [COp.rm .tmp])) ++ [COp.rename])) =
      applyC1 (applyOpsC (applyC1 (applyOpsC s3 (es.map COp.append)) .close)
        (if ok then [COp.nop] else [COp.rm .tmp])) .rename := by
    simp only [applyOpsC_cons, applyOpsC_append, List.cons_append, List.nil_append]
    rfl
  rw [e1]
  have h5t : applyC1 (applyOpsC s3 (es.map COp.append)) .close .tmp = some ⟨es, true⟩ := by
    simp only [applyC1]
    rw [happ.1]
    rfl
  have h5f : applyC1 (applyOpsC s3 (es.map COp.append)) .close .final = none := by
    simp only [applyC1]
    rw [happ.2, h3f]
    simp
  generalize applyC1 (applyOpsC s3 (es.map COp.append)) .close = s5 at h5t h5f ⊢
  cases ok
  · simp only [Bool.false_eq_true, if_false]
    have : applyOpsC s5 [COp.rm .tmp] = applyC1 s5 (.rm .tmp) := rfl
    rw [this]
    simp [applyC1, h5f]
  · simp only [if_true]
    have : applyOpsC s5 [COp.nop] = s5 := rfl
    rw [this]
    simp [applyC1, h5t]

/-- What a complete compressed store leaves. -/
theorem storeC_complete (src : Tree) (hsrc : srcOK [] src = true) (outs : List Path) (fs0 : CFS) :
    let s := applyOpsC fs0 (storeOpsC canonOrder src outs)
    ((∀ o ∈ outs, src.get o ≠ none) → s .final = some ⟨outs.flatMap (src.below ·), true⟩) ∧
    ((∃ o ∈ outs, src.get o = none) → s .final = none) := by
  intro s
  have hs : s .final = if (tarEntries src outs).2 then some ⟨(tarEntries src outs).1, true⟩ else none := by
    show applyOpsC fs0 (storeOpsC canonOrder src outs) .final = _
    rw [storeOpsC_shape src hsrc]
    exact storeC_end fs0 _ _
  refine ⟨?_, ?_⟩
  · intro hall
    rw [hs, tarEntries_all src outs hall]
    simp
  · intro hmiss
    rw [hs, tarEntries_missing src outs hmiss]
    simp

end PlzVerif.DirCache
