import PlzVerif.Model.AspInterp
/-!
Lemmas about freezing and the mutating primitives of the asp model (C17).

* every primitive that writes into a container refuses a frozen wrapper (`indexAssign`, and the `sorted` /
  `reversed` argument check `asUnfrozenList`);
* `deepFrozen`: a value is frozen all the way down and has no spare capacity;
* with a `Freeze` that wraps the frozen copy (`freezeKeepsElems = false`, i.e. the one-line fix of
  objects.go:439) the result of `freeze` is `deepFrozen` in the resulting heap — `freeze_deepFrozen`.
-/
namespace PlzVerif.Asp

/-! ### Writes through a frozen wrapper are refused -/

theorem indexAssign_frozen_list (arr off len cap : Nat) (idx v : Val) (st : St) :
    (indexAssign (.list true arr off len cap) idx v).run st = .error "list is immutable" := rfl

theorem indexAssign_frozen_dict (d : Nat) (idx v : Val) (st : St) :
    (indexAssign (.dict true d) idx v).run st = .error "dict is immutable" := rfl

theorem asUnfrozenList_frozen (what : String) (arr off len cap : Nat) (st : St) :
    ∃ e, (asUnfrozenList what (.list true arr off len cap)).run st = .error e := ⟨_, rfl⟩

/-! ### Deep frozenness -/

/-- `v` is frozen all the way down (to depth `n`) in heap `st`, and no list in it has spare capacity. -/
def deepFrozen (st : St) : Nat → Val → Bool
  | 0, _ => false
  | n + 1, .list fz arr off len cap =>
    match st.arrays[arr]? with
    | none => false
    | some l => fz && cap == len && ((l.drop off).take len).all (deepFrozen st n)
  | n + 1, .dict fz d =>
    match st.dicts[d]? with
    | none => false
    | some m => fz && m.all fun e => deepFrozen st n e.2
  | _ + 1, _ => true

/-- Heap extension: everything allocated so far is still there, unchanged. -/
structure Ext (st st' : St) : Prop where
  arrays : ∃ more, st'.arrays = st.arrays ++ more
  dicts : ∃ more, st'.dicts = st.dicts ++ more

theorem Ext.refl (st : St) : Ext st st := ⟨⟨[], by simp⟩, ⟨[], by simp⟩⟩

theorem Ext.trans {a b c : St} (h1 : Ext a b) (h2 : Ext b c) : Ext a c := by
  obtain ⟨⟨m1, e1⟩, ⟨n1, f1⟩⟩ := h1
  obtain ⟨⟨m2, e2⟩, ⟨n2, f2⟩⟩ := h2
  exact ⟨⟨m1 ++ m2, by rw [e2, e1, List.append_assoc]⟩, ⟨n1 ++ n2, by rw [f2, f1, List.append_assoc]⟩⟩

theorem getElem?_of_ext {α : Type} (l more : List α) (i : Nat) (x : α) (h : l[i]? = some x) :
    (l ++ more)[i]? = some x := by
  have hi : i < l.length := by
    rcases Nat.lt_or_ge i l.length with h' | h'
    · exact h'
    · rw [List.getElem?_eq_none h'] at h; cases h
  rw [List.getElem?_append_left hi]; exact h

/-- More depth allowance never hurts. -/
theorem deepFrozen_succ (st : St) : ∀ (n : Nat) (v : Val), deepFrozen st n v = true → deepFrozen st (n + 1) v = true := by
  intro n
  induction n with
  | zero => intro v h; simp [deepFrozen] at h
  | succ n ih =>
    intro v h
    cases v with
    | list fz arr off len cap =>
      simp only [deepFrozen] at h ⊢
      cases ha : st.arrays[arr]? with
      | none => simp [ha] at h
      | some l =>
        simp only [ha, Bool.and_eq_true, List.all_eq_true] at h ⊢
        exact ⟨h.1, fun x hx => ih x (h.2 x hx)⟩
    | dict fz d =>
      simp only [deepFrozen] at h ⊢
      cases hd : st.dicts[d]? with
      | none => simp [hd] at h
      | some m =>
        simp only [hd, Bool.and_eq_true, List.all_eq_true] at h ⊢
        exact ⟨h.1, fun x hx => ih x.2 (h.2 x hx)⟩
    | _ => simp [deepFrozen]

/-- Allocation elsewhere does not disturb a deep-frozen value. -/
theorem deepFrozen_ext {st st' : St} (he : Ext st st') :
    ∀ (n : Nat) (v : Val), deepFrozen st n v = true → deepFrozen st' n v = true := by
  obtain ⟨⟨ma, ea⟩, ⟨md, ed⟩⟩ := he
  intro n
  induction n with
  | zero => intro v h; simp [deepFrozen] at h
  | succ n ih =>
    intro v h
    cases v with
    | list fz arr off len cap =>
      simp only [deepFrozen] at h ⊢
      cases ha : st.arrays[arr]? with
      | none => simp [ha] at h
      | some l =>
        have ha' : st'.arrays[arr]? = some l := by rw [ea]; exact getElem?_of_ext _ _ _ _ ha
        simp only [ha, ha', Bool.and_eq_true, List.all_eq_true] at h ⊢
        exact ⟨h.1, fun x hx => ih x (h.2 x hx)⟩
    | dict fz d =>
      simp only [deepFrozen] at h ⊢
      cases hd : st.dicts[d]? with
      | none => simp [hd] at h
      | some m =>
        have hd' : st'.dicts[d]? = some m := by rw [ed]; exact getElem?_of_ext _ _ _ _ hd
        simp only [hd, hd', Bool.and_eq_true, List.all_eq_true] at h ⊢
        exact ⟨h.1, fun x hx => ih x.2 (h.2 x hx)⟩
    | _ => simp [deepFrozen]

/-! ### Running the heap primitives -/

theorem run_bind_ok {α β : Type} (x : EM α) (f : α → EM β) (st : St) (r : β × St) :
    (x >>= f).run st = .ok r ↔ ∃ a s1, x.run st = .ok (a, s1) ∧ (f a).run s1 = .ok r := by
  simp only [StateT.run, bind, StateT.bind, Except.bind]
  cases h : x st with
  | error e => simp
  | ok p =>
    obtain ⟨a, s1⟩ := p
    constructor
    · intro h'; exact ⟨a, s1, rfl, h'⟩
    · rintro ⟨a', s', he, h'⟩; cases he; exact h'

theorem run_pure_ok {α : Type} (a : α) (st : St) (r : α × St) :
    (pure a : EM α).run st = .ok r ↔ r = (a, st) := by
  simp only [StateT.run, pure, StateT.pure, Except.pure]
  constructor
  · intro h; cases h; rfl
  · intro h; rw [h]

theorem elems_run {arr off len : Nat} {st st' : St} {xs : List Val}
    (h : (elems arr off len).run st = .ok (xs, st')) :
    st' = st ∧ ∃ l, st.arrays[arr]? = some l ∧ xs = (l.drop off).take len := by
  simp only [elems, getArr, StateT.run, bind, StateT.bind, Except.bind, get, getThe, MonadStateOf.get,
    StateT.get, pure, StateT.pure, Except.pure] at h
  cases ha : st.arrays[arr]? with
  | none => simp [ha, fail, throw, throwThe, MonadExceptOf.throw, StateT.lift,
      Except.bind, bind] at h
  | some l =>
    simp only [ha] at h
    cases h
    exact ⟨rfl, l, rfl, rfl⟩

theorem allocArr_run {vs : List Val} {st st' : St} {a : Nat} (h : (allocArr vs).run st = .ok (a, st')) :
    a = st.arrays.length ∧ st' = { st with arrays := st.arrays ++ [vs] } := by
  simp only [allocArr, StateT.run, bind, StateT.bind, Except.bind, get, getThe, MonadStateOf.get, StateT.get,
    set, StateT.set, pure, StateT.pure, Except.pure] at h
  cases h
  exact ⟨rfl, rfl⟩

theorem getDict_run {d : Nat} {st st' : St} {m : List (String × Val)} (h : (getDict d).run st = .ok (m, st')) :
    st' = st ∧ st.dicts[d]? = some m := by
  simp only [getDict, StateT.run, bind, StateT.bind, Except.bind, get, getThe, MonadStateOf.get,
    StateT.get, pure, Except.pure] at h
  cases hd : st.dicts[d]? with
  | none => simp [hd, fail, throw, throwThe, MonadExceptOf.throw, StateT.lift,
      Except.bind, bind] at h
  | some l =>
    simp only [hd] at h
    cases h
    exact ⟨rfl, rfl⟩

theorem allocDict_run {kvs : List (String × Val)} {st st' : St} {a : Nat} (h : (allocDict kvs).run st = .ok (a, st')) :
    a = st.dicts.length ∧ st' = { st with dicts := st.dicts ++ [kvs] } := by
  simp only [allocDict, StateT.run, bind, StateT.bind, Except.bind, get, getThe, MonadStateOf.get, StateT.get,
    set, StateT.set, pure, StateT.pure, Except.pure] at h
  cases h
  exact ⟨rfl, rfl⟩

theorem fail_run {α : Type} (msg : String) (st : St) (r : α × St) : ¬ ((fail msg : EM α).run st = .ok r) := by
  simp [fail, StateT.run, throw, throwThe, MonadExceptOf.throw, StateT.lift,
    bind, Except.bind]

/-! ### A Freeze that wraps the frozen copy yields deep-frozen values -/

theorem freeze_spec (F : Facts) (hF : F.freezeKeepsElems = false) : ∀ n : Nat,
    (∀ v st v' st', (freeze F n v).run st = .ok (v', st') → Ext st st' ∧ deepFrozen st' n v' = true) ∧
    (∀ xs st xs' st', (freezeList F n xs).run st = .ok (xs', st') →
        Ext st st' ∧ ∀ x ∈ xs', deepFrozen st' n x = true) ∧
    (∀ m st m' st', (freezeKvs F n m).run st = .ok (m', st') →
        Ext st st' ∧ ∀ e ∈ m', deepFrozen st' n e.2 = true) := by
  intro n
  induction n with
  | zero =>
    refine ⟨?_, ?_, ?_⟩ <;> intro a st b st' h <;> simp only [freeze, freezeList, freezeKvs] at h <;>
      exact absurd h (fail_run _ _ _)
  | succ f ih =>
    obtain ⟨ih1, ih2, ih3⟩ := ih
    refine ⟨?_, ?_, ?_⟩
    · intro v st v' st' h
      cases v with
      | list fz arr off len cap =>
        simp only [freeze, hF] at h
        obtain ⟨xs, s0, hx, h⟩ := (run_bind_ok _ _ _ _).1 h
        obtain ⟨rfl, l, hl, rfl⟩ := elems_run hx
        obtain ⟨fr, s1, hfr, h⟩ := (run_bind_ok _ _ _ _).1 h
        obtain ⟨e1, hall⟩ := ih2 _ _ _ _ hfr
        simp only [Bool.false_eq_true, if_false] at h
        obtain ⟨a, s2, ha, h⟩ := (run_bind_ok _ _ _ _).1 h
        obtain ⟨rfl, rfl⟩ := allocArr_run ha
        have := (run_pure_ok _ _ _).1 h
        cases this
        have e2 : Ext s1 { s1 with arrays := s1.arrays ++ [fr] } := ⟨⟨[fr], rfl⟩, ⟨[], by simp⟩⟩
        refine ⟨e1.trans e2, ?_⟩
        simp only [deepFrozen, List.getElem?_concat_length, Bool.true_and, beq_self_eq_true, List.drop_zero,
          List.all_eq_true]
        intro x hx
        exact deepFrozen_ext e2 f x (hall x (List.mem_of_mem_take hx))
      | dict fz d =>
        simp only [freeze] at h
        obtain ⟨m, s0, hm, h1⟩ := (run_bind_ok _ _ _ _).1 h
        obtain ⟨hs0, _⟩ := getDict_run hm
        obtain ⟨kvs, s1, hk, h2⟩ := (run_bind_ok _ _ _ _).1 h1
        obtain ⟨e1, hall⟩ := ih3 _ _ _ _ hk
        obtain ⟨id, s2, hid, h3⟩ := (run_bind_ok _ _ _ _).1 h2
        obtain ⟨hid1, hid2⟩ := allocDict_run hid
        have h4 := (run_pure_ok _ _ _).1 h3
        cases h4
        subst hid1 hid2 hs0
        have e2 : Ext s1 { s1 with dicts := s1.dicts ++ [kvs] } := ⟨⟨[], by simp⟩, ⟨[kvs], rfl⟩⟩
        refine ⟨e1.trans e2, ?_⟩
        simp only [deepFrozen, List.getElem?_concat_length, Bool.true_and, List.all_eq_true]
        intro x hx
        exact deepFrozen_ext e2 f x.2 (hall x hx)
      | _ =>
        simp only [freeze] at h
        have := (run_pure_ok _ _ _).1 h
        cases this
        exact ⟨Ext.refl _, by simp [deepFrozen]⟩
    · intro xs st xs' st' h
      cases xs with
      | nil =>
        simp only [freezeList] at h
        have := (run_pure_ok _ _ _).1 h
        cases this
        exact ⟨Ext.refl _, by simp⟩
      | cons x r =>
        simp only [freezeList] at h
        obtain ⟨x', s1, hx, h⟩ := (run_bind_ok _ _ _ _).1 h
        obtain ⟨e1, hfx⟩ := ih1 _ _ _ _ hx
        obtain ⟨r', s2, hr, h⟩ := (run_bind_ok _ _ _ _).1 h
        obtain ⟨e2, hfr⟩ := ih2 _ _ _ _ hr
        have := (run_pure_ok _ _ _).1 h
        cases this
        refine ⟨e1.trans e2, ?_⟩
        intro y hy
        rcases List.mem_cons.1 hy with rfl | hy
        · exact deepFrozen_succ _ _ _ (deepFrozen_ext e2 f _ hfx)
        · exact deepFrozen_succ _ _ _ (hfr y hy)
    · intro m st m' st' h
      cases m with
      | nil =>
        simp only [freezeKvs] at h
        have := (run_pure_ok _ _ _).1 h
        cases this
        exact ⟨Ext.refl _, by simp⟩
      | cons kv r =>
        obtain ⟨k, x⟩ := kv
        simp only [freezeKvs] at h
        obtain ⟨x', s1, hx, h⟩ := (run_bind_ok _ _ _ _).1 h
        obtain ⟨e1, hfx⟩ := ih1 _ _ _ _ hx
        obtain ⟨r', s2, hr, h⟩ := (run_bind_ok _ _ _ _).1 h
        obtain ⟨e2, hfr⟩ := ih3 _ _ _ _ hr
        have := (run_pure_ok _ _ _).1 h
        cases this
        refine ⟨e1.trans e2, ?_⟩
        intro y hy
        rcases List.mem_cons.1 hy with rfl | hy
        · exact deepFrozen_succ _ _ _ (deepFrozen_ext e2 f _ hfx)
        · exact deepFrozen_succ _ _ _ (hfr y hy)

/-- With the fixed `Freeze`, whatever `freeze` returns is frozen all the way down, has no spare capacity, and
    lives in cells allocated by `freeze` itself (the heap it started from is extended, not modified). -/
theorem freeze_deepFrozen (F : Facts) (hF : F.freezeKeepsElems = false) (n : Nat) (v v' : Val) (st st' : St)
    (h : (freeze F n v).run st = .ok (v', st')) : Ext st st' ∧ deepFrozen st' n v' = true :=
  (freeze_spec F hF n).1 v st v' st' h

/-! ### What a subinclude hands out -/

/-- A list or dict is a frozen wrapper (anything else passes). -/
def topFrozen : Val → Bool
  | .list fz _ _ _ _ => fz
  | .dict fz _ => fz
  | _ => true

/-- Whatever `freeze` returns is, at the top level, a frozen wrapper — for every facts record. -/
theorem freeze_topFrozen (F : Facts) (n : Nat) (v v' : Val) (st st' : St)
    (h : (freeze F n v).run st = .ok (v', st')) : topFrozen v' = true := by
  cases n with
  | zero => simp only [freeze] at h; exact absurd h (fail_run _ _ _)
  | succ f =>
    cases v with
    | list fz arr off len cap =>
      simp only [freeze] at h
      rw [run_bind_ok] at h; obtain ⟨xs, s1, _, h⟩ := h
      rw [run_bind_ok] at h; obtain ⟨fr, s2, _, h⟩ := h
      by_cases hk : F.freezeKeepsElems = true
      · simp only [hk, if_true] at h; rw [run_pure_ok] at h; cases h; rfl
      · simp only [hk, Bool.false_eq_true, if_false] at h
        rw [run_bind_ok] at h; obtain ⟨a, s3, _, h⟩ := h
        rw [run_pure_ok] at h; cases h; rfl
    | dict fz d =>
      simp only [freeze] at h
      rw [run_bind_ok] at h; obtain ⟨m, s1, _, h⟩ := h
      rw [run_bind_ok] at h; obtain ⟨kvs, s2, _, h⟩ := h
      rw [run_bind_ok] at h; obtain ⟨id, s3, _, h⟩ := h
      rw [run_pure_ok] at h; cases h; rfl
    | _ => simp only [freeze] at h; rw [run_pure_ok] at h; cases h; rfl

theorem freezeKvs_topFrozen (F : Facts) : ∀ (n : Nat) (m m' : List (String × Val)) (st st' : St),
    (freezeKvs F n m).run st = .ok (m', st') → m'.map (·.1) = m.map (·.1) ∧ ∀ e ∈ m', topFrozen e.2 = true := by
  intro n
  induction n with
  | zero => intro m m' st st' h; simp only [freezeKvs] at h; exact absurd h (fail_run _ _ _)
  | succ f ih =>
    intro m m' st st' h
    cases m with
    | nil => simp only [freezeKvs] at h; rw [run_pure_ok] at h; cases h; simp
    | cons e r =>
      obtain ⟨k, x⟩ := e
      simp only [freezeKvs] at h
      rw [run_bind_ok] at h; obtain ⟨x', s1, h1, h⟩ := h
      rw [run_bind_ok] at h; obtain ⟨r', s2, h2, h⟩ := h
      rw [run_pure_ok] at h; cases h
      obtain ⟨hk, hv⟩ := ih r r' _ _ h2
      refine ⟨by simp [hk], ?_⟩
      intro e he
      rcases List.mem_cons.1 he with rfl | he'
      · exact freeze_topFrozen F f x x' st s1 h1
      · exact hv e he'

/-- **What a subinclude hands out is frozen at the top level**: after `scope.Freeze()` every variable of the scope
    that holds a list or a dict holds a frozen wrapper (every facts record, every heap). -/
theorem freezeScope_exports_frozen (F : Facts) (sc : Nat) (st st' : St) (u : Unit)
    (h : (freezeScope F sc).run st = .ok (u, st')) :
    ∀ s', st'.scopes[sc]? = some s' → ∀ e ∈ s'.vars, topFrozen e.2 = true := by
  unfold freezeScope at h
  rw [run_bind_ok] at h; obtain ⟨st0, s1, h0, h⟩ := h
  have : st0 = st ∧ s1 = st := by
    simp only [get, getThe, MonadStateOf.get, StateT.get, StateT.run, pure, Except.pure] at h0
    cases h0; exact ⟨rfl, rfl⟩
  rw [this.1, this.2] at h
  cases hs : st.scopes[sc]? with
  | none => simp only [hs] at h; exact absurd h (fail_run _ _ _)
  | some s =>
    simp only [hs] at h
    rw [run_bind_ok] at h; obtain ⟨vars, s2, h2, h⟩ := h
    obtain ⟨_, hv⟩ := freezeKvs_topFrozen F 64 s.vars vars st s2 h2
    simp only [modify, modifyGet, MonadStateOf.modifyGet, StateT.modifyGet, StateT.run, pure, Except.pure] at h
    cases h
    intro s' hs' e he
    simp only [List.getElem?_set] at hs'
    by_cases hl : sc < s2.scopes.length
    · simp [hl] at hs'; subst hs'; exact hv e he
    · simp [hl] at hs'

/-! ### What today's `Freeze` (a wrapper around the original elements) does get right: flat lists -/

def scalar : Val → Bool
  | .int _ | .str _ | .bool _ | .none => true
  | _ => false

theorem freeze_scalar (F : Facts) (f : Nat) (v v' : Val) (st st' : St) (hs : scalar v = true)
    (h : (freeze F f v).run st = .ok (v', st')) : st' = st ∧ v' = v := by
  cases f with
  | zero => simp only [freeze] at h; exact absurd h (fail_run _ _ _)
  | succ f =>
    cases v <;> simp [scalar] at hs <;> (simp only [freeze] at h; rw [run_pure_ok] at h; cases h; exact ⟨rfl, rfl⟩)

theorem freezeList_scalars (F : Facts) : ∀ (f : Nat) (xs ys : List Val) (st st' : St),
    xs.all scalar = true → (freezeList F f xs).run st = .ok (ys, st') → st' = st ∧ ys = xs := by
  intro f
  induction f with
  | zero => intro xs ys st st' _ h; simp only [freezeList] at h; exact absurd h (fail_run _ _ _)
  | succ f ih =>
    intro xs ys st st' hs h
    cases xs with
    | nil => simp only [freezeList] at h; rw [run_pure_ok] at h; cases h; exact ⟨rfl, rfl⟩
    | cons x r =>
      simp only [List.all_cons, Bool.and_eq_true] at hs
      simp only [freezeList] at h
      rw [run_bind_ok] at h; obtain ⟨x', s1, h1, h⟩ := h
      rw [run_bind_ok] at h; obtain ⟨r', s2, h2, h⟩ := h
      rw [run_pure_ok] at h; cases h
      obtain ⟨e1, e2⟩ := freeze_scalar F f x x' st s1 hs.1 h1
      subst e1; subst e2
      obtain ⟨e3, e4⟩ := ih r r' _ _ hs.2 h2
      subst e3; subst e4
      exact ⟨rfl, rfl⟩

theorem deepFrozen_scalar (st : St) (n : Nat) (v : Val) (hs : scalar v = true) : deepFrozen st (n + 1) v = true := by
  cases v <;> simp [scalar] at hs <;> rfl

/-- **Today's `Freeze` on a flat list without spare capacity**: the heap is left as it is, the result is the
    frozen wrapper of the same slice, and it is frozen all the way down (there is no further level). -/
theorem freeze_today_flat (F : Facts) (hk : F.freezeKeepsElems = true) (n : Nat) (fz : Bool) (arr off len : Nat)
    (st st' : St) (v' : Val) (l : List Val) (hl : st.arrays[arr]? = some l)
    (hflat : ((l.drop off).take len).all scalar = true)
    (h : (freeze F (n + 2) (.list fz arr off len len)).run st = .ok (v', st')) :
    st' = st ∧ v' = .list true arr off len len ∧ deepFrozen st' (n + 2) v' = true := by
  simp only [freeze] at h
  rw [run_bind_ok] at h; obtain ⟨xs, s1, h1, h⟩ := h
  obtain ⟨e1, l', hl', hx⟩ := elems_run h1
  subst e1
  rw [hl] at hl'; cases hl'
  rw [run_bind_ok] at h; obtain ⟨fr, s2, h2, h⟩ := h
  obtain ⟨e2, _⟩ := freezeList_scalars F (n + 1) xs fr _ _ (hx ▸ hflat) h2
  subst e2
  simp only [hk, if_true] at h
  rw [run_pure_ok] at h; cases h
  refine ⟨rfl, rfl, ?_⟩
  simp only [deepFrozen, hl, Bool.true_and, beq_self_eq_true]
  rw [List.all_eq_true] at hflat ⊢
  intro x hx'
  exact deepFrozen_scalar _ n x (hflat x hx')

/-! ### `+` on a list without spare capacity never writes -/

theorem mkList_ext {vs : List Val} {st st' : St} {v : Val} (h : (mkList vs).run st = .ok (v, st')) : Ext st st' := by
  unfold mkList at h
  rw [run_bind_ok] at h; obtain ⟨a, s1, h1, h⟩ := h
  obtain ⟨_, hs⟩ := allocArr_run h1
  rw [run_pure_ok] at h; cases h
  exact ⟨⟨[vs], by rw [hs]⟩, ⟨[], by rw [hs]; simp⟩⟩

/-- The sum of a list whose capacity is its length: the heap is only extended (a new array for the sum), whatever
    the facts say about `append` — there is no room to append into. -/
theorem listAppend_exact_cap (F : Facts) (arr off len : Nat) (ys : List Val) (st st' : St) (v : Val)
    (h : (listAppend F arr off len len ys).run st = .ok (v, st')) : Ext st st' := by
  unfold listAppend at h
  by_cases ha : F.addAppends = true
  · simp only [ha, if_true] at h
    by_cases hn : (ys.length == 0) = true
    · simp only [hn, if_true] at h; rw [run_pure_ok] at h; cases h; exact Ext.refl _
    · simp only [hn, Bool.false_eq_true, if_false] at h
      have hlen : ¬ (len + ys.length ≤ len) := by
        have : ys.length ≠ 0 := by simpa using hn
        omega
      simp only [hlen, if_false] at h
      rw [run_bind_ok] at h; obtain ⟨xs, s1, h1, h⟩ := h
      have := (elems_run h1).1; subst this
      exact mkList_ext h
  · simp only [ha, Bool.false_eq_true, if_false] at h
    rw [run_bind_ok] at h; obtain ⟨xs, s1, h1, h⟩ := h
    have := (elems_run h1).1; subst this
    exact mkList_ext h

/-- `append(slices.Clip(l), ys...)` never writes either: the same list, or a fresh array -/
theorem listAppendClipFirst_ext (arr off len : Nat) (ys : List Val) (st st' : St) (v : Val)
    (h : (listAppendClipFirst arr off len ys).run st = .ok (v, st')) : Ext st st' := by
  unfold listAppendClipFirst at h
  by_cases he : ys.isEmpty = true
  · simp only [he, if_true] at h; rw [run_pure_ok] at h; cases h; exact Ext.refl _
  · simp only [he, Bool.false_eq_true, if_false] at h
    rw [run_bind_ok] at h; obtain ⟨xs, s1, h1, h⟩ := h
    have := (elems_run h1).1; subst this
    cases hg : goGrowCap len (len + ys.length) with
    | none => simp only [hg] at h; exact absurd h (fail_run _ _ _)
    | some c =>
      simp only [hg] at h
      rw [run_bind_ok] at h; obtain ⟨a, s2, h2, h⟩ := h
      obtain ⟨_, hs⟩ := allocArr_run h2
      rw [run_pure_ok] at h; cases h
      exact ⟨⟨[_], by rw [hs]⟩, ⟨[], by rw [hs]; simp⟩⟩

end PlzVerif.Asp
