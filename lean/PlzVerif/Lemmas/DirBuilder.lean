import PlzVerif.Model.DirBuilder
/-!
Lemmas for C28: sort + adjacent de-duplication gives a strictly ascending list; any two sorted permutations
of a list whose equal-named elements are equal coincide; `walk` respects permutations of the insertion lists.
-/
namespace PlzVerif.DirBuilder

/-! ### the order on names (Go string comparison = lexicographic on bytes) -/

theorem nle_total (a b : Name) : a ≤ b ∨ b ≤ a := List.le_total a b
theorem nle_trans {a b c : Name} (h1 : a ≤ b) (h2 : b ≤ c) : a ≤ c := List.le_trans h1 h2
theorem nle_antisymm {a b : Name} (h1 : a ≤ b) (h2 : b ≤ a) : a = b := List.le_antisymm h1 h2
theorem nlt_of_le_of_ne {a b : Name} (h1 : a ≤ b) (h2 : a ≠ b) : a < b := by
  rcases List.le_iff_lt_or_eq.mp h1 with h | h
  · exact h
  · exact absurd h h2
theorem nle_of_lt {a b : Name} (h : a < b) : a ≤ b := List.le_of_lt h
theorem nlt_irrefl (a : Name) : ¬ a < a := List.lt_irrefl a
theorem nlt_asymm {a b : Name} (h1 : a < b) (h2 : b < a) : False := by
  have := nle_antisymm (nle_of_lt h1) (nle_of_lt h2)
  subst this; exact nlt_irrefl a h1

/-! ### dedupFrom -/

section dedup
variable {α : Type} (key : α → Name)

theorem dedupFrom_mem (last : Name) (l : List α) (y : α) (h : y ∈ (dedupFrom key last l).1) : y ∈ l := by
  induction l generalizing last with
  | nil => simp [dedupFrom] at h
  | cons x xs ih =>
    unfold dedupFrom at h
    by_cases hx : key x ≠ last
    · simp only [hx, ne_eq, not_false_eq_true, if_true, List.mem_cons] at h
      rcases h with h | h
      · simp [h]
      · exact List.mem_cons_of_mem _ (ih _ h)
    · simp only [hx, if_false] at h
      exact List.mem_cons_of_mem _ (ih _ h)

/-- With everything ≥ `last`, what is kept differs from `last`. -/
theorem dedupFrom_ne (last : Name) (l : List α) (hs : l.Pairwise fun a b => key a ≤ key b)
    (hb : ∀ y ∈ l, last ≤ key y) : ∀ y ∈ (dedupFrom key last l).1, key y ≠ last := by
  induction l generalizing last with
  | nil => simp [dedupFrom]
  | cons x xs ih =>
    have hx' := List.pairwise_cons.mp hs
    intro y hy
    unfold dedupFrom at hy
    by_cases hx : key x ≠ last
    · simp only [hx, ne_eq, not_false_eq_true, if_true, List.mem_cons] at hy
      rcases hy with hy | hy
      · subst hy; exact hx
      · have h1 := ih (key x) hx'.2 (fun z hz => hx'.1 z hz) y hy
        have h2 : key x ≤ key y := hx'.1 y (dedupFrom_mem key _ _ _ hy)
        have h3 : last < key x := nlt_of_le_of_ne (hb x (by simp)) (Ne.symm hx)
        intro he
        rw [he] at h2
        exact nlt_asymm h3 (nlt_of_le_of_ne h2 hx)
    · simp only [hx, if_false] at hy
      exact ih last hx'.2 (fun z hz => hb z (List.mem_cons_of_mem _ hz)) y hy

/-- The output of the loop on a sorted list is strictly ascending, whatever `last` was at the start. -/
theorem dedupFrom_strict (last : Name) (l : List α) (hs : l.Pairwise fun a b => key a ≤ key b) :
    (dedupFrom key last l).1.Pairwise fun a b => key a < key b := by
  induction l generalizing last with
  | nil => simp [dedupFrom]
  | cons x xs ih =>
    have hx' := List.pairwise_cons.mp hs
    unfold dedupFrom
    by_cases hx : key x ≠ last
    · simp only [hx, ne_eq, not_false_eq_true, if_true]
      refine List.pairwise_cons.mpr ⟨?_, ih _ hx'.2⟩
      intro y hy
      have h1 := dedupFrom_ne key (key x) xs hx'.2 (fun z hz => hx'.1 z hz) y hy
      exact nlt_of_le_of_ne (hx'.1 y (dedupFrom_mem key _ _ _ hy)) (Ne.symm h1)
    · simp only [hx, if_false]
      exact ih _ hx'.2

/-- When `last` is not the name of any element and no two elements share a name, nothing is dropped. -/
theorem dedupFrom_id (last : Name) (l : List α) (hs : l.Pairwise fun a b => key a < key b)
    (hl : ∀ y ∈ l, key y ≠ last) : (dedupFrom key last l).1 = l := by
  induction l generalizing last with
  | nil => simp [dedupFrom]
  | cons x xs ih =>
    have hx' := List.pairwise_cons.mp hs
    unfold dedupFrom
    have hx : key x ≠ last := hl x (by simp)
    simp only [hx, ne_eq, not_false_eq_true, if_true]
    rw [ih (key x) hx'.2 (fun y hy he => by
      have := hx'.1 y hy; rw [he] at this; exact nlt_irrefl _ this)]

end dedup

/-! ### sorted permutations of a consistent list coincide -/

/-- Equal names mean equal entries ("consistent duplicates"). -/
def Cons {α : Type} (key : α → Name) (l : List α) : Prop := ∀ a ∈ l, ∀ b ∈ l, key a = key b → a = b

theorem sorted_perm_eq {α : Type} (key : α → Name) {l₁ l₂ : List α} (hc : Cons key l₁) (p : l₁.Perm l₂)
    (h1 : l₁.Pairwise fun a b => key a ≤ key b) (h2 : l₂.Pairwise fun a b => key a ≤ key b) : l₁ = l₂ := by
  apply List.Perm.eq_of_pairwise (le := fun a b => key a ≤ key b) _ h1 h2 p
  intro a b ha hb hab hba
  exact hc a ha b (p.mem_iff.mpr hb) (nle_antisymm hab hba)

theorem Cons.perm {α : Type} {key : α → Name} {l₁ l₂ : List α} (hc : Cons key l₁) (p : l₁.Perm l₂) : Cons key l₂ :=
  fun a ha b hb h => hc a (p.mem_iff.mpr ha) b (p.mem_iff.mpr hb) h

/-- Any two legal sorts of two permutations of a consistent list give the same list. -/
theorem sorts_agree {α : Type} (key : α → Name) {s₁ s₂ : List α → List α} (hs₁ : IsSort key s₁) (hs₂ : IsSort key s₂)
    {l₁ l₂ : List α} (hc : Cons key l₁) (p : l₁.Perm l₂) : s₁ l₁ = s₂ l₂ := by
  have p1 := (hs₁ l₁).1
  have p2 := (hs₂ l₂).1
  exact sorted_perm_eq key (hc.perm p1.symm) (p1.trans (p.trans p2.symm)) (hs₁ l₁).2 (hs₂ l₂).2

theorem insertBy_perm {α : Type} (key : α → Name) (x : α) (l : List α) : (insertBy key x l).Perm (x :: l) := by
  induction l with
  | nil => simp [insertBy]
  | cons y ys ih =>
    unfold insertBy
    by_cases h : nameLe (key x) (key y) = true
    · simp [h]
    · simp only [h, Bool.false_eq_true, if_false]
      exact (List.Perm.cons y ih).trans (List.Perm.swap x y ys)

theorem insertBy_sorted {α : Type} (key : α → Name) (x : α) (l : List α)
    (hs : l.Pairwise fun a b => key a ≤ key b) : (insertBy key x l).Pairwise fun a b => key a ≤ key b := by
  induction l with
  | nil => simp [insertBy]
  | cons y ys ih =>
    have hy := List.pairwise_cons.mp hs
    unfold insertBy
    by_cases h : nameLe (key x) (key y) = true
    · simp only [h, if_true]
      have hxy : key x ≤ key y := by simpa [nameLe] using h
      refine List.pairwise_cons.mpr ⟨?_, hs⟩
      intro z hz
      simp only [List.mem_cons] at hz
      rcases hz with rfl | hz
      · exact hxy
      · exact nle_trans hxy (hy.1 z hz)
    · simp only [h, Bool.false_eq_true, if_false]
      have hyx : key y ≤ key x := by
        rcases nle_total (key x) (key y) with h' | h'
        · exact absurd (by simpa [nameLe] using h') h
        · exact h'
      refine List.pairwise_cons.mpr ⟨?_, ih hy.2⟩
      intro z hz
      have := (insertBy_perm key x ys).mem_iff.mp hz
      simp only [List.mem_cons] at this
      rcases this with rfl | hz'
      · exact hyx
      · exact hy.1 z hz'

theorem msort_isSort {α : Type} (key : α → Name) : IsSort key (msort key) := by
  intro l
  induction l with
  | nil => simp [msort]
  | cons x xs ih =>
    unfold msort
    exact ⟨(insertBy_perm key x _).trans (List.Perm.cons x ih.1), insertBy_sorted key x _ ih.2⟩

/-! ### one directory -/

/-- Strictly ascending by name: sorted and free of duplicates. -/
def Strict {α : Type} (key : α → Name) (l : List α) : Prop := l.Pairwise fun a b => key a < key b

def Canonical (d : Dir) : Prop := Strict (·.name) d.files ∧ Strict (·.name) d.dirs ∧ Strict (·.name) d.syms

theorem canonWith_canonical (shared : Bool) {sf sd ss} (hf : IsSort (·.name) sf) (hd : IsSort (·.name) sd)
    (hs : IsSort (·.name) ss) (d : Dir) : Canonical (canonWith shared sf sd ss d) :=
  ⟨dedupFrom_strict _ _ _ (hf d.files).2, dedupFrom_strict _ _ _ (hd d.dirs).2, dedupFrom_strict _ _ _ (hs d.syms).2⟩

def ConsDir (d : Dir) : Prop := Cons (·.name) d.files ∧ Cons (·.name) d.dirs ∧ Cons (·.name) d.syms

def DirPerm (d₁ d₂ : Dir) : Prop := d₁.files.Perm d₂.files ∧ d₁.dirs.Perm d₂.dirs ∧ d₁.syms.Perm d₂.syms

/-- The canonical message does not depend on the insertion order nor on which legal sort is used. -/
theorem canonWith_perm (shared : Bool) {sf sd ss sf' sd' ss'}
    (hf : IsSort (·.name) sf) (hd : IsSort (·.name) sd) (hs : IsSort (·.name) ss)
    (hf' : IsSort (·.name) sf') (hd' : IsSort (·.name) sd') (hs' : IsSort (·.name) ss')
    {d₁ d₂ : Dir} (hc : ConsDir d₁) (p : DirPerm d₁ d₂) :
    canonWith shared sf sd ss d₁ = canonWith shared sf' sd' ss' d₂ := by
  unfold canonWith
  rw [sorts_agree _ hf hf' hc.1 p.1, sorts_agree _ hd hd' hc.2.1 p.2.1, sorts_agree _ hs hs' hc.2.2 p.2.2]

/-! ### filling in child digests -/

/-- What `fillWith` does to one node (when the child walk succeeds). -/
def fillOne (wc : Name → Option Walked) (H : Dir → Dg) (n : DirNode) : DirNode :=
  match n.dg with
  | some _ => n
  | none => ⟨n.name, (wc n.name).map fun w => H w.msg⟩

theorem fillOne_name (wc : Name → Option Walked) (H : Dir → Dg) (n : DirNode) : (fillOne wc H n).name = n.name := by
  unfold fillOne; cases n.dg <;> rfl

theorem fillWith_map (wc : Name → Option Walked) (H : Dir → Dg) (l : List DirNode) (r : List DirNode × List Dir)
    (h : fillWith wc H l = some r) : r.1 = l.map (fillOne wc H) := by
  induction l generalizing r with
  | nil => simp [fillWith] at h; subst h; rfl
  | cons n rest ih =>
    unfold fillWith at h
    cases hdg : n.dg with
    | some dg =>
      simp only [hdg] at h
      cases hr : fillWith wc H rest with
      | none => simp [hr] at h
      | some r' =>
        simp [hr] at h; subst h
        simp [ih r' hr, fillOne, hdg]
    | none =>
      simp only [hdg] at h
      cases hw : wc n.name with
      | none => simp [hw] at h
      | some w =>
        cases hr : fillWith wc H rest with
        | none => simp [hw, hr] at h
        | some r' =>
          simp [hw, hr] at h; subst h
          simp [ih r' hr, fillOne, hdg, hw]

/-- Every message emitted while filling comes from some child walk. -/
theorem fillWith_emitted (wc : Name → Option Walked) (H : Dir → Dg) (l : List DirNode) (r : List DirNode × List Dir)
    (h : fillWith wc H l = some r) : ∀ m ∈ r.2, ∃ c w, wc c = some w ∧ m ∈ w.emitted := by
  induction l generalizing r with
  | nil => simp [fillWith] at h; subst h; simp
  | cons n rest ih =>
    unfold fillWith at h
    cases hdg : n.dg with
    | some dg =>
      simp only [hdg] at h
      cases hr : fillWith wc H rest with
      | none => simp [hr] at h
      | some r' => simp [hr] at h; subst h; exact ih r' hr
    | none =>
      simp only [hdg] at h
      cases hw : wc n.name with
      | none => simp [hw] at h
      | some w =>
        cases hr : fillWith wc H rest with
        | none => simp [hw, hr] at h
        | some r' =>
          simp [hw, hr] at h; subst h
          intro m hm
          simp only [List.mem_append] at hm
          rcases hm with hm | hm
          · exact ⟨n.name, w, hw, hm⟩
          · exact ih r' hr m hm

/-- Two walks are interchangeable: same message (hence same digest), the same messages emitted up to order. -/
def WRel : Option Walked → Option Walked → Prop
  | some w₁, some w₂ => w₁.msg = w₂.msg ∧ w₁.emitted.Perm w₂.emitted
  | none, none => True
  | _, _ => False

def FRel : Option (List DirNode × List Dir) → Option (List DirNode × List Dir) → Prop
  | some r₁, some r₂ => r₁.1.Perm r₂.1 ∧ r₁.2.Perm r₂.2
  | none, none => True
  | _, _ => False

theorem FRel.trans {a b c} (h1 : FRel a b) (h2 : FRel b c) : FRel a c := by
  cases a <;> cases b <;> cases c <;> simp_all [FRel]
  exact ⟨h1.1.trans h2.1, h1.2.trans h2.2⟩

theorem FRel.refl (a) : FRel a a := by
  cases a <;> simp [FRel]

/-- Same list, interchangeable child walks. -/
theorem fillWith_wrel (wc₁ wc₂ : Name → Option Walked) (H : Dir → Dg) (hw : ∀ c, WRel (wc₁ c) (wc₂ c))
    (l : List DirNode) : FRel (fillWith wc₁ H l) (fillWith wc₂ H l) := by
  induction l with
  | nil => simp [fillWith, FRel]
  | cons n rest ih =>
    unfold fillWith
    cases hdg : n.dg with
    | some dg =>
      simp only
      cases h1 : fillWith wc₁ H rest <;> cases h2 : fillWith wc₂ H rest <;> simp_all [FRel]
    | none =>
      simp only
      have hn := hw n.name
      cases hw1 : wc₁ n.name <;> cases hw2 : wc₂ n.name <;> simp_all [WRel] <;>
        cases h1 : fillWith wc₁ H rest <;> cases h2 : fillWith wc₂ H rest <;> simp_all [FRel]
      exact List.Perm.append hn.2 ih.2

/-- Same child walks, permuted list. -/
theorem fillWith_perm (wc : Name → Option Walked) (H : Dir → Dg) {l₁ l₂ : List DirNode} (p : l₁.Perm l₂) :
    FRel (fillWith wc H l₁) (fillWith wc H l₂) := by
  induction p with
  | nil => exact FRel.refl _
  | cons n _ ih =>
    unfold fillWith
    cases hdg : n.dg with
    | some dg =>
      simp only
      rename_i l₁ l₂ _
      cases h1 : fillWith wc H l₁ <;> cases h2 : fillWith wc H l₂ <;> simp_all [FRel]
    | none =>
      simp only
      rename_i l₁ l₂ _
      cases hw1 : wc n.name <;> cases h1 : fillWith wc H l₁ <;> cases h2 : fillWith wc H l₂ <;> simp_all [FRel]
      exact List.Perm.append_left _ ih.2
  | swap a b l =>
    simp only [fillWith]
    cases ha : a.dg <;> cases hb : b.dg <;> simp only [] <;>
      cases hr : fillWith wc H l <;> (try cases hwa : wc a.name) <;> (try cases hwb : wc b.name) <;>
      simp_all [FRel, List.Perm.swap]
    · rename_i r wa wb
      have : (wb.emitted ++ (wa.emitted ++ r.2)).Perm (wa.emitted ++ (wb.emitted ++ r.2)) := by
        rw [← List.append_assoc, ← List.append_assoc]
        exact List.Perm.append_right _ List.perm_append_comm
      exact this
  | trans _ _ ih₁ ih₂ => exact ih₁.trans ih₂

/-! ### the whole tree -/

/-- Two builders hold the same directories, each with permuted insertion lists. -/
def BEquiv (b₁ b₂ : Builder) : Prop :=
  ∀ p, match b₁.get p, b₂.get p with
    | some d₁, some d₂ => DirPerm d₁ d₂
    | none, none => True
    | _, _ => False

/-- Duplicates are consistent in every directory of the builder. -/
def BCons (b : Builder) : Prop := ∀ p d, b.get p = some d → ConsDir d

theorem Cons.map_fillOne {l : List DirNode} (hc : Cons (·.name) l) (wc : Name → Option Walked) (H : Dir → Dg) :
    Cons (·.name) (l.map (fillOne wc H)) := by
  intro a ha b hb hab
  simp only [List.mem_map] at ha hb
  obtain ⟨a0, ha0, rfl⟩ := ha
  obtain ⟨b0, hb0, rfl⟩ := hb
  simp only [fillOne_name] at hab
  rw [hc a0 ha0 b0 hb0 hab]

theorem walkWith_perm (shared : Bool) {sf sd ss sf' sd' ss'}
    (hf : IsSort (·.name) sf) (hd : IsSort (·.name) sd) (hs : IsSort (·.name) ss)
    (hf' : IsSort (·.name) sf') (hd' : IsSort (·.name) sd') (hs' : IsSort (·.name) ss')
    (H : Dir → Dg) {b₁ b₂ : Builder} (he : BEquiv b₁ b₂) (hc : BCons b₁) :
    ∀ fuel p, WRel (walkWith shared sf sd ss H b₁ fuel p) (walkWith shared sf' sd' ss' H b₂ fuel p) := by
  intro fuel
  induction fuel with
  | zero => intro p; simp [walkWith, WRel]
  | succ fuel ih =>
    intro p
    unfold walkWith
    have hp := he p
    cases h1 : b₁.get p with
    | none =>
      cases h2 : b₂.get p with
      | none => simp [WRel]
      | some d₂ => simp [h1, h2] at hp
    | some d₁ =>
      cases h2 : b₂.get p with
      | none => simp [h1, h2] at hp
      | some d₂ =>
        simp only [h1, h2] at hp
        simp only
        have hfr : FRel (fillWith (fun c => walkWith shared sf sd ss H b₁ fuel (p ++ [c])) H d₁.dirs)
                        (fillWith (fun c => walkWith shared sf' sd' ss' H b₂ fuel (p ++ [c])) H d₂.dirs) :=
          (fillWith_wrel _ _ H (fun c => ih (p ++ [c])) d₁.dirs).trans (fillWith_perm _ H hp.2.1)
        cases hr1 : fillWith (fun c => walkWith shared sf sd ss H b₁ fuel (p ++ [c])) H d₁.dirs with
        | none =>
          cases hr2 : fillWith (fun c => walkWith shared sf' sd' ss' H b₂ fuel (p ++ [c])) H d₂.dirs with
          | none => simp [WRel]
          | some r₂ => simp [hr1, hr2, FRel] at hfr
        | some r₁ =>
          cases hr2 : fillWith (fun c => walkWith shared sf' sd' ss' H b₂ fuel (p ++ [c])) H d₂.dirs with
          | none => simp [hr1, hr2, FRel] at hfr
          | some r₂ =>
            simp only [hr1, hr2, FRel] at hfr
            obtain ⟨dr₁, em₁⟩ := r₁
            obtain ⟨dr₂, em₂⟩ := r₂
            simp only [WRel]
            have hcd := hc p d₁ h1
            have hmap := fillWith_map _ H d₁.dirs _ hr1
            simp only at hmap
            have hcons : ConsDir { d₁ with dirs := dr₁ } :=
              ⟨hcd.1, by rw [hmap]; exact hcd.2.1.map_fillOne _ H, hcd.2.2⟩
            have hperm : DirPerm { d₁ with dirs := dr₁ } { d₂ with dirs := dr₂ } := ⟨hp.1, hfr.1, hp.2.2⟩
            have hm := canonWith_perm shared hf hd hs hf' hd' hs' hcons hperm
            refine ⟨hm, ?_⟩
            rw [hm]
            exact List.Perm.append_right _ hfr.2

/-- Every message `walk` produces (the returned one and all emitted ones) is canonical. -/
theorem walkWith_canonical (shared : Bool) {sf sd ss}
    (hf : IsSort (·.name) sf) (hd : IsSort (·.name) sd) (hs : IsSort (·.name) ss) (H : Dir → Dg) (b : Builder) :
    ∀ fuel p w, walkWith shared sf sd ss H b fuel p = some w → Canonical w.msg ∧ ∀ m ∈ w.emitted, Canonical m := by
  intro fuel
  induction fuel with
  | zero => intro p w h; simp [walkWith] at h
  | succ fuel ih =>
    intro p w h
    unfold walkWith at h
    cases h1 : b.get p with
    | none => simp [h1] at h
    | some d =>
      simp only [h1] at h
      cases hr : fillWith (fun c => walkWith shared sf sd ss H b fuel (p ++ [c])) H d.dirs with
      | none => simp [hr] at h
      | some r =>
        obtain ⟨dr, em⟩ := r
        simp only [hr, Option.some.injEq] at h
        subst h
        have hcan := canonWith_canonical shared hf hd hs { d with dirs := dr }
        refine ⟨hcan, ?_⟩
        intro m hm
        simp only [List.mem_append, List.mem_singleton] at hm
        rcases hm with hm | hm
        · obtain ⟨c, w', hw', hmem⟩ := fillWith_emitted _ H d.dirs _ hr m hm
          exact (ih (p ++ [c]) w' hw').2 m hmem
        · subst hm; exact hcan

/-! ### `last` shared between the loops is harmless when the three kinds use different, non-empty names -/

theorem dedupFrom_last_irrelevant {α : Type} (key : α → Name) (last last' : Name) (l : List α)
    (h : ∀ y ∈ l, key y ≠ last) (h' : ∀ y ∈ l, key y ≠ last') :
    (dedupFrom key last l).1 = (dedupFrom key last' l).1 := by
  cases l with
  | nil => simp [dedupFrom]
  | cons x xs =>
    unfold dedupFrom
    simp [h x (by simp), h' x (by simp)]

/-- The value of `last` after a loop is its initial value or the name of an element. -/
theorem dedupFrom_last {α : Type} (key : α → Name) (last : Name) (l : List α) :
    (dedupFrom key last l).2 = last ∨ ∃ y ∈ l, (dedupFrom key last l).2 = key y := by
  induction l generalizing last with
  | nil => simp [dedupFrom]
  | cons x xs ih =>
    unfold dedupFrom
    by_cases hx : key x ≠ last
    · simp only [hx, ne_eq, not_false_eq_true, if_true]
      rcases ih (key x) with h | ⟨y, hy, h⟩
      · exact Or.inr ⟨x, by simp, h⟩
      · exact Or.inr ⟨y, by simp [hy], h⟩
    · simp only [hx, if_false]
      rcases ih last with h | ⟨y, hy, h⟩
      · exact Or.inl h
      · exact Or.inr ⟨y, by simp [hy], h⟩

/-! ### environment variables -/

theorem cons_of_nodup_keys {α : Type} (key : α → Name) (l : List α) (h : (l.map key).Nodup) : Cons key l := by
  induction l with
  | nil => intro a ha; simp at ha
  | cons x xs ih =>
    simp only [List.map_cons, List.nodup_cons, List.mem_map, not_exists, not_and] at h
    intro a ha b hb hab
    simp only [List.mem_cons] at ha hb
    rcases ha with rfl | ha <;> rcases hb with rfl | hb
    · rfl
    · exact absurd hab.symm (h.1 b hb)
    · exact absurd hab (h.1 a ha)
    · exact ih h.2 a ha b hb hab

theorem setVar_perm (k : Name) (v : List Nat) {e₁ e₂ : List (Name × List Nat)} (p : e₁.Perm e₂) :
    (setVar k v e₁).Perm (setVar k v e₂) := by
  unfold setVar
  have hany : e₁.any (·.1 == k) = e₂.any (·.1 == k) := by
    rw [Bool.eq_iff_iff]; simp only [List.any_eq_true]
    exact ⟨fun ⟨x, hx, h⟩ => ⟨x, p.mem_iff.mp hx, h⟩, fun ⟨x, hx, h⟩ => ⟨x, p.mem_iff.mpr hx, h⟩⟩
  rw [hany]
  by_cases h : e₂.any (·.1 == k) = true
  · simp only [h, if_true]; exact p.map _
  · simp only [h]; exact p.append_right _

theorem setVar_keys_nodup (k : Name) (v : List Nat) (e : List (Name × List Nat)) (h : (e.map (·.1)).Nodup) :
    ((setVar k v e).map (·.1)).Nodup := by
  unfold setVar
  by_cases hk : e.any (·.1 == k) = true
  · simp only [hk, if_true, List.map_map]
    have : ((fun x : Name × List Nat => x.1) ∘ fun e => if (e.1 == k) = true then (k, v) else e) = fun x => x.1 := by
      funext x; simp only [Function.comp]
      by_cases hx : (x.1 == k) = true
      · simp [hx]; exact (by simpa using hx : x.1 = k).symm
      · simp [hx]
    rw [this]; exact h
  · simp only [hk, Bool.false_eq_true, if_false, List.map_append, List.map_cons, List.map_nil]
    rw [List.nodup_append]
    refine ⟨h, by simp, ?_⟩
    intro a ha b hb
    simp only [List.mem_singleton] at hb
    subst hb
    intro he; subst he
    simp only [List.mem_map] at ha
    obtain ⟨x, hx, hxa⟩ := ha
    have : e.any (·.1 == a) = true := List.any_eq_true.mpr ⟨x, hx, by simp [hxa]⟩
    exact hk this

end PlzVerif.DirBuilder
