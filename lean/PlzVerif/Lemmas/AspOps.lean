import PlzVerif.Model.AspOps
/-!
Lemmas about the operator layer (C16).

* `interpretOps_eq_evalTree` — the transcription of `interpretOps` evaluates exactly the tree `aspGroup`, for any
  state, any operand evaluator (effects included), any operator semantics.
* `aspGroup_congr` — only the *order* of the precedence table matters.
* `climb_eq_aspGroup` — on chains without prefix operators, precedence climbing builds the same tree as asp
  whenever no operator "swallows" (`swallows = false`).
-/
namespace PlzVerif.Asp

variable {σ ε V X : Type}

/-! ### interpretOps evaluates aspGroup -/

theorem evalTree_node (S : OpsSem σ ε V X) (t : Tree V X) (o : OpE X) :
    evalTree S (t.node o) = (do let v ← evalTree S t; interpretOp S v o) := by
  cases o with
  | un u => simp [Tree.node, evalTree, interpretOp]
  | bin b e =>
    simp only [Tree.node, evalTree, interpretOp]

theorem get_bind_const {α : Type} (k : M σ ε α) : (do let _ ← (get : M σ ε σ); k) = k := by
  funext s; rfl

/-- Generalised statement: grouping onto an arbitrary tree `t` = evaluate `t`, then run `interpretOps`.
    Hypothesis: `IsTruthy` does not depend on the state (`tr` is its pure form). -/
theorem evalTree_aspGroup (S : OpsSem σ ε V X) (tr : V → Bool) (htr : ∀ s v, S.truthy s v = tr v)
    (rest : List (OpE X)) :
    ∀ (t : Tree V X) (o : OpE X),
      evalTree S (aspGroup S.prec t o rest) = (do let v ← evalTree S t; interpretOps S v o rest) := by
  induction rest with
  | nil => intro t o; simp [aspGroup, interpretOps, evalTree_node]
  | cons o1 rest ih =>
    intro t o0
    unfold aspGroup
    by_cases h : S.prec o0.op ≥ S.prec o1.op
    · simp only [h, if_true]
      rw [ih (t.node o0) o1, evalTree_node]
      simp only [bind_assoc]
      congr 1; funext v
      simp [interpretOps, h]
    · simp only [h, if_false]
      cases o0 with
      | un u =>
        simp only [evalTree]
        rw [ih t o1]
        simp only [bind_assoc]
        congr 1; funext v
        simp only [interpretOps, h, if_false]
      | bin b e =>
        simp only [evalTree]
        congr 1; funext v
        have h' : ¬ (S.prec (OpE.bin b e).op ≥ S.prec o1.op) := h
        simp only [interpretOps, h', if_false]
        rw [ih (.operand e) o1]
        simp only [evalTree, interpretOpVal, htr, get_bind_const]
        by_cases hl : b.lazy = true
        · by_cases ht : tr v = (b == .and_)
          · simp [hl, ht]
          · have : (tr v != (b == .and_)) = true := by
              cases hv : tr v <;> cases hb : (b == BinOp.and_) <;> simp_all
            simp [hl, ht, this]
        · simp [hl]

/-- **interpretOps is tree evaluation of asp's grouping** (head value `obj`, flat list `o :: rest`). -/
theorem interpretOps_eq_evalTree (S : OpsSem σ ε V X) (tr : V → Bool) (htr : ∀ s v, S.truthy s v = tr v)
    (obj : V) (o : OpE X) (rest : List (OpE X)) :
    interpretOps S obj o rest = evalTree S (aspGroup S.prec (.val obj) o rest) := by
  rw [evalTree_aspGroup S tr htr]; simp [evalTree]

/-! ### Only the order of precedences matters -/

theorem aspGroup_congr (p q : Op → Int) (hpq : ∀ a b, p a ≥ p b ↔ q a ≥ q b) (rest : List (OpE X)) :
    ∀ (t : Tree V X) (o : OpE X), aspGroup p t o rest = aspGroup q t o rest := by
  induction rest with
  | nil => intro t o; simp [aspGroup]
  | cons o1 rest ih =>
    intro t o0
    unfold aspGroup
    by_cases h : p o0.op ≥ p o1.op
    · have h' := (hpq _ _).1 h
      simp only [h, h', if_true, ih]
    · have h' : ¬ q o0.op ≥ q o1.op := fun c => h ((hpq _ _).2 c)
      simp only [h, h', if_false]
      cases o0 <;> simp [ih]

/-! ### Precedence climbing vs. asp on chains without prefix operators -/

/-- A chain without prefix operators, as a flat list. -/
def binFlat : List (BinOp × X) → List (OpE X)
  | [] => []
  | (b, x) :: r => OpE.bin b x :: binFlat r

def binChain : List (BinOp × X) → Chain X
  | [] => []
  | (b, x) :: r => (b, none, x) :: binChain r

theorem binFlat_eq_flatten (l : List (BinOp × X)) : binFlat l = flatten none (binChain l) := by
  induction l with
  | nil => simp [binFlat, binChain, flatten]
  | cons a r ih =>
    obtain ⟨b, x⟩ := a
    simp only [binFlat, binChain, flatten, List.nil_append, List.flatMap_cons] at ih ⊢
    simp [ih]

/-- `aspGroup` on a possibly empty flat list (`t` itself when empty). -/
def aspGroupL (prec : Op → Int) (t : Tree V X) : List (OpE X) → Tree V X
  | [] => t
  | o :: rest => aspGroup prec t o rest

theorem mem_binFlat {l : List (BinOp × X)} {o : BinOp × X} (h : o ∈ l) : OpE.bin o.1 o.2 ∈ binFlat l := by
  induction l with
  | nil => simp at h
  | cons c r ih =>
    obtain ⟨bc, xc⟩ := c
    rcases List.mem_cons.1 h with rfl | h'
    · simp [binFlat]
    · simp only [binFlat, List.mem_cons]; right; exact ih h'

theorem climb_eq_aspGroup (l : List (BinOp × X)) :
    ∀ (fuel : Nat) (minPrec : Int) (t : Tree V X),
      l.length < fuel →
      (∀ o ∈ l, minPrec ≤ pyPrecBin o.1) →
      swallows pyPrec (binFlat l) = false →
      climb fuel minPrec t (binChain l) = (aspGroupL pyPrec t (binFlat l), []) := by
  induction l using List.rec with
  | nil =>
    intro fuel minPrec t hf _ _
    cases fuel with
    | zero => simp at hf
    | succ f => simp [binChain, binFlat, climb, aspGroupL]
  | cons a r ih =>
    obtain ⟨b0, x0⟩ := a
    intro fuel minPrec t hf hmin hsw
    cases fuel with
    | zero => simp at hf
    | succ f =>
      have hf' : r.length < f := by simp at hf; omega
      have hb0 : minPrec ≤ pyPrecBin b0 := hmin (b0, x0) (by simp)
      have hnot : ¬ pyPrecBin b0 < minPrec := by omega
      simp only [binChain, climb, hnot, if_false, operandTree]
      cases r with
      | nil =>
        cases f with
        | zero => simp [binChain, climb, binFlat, aspGroupL, aspGroup, Tree.node]
        | succ f' => simp [binChain, climb, binFlat, aspGroupL, aspGroup, Tree.node]
      | cons a1 r' =>
        obtain ⟨b1, x1⟩ := a1
        simp only [binFlat, swallows, Bool.or_eq_false_iff, Bool.and_eq_false_iff, OpE.op, pyPrec] at hsw
        obtain ⟨hsw0, hswr⟩ := hsw
        have hswr' : swallows pyPrec (binFlat ((b1, x1) :: r')) = false := by simpa [binFlat] using hswr
        by_cases hge : pyPrecBin b0 ≥ pyPrecBin b1
        · -- the next operator does not bind tighter: the inner climb stops at once
          have hlt : pyPrecBin b1 < pyPrecBin b0 + 1 := by omega
          have inner : climb (V := V) f (pyPrecBin b0 + 1) (Tree.operand x0) (binChain ((b1, x1) :: r'))
              = (Tree.operand x0, binChain ((b1, x1) :: r')) := by
            cases f with
            | zero => simp [climb]
            | succ f' => simp [binChain, climb, hlt]
          rw [inner]
          have hmin' : ∀ o ∈ (b1, x1) :: r', minPrec ≤ pyPrecBin o.1 :=
            fun o ho => hmin o (List.mem_cons_of_mem _ ho)
          rw [ih f minPrec _ hf' hmin' hswr']
          simp [aspGroupL, binFlat, aspGroup, OpE.op, pyPrec, hge, Tree.node]
        · -- the next operator binds tighter: nothing later binds as weakly as b0, so the inner climb takes all
          have hlt : pyPrecBin b0 < pyPrecBin b1 := by omega
          have hall : ∀ o ∈ (b1, x1) :: r', pyPrecBin b0 + 1 ≤ pyPrecBin o.1 := by
            intro o ho
            rcases List.mem_cons.1 ho with rfl | ho
            · simp; omega
            · rcases hsw0 with hc | hc
              · exact absurd hlt (of_decide_eq_false hc)
              · have h1 := List.any_eq_false.1 hc _ (mem_binFlat ho)
                have h2 : ¬ pyPrecBin o.1 ≤ pyPrecBin b0 := by
                  intro hle; apply h1; exact decide_eq_true hle
                omega
          rw [ih f (pyPrecBin b0 + 1) _ hf' hall hswr']
          cases f with
          | zero => simp at hf'
          | succ f' =>
            simp [climb, aspGroupL, binFlat, aspGroup, OpE.op, pyPrec, hge]

/-! ### The class predicate only depends on the order of the table, too -/

theorem swallows_congr (p q : Op → Int) (hpq : ∀ a b, p a ≥ p b ↔ q a ≥ q b) :
    ∀ l : List (OpE X), swallows p l = swallows q l := by
  have hlt : ∀ a b, p a < p b ↔ q a < q b := by
    intro a b
    have h1 := hpq a b
    constructor
    · intro h
      by_cases h' : q a < q b
      · exact h'
      · have := h1.2 (by omega); omega
    · intro h
      by_cases h' : p a < p b
      · exact h'
      · have := h1.1 (by omega); omega
  have hle : ∀ a b, p a ≤ p b ↔ q a ≤ q b := fun a b => hpq b a
  intro l
  induction l with
  | nil => rfl
  | cons o0 r ih =>
    cases r with
    | nil => rfl
    | cons o1 r' =>
      simp only [swallows]
      rw [ih]
      congr 1
      have e1 : decide (p o0.op < p o1.op) = decide (q o0.op < q o1.op) := by
        simp only [hlt]
      have e2 : (r'.any fun o => decide (p o.op ≤ p o0.op)) = (r'.any fun o => decide (q o.op ≤ q o0.op)) := by
        congr 1; funext o; simp only [hle]
      rw [e1, e2]

/-- Two binary operators never swallow. -/
theorem swallows_two (p : Op → Int) (a b : OpE X) : swallows p [a, b] = false := by
  simp [swallows]

/-- Every operator binds at least as tightly as the one after it. -/
def NonIncreasing (p : Op → Int) : List (OpE X) → Prop
  | [] => True
  | [_] => True
  | a :: b :: r => p a.op ≥ p b.op ∧ NonIncreasing p (b :: r)

/-- Non-increasing precedences never swallow. -/
theorem swallows_of_nonincreasing (p : Op → Int) :
    ∀ l : List (OpE X), NonIncreasing p l → swallows p l = false := by
  intro l
  induction l with
  | nil => intro _; rfl
  | cons o0 r ih =>
    intro h
    cases r with
    | nil => rfl
    | cons o1 r' =>
      obtain ⟨h01, hr⟩ := h
      simp only [swallows, ih hr, Bool.or_false, Bool.and_eq_false_iff, decide_eq_false_iff_not]
      left; omega

end PlzVerif.Asp
