import PlzVerif.Model.AspOps
/-!
Lemmas about the operator layer (C16).

* `interpretOps_eq_evalTree` — the transcription of `interpretOps` evaluates exactly the tree `aspGroup`, for any
  state, any operand evaluator (effects included), any operator semantics.
* `aspGroup_congr` — only the *order* of the precedence table matters.
* `climb_eq_aspGroup` — on chains without prefix operators, precedence climbing builds the same tree as asp
  whenever no operator "swallows" (`swallows = false`).
-/
namespace PlzVerif.Asp

variable {σ ε V X : Type}

/-! ### interpretOps evaluates aspGroup -/

theorem evalTree_node (S : OpsSem σ ε V X) (t : Tree V X) (o : OpE X) :
    evalTree S (t.node o) = (do let v ← evalTree S t; interpretOp S v o) := by
  cases o with
  | un u => simp [Tree.node, evalTree, interpretOp]
  | bin b e =>
    simp only [Tree.node, evalTree, interpretOp]

theorem get_bind_const {α : Type} (k : M σ ε α) : (do let _ ← (get : M σ ε σ); k) = k := by
  funext s; rfl

/-- Generalised statement: grouping onto an arbitrary tree `t` = evaluate `t`, then run `interpretOps`.
    Hypothesis: `IsTruthy` does not depend on the state (`tr` is its pure form). -/
theorem evalTree_aspGroup (S : OpsSem σ ε V X) (tr : V → Bool) (htr : ∀ s v, S.truthy s v = tr v)
    (rest : List (OpE X)) :
    ∀ (t : Tree V X) (o : OpE X),
      evalTree S (aspGroup S.prec t o rest) = (do let v ← evalTree S t; interpretOps S v o rest) := by
  induction rest with
  | nil => intro t o; simp [aspGroup, interpretOps, evalTree_node]
  | cons o1 rest ih =>
    intro t o0
    unfold aspGroup
    by_cases h : S.prec o0.op ≥ S.prec o1.op
    · simp only [h, if_true]
      rw [ih (t.node o0) o1, evalTree_node]
      simp only [bind_assoc]
      congr 1; funext v
      simp [interpretOps, h]
    · simp only [h, if_false]
      cases o0 with
      | un u =>
        simp only [evalTree]
        rw [ih t o1]
        simp only [bind_assoc]
        congr 1; funext v
        simp only [interpretOps, h, if_false]
      | bin b e =>
        simp only [evalTree]
        congr 1; funext v
        have h' : ¬ (S.prec (OpE.bin b e).op ≥ S.prec o1.op) := h
        simp only [interpretOps, h', if_false]
        rw [ih (.operand e) o1]
        simp only [evalTree, interpretOpVal, htr, get_bind_const]
        by_cases hl : b.lazy = true
        · by_cases ht : tr v = (b == .and_)
          · simp [hl, ht]
          · have : (tr v != (b == .and_)) = true := by
              cases hv : tr v <;> cases hb : (b == BinOp.and_) <;> simp_all
            simp [hl, ht, this]
        · simp [hl]

/-- **interpretOps is tree evaluation of asp's grouping** (head value `obj`, flat list `o :: rest`). -/
theorem interpretOps_eq_evalTree (S : OpsSem σ ε V X) (tr : V → Bool) (htr : ∀ s v, S.truthy s v = tr v)
    (obj : V) (o : OpE X) (rest : List (OpE X)) :
    interpretOps S obj o rest = evalTree S (aspGroup S.prec (.val obj) o rest) := by
  rw [evalTree_aspGroup S tr htr]; simp [evalTree]

/-! ### The same without assuming that truthiness ignores the state

`interpretOps` asks `obj.IsTruthy()` before it evaluates the rest of the list and again afterwards (through
`interpretOp` on the constant `nobj`).  A dict's answer depends on the heap, so the two answers can differ when an
operand changes that dict; tree evaluation asks once.  The equality therefore needs: evaluating operands and strict
operators keeps the truthiness of values (`Stable`).  `Props/C16.lean` has the program where it fails otherwise. -/

/-- A successful run of `m` never changes the truthiness of a value. -/
def KeepsTruth (S : OpsSem σ ε V X) {α : Type} (m : M σ ε α) : Prop :=
  ∀ s a s', m.run s = .ok (a, s') → ∀ v, S.truthy s' v = S.truthy s v

/-- The operand evaluator and the strict operators keep truthiness: no operand empties or fills a dict that is
    being tested by an enclosing `and` / `or`. -/
structure Stable (S : OpsSem σ ε V X) : Prop where
  ev : ∀ x, KeepsTruth S (S.ev x)
  un : ∀ u v, KeepsTruth S (S.un u v)
  bin : ∀ b v w, KeepsTruth S (S.bin b v w)

theorem KeepsTruth.pure (S : OpsSem σ ε V X) {α : Type} (a : α) : KeepsTruth S (pure a : M σ ε α) := by
  intro s a' s' h v
  simp only [StateT.run, Pure.pure, StateT.pure, Except.pure] at h
  cases h; rfl

theorem KeepsTruth.bind (S : OpsSem σ ε V X) {α β : Type} {x : M σ ε α} {f : α → M σ ε β}
    (hx : KeepsTruth S x) (hf : ∀ a, KeepsTruth S (f a)) : KeepsTruth S (x >>= f) := by
  intro s b s' h v
  simp only [StateT.run, Bind.bind, StateT.bind, Except.bind] at h
  cases hx0 : x s with
  | error e => rw [hx0] at h; cases h
  | ok p =>
    obtain ⟨a, s1⟩ := p
    rw [hx0] at h
    rw [hf a s1 b s' h v, hx s a s1 hx0 v]

theorem KeepsTruth.getBind (S : OpsSem σ ε V X) {α : Type} {f : σ → M σ ε α} (hf : ∀ s, KeepsTruth S (f s)) :
    KeepsTruth S ((get : M σ ε σ) >>= f) := by
  intro s b s' h v
  exact hf s s b s' h v

theorem KeepsTruth.ite (S : OpsSem σ ε V X) {α : Type} {c : Prop} [Decidable c] {a b : M σ ε α}
    (ha : KeepsTruth S a) (hb : KeepsTruth S b) : KeepsTruth S (if c then a else b) := by
  split <;> assumption

theorem KeepsTruth.interpretOp (S : OpsSem σ ε V X) (hS : Stable S) (obj : V) (o : OpE X) :
    KeepsTruth S (interpretOp S obj o) := by
  cases o with
  | un u => exact hS.un u obj
  | bin b e =>
    simp only [Asp.interpretOp]
    split
    · exact KeepsTruth.getBind S fun s => KeepsTruth.ite S (hS.ev e) (KeepsTruth.pure S obj)
    · exact KeepsTruth.bind S (hS.ev e) fun w => hS.bin b obj w

theorem KeepsTruth.interpretOpVal (S : OpsSem σ ε V X) (hS : Stable S) (obj : V) (b : BinOp) (nobj : V) :
    KeepsTruth S (interpretOpVal S obj b nobj) := by
  simp only [Asp.interpretOpVal]
  split
  · exact KeepsTruth.getBind S fun s => KeepsTruth.ite S (KeepsTruth.pure S _) (KeepsTruth.pure S _)
  · exact hS.bin b obj nobj

theorem KeepsTruth.interpretOps (S : OpsSem σ ε V X) (hS : Stable S) (rest : List (OpE X)) :
    ∀ (obj : V) (o : OpE X), KeepsTruth S (interpretOps S obj o rest) := by
  induction rest with
  | nil => intro obj o; simp only [Asp.interpretOps]; exact KeepsTruth.interpretOp S hS obj o
  | cons o1 rest ih =>
    intro obj o0
    simp only [Asp.interpretOps]
    split
    · exact KeepsTruth.bind S (KeepsTruth.interpretOp S hS obj o0) fun v => ih v o1
    · cases o0 with
      | un u => exact KeepsTruth.bind S (ih obj o1) fun v => hS.un u v
      | bin b e =>
        simp only []
        exact KeepsTruth.getBind S fun s => KeepsTruth.ite S (KeepsTruth.pure S obj)
          (KeepsTruth.bind S (hS.ev e) fun w => KeepsTruth.bind S (ih w o1) fun nobj =>
            KeepsTruth.interpretOpVal S hS obj b nobj)

/-- The one place where `interpretOps` asks for the truthiness of the same value twice: if the computation in
    between keeps truthiness, the second answer is the first. -/
theorem lazy_recheck (S : OpsSem σ ε V X) (Xc : M σ ε V) (hX : KeepsTruth S Xc) (v : V) (isAnd : Bool) (s0 : σ)
    (h : (S.truthy s0 v == isAnd) = true) :
    (Xc >>= fun nobj => (do let s ← (get : M σ ε σ); if S.truthy s v == isAnd then Pure.pure nobj else Pure.pure v)) s0
      = Xc s0 := by
  simp only [Bind.bind, StateT.bind, Except.bind]
  cases hx : Xc s0 with
  | error e => rfl
  | ok p =>
    obtain ⟨nobj, s1⟩ := p
    have ht := hX s0 nobj s1 hx v
    simp [get, getThe, MonadStateOf.get, StateT.get, Pure.pure, StateT.pure, Except.pure, ht, h]

/-- Generalised statement: grouping onto an arbitrary tree `t` = evaluate `t`, then run `interpretOps`. -/
theorem evalTree_aspGroup_stable (S : OpsSem σ ε V X) (hS : Stable S) (rest : List (OpE X)) :
    ∀ (t : Tree V X) (o : OpE X),
      evalTree S (aspGroup S.prec t o rest) = (do let v ← evalTree S t; interpretOps S v o rest) := by
  induction rest with
  | nil => intro t o; simp [aspGroup, Asp.interpretOps, evalTree_node]
  | cons o1 rest ih =>
    intro t o0
    unfold aspGroup
    by_cases h : S.prec o0.op ≥ S.prec o1.op
    · simp only [h, if_true]
      rw [ih (t.node o0) o1, evalTree_node]
      simp only [bind_assoc]
      congr 1; funext v
      simp [Asp.interpretOps, h]
    · simp only [h, if_false]
      cases o0 with
      | un u =>
        simp only [evalTree]
        rw [ih t o1]
        simp only [bind_assoc]
        congr 1; funext v
        simp only [Asp.interpretOps, h, if_false]
      | bin b e =>
        simp only [evalTree]
        congr 1; funext v
        have h' : ¬ (S.prec (OpE.bin b e).op ≥ S.prec o1.op) := h
        simp only [Asp.interpretOps, h', if_false]
        rw [ih (.operand e) o1]
        simp only [evalTree, Asp.interpretOpVal]
        by_cases hl : b.lazy = true
        · simp only [hl, if_true, Bool.true_and]
          funext s0
          have hX : KeepsTruth S (do let w ← S.ev e; Asp.interpretOps S w o1 rest) :=
            KeepsTruth.bind S (hS.ev e) fun w => KeepsTruth.interpretOps S hS rest w o1
          by_cases ht : (S.truthy s0 v == (b == .and_)) = true
          · have hne : (S.truthy s0 v != (b == .and_)) = false := by
              cases hv : S.truthy s0 v <;> cases hb : (b == BinOp.and_) <;> simp_all
            have := lazy_recheck S _ hX v (b == .and_) s0 ht
            simp only [bind_assoc] at this
            simp [Bind.bind, StateT.bind, get, getThe, MonadStateOf.get, StateT.get, Except.bind, Pure.pure,
              Except.pure, ht, hne] at this ⊢
            exact this.symm
          · have hne : (S.truthy s0 v != (b == .and_)) = true := by
              cases hv : S.truthy s0 v <;> cases hb : (b == BinOp.and_) <;> simp_all
            simp [Bind.bind, StateT.bind, get, getThe, MonadStateOf.get, StateT.get, Except.bind, Pure.pure,
              Except.pure, ht, hne]
        · simp [hl, get_bind_const]

/-- **interpretOps is tree evaluation of asp's grouping** whenever operands and strict operators keep truthiness. -/
theorem interpretOps_eq_evalTree_stable (S : OpsSem σ ε V X) (hS : Stable S)
    (obj : V) (o : OpE X) (rest : List (OpE X)) :
    interpretOps S obj o rest = evalTree S (aspGroup S.prec (.val obj) o rest) := by
  rw [evalTree_aspGroup_stable S hS]; simp [evalTree]

/-- A truthiness that does not look at the state is kept by everything. -/
theorem Stable.of_pure (S : OpsSem σ ε V X) (tr : V → Bool) (htr : ∀ s v, S.truthy s v = tr v) : Stable S :=
  ⟨fun _ _ _ _ _ v => by rw [htr, htr], fun _ _ _ _ _ _ v => by rw [htr, htr], fun _ _ _ _ _ _ _ v => by rw [htr, htr]⟩

/-! ### Only the order of precedences matters -/

theorem aspGroup_congr (p q : Op → Int) (hpq : ∀ a b, p a ≥ p b ↔ q a ≥ q b) (rest : List (OpE X)) :
    ∀ (t : Tree V X) (o : OpE X), aspGroup p t o rest = aspGroup q t o rest := by
  induction rest with
  | nil => intro t o; simp [aspGroup]
  | cons o1 rest ih =>
    intro t o0
    unfold aspGroup
    by_cases h : p o0.op ≥ p o1.op
    · have h' := (hpq _ _).1 h
      simp only [h, h', if_true, ih]
    · have h' : ¬ q o0.op ≥ q o1.op := fun c => h ((hpq _ _).2 c)
      simp only [h, h', if_false]
      cases o0 <;> simp [ih]

/-! ### Precedence climbing vs. asp on chains without prefix operators -/

/-- A chain without prefix operators, as a flat list. -/
def binFlat : List (BinOp × X) → List (OpE X)
  | [] => []
  | (b, x) :: r => OpE.bin b x :: binFlat r

def binChain : List (BinOp × X) → Chain X
  | [] => []
  | (b, x) :: r => (b, none, x) :: binChain r

theorem binFlat_eq_flatten (l : List (BinOp × X)) : binFlat l = flatten none (binChain l) := by
  induction l with
  | nil => simp [binFlat, binChain, flatten]
  | cons a r ih =>
    obtain ⟨b, x⟩ := a
    simp only [binFlat, binChain, flatten, List.nil_append, List.flatMap_cons] at ih ⊢
    simp [ih]

/-- `aspGroup` on a possibly empty flat list (`t` itself when empty). -/
def aspGroupL (prec : Op → Int) (t : Tree V X) : List (OpE X) → Tree V X
  | [] => t
  | o :: rest => aspGroup prec t o rest

theorem mem_binFlat {l : List (BinOp × X)} {o : BinOp × X} (h : o ∈ l) : OpE.bin o.1 o.2 ∈ binFlat l := by
  induction l with
  | nil => simp at h
  | cons c r ih =>
    obtain ⟨bc, xc⟩ := c
    rcases List.mem_cons.1 h with rfl | h'
    · simp [binFlat]
    · simp only [binFlat, List.mem_cons]; right; exact ih h'

theorem climb_eq_aspGroup (l : List (BinOp × X)) :
    ∀ (fuel : Nat) (minPrec : Int) (t : Tree V X),
      l.length < fuel →
      (∀ o ∈ l, minPrec ≤ pyPrecBin o.1) →
      swallows pyPrec (binFlat l) = false →
      climb fuel minPrec t (binChain l) = (aspGroupL pyPrec t (binFlat l), []) := by
  induction l using List.rec with
  | nil =>
    intro fuel minPrec t hf _ _
    cases fuel with
    | zero => simp at hf
    | succ f => simp [binChain, binFlat, climb, aspGroupL]
  | cons a r ih =>
    obtain ⟨b0, x0⟩ := a
    intro fuel minPrec t hf hmin hsw
    cases fuel with
    | zero => simp at hf
    | succ f =>
      have hf' : r.length < f := by simp at hf; omega
      have hb0 : minPrec ≤ pyPrecBin b0 := hmin (b0, x0) (by simp)
      have hnot : ¬ pyPrecBin b0 < minPrec := by omega
      simp only [binChain, climb, hnot, if_false, operandTree]
      cases r with
      | nil =>
        cases f with
        | zero => simp [binChain, climb, binFlat, aspGroupL, aspGroup, Tree.node]
        | succ f' => simp [binChain, climb, binFlat, aspGroupL, aspGroup, Tree.node]
      | cons a1 r' =>
        obtain ⟨b1, x1⟩ := a1
        simp only [binFlat, swallows, Bool.or_eq_false_iff, Bool.and_eq_false_iff, OpE.op, pyPrec] at hsw
        obtain ⟨hsw0, hswr⟩ := hsw
        have hswr' : swallows pyPrec (binFlat ((b1, x1) :: r')) = false := by simpa [binFlat] using hswr
        by_cases hge : pyPrecBin b0 ≥ pyPrecBin b1
        · -- the next operator does not bind tighter: the inner climb stops at once
          have hlt : pyPrecBin b1 < pyPrecBin b0 + 1 := by omega
          have inner : climb (V := V) f (pyPrecBin b0 + 1) (Tree.operand x0) (binChain ((b1, x1) :: r'))
              = (Tree.operand x0, binChain ((b1, x1) :: r')) := by
            cases f with
            | zero => simp [climb]
            | succ f' => simp [binChain, climb, hlt]
          rw [inner]
          have hmin' : ∀ o ∈ (b1, x1) :: r', minPrec ≤ pyPrecBin o.1 :=
            fun o ho => hmin o (List.mem_cons_of_mem _ ho)
          rw [ih f minPrec _ hf' hmin' hswr']
          simp [aspGroupL, binFlat, aspGroup, OpE.op, pyPrec, hge, Tree.node]
        · -- the next operator binds tighter: nothing later binds as weakly as b0, so the inner climb takes all
          have hlt : pyPrecBin b0 < pyPrecBin b1 := by omega
          have hall : ∀ o ∈ (b1, x1) :: r', pyPrecBin b0 + 1 ≤ pyPrecBin o.1 := by
            intro o ho
            rcases List.mem_cons.1 ho with rfl | ho
            · simp; omega
            · rcases hsw0 with hc | hc
              · exact absurd hlt (of_decide_eq_false hc)
              · have h1 := List.any_eq_false.1 hc _ (mem_binFlat ho)
                have h2 : ¬ pyPrecBin o.1 ≤ pyPrecBin b0 := by
                  intro hle; apply h1; exact decide_eq_true hle
                omega
          rw [ih f (pyPrecBin b0 + 1) _ hf' hall hswr']
          cases f with
          | zero => simp at hf'
          | succ f' =>
            simp [climb, aspGroupL, binFlat, aspGroup, OpE.op, pyPrec, hge]

/-! ### The class predicate only depends on the order of the table, too -/

theorem swallows_congr (p q : Op → Int) (hpq : ∀ a b, p a ≥ p b ↔ q a ≥ q b) :
    ∀ l : List (OpE X), swallows p l = swallows q l := by
  have hlt : ∀ a b, p a < p b ↔ q a < q b := by
    intro a b
    have h1 := hpq a b
    constructor
    · intro h
      by_cases h' : q a < q b
      · exact h'
      · have := h1.2 (by omega); omega
    · intro h
      by_cases h' : p a < p b
      · exact h'
      · have := h1.1 (by omega); omega
  have hle : ∀ a b, p a ≤ p b ↔ q a ≤ q b := fun a b => hpq b a
  intro l
  induction l with
  | nil => rfl
  | cons o0 r ih =>
    cases r with
    | nil => rfl
    | cons o1 r' =>
      simp only [swallows]
      rw [ih]
      congr 1
      have e1 : decide (p o0.op < p o1.op) = decide (q o0.op < q o1.op) := by
        simp only [hlt]
      have e2 : (r'.any fun o => decide (p o.op ≤ p o0.op)) = (r'.any fun o => decide (q o.op ≤ q o0.op)) := by
        congr 1; funext o; simp only [hle]
      rw [e1, e2]

/-- Two binary operators never swallow. -/
theorem swallows_two (p : Op → Int) (a b : OpE X) : swallows p [a, b] = false := by
  simp [swallows]

/-- Every operator binds at least as tightly as the one after it. -/
def NonIncreasing (p : Op → Int) : List (OpE X) → Prop
  | [] => True
  | [_] => True
  | a :: b :: r => p a.op ≥ p b.op ∧ NonIncreasing p (b :: r)

/-- Non-increasing precedences never swallow. -/
theorem swallows_of_nonincreasing (p : Op → Int) :
    ∀ l : List (OpE X), NonIncreasing p l → swallows p l = false := by
  intro l
  induction l with
  | nil => intro _; rfl
  | cons o0 r ih =>
    intro h
    cases r with
    | nil => rfl
    | cons o1 r' =>
      obtain ⟨h01, hr⟩ := h
      simp only [swallows, ih hr, Bool.or_false, Bool.and_eq_false_iff, decide_eq_false_iff_not]
      left; omega

end PlzVerif.Asp
