import PlzVerif.Lemmas.SchedLive
import PlzVerif.Lemmas.SchedWake
/-! C05: no deadlock on acyclic graphs — unless the run is over, some goroutine can take a step. -/
namespace PlzVerif.Sched

variable (c : Cfg)

/-- `plz.Run` returns: the queues are closed and drained and every worker has finished -/
def Final (s : St) : Prop := s.stopped = true ∧ (∀ m, s.chan m = none) ∧ (∀ w, s.ws w = none)

def Acyclic : Prop := ∃ h : T → Nat, ∀ t d, d ∈ c.deps t → h d < h t

def CanStep (s : St) : Prop := ∃ a s', Internal a ∧ fire c s a = some s'

/-- until `Stop`, at least one task is outstanding -/
def Pos (s : St) : Prop := s.stopped = false → 1 ≤ s.numPending

theorem qrt_pos {s : St} (h : Pos s) (t : T) (f : Bool) : Pos (qrt c s t f) := by
  unfold qrt spawn Pos at *
  repeat' split
  all_goals (intro hs; have := h hs; first | exact this | (show (1:Int) ≤ s.numPending + 1; omega))

theorem taskDone_pos (s : St) : Pos (taskDone s) := by
  intro hs
  simp only [taskDone, Bool.or_eq_false_iff, decide_eq_false_iff_not] at hs ⊢
  omega

theorem step_pos {s s' : St} (hp : Pos s) (h : Step c s s') : Pos s' := by
  obtain ⟨a, h⟩ := h
  cases a with
  | activate t force =>
    simp only [fire] at h
    split at h
    · cases h; exact qrt_pos c hp t force
    · cases h
  | queuer i =>
    simp only [fire] at h
    split at h
    · rename_i q hq
      unfold queuerStep at h
      split at h
      · cases h
        have := qrt_pos c hp ‹T› q.force
        exact this
      · cases h; exact hp
      · split at h
        · split at h <;> (cases h; exact hp)
        · cases h
      · split at h
        · cases h; intro hs; have := hp hs; show 1 ≤ s.numPending + 1; omega
        · cases h; exact hp
      · cases h; exact taskDone_pos _
      · split at h <;> first | (cases h; exact hp) | cases h
    · cases h
  | queuerAbort i =>
    simp only [fire] at h
    split at h
    · split at h
      · cases h; intro hs; cases hs
      · cases h
    · cases h
  | take m => simp only [fire] at h; split at h <;> first | (cases h; exact hp) | cases h
  | drop m =>
    simp only [fire] at h
    split at h
    · split at h <;> first | (cases h; exact hp) | cases h
    · cases h
  | workerStart w => simp only [fire] at h; split at h <;> first | (cases h; exact hp) | cases h
  | workerOk w ts cached =>
    simp only [fire] at h
    split at h
    · split at h <;> first | (cases h; exact hp) | cases h
    · cases h
  | workerFail w => simp only [fire] at h; split at h <;> first | (cases h; exact hp) | cases h
  | workerDone w =>
    simp only [fire] at h
    split at h
    · cases h; exact taskDone_pos _
    · cases h
  | initDone =>
    simp only [fire] at h
    split at h
    · cases h
    · cases h; exact taskDone_pos _
  | stop => simp only [fire] at h; cases h; intro hs; cases hs
  | subWait t =>
    simp only [fire] at h
    split at h
    · split at h
      · cases h; exact hp
      · cases h
        have := qrt_pos c hp t true
        generalize qrt c s t true = s1 at this
        intro hs; have := this hs; show 1 ≤ s1.numPending + 1; omega
    · cases h
  | cycleCheck =>
    simp only [fire] at h
    split at h
    · cases h; intro hs; cases hs
    · cases h

theorem reach_pos {s : St} (h : Reach c s) : Pos s := by
  induction h with
  | init => intro _; simp [St.init]
  | step _ hs ih => exact step_pos c ih hs

theorem sumTo_pos {f : Nat → Nat} {n : Nat} (h : 1 ≤ sumTo f n) : ∃ i, i < n ∧ 1 ≤ f i := by
  induction n with
  | zero => simp [sumTo] at h
  | succ k ih =>
    simp only [sumTo] at h
    by_cases hk : 1 ≤ f k
    · exact ⟨k, Nat.lt_succ_self k, hk⟩
    · obtain ⟨i, hi, hf⟩ := ih (by omega)
      exact ⟨i, Nat.lt_succ_of_lt hi, hf⟩

theorem ind_pos {α : Type} {x : Option α} (h : 1 ≤ ind x) : ∃ v, x = some v := by
  cases x with
  | none => simp [ind] at h
  | some v => exact ⟨v, rfl⟩

theorem canStep_of {s : St} {a : Action} (hi : Internal a) (h : (fire c s a).isSome = true) : CanStep c s := by
  cases hf : fire c s a with
  | none => simp [hf] at h
  | some s' => exact ⟨a, s', hi, hf⟩

theorem queuerStep_some (s : St) (i : Nat) (q : Queuer)
    (h : ∀ d r, q.ph = .waitDeps (d :: r) → s.fin d = true)
    (hw : ∀ d, q.ph = .waitTarget d → s.woken d = true) : (queuerStep c s i q).isSome = true := by
  unfold queuerStep
  split
  · rfl
  · rfl
  · rename_i d r hph
    rw [h d r hph]
    simp only [if_true]
    split <;> rfl
  · split <;> rfl
  · rfl
  · rename_i d hph
    rw [hw d hph]
    rfl

theorem queuer_enabled {s : St} (i : Nat) (q : Queuer) (hq : s.qs i = some q)
    (h : ∀ d r, q.ph = .waitDeps (d :: r) → s.fin d = true)
    (hw : ∀ d, q.ph = .waitTarget d → s.woken d = true) : CanStep c s :=
  canStep_of c (a := .queuer i) trivial (by simp only [fire, hq]; exact queuerStep_some c s i q h hw)

/-- a worker can always take its next step -/
theorem worker_can_step (s : St) (w : Nat) (x : Worker) (hw : s.ws w = some x) : CanStep c s := by
  obtain ⟨t, ph⟩ := x
  cases ph with
  | taken => exact canStep_of c (a := .workerStart w) trivial (by simp [fire, hw])
  | building => exact canStep_of c (a := .workerFail w) trivial (by simp [fire, hw])
  | finished => exact canStep_of c (a := .workerDone w) trivial (by simp [fire, hw])

/-- a queuer can take its next step, or the dependency it waits for can make progress — by induction along
    the (acyclic) dependency order -/
theorem not_ext_of_not_stopped {s : St} (h1 : Inv c s) (hs : s.stopped = false) : s.ext = false := by
  cases h : s.ext with
  | false => rfl
  | true => have := h1.extStopped h; rw [hs] at this; cases this

theorem queuer_can_step {s : St} (h1 : Inv c s) (h3 : Inv3 c s) (hs : s.stopped = false)
    (hgt : T → Nat) (hacy : ∀ t d, d ∈ c.deps t → hgt d < hgt t) :
    ∀ k i q, s.qs i = some q → (∀ d, q.ph ≠ .waitTarget d) → hgt q.t ≤ k → CanStep c s := by
  intro k
  induction k with
  | zero =>
    intro i q hq hnw hk
    apply queuer_enabled c i q hq
    · intro d r hph
      have hd := h3.waitSub i q (d :: r) hq hph d List.mem_cons_self
      have := hacy q.t d hd
      omega
    · intro d hph; exact absurd hph (hnw d)
  | succ k ih =>
    intro i q hq hnw hk
    by_cases hall : ∀ d r, q.ph = .waitDeps (d :: r) → s.fin d = true
    · exact queuer_enabled c i q hq hall (fun d hph => absurd hph (hnw d))
    · -- the dependency it waits for has not finished: somebody is responsible for that one
      have ⟨d, hall⟩ := Classical.not_forall.mp hall
      have ⟨r, hall⟩ := Classical.not_forall.mp hall
      have ⟨hph, hf⟩ := Classical.not_imp.mp hall
      have hd := h3.waitSub i q (d :: r) hq hph d List.mem_cons_self
      have hlt := hacy q.t d hd
      have hbld := h1.waitBuilding i q (d :: r) hq hph
      have hrk := h3.waitedDeps i q (d :: r) hq hbld hph d hd
      have hterm := h1.finTerm d
      have hns := h1.notStopped d
      have hcases : s.st d = .active ∨ s.st d = .pending ∨ s.st d = .building := by
        revert hrk hterm hns hf
        cases s.st d <;> simp [TS.rank, TS.terminal, TS.isBuilt]
      rcases hcases with ha | hp | hb
      · have hl := h3.activeHasQueuer (not_ext_of_not_stopped c h1 hs) d ha
        cases hq' : s.qs (s.bq d) with
        | none => rw [hq'] at hl; exact absurd hl (by simp)
        | some q' =>
          rw [hq'] at hl
          simp only [liveFor_some] at hl
          exact ih (s.bq d) q' hq'
            (fun d' hph => by have := h1.wtNotBuilding _ _ d' hq' hph; rw [hl.2.1] at this; cases this)
            (by rw [hl.1]; omega)
      · rcases h3.pendingHasToken (not_ext_of_not_stopped c h1 hs) d hp with hm | hw
        · exact canStep_of c (a := .take (s.tm d)) trivial (by simp [fire, hm])
        · exact worker_can_step c s _ _ hw
      · exact worker_can_step c s _ _ (h3.buildingHasWorker d hb)

/-- somebody is responsible for a target that is Active, Pending or Building -/
theorem target_progress {s : St} (h1 : Inv c s) (h3 : Inv3 c s) (hs : s.stopped = false)
    (hgt : T → Nat) (hacy : ∀ t d, d ∈ c.deps t → hgt d < hgt t) (d : T)
    (hcases : s.st d = .active ∨ s.st d = .pending ∨ s.st d = .building) : CanStep c s := by
  rcases hcases with ha | hp | hb
  · have hl := h3.activeHasQueuer (not_ext_of_not_stopped c h1 hs) d ha
    cases hq' : s.qs (s.bq d) with
    | none => rw [hq'] at hl; exact absurd hl (by simp)
    | some q' =>
      rw [hq'] at hl
      simp only [liveFor_some] at hl
      exact queuer_can_step c h1 h3 hs hgt hacy (hgt q'.t) (s.bq d) q' hq'
        (fun d' hph => by have := h1.wtNotBuilding _ _ d' hq' hph; rw [hl.2.1] at this; cases this) (Nat.le_refl _)
  · rcases h3.pendingHasToken (not_ext_of_not_stopped c h1 hs) d hp with hm | hw
    · exact canStep_of c (a := .take (s.tm d)) trivial (by simp [fire, hm])
    · exact worker_can_step c s _ _ hw
  · exact worker_can_step c s _ _ (h3.buildingHasWorker d hb)

/-- once the queues are closed: `plz.Run` is about to return, or a queued task / a worker can step (no assumption
    on the graph) -/
theorem stopped_final_or_step {s : St} (hs : s.stopped = true) : Final s ∨ CanStep c s := by
  by_cases hc : ∀ m, s.chan m = none
  · by_cases hw : ∀ w, s.ws w = none
    · exact .inl ⟨hs, hc, hw⟩
    · right
      have ⟨w, hw'⟩ := Classical.not_forall.mp hw
      cases hx : s.ws w with
      | none => exact absurd hx hw'
      | some x => exact worker_can_step c s w x hx
  · right
    have ⟨m, hm'⟩ := Classical.not_forall.mp hc
    cases hx : s.chan m with
    | none => exact absurd hx hm'
    | some t => exact canStep_of c (a := .drop m) trivial (by simp [fire, hx, hs])

/-- **No deadlock on acyclic graphs**: in every reachable state either `plz.Run` is about to return or some
    goroutine can take a step — the goroutines waiting for a target (`WaitForBuiltTarget`) included, given that the
    waiters of a target are signalled when it fails (`failWakes`) and that nobody waits for a target that has already
    failed (`lateOK`); both are facts of the code (`C05_facts_ok`). -/
theorem no_deadlock {s : St} (hr : Reach c s) (hacy : Acyclic c) (hfw : c.failWakes = true) (hlo : c.lateOK = true) :
    Final s ∨ CanStep c s := by
  have h1 := reach_inv c hr
  have h3 := reach_inv3 c hr
  have hW := reach_invW c hr
  obtain ⟨hgt, hacy⟩ := hacy
  cases hs : s.stopped with
  | true => exact stopped_final_or_step c hs
  | false =>
    right
    have hpos := reach_pos c hr hs
    have hacc := reach_acct c hr (not_ext_of_not_stopped c h1 hs)
    have hu : 1 ≤ units s := by omega
    unfold units at hu
    by_cases hi : s.initDone = true
    · have e0 : b01 s.initDone = 0 := by simp [b01, hi]
      by_cases hq : 1 ≤ sumTo (fun i => ind (s.qs i)) s.nextQ
      · obtain ⟨i, _, hi'⟩ := sumTo_pos hq
        obtain ⟨q, hq'⟩ := ind_pos hi'
        by_cases hwt : ∃ d, q.ph = .waitTarget d
        · obtain ⟨d, hph⟩ := hwt
          cases hwk : s.woken d with
          | true =>
            exact queuer_enabled c i q hq' (fun d' r hp => by rw [hph] at hp; cases hp)
              (fun d' hp => by rw [hph] at hp; cases hp; exact hwk)
          | false =>
            obtain ⟨_, hrk⟩ := hW.wtReg i q d hq' hph
            have hnt : (s.st d).terminal = false := by
              cases ht : (s.st d).terminal with
              | false => rfl
              | true => have := hW.wtWoken hfw hlo i q d hq' hph ht; rw [hwk] at this; cases this
            have hns := h1.notStopped d
            have hcases : s.st d = .active ∨ s.st d = .pending ∨ s.st d = .building := by
              revert hrk hnt hns
              cases s.st d <;> simp [TS.rank, TS.terminal, TS.isBuilt]
            exact target_progress c h1 h3 hs hgt hacy d hcases
        · exact queuer_can_step c h1 h3 hs hgt hacy (hgt q.t) i q hq'
            (fun d hph => hwt ⟨d, hph⟩) (Nat.le_refl _)
      · by_cases hm : 1 ≤ sumTo (fun i => ind (s.chan i)) s.nextM
        · obtain ⟨m, _, hm'⟩ := sumTo_pos hm
          obtain ⟨t, ht⟩ := ind_pos hm'
          exact canStep_of c (a := .take m) trivial (by simp [fire, ht])
        · have hw : 1 ≤ sumTo (fun i => ind (s.ws i)) s.nextW := by omega
          obtain ⟨w, _, hw'⟩ := sumTo_pos hw
          obtain ⟨x, hx⟩ := ind_pos hw'
          exact worker_can_step c s w x hx
    · exact canStep_of c (a := .initDone) trivial (by simp [fire, hi])

/-- **No deadlock on any graph, with the idle-time cycle check**: in every reachable state either `plz.Run` is about
    to return, or some goroutine can step, or `forwardResults` has no active target left and starts the cycle check,
    which finds the cycle and stops the build — provided failure results clear the active set (`failClears`, a fact of
    the code).  `hcyc`: a graph in which the detector finds no cycle is acyclic (C06). -/
theorem no_deadlock_cyclic {s : St} (hr : Reach c s) (hcyc : c.hasCycle = false → Acyclic c)
    (hfc : c.failClears = true) (hfw : c.failWakes = true) (hlo : c.lateOK = true) :
    Final s ∨ CanStep c s ∨ (fire c s .cycleCheck).isSome = true := by
  cases hc : c.hasCycle with
  | false =>
    rcases no_deadlock c hr (hcyc hc) hfw hlo with h | h
    · exact .inl h
    · exact .inr (.inl h)
  | true =>
    cases hs : s.stopped with
    | true =>
      rcases stopped_final_or_step c hs with h | h
      · exact .inl h
      · exact .inr (.inl h)
    | false =>
      right
      by_cases hcan : CanStep c s
      · exact .inl hcan
      · right
        have h3 := reach_inv3 c hr
        have hW := reach_invW c hr
        have hemp : activeEmpty c s = true := by
          unfold activeEmpty
          rw [List.all_eq_true]
          intro t _
          cases ha : s.active t with
          | false => rfl
          | true =>
            exfalso
            exact hcan (worker_can_step c s _ _ (h3.buildingHasWorker t (hW.activeBuilding hfc t ha)))
        simp [fire, hs, hc, hemp]

end PlzVerif.Sched
