import PlzVerif.Lemmas.SchedLive
/-! C05: no deadlock on acyclic graphs — unless the run is over, some goroutine can take a step. -/
namespace PlzVerif.Sched

variable (c : Cfg)

/-- `plz.Run` returns: the queues are closed and drained and every worker has finished -/
def Final (s : St) : Prop := s.stopped = true ∧ (∀ m, s.chan m = none) ∧ (∀ w, s.ws w = none)

def Acyclic : Prop := ∃ h : T → Nat, ∀ t d, d ∈ c.deps t → h d < h t

def CanStep (s : St) : Prop := ∃ a s', Internal a ∧ fire c s a = some s'

/-- until `Stop`, at least one task is outstanding -/
def Pos (s : St) : Prop := s.stopped = false → 1 ≤ s.numPending

theorem qrt_pos {s : St} (h : Pos s) (t : T) (f : Bool) : Pos (qrt c s t f) := by
  unfold qrt spawn Pos at *
  repeat' split
  all_goals (intro hs; have := h hs; first | exact this | (show (1:Int) ≤ s.numPending + 1; omega))

theorem taskDone_pos (s : St) : Pos (taskDone s) := by
  intro hs
  simp only [taskDone, Bool.or_eq_false_iff, decide_eq_false_iff_not] at hs ⊢
  omega

theorem step_pos {s s' : St} (hp : Pos s) (h : Step c s s') : Pos s' := by
  obtain ⟨a, h⟩ := h
  cases a with
  | activate t force =>
    simp only [fire] at h
    split at h
    · cases h; exact qrt_pos c hp t force
    · cases h
  | queuer i =>
    simp only [fire] at h
    split at h
    · rename_i q hq
      unfold queuerStep at h
      split at h
      · cases h
        have := qrt_pos c hp ‹T› q.force
        exact this
      · cases h; exact hp
      · split at h
        · split at h <;> (cases h; exact hp)
        · cases h
      · split at h
        · cases h; intro hs; have := hp hs; show 1 ≤ s.numPending + 1; omega
        · cases h; exact hp
      · cases h; exact taskDone_pos _
    · cases h
  | queuerAbort i =>
    simp only [fire] at h
    split at h
    · split at h
      · cases h; intro hs; cases hs
      · cases h
    · cases h
  | take m => simp only [fire] at h; split at h <;> first | (cases h; exact hp) | cases h
  | drop m =>
    simp only [fire] at h
    split at h
    · split at h <;> first | (cases h; exact hp) | cases h
    · cases h
  | workerStart w => simp only [fire] at h; split at h <;> first | (cases h; exact hp) | cases h
  | workerOk w ts cached =>
    simp only [fire] at h
    split at h
    · split at h <;> first | (cases h; exact hp) | cases h
    · cases h
  | workerFail w => simp only [fire] at h; split at h <;> first | (cases h; exact hp) | cases h
  | workerDone w =>
    simp only [fire] at h
    split at h
    · cases h; exact taskDone_pos _
    · cases h
  | initDone =>
    simp only [fire] at h
    split at h
    · cases h
    · cases h; exact taskDone_pos _
  | stop => simp only [fire] at h; cases h; intro hs; cases hs

theorem reach_pos {s : St} (h : Reach c s) : Pos s := by
  induction h with
  | init => intro _; simp [St.init]
  | step _ hs ih => exact step_pos c ih hs

theorem sumTo_pos {f : Nat → Nat} {n : Nat} (h : 1 ≤ sumTo f n) : ∃ i, i < n ∧ 1 ≤ f i := by
  induction n with
  | zero => simp [sumTo] at h
  | succ k ih =>
    simp only [sumTo] at h
    by_cases hk : 1 ≤ f k
    · exact ⟨k, Nat.lt_succ_self k, hk⟩
    · obtain ⟨i, hi, hf⟩ := ih (by omega)
      exact ⟨i, Nat.lt_succ_of_lt hi, hf⟩

theorem ind_pos {α : Type} {x : Option α} (h : 1 ≤ ind x) : ∃ v, x = some v := by
  cases x with
  | none => simp [ind] at h
  | some v => exact ⟨v, rfl⟩

theorem canStep_of {s : St} {a : Action} (hi : Internal a) (h : (fire c s a).isSome = true) : CanStep c s := by
  cases hf : fire c s a with
  | none => simp [hf] at h
  | some s' => exact ⟨a, s', hi, hf⟩

theorem queuerStep_some (s : St) (i : Nat) (q : Queuer)
    (h : ∀ d r, q.ph = .waitDeps (d :: r) → s.fin d = true) : (queuerStep c s i q).isSome = true := by
  unfold queuerStep
  split
  · rfl
  · rfl
  · rename_i d r hph
    rw [h d r hph]
    simp only [if_true]
    split <;> rfl
  · split <;> rfl
  · rfl

theorem queuer_enabled {s : St} (i : Nat) (q : Queuer) (hq : s.qs i = some q)
    (h : ∀ d r, q.ph = .waitDeps (d :: r) → s.fin d = true) : CanStep c s :=
  canStep_of c (a := .queuer i) trivial (by simp only [fire, hq]; exact queuerStep_some c s i q h)

/-- a worker can always take its next step -/
theorem worker_can_step (s : St) (w : Nat) (x : Worker) (hw : s.ws w = some x) : CanStep c s := by
  obtain ⟨t, ph⟩ := x
  cases ph with
  | taken => exact canStep_of c (a := .workerStart w) trivial (by simp [fire, hw])
  | building => exact canStep_of c (a := .workerFail w) trivial (by simp [fire, hw])
  | finished => exact canStep_of c (a := .workerDone w) trivial (by simp [fire, hw])

/-- a queuer can take its next step, or the dependency it waits for can make progress — by induction along
    the (acyclic) dependency order -/
theorem not_ext_of_not_stopped {s : St} (h1 : Inv c s) (hs : s.stopped = false) : s.ext = false := by
  cases h : s.ext with
  | false => rfl
  | true => have := h1.extStopped h; rw [hs] at this; cases this

theorem queuer_can_step {s : St} (h1 : Inv c s) (h3 : Inv3 c s) (hs : s.stopped = false)
    (hgt : T → Nat) (hacy : ∀ t d, d ∈ c.deps t → hgt d < hgt t) :
    ∀ k i q, s.qs i = some q → hgt q.t ≤ k → CanStep c s := by
  intro k
  induction k with
  | zero =>
    intro i q hq hk
    apply queuer_enabled c i q hq
    intro d r hph
    have hd := h3.waitSub i q (d :: r) hq hph d List.mem_cons_self
    have := hacy q.t d hd
    omega
  | succ k ih =>
    intro i q hq hk
    by_cases hall : ∀ d r, q.ph = .waitDeps (d :: r) → s.fin d = true
    · exact queuer_enabled c i q hq hall
    · -- the dependency it waits for has not finished: somebody is responsible for that one
      have ⟨d, hall⟩ := Classical.not_forall.mp hall
      have ⟨r, hall⟩ := Classical.not_forall.mp hall
      have ⟨hph, hf⟩ := Classical.not_imp.mp hall
      have hd := h3.waitSub i q (d :: r) hq hph d List.mem_cons_self
      have hlt := hacy q.t d hd
      have hbld := h1.waitBuilding i q (d :: r) hq hph
      have hrk := h3.waitedDeps i q (d :: r) hq hbld hph d hd
      have hterm := h1.finTerm d
      have hns := h1.notStopped d
      have hcases : s.st d = .active ∨ s.st d = .pending ∨ s.st d = .building := by
        revert hrk hterm hns hf
        cases s.st d <;> simp [TS.rank, TS.terminal, TS.isBuilt]
      rcases hcases with ha | hp | hb
      · have hl := h3.activeHasQueuer (not_ext_of_not_stopped c h1 hs) d ha
        cases hq' : s.qs (s.bq d) with
        | none => rw [hq'] at hl; exact absurd hl (by simp)
        | some q' =>
          rw [hq'] at hl
          simp only [liveFor_some] at hl
          exact ih (s.bq d) q' hq' (by rw [hl.1]; omega)
      · rcases h3.pendingHasToken (not_ext_of_not_stopped c h1 hs) d hp with hm | hw
        · exact canStep_of c (a := .take (s.tm d)) trivial (by simp [fire, hm])
        · exact worker_can_step c s _ _ hw
      · exact worker_can_step c s _ _ (h3.buildingHasWorker d hb)

/-- **No deadlock on acyclic graphs**: in every reachable state either `plz.Run` is about to return or some
    goroutine can take a step. -/
theorem no_deadlock {s : St} (hr : Reach c s) (hacy : Acyclic c) : Final s ∨ CanStep c s := by
  have h1 := reach_inv c hr
  have h3 := reach_inv3 c hr
  obtain ⟨hgt, hacy⟩ := hacy
  cases hs : s.stopped with
  | true =>
    by_cases hc : ∀ m, s.chan m = none
    · by_cases hw : ∀ w, s.ws w = none
      · exact .inl ⟨hs, hc, hw⟩
      · right
        have ⟨w, hw'⟩ := Classical.not_forall.mp hw
        cases hx : s.ws w with
        | none => exact absurd hx hw'
        | some x => exact worker_can_step c s w x hx
    · right
      have ⟨m, hm'⟩ := Classical.not_forall.mp hc
      cases hx : s.chan m with
      | none => exact absurd hx hm'
      | some t => exact canStep_of c (a := .drop m) trivial (by simp [fire, hx, hs])
  | false =>
    right
    have hpos := reach_pos c hr hs
    have hacc := reach_acct c hr (not_ext_of_not_stopped c h1 hs)
    have hu : 1 ≤ units s := by omega
    unfold units at hu
    by_cases hi : s.initDone = true
    · have e0 : b01 s.initDone = 0 := by simp [b01, hi]
      by_cases hq : 1 ≤ sumTo (fun i => ind (s.qs i)) s.nextQ
      · obtain ⟨i, _, hi'⟩ := sumTo_pos hq
        obtain ⟨q, hq'⟩ := ind_pos hi'
        exact queuer_can_step c h1 h3 hs hgt hacy (hgt q.t) i q hq' (Nat.le_refl _)
      · by_cases hm : 1 ≤ sumTo (fun i => ind (s.chan i)) s.nextM
        · obtain ⟨m, _, hm'⟩ := sumTo_pos hm
          obtain ⟨t, ht⟩ := ind_pos hm'
          exact canStep_of c (a := .take m) trivial (by simp [fire, ht])
        · have hw : 1 ≤ sumTo (fun i => ind (s.ws i)) s.nextW := by omega
          obtain ⟨w, _, hw'⟩ := sumTo_pos hw
          obtain ⟨x, hx⟩ := ind_pos hw'
          exact worker_can_step c s w x hx
    · exact canStep_of c (a := .initDone) trivial (by simp [fire, hi])

end PlzVerif.Sched
