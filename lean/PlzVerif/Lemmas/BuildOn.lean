import PlzVerif.Lemmas.Build
/-!
"Incremental = clean" with injectivity of the two pre-images RESTRICTED to domains (C01, instantiable form).

`Lemmas/Build.lean` proves the history invariant and `buildList_spec` under `Function.Injective ruleSer` and
`Function.Injective pathSer`.  Both are false for the pre-images as coded.  The proofs, however, use injectivity only
to compare values that occur in the history: the attributes recorded in a stamp with the current ones, the input
lists recorded in a stamp with the current input lists, and the old output of a target with its new output.  Here the
invariant is strengthened to remember that everything it mentions lies in two domains

* `DA : A → Prop` — the attribute records of every target that is ever built,
* `DC : C → Prop` — the source trees of every repository state in the history, closed under `exec`,

and injectivity is required on the domains only (`InjROn`, `InjPOn`).  Nothing in `Lemmas/Build.lean` is changed.
-/
namespace PlzVerif.Build
set_option linter.unusedSectionVars false
set_option linter.unusedSimpArgs false

variable {K A F N C S H : Type} [DecidableEq K] [DecidableEq S] [DecidableEq N] [DecidableEq H]
variable (fx : Facts) (mv : C → C → C) (exec : A → List (N × C) → C) (ruleSer : A → S) (pathSer : C → H)
variable (DA : A → Prop) (DC : C → Prop)

/-- `ruleSer` is injective on the attribute records in `DA`. -/
def InjROn : Prop := ∀ a a', DA a → DA a' → ruleSer a = ruleSer a' → a = a'
/-- `pathSer` is injective on the trees in `DC`. -/
def InjPOn : Prop := ∀ c c', DC c → DC c' → pathSer c = pathSer c' → c = c'
/-- Actions of targets in `DA` map inputs in `DC` to outputs in `DC`. -/
def ExecClosed : Prop := ∀ a (ins : List (N × C)), DA a → (∀ p ∈ ins, DC p.2) → DC (exec a ins)

/-- `MvOK` for outputs in `DC` only (the coded move of the end-to-end instance lets optional outputs linger, but
    behaves on plain files). -/
def MvOKOn : Prop :=
  ∀ old new, DC old → DC new → mv old new = new ∨ (pathSer old = pathSer new ∧ mv old new = old)

theorem mvOK_on (h : MvOK pathSer mv) : MvOKOn mv pathSer DC := fun old new _ _ => h old new

/-- The history invariant of `Lemmas/Build.lean`, remembering the domains. -/
def InvOn (out : Out K C S N H) : Prop :=
  ∀ k c st, out k = some (c, st) →
    ∃ a ins, st = stampOf ruleSer pathSer a ins ∧ c = exec a ins ∧ DA a ∧ ∀ p ∈ ins, DC p.2

/-- The targets of a list, and the source files they read, lie in the domains. -/
def TargetsOn (r : Repo K A F N C) (ts : List (Target K A F)) : Prop :=
  ∀ t ∈ ts, DA t.attrs ∧ ∀ f ∈ t.srcs, DC (r.files f)

/-- A repository state all of whose targets and source files lie in the domains. -/
def RepoOn (r : Repo K A F N C) : Prop := TargetsOn DA DC r r.targets

theorem invOn_inv {out : Out K C S N H} (h : InvOn exec ruleSer pathSer DA DC out) : Inv exec ruleSer pathSer out := by
  intro k c st hk
  obtain ⟨a, ins, h1, h2, _, _⟩ := h k c st hk
  exact ⟨a, ins, h1, h2⟩

theorem invOn_empty : InvOn exec ruleSer pathSer DA DC (fun (_ : K) => (none : Option (C × Stamp S N H))) := by
  intro k c st h; simp at h

theorem invOn_restrict (out : Out K C S N H) (keep : K → Bool) (h : InvOn exec ruleSer pathSer DA DC out) :
    InvOn exec ruleSer pathSer DA DC (fun k => if keep k then out k else none) := by
  intro k c st hk
  by_cases hkk : keep k = true
  · simp [hkk] at hk; exact h k c st hk
  · simp [hkk] at hk

/-- Every output in plz-out is in `DC`. -/
theorem invOn_out_dc (hE : ExecClosed exec DA DC) {out : Out K C S N H} (h : InvOn exec ruleSer pathSer DA DC out)
    {k : K} {c : C} {st : Stamp S N H} (hk : out k = some (c, st)) : DC c := by
  obtain ⟨a, ins, _, hc, ha, hi⟩ := h k c st hk
  rw [hc]; exact hE a ins ha hi

theorem depIns_on (hE : ExecClosed exec DA DC) (r : Repo K A F N C) {out : Out K C S N H}
    (h : InvOn exec ruleSer pathSer DA DC out) :
    ∀ (deps : List K) (ds : List (N × C)), depIns r out deps = some ds → ∀ q ∈ ds, DC q.2 := by
  intro deps
  induction deps with
  | nil => intro ds hd q hq; simp [depIns] at hd; subst hd; simp at hq
  | cons d rest ih =>
    intro ds hd q hq
    simp only [depIns, List.mapM_cons] at hd ih
    cases ho : out d with
    | none => simp [ho] at hd
    | some p =>
      cases hr : rest.mapM (fun d => (out d).map (fun p => (r.outName d, p.1))) with
      | none => simp [ho, hr] at hd
      | some rs =>
        simp [ho, hr] at hd
        subst hd
        simp at hq
        rcases hq with rfl | hq
        · obtain ⟨c, st⟩ := p; exact invOn_out_dc exec ruleSer pathSer DA DC hE h ho
        · exact ih rs hr q hq

/-- The inputs a target is built from are in `DC`. -/
theorem inputs_on (hE : ExecClosed exec DA DC) (r : Repo K A F N C) {out : Out K C S N H}
    (h : InvOn exec ruleSer pathSer DA DC out) (t : Target K A F) (hs : ∀ f ∈ t.srcs, DC (r.files f))
    {ins : List (N × C)} (hin : inputs r out t = some ins) : ∀ p ∈ ins, DC p.2 := by
  unfold inputs at hin
  cases hd : depIns r out t.deps with
  | none => simp [hd] at hin
  | some ds =>
    simp [hd] at hin; subst hin
    intro p hp
    rcases List.mem_append.mp hp with hp | hp
    · simp at hp; obtain ⟨f, hf, rfl⟩ := hp; exact hs f hf
    · exact depIns_on exec ruleSer pathSer DA DC hE r h t.deps ds hd p hp

theorem map_inj_on {α β} {f : α → β} {D : α → Prop} (hf : ∀ a b, D a → D b → f a = f b → a = b) :
    ∀ {l1 l2 : List α}, (∀ a ∈ l1, D a) → (∀ a ∈ l2, D a) → l1.map f = l2.map f → l1 = l2
  | [], [], _, _, _ => rfl
  | [], _ :: _, _, _, h => by simp at h
  | _ :: _, [], _, _, h => by simp at h
  | a :: l1, b :: l2, h1, h2, h => by
    simp only [List.map_cons, List.cons.injEq] at h
    rw [hf a b (h1 a (List.mem_cons_self ..)) (h2 b (List.mem_cons_self ..)) h.1,
      map_inj_on hf (fun x hx => h1 x (List.mem_cons_of_mem _ hx)) (fun x hx => h2 x (List.mem_cons_of_mem _ hx)) h.2]

/-- One build step keeps the strengthened invariant. -/
theorem buildOne_inv_on (hmv : MvOKOn mv pathSer DC) (hP : InjPOn pathSer DC) (hE : ExecClosed exec DA DC)
    (r : Repo K A F N C) (out : Out K C S N H) (t : Target K A F)
    (ht : DA t.attrs ∧ ∀ f ∈ t.srcs, DC (r.files f)) (hinv : InvOn exec ruleSer pathSer DA DC out) :
    InvOn exec ruleSer pathSer DA DC (buildOne fx mv exec ruleSer pathSer r out t).1 := by
  unfold buildOne
  cases hin : inputs r out t with
  | none => simpa using hinv
  | some ins =>
    have hins := inputs_on exec ruleSer pathSer DA DC hE r hinv t ht.2 hin
    simp only
    cases ho : out t.key with
    | none =>
      simp only
      intro j c st hj
      by_cases hji : j = t.key
      · subst hji; simp at hj; obtain ⟨rfl, rfl⟩ := hj; exact ⟨t.attrs, ins, rfl, rfl, ht.1, hins⟩
      · simp [hji] at hj; exact hinv j c st hj
    | some p =>
      obtain ⟨c0, st0⟩ := p
      simp only
      split
      · exact hinv
      · intro j c st hj
        by_cases hji : j = t.key
        · subst hji
          simp at hj
          obtain ⟨hc, rfl⟩ := hj
          refine ⟨t.attrs, ins, rfl, ?_, ht.1, hins⟩
          rcases hmv c0 (exec t.attrs ins) (invOn_out_dc exec ruleSer pathSer DA DC hE hinv ho) (hE _ _ ht.1 hins) with h | ⟨heq, h⟩
          · rw [← hc, h]
          · rw [← hc, h]
            exact hP _ _ (invOn_out_dc exec ruleSer pathSer DA DC hE hinv ho) (hE _ _ ht.1 hins) heq
        · simp [hji] at hj; exact hinv j c st hj

/-- After processing a selected target whose dependencies agree with the clean accumulator, its output is the clean
    output (skip is sound: equal stamp ⇒ equal definition and inputs, by injectivity ON THE DOMAINS). -/
theorem buildOne_self_on (hmv : MvOKOn mv pathSer DC) (hf : fx.cmpRule = true ∧ fx.cmpSource = true)
    (hR : InjROn ruleSer DA) (hP : InjPOn pathSer DC) (hE : ExecClosed exec DA DC)
    (r : Repo K A F N C) (out : Out K C S N H) (acc : List (K × C)) (seen : List K) (t : Target K A F)
    (ht : DA t.attrs ∧ ∀ f ∈ t.srcs, DC (r.files f))
    (hinv : InvOn exec ruleSer pathSer DA DC out) (hag : Agree out acc seen) (hd : ∀ d ∈ t.deps, d ∈ seen) :
    ∃ st, (buildOne fx mv exec ruleSer pathSer r out t).1 t.key =
      some (exec t.attrs (t.srcs.map (fun f => (r.fname f, r.files f)) ++
        t.deps.filterMap (fun d => (acc.lookup d).map (fun c => (r.outName d, c)))), st) := by
  have hin : inputs r out t = some (t.srcs.map (fun f => (r.fname f, r.files f)) ++
      t.deps.filterMap (fun d => (acc.lookup d).map (fun c => (r.outName d, c)))) := by
    simp [inputs, depIns_agree hag t.deps hd]
  have hins := inputs_on exec ruleSer pathSer DA DC hE r hinv t ht.2 hin
  unfold buildOne
  rw [hin]
  simp only
  cases ho : out t.key with
  | none => simp
  | some p =>
    obtain ⟨c0, st0⟩ := p
    simp only
    split
    · rename_i hst
      rw [stampEq_iff fx hf] at hst
      obtain ⟨a, ins, hs, hc, hda, hdi⟩ := hinv t.key c0 st0 ho
      rw [hs] at hst
      simp only [stampOf, Stamp.mk.injEq] at hst
      have ha : a = t.attrs := hR _ _ hda ht.1 hst.1
      have hpair : ∀ (x y : N × C), DC x.2 → DC y.2 →
          (fun p : N × C => (p.1, pathSer p.2)) x = (fun p : N × C => (p.1, pathSer p.2)) y → x = y := by
        intro x y hx hy hxy
        simp only [Prod.mk.injEq] at hxy
        exact Prod.ext hxy.1 (hP _ _ hx hy hxy.2)
      have hi := map_inj_on (D := fun p : N × C => DC p.2) hpair hdi hins hst.2
      subst ha; rw [hi] at hc
      exact ⟨st0, by show out t.key = _; rw [ho, hc]⟩
    · simp only [ite_true]
      rcases hmv c0 (exec t.attrs (t.srcs.map (fun f => (r.fname f, r.files f)) ++
          t.deps.filterMap (fun d => (acc.lookup d).map (fun c => (r.outName d, c)))))
          (invOn_out_dc exec ruleSer pathSer DA DC hE hinv ho) (hE _ _ ht.1 hins) with h | ⟨heq, h⟩
      · exact ⟨_, by rw [h]⟩
      · exact ⟨_, by rw [h, hP _ _ (invOn_out_dc exec ruleSer pathSer DA DC hE hinv ho) (hE _ _ ht.1 hins) heq]⟩

theorem buildList_spec_on (hmv : MvOKOn mv pathSer DC) (hf : fx.cmpRule = true ∧ fx.cmpSource = true)
    (hR : InjROn ruleSer DA) (hP : InjPOn pathSer DC) (hE : ExecClosed exec DA DC)
    (r : Repo K A F N C) (sel : K → Bool) :
    ∀ (ts : List (Target K A F)) (seen : List K) (out : Out K C S N H) (acc : List (K × C)),
      TargetsOn DA DC r ts →
      acc.map (·.1) = seen → InvOn exec ruleSer pathSer DA DC out → Agree out acc seen → WFList sel seen ts →
      InvOn exec ruleSer pathSer DA DC (buildList fx mv exec ruleSer pathSer r sel ts out).1 ∧
      (cleanList exec r sel ts acc).map (·.1) = seen ++ selKeys sel ts ∧
      Agree (buildList fx mv exec ruleSer pathSer r sel ts out).1 (cleanList exec r sel ts acc) (seen ++ selKeys sel ts) := by
  intro ts
  induction ts with
  | nil => intro seen out acc _ hk hinv hag _; simpa [buildList, cleanList, selKeys] using ⟨hinv, hk, hag⟩
  | cons t ts ih =>
    intro seen out acc hon hk hinv hag hwf
    have ht := hon t (List.mem_cons_self ..)
    have hon' : TargetsOn DA DC r ts := fun t' ht' => hon t' (List.mem_cons_of_mem _ ht')
    by_cases hs : sel t.key = true
    · simp only [WFList, hs, if_true] at hwf
      obtain ⟨hd, hnew, hwf'⟩ := hwf
      have hinv' := buildOne_inv_on fx mv exec ruleSer pathSer DA DC hmv hP hE r out t ht hinv
      obtain ⟨st, hself⟩ := buildOne_self_on fx mv exec ruleSer pathSer DA DC hmv hf hR hP hE r out acc seen t ht hinv hag hd
      have hag' : Agree (buildOne fx mv exec ruleSer pathSer r out t).1
          (acc ++ [(t.key, exec t.attrs (t.srcs.map (fun f => (r.fname f, r.files f)) ++
            t.deps.filterMap (fun d => (acc.lookup d).map (fun c => (r.outName d, c)))))]) (seen ++ [t.key]) := by
        intro k hkm
        rcases List.mem_append.mp hkm with hks | hkt
        · have hne : k ≠ t.key := fun e => hnew (e ▸ hks)
          obtain ⟨c, st', ho, ha⟩ := hag k hks
          exact ⟨c, st', by rw [buildOne_other fx mv exec ruleSer pathSer r out t k hne]; exact ho,
            lookup_append_of_mem ha⟩
        · have hkt' : k = t.key := by simpa using hkt
          subst hkt'
          exact ⟨_, st, hself, lookup_append_new (by rw [hk]; exact hnew)⟩
      have := ih (seen ++ [t.key]) _ _ hon' (by simp [hk]) hinv' hag' hwf'
      simp only [buildList, cleanList, hs, if_true, selKeys, List.filter_cons, List.map_cons]
      simpa [selKeys, List.append_assoc] using this
    · simp only [Bool.not_eq_true] at hs
      simp only [WFList, hs] at hwf
      have := ih seen out acc hon' hk hinv hag (by simpa using hwf)
      simpa [buildList, cleanList, hs, selKeys, List.filter_cons] using this

/-- Any build of a repository state in the domains (well-formed or not) preserves the strengthened invariant. -/
theorem buildList_inv_on (hmv : MvOKOn mv pathSer DC) (hP : InjPOn pathSer DC) (hE : ExecClosed exec DA DC)
    (r : Repo K A F N C) (sel : K → Bool) :
    ∀ (ts : List (Target K A F)) (out : Out K C S N H), TargetsOn DA DC r ts → InvOn exec ruleSer pathSer DA DC out →
      InvOn exec ruleSer pathSer DA DC (buildList fx mv exec ruleSer pathSer r sel ts out).1 := by
  intro ts
  induction ts with
  | nil => intro out _ h; exact h
  | cons t ts ih =>
    intro out hon h
    have hon' : TargetsOn DA DC r ts := fun t' ht' => hon t' (List.mem_cons_of_mem _ ht')
    by_cases hs : sel t.key = true
    · simp only [buildList, hs, if_true]
      exact ih _ hon' (buildOne_inv_on fx mv exec ruleSer pathSer DA DC hmv hP hE r out t (hon t (List.mem_cons_self ..)) h)
    · simp only [Bool.not_eq_true] at hs
      simp only [buildList, hs]
      exact ih out hon' h

/-- Every repository state built in the history lies in the domains (removals are unrestricted). -/
def HistOn : List (HOp K A F N C) → Prop
  | [] => True
  | .build r _ :: ops => RepoOn DA DC r ∧ HistOn ops
  | .remove _ :: ops => HistOn ops

theorem runHist_inv_on (hmv : MvOKOn mv pathSer DC) (hP : InjPOn pathSer DC) (hE : ExecClosed exec DA DC) :
    ∀ (ops : List (HOp K A F N C)) (out : Out K C S N H), HistOn DA DC ops → InvOn exec ruleSer pathSer DA DC out →
      InvOn exec ruleSer pathSer DA DC (runHist fx mv exec ruleSer pathSer ops out) := by
  intro ops
  induction ops with
  | nil => intro out _ h; exact h
  | cons op ops ih =>
    intro out hh h
    cases op with
    | build r sel =>
      exact ih _ hh.2 (buildList_inv_on fx mv exec ruleSer pathSer DA DC hmv hP hE r sel r.targets out hh.1 h)
    | remove keep => exact ih _ hh (invOn_restrict exec ruleSer pathSer DA DC out keep h)

end PlzVerif.Build
