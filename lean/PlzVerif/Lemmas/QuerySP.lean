import PlzVerif.Lemmas.Query
import PlzVerif.Lemmas.Cycle
/-!
Lemmas for C23 (part 3): `somePath` — sound, complete, and the recursion bound is never reached.
Core Lean only.
-/
namespace PlzVerif.Query

/-! ### equations -/

/-- the dependency loop of `somePath(t1, t2)` at recursion budget `fuel` -/
def spL (G : Graph) (t2 fuel : Nat) (ls seen : List Nat) : PRes × List Nat :=
  spList (somePath G t2 fuel) ls seen

theorem somePath_zero (G : Graph) (t2 : Nat) (seen : List Nat) (t1 : Nat) :
    somePath G t2 0 seen t1 = (.oof, seen) := rfl

theorem somePath_succ (G : Graph) (t2 fuel : Nat) (seen : List Nat) (t1 : Nat) :
    somePath G t2 (fuel+1) seen t1 =
      if t1 == t2 then (.found [t1], seen)
      else if parentT G t1 == some t2 then (.found [t1], seen)
      else if t1 ∈ seen then (.nopath, seen)
      else
        match spL G t2 fuel (G.adj t1) (t1 :: seen) with
        | (.found p, seen') => (.found (t1 :: p), seen')
        | r => r := rfl

theorem spL_nil (G : Graph) (t2 fuel : Nat) (seen : List Nat) : spL G t2 fuel [] seen = (.nopath, seen) := rfl

theorem spL_cons (G : Graph) (t2 fuel l : Nat) (ls seen : List Nat) :
    spL G t2 fuel (l :: ls) seen =
      match somePath G t2 fuel seen l with
      | (.nopath, seen') => spL G t2 fuel ls seen'
      | r => r := rfl

/-! ### soundness -/

def Chain (G : Graph) : List Nat → Prop
  | [] => True
  | [_] => True
  | a :: b :: r => Edge G a b ∧ Chain G (b :: r)

/-- the end of a printed path: the other target, or one of its hidden sub-targets -/
def IsTarget (G : Graph) (t2 x : Nat) : Prop := x = t2 ∨ parentT G x = some t2

/-- a real dependency chain from `t1` to `t2` (or to a hidden sub-target of `t2`) -/
def GoodPath (G : Graph) (t1 t2 : Nat) (p : List Nat) : Prop :=
  p.head? = some t1 ∧ Chain G p ∧ ∃ l, p.getLast? = some l ∧ IsTarget G t2 l

theorem GoodPath.cons {G : Graph} {t1 l t2 : Nat} {p : List Nat} (e : Edge G t1 l) (h : GoodPath G l t2 p) :
    GoodPath G t1 t2 (t1 :: p) := by
  obtain ⟨hh, hc, x, hx, ht⟩ := h
  cases p with
  | nil => simp at hh
  | cons a r =>
    simp at hh; subst hh
    exact ⟨rfl, ⟨e, hc⟩, x, by rw [List.getLast?_cons_cons]; exact hx, ht⟩

theorem spL_sound (G : Graph) (t2 fuel : Nat)
    (ih : ∀ seen t1 p, (somePath G t2 fuel seen t1).1 = .found p → GoodPath G t1 t2 p) :
    ∀ (ls seen : List Nat) (p : List Nat), (spL G t2 fuel ls seen).1 = .found p → ∃ l ∈ ls, GoodPath G l t2 p := by
  intro ls
  induction ls with
  | nil => intro seen p h; rw [spL_nil] at h; simp at h
  | cons l ls ihl =>
    intro seen p h
    rw [spL_cons] at h
    have hv := ih seen l
    generalize somePath G t2 fuel seen l = vr at h hv
    obtain ⟨r, s1⟩ := vr
    cases r with
    | nopath =>
      simp only at h
      obtain ⟨l', hl', hg⟩ := ihl s1 p h
      exact ⟨l', List.mem_cons_of_mem _ hl', hg⟩
    | oof => simp at h
    | found q =>
      simp only at h hv
      cases h
      exact ⟨l, List.mem_cons_self .., hv p rfl⟩

theorem somePath_sound (G : Graph) (t2 : Nat) : ∀ (fuel : Nat) (seen : List Nat) (t1 : Nat) (p : List Nat),
    (somePath G t2 fuel seen t1).1 = .found p → GoodPath G t1 t2 p := by
  intro fuel
  induction fuel with
  | zero => intro seen t1 p h; rw [somePath_zero] at h; simp at h
  | succ fuel ih =>
    intro seen t1 p h
    rw [somePath_succ] at h
    split at h
    · rename_i he
      simp only [PRes.found.injEq] at h; subst h
      simp only [beq_iff_eq] at he
      exact ⟨rfl, trivial, t1, rfl, Or.inl he⟩
    · split at h
      · rename_i hp
        simp only [PRes.found.injEq] at h; subst h
        simp only [beq_iff_eq] at hp
        exact ⟨rfl, trivial, t1, rfl, Or.inr hp⟩
      · split at h
        · simp at h
        · have hl := spL_sound G t2 fuel ih (G.adj t1) (t1 :: seen)
          generalize spL G t2 fuel (G.adj t1) (t1 :: seen) = vr at h hl
          obtain ⟨r, s1⟩ := vr
          cases r with
          | nopath => simp at h
          | oof => simp at h
          | found q =>
            simp only [PRes.found.injEq] at h; subst h
            obtain ⟨l, hl', hg⟩ := hl q rfl
            exact hg.cons hl'

/-! ### completeness -/

/-- every newly seen node is not a target and has all its dependencies seen -/
def NewClosed (G : Graph) (t2 : Nat) (seen seen' : List Nat) : Prop :=
  (∀ x ∈ seen, x ∈ seen') ∧
  ∀ x ∈ seen', x ∉ seen → ¬ IsTarget G t2 x ∧ ∀ y ∈ G.adj x, y ∈ seen'

theorem NewClosed.trans {G : Graph} {t2 : Nat} {a b c : List Nat} (h1 : NewClosed G t2 a b) (h2 : NewClosed G t2 b c) :
    NewClosed G t2 a c := by
  refine ⟨fun x hx => h2.1 x (h1.1 x hx), ?_⟩
  intro x hx hna
  by_cases hb : x ∈ b
  · obtain ⟨hnt, hadj⟩ := h1.2 x hb hna
    exact ⟨hnt, fun y hy => h2.1 y (hadj y hy)⟩
  · exact h2.2 x hx hb

theorem somePath_complete_aux (G : Graph) (t2 : Nat) : ∀ (fuel : Nat) (seen : List Nat) (t1 : Nat),
    (∀ x ∈ seen, ¬ IsTarget G t2 x) →
    (somePath G t2 fuel seen t1).1 = .nopath →
      NewClosed G t2 seen (somePath G t2 fuel seen t1).2 ∧ t1 ∈ (somePath G t2 fuel seen t1).2 := by
  intro fuel
  induction fuel with
  | zero => intro seen t1 _ h; rw [somePath_zero] at h; simp at h
  | succ fuel ih =>
    intro seen t1 hseen h
    rw [somePath_succ] at h ⊢
    split at h
    · simp at h
    · rename_i hne
      split at h
      · simp at h
      · rename_i hnp
        rw [if_neg hne, if_neg hnp]
        split at h
        · rename_i hin
          rw [if_pos hin]
          exact ⟨⟨fun _ h => h, fun x hx hn => absurd hx hn⟩, hin⟩
        · rename_i hnin
          rw [if_neg hnin]
          have hnt : ¬ IsTarget G t2 t1 := by
            intro ht
            rcases ht with ht | ht
            · exact hne (by simp [ht])
            · exact hnp (by simp [ht])
          have hseen' : ∀ x ∈ t1 :: seen, ¬ IsTarget G t2 x := by
            intro x hx
            simp only [List.mem_cons] at hx
            rcases hx with rfl | hx
            · exact hnt
            · exact hseen x hx
          -- the induction hypothesis needs the "no target seen" invariant along the whole loop: carry it with NewClosed
          have hl := spL_complete_inv G t2 fuel ih (G.adj t1) (t1 :: seen) hseen'
          generalize spL G t2 fuel (G.adj t1) (t1 :: seen) = vr at h hl ⊢
          obtain ⟨r, s1⟩ := vr
          cases r with
          | found q => simp at h
          | oof => simp at h
          | nopath =>
            simp only at hl ⊢
            obtain ⟨hc, hls⟩ := hl trivial
            refine ⟨⟨fun x hx => hc.1 x (List.mem_cons_of_mem _ hx), ?_⟩, hc.1 _ (List.mem_cons_self ..)⟩
            intro x hx hns
            by_cases hxt : x = t1
            · subst hxt; exact ⟨hnt, hls⟩
            · exact hc.2 x hx (by simp [hxt, hns])
where
  spL_complete_inv (G : Graph) (t2 fuel : Nat)
      (ih : ∀ seen t1, (∀ x ∈ seen, ¬ IsTarget G t2 x) → (somePath G t2 fuel seen t1).1 = .nopath →
        NewClosed G t2 seen (somePath G t2 fuel seen t1).2 ∧ t1 ∈ (somePath G t2 fuel seen t1).2) :
      ∀ (ls seen : List Nat), (∀ x ∈ seen, ¬ IsTarget G t2 x) → (spL G t2 fuel ls seen).1 = .nopath →
        NewClosed G t2 seen (spL G t2 fuel ls seen).2 ∧ ∀ l ∈ ls, l ∈ (spL G t2 fuel ls seen).2 := by
    intro ls
    induction ls with
    | nil => intro seen _ _; rw [spL_nil]; exact ⟨⟨fun _ h => h, fun x hx hn => absurd hx hn⟩, by simp⟩
    | cons l ls ihl =>
      intro seen hseen h
      rw [spL_cons] at h ⊢
      have hv := ih seen l hseen
      generalize somePath G t2 fuel seen l = vr at h hv ⊢
      obtain ⟨r, s1⟩ := vr
      cases r with
      | nopath =>
        simp only at h hv ⊢
        obtain ⟨hc1, hl1⟩ := hv trivial
        have hs1 : ∀ x ∈ s1, ¬ IsTarget G t2 x := by
          intro x hx
          by_cases hxs : x ∈ seen
          · exact hseen x hxs
          · exact (hc1.2 x hx hxs).1
        obtain ⟨hc2, hls⟩ := ihl s1 hs1 h
        refine ⟨hc1.trans hc2, ?_⟩
        intro l' hl'
        simp only [List.mem_cons] at hl'
        rcases hl' with rfl | hl'
        · exact hc2.1 _ hl1
        · exact hls l' hl'
      | oof => simp at h
      | found q => simp at h

/-- a seen-set that is safe to start from: no target in it, closed under dependencies -/
def GoodSeen (G : Graph) (t2 : Nat) (seen : List Nat) : Prop :=
  ∀ x ∈ seen, ¬ IsTarget G t2 x ∧ ∀ y ∈ G.adj x, y ∈ seen

theorem GoodSeen.no_path {G : Graph} {t2 : Nat} {seen : List Nat} (h : GoodSeen G t2 seen) {a z : Nat}
    (p : Path G a z) : a ∈ seen → z ∈ seen := by
  induction p with
  | single e => intro ha; exact (h _ ha).2 _ e
  | cons e _ ih => intro ha; exact ih ((h _ ha).2 _ e)

/-- if `somePath` finds nothing, `t1` is not a target and no dependency path leads from it to one; the
returned seen-set is again safe (this is what makes the memo per `target2` sound) -/
theorem somePath_complete (G : Graph) (t2 fuel : Nat) (seen : List Nat) (t1 : Nat) (hs : GoodSeen G t2 seen)
    (h : (somePath G t2 fuel seen t1).1 = .nopath) :
    GoodSeen G t2 (somePath G t2 fuel seen t1).2 ∧ ¬ IsTarget G t2 t1 ∧ ∀ z, Path G t1 z → ¬ IsTarget G t2 z := by
  obtain ⟨hc, ht⟩ := somePath_complete_aux G t2 fuel seen t1 (fun x hx => (hs x hx).1) h
  have hg : GoodSeen G t2 (somePath G t2 fuel seen t1).2 := by
    intro x hx
    by_cases hxs : x ∈ seen
    · exact ⟨(hs x hxs).1, fun y hy => hc.1 y ((hs x hxs).2 y hy)⟩
    · exact hc.2 x hx hxs
  exact ⟨hg, (hg _ ht).1, fun z p => (hg _ (hg.no_path p ht)).1⟩

/-! ### the memo per `target2`, both directions, all pairs -/

def MemoOK (G : Graph) (m : Memo) : Prop := ∀ e ∈ m, GoodSeen G e.1 e.2

theorem lookup_mem {k : Nat} {v : List Nat} : ∀ {m : Memo}, m.lookup k = some v → (k, v) ∈ m
  | [], h => by simp [List.lookup] at h
  | (k', v') :: m, h => by
    simp only [List.lookup] at h
    split at h
    · rename_i hk
      simp only [Option.some.injEq] at h
      subst h
      simp only [beq_iff_eq] at hk
      subst hk
      exact List.mem_cons_self ..
    · exact List.mem_cons_of_mem _ (lookup_mem h)

theorem memoGet_good {G : Graph} {m : Memo} (hm : MemoOK G m) (k : Nat) : GoodSeen G k (memoGet m k) := by
  unfold memoGet
  split
  · rename_i v hv; exact hm _ (lookup_mem hv)
  · intro x hx; simp at hx

theorem memoSet_ok {G : Graph} {m : Memo} (hm : MemoOK G m) {k : Nat} {v : List Nat} (hv : GoodSeen G k v) :
    MemoOK G (memoSet m k v) := by
  intro e he
  unfold memoSet at he
  simp only [List.mem_cons, List.mem_filter] at he
  rcases he with rfl | ⟨he, _⟩
  · exact hv
  · exact hm e he

/-- no dependency path from `a` to `b` or to a hidden sub-target of `b` -/
def NoConn (G : Graph) (a b : Nat) : Prop := ¬ IsTarget G b a ∧ ∀ z, Path G a z → ¬ IsTarget G b z

theorem spMemo_spec (G : Graph) (m : Memo) (hm : MemoOK G m) (t1 t2 : Nat) :
    (∀ p, (spMemo G m t1 t2).1 = .found p → GoodPath G t1 t2 p) ∧
    ((spMemo G m t1 t2).1 = .nopath → MemoOK G (spMemo G m t1 t2).2 ∧ NoConn G t1 t2) := by
  unfold spMemo
  simp only
  refine ⟨fun p h => somePath_sound G t2 _ _ t1 p h, fun h => ?_⟩
  obtain ⟨hg, h1, h2⟩ := somePath_complete G t2 _ _ t1 (memoGet_good hm t2) h
  exact ⟨memoSet_ok hm hg, h1, h2⟩

theorem spBoth_spec (G : Graph) (m : Memo) (hm : MemoOK G m) (a b : Nat) :
    (∀ p, (spBoth G m a b).1 = .found p → GoodPath G a b p ∨ GoodPath G b a p) ∧
    ((spBoth G m a b).1 = .nopath → MemoOK G (spBoth G m a b).2 ∧ NoConn G a b ∧ NoConn G b a) := by
  unfold spBoth
  have h1 := spMemo_spec G m hm a b
  generalize spMemo G m a b = r1 at h1
  obtain ⟨res, m'⟩ := r1
  cases res with
  | found q => exact ⟨fun p h => Or.inl (h1.1 p h), fun h => by simp at h⟩
  | oof => exact ⟨fun p h => by simp at h, fun h => by simp at h⟩
  | nopath =>
    simp only at h1 ⊢
    obtain ⟨hm', hn1⟩ := h1.2 trivial
    have h2 := spMemo_spec G m' hm' b a
    exact ⟨fun p h => Or.inr (h2.1 p h), fun h => ⟨(h2.2 h).1, hn1, (h2.2 h).2⟩⟩

theorem go_spec (G : Graph) : ∀ (ps : List (Nat × Nat)) (m : Memo), MemoOK G m →
    (∀ p, somePathAll.go G true ps m = .found p → ∃ e ∈ ps, GoodPath G e.1 e.2 p ∨ GoodPath G e.2 e.1 p) ∧
    (somePathAll.go G true ps m = .nopath → ∀ e ∈ ps, NoConn G e.1 e.2 ∧ NoConn G e.2 e.1) := by
  intro ps
  induction ps with
  | nil => intro m _; exact ⟨fun p h => by simp [somePathAll.go] at h, fun _ e he => by simp at he⟩
  | cons e ps ih =>
    intro m hm
    obtain ⟨a, b⟩ := e
    simp only [somePathAll.go]
    have hb := spBoth_spec G m hm a b
    generalize spBoth G m a b = r at hb
    obtain ⟨res, m'⟩ := r
    cases res with
    | found q =>
      simp only at hb ⊢
      refine ⟨fun p h => ?_, fun h => by simp at h⟩
      simp only [ite_true, PRes.found.injEq] at h
      subst h
      exact ⟨(a, b), List.mem_cons_self .., hb.1 q rfl⟩
    | oof => exact ⟨fun p h => by simp at h, fun h => by simp at h⟩
    | nopath =>
      simp only at hb ⊢
      obtain ⟨hm', hn⟩ := hb.2 trivial
      obtain ⟨i1, i2⟩ := ih m' hm'
      refine ⟨fun p h => ?_, fun h e he => ?_⟩
      · obtain ⟨e, he, hg⟩ := i1 p h
        exact ⟨e, List.mem_cons_of_mem _ he, hg⟩
      · simp only [List.mem_cons] at he
        rcases he with rfl | he
        · exact hn
        · exact i2 h e he

/-! ### fuel: the recursion bound `nodes.length + 1` is never reached -/

def SOK (nodes seen : List Nat) : Prop := seen.Nodup ∧ ∀ x ∈ seen, x ∈ nodes

theorem spL_fuel (G : Graph) (t2 fuel : Nat)
    (ih : ∀ seen t1, SOK G.nodes seen → t1 ∈ G.nodes → G.nodes.length + 1 ≤ fuel + seen.length →
      (somePath G t2 fuel seen t1).1 ≠ .oof ∧ SOK G.nodes (somePath G t2 fuel seen t1).2 ∧
      seen.length ≤ (somePath G t2 fuel seen t1).2.length) :
    ∀ (ls seen : List Nat), (∀ l ∈ ls, l ∈ G.nodes) → SOK G.nodes seen → G.nodes.length + 1 ≤ fuel + seen.length →
      (spL G t2 fuel ls seen).1 ≠ .oof ∧ SOK G.nodes (spL G t2 fuel ls seen).2 ∧
      seen.length ≤ (spL G t2 fuel ls seen).2.length := by
  intro ls
  induction ls with
  | nil => intro seen _ hs _; rw [spL_nil]; exact ⟨by simp, hs, Nat.le_refl _⟩
  | cons l ls ihl =>
    intro seen hls hs hf
    rw [spL_cons]
    have hv := ih seen l hs (hls l (List.mem_cons_self ..)) hf
    generalize somePath G t2 fuel seen l = vr at hv ⊢
    obtain ⟨r, s1⟩ := vr
    cases r with
    | nopath =>
      simp only at hv ⊢
      obtain ⟨_, hs1, hl1⟩ := hv
      obtain ⟨h1, h2, h3⟩ := ihl s1 (fun l' h => hls l' (List.mem_cons_of_mem _ h)) hs1 (by omega)
      exact ⟨h1, h2, by omega⟩
    | oof => exact absurd rfl hv.1
    | found q => exact ⟨by simp, hv.2.1, hv.2.2⟩

theorem somePath_fuel (G : Graph) (hwf : GWF G) (t2 : Nat) : ∀ (fuel : Nat) (seen : List Nat) (t1 : Nat),
    SOK G.nodes seen → t1 ∈ G.nodes → G.nodes.length + 1 ≤ fuel + seen.length →
      (somePath G t2 fuel seen t1).1 ≠ .oof ∧ SOK G.nodes (somePath G t2 fuel seen t1).2 ∧
      seen.length ≤ (somePath G t2 fuel seen t1).2.length := by
  intro fuel
  induction fuel with
  | zero =>
    intro seen t1 hs _ hf
    have := PlzVerif.Cycle.nodup_subset_length _ _ hs.1 hs.2
    omega
  | succ fuel ih =>
    intro seen t1 hs ht hf
    rw [somePath_succ]
    split
    · exact ⟨by simp, hs, Nat.le_refl _⟩
    · split
      · exact ⟨by simp, hs, Nat.le_refl _⟩
      · split
        · exact ⟨by simp, hs, Nat.le_refl _⟩
        · rename_i hnin
          have hs' : SOK G.nodes (t1 :: seen) := by
            refine ⟨List.nodup_cons.mpr ⟨hnin, hs.1⟩, ?_⟩
            intro x hx
            simp only [List.mem_cons] at hx
            rcases hx with rfl | hx
            · exact ht
            · exact hs.2 x hx
          have hl := spL_fuel G t2 fuel ih (G.adj t1) (t1 :: seen) (hwf t1 ht) hs'
            (by simp only [List.length_cons]; omega)
          generalize spL G t2 fuel (G.adj t1) (t1 :: seen) = vr at hl ⊢
          obtain ⟨r, s1⟩ := vr
          simp only [List.length_cons] at hl
          cases r with
          | nopath => exact ⟨by simp, hl.2.1, by have := hl.2.2; simp only at this ⊢; omega⟩
          | oof => exact absurd rfl hl.1
          | found q => exact ⟨by simp, hl.2.1, by have := hl.2.2; simp only at this ⊢; omega⟩

def MemoSOK (G : Graph) (m : Memo) : Prop := ∀ e ∈ m, SOK G.nodes e.2

theorem memoGet_sok {G : Graph} {m : Memo} (hm : MemoSOK G m) (k : Nat) : SOK G.nodes (memoGet m k) := by
  unfold memoGet
  split
  · rename_i v hv; exact hm _ (lookup_mem hv)
  · exact ⟨List.nodup_nil, by simp⟩

theorem spMemo_fuel (G : Graph) (hwf : GWF G) (m : Memo) (hm : MemoSOK G m) (t1 t2 : Nat) (h1 : t1 ∈ G.nodes) :
    (spMemo G m t1 t2).1 ≠ .oof ∧ MemoSOK G (spMemo G m t1 t2).2 := by
  unfold spMemo
  simp only
  obtain ⟨h, hs, _⟩ := somePath_fuel G hwf t2 (G.nodes.length + 1) (memoGet m t2) t1 (memoGet_sok hm t2) h1
    (Nat.le_add_right _ _)
  refine ⟨h, ?_⟩
  intro e he
  unfold memoSet at he
  simp only [List.mem_cons, List.mem_filter] at he
  rcases he with rfl | ⟨he, _⟩
  · exact hs
  · exact hm e he

theorem spBoth_fuel (G : Graph) (hwf : GWF G) (m : Memo) (hm : MemoSOK G m) (a b : Nat) (ha : a ∈ G.nodes)
    (hb : b ∈ G.nodes) : (spBoth G m a b).1 ≠ .oof ∧ MemoSOK G (spBoth G m a b).2 := by
  unfold spBoth
  have h1 := spMemo_fuel G hwf m hm a b ha
  generalize spMemo G m a b = r1 at h1
  obtain ⟨res, m'⟩ := r1
  cases res with
  | found q => exact ⟨by simp, h1.2⟩
  | oof => exact absurd rfl h1.1
  | nopath => exact spMemo_fuel G hwf m' h1.2 b a hb

theorem go_fuel (G : Graph) (hwf : GWF G) (sh : Bool) : ∀ (ps : List (Nat × Nat)) (m : Memo), MemoSOK G m →
    (∀ e ∈ ps, e.1 ∈ G.nodes ∧ e.2 ∈ G.nodes) → somePathAll.go G sh ps m ≠ .oof := by
  intro ps
  induction ps with
  | nil => intro m _ _; simp [somePathAll.go]
  | cons e ps ih =>
    intro m hm hps
    obtain ⟨a, b⟩ := e
    simp only [somePathAll.go]
    have hb := spBoth_fuel G hwf m hm a b (hps (a, b) (List.mem_cons_self ..)).1 (hps (a, b) (List.mem_cons_self ..)).2
    generalize spBoth G m a b = r at hb
    obtain ⟨res, m'⟩ := r
    cases res with
    | found q => simp
    | oof => exact absurd rfl hb.1
    | nopath => exact ih m' hb.2 (fun e he => hps e (List.mem_cons_of_mem _ he))

/-! ### a printed path connects its ends -/

theorem chain_path {G : Graph} : ∀ (c : List Nat) (h l : Nat), Chain G c → c.head? = some h →
    c.getLast? = some l → h = l ∨ Path G h l
  | [], _, _, _, hh, _ => by simp at hh
  | [a], h, l, _, hh, hl => by simp at hh hl; left; omega
  | a :: b :: r, h, l, hc, hh, hl => by
    simp at hh; subst hh
    have hl' : (b :: r).getLast? = some l := by
      rw [List.getLast?_cons_of_ne_nil (by simp)] at hl; exact hl
    rcases chain_path (b :: r) b l hc.2 rfl hl' with rfl | p
    · right; exact .single hc.1
    · right; exact .cons hc.1 p

/-- `a` is `b`, a hidden sub-target of `b`, or reaches one of those by a dependency path -/
def Conn (G : Graph) (a b : Nat) : Prop := IsTarget G b a ∨ ∃ z, Path G a z ∧ IsTarget G b z

theorem GoodPath.conn {G : Graph} {a b : Nat} {p : List Nat} (h : GoodPath G a b p) : Conn G a b := by
  obtain ⟨hh, hc, l, hl, ht⟩ := h
  rcases chain_path p a l hc hh hl with rfl | pa
  · exact Or.inl ht
  · exact Or.inr ⟨l, pa, ht⟩

theorem NoConn.not_conn {G : Graph} {a b : Nat} (h : NoConn G a b) : ¬ Conn G a b := by
  rintro (h1 | ⟨z, p, hz⟩)
  · exact h.1 h1
  · exact h.2 z p hz

/-! ### the default rendering (`showHidden = false`): every hidden target replaced by its rule, repeats removed -/

/-- the result without `--hidden` is the result with `--hidden`, rendered -/
theorem go_shape (G : Graph) (sh : Bool) : ∀ (ps : List (Nat × Nat)) (m : Memo),
    somePathAll.go G sh ps m =
      match somePathAll.go G true ps m with
      | .found p => .found (if sh then p else compact (p.map G.pl))
      | .nopath => .nopath
      | .oof => .oof := by
  intro ps
  induction ps with
  | nil => intro m; simp [somePathAll.go]
  | cons e ps ih =>
    intro m
    obtain ⟨a, b⟩ := e
    simp only [somePathAll.go]
    generalize spBoth G m a b = r
    obtain ⟨res, m'⟩ := r
    cases res with
    | nopath => exact ih m'
    | found q => simp
    | oof => rfl

/-- some target of rule `a` depends on some target of rule `b` -/
def RuleStep (G : Graph) (a b : Nat) : Prop := ∃ x y, G.pl x = a ∧ G.pl y = b ∧ Edge G x y

/-- consecutive entries are different rules joined by a dependency between their targets -/
def RChain (G : Graph) : List Nat → Prop
  | [] => True
  | [_] => True
  | a :: b :: r => (RuleStep G a b ∧ a ≠ b) ∧ RChain G (b :: r)

theorem compact_cons_head : ∀ (l : List Nat) (x : Nat), ∃ tl, compact (x :: l) = x :: tl := by
  intro l
  induction l with
  | nil => intro x; exact ⟨[], rfl⟩
  | cons y r ih =>
    intro x
    simp only [compact]
    split
    · rename_i h
      simp only [beq_iff_eq] at h
      subst h
      exact ih x
    · exact ⟨_, rfl⟩

/-- rendering a real dependency chain gives a chain of rules, each depending on the next -/
theorem compact_chain (G : Graph) : ∀ (p : List Nat), Chain G p → RChain G (compact (p.map G.pl))
  | [], _ => trivial
  | [_], _ => trivial
  | a :: b :: r, hc => by
    have ih := compact_chain G (b :: r) hc.2
    simp only [List.map_cons] at ih ⊢
    simp only [compact]
    split
    · exact ih
    · rename_i hne
      obtain ⟨tl, htl⟩ := compact_cons_head (r.map G.pl) (G.pl b)
      rw [htl] at ih ⊢
      exact ⟨⟨⟨a, b, rfl, rfl, hc.1⟩, by simpa using hne⟩, ih⟩

end PlzVerif.Query
