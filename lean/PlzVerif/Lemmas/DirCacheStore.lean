import PlzVerif.Lemmas.DirCache
/-!
What a complete plain-mode store leaves under the temporary root (and hence, after the rename, in the entry):
for every requested output, exactly the source tree at and below it.
-/
namespace PlzVerif.DirCache

/-- The source listing is in walk order: no empty path, no path twice, and every proper non-empty ancestor of an
    entry has been listed before it as a directory. -/
def srcOK (seen : Tree) : Tree → Bool
  | [] => true
  | e :: rest =>
    decide (e.1 ≠ []) && decide (seen.get e.1 = none) &&
    (List.range e.1.length).all (fun k => decide (k = 0) || decide (seen.get (e.1.take k) = some .dir)) &&
    srcOK (seen ++ [e]) rest

theorem Tree.get_append_single (seen : Tree) (e : Path × Item) (q : Path) :
    Tree.get (seen ++ [e]) q =
      match Tree.get seen q with
      | some x => some x
      | none => if e.1 = q then some e.2 else none := by
  unfold Tree.get
  rw [List.find?_append]
  cases h : List.find? (fun x => decide (x.1 = q)) seen with
  | some x => simp
  | none =>
    simp only [Option.none_or, Option.map_none]
    by_cases he : e.1 = q <;> simp [he]

theorem prefix_eq_take {q p : Path} (h : q <+: p) : q = p.take q.length := List.prefix_iff_eq_take.mp h

theorem isPrefixOf_eq_true_iff {q p : Path} : q.isPrefixOf p = true ↔ q <+: p := List.isPrefixOf_iff_prefix

/-! ### MkdirAll -/

theorem clearTo_of (fs : FS) (p q : Path) (hq : q <+: p)
    (hclear : ∀ k, k ≤ p.length → fs .tmp (p.take k) = none ∨ fs .tmp (p.take k) = some .dir) :
    fs.clearTo .tmp q = true := by
  unfold FS.clearTo
  rw [List.all_eq_true]
  intro k hk
  rw [List.mem_range] at hk
  have hql := hq.length_le
  have : q.take k = p.take k := by
    rw [prefix_eq_take hq, List.take_take]
    congr 1; omega
  rw [this]
  rcases hclear k (by omega) with h | h <;> simp [h]

theorem mkdirAll_tmp_prefix (fs : FS) (p q : Path) (hq : q <+: p)
    (hclear : ∀ k, k ≤ p.length → fs .tmp (p.take k) = none ∨ fs .tmp (p.take k) = some .dir) :
    apply1 fs (.mkdirAll .tmp p) .tmp q = some .dir := by
  have hc := clearTo_of fs p q hq hclear
  have hqp : q.isPrefixOf p = true := isPrefixOf_eq_true_iff.mpr hq
  simp only [apply1]
  by_cases hn : fs .tmp q = none
  · simp [hqp, hn, hc]
  · have : fs .tmp q = some .dir := by
      have := hclear q.length hq.length_le
      rw [← prefix_eq_take hq] at this
      rcases this with h | h
      · exact absurd h hn
      · exact h
    simp [this]

theorem mkdirAll_tmp_other (fs : FS) (p q : Path) (hq : ¬ q <+: p) :
    apply1 fs (.mkdirAll .tmp p) .tmp q = fs .tmp q := by
  have hqp : q.isPrefixOf p = false := by
    cases h : q.isPrefixOf p with
    | false => rfl
    | true => exact absurd (isPrefixOf_eq_true_iff.mp h) hq
  simp [apply1, hqp]

theorem mkdirAll_tmp_final (fs : FS) (p q : Path) : apply1 fs (.mkdirAll .tmp p) .final q = fs .final q := by
  simp [apply1]

/-- `MkdirAll` never changes a node that already exists. -/
theorem mkdirAll_tmp_keep (fs : FS) (p q : Path) (h : fs .tmp q ≠ none) :
    apply1 fs (.mkdirAll .tmp p) .tmp q = fs .tmp q := by
  simp [apply1, h]

/-! ### RecursiveLink of one output -/

/-- State of the walk that links the source tree at `o` into the temporary root, after the entries `seen`. -/
structure LinkInv (o : Path) (seen : Tree) (fs : FS) : Prop where
  above : ∀ k, k < o.length → fs .tmp (o.take k) = some .dir
  below : ∀ p, o <+: p → fs .tmp p = seen.get p

def linkOp (e : Path × Item) : Op :=
  match e.2 with
  | .dir => .mkdirAll .tmp e.1
  | i => .put .tmp e.1 i

theorem linkTreeOps_eq (src : Tree) (o : Path) : linkTreeOps src o = (src.below o).map linkOp := by
  unfold linkTreeOps linkOp
  rfl

theorem linkOp_tmpOnly (e : Path × Item) : (linkOp e).tmpOnly = true := by
  unfold linkOp
  cases e.2 <;> rfl

/-- Outside the subtree at `o` the walk changes nothing. -/
def Frame (o : Path) (fs fs' : FS) : Prop :=
  (∀ q, fs' .final q = fs .final q) ∧ (∀ q, ¬ o <+: q → fs' .tmp q = fs .tmp q)

theorem Frame.refl (o : Path) (fs : FS) : Frame o fs fs := ⟨fun _ => rfl, fun _ _ => rfl⟩

theorem Frame.trans {o : Path} {a b c : FS} (h1 : Frame o a b) (h2 : Frame o b c) : Frame o a c :=
  ⟨fun q => (h2.1 q).trans (h1.1 q), fun q hq => (h2.2 q hq).trans (h1.2 q hq)⟩

theorem take_prefix_of_le {p : Path} {o : Path} (ho : o <+: p) {k : Nat} (hk : o.length ≤ k) : o <+: p.take k := by
  rw [List.prefix_take_iff]
  exact ⟨ho, hk⟩

theorem take_eq_of_prefix {p o : Path} (ho : o <+: p) {k : Nat} (hk : k ≤ o.length) : p.take k = o.take k := by
  rw [prefix_eq_take ho, List.take_take]
  congr 1; omega

theorem link_step (o : Path) (ho : o ≠ []) (seen : Tree) (fs : FS) (e : Path × Item)
    (hinv : LinkInv o seen fs) (he1 : e.1 ≠ []) (he2 : seen.get e.1 = none)
    (he3 : ∀ k, k < e.1.length → k = 0 ∨ seen.get (e.1.take k) = some .dir) :
    let fs' := if o.isPrefixOf e.1 then apply1 fs (linkOp e) else fs
    LinkInv o (seen ++ [e]) fs' ∧ Frame o fs fs' := by
  intro fs'
  by_cases hoe : o <+: e.1
  · have hb : o.isPrefixOf e.1 = true := isPrefixOf_eq_true_iff.mpr hoe
    have hfs' : fs' = apply1 fs (linkOp e) := by simp [fs', hb]
    rw [hfs']
    obtain ⟨p, i⟩ := e
    simp only at he1 he2 he3 hoe
    have hlen := hoe.length_le
    have holen : 0 < o.length := List.length_pos_iff.mpr ho
    have hnone : fs .tmp p = none := by rw [hinv.below p hoe]; exact he2
    -- every proper prefix of p is a directory
    have hprefix : ∀ k, k < p.length → fs .tmp (p.take k) = some .dir := by
      intro k hk
      by_cases hko : k < o.length
      · rw [take_eq_of_prefix hoe (Nat.le_of_lt hko)]
        exact hinv.above k hko
      · have hko' : o.length ≤ k := Nat.le_of_not_lt hko
        rw [hinv.below _ (take_prefix_of_le hoe hko')]
        rcases he3 k hk with h | h
        · omega
        · exact h
    have hparent : fs .tmp p.dropLast = some .dir := by
      rw [List.dropLast_eq_take]
      apply hprefix
      have : 0 < p.length := List.length_pos_iff.mpr he1
      omega
    cases i with
    | dir =>
      have hclear : ∀ k, k ≤ p.length → fs .tmp (p.take k) = none ∨ fs .tmp (p.take k) = some .dir := by
        intro k hk
        by_cases hkp : k < p.length
        · right; exact hprefix k hkp
        · left
          have : k = p.length := by omega
          rw [this, List.take_length]; exact hnone
      refine ⟨⟨?_, ?_⟩, ?_, ?_⟩
      · intro k hk
        show apply1 fs (.mkdirAll .tmp p) .tmp (o.take k) = some .dir
        apply mkdirAll_tmp_prefix _ _ _ _ hclear
        exact (List.take_prefix k o).trans hoe
      · intro q hq
        show apply1 fs (.mkdirAll .tmp p) .tmp q = _
        rw [Tree.get_append_single]
        by_cases hqp : q <+: p
        · rw [mkdirAll_tmp_prefix _ _ _ hqp hclear]
          by_cases hqe : q = p
          · subst hqe; simp [he2]
          · have hql : q.length < p.length := by
              rcases Nat.lt_or_ge q.length p.length with h | h
              · exact h
              · exact absurd (hqp.eq_of_length (Nat.le_antisymm hqp.length_le h)) hqe
            have := hprefix q.length hql
            rw [← prefix_eq_take hqp, hinv.below q hq] at this
            rw [this]
        · rw [mkdirAll_tmp_other _ _ _ hqp, hinv.below q hq]
          have : p ≠ q := fun h => hqp (h ▸ List.prefix_refl _)
          cases seen.get q <;> simp [this]
      · intro q; exact mkdirAll_tmp_final fs p q
      · intro q hq
        show apply1 fs (.mkdirAll .tmp p) .tmp q = _
        by_cases hqp : q <+: p
        · -- a prefix of p that is not below o is a proper prefix of o: already a directory
          have hql : q.length < o.length := by
            rcases Nat.lt_or_ge q.length o.length with h | h
            · exact h
            · exact absurd (List.prefix_of_prefix_length_le hoe hqp h) hq
          have hd : fs .tmp q = some .dir := by
            have := hprefix q.length (by omega)
            rwa [← prefix_eq_take hqp] at this
          rw [mkdirAll_tmp_keep _ _ _ (by rw [hd]; simp)]
        · exact mkdirAll_tmp_other _ _ _ hqp
    | file c x =>
      have happ : ∀ r q, apply1 fs (.put .tmp p (.file c x)) r q =
          if r = .tmp ∧ q = p then some (.file c x) else fs r q := by
        intro r q
        simp only [apply1]
        by_cases h : r = .tmp ∧ q = p
        · simp [h, hnone, he1, hparent]
        · have : ¬ (r = .tmp ∧ q = p ∧ fs .tmp p = none ∧ p ≠ [] ∧ fs .tmp p.dropLast = some .dir) :=
            fun hh => h ⟨hh.1, hh.2.1⟩
          simp [h, this]
      refine ⟨⟨?_, ?_⟩, ?_, ?_⟩
      · intro k hk
        show apply1 fs (.put .tmp p (.file c x)) .tmp (o.take k) = some .dir
        rw [happ]
        have : o.take k ≠ p := by
          intro h
          have := congrArg List.length h
          rw [List.length_take] at this
          omega
        simp [this]; exact hinv.above k hk
      · intro q hq
        show apply1 fs (.put .tmp p (.file c x)) .tmp q = _
        rw [happ, Tree.get_append_single]
        by_cases hqp : q = p
        · subst hqp; simp [he2]
        · have : p ≠ q := fun h => hqp h.symm
          rw [hinv.below q hq]
          cases seen.get q <;> simp [hqp, this]
      · intro q
        show apply1 fs (.put .tmp p (.file c x)) .final q = _
        rw [happ]; simp
      · intro q hq
        show apply1 fs (.put .tmp p (.file c x)) .tmp q = _
        rw [happ]
        have : q ≠ p := fun h => hq (h ▸ hoe)
        simp [this]
    | link t =>
      have happ : ∀ r q, apply1 fs (.put .tmp p (.link t)) r q =
          if r = .tmp ∧ q = p then some (.link t) else fs r q := by
        intro r q
        simp only [apply1]
        by_cases h : r = .tmp ∧ q = p
        · simp [h, hnone, he1, hparent]
        · have : ¬ (r = .tmp ∧ q = p ∧ fs .tmp p = none ∧ p ≠ [] ∧ fs .tmp p.dropLast = some .dir) :=
            fun hh => h ⟨hh.1, hh.2.1⟩
          simp [h, this]
      refine ⟨⟨?_, ?_⟩, ?_, ?_⟩
      · intro k hk
        show apply1 fs (.put .tmp p (.link t)) .tmp (o.take k) = some .dir
        rw [happ]
        have : o.take k ≠ p := by
          intro h
          have := congrArg List.length h
          rw [List.length_take] at this
          omega
        simp [this]; exact hinv.above k hk
      · intro q hq
        show apply1 fs (.put .tmp p (.link t)) .tmp q = _
        rw [happ, Tree.get_append_single]
        by_cases hqp : q = p
        · subst hqp; simp [he2]
        · have : p ≠ q := fun h => hqp h.symm
          rw [hinv.below q hq]
          cases seen.get q <;> simp [hqp, this]
      · intro q
        show apply1 fs (.put .tmp p (.link t)) .final q = _
        rw [happ]; simp
      · intro q hq
        show apply1 fs (.put .tmp p (.link t)) .tmp q = _
        rw [happ]
        have : q ≠ p := fun h => hq (h ▸ hoe)
        simp [this]
  · have hb : o.isPrefixOf e.1 = false := by
      cases h : o.isPrefixOf e.1 with
      | false => rfl
      | true => exact absurd (isPrefixOf_eq_true_iff.mp h) hoe
    have hfs' : fs' = fs := by simp [fs', hb]
    rw [hfs']
    refine ⟨⟨hinv.above, ?_⟩, Frame.refl o fs⟩
    intro q hq
    rw [Tree.get_append_single, hinv.below q hq]
    have : e.1 ≠ q := fun h => hoe (h ▸ hq)
    cases seen.get q <;> simp [this]

/-- The whole walk. -/
theorem link_walk (o : Path) (ho : o ≠ []) : ∀ (rest seen : Tree) (fs : FS),
    srcOK seen rest = true → LinkInv o seen fs →
    LinkInv o (seen ++ rest) (applyOps fs ((rest.below o).map linkOp)) ∧
      Frame o fs (applyOps fs ((rest.below o).map linkOp)) := by
  intro rest
  induction rest with
  | nil => intro seen fs _ h; simpa [Tree.below, applyOps] using ⟨h, Frame.refl o fs⟩
  | cons e rest ih =>
    intro seen fs hok hinv
    simp only [srcOK, Bool.and_eq_true, decide_eq_true_eq, List.all_eq_true, List.mem_range,
      Bool.or_eq_true] at hok
    obtain ⟨⟨⟨h1, h2⟩, h3⟩, h4⟩ := hok
    have hstep := link_step o ho seen fs e hinv h1 h2 h3
    simp only at hstep
    by_cases hb : o.isPrefixOf e.1 = true
    · rw [if_pos hb] at hstep
      have := ih (seen ++ [e]) _ h4 hstep.1
      have heq : (Tree.below (e :: rest) o).map linkOp = linkOp e :: (Tree.below rest o).map linkOp := by
        simp [Tree.below, hb]
      rw [heq, applyOps_cons, show seen ++ e :: rest = (seen ++ [e]) ++ rest by simp]
      exact ⟨this.1, hstep.2.trans this.2⟩
    · rw [if_neg hb] at hstep
      have := ih (seen ++ [e]) _ h4 hstep.1
      have heq : (Tree.below (e :: rest) o).map linkOp = (Tree.below rest o).map linkOp := by
        simp [Tree.below, hb]
      rw [heq, show seen ++ e :: rest = (seen ++ [e]) ++ rest by simp]
      exact this


/-! ### the store-into-temp phase -/

/-- Anything left under the temporary root by an earlier, interrupted store lies below one of the outputs or
    is a directory. -/
def StaleOK (fs : FS) (outs : List Path) : Prop :=
  ∀ p, fs .tmp p ≠ none → (∃ o ∈ outs, o <+: p) ∨ fs .tmp p = some .dir

/-- No requested output lies inside another one. -/
def Incomparable (outs : List Path) : Prop := ∀ a ∈ outs, ∀ b ∈ outs, a <+: b → a = b

structure StoreInv (src : Tree) (outs done : List Path) (fs : FS) : Prop where
  stored : ∀ o ∈ done, ∀ p, o <+: p → fs .tmp p = src.get p
  stale : StaleOK fs outs
  root : done ≠ [] → fs .tmp [] = some .dir

theorem rmSub_tmp (fs : FS) (o q : Path) :
    apply1 fs (.rmSub .tmp o) .tmp q = if o <+: q then none else fs .tmp q := by
  simp only [apply1]
  by_cases h : o <+: q
  · simp [isPrefixOf_eq_true_iff.mpr h, h]
  · have : o.isPrefixOf q = false := by
      cases h' : o.isPrefixOf q with
      | false => rfl
      | true => exact absurd (isPrefixOf_eq_true_iff.mp h') h
    simp [this, h]

theorem readyOps_tmpOnly (o : Path) : ∀ op ∈ readyOps o, op.tmpOnly = true := by
  intro op h
  simp only [readyOps, List.mem_cons, List.mem_nil_iff, or_false] at h
  rcases h with h | h <;> subst h <;> rfl

theorem linkTreeOps_tmpOnly (src : Tree) (o : Path) : ∀ op ∈ linkTreeOps src o, op.tmpOnly = true := by
  intro op h
  rw [linkTreeOps_eq, List.mem_map] at h
  obtain ⟨e, _, rfl⟩ := h
  exact linkOp_tmpOnly e

theorem store_one (src : Tree) (hsrc : srcOK [] src = true) (outs done : List Path) (hinc : Incomparable outs)
    (hdone : ∀ o ∈ done, o ∈ outs) (o : Path) (hoo : o ∈ outs) (ho : o ≠ []) (fs : FS)
    (hinv : StoreInv src outs done fs) :
    StoreInv src outs (done ++ [o]) (applyOps fs (readyOps o ++ linkTreeOps src o)) ∧
    ∀ q, applyOps fs (readyOps o ++ linkTreeOps src o) .final q = fs .final q := by
  have holen : 0 < o.length := List.length_pos_iff.mpr ho
  have hfinal : ∀ q, applyOps fs (readyOps o ++ linkTreeOps src o) .final q = fs .final q := by
    apply applyOps_tmpOnly_final
    intro op h
    rcases List.mem_append.mp h with h | h
    · exact readyOps_tmpOnly o op h
    · exact linkTreeOps_tmpOnly src o op h
  refine ⟨?_, hfinal⟩
  -- MkdirAll of the parent
  have hdl : o.dropLast <+: o := List.dropLast_prefix o
  have hdlen : o.dropLast.length = o.length - 1 := List.length_dropLast
  have hclear : ∀ k, k ≤ o.dropLast.length →
      fs .tmp (o.dropLast.take k) = none ∨ fs .tmp (o.dropLast.take k) = some .dir := by
    intro k hk
    by_cases hn : fs .tmp (o.dropLast.take k) = none
    · left; exact hn
    · right
      rcases hinv.stale _ hn with ⟨o', ho', hpre⟩ | h
      · exfalso
        have h1 : o' <+: o := (hpre.trans (List.take_prefix _ _)).trans hdl
        have h2 := hinc o' ho' o hoo h1
        subst h2
        have := hpre.length_le
        rw [List.length_take] at this
        omega
      · exact h
  let fs1 := apply1 fs (.mkdirAll .tmp o.dropLast)
  let fs2 := apply1 fs1 (.rmSub .tmp o)
  have hfs1_pre : ∀ q, q <+: o.dropLast → fs1 .tmp q = some .dir :=
    fun q hq => mkdirAll_tmp_prefix fs _ q hq hclear
  have hfs1_other : ∀ q, ¬ q <+: o.dropLast → fs1 .tmp q = fs .tmp q :=
    fun q hq => mkdirAll_tmp_other fs _ q hq
  have hfs2 : ∀ q, fs2 .tmp q = if o <+: q then none else fs1 .tmp q := fun q => rmSub_tmp fs1 o q
  have hlink0 : LinkInv o [] fs2 := by
    refine ⟨?_, ?_⟩
    · intro k hk
      have hnot : ¬ o <+: o.take k := by
        intro h
        have := h.length_le
        rw [List.length_take] at this
        omega
      rw [hfs2, if_neg hnot]
      apply hfs1_pre
      rw [List.dropLast_eq_take, List.prefix_take_iff]
      refine ⟨List.take_prefix _ _, ?_⟩
      rw [List.length_take]; omega
    · intro p hp
      rw [hfs2, if_pos hp]; rfl
  have hwalk := link_walk o ho src [] fs2 hsrc hlink0
  simp only [List.nil_append] at hwalk
  have hops : applyOps fs (readyOps o ++ linkTreeOps src o) = applyOps fs2 ((src.below o).map linkOp) := by
    rw [applyOps_append, linkTreeOps_eq]
    rfl
  rw [hops]
  obtain ⟨hl, hf⟩ := hwalk
  -- value of a node outside the subtree at o
  have houtside : ∀ q, ¬ o <+: q → applyOps fs2 ((src.below o).map linkOp) .tmp q = fs1 .tmp q := by
    intro q hq
    rw [hf.2 q hq, hfs2, if_neg hq]
  refine ⟨?_, ?_, ?_⟩
  · intro o' ho' p hp
    rcases List.mem_append.mp ho' with ho' | ho'
    · by_cases hoo' : o' = o
      · subst hoo'; exact hl.below p hp
      · have hnot : ¬ o <+: p := by
          intro h
          rcases List.prefix_or_prefix_of_prefix h hp with h' | h'
          · exact hoo' (hinc o hoo o' (hdone o' ho') h').symm
          · exact hoo' (hinc o' (hdone o' ho') o hoo h')
        rw [houtside p hnot]
        have hnot2 : ¬ p <+: o.dropLast := by
          intro h
          exact hoo' (hinc o' (hdone o' ho') o hoo ((hp.trans h).trans hdl))
        rw [hfs1_other p hnot2]
        exact hinv.stored o' ho' p hp
    · simp only [List.mem_cons, List.mem_nil_iff, or_false] at ho'
      subst ho'; exact hl.below p hp
  · intro p hp
    by_cases hop : o <+: p
    · left; exact ⟨o, hoo, hop⟩
    · rw [houtside p hop] at hp ⊢
      by_cases hpd : p <+: o.dropLast
      · right; exact hfs1_pre p hpd
      · rw [hfs1_other p hpd] at hp ⊢
        exact hinv.stale p hp
  · intro _
    have := hl.above 0 holen
    simpa using this

theorem store_all (src : Tree) (hsrc : srcOK [] src = true) (outs : List Path) (hinc : Incomparable outs) :
    ∀ (todo done : List Path) (fs : FS), (∀ o ∈ todo, o ∈ outs ∧ o ≠ []) → (∀ o ∈ done, o ∈ outs) →
    StoreInv src outs done fs →
    StoreInv src outs (done ++ todo) (applyOps fs (todo.flatMap fun o => readyOps o ++ linkTreeOps src o)) ∧
    ∀ q, applyOps fs (todo.flatMap fun o => readyOps o ++ linkTreeOps src o) .final q = fs .final q := by
  intro todo
  induction todo with
  | nil => intro done fs _ _ h; simpa [applyOps] using h
  | cons o todo ih =>
    intro done fs htodo hdone hinv
    have ho := htodo o (List.mem_cons_self ..)
    have h1 := store_one src hsrc outs done hinc hdone o ho.1 ho.2 fs hinv
    have h2 := ih (done ++ [o]) _ (fun x hx => htodo x (List.mem_cons_of_mem _ hx))
      (by intro x hx
          rcases List.mem_append.mp hx with h | h
          · exact hdone x h
          · simp only [List.mem_cons, List.mem_nil_iff, or_false] at h; subst h; exact ho.1)
      h1.1
    rw [List.flatMap_cons, applyOps_append, show done ++ o :: todo = (done ++ [o]) ++ todo by simp]
    exact ⟨h2.1, fun q => (h2.2 q).trans (h1.2 q)⟩

theorem rmSubs_final_tmp (ps : List Path) : ∀ (fs : FS) (q : Path),
    applyOps fs (ps.map (.rmSub .final)) .tmp q = fs .tmp q := by
  induction ps with
  | nil => intro fs q; rfl
  | cons p ps ih =>
    intro fs q
    simp only [List.map_cons, applyOps_cons]
    rw [ih]
    simp [apply1]

/-- The middle section of a plain-mode store and what the whole list looks like. -/
def midU (src : Tree) (outs : List Path) : List Op := outs.flatMap fun o => readyOps o ++ linkTreeOps src o

theorem midU_tmpOnly (src : Tree) (outs : List Path) : ∀ op ∈ midU src outs, op.tmpOnly = true := by
  intro op h
  simp only [midU, List.mem_flatMap] at h
  obtain ⟨o, _, h⟩ := h
  rcases List.mem_append.mp h with h | h
  · exact readyOps_tmpOnly o op h
  · exact linkTreeOps_tmpOnly src o op h

def canonOrder : List String := ["remove-final", "store-tmp", "rename-tmp-final"]

theorem expand_store_steps (src : Tree) (rm : List Path) : ∀ outs : List Path,
    List.flatMap (expandU src rm) (List.flatMap (fun o => [Step.ready o, Step.linkTree o]) outs) =
      List.flatMap (fun o => readyOps o ++ linkTreeOps src o) outs := by
  intro outs
  induction outs with
  | nil => rfl
  | cons o outs ih =>
    simp only [List.flatMap_cons, List.flatMap_append, ih]
    simp [expandU]

theorem storeOpsU_shape (src : Tree) (rm outs : List Path) :
    storeOpsU canonOrder src rm outs =
      rm.map (Op.rmSub .final) ++ Op.rmSub .final [] :: (midU src outs ++ [Op.rename]) := by
  simp [storeOpsU, stepsU, canonOrder, expandU, midU, List.flatMap_append, List.flatMap_cons,
    expand_store_steps]

/-- What a complete plain-mode store leaves in the entry. -/
theorem store_complete (src : Tree) (hsrc : srcOK [] src = true) (outs rm : List Path) (hinc : Incomparable outs)
    (hne : ∀ o ∈ outs, o ≠ []) (fs0 : FS) (hstale : StaleOK fs0 outs) :
    let s := applyOps fs0 (storeOpsU canonOrder src rm outs)
    (∀ o ∈ outs, ∀ p, o <+: p → s .final p = src.get p) ∧ (outs ≠ [] → s .final [] = some .dir) := by
  intro s
  have hs : s = applyOps fs0 (rm.map (Op.rmSub .final) ++ Op.rmSub .final [] :: (midU src outs ++ [Op.rename])) := by
    show applyOps fs0 (storeOpsU canonOrder src rm outs) = _
    rw [storeOpsU_shape]
  let s1 := apply1 (applyOps fs0 (rm.map (Op.rmSub .final))) (.rmSub .final [])
  have hs1f : ∀ q, s1 .final q = none := fun q => rmFinal_empty _ q
  have hs1t : ∀ q, s1 .tmp q = fs0 .tmp q := by
    intro q
    show apply1 _ (.rmSub .final []) .tmp q = _
    rw [show apply1 (applyOps fs0 (rm.map (Op.rmSub .final))) (.rmSub .final []) .tmp q =
      applyOps fs0 (rm.map (Op.rmSub .final)) .tmp q by simp [apply1]]
    exact rmSubs_final_tmp rm fs0 q
  have hinv1 : StoreInv src outs [] s1 := by
    refine ⟨(by intro o ho; cases ho), ?_, (by intro h; exact absurd rfl h)⟩
    intro p hp
    rw [hs1t] at hp ⊢
    exact hstale p hp
  have hall := store_all src hsrc outs hinc outs [] s1 (fun o ho => ⟨ho, hne o ho⟩) (by intro o ho; cases ho) hinv1
  simp only [List.nil_append] at hall
  obtain ⟨hinv2, hfin2⟩ := hall
  let s2 := applyOps s1 (midU src outs)
  have hs2 : s = apply1 s2 .rename := by
    rw [hs, applyOps_append, applyOps_cons, applyOps_append]
    rfl
  have hs2f : s2 .final [] = none := by
    show applyOps s1 (midU src outs) .final [] = none
    rw [show midU src outs = outs.flatMap fun o => readyOps o ++ linkTreeOps src o from rfl, hfin2, hs1f]
  refine ⟨?_, ?_⟩
  · intro o ho p hp
    by_cases hroot : s2 .tmp [] = none
    · -- cannot happen: outs is non-empty here
      have := hinv2.root (List.ne_nil_of_mem ho)
      rw [show applyOps s1 (outs.flatMap fun o => readyOps o ++ linkTreeOps src o) = s2 from rfl] at this
      rw [this] at hroot; cases hroot
    · rw [hs2]
      simp only [apply1, hroot, hs2f, if_false, ne_eq, not_true_eq_false]
      exact hinv2.stored o ho p hp
  · intro hne'
    have hroot := hinv2.root hne'
    rw [show applyOps s1 (outs.flatMap fun o => readyOps o ++ linkTreeOps src o) = s2 from rfl] at hroot
    rw [hs2]
    simp only [apply1, hroot, hs2f, if_false, ne_eq, not_true_eq_false]
    simp [hroot]

end PlzVerif.DirCache
