import PlzVerif.Model.RuleHash
import PlzVerif.Lemmas.Frame
import PlzVerif.Lemmas.SortPerm
/-!
Lemmas about the rule-hash pre-image (C07, C08, C10).

* `AttrRef`, `Item.ref`, `AgreeExcept`: an item reads exactly one attribute of the view, so two views that
  agree everywhere except on attribute `r` serialise every other item alike (`serGuarded_agree`).
* `serView_single`: if `r` is written exactly once, equal pre-images force that one item's bytes to be equal.
  All `C08_partial_*` theorems are instances.
* `view_perm` (C07): the view — hence the pre-image — does not depend on the order of any Go map or of the
  dependency list, as long as every accessor sorts (`Facts.allSorted`).
* `serViewFramed_inj`: the framed encoding over the same schema determines every attribute it writes.
-/
namespace PlzVerif.RuleHash
open PlzVerif.Frame

theorem flatMap_congr_mem {α β : Type} {f g : α → List β} : ∀ (l : List α), (∀ x ∈ l, f x = g x) → l.flatMap f = l.flatMap g
  | [], _ => rfl
  | x :: r, h => by
    simp only [List.flatMap_cons]
    rw [h x (List.mem_cons_self ..), flatMap_congr_mem r (fun y hy => h y (List.mem_cons_of_mem _ hy))]

/-! ### which attribute an item reads -/

inductive AttrRef where
  | s (a : SAttr) | l (a : LAttr) | g (a : GAttr) | m (a : MAttr) | b (a : BAttr) | passEnv
  deriving DecidableEq, Repr

def Item.ref : Item → AttrRef
  | .str a => .s a | .strs a => .l a | .groups a => .g a | .kv a => .m a
  | .bool a => .b a | .optBool a => .b a | .passEnv => .passEnv

/-- The attribute a guard looks at, if any. -/
def Guard.reads : Guard → Option AttrRef
  | .hasHashes => some (.l .hashes)
  | _ => none

/-- Does this schema entry depend on attribute `r` (through what it writes or through its guard)? -/
def mentions (r : AttrRef) (gi : Guard × Item) : Bool := gi.2.ref == r || gi.1.reads == some r

/-- The two views agree on everything except (possibly) attribute `r`. -/
structure AgreeExcept (r : AttrRef) (v v' : View) : Prop where
  str : ∀ a, r ≠ .s a → v.str a = v'.str a
  list : ∀ a, r ≠ .l a → v.list a = v'.list a
  groups : ∀ a, r ≠ .g a → v.groups a = v'.groups a
  map : ∀ a, r ≠ .m a → v.map a = v'.map a
  flag : ∀ a, r ≠ .b a → v.flag a = v'.flag a
  passEnv : r ≠ .passEnv → v.passEnv = v'.passEnv
  isTest : v.isTest = v'.isTest

theorem guardOn_agree (c : Ctx) {r : AttrRef} {v v' : View} (h : AgreeExcept r v v') (g : Guard) (hg : g.reads ≠ some r) :
    guardOn c v g = guardOn c v' g := by
  cases g <;> simp only [guardOn, h.isTest]
  have : r ≠ .l .hashes := fun e => hg (by rw [e]; rfl)
  rw [h.list _ this]

theorem serGuarded_agree (F : Facts) (c : Ctx) {r : AttrRef} {v v' : View} (h : AgreeExcept r v v')
    (gi : Guard × Item) (hne : mentions r gi = false) : serGuarded F c v gi = serGuarded F c v' gi := by
  obtain ⟨g, i⟩ := gi
  simp only [mentions, Bool.or_eq_false_iff, beq_eq_false_iff_ne, ne_eq] at hne
  obtain ⟨hne, hgr⟩ := hne
  have hg : guardOn c v g = guardOn c v' g := guardOn_agree c h g hgr
  simp only [serGuarded, hg]
  split
  · cases i <;> simp only [Item.ref] at hne <;> simp only [serItem]
    · rw [h.str _ (Ne.symm hne)]
    · rw [h.list _ (Ne.symm hne)]
    · rw [h.groups _ (Ne.symm hne)]
    · rw [h.map _ (Ne.symm hne)]
    · rw [h.flag _ (Ne.symm hne)]
    · rw [h.flag _ (Ne.symm hne)]
    · rw [h.passEnv (Ne.symm hne)]
  · rfl

theorem serView_append (F : Facts) (c : Ctx) (v : View) (a b : List (Guard × Item)) :
    serView F c v (a ++ b) = serView F c v a ++ serView F c v b := by
  simp [serView]

theorem serView_agree (F : Facts) (c : Ctx) {r : AttrRef} {v v' : View} (h : AgreeExcept r v v') :
    ∀ (items : List (Guard × Item)), (∀ j ∈ items, mentions r j = false) → serView F c v items = serView F c v' items
  | [], _ => rfl
  | j :: rest, hj => by
    have h1 := serGuarded_agree F c h j (hj j (List.mem_cons_self ..))
    have h2 := serView_agree F c h rest (fun k hk => hj k (List.mem_cons_of_mem _ hk))
    simp only [serView, List.flatMap_cons] at h2 ⊢
    rw [h1, h2]

/-- Conversely for a list attribute: views that agree elsewhere and whose lists have the same concatenation
    serialise alike, however often the attribute is written. -/
theorem serView_congr_list (F : Facts) (c : Ctx) {v v' : View} (a : LAttr) (ha : a ≠ .hashes)
    (h : AgreeExcept (.l a) v v') (hf : (v.list a).flatten = (v'.list a).flatten) :
    ∀ (items : List (Guard × Item)), serView F c v items = serView F c v' items
  | [] => rfl
  | gi :: rest => by
    have ih := serView_congr_list F c a ha h hf rest
    simp only [serView, List.flatMap_cons] at ih ⊢
    rw [ih]
    congr 1
    have hgr : gi.1.reads ≠ some (.l a) := by
      obtain ⟨g, i⟩ := gi
      cases g <;> simp [Guard.reads]
      exact fun e => ha e.symm
    by_cases hr : gi.2.ref = .l a
    · obtain ⟨g, i⟩ := gi
      have hg : guardOn c v g = guardOn c v' g := guardOn_agree c h g hgr
      cases i <;> simp only [Item.ref, AttrRef.l.injEq, reduceCtorEq] at hr
      subst hr
      simp only [serGuarded, hg, serItem, hf]
    · exact serGuarded_agree F c h gi (by simp [mentions, hr, hgr])

/-- Attribute `r` is written exactly once (by `gi`): equal pre-images force equal bytes for that write. -/
theorem serView_single (F : Facts) (c : Ctx) {r : AttrRef} {v v' : View} (h : AgreeExcept r v v')
    (pre post : List (Guard × Item)) (gi : Guard × Item)
    (hpre : ∀ j ∈ pre, mentions r j = false) (hpost : ∀ j ∈ post, mentions r j = false)
    (e : serView F c v (pre ++ gi :: post) = serView F c v' (pre ++ gi :: post)) :
    serGuarded F c v gi = serGuarded F c v' gi := by
  have e1 := serView_agree F c h pre hpre
  have e2 := serView_agree F c h post hpost
  rw [serView_append, serView_append] at e
  have e' : serView F c v (gi :: post) = serView F c v' (gi :: post) := by
    rw [e1] at e; exact List.append_cancel_left e
  simp only [serView, List.flatMap_cons] at e' e2
  rw [e2] at e'
  exact List.append_cancel_right e'

/-- Split a schema at the unique write of `r` (`none` if it is written zero or several times). -/
def splitAt (r : AttrRef) : List (Guard × Item) → Option (List (Guard × Item) × (Guard × Item) × List (Guard × Item))
  | [] => none
  | j :: rest =>
    if j.2.ref = r then (if rest.all (fun k => !mentions r k) && j.1.reads != some r then some ([], j, rest) else none)
    else if mentions r j then none
    else (splitAt r rest).map fun (p, x, q) => (j :: p, x, q)

theorem splitAt_spec (r : AttrRef) : ∀ (items : List (Guard × Item)) {pre gi post},
    splitAt r items = some (pre, gi, post) →
    items = pre ++ gi :: post ∧ gi.2.ref = r ∧ (∀ j ∈ pre, mentions r j = false) ∧ (∀ j ∈ post, mentions r j = false)
  | [], _, _, _, h => by simp [splitAt] at h
  | j :: rest, pre, gi, post, h => by
    simp only [splitAt] at h
    split at h
    · rename_i hj
      split at h
      · rename_i hall
        simp only [Option.some.injEq, Prod.mk.injEq] at h
        obtain ⟨rfl, rfl, rfl⟩ := h
        refine ⟨rfl, hj, by simp, ?_⟩
        intro k hk
        simp only [Bool.and_eq_true, List.all_eq_true, Bool.not_eq_true'] at hall
        exact hall.1 k hk
      · cases h
    · rename_i hj
      split at h
      · cases h
      · rename_i hm
        cases hs : splitAt r rest with
        | none => simp [hs] at h
        | some x =>
          obtain ⟨p, x, q⟩ := x
          simp only [hs, Option.map_some, Option.some.injEq, Prod.mk.injEq] at h
          obtain ⟨rfl, rfl, rfl⟩ := h
          obtain ⟨e, hr, hp, hq⟩ := splitAt_spec r rest hs
          refine ⟨by rw [e]; rfl, hr, ?_, hq⟩
          intro k hk
          rcases List.mem_cons.1 hk with rfl | hk
          · simpa using hm
          · exact hp k hk

/-- Packaged form used by the property theorems. -/
theorem serView_single' (F : Facts) (c : Ctx) {r : AttrRef} {v v' : View} (h : AgreeExcept r v v')
    {items pre post : List (Guard × Item)} {gi : Guard × Item} (hs : splitAt r items = some (pre, gi, post))
    (e : serView F c v items = serView F c v' items) : serGuarded F c v gi = serGuarded F c v' gi := by
  obtain ⟨e0, _, hp, hq⟩ := splitAt_spec r items hs
  rw [e0] at e
  exact serView_single F c h pre post gi hp hq e

/-! ### C07: the view does not depend on map / insertion order -/

def Facts.allSorted (F : Facts) : Bool :=
  F.hashMapSorted && F.providesSorted && F.depsSorted && F.outputNamesSorted && F.buildInputsSorted && F.namedSrcsSorted

/-- `none`/`none`, or two permutations of each other (a nil-able Go map). -/
def OptPerm {α : Type} : Option (List α) → Option (List α) → Prop
  | none, none => True
  | some a, some b => a.Perm b
  | _, _ => False

/-- Same target up to the iteration order of every Go map and the insertion order of the dependencies. -/
structure PermEq (t t' : Target) : Prop where
  deps : t.deps.Perm t'.deps
  namedSrcs : t.namedSrcs.Perm t'.namedSrcs
  namedOuts : t.namedOuts.Perm t'.namedOuts
  provides : t.provides.Perm t'.provides
  entryPoints : t.entryPoints.Perm t'.entryPoints
  env : t.env.Perm t'.env
  namedData : t.namedData.Perm t'.namedData
  commands : OptPerm t.commands t'.commands
  testCommands : OptPerm t.testCommands t'.testCommands
  rest : t' = { t with deps := t'.deps, namedSrcs := t'.namedSrcs, namedOuts := t'.namedOuts, provides := t'.provides,
                       entryPoints := t'.entryPoints, env := t'.env, namedData := t'.namedData,
                       commands := t'.commands, testCommands := t'.testCommands }

/-- Go map invariant: keys are distinct. -/
structure MapsOK (t : Target) : Prop where
  namedSrcs : KeysNodup t.namedSrcs
  namedOuts : KeysNodup t.namedOuts
  provides : KeysNodup t.provides
  entryPoints : KeysNodup t.entryPoints
  env : KeysNodup t.env
  namedData : KeysNodup t.namedData
  commands : ∀ m, t.commands = some m → KeysNodup m
  testCommands : ∀ m, t.testCommands = some m → KeysNodup m

theorem keysNodup_map {β γ : Type} (f : β → γ) {m : List (Bytes × β)} (h : KeysNodup m) :
    KeysNodup (m.map fun kv => (kv.1, f kv.2)) := by
  simpa [KeysNodup, List.map_map, Function.comp_def] using h

theorem keys_inj {β : Type} {m : List (Bytes × β)} (hn : KeysNodup m) :
    ∀ a ∈ m, ∀ b ∈ m, a.1 = b.1 → a = b := by
  intro a ha b hb e
  apply Classical.byContradiction
  intro ne
  rcases keys_tri hn a ha b hb ne with h | h
  · rw [e, bytesLt_irrefl] at h; cases h
  · rw [e, bytesLt_irrefl] at h; cases h

/-- `getCommand`'s fallback: keep the entry with the greatest key. -/
def hi (h kv : Bytes × Bytes) : Bytes × Bytes := if bytesLt h.1 kv.1 then kv else h

theorem hi_comm (z x y : Bytes × Bytes) (hxy : x.1 = y.1 → x = y) : hi (hi z x) y = hi (hi z y) x := by
  unfold hi
  by_cases a : bytesLt z.1 x.1 = true <;> by_cases b : bytesLt z.1 y.1 = true <;>
    by_cases c : bytesLt x.1 y.1 = true <;> by_cases d : bytesLt y.1 x.1 = true <;> simp [a, b, c, d]
  all_goals first
    | (exfalso; have := bytesLt_asymm _ _ c; simp_all; done)
    | (have e : x.1 = y.1 := by
        apply Classical.byContradiction; intro ne
        rcases bytesLt_tri _ _ ne with h | h <;> simp_all
       first | exact hxy e | exact (hxy e).symm)
    | (exfalso; have := bytesLt_trans _ _ _ a c; simp_all; done)
    | (exfalso; have := bytesLt_trans _ _ _ b d; simp_all; done)

/-- `getCommand` does not depend on the iteration order of the `Commands` map. -/
theorem getCommand_perm (c : Ctx) {m m' : List (Bytes × Bytes)} (hn : KeysNodup m) (p : m.Perm m') (s : Bytes) :
    getCommand c (some m) s = getCommand c (some m') s := by
  simp only [getCommand, lookup_perm c.config hn p, lookup_perm c.fallback hn p]
  have hf : m.foldl hi ([], []) = m'.foldl hi ([], []) :=
    List.Perm.foldl_eq' p (fun x hx y hy z => hi_comm z x y (keys_inj hn x hx y hy)) _
  have hf' : (m.foldl (fun (h : Bytes × Bytes) kv => if bytesLt h.1 kv.1 then kv else h) ([], [])) =
      (m'.foldl (fun (h : Bytes × Bytes) kv => if bytesLt h.1 kv.1 then kv else h) ([], [])) := hf
  rw [hf']

theorem getCommand_optPerm (c : Ctx) {a b : Option (List (Bytes × Bytes))} (hn : ∀ m, a = some m → KeysNodup m)
    (p : OptPerm a b) (s : Bytes) : getCommand c a s = getCommand c b s := by
  cases a <;> cases b <;> simp only [OptPerm] at p
  · rfl
  · exact getCommand_perm c (hn _ rfl) p s

theorem view_perm (F : Facts) (hF : F.allSorted = true) (c : Ctx) {t t' : Target} (ok : MapsOK t) (p : PermEq t t') :
    view F c t = view F c t' := by
  simp only [Facts.allSorted, Bool.and_eq_true] at hF
  obtain ⟨⟨⟨⟨⟨h1, h2⟩, h3⟩, h4⟩, h5⟩, h6⟩ := hF
  have e1 := isort_labels_perm p.deps
  have e2 := keysOrder_perm ok.namedSrcs p.namedSrcs
  have e3 := keysOrder_perm ok.namedOuts p.namedOuts
  have e4 := keysOrder_perm (keysNodup_map (fun l => l.map Label.str) ok.provides)
    (p.provides.map fun kv => (kv.1, kv.2.map Label.str))
  have e5 := keysOrder_perm ok.entryPoints p.entryPoints
  have e6 := keysOrder_perm ok.env p.env
  have e7 := keysOrder_perm ok.namedData p.namedData
  have e8 := fun s => getCommand_optPerm c ok.commands p.commands s
  have e9 := fun s => getCommand_optPerm c ok.testCommands p.testCommands s
  rw [p.rest]
  simp only [view, allInputs, h1, h2, h3, h4, h5, h6, if_true, View.mk.injEq]
  repeat' constructor
  all_goals first
    | trivial
    | rfl
    | (funext a; cases a <;> simp only [e1, e2, e3, e4, e5, e6, e7, e8, e9])

/-! ### the framed encoding determines every attribute it writes -/

theorem hdr_eq_unary : ∀ n, hdr n = unary (1 : UInt8) 0 n
  | 0 => rfl
  | n + 1 => by simp [hdr, unary, hdr_eq_unary n]

theorem hdr_uniq : Uniq hdr := by
  have : hdr = unary (1 : UInt8) 0 := funext hdr_eq_unary
  rw [this]; exact unary_uniq (by decide)

theorem framed_uniq : Uniq framed := frameU_uniq hdr_uniq

theorem framedList_uniq : Uniq framedList := encListU_uniq hdr_uniq framed_uniq

theorem group_uniq : Uniq (fun kv : Bytes × List Bytes => framed kv.1 ++ framedList kv.2) :=
  Uniq.pair framed_uniq framedList_uniq

theorem kv_uniq : Uniq (fun kv : Bytes × Bytes => framed kv.1 ++ framed kv.2) :=
  Uniq.pair framed_uniq framed_uniq

/-- The value of the attribute an item reads (for stating what the framed encoding determines). -/
inductive Val where
  | s (b : Bytes) | l (x : List Bytes) | g (x : List (Bytes × List Bytes)) | m (x : List (Bytes × Bytes))
  | b (x : Bool) | pe (x : Option (List (Bytes × Bytes)))
  deriving DecidableEq

def itemVal (c : Ctx) (v : View) : Item → Val
  | .str a => .s (v.str a) | .strs a => .l (v.list a) | .groups a => .g (v.groups a) | .kv a => .m (v.map a)
  | .bool a => .b (v.flag a) | .optBool a => .b (v.flag a)
  | .passEnv => .pe (v.passEnv.map fun l => l.map fun e => (e, c.getenv e))

theorem serItemFramed_uniq (c : Ctx) (v v' : View) (i : Item) (r s : Bytes)
    (h : serItemFramed c v i ++ r = serItemFramed c v' i ++ s) : itemVal c v i = itemVal c v' i ∧ r = s := by
  cases i <;> simp only [serItemFramed, itemVal] at h ⊢
  · obtain ⟨e, hr⟩ := framed_uniq _ _ _ _ h; exact ⟨by rw [e], hr⟩
  · obtain ⟨e, hr⟩ := framedList_uniq _ _ _ _ h; exact ⟨by rw [e], hr⟩
  · obtain ⟨e, hr⟩ := (encListU_uniq hdr_uniq group_uniq) _ _ _ _ h; exact ⟨by rw [e], hr⟩
  · obtain ⟨e, hr⟩ := (encListU_uniq hdr_uniq kv_uniq) _ _ _ _ h; exact ⟨by rw [e], hr⟩
  · simp only [List.cons_append, List.nil_append, List.cons.injEq] at h
    refine ⟨?_, h.2⟩
    have := h.1
    cases hv : v.flag _ <;> cases hv' : v'.flag _ <;> simp_all
  · simp only [List.cons_append, List.nil_append, List.cons.injEq] at h
    refine ⟨?_, h.2⟩
    have := h.1
    cases hv : v.flag _ <;> cases hv' : v'.flag _ <;> simp_all
  · cases hv : v.passEnv <;> cases hv' : v'.passEnv <;> simp only [hv, hv'] at h ⊢
    · simp only [List.cons_append, List.nil_append, List.cons.injEq, true_and] at h
      exact ⟨by simp, h⟩
    · simp at h
    · simp at h
    · rename_i l l'
      simp only [List.cons_append, List.cons.injEq, true_and] at h
      have hu : Uniq (fun l : List Bytes => hdr l.length ++ (l.map fun e => framed e ++ framed (c.getenv e)).flatten) := by
        have h2 : Uniq (fun kv : Bytes × Bytes => framed kv.1 ++ framed kv.2) := kv_uniq
        intro a b r s hh
        have := (encListU_uniq hdr_uniq h2) (a.map fun e => (e, c.getenv e)) (b.map fun e => (e, c.getenv e)) r s
          (by simpa [encListU, List.map_map, Function.comp_def] using hh)
        refine ⟨?_, this.2⟩
        have hm := this.1
        have := congrArg (List.map Prod.fst) hm
        simpa [List.map_map, Function.comp_def] using this
      obtain ⟨e, hr⟩ := hu _ _ _ _ h
      exact ⟨by rw [e], hr⟩

/-- Equal framed pre-images: every attribute written by the schema has equal values. -/
theorem serViewFramed_inj (c : Ctx) (v v' : View) : ∀ (items : List Item) (r s : Bytes),
    serViewFramed c v items ++ r = serViewFramed c v' items ++ s → (∀ i ∈ items, itemVal c v i = itemVal c v' i) ∧ r = s
  | [], r, s, h => by simpa [serViewFramed] using h
  | i :: rest, r, s, h => by
    simp only [serViewFramed, List.flatMap_cons, List.append_assoc] at h
    obtain ⟨e, h2⟩ := serItemFramed_uniq c v v' i _ _ h
    obtain ⟨er, hr⟩ := serViewFramed_inj c v v' rest r s (by simpa [serViewFramed] using h2)
    refine ⟨?_, hr⟩
    intro j hj
    rcases List.mem_cons.1 hj with rfl | hj
    · exact e
    · exact er j hj

end PlzVerif.RuleHash
