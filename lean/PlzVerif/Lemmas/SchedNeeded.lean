import PlzVerif.Lemmas.SchedFinal
/-! C05: in a keep-going run every target that has left the Inactive state is needed by a requested target (or by a
target some package subincludes) — so a failure anywhere taints something that was asked for. -/
namespace PlzVerif.Sched

variable (c : Cfg)

/-- `t` is `r` or a transitive dependency of `r` -/
inductive DepPath : T → T → Prop
  | refl (r : T) : DepPath r r
  | step {r t d : T} : DepPath r t → d ∈ c.deps t → DepPath r d

structure InvN (s : St) : Prop where
  queueSub : ∀ i q r, s.qs i = some q → q.ph = .queueDeps r → ∀ d ∈ r, d ∈ c.deps q.t
  qtActive : ∀ i q, s.qs i = some q → s.st q.t ≠ .inactive

macro "invn_close" hi:ident h1:ident : tactic =>
  `(tactic| (constructor <;> first
      | exact ($hi).queueSub | exact ($hi).qtActive
      | (intros; have := ($hi).queueSub; have := ($hi).qtActive
         have := ($h1).qFresh; have := ($h1).waitBuilding; have := ($h1).bqActive; have := ($h1).takenPending; have := ($h1).wBuilding
         simp only [upd, Queuer.live] at * <;> grind [TS.rank, TS.isBuilt])))

theorem invN_init : InvN c St.init := by
  constructor <;> simp [St.init]

theorem spawn_invN {s : St} (h1 : Inv c s) (hi : InvN c s) (t : T) (b f : Bool) (ns : TS) (hns : ns ≠ .inactive) :
    InvN c (spawn c s t b f ns) := by
  have hq := fresh_q c h1
  unfold spawn
  invn_close hi h1

theorem qrt_invN {s : St} (h1 : Inv c s) (hi : InvN c s) (t : T) (f : Bool) : InvN c (qrt c s t f) := by
  unfold qrt
  repeat' split
  all_goals first | exact hi | exact spawn_invN c h1 hi t _ f _ (by decide)

theorem taskDone_invN {s : St} (hi : InvN c s) : InvN c (taskDone s) := by
  unfold taskDone
  exact ⟨hi.queueSub, hi.qtActive⟩

theorem step_invN {s s' : St} (h1 : Inv c s) (hi : InvN c s) (h : Step c s s') : InvN c s' := by
  obtain ⟨a, h⟩ := h
  cases a with
  | activate t force =>
    simp only [fire] at h
    split at h
    · cases h; exact qrt_invN c h1 hi t force
    · cases h
  | queuer i =>
    simp only [fire] at h
    split at h
    · rename_i q hq
      unfold queuerStep at h
      split at h
      · rename_i d r hph
        cases h
        have h1' := qrt_inv c h1 d q.force
        have hn' := qrt_invN c h1 hi d q.force
        obtain ⟨hq1, _⟩ := qrt_qs_old c h1 d q.force i q hq
        have hsub := hi.queueSub i q (d :: r) hq hph
        generalize qrt c s d q.force = s1 at h1' hn' hq1
        invn_close hn' h1'
      · cases h; invn_close hi h1
      · have hb : ∀ r, q.ph = .waitDeps r → s.st q.t = .active := fun r hph =>
          h1.bqActive i q hq ⟨h1.waitBuilding i q r hq hph, by rw [hph]; simp⟩
        split at h
        · split at h <;> (cases h; invn_close hi h1)
        · cases h
      · have hqa := hi.qtActive i q hq
        split at h <;> (cases h; invn_close hi h1)
      · cases h; apply taskDone_invN; invn_close hi h1
      · split at h
        · cases h; invn_close hi h1
        · cases h
    · cases h
  | queuerAbort i =>
    simp only [fire] at h
    split at h
    · split at h
      · cases h; invn_close hi h1
      · cases h
    · cases h
  | take m => simp only [fire] at h; split at h <;> first | (cases h; invn_close hi h1) | cases h
  | drop m =>
    simp only [fire] at h
    split at h
    · split at h <;> first | (cases h; invn_close hi h1) | cases h
    · cases h
  | workerStart w => simp only [fire] at h; split at h <;> first | (cases h; invn_close hi h1) | cases h
  | workerOk w ts cached =>
    simp only [fire] at h
    split at h
    · split at h
      · rename_i hb; cases h; invn_close hi h1
      · cases h
    · cases h
  | workerFail w => simp only [fire] at h; split at h <;> first | (cases h; invn_close hi h1) | cases h
  | workerDone w =>
    simp only [fire] at h
    split at h
    · cases h; apply taskDone_invN; invn_close hi h1
    · cases h
  | initDone =>
    simp only [fire] at h
    split at h
    · cases h
    · cases h; apply taskDone_invN; invn_close hi h1
  | stop => simp only [fire] at h; cases h; invn_close hi h1
  | subWait t =>
    simp only [fire] at h
    split at h
    · split at h
      · cases h; invn_close hi h1
      · cases h
        have h1' := qrt_inv c h1 t true
        have hn' := qrt_invN c h1 hi t true
        have hq1 := fresh_q c h1'
        have hact := qrt_active' c s t
        generalize qrt c s t true = s1 at h1' hn' hq1 hact
        invn_close hn' h1'
    · cases h
  | cycleCheck =>
    simp only [fire] at h
    split at h
    · cases h; invn_close hi h1
    · cases h

theorem reach_invN {s : St} (h : Reach c s) : InvN c s := by
  induction h with
  | init => exact invN_init c
  | step hr hs ih => exact step_invN c (reach_inv c hr) ih hs

/-- `queueResolvedTarget(t)` changes the state of `t` only -/
theorem qrt_st_other (s : St) (t x : T) (f : Bool) (h : x ≠ t) : (qrt c s t f).st x = s.st x := by
  unfold qrt spawn
  repeat' split
  all_goals simp [upd, h]

/-- the only ways for a target to leave the Inactive state in one step: it is requested, a package subincludes it, or
    a queuer reaches it in the list of declared dependencies of its own target -/
theorem step_leaves_inactive {s s' : St} (hi : Inv c s) {a : Action} (ha : fire c s a = some s') (t : T)
    (h0 : s.st t = .inactive) (h1 : s'.st t ≠ .inactive) :
    (∃ f, a = .activate t f) ∨ a = .subWait t ∨
      ∃ i q r, a = .queuer i ∧ s.qs i = some q ∧ q.ph = .queueDeps (t :: r) := by
  cases a with
  | activate t' f =>
    simp only [fire] at ha
    split at ha
    · cases ha
      by_cases e : t = t'
      · subst e; exact .inl ⟨f, rfl⟩
      · rw [qrt_st_other c s t' t f e] at h1; exact absurd h0 h1
    · cases ha
  | subWait t' =>
    simp only [fire] at ha
    split at ha
    · split at ha
      · cases ha; exact absurd h0 h1
      · cases ha
        by_cases e : t = t'
        · subst e; exact .inr (.inl rfl)
        · have : (qrt c s t' true).st t = s.st t := qrt_st_other c s t' t true e
          exact absurd (this ▸ h0) h1
    · cases ha
  | queuer i =>
    simp only [fire] at ha
    split at ha
    · rename_i q hq
      unfold queuerStep at ha
      split at ha
      · rename_i d r hph
        cases ha
        by_cases e : t = d
        · subst e; exact .inr (.inr ⟨i, q, r, rfl, hq, hph⟩)
        · have : (qrt c s d q.force).st t = s.st t := qrt_st_other c s d t q.force e
          exact absurd (this ▸ h0) h1
      · cases ha; exact absurd h0 h1
      · rename_i d r hph
        have hact := hi.bqActive i q hq ⟨hi.waitBuilding i q _ hq hph, by rw [hph]; simp⟩
        split at ha
        · split at ha
          · cases ha
            have e : t ≠ q.t := by intro e; rw [e, hact] at h0; cases h0
            simp [upd, e] at h1; exact absurd h0 h1
          · cases ha; exact absurd h0 h1
        · cases ha
      · split at ha
        · rename_i hact
          cases ha
          have e : t ≠ q.t := by intro e; rw [e, hact] at h0; cases h0
          simp [upd, e] at h1; exact absurd h0 h1
        · cases ha; exact absurd h0 h1
      · cases ha; exact absurd h0 h1
      · split at ha
        · cases ha; exact absurd h0 h1
        · cases ha
    · cases ha
  | queuerAbort i =>
    simp only [fire] at ha
    split at ha
    · split at ha
      · cases ha; exact absurd h0 h1
      · cases ha
    · cases ha
  | take m => simp only [fire] at ha; split at ha <;> first | (cases ha; exact absurd h0 h1) | cases ha
  | drop m =>
    simp only [fire] at ha
    split at ha
    · split at ha <;> first | (cases ha; exact absurd h0 h1) | cases ha
    · cases ha
  | workerStart w =>
    simp only [fire] at ha
    split at ha
    · rename_i t' hw
      cases ha
      have hp := hi.takenPending w t' hw
      have e : t ≠ t' := by intro e; rw [e, hp] at h0; cases h0
      simp [upd, e] at h1; exact absurd h0 h1
    · cases ha
  | workerOk w ts cached =>
    simp only [fire] at ha
    split at ha
    · rename_i t' hw
      split at ha
      · cases ha
        have hp := hi.wBuilding w t' hw
        have e : t ≠ t' := by intro e; rw [e, hp] at h0; cases h0
        simp [upd, e] at h1; exact absurd h0 h1
      · cases ha
    · cases ha
  | workerFail w =>
    simp only [fire] at ha
    split at ha
    · rename_i t' hw
      cases ha
      have hp := hi.wBuilding w t' hw
      have e : t ≠ t' := by intro e; rw [e, hp] at h0; cases h0
      simp [upd, e] at h1; exact absurd h0 h1
    · cases ha
  | workerDone w => simp only [fire] at ha; split at ha <;> first | (cases ha; exact absurd h0 h1) | cases ha
  | initDone => simp only [fire] at ha; split at ha <;> first | (cases ha; exact absurd h0 h1) | cases ha
  | stop => simp only [fire] at ha; cases ha; exact absurd h0 h1
  | cycleCheck => simp only [fire] at ha; split at ha <;> first | (cases ha; exact absurd h0 h1) | cases ha

/-- `sw` only grows -/
theorem step_sw_mono {s s' : St} {a : Action} (ha : fire c s a = some s') (t : T) (h : s.sw t = true) : s'.sw t = true := by
  cases a <;> simp only [fire, queuerStep, qrt, spawn, taskDone] at ha <;>
    (repeat' split at ha) <;> (try cases ha) <;> (try simp only [upd] at *) <;> (try grind)

/-- needed: a requested target, a target some package subincludes, or a transitive dependency of one -/
def NeededBy (req : List T) (s : St) (t : T) : Prop := ∃ r, (r ∈ req ∨ s.sw r = true) ∧ DepPath c r t

/-- **In a keep-going run nothing is touched that was not asked for**: every target that has left the Inactive state
    is a requested target, a subincluded one, or a transitive dependency of such a target. -/
theorem runKG_needed {req : List T} {s : St} (h : RunKG c req s) : ∀ t, s.st t ≠ .inactive → NeededBy c req s t := by
  induction h with
  | init => intro t ht; simp [St.init] at ht
  | @step req s s' a hrun hal hf ih =>
    have hr := runKG_reach c hrun
    have hi := reach_inv c hr
    have hn := reach_invN c hr
    -- what was needed stays needed
    have keep : ∀ t, NeededBy c req s t → NeededBy c (reqAfter req a) s' t := by
      intro t ⟨r, hsrc, hp⟩
      refine ⟨r, ?_, hp⟩
      rcases hsrc with h | h
      · left; cases a <;> simp [reqAfter, h]
      · exact .inr (step_sw_mono c hf r h)
    intro t ht
    by_cases h0 : s.st t = .inactive
    · rcases step_leaves_inactive c hi hf t h0 ht with ⟨f, rfl⟩ | rfl | ⟨i, q, r, rfl, hq, hph⟩
      · exact ⟨t, .inl (by simp [reqAfter]), .refl t⟩
      · refine ⟨t, .inr ?_, .refl t⟩
        simp only [fire] at hf
        split at hf
        · split at hf
          · cases hf; simp [upd]
          · cases hf; simp [upd]
        · cases hf
      · obtain ⟨r0, hsrc, hp⟩ := keep q.t (ih q.t (hn.qtActive i q hq))
        exact ⟨r0, hsrc, .step hp (hn.queueSub i q (t :: r) hq hph t List.mem_cons_self)⟩
    · exact keep t (ih t h0)

/-- a failed target taints everything above it -/
theorem tainted_of_path {s : St} {r t : T} (hp : DepPath c r t) (ht : Tainted c s t) : Tainted c s r := by
  induction hp with
  | refl => exact ht
  | step _ hd ih => exact ih (.dep hd ht)

end PlzVerif.Sched
