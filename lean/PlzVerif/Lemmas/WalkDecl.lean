import PlzVerif.Lemmas.Walk
set_option linter.unusedSimpArgs false
/-! C22: the recursive specification `spec` says what the property says -- a declarative characterisation. -/
namespace PlzVerif.Walk

def Forest.get (n : Name) : Forest → Option Tree
  | .nil => none
  | .cons m t rest => if m = n then some t else Forest.get n rest

/-- The directory reached from `cs` by following the components `rel` (through directories only, no symlinks). -/
def dirAt : Forest → List Name → Option Forest
  | cs, [] => some cs
  | cs, c :: rest => match Forest.get c cs with
    | some (.dir ds) => dirAt ds rest
    | _ => none

def Forest.namesL : Forest → List Name
  | .nil => []
  | .cons n _ rest => n :: Forest.namesL rest

mutual
/-- No directory lists a name twice. -/
def Tree.nodup : Tree → Bool
  | .leaf _ => true
  | .dir cs => Forest.nodup cs
def Forest.nodup : Forest → Bool
  | .nil => true
  | .cons n t rest => !(Forest.namesL rest).contains n && Tree.nodup t && Forest.nodup rest
end

/-- `x` is a BUILD file the property asks for below the directory `p` with listing `cs`: it sits in a directory
    `p/rel`, is a non-directory entry named like a BUILD file, and none of the directories `p/rel[:j]` for
    `lo ≤ j ≤ |rel|` is excluded. -/
def Wanted (od : Name) (cfg : Config) (lo : Nat) (p : List Name) (cs : Forest) (x : List Name) : Prop :=
  ∃ rel ds b k, x = p ++ rel ++ [b] ∧ dirAt cs rel = some ds ∧ Forest.get b ds = some (.leaf k) ∧
    cfg.buildNames.contains b = true ∧ ∀ j, lo ≤ j → j ≤ rel.length → specExcluded od cfg (p ++ rel.take j) = false

theorem get_none_of_not_mem : ∀ (cs : Forest) (n : Name), n ∉ Forest.namesL cs → Forest.get n cs = none
  | .nil, _, _ => rfl
  | .cons m t rest, n, h => by
    simp only [Forest.namesL, List.mem_cons, not_or] at h
    simp only [Forest.get, if_neg (Ne.symm h.1), get_none_of_not_mem rest n h.2]

theorem get_mem : ∀ (cs : Forest) (n : Name) (t : Tree), Forest.get n cs = some t → n ∈ Forest.namesL cs
  | .nil, _, _, h => by simp [Forest.get] at h
  | .cons m u rest, n, t, h => by
    simp only [Forest.get] at h
    split at h
    · rename_i e; simp [Forest.namesL, e]
    · simp [Forest.namesL, get_mem rest n t h]

mutual
theorem mem_spec_iff (od : Name) (cfg : Config) (x : List Name) : ∀ (cs : Forest) (p : List Name),
    Forest.nodup cs = true → (x ∈ spec od cfg p (.dir cs) ↔ Wanted od cfg 0 p cs x)
  | cs, p, hn => by
    simp only [spec]
    cases he : specExcluded od cfg p with
    | true =>
      simp only [if_true, List.not_mem_nil, false_iff]
      rintro ⟨rel, ds, b, k, _, _, _, _, h⟩
      have := h 0 (Nat.le_refl _) (Nat.zero_le _)
      simp [he] at this
    | false =>
      simp only [Bool.false_eq_true, if_false]
      rw [mem_specF_iff od cfg x cs p hn]
      constructor
      · rintro ⟨rel, ds, b, k, h1, h2, h3, h4, h5⟩
        refine ⟨rel, ds, b, k, h1, h2, h3, h4, fun j _ hj => ?_⟩
        cases j with
        | zero => simpa using he
        | succ j => exact h5 (j + 1) (by omega) hj
      · rintro ⟨rel, ds, b, k, h1, h2, h3, h4, h5⟩
        exact ⟨rel, ds, b, k, h1, h2, h3, h4, fun j _ hj => h5 j (Nat.zero_le _) hj⟩
theorem mem_specF_iff (od : Name) (cfg : Config) (x : List Name) : ∀ (cs : Forest) (p : List Name),
    Forest.nodup cs = true → (x ∈ specF od cfg p cs ↔ Wanted od cfg 1 p cs x)
  | .nil, p, _ => by
    simp only [specF, List.not_mem_nil, false_iff]
    rintro ⟨rel, ds, b, k, _, h2, h3, _⟩
    cases rel with
    | nil => simp only [dirAt, Option.some.injEq] at h2; subst h2; simp [Forest.get] at h3
    | cons c r => simp [dirAt, Forest.get] at h2
  | .cons n t rest, p, hn => by
    simp only [Forest.nodup, Bool.and_eq_true, Bool.not_eq_true', List.contains_eq_mem, decide_eq_false_iff_not] at hn
    obtain ⟨⟨hnn, hnt⟩, hnr⟩ := hn
    have ihr := mem_specF_iff od cfg x rest p hnr
    -- a wanted file found in the rest is wanted in the whole listing (the head's name is different) ...
    have toWhole : Wanted od cfg 1 p rest x → Wanted od cfg 1 p (.cons n t rest) x := by
      rintro ⟨rel, ds, b, k, h1, h2, h3, h4, h5⟩
      cases rel with
      | nil =>
        simp only [dirAt, Option.some.injEq] at h2; subst h2
        have hb : b ≠ n := fun e => hnn (e ▸ get_mem rest b _ h3)
        exact ⟨[], .cons n t rest, b, k, h1, rfl, by simp [Forest.get, Ne.symm hb, h3], h4, h5⟩
      | cons c r =>
        have hc : c ≠ n := by
          intro e; subst e
          simp only [dirAt] at h2
          rw [get_none_of_not_mem rest c hnn] at h2; simp at h2
        exact ⟨c :: r, ds, b, k, h1, by simpa [dirAt, Forest.get, Ne.symm hc] using h2, h3, h4, h5⟩
    -- ... and a wanted file of the whole listing either goes through the head entry or is wanted in the rest
    have split : Wanted od cfg 1 p (.cons n t rest) x →
        (∃ rel ds b k, x = p ++ rel ++ [b] ∧ dirAt (.cons n t rest) rel = some ds ∧ Forest.get b ds = some (.leaf k) ∧
          cfg.buildNames.contains b = true ∧ (∀ j, 1 ≤ j → j ≤ rel.length → specExcluded od cfg (p ++ rel.take j) = false) ∧
          ((rel = [] ∧ b = n) ∨ ∃ r, rel = n :: r)) ∨ Wanted od cfg 1 p rest x := by
      rintro ⟨rel, ds, b, k, h1, h2, h3, h4, h5⟩
      cases rel with
      | nil =>
        simp only [dirAt, Option.some.injEq] at h2; subst h2
        by_cases hb : b = n
        · subst hb
          exact Or.inl ⟨[], _, b, k, h1, rfl, h3, h4, h5, Or.inl ⟨rfl, rfl⟩⟩
        · right
          simp only [Forest.get, if_neg (Ne.symm hb)] at h3
          exact ⟨[], rest, b, k, h1, rfl, h3, h4, h5⟩
      | cons c r =>
        by_cases hc : c = n
        · subst hc
          exact Or.inl ⟨c :: r, ds, b, k, h1, h2, h3, h4, h5, Or.inr ⟨r, rfl⟩⟩
        · right
          refine ⟨c :: r, ds, b, k, h1, ?_, h3, h4, h5⟩
          simpa [dirAt, Forest.get, Ne.symm hc] using h2
    cases t with
    | leaf k =>
      simp only [specF, List.mem_append, ihr]
      constructor
      · rintro (h | h)
        · cases hb : cfg.buildNames.contains n with
          | false => simp only [hb, Bool.false_eq_true, if_false, List.not_mem_nil] at h
          | true =>
            simp only [hb, if_true, List.mem_singleton] at h
            exact ⟨[], .cons n (.leaf k) rest, n, k, by simp [h], rfl, by simp [Forest.get], hb, by
              intro j h1 h2; simp at h2; omega⟩
        · exact toWhole h
      · intro h
        rcases split h with ⟨rel, ds, b, k', h1, h2, h3, h4, _, (⟨rfl, rfl⟩ | ⟨r, rfl⟩)⟩ | h
        · left; simp only [h4, if_true, List.mem_singleton, h1, List.append_nil]
        · simp [dirAt, Forest.get] at h2
        · exact Or.inr h
    | dir cs =>
      have ih := mem_spec_iff od cfg x cs (p ++ [n]) (by simpa [Tree.nodup] using hnt)
      simp only [specF, List.mem_append, ihr, ih]
      constructor
      · rintro (⟨rel, ds, b, k, h1, h2, h3, h4, h5⟩ | h)
        · refine ⟨n :: rel, ds, b, k, by simp [h1], by simp [dirAt, Forest.get, h2], h3, h4, ?_⟩
          intro j hj1 hj2
          cases j with
          | zero => omega
          | succ j =>
            have := h5 j (Nat.zero_le _) (by simpa using hj2)
            simpa [List.append_assoc] using this
        · exact toWhole h
      · intro h
        rcases split h with ⟨rel, ds, b, k, h1, h2, h3, h4, h5, (⟨rfl, rfl⟩ | ⟨r, rfl⟩)⟩ | h
        · simp [dirAt] at h2; subst h2; simp [Forest.get] at h3
        · left
          refine ⟨r, ds, b, k, by simp [h1], by simpa [dirAt, Forest.get] using h2, h3, h4, ?_⟩
          intro j _ hj
          have := h5 (j + 1) (by omega) (by simpa using hj)
          simpa [List.append_assoc] using this
        · exact Or.inr h
end

end PlzVerif.Walk
