import PlzVerif.Lemmas.CMapWake
/-! C15: a history with a two-shard `Values()` that is *not* linearizable in the strong sense: no execution of
the atomic automaton (whole-map snapshot at one instant) produces it. -/
namespace PlzVerif.CMap.Torn
open PlzVerif.CMap

/-- the two-shard map of the witness (`hasher = id`) -/
def wcfg : Cfg Nat := ⟨2, fun k => k % 2, fun _ => false⟩

abbrev E := Ev Nat

def e0 : E := .inv 0 .values
def e1 : E := .inv 1 (.add 0 5)
def e2 : E := .ret 1 (.bool true)
def e3 : E := .inv 1 (.set 1 6)
def e4 : E := .ret 1 .unit
def e5 : E := .ret 0 (.vals [6])

/-- `Values()` is called; `Add(0,5)` is called and returns true; then `Set(1,6)` is called and returns; then
    `Values()` returns `[6]`. -/
def tornTrace : List E := [e0, e1, e2, e3, e4, e5]

/-- the shards when key 0 / key 1 have been written -/
def sh (b0 b1 : Bool) : Nat → AMap Nat := fun i =>
  if i = 0 then (if b0 then [(0, .val 5)] else []) else if i = 1 then (if b1 then [(1, .val 6)] else []) else []

theorem apply_add {σ : Shared Nat} {b0 b1 : Bool} (h : σ.shards = sh b0 b1) :
    (apply wcfg σ (.add 0 5)).1.shards = sh true b1 ∧ ((apply wcfg σ (.add 0 5)).2 = .bool true → True) := by
  refine ⟨?_, fun _ => trivial⟩
  simp only [apply, csSet, Shared.lookup, wcfg, h]
  cases b0 <;> simp [sh, AMap.get, Shared.storeVal, Shared.store, h, AMap.put] <;>
    (funext i; by_cases e : i = 0 <;> simp [upd, sh, e, AMap.put])

theorem apply_set {σ : Shared Nat} {b0 b1 : Bool} (h : σ.shards = sh b0 b1) :
    (apply wcfg σ (.set 1 6)).1.shards = sh b0 true := by
  simp only [apply, csSet, Shared.lookup, wcfg, h]
  cases b1 <;> simp [sh, AMap.get, Shared.storeVal, Shared.store, h, AMap.put] <;>
    (funext i; by_cases e : i = 1 <;> simp [upd, sh, e, AMap.put])

theorem apply_values {σ : Shared Nat} {b0 b1 : Bool} (h : σ.shards = sh b0 b1) :
    apply wcfg σ .values = (σ, .vals ((if b0 then [5] else []) ++ (if b1 then [6] else []))) := by
  simp only [apply, valuesFrom, csValues, wcfg, h]
  cases b0 <;> cases b1 <;> simp [sh, AMap.vals]

/-- what every execution of the strong atomic automaton satisfies while its trace is a prefix of `tornTrace` -/
structure J (tr : List E) (a : ASys Nat) : Prop where
  shards : ∃ b0 b1, a.sh.shards = sh b0 b1 ∧ (b0 = true → e1 ∈ tr) ∧ (b1 = true → e3 ∈ tr) ∧ (e2 ∈ tr → b0 = true) ∧
      (∀ t, a.th t = .done (.bool true) → b0 = true)
  pend : ∀ t op, a.th t = .pend op → Ev.inv t op ∈ tr
  novp : ∀ t i acc, a.th t ≠ .vpend i acc
  vals : ∀ t l, a.th t = .done (.vals l) → 6 ∈ l → 5 ∈ l
  noret : e5 ∉ tr

theorem prefix_order : ∀ k, k ≤ 6 → e3 ∈ tornTrace.take k → e2 ∈ tornTrace.take k := by decide

theorem prefix_ops {k : Nat} {t : Tid} {op : Op Nat} (h : Ev.inv t op ∈ tornTrace.take k) :
    (t = 0 ∧ op = .values) ∨ (t = 1 ∧ op = .add 0 5) ∨ (t = 1 ∧ op = .set 1 6) := by
  have := List.mem_of_mem_take h
  simp [tornTrace, e0, e1, e2, e3, e4, e5] at this
  rcases this with ⟨rfl, rfl⟩ | ⟨rfl, rfl⟩ | ⟨rfl, rfl⟩ <;> simp

theorem snoc_take {tr : List E} {e : E} {k : Nat} (hk : k ≤ 6) (h : tr ++ [e] = tornTrace.take k) :
    ∃ k', k = k' + 1 ∧ tr = tornTrace.take k' := by
  cases k with
  | zero => simp at h
  | succ k' =>
    refine ⟨k', rfl, ?_⟩
    have hl : k' < tornTrace.length := by simp [tornTrace]; omega
    rw [List.take_add_one, List.getElem?_eq_getElem hl] at h
    simp only [Option.toList_some] at h
    exact (List.append_inj' h rfl).1

theorem torn_inv {a : ASys Nat} {tr : List E} (h : AExec wcfg true ASys.init tr a) :
    ∀ k, k ≤ 6 → tr = tornTrace.take k → J tr a := by
  induction h with
  | nil =>
    intro k _ _
    refine ⟨⟨false, false, ?_, by simp, by simp, by simp, by simp [ASys.init]⟩, by simp [ASys.init], by simp [ASys.init],
      by simp [ASys.init], by simp⟩
    funext i; simp [ASys.init, Shared.init, sh]
  | tau hprev hs ih =>
    intro k hk htr
    have j := ih k hk htr
    obtain ⟨b0, b1, hsh, h0, h1, h2, hD⟩ := j.shards
    cases hs with
    | lin t op hth =>
      have hmem := j.pend t op hth
      rw [htr] at hmem
      rcases prefix_ops hmem with ⟨rfl, rfl⟩ | ⟨rfl, rfl⟩ | ⟨rfl, rfl⟩
      · -- Values takes effect
        rw [apply_values hsh]
        refine ⟨⟨b0, b1, hsh, h0, h1, h2, ?_⟩, ?_, ?_, ?_, j.noret⟩
        · intro t ht; by_cases e : t = 0
          · subst e; simp at ht
          · simp [upd_other _ _ _ _ e] at ht; exact hD t ht
        · intro t op ht; by_cases e : t = 0
          · subst e; simp at ht
          · simp [upd_other _ _ _ _ e] at ht; exact j.pend t op ht
        · intro t i acc ht; by_cases e : t = 0
          · subst e; simp at ht
          · simp [upd_other _ _ _ _ e] at ht; exact j.novp t i acc ht
        · intro t l ht h6; by_cases e : t = 0
          · subst e; simp at ht; subst ht
            have hb1 : b1 = true := by cases b1 <;> cases b0 <;> simp_all
            have he3 := h1 hb1
            rw [htr] at he3
            have he2 := prefix_order k hk he3
            rw [← htr] at he2
            have hb0 := h2 he2
            simp [hb0]
          · simp [upd_other _ _ _ _ e] at ht; exact j.vals t l ht h6
      · -- Add(0,5) takes effect
        have ha := (apply_add (b0 := b0) (b1 := b1) hsh).1
        refine ⟨⟨true, b1, ha, fun _ => by rw [htr]; exact hmem, h1, fun _ => rfl, fun _ _ => rfl⟩, ?_, ?_, ?_, j.noret⟩
        · intro t op ht; by_cases e : t = 1
          · subst e; simp at ht
          · simp [upd_other _ _ _ _ e] at ht; exact j.pend t op ht
        · intro t i acc ht; by_cases e : t = 1
          · subst e; simp at ht
          · simp [upd_other _ _ _ _ e] at ht; exact j.novp t i acc ht
        · intro t l ht h6; by_cases e : t = 1
          · subst e; simp [apply, csSet] at ht
          · simp [upd_other _ _ _ _ e] at ht; exact j.vals t l ht h6
      · -- Set(1,6) takes effect
        have ha := apply_set (b0 := b0) (b1 := b1) hsh
        refine ⟨⟨b0, true, ha, h0, fun _ => by rw [htr]; exact hmem, h2, ?_⟩, ?_, ?_, ?_, j.noret⟩
        · intro t ht; by_cases e : t = 1
          · subst e; simp [apply] at ht
          · simp [upd_other _ _ _ _ e] at ht; exact hD t ht
        · intro t op ht; by_cases e : t = 1
          · subst e; simp at ht
          · simp [upd_other _ _ _ _ e] at ht; exact j.pend t op ht
        · intro t i acc ht; by_cases e : t = 1
          · subst e; simp at ht
          · simp [upd_other _ _ _ _ e] at ht; exact j.novp t i acc ht
        · intro t l ht h6; by_cases e : t = 1
          · subst e; simp [apply] at ht
          · simp [upd_other _ _ _ _ e] at ht; exact j.vals t l ht h6
    | vlin t i acc hth => exact absurd hth (j.novp t i acc)
    | vend t i acc hth => exact absurd hth (j.novp t i acc)
  | @ev _ _ tr0 e hprev hs ih =>
    intro k hk htr
    obtain ⟨k', rfl, htr'⟩ := snoc_take hk htr
    have j := ih k' (by omega) htr'
    obtain ⟨b0, b1, hsh, h0, h1, h2, hD⟩ := j.shards
    cases hs with
    | inv t op hth =>
      refine ⟨⟨b0, b1, hsh, fun h => List.mem_append_left _ (h0 h), fun h => List.mem_append_left _ (h1 h), ?_, ?_⟩, ?_, ?_, ?_, ?_⟩
      · intro h; rcases List.mem_append.mp h with h | h
        · exact h2 h
        · simp [e2] at h
      · intro t' ht; by_cases e : t' = t
        · subst e; simp at ht
        · simp [upd_other _ _ _ _ e] at ht; exact hD t' ht
      · intro t' op' ht; by_cases e : t' = t
        · subst e; simp at ht; subst ht; simp
        · simp [upd_other _ _ _ _ e] at ht; exact List.mem_append_left _ (j.pend t' op' ht)
      · intro t' i acc ht; by_cases e : t' = t
        · subst e; simp at ht
        · simp [upd_other _ _ _ _ e] at ht; exact j.novp t' i acc ht
      · intro t' l ht h6; by_cases e : t' = t
        · subst e; simp at ht
        · simp [upd_other _ _ _ _ e] at ht; exact j.vals t' l ht h6
      · intro h; rcases List.mem_append.mp h with h | h
        · exact j.noret h
        · simp [e5] at h
    | ret t r hth =>
      refine ⟨⟨b0, b1, hsh, fun h => List.mem_append_left _ (h0 h), fun h => List.mem_append_left _ (h1 h), ?_, ?_⟩, ?_, ?_, ?_, ?_⟩
      · intro h; rcases List.mem_append.mp h with h | h
        · exact h2 h
        · simp [e2] at h; obtain ⟨rfl, rfl⟩ := h; exact hD 1 hth
      · intro t' ht; by_cases e : t' = t
        · subst e; simp at ht
        · simp [upd_other _ _ _ _ e] at ht; exact hD t' ht
      · intro t' op' ht; by_cases e : t' = t
        · subst e; simp at ht
        · simp [upd_other _ _ _ _ e] at ht; exact List.mem_append_left _ (j.pend t' op' ht)
      · intro t' i acc ht; by_cases e : t' = t
        · subst e; simp at ht
        · simp [upd_other _ _ _ _ e] at ht; exact j.novp t' i acc ht
      · intro t' l ht h6; by_cases e : t' = t
        · subst e; simp at ht
        · simp [upd_other _ _ _ _ e] at ht; exact j.vals t' l ht h6
      · intro h; rcases List.mem_append.mp h with h | h
        · exact j.noret h
        · simp [e5] at h; obtain ⟨rfl, rfl⟩ := h
          have := j.vals 0 [6] hth (by simp)
          simp at this

/-- no execution of the strong atomic automaton has the torn history -/
theorem torn_not_linearizable : ¬ Linearizable wcfg true tornTrace := by
  intro ⟨a, h⟩
  have j := torn_inv h 6 (Nat.le_refl 6) (by simp [tornTrace])
  exact j.noret (by simp [tornTrace])

end PlzVerif.CMap.Torn
