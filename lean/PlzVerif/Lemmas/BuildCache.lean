import PlzVerif.Lemmas.Build
import PlzVerif.Model.BuildCache
/-! C02: the cache holds only entries satisfying the history invariant, so a restore is indistinguishable
    from building. Core only. -/
namespace PlzVerif.Build
set_option linter.unusedSectionVars false
set_option linter.unusedSimpArgs false

variable {K A F N C S H : Type} [DecidableEq K] [DecidableEq S] [DecidableEq N] [DecidableEq H]
variable (fx : Facts) (mv : C → C → C) (rs : C → C → C) (exec : A → List (N × C) → C) (ruleSer : A → S) (pathSer : C → H)

/-- Cache invariant: every entry is `exec` of what its key describes. -/
def InvC (cache : Cache K C S N H) : Prop :=
  ∀ k st c, cache (k, st) = some c → ∃ a ins, st = stampOf ruleSer pathSer a ins ∧ c = exec a ins

theorem invC_empty : InvC exec ruleSer pathSer (fun (_ : K × Stamp S N H) => (none : Option C)) := by
  intro k st c h; simp at h

/-- When the target is not up to date, the cache-less step leaves some tree under the NEW stamp. -/
theorem buildOne_key_ran (r : Repo K A F N C) (out : Out K C S N H) (t : Target K A F) (ins : List (N × C))
    (hin : inputs r out t = some ins)
    (hnot : ∀ c0 st0, out t.key = some (c0, st0) → stampEq fx st0 (stampOf ruleSer pathSer t.attrs ins) = false) :
    ∃ x, (buildOne fx mv exec ruleSer pathSer r out t).1 t.key = some (x, stampOf ruleSer pathSer t.attrs ins) := by
  unfold buildOne
  rw [hin]
  simp only
  cases ho : out t.key with
  | none => exact ⟨exec t.attrs ins, by simp⟩
  | some p =>
    obtain ⟨c0, st0⟩ := p
    simp only [hnot c0 st0 ho]
    exact ⟨mv c0 (exec t.attrs ins), by simp⟩

/-- The four outcomes of one cached build step. -/
inductive StepC (r : Repo K A F N C) (out : Out K C S N H) (cache : Cache K C S N H) (t : Target K A F) :
    Out K C S N H × Cache K C S N H × Bool → Prop
  | nodeps : inputs r out t = none → StepC r out cache t (out, cache, false)
  | skip (ins) : inputs r out t = some ins →
      (buildOne fx mv exec ruleSer pathSer r out t).1 = out → StepC r out cache t (out, cache, false)
  | hit (ins c) : inputs r out t = some ins → cache (t.key, stampOf ruleSer pathSer t.attrs ins) = some c →
      StepC r out cache t (fun j => if j = t.key then some ((match out t.key with | some (c0, _) => rs c0 c | none => c),
        stampOf ruleSer pathSer t.attrs ins) else out j, cache, false)
  | miss (ins x) : inputs r out t = some ins →
      (buildOne fx mv exec ruleSer pathSer r out t).1 t.key = some (x, stampOf ruleSer pathSer t.attrs ins) →
      StepC r out cache t ((buildOne fx mv exec ruleSer pathSer r out t).1,
        (fun q => if q = (t.key, stampOf ruleSer pathSer t.attrs ins) then some x else cache q), true)

theorem buildOneC_step (r : Repo K A F N C) (out : Out K C S N H) (cache : Cache K C S N H) (t : Target K A F) :
    StepC fx mv rs exec ruleSer pathSer r out cache t (buildOneC fx mv rs exec ruleSer pathSer r out cache t) := by
  cases hin : inputs r out t with
  | none =>
    have : buildOneC fx mv rs exec ruleSer pathSer r out cache t = (out, cache, false) := by simp [buildOneC, hin]
    rw [this]; exact .nodeps hin
  | some ins =>
    by_cases hup : ∃ c0 st0, out t.key = some (c0, st0) ∧ stampEq fx st0 (stampOf ruleSer pathSer t.attrs ins) = true
    · obtain ⟨c0, st0, ho, hs⟩ := hup
      have e1 : buildOneC fx mv rs exec ruleSer pathSer r out cache t = (out, cache, false) := by
        unfold buildOneC; rw [hin]; simp [ho, hs]
      have e2 : (buildOne fx mv exec ruleSer pathSer r out t).1 = out := by
        unfold buildOne; rw [hin]; simp [ho, hs]
      rw [e1]; exact .skip ins hin e2
    · have hnot : ∀ c0 st0, out t.key = some (c0, st0) →
          stampEq fx st0 (stampOf ruleSer pathSer t.attrs ins) = false := by
        intro c0 st0 ho
        cases hs : stampEq fx st0 (stampOf ruleSer pathSer t.attrs ins) with
        | false => rfl
        | true => exact absurd ⟨c0, st0, ho, hs⟩ hup
      have hupd : (match out t.key with
          | some (_, st0) => stampEq fx st0 (stampOf ruleSer pathSer t.attrs ins)
          | none => false) = false := by
        cases ho : out t.key with
        | none => rfl
        | some p => obtain ⟨c0, st0⟩ := p; exact hnot c0 st0 ho
      cases hc : cache (t.key, stampOf ruleSer pathSer t.attrs ins) with
      | some c =>
        have e1 : buildOneC fx mv rs exec ruleSer pathSer r out cache t =
            (fun j => if j = t.key then some ((match out t.key with | some (c0, _) => rs c0 c | none => c),
              stampOf ruleSer pathSer t.attrs ins) else out j, cache, false) := by
          unfold buildOneC; rw [hin]; simp only
          cases ho : out t.key with
          | none => simp [hc]
          | some p => obtain ⟨c0, st0⟩ := p; simp [hnot c0 st0 ho, hc]
        rw [e1]; exact .hit ins c hin hc
      | none =>
        obtain ⟨x, hx⟩ := buildOne_key_ran fx mv exec ruleSer pathSer r out t ins hin hnot
        have e1 : buildOneC fx mv rs exec ruleSer pathSer r out cache t =
            ((buildOne fx mv exec ruleSer pathSer r out t).1,
              (fun q => if q = (t.key, stampOf ruleSer pathSer t.attrs ins) then some x else cache q), true) := by
          unfold buildOneC; rw [hin]; simp only
          cases ho : out t.key with
          | none => simp [hc, hx]
          | some p => obtain ⟨c0, st0⟩ := p; simp [hnot c0 st0 ho, hc, hx]
        rw [e1]; exact .miss ins x hin hx

theorem buildOneC_other (r : Repo K A F N C) (out : Out K C S N H) (cache : Cache K C S N H) (t : Target K A F)
    (j : K) (h : j ≠ t.key) : (buildOneC fx mv rs exec ruleSer pathSer r out cache t).1 j = out j := by
  have hstep := buildOneC_step fx mv rs exec ruleSer pathSer r out cache t
  generalize buildOneC fx mv rs exec ruleSer pathSer r out cache t = res at hstep ⊢
  cases hstep with
  | nodeps _ => rfl
  | skip _ _ _ => rfl
  | hit _ _ _ _ => simp [h]
  | miss _ _ _ _ => exact buildOne_other fx mv exec ruleSer pathSer r out t j h

theorem buildOneC_inv (hmv : MvOK pathSer mv) (hrs : ∀ o n, rs o n = n) (hP : Function.Injective pathSer) (r : Repo K A F N C) (out : Out K C S N H)
    (cache : Cache K C S N H) (t : Target K A F)
    (hinv : Inv exec ruleSer pathSer out) (hc : InvC exec ruleSer pathSer cache) :
    Inv exec ruleSer pathSer (buildOneC fx mv rs exec ruleSer pathSer r out cache t).1 ∧
    InvC exec ruleSer pathSer (buildOneC fx mv rs exec ruleSer pathSer r out cache t).2.1 := by
  have hb := buildOne_inv fx mv exec ruleSer pathSer hmv hP r out t hinv
  have hstep := buildOneC_step fx mv rs exec ruleSer pathSer r out cache t
  generalize buildOneC fx mv rs exec ruleSer pathSer r out cache t = res at hstep ⊢
  cases hstep with
  | nodeps _ => exact ⟨hinv, hc⟩
  | skip _ _ _ => exact ⟨hinv, hc⟩
  | hit ins c hin hcc =>
    refine ⟨?_, hc⟩
    have hplaced : (match out t.key with | some (c0, _) => rs c0 c | none => c) = c := by
      cases out t.key with
      | none => rfl
      | some p => obtain ⟨c0, s0⟩ := p; exact hrs c0 c
    intro j c' st' hj
    by_cases hji : j = t.key
    · subst hji
      simp [hplaced] at hj
      obtain ⟨rfl, rfl⟩ := hj
      exact hc _ _ _ hcc
    · simp [hji] at hj; exact hinv j c' st' hj
  | miss ins x hin hx =>
    refine ⟨hb, ?_⟩
    intro k st c hk
    by_cases hq : (k, st) = (t.key, stampOf ruleSer pathSer t.attrs ins)
    · simp only [hq, if_true, Option.some.injEq] at hk
      obtain ⟨a, ins', hs, hce⟩ := hb t.key x _ hx
      have hst : st = stampOf ruleSer pathSer t.attrs ins := (Prod.mk.inj hq).2
      exact ⟨a, ins', by rw [hst]; exact hs, by rw [← hk]; exact hce⟩
    · simp only [hq, if_false] at hk
      exact hc k st c hk

theorem buildOneC_self (hmv : MvOK pathSer mv) (hrs : ∀ o n, rs o n = n) (hf : fx.cmpRule = true ∧ fx.cmpSource = true)
    (hR : Function.Injective ruleSer) (hP : Function.Injective pathSer)
    (r : Repo K A F N C) (out : Out K C S N H) (cache : Cache K C S N H) (acc : List (K × C)) (seen : List K)
    (t : Target K A F) (hinv : Inv exec ruleSer pathSer out) (hc : InvC exec ruleSer pathSer cache)
    (hag : Agree out acc seen) (hd : ∀ d ∈ t.deps, d ∈ seen) :
    ∃ st, (buildOneC fx mv rs exec ruleSer pathSer r out cache t).1 t.key =
      some (exec t.attrs (t.srcs.map (fun f => (r.fname f, r.files f)) ++
        t.deps.filterMap (fun d => (acc.lookup d).map (fun c => (r.outName d, c)))), st) := by
  have hin : inputs r out t = some (t.srcs.map (fun f => (r.fname f, r.files f)) ++
      t.deps.filterMap (fun d => (acc.lookup d).map (fun c => (r.outName d, c)))) := by
    simp [inputs, depIns_agree hag t.deps hd]
  have hb := buildOne_self fx mv exec ruleSer pathSer hmv hf hR hP r out acc seen t hinv hag hd
  have hstep := buildOneC_step fx mv rs exec ruleSer pathSer r out cache t
  generalize buildOneC fx mv rs exec ruleSer pathSer r out cache t = res at hstep ⊢
  cases hstep with
  | nodeps h => rw [hin] at h; simp at h
  | skip ins _ e => rw [e] at hb; exact hb
  | hit ins c hin' hcc =>
    rw [hin] at hin'
    have hins : ins = _ := (Option.some.inj hin').symm
    obtain ⟨a, ins', hs, hce⟩ := hc _ _ _ hcc
    simp only [stampOf, Stamp.mk.injEq] at hs
    have ha : a = t.attrs := (hR hs.1).symm
    have hi : ins' = ins := (map_inj (pairSer_inj pathSer hP) hs.2).symm
    have hplaced : (match out t.key with | some (c0, _) => rs c0 c | none => c) = c := by
      cases out t.key with
      | none => rfl
      | some p => obtain ⟨c0, s0⟩ := p; exact hrs c0 c
    refine ⟨stampOf ruleSer pathSer t.attrs ins, ?_⟩
    simp only [if_true, hplaced]
    rw [hce, ha, hi, hins]
  | miss ins x _ _ => exact hb

theorem buildListC_spec (hmv : MvOK pathSer mv) (hrs : ∀ o n, rs o n = n) (hf : fx.cmpRule = true ∧ fx.cmpSource = true)
    (hR : Function.Injective ruleSer) (hP : Function.Injective pathSer)
    (r : Repo K A F N C) (sel : K → Bool) :
    ∀ (ts : List (Target K A F)) (seen : List K) (out : Out K C S N H) (cache : Cache K C S N H) (acc : List (K × C)),
      acc.map (·.1) = seen → Inv exec ruleSer pathSer out → InvC exec ruleSer pathSer cache →
      Agree out acc seen → WFList sel seen ts →
      Inv exec ruleSer pathSer (buildListC fx mv rs exec ruleSer pathSer r sel ts out cache).1 ∧
      InvC exec ruleSer pathSer (buildListC fx mv rs exec ruleSer pathSer r sel ts out cache).2.1 ∧
      (cleanList exec r sel ts acc).map (·.1) = seen ++ selKeys sel ts ∧
      Agree (buildListC fx mv rs exec ruleSer pathSer r sel ts out cache).1 (cleanList exec r sel ts acc) (seen ++ selKeys sel ts) := by
  intro ts
  induction ts with
  | nil => intro seen out cache acc hk hinv hci hag _; simpa [buildListC, cleanList, selKeys] using ⟨hinv, hci, hk, hag⟩
  | cons t ts ih =>
    intro seen out cache acc hk hinv hci hag hwf
    by_cases hs : sel t.key = true
    · simp only [WFList, hs, if_true] at hwf
      obtain ⟨hd, hnew, hwf'⟩ := hwf
      obtain ⟨hinv', hci'⟩ := buildOneC_inv fx mv rs exec ruleSer pathSer hmv hrs hP r out cache t hinv hci
      obtain ⟨st, hself⟩ := buildOneC_self fx mv rs exec ruleSer pathSer hmv hrs hf hR hP r out cache acc seen t hinv hci hag hd
      have hag' : Agree (buildOneC fx mv rs exec ruleSer pathSer r out cache t).1
          (acc ++ [(t.key, exec t.attrs (t.srcs.map (fun f => (r.fname f, r.files f)) ++
            t.deps.filterMap (fun d => (acc.lookup d).map (fun c => (r.outName d, c)))))]) (seen ++ [t.key]) := by
        intro k hkm
        rcases List.mem_append.mp hkm with hks | hkt
        · have hne : k ≠ t.key := fun e => hnew (e ▸ hks)
          obtain ⟨c, st', ho, ha⟩ := hag k hks
          exact ⟨c, st', by rw [buildOneC_other fx mv rs exec ruleSer pathSer r out cache t k hne]; exact ho,
            lookup_append_of_mem ha⟩
        · have hkt' : k = t.key := by simpa using hkt
          subst hkt'
          exact ⟨_, st, hself, lookup_append_new (by rw [hk]; exact hnew)⟩
      have := ih (seen ++ [t.key]) _ _ _ (by simp [hk]) hinv' hci' hag' hwf'
      simp only [buildListC, cleanList, hs, if_true, selKeys, List.filter_cons, List.map_cons]
      simpa [selKeys, List.append_assoc] using this
    · simp only [Bool.not_eq_true] at hs
      simp only [WFList, hs] at hwf
      have := ih seen out cache acc hk hinv hci hag (by simpa using hwf)
      simpa [buildListC, cleanList, hs, selKeys, List.filter_cons] using this

/-- Any cached build preserves both invariants (well-formed or not). -/
theorem buildListC_inv (hmv : MvOK pathSer mv) (hrs : ∀ o n, rs o n = n) (hP : Function.Injective pathSer) (r : Repo K A F N C) (sel : K → Bool) :
    ∀ (ts : List (Target K A F)) (out : Out K C S N H) (cache : Cache K C S N H),
      Inv exec ruleSer pathSer out → InvC exec ruleSer pathSer cache →
      Inv exec ruleSer pathSer (buildListC fx mv rs exec ruleSer pathSer r sel ts out cache).1 ∧
      InvC exec ruleSer pathSer (buildListC fx mv rs exec ruleSer pathSer r sel ts out cache).2.1 := by
  intro ts
  induction ts with
  | nil => intro out cache h hc; exact ⟨h, hc⟩
  | cons t ts ih =>
    intro out cache h hc
    by_cases hs : sel t.key = true
    · simp only [buildListC, hs, if_true]
      obtain ⟨h', hc'⟩ := buildOneC_inv fx mv rs exec ruleSer pathSer hmv hrs hP r out cache t h hc
      exact ih _ _ h' hc'
    · simp only [Bool.not_eq_true] at hs
      simp only [buildListC, hs]
      exact ih out cache h hc

/-- History steps with a cache: builds, removals from plz-out (including `rm -rf plz-out`), and eviction of
    arbitrary cache entries (cleaning). -/
inductive HOpC (K A F N C S H : Type) where
  | build (r : Repo K A F N C) (sel : K → Bool)
  | remove (keep : K → Bool)
  | evict (keep : K × Stamp S N H → Bool)

def runHistC : List (HOpC K A F N C S H) → Out K C S N H × Cache K C S N H → Out K C S N H × Cache K C S N H
  | [], s => s
  | .build r sel :: ops, (out, cache) =>
      let res := buildC fx mv rs exec ruleSer pathSer r sel out cache
      runHistC ops (res.1, res.2.1)
  | .remove keep :: ops, (out, cache) => runHistC ops (fun k => if keep k then out k else none, cache)
  | .evict keep :: ops, (out, cache) => runHistC ops (out, fun q => if keep q then cache q else none)

theorem runHistC_inv (hmv : MvOK pathSer mv) (hrs : ∀ o n, rs o n = n) (hP : Function.Injective pathSer) :
    ∀ (ops : List (HOpC K A F N C S H)) (s : Out K C S N H × Cache K C S N H),
      Inv exec ruleSer pathSer s.1 → InvC exec ruleSer pathSer s.2 →
      Inv exec ruleSer pathSer (runHistC fx mv rs exec ruleSer pathSer ops s).1 ∧
      InvC exec ruleSer pathSer (runHistC fx mv rs exec ruleSer pathSer ops s).2 := by
  intro ops
  induction ops with
  | nil => intro s h hc; exact ⟨h, hc⟩
  | cons op ops ih =>
    intro s h hc
    obtain ⟨out, cache⟩ := s
    cases op with
    | build r sel =>
      obtain ⟨h', hc'⟩ := buildListC_inv fx mv rs exec ruleSer pathSer hmv hrs hP r sel r.targets out cache h hc
      exact ih _ h' hc'
    | remove keep => exact ih _ (inv_restrict exec ruleSer pathSer out keep h) hc
    | evict keep =>
      refine ih _ h ?_
      intro k st c hk
      by_cases hkk : keep (k, st) = true
      · simp [hkk] at hk; exact hc k st c hk
      · simp [hkk] at hk

end PlzVerif.Build
