import PlzVerif.Model.Glob
import PlzVerif.Lemmas.Walk
set_option linter.unusedSimpArgs false
/-! Lemmas for C21: the two matchers on parsed patterns against the segment-wise specification. -/
namespace PlzVerif.Glob
open PlzVerif.Walk

/-! ### `starWhile`, `anySuffix`-style combinators as existentials -/

theorem starWhile_iff (p : Char → Bool) (k : List Char → Bool) : ∀ (s : List Char),
    starWhile p k s = true ↔ ∃ w t, s = w ++ t ∧ (∀ c ∈ w, p c = true) ∧ k t = true
  | [] => by
    simp only [starWhile]
    constructor
    · intro h; exact ⟨[], [], rfl, by simp, h⟩
    · rintro ⟨w, t, e, _, hk⟩
      have : w = [] ∧ t = [] := by simpa using e.symm
      rw [this.2] at hk; exact hk
  | c :: s => by
    simp only [starWhile, Bool.or_eq_true, Bool.and_eq_true]
    constructor
    · rintro (h | ⟨hc, h⟩)
      · exact ⟨[], c :: s, rfl, by simp, h⟩
      · obtain ⟨w, t, e, hw, hk⟩ := (starWhile_iff p k s).mp h
        exact ⟨c :: w, t, by simp [e], by
          intro x hx; rcases List.mem_cons.mp hx with rfl | hx
          · exact hc
          · exact hw x hx, hk⟩
    · rintro ⟨w, t, e, hw, hk⟩
      cases w with
      | nil => left; simp at e; rw [e]; exact hk
      | cons x w' =>
        right
        simp only [List.cons_append, List.cons.injEq] at e
        refine ⟨by rw [e.1]; exact hw x (by simp), (starWhile_iff p k s).mpr ⟨w', t, e.2, fun y hy => hw y (by simp [hy]), hk⟩⟩

theorem dstarSkip_iff (k : List Name → Bool) : ∀ (cs : List Name),
    dstarSkip k cs = true ↔ ∃ j, j ≤ cs.length ∧ k (cs.drop j) = true
  | [] => by
    simp only [dstarSkip]
    constructor
    · intro h; exact ⟨0, by simp, h⟩
    · rintro ⟨j, _, h⟩; simpa using h
  | c :: cs => by
    simp only [dstarSkip, Bool.or_eq_true]
    constructor
    · rintro (h | h)
      · exact ⟨0, by simp, h⟩
      · obtain ⟨j, hj, h⟩ := (dstarSkip_iff k cs).mp h
        exact ⟨j + 1, by simp; omega, by simpa using h⟩
    · rintro ⟨j, hj, h⟩
      cases j with
      | zero => left; simpa using h
      | succ j => right; exact (dstarSkip_iff k cs).mpr ⟨j, by simp at hj; omega, by simpa using h⟩

/-! ### one component -/

theorem char_eq_of_toNat {x y : Char} (h : x.toNat = y.toNat) : x = y :=
  Char.ext (UInt32.toNat_inj.mp h)

theorem inRanges_slash (x : Char) : inRanges [('/', '/')] x = (x == '/') := by
  have h47 : '/'.toNat = 47 := rfl
  simp only [inRanges, List.any_cons, List.any_nil, Bool.or_false, h47]
  by_cases h : x = '/'
  · subst h; decide
  · have hne : x.toNat ≠ 47 := fun e => h (char_eq_of_toNat (by rw [e, h47]))
    have hb : (x == '/') = false := by simpa using h
    rw [hb, Bool.and_eq_false_iff]
    by_cases h1 : 47 ≤ x.toNat
    · right; simp only [decide_eq_false_iff_not]; omega
    · left; simpa using h1

theorem clsHit_notSlash (x : Char) : clsHit true [('/', '/')] x = (x != '/') := by
  simp only [clsHit, inRanges_slash, bne]
  cases (x == '/') <;> rfl

/-- Items that cannot match '/': the regexp (resp. `filepath.Match`) reading of an item list matches exactly a
    '/'-free prefix that the component matcher accepts. -/
theorem itemsRe_iff (m : Mode) : ∀ (p : List GItem) (k : List Char → Bool) (t : List Char),
    p.all (okItem m) = true →
    (rmatch (itemsRe m p) k t = true ↔
      ∃ u v, t = u ++ v ∧ compMatch1 p u = true ∧ '/' ∉ u ∧ (m.anyCls = false → '\n' ∉ u ∨ True) ∧ k v = true)
  | [], k, t, _ => by
    simp only [itemsRe, rmatch, compMatch1]
    constructor
    · intro h; exact ⟨[], t, rfl, rfl, by simp, by simp, h⟩
    · rintro ⟨u, v, e, hu, _, _, hk⟩
      have : u = [] := by simpa using hu
      subst this; simpa [e] using hk
  | i :: p, k, t, ok => by
    simp only [List.all_cons, Bool.and_eq_true] at ok
    have ih := fun k t => itemsRe_iff m p k t ok.2
    cases i with
    | lit c =>
      have hc : c ≠ '/' := by
        have := ok.1; simp only [okItem, Bool.and_eq_true, bne_iff_ne, ne_eq] at this; exact this.1
      simp only [itemsRe, itemRe, rmatch]
      cases t with
      | nil =>
        simp only [Bool.false_eq_true, false_iff]
        rintro ⟨u, v, e, hu, _⟩
        have : u = [] := by
          have := congrArg List.length e; simp at this; exact List.eq_nil_of_length_eq_zero (by omega)
        subst this; simp [compMatch1] at hu
      | cons x t' =>
        simp only [Bool.and_eq_true, beq_iff_eq, ih]
        constructor
        · rintro ⟨rfl, u, v, e, hu, hs, hn, hk⟩
          exact ⟨c :: u, v, by simp [e], by simp [compMatch1, hu], by
            intro h; rcases List.mem_cons.mp h with h | h
            · exact hc h.symm
            · exact hs h, by simp, hk⟩
        · rintro ⟨u, v, e, hu, hs, _, hk⟩
          cases u with
          | nil => simp [compMatch1] at hu
          | cons y u' =>
            simp only [List.cons_append, List.cons.injEq] at e
            simp only [compMatch1, Bool.and_eq_true, beq_iff_eq] at hu
            exact ⟨by rw [hu.1, e.1], u', v, e.2, hu.2, fun h => hs (by simp [h]), by simp, hk⟩
    | star =>
      simp only [itemsRe, itemRe, rmatch, starWhile_iff]
      constructor
      · rintro ⟨w, t', e, hw, h⟩
        obtain ⟨u, v, e', hu, hs, _, hk⟩ := (ih k t').mp h
        refine ⟨w ++ u, v, by simp [e, e'], ?_, ?_, by simp, hk⟩
        · simp only [compMatch1, starWhile_iff]; exact ⟨w, u, rfl, by simp, hu⟩
        · intro h; rcases List.mem_append.mp h with h | h
          · have := hw _ h; simp [clsHit_notSlash] at this
          · exact hs h
      · rintro ⟨u, v, e, hu, hs, _, hk⟩
        simp only [compMatch1, starWhile_iff] at hu
        obtain ⟨w, u', eu, _, hu'⟩ := hu
        refine ⟨w, u' ++ v, by simp [e, eu], ?_, (ih k (u' ++ v)).mpr ⟨u', v, rfl, hu', fun h => hs (by simp [eu, h]), by simp, hk⟩⟩
        intro c hc
        rw [clsHit_notSlash]
        simp only [bne_iff_ne, ne_eq]
        intro e'; subst e'; exact hs (by simp [eu, hc])
    | any =>
      have hb : m.anyCls = true := by simpa [okItem] using ok.1
      simp only [itemsRe, itemRe, hb, if_true, rmatch]
      cases t with
      | nil =>
        simp only [Bool.false_eq_true, false_iff]
        rintro ⟨u, v, e, hu, _⟩
        have : u = [] := by
          have := congrArg List.length e; simp at this; exact List.eq_nil_of_length_eq_zero (by omega)
        subst this; simp [compMatch1] at hu
      | cons x t' =>
        simp only [Bool.and_eq_true, clsHit_notSlash, bne_iff_ne, ne_eq, ih]
        constructor
        · rintro ⟨hx, u, v, e, hu, hs, _, hk⟩
          exact ⟨x :: u, v, by simp [e], by simp [compMatch1, hu], by
            intro h; rcases List.mem_cons.mp h with h | h
            · exact hx h.symm
            · exact hs h, by simp, hk⟩
        · rintro ⟨u, v, e, hu, hs, _, hk⟩
          cases u with
          | nil => simp [compMatch1] at hu
          | cons y u' =>
            simp only [List.cons_append, List.cons.injEq] at e
            simp only [compMatch1] at hu
            exact ⟨by rw [e.1]; intro h; exact hs (by simp [h]), u', v, e.2, hu, fun h => hs (by simp [h]), by simp, hk⟩
    | cls neg rs =>
      have hn : neg = false ∧ inRanges rs '/' = false := by simpa [okItem] using ok.1
      obtain ⟨hneg, hsl⟩ := hn
      subst hneg
      simp only [itemsRe, itemRe, rmatch]
      cases t with
      | nil =>
        simp only [Bool.false_eq_true, false_iff]
        rintro ⟨u, v, e, hu, _⟩
        have : u = [] := by
          have := congrArg List.length e; simp at this; exact List.eq_nil_of_length_eq_zero (by omega)
        subst this; simp [compMatch1] at hu
      | cons x t' =>
        simp only [Bool.and_eq_true, clsHit, ih]
        constructor
        · rintro ⟨hx, u, v, e, hu, hs, _, hk⟩
          exact ⟨x :: u, v, by simp [e], by simp [compMatch1, hu, hx], by
            intro h; rcases List.mem_cons.mp h with h | h
            · subst h; simp [hsl] at hx
            · exact hs h, by simp, hk⟩
        · rintro ⟨u, v, e, hu, hs, _, hk⟩
          cases u with
          | nil => simp [compMatch1] at hu
          | cons y u' =>
            simp only [List.cons_append, List.cons.injEq] at e
            simp only [compMatch1, Bool.and_eq_true] at hu
            exact ⟨by rw [e.1]; exact hu.1, u', v, e.2, hu.2, fun h => hs (by simp [h]), by simp, hk⟩


theorem itemsRe_spec (m : Mode) (p : List GItem) (k : List Char → Bool) (t : List Char)
    (ok : p.all (okItem m) = true) :
    rmatch (itemsRe m p) k t = true ↔ ∃ u v, t = u ++ v ∧ compMatch1 p u = true ∧ '/' ∉ u ∧ k v = true := by
  rw [itemsRe_iff m p k t ok]
  constructor
  · rintro ⟨u, v, e, h1, h2, _, h3⟩; exact ⟨u, v, e, h1, h2, h3⟩
  · rintro ⟨u, v, e, h1, h2, h3⟩; exact ⟨u, v, e, h1, h2, by simp, h3⟩

/-! ### paths as strings -/

/-- Entry names of C21: C22's good names without a newline (Go's regexp `.` does not match '\n'). -/
def gname (n : Name) : Bool := goodName n && !n.contains '\n'
def gpath (p : List Name) : Bool := p.all gname

theorem gpath_good {p : List Name} (h : gpath p = true) : goodPath p = true := by
  simp only [gpath, goodPath, List.all_eq_true, gname, Bool.and_eq_true] at h ⊢
  exact fun x hx => (h x hx).1

theorem gpath_cons {c : Name} {cs : List Name} (h : gpath (c :: cs) = true) :
    gname c = true ∧ gpath cs = true := by simpa [gpath] using h

theorem gname_noslash {c : Name} (h : gname c = true) : '/' ∉ c := by
  simp only [gname, Bool.and_eq_true] at h; exact goodName_noslash h.1

theorem gname_nonl {c : Name} (h : gname c = true) : '\n' ∉ c := by
  simp only [gname, Bool.and_eq_true, Bool.not_eq_true', List.contains_eq_mem, decide_eq_false_iff_not] at h
  exact h.2

theorem joinSlash_cons (c : Name) (cs : List Name) :
    joinSlash (c :: cs) = if cs.isEmpty then c else c ++ '/' :: joinSlash cs := by
  cases cs <;> simp [joinSlash]

theorem joinSlash_nonl : ∀ (p : List Name), gpath p = true → '\n' ∉ joinSlash p
  | [], _ => by simp [joinSlash]
  | [a], h => by simpa [joinSlash] using gname_nonl (gpath_cons h).1
  | a :: b :: r, h => by
    have h1 := gname_nonl (gpath_cons h).1
    have h2 := joinSlash_nonl (b :: r) (gpath_cons h).2
    simp only [joinSlash, List.mem_append, List.mem_cons]
    rintro (h | h | h)
    · exact h1 h
    · exact absurd h (by decide)
    · exact h2 h

/-- Two ways of cutting a string at its first '/' agree. -/
theorem first_cut : ∀ (a u x v : List Char), '/' ∉ a → '/' ∉ u →
    (x = [] ∨ ∃ x', x = '/' :: x') → (v = [] ∨ ∃ v', v = '/' :: v') → a ++ x = u ++ v → a = u ∧ x = v
  | [], [], _, _, _, _, _, _, e => ⟨rfl, by simpa using e⟩
  | [], y :: u', x, v, _, hu, hx, _, e => by
    exfalso
    rcases hx with rfl | ⟨x', rfl⟩
    · simp at e
    · simp only [List.nil_append, List.cons_append, List.cons.injEq] at e
      exact hu (by simp [← e.1])
  | z :: a', [], x, v, ha, _, _, hv, e => by
    exfalso
    rcases hv with rfl | ⟨v', rfl⟩
    · simp at e
    · simp only [List.nil_append, List.cons_append, List.cons.injEq] at e
      exact ha (by simp [e.1])
  | z :: a', y :: u', x, v, ha, hu, hx, hv, e => by
    simp only [List.cons_append, List.cons.injEq] at e
    obtain ⟨h1, h2⟩ := first_cut a' u' x v (fun h => ha (by simp [h])) (fun h => hu (by simp [h])) hx hv e.2
    exact ⟨by rw [e.1, h1], h2⟩

theorem split_first (c : Name) (cs : List Name) (u v : List Char) (hc : '/' ∉ c) (hu : '/' ∉ u)
    (hv : v = [] ∨ ∃ v', v = '/' :: v') (e : joinSlash (c :: cs) = u ++ v) :
    u = c ∧ ((cs = [] ∧ v = []) ∨ (cs ≠ [] ∧ v = '/' :: joinSlash cs)) := by
  rw [joinSlash_cons] at e
  cases cs with
  | nil =>
    simp only [List.isEmpty_nil, if_true] at e
    have := first_cut c u [] v hc hu (Or.inl rfl) hv (by simpa using e)
    exact ⟨this.1.symm, Or.inl ⟨rfl, this.2.symm⟩⟩
  | cons d ds =>
    simp only [List.isEmpty_cons, Bool.false_eq_true, if_false] at e
    have := first_cut c u ('/' :: joinSlash (d :: ds)) v hc hu (Or.inr ⟨_, rfl⟩) hv e
    exact ⟨this.1.symm, Or.inr ⟨by simp, this.2.symm⟩⟩

theorem joinSlash_has_slash (c d : Name) (ds : List Name) : '/' ∈ joinSlash (c :: d :: ds) := by
  simp [joinSlash]

theorem joinSlash_ne_nil : ∀ (p : List Name), p ≠ [] → gpath p = true → joinSlash p ≠ []
  | [], h, _ => absurd rfl h
  | [a], _, g => by
    have := goodName_ne_nil (by have := (gpath_cons g).1; simp only [gname, Bool.and_eq_true] at this; exact this.1)
    simpa [joinSlash] using this
  | a :: b :: r, _, _ => by simp [joinSlash]

/-- Cutting a path string at a '/' = cutting the component list. -/
theorem split_slash (comps : List Name) (g : gpath comps = true) (hne : comps ≠ []) (u v : List Char) :
    joinSlash comps = u ++ '/' :: v ↔
      ∃ j, 0 < j ∧ j < comps.length ∧ u = joinSlash (comps.take j) ∧ v = joinSlash (comps.drop j) := by
  constructor
  · intro e
    have hp : (u ++ ['/']) <+: joinSlash comps := ⟨v, by rw [e]; simp⟩
    obtain ⟨k, hk, eu⟩ := compMatch_of_slash comps u hne (gpath_good g) (Or.inr hp)
    by_cases hlen : k + 1 = comps.length
    · exfalso
      rw [hlen, List.take_length] at eu
      rw [← eu] at e
      have := congrArg List.length e
      simp at this
    · have hlt : k + 1 < comps.length := by omega
      have ej := joinSlash_append (comps.take (k + 1)) (comps.drop (k + 1))
        (by intro c; have := congrArg List.length c; simp only [List.length_take, List.length_nil] at this; omega)
        (by intro c; have := congrArg List.length c; simp only [List.length_drop, List.length_nil] at this; omega)
      rw [List.take_append_drop, e, ← eu] at ej
      have := List.append_cancel_left ej
      simp only [List.cons.injEq, true_and] at this
      exact ⟨k + 1, by omega, hlt, eu, this⟩
  · rintro ⟨j, hj, hlt, eu, ev⟩
    have ej := joinSlash_append (comps.take j) (comps.drop j)
      (by intro c; have := congrArg List.length c; simp only [List.length_take, List.length_nil] at this; omega)
      (by intro c; have := congrArg List.length c; simp only [List.length_drop, List.length_nil] at this; omega)
    rw [List.take_append_drop] at ej
    rw [ej, eu, ev]

/-! ### the main matcher theorem -/

theorem segMatch_nil_of_head (r : Seg) (rest : List Seg) (h : noAdjacentDstar (.dstar :: r :: rest) = true) :
    segMatch (r :: rest) [] = false := by
  cases r with
  | dstar => simp [noAdjacentDstar] at h
  | items p => simp [segMatch]

theorem noAdj_tail {s : Seg} {rest : List Seg} (h : noAdjacentDstar (s :: rest) = true) :
    noAdjacentDstar rest = true := by
  cases s with
  | items p => simpa [noAdjacentDstar] using h
  | dstar =>
    cases rest with
    | nil => rfl
    | cons r rest' =>
      cases r with
      | dstar => simp [noAdjacentDstar] at h
      | items p => simpa [noAdjacentDstar] using h

theorem okSegs_tail {m : Mode} {s : Seg} {rest : List Seg} (h : okSegs m (s :: rest) = true) :
    okSegs m rest = true := by
  cases s <;> simp only [okSegs, Bool.and_eq_true] at h <;> exact h.2

/-- The pattern starts with `**/` and something follows (the shape `toRegexString` mistranslates in the root package). -/
def leadingDstar : List Seg → Bool
  | .dstar :: _ :: _ => true
  | _ => false

theorem toReSegs_spec (m : Mode) : ∀ (segs : List Seg) (atStart : Bool) (comps : List Name),
    okSegs m segs = true → noAdjacentDstar segs = true → gpath comps = true → comps ≠ [] → segs ≠ [] →
    (atStart = true → m.leadOpt = true ∨ leadingDstar segs = false) →
    rmatch (toReSegs m atStart segs) (·.isEmpty) (joinSlash comps) = segMatch segs comps
  | [], _, _, _, _, _, _, hs, _ => absurd rfl hs
  | .items p :: rest, atStart, comps, ok, na, g, hne, _, _ => by
    obtain ⟨c, cs, rfl⟩ := List.exists_cons_of_ne_nil hne
    have hp : p.all (okItem m) = true := by simp only [okSegs, Bool.and_eq_true] at ok; exact ok.1
    have hc := gname_noslash (gpath_cons g).1
    cases rest with
    | nil =>
      simp only [toReSegs, segMatch]
      rw [Bool.eq_iff_iff, itemsRe_spec m p _ _ hp]
      simp only [Bool.and_eq_true, List.isEmpty_iff]
      constructor
      · rintro ⟨u, v, e, hm, hs, hv⟩
        subst hv
        obtain ⟨e1, e2⟩ := split_first c cs u [] hc hs (Or.inl rfl) e
        rcases e2 with ⟨e3, _⟩ | ⟨_, e4⟩
        · exact ⟨by rw [← e1]; exact hm, e3⟩
        · simp at e4
      · rintro ⟨hm, rfl⟩
        exact ⟨c, [], by simp [joinSlash], hm, hc, rfl⟩
    | cons r rest' =>
      have ih := toReSegs_spec m (r :: rest') false
      simp only [toReSegs, segMatch, rmatch]
      rw [Bool.eq_iff_iff, itemsRe_spec m p _ _ hp]
      simp only [Bool.and_eq_true]
      constructor
      · rintro ⟨u, v, e, hm, hs, hv⟩
        cases v with
        | nil => simp at hv
        | cons x v' =>
          simp only [Bool.and_eq_true, beq_iff_eq] at hv
          obtain ⟨hx, hv⟩ := hv
          subst hx
          obtain ⟨e1, e2⟩ := split_first c cs u ('/' :: v') hc hs (Or.inr ⟨_, rfl⟩) e
          rcases e2 with ⟨_, e3⟩ | ⟨hcs, e4⟩
          · simp at e3
          · simp only [List.cons.injEq, true_and] at e4
            rw [e4, ih cs (okSegs_tail ok) (noAdj_tail na) (gpath_cons g).2 hcs (by simp) (by simp)] at hv
            exact ⟨by rw [← e1]; exact hm, hv⟩
      · rintro ⟨hm, hr⟩
        have hcs : cs ≠ [] := by
          intro e; subst e
          cases r <;> simp [segMatch] at hr
          rename_i hr'; cases rest' <;> simp [dstarSkip, segMatch] at hr
          · exact absurd hr (by
              have := segMatch_nil_of_head _ _ (noAdj_tail na); simp_all)
        refine ⟨c, '/' :: joinSlash cs, ?_, hm, hc, ?_⟩
        · rw [joinSlash_cons]; simp [hcs]
        · simp only [beq_self_eq_true, Bool.true_and]
          rw [ih cs (okSegs_tail ok) (noAdj_tail na) (gpath_cons g).2 hcs (by simp) (by simp)]
          exact hr
  | .dstar :: rest, atStart, comps, ok, na, g, hne, _, hstart => by
    cases rest with
    | nil =>
      simp only [toReSegs, segMatch, rmatch]
      have : comps.isEmpty = false := by simpa using hne
      rw [this, Bool.not_false, starWhile_iff]
      refine ⟨joinSlash comps, [], by simp, ?_, rfl⟩
      intro c hc
      simp only [bne_iff_ne, ne_eq]
      intro e; subst e; exact joinSlash_nonl comps g hc
    | cons r rest' =>
      have hcond : (atStart && !m.leadOpt) = false := by
        cases atStart with
        | false => rfl
        | true =>
          rcases hstart rfl with h | h
          · simp [h]
          · simp [leadingDstar] at h
      have ih := toReSegs_spec m (r :: rest') false
      have okt := okSegs_tail ok
      have nat := noAdj_tail na
      simp only [toReSegs, segMatch, rmatch, hcond, Bool.false_eq_true, if_false]
      rw [Bool.eq_iff_iff, Bool.or_eq_true, dstarSkip_iff, starWhile_iff]
      constructor
      · rintro (⟨w, t, e, _, ht⟩ | h)
        · cases t with
          | nil => simp at ht
          | cons x t' =>
            simp only [Bool.and_eq_true, beq_iff_eq] at ht
            obtain ⟨hx, ht⟩ := ht
            subst hx
            obtain ⟨j, hj, hlt, _, ev⟩ := (split_slash comps g hne w t').mp e
            have gd : gpath (comps.drop j) = true := by
              simp only [gpath, List.all_eq_true] at g ⊢
              exact fun x hx => g x (List.mem_of_mem_drop hx)
            have hd : comps.drop j ≠ [] := by
              intro c; have := congrArg List.length c; simp only [List.length_drop, List.length_nil] at this; omega
            rw [ev, ih (comps.drop j) okt nat gd hd (by simp) (by simp)] at ht
            exact ⟨j, by omega, ht⟩
        · rw [ih comps okt nat g hne (by simp) (by simp)] at h
          exact ⟨0, by omega, by simpa using h⟩
      · rintro ⟨j, hj, h⟩
        by_cases h0 : j = 0
        · subst h0
          right
          rw [ih comps okt nat g hne (by simp) (by simp)]
          simpa using h
        · by_cases hl : j = comps.length
          · subst hl
            rw [List.drop_length, segMatch_nil_of_head r rest' na] at h
            exact absurd h (by simp)
          · left
            have hlt : j < comps.length := by omega
            have gd : gpath (comps.drop j) = true := by
              simp only [gpath, List.all_eq_true] at g ⊢
              exact fun x hx => g x (List.mem_of_mem_drop hx)
            have hd : comps.drop j ≠ [] := by
              intro c; have := congrArg List.length c; simp only [List.length_drop, List.length_nil] at this; omega
            refine ⟨joinSlash (comps.take j), '/' :: joinSlash (comps.drop j), ?_, ?_, ?_⟩
            · exact (split_slash comps g hne _ _).mpr ⟨j, by omega, hlt, rfl, rfl⟩
            · intro c hc
              simp only [bne_iff_ne, ne_eq]
              intro e; subst e
              have gt : gpath (comps.take j) = true := by
                simp only [gpath, List.all_eq_true] at g ⊢
                exact fun x hx => g x (List.mem_of_mem_take hx)
              exact joinSlash_nonl _ gt hc
            · simp only [beq_self_eq_true, Bool.true_and]
              rw [ih (comps.drop j) okt nat gd hd (by simp) (by simp)]
              exact h


/-! ### `filepath.Match` through the same lens -/

theorem starSkip_eq (k : List Char → Bool) : ∀ s, starSkip k s = starWhile (clsHit true [('/', '/')]) k s
  | [] => rfl
  | c :: s => by simp only [starSkip, starWhile, clsHit_notSlash, starSkip_eq k s]

theorem gmatch_eq : ∀ (p : List GItem) (s : List Char), gmatch p s = rmatch (itemsRe Mode.builtin p) (·.isEmpty) s
  | [], s => by simp [gmatch, itemsRe, rmatch]
  | .lit c :: p, s => by
    cases s with
    | nil => simp [gmatch, itemsRe, itemRe, rmatch]
    | cons x s' => simp [gmatch, itemsRe, itemRe, rmatch, gmatch_eq p s']
  | .any :: p, s => by
    cases s with
    | nil => simp [gmatch, itemsRe, itemRe, Mode.builtin, rmatch]
    | cons x s' => simp only [gmatch, itemsRe, itemRe, Mode.builtin, rmatch, if_true, clsHit_notSlash, gmatch_eq p s']
  | .cls neg rs :: p, s => by
    cases s with
    | nil => simp [gmatch, itemsRe, itemRe, rmatch]
    | cons x s' => simp only [gmatch, itemsRe, itemRe, rmatch, clsHit, gmatch_eq p s']
  | .star :: p, s => by
    have : gmatch p = rmatch (itemsRe Mode.builtin p) (·.isEmpty) := funext (gmatch_eq p)
    simp only [gmatch, itemsRe, itemRe, rmatch, this, starSkip_eq]

theorem itemsRe_append (m : Mode) (k : List Char → Bool) : ∀ (p q : List GItem) (s : List Char),
    rmatch (itemsRe m (p ++ q)) k s = rmatch (itemsRe m p) (rmatch (itemsRe m q) k) s
  | [], q, s => by simp [itemsRe, rmatch]
  | i :: p, q, s => by
    have : rmatch (itemsRe m (p ++ q)) k = rmatch (itemsRe m p) (rmatch (itemsRe m q) k) :=
      funext (itemsRe_append m k p q)
    simp only [List.cons_append, itemsRe, rmatch, this]

/-- Patterns without `**`: the flattened item list and the segment-wise regexp denote the same matcher. -/
theorem flatten_toRe (k : List Char → Bool) : ∀ (segs : List Seg) (st : Bool) (s : List Char),
    okSegs Mode.builtin segs = true →
    rmatch (itemsRe Mode.builtin (flattenSegs segs)) k s = rmatch (toReSegs Mode.builtin st segs) k s
  | [], _, _, _ => by simp [flattenSegs, toReSegs, itemsRe]
  | .dstar :: _, _, _, ok => by simp [okSegs, Mode.builtin] at ok
  | .items p :: rest, st, s, ok => by
    cases rest with
    | nil => simp [flattenSegs, toReSegs]
    | cons r rest' =>
      have ih : rmatch (itemsRe Mode.builtin (flattenSegs (r :: rest'))) k = rmatch (toReSegs Mode.builtin false (r :: rest')) k :=
        funext fun s => flatten_toRe k (r :: rest') false s (okSegs_tail ok)
      simp only [flattenSegs, toReSegs, itemsRe_append, itemsRe, itemRe, rmatch, ih]

theorem okSegs_true_noAdj : ∀ (segs : List Seg), okSegs Mode.builtin segs = true → noAdjacentDstar segs = true
  | [], _ => rfl
  | .dstar :: _, ok => by simp [okSegs, Mode.builtin] at ok
  | .items p :: rest, ok => by
    simp only [noAdjacentDstar]; exact okSegs_true_noAdj rest (okSegs_tail ok)

theorem okSegs_true_noLead : ∀ (segs : List Seg), okSegs Mode.builtin segs = true → leadingDstar segs = false
  | [], _ => rfl
  | .dstar :: _, ok => by simp [okSegs, Mode.builtin] at ok
  | .items p :: rest, _ => by simp [leadingDstar]

/-- **`filepath.Match` on the fragment = the segment-wise specification.** -/
theorem builtin_spec (segs : List Seg) (comps : List Name) (ok : okSegs Mode.builtin segs = true)
    (g : gpath comps = true) (hne : comps ≠ []) (hs : segs ≠ []) :
    gmatch (flattenSegs segs) (joinSlash comps) = segMatch segs comps := by
  rw [gmatch_eq, flatten_toRe _ segs true _ ok]
  exact toReSegs_spec Mode.builtin segs true comps ok (okSegs_true_noAdj segs ok) g hne hs
    (fun _ => Or.inr (okSegs_true_noLead segs ok))

/-! ### the package path in front of the pattern -/

theorem compMatch1_lits : ∀ (c s : Name), compMatch1 (c.map .lit) s = decide (c = s)
  | [], s => by cases s <;> simp [compMatch1]
  | x :: c, [] => by simp [compMatch1]
  | x :: c, y :: s => by
    simp only [List.map_cons, compMatch1, compMatch1_lits c s]
    by_cases h : x = y <;> simp [h]

theorem segMatch_root : ∀ (root : List Name) (segs : List Seg) (rel : List Name),
    segMatch (root.map litSeg ++ segs) (root ++ rel) = segMatch segs rel
  | [], _, _ => rfl
  | c :: root, segs, rel => by
    simp only [List.map_cons, List.cons_append, litSeg, segMatch, compMatch1_lits, decide_true, Bool.true_and]
    exact segMatch_root root segs rel

theorem okSegs_append (m : Mode) : ∀ (a c : List Seg), okSegs m a = true → okSegs m c = true → okSegs m (a ++ c) = true
  | [], _, _, h => h
  | .dstar :: a, c, ha, hc => by
    simp only [okSegs, Bool.and_eq_true, List.cons_append] at ha ⊢; exact ⟨ha.1, okSegs_append m a c ha.2 hc⟩
  | .items p :: a, c, ha, hc => by
    simp only [okSegs, Bool.and_eq_true, List.cons_append] at ha ⊢; exact ⟨ha.1, okSegs_append m a c ha.2 hc⟩

theorem okSegs_root (m : Mode) : ∀ (root : List Name), gpath root = true → safePath m root = true →
    okSegs m (root.map litSeg) = true
  | [], _, _ => rfl
  | c :: root, g, sp => by
    have hc := gname_noslash (gpath_cons g).1
    simp only [safePath, List.all_cons, Bool.and_eq_true, List.all_eq_true] at sp
    simp only [List.map_cons, litSeg, okSegs, Bool.and_eq_true, List.all_map, List.all_eq_true]
    refine ⟨fun x hx => ?_, okSegs_root m root (gpath_cons g).2 (by simpa [safePath, List.all_eq_true] using sp.2)⟩
    simp only [Function.comp, okItem, Bool.and_eq_true, bne_iff_ne, ne_eq]
    exact ⟨by intro e; subst e; exact hc hx, sp.1 x hx⟩

theorem noAdj_root : ∀ (root : List Name) (segs : List Seg), noAdjacentDstar segs = true →
    noAdjacentDstar (root.map litSeg ++ segs) = true
  | [], _, h => h
  | c :: root, segs, h => by
    simp only [List.map_cons, List.cons_append, litSeg, noAdjacentDstar]; exact noAdj_root root segs h

theorem gpath_append {a c : List Name} (ha : gpath a = true) (hc : gpath c = true) : gpath (a ++ c) = true := by
  simp only [gpath, List.all_append, Bool.and_eq_true] at *; exact ⟨ha, hc⟩

/-- **Both matchers, as `patternToMatcher` selects them, against the specification.**  For a package at `root`, a
    parsed pattern of the fragment and an entry `rel` below the package:
    `*`, `[class]` and literals never match '/', `**` stands for whole components (zero or more; one or more at the
    end) -- provided the pattern has no `?` next to `**`, no negated class, and is not a leading `**/x` in the root
    package. -/
theorem structMatch_spec (o : MOpts) (root : List Name) (segs : List Seg) (rel : List Name)
    (ok : okSegs (modeOf o segs) segs = true) (na : noAdjacentDstar segs = true)
    (groot : gpath root = true) (sroot : safePath (modeOf o segs) root = true)
    (grel : gpath rel = true) (hrel : rel ≠ []) (hs : segs ≠ [])
    (hlead : root = [] → o.leadOpt = true ∨ leadingDstar segs = false) :
    structMatch o root segs (joinSlash (root ++ rel)) = segMatch segs rel := by
  have hne : root ++ rel ≠ [] := by simp [hrel]
  have hfs : root.map litSeg ++ segs ≠ [] := by simp [hs]
  have gall := gpath_append groot grel
  unfold structMatch
  cases hd : hasDstar segs with
  | false =>
    simp only [modeOf, hd, Bool.false_eq_true, if_false] at ok sroot
    simp only [Bool.false_eq_true, if_false]
    rw [builtin_spec _ _ (okSegs_append Mode.builtin _ _ (okSegs_root Mode.builtin root groot sroot) ok) gall hne hfs,
      segMatch_root]
  | true =>
    simp only [modeOf, hd, if_true] at ok sroot
    simp only [if_true]
    rw [toReSegs_spec (Mode.regex o) _ true _ (okSegs_append _ _ _ (okSegs_root _ root groot sroot) ok)
      (noAdj_root root segs na) gall hne hfs ?_, segMatch_root]
    intro _
    cases root with
    | nil => simpa [Mode.regex] using hlead rfl
    | cons c r => right; simp [litSeg, leadingDstar]

/-! ### helpers for the filter-level theorems -/

theorem foldr_filter_iff (se : Name → Option Bool) : ∀ (cands l : List Name),
    cands.foldr (fun m acc =>
      match acc, se m with
      | some l, some false => some (m :: l)
      | some l, some true => some l
      | _, _ => none) (some []) = some l →
    ∀ m, m ∈ l ↔ m ∈ cands ∧ se m = some false
  | [], l, h, m => by simp at h; subst h; simp
  | c :: cands, l, h, m => by
    simp only [List.foldr_cons] at h
    generalize hacc : cands.foldr _ (some []) = acc at h
    cases acc with
    | none => simp at h
    | some l' =>
      have ih := foldr_filter_iff se cands l' hacc m
      cases hs : se c with
      | none => simp [hs] at h
      | some b =>
        cases b with
        | false =>
          simp only [hs, Option.some.injEq] at h; subst h
          simp only [List.mem_cons, ih]
          constructor
          · rintro (rfl | h)
            · exact ⟨Or.inl rfl, hs⟩
            · exact ⟨Or.inr h.1, h.2⟩
          · rintro ⟨rfl | h, h2⟩
            · exact Or.inl rfl
            · exact Or.inr ⟨h, h2⟩
        | true =>
          simp only [hs, Option.some.injEq] at h; subst h
          rw [ih]
          constructor
          · rintro ⟨h1, h2⟩; exact ⟨List.mem_cons_of_mem _ h1, h2⟩
          · rintro ⟨h1, h2⟩
            rcases List.mem_cons.mp h1 with rfl | h1
            · rw [hs] at h2; simp at h2
            · exact ⟨h1, h2⟩


theorem joinSlash_inj : ∀ (a b : List Name), gpath a = true → gpath b = true → joinSlash a = joinSlash b → a = b
  | [], [], _, _, _ => rfl
  | [], c :: cs, _, gb, e => by
    exact absurd e.symm (joinSlash_ne_nil (c :: cs) (by simp) gb)
  | c :: cs, [], ga, _, e => by
    exact absurd e (joinSlash_ne_nil (c :: cs) (by simp) ga)
  | c :: cs, d :: ds, ga, gb, e => by
    have hc := gname_noslash (gpath_cons ga).1
    have hd := gname_noslash (gpath_cons gb).1
    rw [joinSlash_cons d ds] at e
    cases ds with
    | nil =>
      simp only [List.isEmpty_nil, if_true] at e
      obtain ⟨e1, e2⟩ := split_first c cs d [] hc hd (Or.inl rfl) (by simpa using e)
      rcases e2 with ⟨e3, _⟩ | ⟨_, e4⟩
      · rw [e1, e3]
      · simp at e4
    | cons d' ds' =>
      simp only [List.isEmpty_cons, Bool.false_eq_true, if_false] at e
      obtain ⟨e1, e2⟩ := split_first c cs d ('/' :: joinSlash (d' :: ds')) hc hd (Or.inr ⟨_, rfl⟩) e
      rcases e2 with ⟨_, e3⟩ | ⟨_, e4⟩
      · simp at e3
      · simp only [List.cons.injEq, true_and] at e4
        rw [← e1, joinSlash_inj cs (d' :: ds') (gpath_cons ga).2 (gpath_cons gb).2 e4.symm]


theorem inDirs_componentwise (d q : List Name) (gd : gpath d = true) (gq : gpath q = true)
    (hd : d ≠ []) (hq : q ≠ []) :
    isInDirectories (joinSlash q) [joinSlash d] = d.isPrefixOf q := by
  simp only [isInDirectories, List.any_cons, List.any_nil, Bool.or_false]
  rw [Bool.eq_iff_iff, Bool.or_eq_true, List.isPrefixOf_iff_prefix, beq_iff_eq, List.isPrefixOf_iff_prefix]
  constructor
  · intro h
    obtain ⟨k, hk, e⟩ := compMatch_of_slash q (joinSlash d) hq (gpath_good gq)
      (by rcases h with h | h
          · exact Or.inr h
          · exact Or.inl h.symm)
    have gt : gpath (q.take (k + 1)) = true := by
      simp only [gpath, List.all_eq_true] at gq ⊢
      exact fun x hx => gq x (List.mem_of_mem_take hx)
    rw [joinSlash_inj d _ gd gt e]
    exact List.take_prefix _ _
  · rintro ⟨t, rfl⟩
    cases t with
    | nil => right; simp
    | cons c t' =>
      left
      rw [joinSlash_append d (c :: t') hd (by simp)]
      exact ⟨joinSlash (c :: t'), by simp⟩

end PlzVerif.Glob
