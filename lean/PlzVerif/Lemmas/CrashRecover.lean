import PlzVerif.Lemmas.CrashForms
/-! C32: what `needsBuilding` concludes from a crash state, the metadata file along the operation list, the state a
    complete build step leaves, and the per-output invariants.  Core only. -/
namespace PlzVerif.CrashBuild
set_option linter.unusedSectionVars false
set_option linter.unusedSimpArgs false

variable {N C S H : Type} [DecidableEq N] [DecidableEq H] [DecidableEq S]

/-! ### readRuleHashFromXattrs -/

theorem readAll_some (b : Params N C S H) (fs : TState N C S) (s : S) : ∀ (l : List N) (h : Option S),
    readAll b fs l h = some (some s) → (∀ n ∈ l, readStamp b fs n = some s) ∧ (l = [] → h = some s) ∧ (h = none ∨ h = some s) := by
  intro l
  induction l with
  | nil => intro h e; simp [readAll] at e; simp [e]
  | cons n ns ih =>
    intro h e
    unfold readAll at e
    cases hr : readStamp b fs n with
    | none => simp [hr] at e
    | some s1 =>
      simp only [hr] at e
      cases h with
      | none =>
        simp only at e
        obtain ⟨h1, _, h3⟩ := ih (some s1) e
        have : s1 = s := by rcases h3 with h3 | h3 <;> simp at h3; exact h3
        subst this
        exact ⟨by intro m hm; rcases List.mem_cons.mp hm with rfl | hm; exact hr; exact h1 m hm, by simp, Or.inl rfl⟩
      | some s' =>
        simp only at e
        split at e
        · rename_i hs
          obtain ⟨h1, _, h3⟩ := ih (some s1) e
          have : s1 = s := by rcases h3 with h3 | h3 <;> simp at h3; exact h3
          subst this
          exact ⟨by intro m hm; rcases List.mem_cons.mp hm with rfl | hm; exact hr; exact h1 m hm, by simp, Or.inr (by rw [hs])⟩
        · simp at e

theorem readAll_of_all (b : Params N C S H) (fs : TState N C S) (s : S) : ∀ (l : List N) (h : Option S),
    (∀ n ∈ l, readStamp b fs n = some s) → (h = none ∨ h = some s) → l ≠ [] → readAll b fs l h = some (some s) := by
  intro l
  induction l with
  | nil => intro h _ _ hne; exact absurd rfl hne
  | cons n ns ih =>
    intro h hall hh _
    unfold readAll
    rw [hall n (List.mem_cons_self ..)]
    have hrest : readAll b fs ns (some s) = some (some s) := by
      cases ns with
      | nil => rfl
      | cons m ms => exact ih (some s) (fun x hx => hall x (List.mem_cons_of_mem _ hx)) (Or.inr rfl) (by simp)
    rcases hh with rfl | rfl
    · exact hrest
    · simpa using hrest

theorem readRuleHash_some (b : Params N C S H) (fs : TState N C S) (s : S) (h : readRuleHash b fs = some s) :
    ∀ n ∈ b.outs, readStamp b fs n = some s := by
  unfold readRuleHash at h
  cases hr : readAll b fs b.outs none with
  | none => simp [hr] at h
  | some r =>
    cases r with
    | none => simp [hr] at h
    | some s' =>
      simp [hr] at h; subst h
      exact (readAll_some b fs s' b.outs none hr).1

theorem readRuleHash_of_all (b : Params N C S H) (fs : TState N C S) (s : S) (hne : b.outs ≠ [])
    (h : ∀ n ∈ b.outs, readStamp b fs n = some s) : readRuleHash b fs = some s := by
  unfold readRuleHash
  rw [readAll_of_all b fs s b.outs none h (Or.inl rfl) hne]

/-- `needsBuilding = false` means: metadata file present, every output present and carrying the current stamp. -/
theorem needsBuilding_false (b : Params N C S H) (fs : TState N C S) (h : needsBuilding b fs = false) :
    (∃ bs, fs.md = some bs) ∧ ∀ n ∈ b.outs, readStamp b fs n = some b.stamp ∧ ∃ nd, (fs.out n).gen = some nd := by
  simp only [needsBuilding, Bool.or_eq_false_iff, Bool.not_eq_false', beq_iff_eq, List.any_eq_false] at h
  obtain ⟨⟨h1, h2⟩, h3⟩ := h
  refine ⟨?_, ?_⟩
  · cases hm : fs.md with
    | none => simp [hm] at h1
    | some bs => exact ⟨bs, rfl⟩
  · intro n hn
    refine ⟨readRuleHash_some b fs b.stamp h2 n hn, ?_⟩
    have := h3 n hn
    cases hg : (fs.out n).gen with
    | none => simp [hg] at this
    | some nd => exact ⟨nd, rfl⟩

theorem needsBuilding_false_of (b : Params N C S H) (fs : TState N C S) (hne : b.outs ≠ []) (hmd : ∃ bs, fs.md = some bs)
    (h : ∀ n ∈ b.outs, readStamp b fs n = some b.stamp ∧ ∃ nd, (fs.out n).gen = some nd) : needsBuilding b fs = false := by
  obtain ⟨bs, hbs⟩ := hmd
  simp only [needsBuilding, Bool.or_eq_false_iff, Bool.not_eq_false', beq_iff_eq, List.any_eq_false]
  refine ⟨⟨by simp [hbs], readRuleHash_of_all b fs b.stamp hne (fun n hn => (h n hn).1)⟩, ?_⟩
  intro n hn
  obtain ⟨nd, hnd⟩ := (h n hn).2
  simp [hnd]

/-! ### the metadata file along the operation list -/

def mdStep : Option (List UInt8) → Op N C S → Option (List UInt8)
  | _, .mdRemove => none
  | _, .mdCreate => some []
  | m, .mdAppend bs => m.map (· ++ bs)
  | m, _ => m

theorem apply1_md (fs : TState N C S) (op : Op N C S) : (apply1 fs op).md = mdStep fs.md op := by
  cases op <;> rfl

theorem applyOps_md (ops : List (Op N C S)) : ∀ (fs : TState N C S), (applyOps fs ops).md = ops.foldl mdStep fs.md := by
  induction ops with
  | nil => intro fs; rfl
  | cons op ops ih =>
    intro fs
    simp only [applyOps, List.foldl_cons] at ih ⊢
    rw [ih (apply1 fs op), apply1_md]

def MdNeutral (op : Op N C S) : Prop := ∀ m, mdStep m op = m

theorem foldl_mdNeutral : ∀ (l : List (Op N C S)) (m : Option (List UInt8)), (∀ op ∈ l, MdNeutral op) → l.foldl mdStep m = m
  | [], _, _ => rfl
  | op :: l, m, h => by
    rw [List.foldl_cons, h op (List.mem_cons_self ..) m]
    exact foldl_mdNeutral l m (fun o ho => h o (List.mem_cons_of_mem _ ho))

theorem splitBy_flatten : ∀ (ks : List Nat) (bs : List UInt8), (splitBy ks bs).flatten = bs
  | [], bs => by simp [splitBy]
  | k :: ks, bs => by simp [splitBy, splitBy_flatten ks (bs.drop k)]

/-- what has been written after a cut of the encoder's writes is a prefix of the gob -/
theorem splitBy_take_flatten : ∀ (ks : List Nat) (bs : List UInt8) (i : Nat), ∃ k, ((splitBy ks bs).take i).flatten = bs.take k
  | _, bs, 0 => ⟨0, by simp⟩
  | [], bs, i + 1 => ⟨bs.length, by simp [splitBy]⟩
  | k :: ks, bs, i + 1 => by
    obtain ⟨k', e⟩ := splitBy_take_flatten ks (bs.drop k) i
    refine ⟨k + k', ?_⟩
    simp only [splitBy, List.take_succ_cons, List.flatten_cons, e]
    rw [List.take_add]

theorem foldl_mdAppend : ∀ (ps : List (List UInt8)) (acc : List UInt8),
    (ps.map (Op.mdAppend (N := N) (C := C) (S := S))).foldl mdStep (some acc) = some (acc ++ ps.flatten)
  | [], acc => by simp
  | p :: ps, acc => by
    simp only [List.map_cons, List.foldl_cons, mdStep, Option.map_some, List.flatten_cons]
    rw [foldl_mdAppend ps (acc ++ p), List.append_assoc]

theorem mdOps_md (b : Params N C S H) (m : Option (List UInt8)) :
    (mdOps (N := N) (C := C) b).foldl mdStep m = some b.mdBytes := by
  simp only [mdOps, List.foldl_append, List.foldl_cons, List.foldl_nil, mdStep]
  rw [foldl_mdAppend, splitBy_flatten]; simp

/-- the shapes of the metadata file after a cut: untouched, absent, or a prefix of the new gob -/
def MdForm (b : Params N C S H) (m0 m : Option (List UInt8)) : Prop :=
  m = m0 ∨ m = none ∨ ∃ k, m = some (b.mdBytes.take k)

theorem mdOps_cut (b : Params N C S H) (m : Option (List UInt8)) (i : Nat) :
    MdForm b m (((mdOps (N := N) (C := C) (S := S) b).take i).foldl mdStep m) := by
  simp only [mdOps, List.append_assoc]
  cases i with
  | zero => left; simp
  | succ i =>
    cases i with
    | zero => right; left; simp [mdStep]
    | succ i =>
      right; right
      simp only [List.cons_append, List.nil_append, List.take_succ_cons, List.foldl_cons, mdStep]
      rcases take_append_cases ((splitBy b.mdSplit b.mdBytes).map (Op.mdAppend (N := N) (C := C) (S := S))) [.mdDone] i with ⟨i', e⟩ | ⟨i', e⟩
      · rw [e, ← List.map_take, foldl_mdAppend]
        obtain ⟨k, hk⟩ := splitBy_take_flatten b.mdSplit b.mdBytes i'
        exact ⟨k, by simp [hk]⟩
      · rw [e, List.foldl_append, foldl_mdAppend, splitBy_flatten]
        refine ⟨b.mdBytes.length, ?_⟩
        cases i' with
        | zero => simp
        | succ i' => simp [mdStep]

theorem out_neutral (n : N) (o : SOp C S) : MdNeutral (Op.out n o) := fun _ => rfl

theorem head_neutral (b : Params N C S H) :
    ∀ op ∈ ([Op.prepTmp] ++ b.outs.map (fun n => Op.out (S := S) n (.run (b.new n)))), MdNeutral op := by
  intro op h
  simp only [List.mem_append, List.mem_cons, List.not_mem_nil, or_false, List.mem_map] at h
  rcases h with rfl | ⟨n, _, rfl⟩
  · intro m; rfl
  · exact out_neutral n _

theorem tail_neutral (b : Params N C S H) (fs : TState N C S) :
    ∀ op ∈ (moveOps b fs ++ (stampOps b ++ (cacheOps b ++ [Op.finish]))), MdNeutral op := by
  intro op h
  simp only [List.mem_append, moveOps, stampOps, cacheOps, List.mem_flatMap, List.mem_map, List.mem_cons,
    List.not_mem_nil, or_false] at h
  rcases h with ⟨n, _, o, _, rfl⟩ | (⟨n, _, o, _, rfl⟩ | h) | h | rfl
  · exact out_neutral n o
  · exact out_neutral n o
  · split at h
    · simp at h; rcases h with rfl | rfl <;> (intro m; rfl)
    · simp at h; subst h; intro m; rfl
  · split at h
    · simp at h; subst h; intro m; rfl
    · simp at h
  · intro m; rfl

theorem plan_split (b : Params N C S H) (fs : TState N C S) :
    plan b fs = ([Op.prepTmp] ++ b.outs.map (fun n => Op.out n (.run (b.new n)))) ++
      (mdOps b ++ (moveOps b fs ++ (stampOps b ++ (cacheOps b ++ [Op.finish])))) := by
  simp [plan, planWith, codedOrder, phaseOps, List.append_assoc]

/-- the metadata file after a complete build step -/
theorem plan_md (b : Params N C S H) (fs : TState N C S) : (applyOps fs (plan b fs)).md = some b.mdBytes := by
  rw [applyOps_md, plan_split, List.foldl_append, List.foldl_append, foldl_mdNeutral _ _ (head_neutral b), mdOps_md,
    foldl_mdNeutral _ _ (tail_neutral b fs)]

/-- the metadata file after a crash at any position -/
theorem crash_md (b : Params N C S H) (fs : TState N C S) (k : Nat) :
    MdForm b fs.md (applyOps fs ((plan b fs).take k)).md := by
  rw [applyOps_md, plan_split]
  rcases take_append_cases ([Op.prepTmp] ++ b.outs.map (fun n => Op.out (S := S) n (.run (b.new n))))
      (mdOps b ++ (moveOps b fs ++ (stampOps b ++ (cacheOps b ++ [Op.finish])))) k with ⟨i, e⟩ | ⟨i, e⟩
  · rw [e, foldl_mdNeutral _ _ (fun op h => head_neutral b op (List.mem_of_mem_take h))]
    left; rfl
  · rw [e, List.foldl_append, foldl_mdNeutral _ _ (head_neutral b)]
    rcases take_append_cases (mdOps (N := N) (C := C) b) (moveOps b fs ++ (stampOps b ++ (cacheOps b ++ [Op.finish]))) i with ⟨i', e'⟩ | ⟨i', e'⟩
    · rw [e']; exact mdOps_cut b fs.md i'
    · rw [e', List.foldl_append, mdOps_md,
        foldl_mdNeutral _ _ (fun op h => tail_neutral b fs op (List.mem_of_mem_take h))]
      right; right; exact ⟨b.mdBytes.length, by simp⟩

/-! ### per-output invariants -/

/-- history invariant of one output: if it is there and carries a stamp, it is what that stamp describes -/
def SliceInv (G : C → S → Prop) (fb : Bool) (sl : Slice C S) : Prop :=
  ∀ nd s, sl.gen = some nd → sliceStamp fb sl = some s → G nd.content s

theorem sliceStamp_congr (fb : Bool) (s1 s2 : Slice C S) (hg : s1.gen = s2.gen) (hf : s1.fb = s2.fb) :
    sliceStamp fb s1 = sliceStamp fb s2 := by
  simp [sliceStamp, hg, hf]

/-- SAME TREE: whatever a crash left, an output that is there and reads back the CURRENT stamp has the content the
    current build produces (all stamp modes, directory outputs included). -/
theorem crash_trusted_is_new (b : Params N C S H) (n : N) (G : C → S → Prop) (hH : Function.Injective b.hash)
    (hG : ∀ c, G c b.stamp → c = b.new n) (sl0 sl : Slice C S) (hinv : SliceInv G (b.useFb n) sl0)
    (hf : CrashForm b n sl0 sl) (nd : Node C S) (hg : sl.gen = some nd)
    (hs : sliceStamp (b.useFb n) sl = some b.stamp) : nd.content = b.new n := by
  cases hf with
  | pre t =>
    have hs' : sliceStamp (b.useFb n) sl0 = some b.stamp := by
      rw [← hs]; exact sliceStamp_congr _ _ _ rfl rfl
    exact hG _ (hinv nd b.stamp hg hs')
  | degraded t nd0 c h0 hne hc =>
    exfalso
    apply hne
    have hs' : sliceStamp (b.useFb n) sl0 = some b.stamp := by
      rw [← hs]
      unfold sliceStamp
      split
      · rfl
      · simp [h0]
    rw [hG _ (hinv nd0 b.stamp h0 hs')]
  | removed t nd0 h0 hne => simp at hg
  | moved t => simp at hg; rw [← hg]; exact moved0_content b hH sl0 n
  | attrSet t hfb => simp at hg; rw [← hg]; exact moved0_content b hH sl0 n
  | fbPartial t k hfb => simp at hg; rw [← hg]; exact moved0_content b hH sl0 n
  | fbDone t hfb => simp at hg; rw [← hg]; exact moved0_content b hH sl0 n

/-- ANY LATER TREE: with the stamp on the inode (xattrs) and a file output (no partial removal), every crash state of
    the output still satisfies the history invariant. -/
theorem crash_sliceInv (b : Params N C S H) (n : N) (G : C → S → Prop) (hH : Function.Injective b.hash)
    (hfb : b.useFb n = false) (hrm : b.rmSteps n = []) (hnew : G (b.new n) b.stamp)
    (sl0 sl : Slice C S) (hinv : SliceInv G false sl0) (hf : CrashForm b n sl0 sl) : SliceInv G false sl := by
  intro nd s hg hs
  cases hf with
  | pre t => exact hinv nd s hg (by rw [← hs]; exact sliceStamp_congr _ _ _ rfl rfl)
  | degraded t nd0 c h0 hne hc => rw [hrm] at hc; simp at hc
  | removed t nd0 h0 hne => simp at hg
  | moved t =>
    simp at hg
    simp only [sliceStamp, Bool.false_eq_true, if_false, Option.bind_some] at hs
    subst hg
    unfold moved0 at hs ⊢
    cases h0 : sl0.gen with
    | none => simp [h0] at hs
    | some nd0 =>
      simp only [h0] at hs ⊢
      split at hs
      · rename_i he
        simp only [he, if_true]
        exact hinv nd0 s h0 (by simp [sliceStamp, h0, hs])
      · simp at hs
  | attrSet t _ =>
    simp at hg
    simp only [sliceStamp, Bool.false_eq_true, if_false, Option.bind_some] at hs
    subst hg
    simp at hs; subst hs
    simp only
    rw [moved0_content b hH sl0 n]; exact hnew
  | fbPartial t k h => rw [hfb] at h; simp at h
  | fbDone t h => rw [hfb] at h; simp at h

/-- the state a complete build step leaves, output by output -/
theorem plan_out (b : Params N C S H) (fs : TState N C S) (hH : Function.Injective b.hash) (hnd : b.outs.Nodup)
    (n : N) (hn : n ∈ b.outs) :
    readStamp b (applyOps fs (plan b fs)) n = some b.stamp ∧
    ∃ nd, ((applyOps fs (plan b fs)).out n).gen = some nd ∧ nd.content = b.new n := by
  obtain ⟨t, e⟩ := srun_local b fs n
  unfold readStamp
  rw [applyOps_out, plan_proj b fs n hnd hn, e]
  by_cases hf : b.useFb n = true
  · simp only [hf, if_true]
    exact ⟨by simp [sliceStamp, Fb.read], _, rfl, moved0_content b hH _ n⟩
  · have hf' : b.useFb n = false := by simpa using hf
    simp only [hf', Bool.false_eq_true, if_false]
    exact ⟨by simp [sliceStamp], _, rfl, moved0_content b hH _ n⟩

/-! ### the metadata file together with the stamps (for targets whose up-to-date path loads the metadata) -/

theorem take_append_cases' {α : Type} (A B : List α) (j : Nat) :
    (∃ i, (A ++ B).take j = A.take i) ∨ (∃ i, (A ++ B).take j = A ++ B.take (i + 1)) := by
  by_cases h : j ≤ A.length
  · left; exact ⟨j, by rw [List.take_append_of_le_length h]⟩
  · right
    refine ⟨j - A.length - 1, ?_⟩
    rw [List.take_append, List.take_of_length_le (by omega)]
    congr 2; omega

theorem mdOps_cut_succ (b : Params N C S H) (m : Option (List UInt8)) (i : Nat) :
    ((mdOps (N := N) (C := C) (S := S) b).take (i + 1)).foldl mdStep m = none ∨
    ∃ k, ((mdOps (N := N) (C := C) (S := S) b).take (i + 1)).foldl mdStep m = some (b.mdBytes.take k) := by
  simp only [mdOps, List.append_assoc]
  cases i with
  | zero => left; simp [mdStep]
  | succ i =>
    right
    simp only [List.cons_append, List.nil_append, List.take_succ_cons, List.foldl_cons, mdStep]
    rcases take_append_cases ((splitBy b.mdSplit b.mdBytes).map (Op.mdAppend (N := N) (C := C) (S := S))) [.mdDone] i with ⟨i', e⟩ | ⟨i', e⟩
    · rw [e, ← List.map_take, foldl_mdAppend]
      obtain ⟨k, hk⟩ := splitBy_take_flatten b.mdSplit b.mdBytes i'
      exact ⟨k, by simp [hk]⟩
    · rw [e, List.foldl_append, foldl_mdAppend, splitBy_flatten]
      refine ⟨b.mdBytes.length, ?_⟩
      cases i' with
      | zero => simp
      | succ i' => simp [mdStep]

def TmpOnly (o : SOp C S) : Prop := o = .prep ∨ ∃ c, o = .run c

theorem srun_tmpOnly : ∀ (l : List (SOp C S)) (sl : Slice C S), (∀ o ∈ l, TmpOnly o) →
    (srun sl l).gen = sl.gen ∧ (srun sl l).fb = sl.fb
  | [], _, _ => ⟨rfl, rfl⟩
  | o :: l, sl, h => by
    rw [srun_cons]
    obtain ⟨h1, h2⟩ := srun_tmpOnly l (sstep sl o) (fun x hx => h x (List.mem_cons_of_mem _ hx))
    rcases h o (List.mem_cons_self ..) with rfl | ⟨c, rfl⟩ <;> (rw [h1, h2]; simp [sstep])

theorem head_proj_tmpOnly (b : Params N C S H) (n : N) (i : Nat) :
    ∀ o ∈ ((([Op.prepTmp] ++ b.outs.map (fun m => Op.out (S := S) m (.run (b.new m)))).take i).filterMap (proj n)), TmpOnly o := by
  intro o ho
  simp only [List.mem_filterMap] at ho
  obtain ⟨op, hop, hp⟩ := ho
  have hop' := List.mem_of_mem_take hop
  simp only [List.mem_append, List.mem_cons, List.not_mem_nil, or_false, List.mem_map] at hop'
  rcases hop' with rfl | ⟨m, _, rfl⟩
  · simp [proj] at hp; left; exact hp.symm
  · simp only [proj] at hp
    split at hp
    · simp at hp; right; exact ⟨_, hp.symm⟩
    · simp at hp

/-- After a crash: either nothing but temporaries was touched yet (metadata file and every stamp read back as
    before the build step), or the metadata file is absent, or it is a prefix of the new gob. -/
theorem crash_md_stamps (b : Params N C S H) (fs : TState N C S) (k : Nat) :
    ((applyOps fs ((plan b fs).take k)).md = fs.md ∧
      ∀ n, readStamp b (applyOps fs ((plan b fs).take k)) n = readStamp b fs n) ∨
    (applyOps fs ((plan b fs).take k)).md = none ∨
    ∃ j, (applyOps fs ((plan b fs).take k)).md = some (b.mdBytes.take j) := by
  rw [plan_split]
  rcases take_append_cases' ([Op.prepTmp] ++ b.outs.map (fun n => Op.out (S := S) n (.run (b.new n))))
      (mdOps b ++ (moveOps b fs ++ (stampOps b ++ (cacheOps b ++ [Op.finish])))) k with ⟨i, e⟩ | ⟨i, e⟩
  · left
    rw [e]
    refine ⟨?_, ?_⟩
    · rw [applyOps_md, foldl_mdNeutral _ _ (fun op h => head_neutral b op (List.mem_of_mem_take h))]
    · intro n
      unfold readStamp
      rw [applyOps_out]
      obtain ⟨h1, h2⟩ := srun_tmpOnly _ (fs.out n) (head_proj_tmpOnly b n i)
      exact sliceStamp_congr _ _ _ h1 h2
  · right
    rw [e, applyOps_md, List.foldl_append, foldl_mdNeutral _ _ (head_neutral b)]
    rcases take_append_cases' (mdOps (N := N) (C := C) b) (moveOps b fs ++ (stampOps b ++ (cacheOps b ++ [Op.finish]))) (i + 1) with ⟨i', e'⟩ | ⟨i', e'⟩
    · rw [e']
      cases i' with
      | zero =>
        -- impossible: a cut of length i+1 ≥ 1 of `mdOps ++ _` is not the empty cut of `mdOps` (mdOps is non-empty)
        exfalso
        have : ((mdOps (N := N) (C := C) (S := S) b ++ (moveOps b fs ++ (stampOps b ++ (cacheOps b ++ [Op.finish])))).take (i + 1)).length = 0 := by
          rw [e']; simp
        simp [mdOps] at this
      | succ i'' => exact mdOps_cut_succ b fs.md i''
    · rw [e', List.foldl_append, mdOps_md,
        foldl_mdNeutral _ _ (fun op h => tail_neutral b fs op (List.mem_of_mem_take h))]
      right; exact ⟨b.mdBytes.length, by simp⟩

/-! ### several targets -/

theorem applyGs_proj {K : Type} [DecidableEq K] (l : List (K × Op N C S)) : ∀ (g : K → TState N C S) (k : K),
    applyGs g l k = applyOps (g k) (l.filterMap fun p => if p.1 = k then some p.2 else none) := by
  induction l with
  | nil => intro g k; rfl
  | cons p l ih =>
    intro g k
    simp only [applyGs, List.foldl_cons] at ih ⊢
    rw [ih (applyG g p) k]
    by_cases h : p.1 = k
    · subst h; simp [applyG, applyOps, List.filterMap_cons]
    · have h' : ¬ k = p.1 := fun e => h e.symm
      simp [applyG, h, h', List.filterMap_cons]

end PlzVerif.CrashBuild
