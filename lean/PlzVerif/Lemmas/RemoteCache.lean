import PlzVerif.Model.RemoteCache
/-!
Lemmas about the entry-stream model of the remote caches.
-/
namespace PlzVerif.RemoteCache

/-- Writer invariant: broken exactly when some entry has a short body. -/
def WInv (w : W) : Prop := (w.broken = true ↔ ∃ t ∈ w.toks, t.full = false)

theorem winv_init : WInv ⟨[], false⟩ := by
  simp [WInv]

theorem winv_healthy {ts : List Tok} (h : ∀ t ∈ ts, t.full = true) : WInv ⟨ts, false⟩ := by
  unfold WInv
  constructor
  · intro hc; cases hc
  · rintro ⟨t, ht, hf⟩
    rw [h t ht] at hf; cases hf

theorem winv_broken {ts : List Tok} (h : ∃ t ∈ ts, t.full = false) : WInv ⟨ts, true⟩ := by
  unfold WInv
  exact ⟨fun _ => h, fun _ => rfl⟩

theorem all_full_of_healthy {ts : List Tok} (h : WInv ⟨ts, false⟩) : ∀ t ∈ ts, t.full = true := by
  intro t ht
  cases hf : t.full with
  | true => rfl
  | false =>
    have := h.mpr ⟨t, ht, hf⟩
    cases this

theorem storeItem_inv (w : W) (s : Src) (h : WInv w) : WInv (storeItem w s).1 := by
  obtain ⟨toks, broken⟩ := w
  cases broken with
  | true => cases s <;> simpa [storeItem] using h
  | false =>
    have hall := all_full_of_healthy h
    have happ : ∀ e : Ent, ∀ t ∈ toks ++ [(⟨e, true⟩ : Tok)], t.full = true := by
      intro e t ht
      rcases List.mem_append.mp ht with h' | h'
      · exact hall t h'
      · simp only [List.mem_cons, List.mem_nil_iff, or_false] at h'; subst h'; rfl
    cases s with
    | ok e =>
      simp only [storeItem, Bool.false_eq_true, if_false]
      exact winv_healthy (happ e)
    | vanished e => simpa [storeItem] using h
    | unreadable e =>
      simp only [storeItem, Bool.false_eq_true, if_false]
      by_cases he : e.data.isEmpty = true
      · simp only [he, if_true]
        exact winv_healthy (happ e)
      · simp only [he, Bool.false_eq_true, if_false]
        exact winv_broken ⟨⟨e, false⟩, by simp, rfl⟩

theorem walkOut_inv : ∀ (o : List Src) (w : W), WInv w → WInv (walkOut w o).1 := by
  intro o
  induction o with
  | nil => intro w h; exact h
  | cons s rest ih =>
    intro w h
    simp only [walkOut]
    have h1 := storeItem_inv w s h
    by_cases he : (storeItem w s).2 = true
    · simp only [he, if_true]; exact h1
    · simp only [he, Bool.false_eq_true, if_false]; exact ih _ h1

theorem httpWrite_inv (c : Bool) : ∀ (outs : List (List Src)) (w : W), WInv w → WInv (httpWrite c w outs).1 := by
  intro outs
  induction outs with
  | nil => intro w h; exact h
  | cons o os ih =>
    intro w h
    simp only [httpWrite]
    have h1 := walkOut_inv o w h
    by_cases he : (walkOut w o).2 = true
    · simp only [he, if_true]
      cases c
      · simp only [Bool.false_eq_true, if_false]; exact h1
      · simp only [if_true]; exact ih _ h1
    · simp only [he, Bool.false_eq_true, if_false]; exact ih _ h1

/-- A stream with a short body reads as a miss; one without reads as a hit restoring exactly its entries. -/
theorem readToks_of_broken (w : W) (h : WInv w) (hb : w.broken = true) : readToks w.toks = .miss := by
  obtain ⟨t, ht, hf⟩ := h.mp hb
  unfold readToks
  have : (w.toks.all (·.full)) = false := by
    rw [List.all_eq_false]
    exact ⟨t, ht, by simp [hf]⟩
  simp [this]

theorem readToks_of_healthy (w : W) (h : WInv w) (hb : w.broken = false) :
    readToks w.toks = .hit (w.toks.map (·.ent)) := by
  unfold readToks
  have : (w.toks.all (·.full)) = true := by
    rw [List.all_eq_true]
    intro t ht
    cases hf : t.full with
    | true => rfl
    | false => exact absurd (h.mpr ⟨t, ht, hf⟩) (by simp [hb])
  simp [this]

/-! ### no fault: everything is written -/

theorem walkOut_clean : ∀ (o : List Src) (w : W), w.broken = false → (∀ s ∈ o, s.faulty = false) →
    walkOut w o = (⟨w.toks ++ o.map (fun s => ⟨s.ent, true⟩), false⟩, false) := by
  intro o
  induction o with
  | nil => intro w hb _; cases w; simp_all [walkOut]
  | cons s rest ih =>
    intro w hb hs
    have h1 := hs s (List.mem_cons_self ..)
    cases s with
    | ok e =>
      simp only [walkOut, storeItem, hb, Bool.false_eq_true, if_false]
      rw [ih _ rfl (fun x hx => hs x (List.mem_cons_of_mem _ hx))]
      simp [Src.ent]
    | vanished e => simp [Src.faulty] at h1
    | unreadable e => simp [Src.faulty] at h1

theorem httpWrite_clean (c : Bool) : ∀ (outs : List (List Src)) (w : W), w.broken = false →
    (∀ o ∈ outs, ∀ s ∈ o, s.faulty = false) →
    httpWrite c w outs = (⟨w.toks ++ (allEnts outs).map (fun e => ⟨e, true⟩), false⟩, false) := by
  intro outs
  induction outs with
  | nil => intro w hb _; cases w; simp_all [httpWrite, allEnts]
  | cons o os ih =>
    intro w hb h
    simp only [httpWrite]
    rw [walkOut_clean o w hb (h o (List.mem_cons_self ..))]
    simp only [Bool.false_eq_true, if_false]
    rw [ih _ rfl (fun o' ho' => h o' (List.mem_cons_of_mem _ ho'))]
    simp [allEnts, List.map_flatMap, List.flatMap_cons, Function.comp_def]

theorem anyFault_false_iff (outs : List (List Src)) :
    anyFault outs = false ↔ ∀ o ∈ outs, ∀ s ∈ o, s.faulty = false := by
  simp [anyFault, List.any_eq_false]

/-! ### a fault is always noticed by the writer -/

theorem walkOut_fault : ∀ (o : List Src) (w : W), (∃ s ∈ o, s.faulty = true) → (walkOut w o).2 = true := by
  intro o
  induction o with
  | nil => intro w ⟨s, hs, _⟩; cases hs
  | cons s rest ih =>
    intro w ⟨x, hx, hf⟩
    simp only [walkOut]
    by_cases he : (storeItem w s).2 = true
    · simp [he]
    · simp only [he, Bool.false_eq_true, if_false]
      rcases List.mem_cons.mp hx with h | h
      · subst h
        exfalso
        cases x with
        | ok e => simp [Src.faulty] at hf
        | vanished e => simp [storeItem] at he
        | unreadable e =>
          simp only [storeItem] at he
          split at he <;> simp at he
          split at he <;> simp at he
      · exact ih _ ⟨x, h, hf⟩

theorem httpWrite_fault (c : Bool) : ∀ (outs : List (List Src)) (w : W), anyFault outs = true →
    (httpWrite c w outs).2 = true := by
  intro outs
  induction outs with
  | nil => intro w h; simp [anyFault] at h
  | cons o os ih =>
    intro w h
    simp only [httpWrite]
    by_cases he : (walkOut w o).2 = true
    · simp only [he, if_true]
      cases c <;> simp
    · simp only [he, Bool.false_eq_true, if_false]
      apply ih
      simp only [anyFault, List.any_cons, Bool.or_eq_true] at h
      rcases h with h | h
      · exfalso
        rw [List.any_eq_true] at h
        exact he (walkOut_fault o w h)
      · exact h

end PlzVerif.RemoteCache
