import PlzVerif.Lemmas.Glob
set_option linter.unusedSimpArgs false
/-! C21: the string-level `filepath.Match` pipeline of the model (`patternToMatcher` without `**`: `parseGlob` on the
    joined pattern) yields exactly the parsed-pattern matcher the theorems are about. -/
namespace PlzVerif.Glob
open PlzVerif.Walk

def renderRanges : List (Char × Char) → List Char
  | [] => []
  | (a, b) :: r => (if a = b then [a] else [a, '-', b]) ++ renderRanges r

def renderItem : GItem → List Char
  | .lit c => [c]
  | .star => ['*']
  | .any => ['?']
  | .cls neg rs => '[' :: ((if neg then ['^'] else []) ++ renderRanges rs ++ [']'])

def renderItems : List GItem → List Char
  | [] => []
  | i :: p => renderItem i ++ renderItems p

def canonRange (r : Char × Char) : Bool := isAlnum r.1 && isAlnum r.2 && decide (r.1.toNat ≤ r.2.toNat)

/-- Items as `parseGlob` produces them. -/
def canonItem : GItem → Bool
  | .lit c => plainChar c
  | .star => true
  | .any => true
  | .cls _ rs => !rs.isEmpty && rs.all canonRange

theorem alnum_ne {c : Char} (h : isAlnum c = true) : c ≠ ']' ∧ c ≠ '-' ∧ c ≠ '^' := by
  refine ⟨?_, ?_, ?_⟩ <;> (intro e; subst e; revert h; decide)

theorem renderRanges_head (rs : List (Char × Char)) (hc : rs.all canonRange = true) (rest : List Char) :
    ∀ d t, renderRanges rs ++ ']' :: rest = d :: t → d ≠ '-' ∧ d ≠ '^' := by
  intro d t h
  cases rs with
  | nil =>
    simp only [renderRanges, List.nil_append, List.cons.injEq] at h
    rw [← h.1]; exact ⟨by decide, by decide⟩
  | cons r rs' =>
    obtain ⟨a, b⟩ := r
    simp only [List.all_cons, Bool.and_eq_true, canonRange] at hc
    have ha := alnum_ne hc.1.1.1
    simp only [renderRanges] at h
    split at h <;> (simp only [List.cons_append, List.nil_append, List.cons.injEq] at h; rw [← h.1]; exact ⟨ha.2.1, ha.2.2⟩)

theorem parseClassBody_render : ∀ (rs : List (Char × Char)) (acc : List (Char × Char)) (rest : List Char) (fuel : Nat),
    rs.all canonRange = true → (acc ++ rs) ≠ [] → rs.length + 1 ≤ fuel →
    parseClassBody fuel (renderRanges rs ++ ']' :: rest) acc = some (acc.reverse ++ rs, rest)
  | [], acc, rest, fuel, _, hne, hf => by
    obtain ⟨f, rfl⟩ : ∃ f, fuel = f + 1 := ⟨fuel - 1, by simp at hf; omega⟩
    have : acc ≠ [] := by simpa using hne
    simp [renderRanges, parseClassBody, this]
  | (a, b) :: rs, acc, rest, fuel, hc, _, hf => by
    obtain ⟨f, rfl⟩ : ∃ f, fuel = f + 1 := ⟨fuel - 1, by simp at hf; omega⟩
    simp only [List.all_cons, Bool.and_eq_true, canonRange, decide_eq_true_eq] at hc
    obtain ⟨⟨⟨ha, hb⟩, hle⟩, hrs⟩ := hc
    have hna := alnum_ne ha
    have ih := parseClassBody_render rs ((a, b) :: acc) rest f hrs (by simp) (by simp at hf ⊢; omega)
    simp only [renderRanges]
    by_cases hab : a = b
    · subst hab
      simp only [if_true, List.cons_append, List.nil_append, parseClassBody, hna.1, if_false, ha, Bool.not_true,
        Bool.false_eq_true]
      -- the next character is not '-'
      cases hs : renderRanges rs ++ ']' :: rest with
      | nil => simp at hs
      | cons d t =>
        have hd := (renderRanges_head rs hrs rest d t hs).1
        rw [hs] at ih
        split
        · rename_i e; injection e with e1 _; exact absurd e1 hd
        · simpa using ih
    · simp only [hab, if_false, List.cons_append, List.nil_append, parseClassBody, hna.1, ha, Bool.not_true,
        Bool.false_eq_true, hb, hle, decide_true, Bool.and_self, if_true]
      simpa using ih

theorem plainChar_ne {c : Char} (h : plainChar c = true) : c ≠ '*' ∧ c ≠ '?' ∧ c ≠ '[' := by
  refine ⟨?_, ?_, ?_⟩ <;> (intro e; subst e; revert h; decide)

theorem renderRanges_length (rs : List (Char × Char)) : rs.length ≤ (renderRanges rs).length := by
  induction rs with
  | nil => simp [renderRanges]
  | cons r rs ih =>
    obtain ⟨a, b⟩ := r
    simp only [renderRanges, List.length_cons, List.length_append]
    split <;> simp <;> omega

theorem parseGlob_render : ∀ (p : List GItem) (fuel : Nat), p.all canonItem = true →
    (renderItems p).length + 1 ≤ fuel → parseGlob fuel (renderItems p) = some p
  | [], fuel, _, hf => by
    obtain ⟨f, rfl⟩ : ∃ f, fuel = f + 1 := ⟨fuel - 1, by simp [renderItems] at hf; omega⟩
    simp [renderItems, parseGlob]
  | i :: p, fuel, hc, hf => by
    obtain ⟨f, rfl⟩ : ∃ f, fuel = f + 1 := ⟨fuel - 1, by omega⟩
    simp only [List.all_cons, Bool.and_eq_true] at hc
    cases i with
    | star =>
      have ih := parseGlob_render p f hc.2 (by simp [renderItems, renderItem] at hf; omega)
      simp [renderItems, renderItem, parseGlob, ih]
    | any =>
      have ih := parseGlob_render p f hc.2 (by simp [renderItems, renderItem] at hf; omega)
      simp [renderItems, renderItem, parseGlob, ih]
    | lit c =>
      have ih := parseGlob_render p f hc.2 (by simp [renderItems, renderItem] at hf; omega)
      have hp : plainChar c = true := hc.1
      have hn := plainChar_ne hp
      simp [renderItems, renderItem, parseGlob, ih, hn.1, hn.2.1, hn.2.2, hp]
    | cls neg rs =>
      have hcr : (!rs.isEmpty && rs.all canonRange) = true := hc.1
      simp only [Bool.and_eq_true, Bool.not_eq_true', List.isEmpty_eq_false_iff] at hcr
      obtain ⟨hne, hall⟩ := hcr
      have hlen : (renderItems (.cls neg rs :: p)).length =
          1 + (if neg then 1 else 0) + (renderRanges rs).length + 1 + (renderItems p).length := by
        simp only [renderItems, renderItem, List.length_cons, List.length_append]
        cases neg <;> simp <;> omega
      have ih := parseGlob_render p f hc.2 (by rw [hlen] at hf; omega)
      have hrl := renderRanges_length rs
      have body : ∀ rest, parseClassBody ((renderRanges rs ++ ']' :: rest).length + 1) (renderRanges rs ++ ']' :: rest) []
          = some (rs, rest) := by
        intro rest
        have := parseClassBody_render rs [] rest ((renderRanges rs ++ ']' :: rest).length + 1) hall (by simpa using hne)
          (by simp; omega)
        simpa using this
      have hfalse : ∀ rest, classNeg (renderRanges rs ++ ']' :: rest) = (false, renderRanges rs ++ ']' :: rest) := by
        intro rest
        cases hs : renderRanges rs ++ ']' :: rest with
        | nil => simp at hs
        | cons d t =>
          have hd := (renderRanges_head rs hall rest d t hs).2
          unfold classNeg
          split
          · rename_i e; injection e with e1 _; exact absurd e1 hd
          · rfl
      cases neg with
      | true =>
        simp only [renderItems, renderItem, if_true, List.cons_append, List.nil_append, List.append_assoc, parseGlob,
          (by decide : ('[' : Char) ≠ '*'), (by decide : ('[' : Char) ≠ '?'), if_false, classNeg, body]
        simp [ih]
        try omega
      | false =>
        simp only [renderItems, renderItem, Bool.false_eq_true, if_false, List.cons_append, List.nil_append,
          List.append_assoc, parseGlob, (by decide : ('[' : Char) ≠ '*'), (by decide : ('[' : Char) ≠ '?'), if_true,
          hfalse, body]
        simp [ih]
        try omega


/-! ### from the pattern *string* to the parsed-pattern matcher (the `filepath.Match` half) -/

theorem renderItems_append : ∀ (a b : List GItem), renderItems (a ++ b) = renderItems a ++ renderItems b
  | [], _ => rfl
  | i :: a, b => by simp [renderItems, renderItems_append a b]

theorem renderItems_lits : ∀ (c : Name), renderItems (c.map .lit) = c
  | [] => rfl
  | x :: c => by simp [renderItems, renderItem, renderItems_lits c]

/-- The text of a parsed pattern: its segments' items, '/' between segments (`**` as two stars). -/
def renderSegs (segs : List Seg) : List Char := renderItems (flattenSegs segs)

theorem flattenSegs_cons_items (p : List GItem) (rest : List Seg) (h : rest ≠ []) :
    flattenSegs (.items p :: rest) = p ++ .lit '/' :: flattenSegs rest := by
  cases rest with
  | nil => exact absurd rfl h
  | cons r rs => simp [flattenSegs]

theorem render_root : ∀ (root : List Name) (segs : List Seg), root ≠ [] → segs ≠ [] →
    renderSegs (root.map litSeg ++ segs) = joinSlash root ++ '/' :: renderSegs segs
  | [], _, h, _ => absurd rfl h
  | [c], segs, _, hs => by
    simp only [renderSegs, List.map_cons, List.map_nil, List.cons_append, List.nil_append, litSeg]
    rw [flattenSegs_cons_items _ _ hs, renderItems_append, renderItems_lits]
    simp [renderItems, renderItem, joinSlash]
  | c :: d :: r, segs, _, hs => by
    have ih := render_root (d :: r) segs (by simp) hs
    simp only [renderSegs, List.map_cons, List.cons_append, litSeg] at ih ⊢
    rw [flattenSegs_cons_items _ _ (by simp), renderItems_append, renderItems_lits]
    simp only [renderItems, renderItem, List.cons_append, List.nil_append, ih, joinSlash, List.append_assoc]

/-- **The string-level `filepath.Match` pipeline = the parsed-pattern matcher.**  For a package at `root` and a parsed
    pattern without `**` whose items are canonical (what `parseGlob` produces) and whose text is a clean pattern,
    `patternToMatcher` applied to the *text* compiles exactly to `filepath.Match` on the flattened items of
    `root/pattern` -- the matcher `structMatch` denotes and `C21_match_exact` is about. -/
theorem builtin_bridge (F : Facts) (hds : F.doubleStar = ['*', '*']) (root : List Name) (segs : List Seg)
    (gr : gpath root = true) (hs : segs ≠ [])
    (hc : (flattenSegs (root.map litSeg ++ segs)).all canonItem = true)
    (hclean : cleanPat (renderSegs segs) = true)
    (hns : containsSub ['*', '*'] (renderSegs segs) = false) :
    patternToMatcher F (nameOf root) (renderSegs segs) = some (.builtin (flattenSegs (root.map litSeg ++ segs))) := by
  have hfull : (if (nameOf root).isEmpty || nameOf root == ['.'] then renderSegs segs else nameOf root ++ '/' :: renderSegs segs)
      = renderSegs (root.map litSeg ++ segs) := by
    cases root with
    | nil => simp [nameOf]
    | cons a r =>
      have hne : joinSlash (a :: r) ≠ ['.'] := joinSlash_ne_dot (a :: r) (by simp) (gpath_good gr)
      have hne2 : joinSlash (a :: r) ≠ [] := joinSlash_ne_nil (a :: r) (by simp) gr
      have h1 : (joinSlash (a :: r)).isEmpty = false := by simpa using hne2
      have h2 : (joinSlash (a :: r) == ['.']) = false := by simpa using hne
      simp only [nameOf, List.isEmpty_cons, Bool.false_eq_true, if_false, h1, h2, Bool.or_self]
      exact (render_root (a :: r) segs (by simp) hs).symm
  unfold patternToMatcher
  simp only [hclean, Bool.not_true, Bool.false_eq_true, if_false, hds, hns, Bool.not_false, if_true, hfull]
  rw [renderSegs, parseGlob_render _ _ hc (Nat.le_refl _)]
  rfl

/-- ... and therefore the compiled matcher accepts exactly what `structMatch` accepts. -/
theorem builtin_bridge_run (F : Facts) (hds : F.doubleStar = ['*', '*']) (o : MOpts) (root : List Name) (segs : List Seg)
    (gr : gpath root = true) (hs : segs ≠ []) (hnd : hasDstar segs = false)
    (hc : (flattenSegs (root.map litSeg ++ segs)).all canonItem = true)
    (hclean : cleanPat (renderSegs segs) = true) (hns : containsSub ['*', '*'] (renderSegs segs) = false) (n : Name) :
    (patternToMatcher F (nameOf root) (renderSegs segs)).map (·.run n) = some (structMatch o root segs n) := by
  rw [builtin_bridge F hds root segs gr hs hc hclean hns]
  simp [Matcher.run, structMatch, hnd]

/-- The same for the file-name-only reading of an exclude (`patternToMatcher("", excl)`). -/
theorem builtin_bridge_rel (F : Facts) (hds : F.doubleStar = ['*', '*']) (o : MOpts) (segs : List Seg) (hnd : hasDstar segs = false)
    (hc : (flattenSegs segs).all canonItem = true)
    (hclean : cleanPat (renderSegs segs) = true) (hns : containsSub ['*', '*'] (renderSegs segs) = false) (n : Name) :
    (patternToMatcher F [] (renderSegs segs)).map (·.run n) = some (structMatch o [] segs n) := by
  unfold patternToMatcher
  simp only [hclean, Bool.not_true, Bool.false_eq_true, if_false, hds, hns, Bool.not_false, if_true, List.isEmpty_nil,
    Bool.true_or]
  rw [renderSegs, parseGlob_render _ _ hc (Nat.le_refl _)]
  simp [Matcher.run, structMatch, hnd]

end PlzVerif.Glob
