import PlzVerif.Lemmas.SchedProgress
/-! C05: what the final state of a keep-going run looks like (completeness half): every requested target ends
Built unless it failed or transitively depends on a failed target, in which case it ends Failed / DependencyFailed. -/
namespace PlzVerif.Sched

variable (c : Cfg)

/-- a target in a terminal state (Built…, DependencyFailed, Failed) never changes state again -/
theorem step_terminal_stable {s s' : St} (hi : Inv c s) {a : Action} (ha : fire c s a = some s') (x : T)
    (hx : (s.st x).terminal = true) : s'.st x = s.st x := by
  have := hi.takenPending; have := hi.wBuilding; have := hi.bqActive; have := hi.waitBuilding
  cases a <;> simp only [fire, queuerStep, qrt, spawn, taskDone] at ha <;>
    (repeat' split at ha) <;> (try cases ha) <;>
    (try simp only [upd, Queuer.live] at *) <;> (try grind [TS.rank, TS.isBuilt, TS.terminal])

/-- the `why` ghost changes only when its target becomes DependencyFailed, and then names a failed dependency -/
theorem step_why {s s' : St} (hi : Inv c s) (h3 : Inv3 c s) {a : Action} (ha : fire c s a = some s') (x : T) :
    (s'.why x = s.why x ∧ (s'.st x = .depFailed → s.st x = .depFailed)) ∨
    (s'.why x ∈ c.deps x ∧ (s.st (s'.why x)).isBad = true) := by
  have := hi.takenPending; have := hi.wBuilding; have := hi.bqActive; have := hi.waitBuilding
  have hsub := h3.waitSub
  cases a <;> simp only [fire, queuerStep, qrt, spawn, taskDone] at ha <;>
    (repeat' split at ha) <;> (try cases ha) <;>
    (try simp only [upd, Queuer.live] at *) <;> (try grind [TS.rank, TS.isBuilt, TS.terminal])
  -- the DependencyFailed branch of the wait loop
  rename_i i _ q hq _ d r hph _ hbad
  by_cases hx : x = q.t
  · right; simp only [hx, if_true]
    exact ⟨hsub i q (d :: r) hq hph d List.mem_cons_self, hbad⟩
  · left; simp [hx]

/-- a DependencyFailed target has a failed (or dependency-failed) dependency -/
def WhyInv (s : St) : Prop := ∀ t, s.st t = .depFailed → s.why t ∈ c.deps t ∧ (s.st (s.why t)).isBad = true

theorem isBad_terminal {x : TS} (h : x.isBad = true) : x.terminal = true := by
  cases x <;> simp_all [TS.isBad, TS.terminal, TS.isBuilt, TS.rank]

theorem step_whyInv {s s' : St} (hi : Inv c s) (h3 : Inv3 c s) (hw : WhyInv c s) (h : Step c s s') : WhyInv c s' := by
  obtain ⟨a, ha⟩ := h
  intro t ht
  rcases step_why c hi h3 ha t with ⟨hwhy, hold⟩ | ⟨hm, hb⟩
  · obtain ⟨h1, h2⟩ := hw t (hold ht)
    rw [hwhy]
    exact ⟨h1, by rw [step_terminal_stable c hi ha _ (isBad_terminal h2)]; exact h2⟩
  · exact ⟨hm, by rw [step_terminal_stable c hi ha _ (isBad_terminal hb)]; exact hb⟩

theorem reach_whyInv {s : St} (h : Reach c s) : WhyInv c s := by
  induction h with
  | init => intro t ht; simp [St.init] at ht
  | step hr hs ih => exact step_whyInv c (reach_inv c hr) (reach_inv3 c hr) ih hs

/-- with `NeedBuild` nothing is ever only Semiactive -/
theorem step_nosemi (hn : c.needBuild = true) {s s' : St} (h0 : ∀ t, s.st t ≠ .semiactive) (h : Step c s s') :
    ∀ t, s'.st t ≠ .semiactive := by
  obtain ⟨a, ha⟩ := h
  cases a <;> simp only [fire, queuerStep, qrt, spawn, taskDone, hn, Bool.true_or] at ha <;>
    (repeat' split at ha) <;> (try cases ha) <;>
    (try simp only [upd] at *) <;> (try grind [TS.isBuilt, TS.rank])

theorem reach_nosemi (hn : c.needBuild = true) {s : St} (h : Reach c s) : ∀ t, s.st t ≠ .semiactive := by
  induction h with
  | init => intro t; simp [St.init]
  | step _ hs ih => exact step_nosemi c hn ih hs

/-! ### keep-going runs -/

/-- What a keep-going run of the build phase may do: requests (`activate`) arrive only during the initial target
    scan; nobody closes the queues from outside the task counting (`stop`: the display loop after a failure without
    --keep_going, the cycle check); every dependency can be queued (no `asyncError`).  Everything the program does
    itself is allowed, in any order. -/
def Allowed (s : St) : Action → Prop
  | .activate _ _ => s.initDone = false
  | .subWait _ => s.initDone = false
  | .stop => False
  | .cycleCheck => False
  | .queuerAbort _ => False
  | _ => True

/-- the targets requested so far -/
def reqAfter (req : List T) : Action → List T
  | .activate t _ => t :: req
  | _ => req

/-- `RunKG req s`: `s` is reached by a keep-going run in which exactly the targets `req` were requested -/
inductive RunKG : List T → St → Prop
  | init : RunKG [] St.init
  | step {req : List T} {s s' : St} {a : Action} : RunKG req s → Allowed s a → fire c s a = some s' →
      RunKG (reqAfter req a) s'

theorem runKG_reach {req : List T} {s : St} (h : RunKG c req s) : Reach c s := by
  induction h with
  | init => exact Reach.init
  | step _ _ hf ih => exact Reach.step ih ⟨_, hf⟩

theorem sumTo_zero {f : Nat → Nat} {n : Nat} (h : sumTo f n = 0) : ∀ i, i < n → f i = 0 := by
  induction n with
  | zero => intro i hi; exact absurd hi (Nat.not_lt_zero _)
  | succ k ih =>
    simp only [sumTo] at h
    intro i hi
    by_cases e : i = k
    · subst e; omega
    · exact ih (by omega) i (by omega)

theorem ind_zero {α : Type} {x : Option α} (h : ind x = 0) : x = none := by
  cases x with
  | none => rfl
  | some v => simp [ind] at h

/-- no task is outstanding: the scan is done, no queuer, no queued build, no worker -/
def Quiet (s : St) : Prop := s.initDone = true ∧ (∀ i, s.qs i = none) ∧ (∀ m, s.chan m = none) ∧ (∀ w, s.ws w = none)

theorem quiet_of_units {s : St} (hi : Inv c s) (h : units s = 0) : Quiet s := by
  unfold units at h
  have h1 : b01 s.initDone = 0 := by omega
  have h2 : sumTo (fun i => ind (s.qs i)) s.nextQ = 0 := by omega
  have h3 : sumTo (fun i => ind (s.chan i)) s.nextM = 0 := by omega
  have h4 : sumTo (fun i => ind (s.ws i)) s.nextW = 0 := by omega
  refine ⟨by cases hd : s.initDone <;> simp [b01, hd] at h1 ⊢, ?_, ?_, ?_⟩
  · intro i
    cases hq : s.qs i with
    | none => rfl
    | some q => have := sumTo_zero h2 i (hi.qFresh i q hq); simp [hq, ind] at this
  · intro m
    cases hq : s.chan m with
    | none => rfl
    | some t => have := sumTo_zero h3 m (hi.mFresh m t hq); simp [hq, ind] at this
  · intro w
    cases hq : s.ws w with
    | none => rfl
    | some x => have := sumTo_zero h4 w (hi.wFresh w x hq); simp [hq, ind] at this

/-- in a quiet state a keep-going run cannot continue -/
theorem quiet_no_step {s s' : St} (hq : Quiet s) {a : Action} (hal : Allowed s a) (hf : fire c s a = some s') : False := by
  obtain ⟨h0, h1, h2, h3⟩ := hq
  cases a <;> simp [fire, Allowed, h0, h1, h2, h3] at hal hf

/-- frame facts of one allowed step from a state whose queues are still open -/
theorem step_kg_frame {s s' : St} {a : Action} (hal : Allowed s a) (hf : fire c s a = some s') (hs : s.stopped = false) :
    s'.ext = s.ext ∧ (s'.stopped = true → s'.numPending ≤ 0) ∧
    (s'.failed = true → s.failed = true ∨ ∃ t, s'.st t = .failed) := by
  cases a <;> simp only [fire, queuerStep, qrt, spawn, taskDone, Allowed] at hal hf <;>
    (repeat' split at hf) <;> (try cases hf) <;> (try exact absurd hal id) <;>
    (try simp only [upd] at *) <;> (try (refine ⟨?_, ?_, ?_⟩ <;> simp_all <;> (try omega)))
  -- workerFail: the worker's own target is the witness
  all_goals first
    | (rename_i w _ t _; exact .inr ⟨t, fun h => absurd rfl h⟩)
    | (rename_i w _ t _ _; exact .inr ⟨t, fun h => absurd rfl h⟩)
    | skip

theorem step_rank_mono {s s' : St} (hi : Inv c s) {a : Action} (ha : fire c s a = some s') (t : T) :
    (s.st t).rank ≤ (s'.st t).rank := by
  have := hi.takenPending; have := hi.wBuilding; have := hi.bqActive; have := hi.waitBuilding
  cases a <;> simp only [fire, queuerStep, qrt, spawn, taskDone] at ha <;>
    (repeat' split at ha) <;> (try cases ha) <;>
    (try simp only [upd, Queuer.live] at *) <;> (try grind [TS.rank, TS.isBuilt])

/-- what holds along every keep-going run -/
structure KG (req : List T) (s : St) : Prop where
  noExt : s.ext = false
  stoppedDone : s.stopped = true → s.numPending ≤ 0
  failedWitness : s.failed = true → ∃ t, s.st t = .failed
  requested : c.needBuild = true → ∀ t ∈ req, TS.active.rank ≤ (s.st t).rank

theorem runKG_inv {req : List T} {s : St} (h : RunKG c req s) : KG c req s := by
  induction h with
  | init => exact ⟨rfl, (by intro h; cases h), (by intro h; cases h), (by intro _ t ht; cases ht)⟩
  | @step req s s' a hrun hal hf ih =>
    have hr := runKG_reach c hrun
    have hi := reach_inv c hr
    cases hst : s.stopped with
    | true =>
      -- the queues were closed by the task counter reaching zero: nothing is left that could step
      have h0 := ih.stoppedDone hst
      have hacc := reach_acct c hr ih.noExt
      have hu : units s = 0 := by omega
      exact absurd hf (fun hf => quiet_no_step c (quiet_of_units c hi hu) hal hf)
    | false =>
      obtain ⟨hext, hdone, hfail⟩ := step_kg_frame c hal hf hst
      refine ⟨by rw [hext]; exact ih.noExt, hdone, ?_, ?_⟩
      · intro hf'
        rcases hfail hf' with h | h
        · obtain ⟨t, ht⟩ := ih.failedWitness h
          exact ⟨t, by rw [step_terminal_stable c hi hf t (by rw [ht]; decide)]; exact ht⟩
        · exact h
      · intro hn t ht
        have hmono := step_rank_mono c hi hf
        cases a with
        | activate t0 f =>
          rcases List.mem_cons.mp ht with e | e
          · subst e
            simp only [fire] at hf
            split at hf
            · cases hf; exact qrt_active c s t f (by simp [hn])
            · cases hf
          · exact Nat.le_trans (ih.requested hn t e) (hmono t)
        | _ => exact Nat.le_trans (ih.requested hn t ht) (hmono t)

/-- a target that failed, or that (transitively) depends on one that failed -/
inductive Tainted (s : St) : T → Prop
  | self {t : T} : s.st t = .failed → Tainted s t
  | dep {t d : T} : d ∈ c.deps t → Tainted s d → Tainted s t

/-- **The final state of a keep-going run.**  `hmax`: no goroutine of the program can step any more. -/
theorem final_state {req : List T} {s : St} (hn : c.needBuild = true) (hacy : Acyclic c)
    (hfw : c.failWakes = true) (hlo : c.lateOK = true) (hrun : RunKG c req s)
    (hmax : ¬ CanStep c s) :
    Final s ∧ Quiet s ∧
    (∀ t, s.st t ≠ .inactive → (s.st t).terminal = true) ∧
    (∀ t, s.st t ≠ .inactive → ((s.st t).isBad = true ↔ Tainted c s t)) ∧
    (∀ t, s.st t ≠ .inactive → ¬ Tainted c s t → (s.st t).isBuilt = true) ∧
    (s.failed = true ↔ ∃ t, s.st t = .failed) := by
  have hr := runKG_reach c hrun
  have hi := reach_inv c hr
  have h3 := reach_inv3 c hr
  have kg := runKG_inv c hrun
  have hfin : Final s := by
    rcases no_deadlock c hr hacy hfw hlo with h | h
    · exact h
    · exact absurd h hmax
  have hq : Quiet s := by
    have h0 := kg.stoppedDone hfin.1
    have hacc := reach_acct c hr kg.noExt
    exact quiet_of_units c hi (by omega)
  obtain ⟨_, hq1, hq2, hq3⟩ := hq
  have hterm : ∀ t, s.st t ≠ .inactive → (s.st t).terminal = true := by
    intro t ht
    have hsemi := reach_nosemi c hn hr t
    have hstop := hi.notStopped t
    cases hst : s.st t with
    | inactive => exact absurd hst ht
    | semiactive => exact absurd hst hsemi
    | stopped => exact absurd hst hstop
    | active =>
      have := h3.activeHasQueuer kg.noExt t hst
      rw [hq1] at this; exact absurd this (by simp)
    | pending =>
      rcases h3.pendingHasToken kg.noExt t hst with h | h
      · rw [hq2] at h; cases h
      · rw [hq3] at h; cases h
    | building =>
      have := h3.buildingHasWorker t hst
      rw [hq3] at this; cases this
    | _ => rfl
  have hw := reach_whyInv c hr
  obtain ⟨hgt, hlt⟩ := hacy
  -- a failed or dependency-failed target is tainted (induction along the dependency order)
  have hbt : ∀ k t, hgt t ≤ k → (s.st t).isBad = true → Tainted c s t := by
    intro k
    induction k with
    | zero =>
      intro t hk hb
      cases hst : s.st t <;> simp [hst, TS.isBad, TS.rank] at hb
      · obtain ⟨hm, _⟩ := hw t hst
        have := hlt t _ hm; omega
      · exact .self hst
    | succ k ih =>
      intro t hk hb
      cases hst : s.st t <;> simp [hst, TS.isBad, TS.rank] at hb
      · obtain ⟨hm, hb'⟩ := hw t hst
        have := hlt t _ hm
        exact .dep hm (ih _ (by omega) hb')
      · exact .self hst
  -- a tainted target that was requested or needed is failed or dependency-failed
  have htb : ∀ t, Tainted c s t → s.st t ≠ .inactive → (s.st t).isBad = true := by
    intro t ht
    induction ht with
    | self h => intro _; rw [h]; decide
    | @dep t d hd _ ih =>
      intro hne
      have ht := hterm t hne
      cases hb : (s.st t).isBad with
      | true => rfl
      | false =>
        exfalso
        have hbuilt : (s.st t).isBuilt = true := by
          revert ht hb; cases s.st t <;> simp [TS.terminal, TS.isBad, TS.isBuilt, TS.rank]
        have hd' := (hi.depsDone t (by revert hbuilt; cases s.st t <;> simp [TS.isBuilt, TS.rank])
          (by intro e; rw [e] at hbuilt; simp [TS.isBuilt, TS.rank] at hbuilt) d hd).2
        have hdne : s.st d ≠ .inactive := by intro e; rw [e] at hd'; simp [TS.isBuilt, TS.rank] at hd'
        have := ih hdne
        revert hd' this; cases s.st d <;> simp [TS.isBuilt, TS.isBad, TS.rank]
  refine ⟨hfin, ⟨‹_›, hq1, hq2, hq3⟩, hterm, ?_, ?_, ?_⟩
  · intro t hne; exact ⟨fun hb => hbt (hgt t) t (Nat.le_refl _) hb, fun ht => htb t ht hne⟩
  · intro t hne hnt
    have ht := hterm t hne
    have hnb : (s.st t).isBad = false := by
      cases hb : (s.st t).isBad with
      | false => rfl
      | true => exact absurd (hbt (hgt t) t (Nat.le_refl _) hb) hnt
    revert ht hnb; cases s.st t <;> simp [TS.terminal, TS.isBad, TS.isBuilt, TS.rank]
  · exact ⟨kg.failedWitness, fun ⟨t, ht⟩ => hi.failedFlag t ht⟩

theorem quiet_not_canStep {s : St} (hq : Quiet s) : ¬ CanStep c s := by
  obtain ⟨h0, h1, h2, h3⟩ := hq
  intro ⟨a, s', hi, hf⟩
  cases a <;> simp [fire, Internal, h0, h1, h2, h3] at hi hf

theorem tainted_has_failed {s : St} {t : T} (h : Tainted c s t) : ∃ d, s.st d = .failed := by
  induction h with
  | self h => exact ⟨_, h⟩
  | dep _ _ ih => exact ih

/-! ### running a schedule as a keep-going run (for witnesses) -/

def allowedB (s : St) : Action → Bool
  | .activate _ _ => !s.initDone
  | .subWait _ => !s.initDone
  | .stop => false
  | .cycleCheck => false
  | .queuerAbort _ => false
  | _ => true

theorem allowed_of_allowedB {s : St} {a : Action} (h : allowedB s a = true) : Allowed s a := by
  cases a <;> simp_all [allowedB, Allowed]

def runKGActs : List T → St → List Action → Option (List T × St)
  | req, s, [] => some (req, s)
  | req, s, a :: r =>
    if allowedB s a then
      match fire c s a with
      | some s' => runKGActs (reqAfter req a) s' r
      | none => none
    else none

theorem runKGActs_run {req : List T} {s : St} (as : List Action) (h : RunKG c req s) {req' : List T} {s' : St}
    (hr : runKGActs c req s as = some (req', s')) : RunKG c req' s' := by
  induction as generalizing req s with
  | nil => simp [runKGActs] at hr; obtain ⟨rfl, rfl⟩ := hr; exact h
  | cons a r ih =>
    simp only [runKGActs] at hr
    split at hr
    · rename_i hal
      split at hr
      · rename_i s1 hf
        exact ih (RunKG.step h (allowed_of_allowedB hal) hf) hr
      · cases hr
    · cases hr

end PlzVerif.Sched
