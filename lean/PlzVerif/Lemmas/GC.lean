import PlzVerif.Model.GC
import PlzVerif.Lemmas.Cycle
/-!
Lemmas for C25: the keep set of `targetsToRemove` contains every root and is closed under dependencies;
nothing in it is proposed for removal, and no source file of a
kept target is proposed for deletion.  Core Lean only.
-/
namespace PlzVerif.GC

/-- `a` depends on `b`: declared (`DeclaredDependencies`) or resolved (`Dependencies`) -/
def Dep (G : Graph) (a b : Nat) : Prop := b ∈ G.decl a ∨ b ∈ G.res a

/-- reflexive-transitive dependency -/
inductive Reach (G : Graph) : Nat → Nat → Prop
  | refl (a : Nat) : Reach G a a
  | step {a b c : Nat} : Dep G a b → Reach G b c → Reach G a c

/-- what `addTarget` follows from `a`: a dependency, or (for a hidden sub-target) the rule that generates it -/
def Link (G : Graph) (a b : Nat) : Prop := Dep G a b ∨ (G.hasParent a = true ∧ b = G.pl a ∧ b ∈ G.nodes)

/-! ### equations -/

def addDepsF (G : Graph) (fuel : Nat) (ds : List Nat) (s : KSt) : KSt := addDeps (addTarget G fuel) ds s

theorem addTarget_zero (G : Graph) (s : KSt) (t : Nat) : addTarget G 0 s t = { s with oof := true } := rfl

theorem addTarget_succ (G : Graph) (fuel : Nat) (s : KSt) (t : Nat) :
    addTarget G (fuel+1) s t =
      if t ∈ s.keep then s
      else
        let s3 := addDepsF G fuel (G.res t) (addDepsF G fuel (G.decl t) { s with keep := t :: s.keep })
        if G.hasParent t && G.nodes.contains (G.pl t) then addTarget G fuel s3 (G.pl t) else s3 := rfl

theorem addDepsF_nil (G : Graph) (fuel : Nat) (s : KSt) : addDepsF G fuel [] s = s := rfl

theorem addDepsF_cons (G : Graph) (fuel d : Nat) (ds : List Nat) (s : KSt) :
    addDepsF G fuel (d :: ds) s = addDepsF G fuel ds (addTarget G fuel s d) := rfl

/-! ### running out of fuel is sticky -/

theorem addDepsF_oof (G : Graph) (fuel : Nat) (ih : ∀ s t, s.oof = true → (addTarget G fuel s t).oof = true) :
    ∀ (ds : List Nat) (s : KSt), s.oof = true → (addDepsF G fuel ds s).oof = true := by
  intro ds
  induction ds with
  | nil => intro s h; exact h
  | cons d ds ihl => intro s h; rw [addDepsF_cons]; exact ihl _ (ih s d h)

theorem addTarget_oof (G : Graph) : ∀ (fuel : Nat) (s : KSt) (t : Nat), s.oof = true → (addTarget G fuel s t).oof = true := by
  intro fuel
  induction fuel with
  | zero => intro s t _; rw [addTarget_zero]
  | succ fuel ih =>
    intro s t h
    rw [addTarget_succ]
    split
    · exact h
    · have h3 := addDepsF_oof G fuel ih (G.res t) _ (addDepsF_oof G fuel ih (G.decl t) { s with keep := t :: s.keep } h)
      simp only
      split
      · exact ih _ _ h3
      · exact h3

/-! ### closure -/

/-- progress: nothing is forgotten, and every newly kept target has all its dependencies kept -/
def ANew (G : Graph) (s s' : KSt) : Prop :=
  (∀ x ∈ s.keep, x ∈ s'.keep) ∧ ∀ x ∈ s'.keep, x ∉ s.keep → ∀ y, Link G x y → y ∈ s'.keep

theorem ANew.refl (G : Graph) (s : KSt) : ANew G s s := ⟨fun _ h => h, fun x hx hn => absurd hx hn⟩

theorem ANew.trans {G : Graph} {a b c : KSt} (h1 : ANew G a b) (h2 : ANew G b c) : ANew G a c := by
  refine ⟨fun x hx => h2.1 x (h1.1 x hx), ?_⟩
  intro x hx hna y hy
  by_cases hb : x ∈ b.keep
  · exact h2.1 y (h1.2 x hb hna y hy)
  · exact h2.2 x hx hb y hy

theorem addDepsF_closure (G : Graph) (fuel : Nat)
    (ih : ∀ s t, (addTarget G fuel s t).oof = false → ANew G s (addTarget G fuel s t) ∧ t ∈ (addTarget G fuel s t).keep) :
    ∀ (ds : List Nat) (s : KSt), (addDepsF G fuel ds s).oof = false →
      ANew G s (addDepsF G fuel ds s) ∧ ∀ d ∈ ds, d ∈ (addDepsF G fuel ds s).keep := by
  intro ds
  induction ds with
  | nil => intro s _; exact ⟨ANew.refl .., by simp⟩
  | cons d ds ihl =>
    intro s h
    rw [addDepsF_cons] at h ⊢
    have h1 : (addTarget G fuel s d).oof = false := by
      cases hc : (addTarget G fuel s d).oof
      · rfl
      · rw [addDepsF_oof G fuel (addTarget_oof G fuel) ds _ hc] at h; cases h
    obtain ⟨hn1, hd⟩ := ih s d h1
    obtain ⟨hn2, hds⟩ := ihl _ h
    refine ⟨hn1.trans hn2, ?_⟩
    intro d' hd'
    simp only [List.mem_cons] at hd'
    rcases hd' with rfl | hd'
    · exact hn2.1 _ hd
    · exact hds d' hd'

theorem addTarget_closure (G : Graph) : ∀ (fuel : Nat) (s : KSt) (t : Nat), (addTarget G fuel s t).oof = false →
    ANew G s (addTarget G fuel s t) ∧ t ∈ (addTarget G fuel s t).keep := by
  intro fuel
  induction fuel with
  | zero => intro s t h; rw [addTarget_zero] at h; simp at h
  | succ fuel ih =>
    intro s t h
    rw [addTarget_succ] at h ⊢
    split
    · rename_i hin; exact ⟨ANew.refl .., hin⟩
    · rename_i hnin
      rw [if_neg hnin] at h
      simp only at h ⊢
      -- the state after the two dependency loops
      generalize hs3 : addDepsF G fuel (G.res t) (addDepsF G fuel (G.decl t) { s with keep := t :: s.keep }) = s3 at h ⊢
      have ho3 : s3.oof = false := by
        cases hc : s3.oof
        · rfl
        · split at h
          · rw [addTarget_oof G fuel s3 _ hc] at h; cases h
          · rw [hc] at h; cases h
      have h2 : (addDepsF G fuel (G.decl t) { s with keep := t :: s.keep }).oof = false := by
        cases hc : (addDepsF G fuel (G.decl t) { s with keep := t :: s.keep }).oof
        · rfl
        · rw [← hs3, addDepsF_oof G fuel (addTarget_oof G fuel) _ _ hc] at ho3; cases ho3
      obtain ⟨hnA, hdecl⟩ := addDepsF_closure G fuel ih (G.decl t) _ h2
      obtain ⟨hnB, hres⟩ := addDepsF_closure G fuel ih (G.res t) _ (by rw [hs3]; exact ho3)
      rw [hs3] at hnB hres
      have hAB := hnA.trans hnB
      -- the optional step to the parent rule
      have hfin : ∃ s4, (if (G.hasParent t && G.nodes.contains (G.pl t)) = true then addTarget G fuel s3 (G.pl t) else s3) = s4 ∧
          ANew G s3 s4 ∧ ((G.hasParent t = true ∧ G.pl t ∈ G.nodes) → G.pl t ∈ s4.keep) := by
        split
        · rename_i hc
          rw [if_pos hc] at h
          obtain ⟨hn, hp⟩ := ih s3 (G.pl t) h
          exact ⟨_, rfl, hn, fun _ => hp⟩
        · rename_i hc
          refine ⟨_, rfl, ANew.refl .., fun hh => ?_⟩
          exact absurd (by simp [hh.1, hh.2]) hc
      obtain ⟨s4, hs4, hn34, hpar⟩ := hfin
      rw [hs4]
      have hall := hAB.trans hn34
      have ht : t ∈ s4.keep := hall.1 t (List.mem_cons_self ..)
      refine ⟨⟨fun x hx => hall.1 x (List.mem_cons_of_mem _ hx), ?_⟩, ht⟩
      intro x hx hns y hy
      by_cases hxt : x = t
      · subst hxt
        rcases hy with (hy | hy) | ⟨hp, rfl, hn⟩
        · exact hn34.1 y (hnB.1 y (hdecl y hy))
        · exact hn34.1 y (hres y hy)
        · exact hpar ⟨hp, hn⟩
      · exact hall.2 x hx (by simp [hxt, hns]) y hy

/-- every kept target has all its dependencies kept -/
def Closed (G : Graph) (s : KSt) : Prop := ∀ x ∈ s.keep, ∀ y, Link G x y → y ∈ s.keep

theorem Closed.step {G : Graph} {s s' : KSt} (hc : Closed G s) (hn : ANew G s s') : Closed G s' := by
  intro x hx y hy
  by_cases hxs : x ∈ s.keep
  · exact hn.1 y (hc x hxs y hy)
  · exact hn.2 x hx hxs y hy

theorem Closed.reach {G : Graph} {s : KSt} (hc : Closed G s) {a z : Nat} (p : Reach G a z) : a ∈ s.keep → z ∈ s.keep := by
  induction p with
  | refl => exact id
  | step e _ ih => intro ha; exact ih (hc _ ha _ (Or.inl e))

/-- a state transformer that only ever calls `addTarget`: monotone, keeps closedness, oof sticky -/
def Grows (G : Graph) (f : KSt → KSt) : Prop :=
  (∀ s, s.oof = true → (f s).oof = true) ∧ ∀ s, (f s).oof = false → ANew G s (f s)

theorem grows_id (G : Graph) : Grows G id := ⟨fun _ h => h, fun s _ => ANew.refl G s⟩

theorem grows_add (G : Graph) (fuel t : Nat) : Grows G (fun s => addTarget G fuel s t) :=
  ⟨fun s h => addTarget_oof G fuel s t h, fun s h => (addTarget_closure G fuel s t h).1⟩

theorem Grows.comp {G : Graph} {f g : KSt → KSt} (hf : Grows G f) (hg : Grows G g) : Grows G (fun s => g (f s)) := by
  refine ⟨fun s h => hg.1 _ (hf.1 s h), fun s h => ?_⟩
  have h1 : (f s).oof = false := by
    cases hc : (f s).oof
    · rfl
    · rw [hg.1 _ hc] at h; cases h
  exact (hf.2 s h1).trans (hg.2 _ h)

theorem grows_foldl (G : Graph) (fuel : Nat) : ∀ (ts : List Nat), Grows G (fun s => ts.foldl (fun s t => addTarget G fuel s t) s) := by
  intro ts
  induction ts with
  | nil => exact grows_id G
  | cons t ts ih => exact (grows_add G fuel t).comp ih

theorem grows_testDeps (G : Graph) (fuel t : Nat) : ∀ (ds : List Nat), Grows G (testDeps G fuel t ds) := by
  intro ds
  induction ds with
  | nil => exact grows_id G
  | cons d ds ih =>
    have hstep : Grows G (fun s => if s.keep.contains d && !G.testOnly d then addTarget G fuel s t
        else if G.testOnly d then addTarget G fuel s d else s) := by
      refine ⟨fun s h => ?_, fun s h => ?_⟩
      · simp only
        split
        · exact addTarget_oof G fuel s t h
        · split
          · exact addTarget_oof G fuel s d h
          · exact h
      · simp only at h ⊢
        split
        · rename_i hc; rw [if_pos hc] at h; exact (addTarget_closure G fuel s t h).1
        · rename_i hc
          rw [if_neg hc] at h
          split
          · rename_i hc2; rw [if_pos hc2] at h; exact (addTarget_closure G fuel s d h).1
          · exact ANew.refl ..
    exact hstep.comp ih

theorem grows_testPass (G : Graph) (fuel : Nat) : ∀ (ts : List Nat), Grows G (testPass G fuel ts) := by
  intro ts
  induction ts with
  | nil => exact grows_id G
  | cons t ts ih =>
    refine ⟨fun s h => ?_, fun s h => ?_⟩
    · simp only [testPass]
      split
      · split
        · rfl
        · exact ih.1 _ ((grows_testDeps G fuel t _).1 s h)
      · exact ih.1 s h
    · simp only [testPass] at h ⊢
      split
      · rename_i ht
        rw [if_pos ht] at h
        split
        · rename_i hp; rw [hp] at h; simp at h
        · rename_i ds hp
          rw [hp] at h
          exact ((grows_testDeps G fuel t ds).comp ih).2 s h
      · rename_i ht
        rw [if_neg ht] at h
        exact ih.2 s h

theorem grows_testFix (G : Graph) (fuel : Nat) : ∀ (k : Nat), Grows G (testFix G fuel k) := by
  intro k
  induction k with
  | zero => exact ⟨fun _ _ => rfl, fun s h => by simp [testFix] at h⟩
  | succ k ih =>
    have hp := grows_testPass G fuel G.nodes
    refine ⟨fun s h => ?_, fun s h => ?_⟩
    · simp only [testFix]
      split
      · exact ih.1 _ (hp.1 s h)
      · exact hp.1 s h
    · simp only [testFix] at h ⊢
      split
      · rename_i hc
        rw [if_pos hc] at h
        exact (hp.comp ih).2 s h
      · rename_i hc
        rw [if_neg hc] at h
        exact hp.2 s h

/-! ### the keep set -/

/-- an initial root of `targetsToRemove` -/
def Root0 (G : Graph) (Q : Query) (t : Nat) : Prop :=
  (t ∈ G.nodes ∧ isRoot G Q t = true) ∨ t ∈ Q.subincs ∨ t ∈ Q.args

theorem foldl_add_mem (G : Graph) (fuel : Nat) : ∀ (ts : List Nat) (s : KSt),
    (ts.foldl (fun s t => addTarget G fuel s t) s).oof = false →
    ∀ t ∈ ts, t ∈ (ts.foldl (fun s t => addTarget G fuel s t) s).keep := by
  intro ts
  induction ts with
  | nil => intro s _ t ht; simp at ht
  | cons a ts ih =>
    intro s h t ht
    simp only [List.foldl_cons] at h ⊢
    simp only [List.mem_cons] at ht
    rcases ht with rfl | ht
    · have h1 : (addTarget G fuel s t).oof = false := by
        cases hc : (addTarget G fuel s t).oof
        · rfl
        · rw [(grows_foldl G fuel ts).1 _ hc] at h; cases h
      exact ((grows_foldl G fuel ts).2 _ h).1 t (addTarget_closure G fuel s t h1).2
    · exact ih _ h t ht

/-- The keep set contains every root and is closed under dependencies. -/
theorem keepSet_spec (G : Graph) (Q : Query) (h : (keepSet G Q).oof = false) :
    Closed G (keepSet G Q) ∧ ∀ r, Root0 G Q r → r ∈ (keepSet G Q).keep := by
  unfold keepSet at h ⊢
  simp only at h ⊢
  generalize hf : G.nodes.length + 1 = fuel at h ⊢
  -- the three folds and the test pass as one growing pipeline
  let f1 := fun s : KSt => (G.nodes.filter (isRoot G Q)).foldl (fun s t => addTarget G fuel s t) s
  let f2 := fun s : KSt => Q.subincs.foldl (fun s t => addTarget G fuel s t) s
  let f3 := fun s : KSt => Q.args.foldl (fun s t => addTarget G fuel s t) s
  let f4 := fun s : KSt => if Q.includeTests then s else testFix G fuel fuel s
  have g1 := grows_foldl G fuel (G.nodes.filter (isRoot G Q))
  have g2 := grows_foldl G fuel Q.subincs
  have g3 := grows_foldl G fuel Q.args
  have g4 : Grows G f4 := by
    refine ⟨fun s h => ?_, fun s h => ?_⟩
    · show (if Q.includeTests then s else testFix G fuel fuel s).oof = true
      split
      · exact h
      · exact (grows_testFix G fuel fuel).1 s h
    · have h' : (if Q.includeTests then s else testFix G fuel fuel s).oof = false := h
      show ANew G s (if Q.includeTests then s else testFix G fuel fuel s)
      split
      · exact ANew.refl ..
      · rename_i hc; rw [if_neg hc] at h'; exact (grows_testFix G fuel fuel).2 s h'
  let s0 : KSt := { keep := [] }
  have hfin : (f4 (f3 (f2 (f1 s0)))).oof = false := h
  have o3 : (f3 (f2 (f1 s0))).oof = false := by
    cases hc : (f3 (f2 (f1 s0))).oof
    · rfl
    · rw [g4.1 _ hc] at hfin; cases hfin
  have o2 : (f2 (f1 s0)).oof = false := by
    cases hc : (f2 (f1 s0)).oof
    · rfl
    · rw [g3.1 _ hc] at o3; cases o3
  have o1 : (f1 s0).oof = false := by
    cases hc : (f1 s0).oof
    · rfl
    · rw [g2.1 _ hc] at o2; cases o2
  have n1 := g1.2 s0 o1
  have n2 := g2.2 _ o2
  have n3 := g3.2 _ o3
  have n4 := g4.2 _ hfin
  have c0 : Closed G s0 := by intro x hx; simp [s0] at hx
  have cfin : Closed G (f4 (f3 (f2 (f1 s0)))) := (((c0.step n1).step n2).step n3).step n4
  refine ⟨cfin, ?_⟩
  intro r hr
  rcases hr with ⟨hn, hroot⟩ | hr | hr
  · have : r ∈ (f1 s0).keep := foldl_add_mem G fuel _ s0 o1 r (List.mem_filter.mpr ⟨hn, hroot⟩)
    exact n4.1 r (n3.1 r (n2.1 r this))
  · have : r ∈ (f2 (f1 s0)).keep := foldl_add_mem G fuel _ _ o2 r hr
    exact n4.1 r (n3.1 r this)
  · have : r ∈ (f3 (f2 (f1 s0))).keep := foldl_add_mem G fuel _ _ o3 r hr
    exact n4.1 r this

/-- everything below a root is kept -/
theorem keepSet_reach (G : Graph) (Q : Query) (h : (keepSet G Q).oof = false) (r x : Nat) (hr : Root0 G Q r)
    (p : Reach G r x) : x ∈ (keepSet G Q).keep :=
  let ⟨hc, hroots⟩ := keepSet_spec G Q h
  hc.reach p (hroots r hr)

/-! ### what is proposed for removal -/

theorem removable_not_kept {G : Graph} {Q : Query} {keep : List Nat} {t : Nat}
    (h : removable G Q keep t = true) : t ∉ keep := by
  unfold removable at h
  simp only [Bool.and_eq_true, Bool.not_eq_true', List.contains_eq_mem, decide_eq_false_iff_not] at h
  exact h.1.2

theorem removeSrcs_not_kept {G : Graph} {Q : Query} {keep : List Nat} {f : Nat} (h : f ∈ removeSrcs G Q keep) :
    ∀ k ∈ keep, f ∉ G.srcs k ∧ f ∉ G.data k := by
  unfold removeSrcs at h
  simp only [List.mem_flatMap, List.mem_filter, Bool.not_eq_true', List.contains_eq_mem,
    decide_eq_false_iff_not] at h
  obtain ⟨t, _, _, hnk⟩ := h
  intro k hk
  constructor <;> intro hf <;> apply hnk <;> unfold keepSrcs
  · exact List.mem_flatMap.mpr ⟨k, hk, List.mem_append_left _ hf⟩
  · exact List.mem_flatMap.mpr ⟨k, hk, List.mem_append_right _ hf⟩

/-! ### fuel: the recursion bound of `addTarget` is never reached -/

/-- dependencies of targets are targets -/
def GWF (G : Graph) : Prop := ∀ t ∈ G.nodes, (∀ d ∈ G.decl t, d ∈ G.nodes) ∧ (∀ d ∈ G.res t, d ∈ G.nodes)

def KOK (G : Graph) (fuel : Nat) (s : KSt) : Prop :=
  s.keep.Nodup ∧ (∀ x ∈ s.keep, x ∈ G.nodes) ∧ s.oof = false ∧ G.nodes.length + 1 ≤ fuel + s.keep.length

theorem addDepsF_fuel (G : Graph) (fuel : Nat)
    (ih : ∀ s t, KOK G fuel s → t ∈ G.nodes → KOK G fuel (addTarget G fuel s t) ∧ s.keep.length ≤ (addTarget G fuel s t).keep.length) :
    ∀ (ds : List Nat) (s : KSt), (∀ d ∈ ds, d ∈ G.nodes) → KOK G fuel s →
      KOK G fuel (addDepsF G fuel ds s) ∧ s.keep.length ≤ (addDepsF G fuel ds s).keep.length := by
  intro ds
  induction ds with
  | nil => intro s _ hs; exact ⟨hs, Nat.le_refl _⟩
  | cons d ds ihl =>
    intro s hds hs
    rw [addDepsF_cons]
    obtain ⟨h1, l1⟩ := ih s d hs (hds d (List.mem_cons_self ..))
    obtain ⟨h2, l2⟩ := ihl _ (fun d' h => hds d' (List.mem_cons_of_mem _ h)) h1
    exact ⟨h2, Nat.le_trans l1 l2⟩

theorem addTarget_fuel (G : Graph) (hwf : GWF G) : ∀ (fuel : Nat) (s : KSt) (t : Nat), KOK G fuel s → t ∈ G.nodes →
    KOK G fuel (addTarget G fuel s t) ∧ s.keep.length ≤ (addTarget G fuel s t).keep.length := by
  intro fuel
  induction fuel with
  | zero =>
    intro s t ⟨hn, hs, _, hf⟩ _
    have := PlzVerif.Cycle.nodup_subset_length _ _ hn hs
    omega
  | succ fuel ih =>
    intro s t hk ht
    rw [addTarget_succ]
    split
    · exact ⟨hk, Nat.le_refl _⟩
    · rename_i hnin
      obtain ⟨hn, hs, ho, hf⟩ := hk
      have hk1 : KOK G fuel { s with keep := t :: s.keep } := by
        refine ⟨List.nodup_cons.mpr ⟨hnin, hn⟩, ?_, ho, by simp only [List.length_cons]; omega⟩
        intro x hx
        simp only [List.mem_cons] at hx
        rcases hx with rfl | hx
        · exact ht
        · exact hs x hx
      obtain ⟨hA, lA⟩ := addDepsF_fuel G fuel ih (G.decl t) _ (hwf t ht).1 hk1
      obtain ⟨hB, lB⟩ := addDepsF_fuel G fuel ih (G.res t) _ (hwf t ht).2 hA
      simp only [List.length_cons] at lA
      simp only
      split
      · rename_i hc
        have hpn : G.pl t ∈ G.nodes := by
          simp only [Bool.and_eq_true, List.contains_eq_mem, decide_eq_true_eq] at hc
          exact hc.2
        obtain ⟨hC, lC⟩ := ih _ (G.pl t) hB hpn
        obtain ⟨c1, c2, c3, c4⟩ := hC
        exact ⟨⟨c1, c2, c3, by omega⟩, by omega⟩
      · obtain ⟨b1, b2, b3, b4⟩ := hB
        exact ⟨⟨b1, b2, b3, by omega⟩, by omega⟩

/-- with `--conservative` (no test pass) `targetsToRemove` never reaches a recursion bound -/
theorem keepSet_fuel_conservative (G : Graph) (hwf : GWF G) (Q : Query) (hc : Q.includeTests = true)
    (hs : ∀ t ∈ Q.subincs, t ∈ G.nodes) (ha : ∀ t ∈ Q.args, t ∈ G.nodes) : (keepSet G Q).oof = false := by
  unfold keepSet
  simp only [hc, ite_true]
  have hfold : ∀ (ts : List Nat) (s : KSt), (∀ t ∈ ts, t ∈ G.nodes) → KOK G (G.nodes.length + 1) s →
      KOK G (G.nodes.length + 1) (ts.foldl (fun s t => addTarget G (G.nodes.length + 1) s t) s) := by
    intro ts
    induction ts with
    | nil => intro s _ h; exact h
    | cons t ts ih =>
      intro s hts h
      simp only [List.foldl_cons]
      exact ih _ (fun t' h' => hts t' (List.mem_cons_of_mem _ h'))
        (addTarget_fuel G hwf _ s t h (hts t (List.mem_cons_self ..))).1
  have h0 : KOK G (G.nodes.length + 1) { keep := [] } := ⟨List.nodup_nil, by simp, rfl, by simp⟩
  have h1 := hfold (G.nodes.filter (isRoot G Q)) _ (fun t ht => (List.mem_filter.mp ht).1) h0
  have h2 := hfold Q.subincs _ hs h1
  have h3 := hfold Q.args _ ha h2
  exact h3.2.2.1

end PlzVerif.GC
