import PlzVerif.Lemmas.QueryRev
/-!
Lemmas for C23/C24 (part 5): without a level limit `findRevdeps` visits every target that transitively depends
on the query, and with `hidden = true` (how `query changes` calls it) reports every one of them.
Core Lean only.
-/
namespace PlzVerif.Query

theorem mem_rev_of {G : Graph} {p t : Nat} (ht : t ∈ G.nodes) (he : Edge G t p) : t ∈ rev G p := by
  unfold rev
  simp only [List.mem_flatMap, List.mem_filterMap]
  exact ⟨t, ht, p, he, by simp⟩

/-- the queue keeps what it holds, `done` and `ret` only grow, and everything newly done is queued -/
def RGrow (s s' : RSt) : Prop :=
  (∀ e ∈ s.queue, e ∈ s'.queue) ∧ (∀ x ∈ s.done, x ∈ s'.done) ∧ (∀ x ∈ s.ret, x ∈ s'.ret) ∧
  ∀ x ∈ s'.done, x ∉ s.done → ∃ d, (x, d) ∈ s'.queue

theorem RGrow.refl (s : RSt) : RGrow s s := ⟨fun _ h => h, fun _ h => h, fun _ h => h, fun x hx hn => absurd hx hn⟩

theorem RGrow.trans {a b c : RSt} (h1 : RGrow a b) (h2 : RGrow b c) : RGrow a c := by
  refine ⟨fun e he => h2.1 e (h1.1 e he), fun x hx => h2.2.1 x (h1.2.1 x hx), fun x hx => h2.2.2.1 x (h1.2.2.1 x hx), ?_⟩
  intro x hx hna
  by_cases hb : x ∈ b.done
  · obtain ⟨d, hd⟩ := h1.2.2.2 x hb hna
    exact ⟨d, h2.1 _ hd⟩
  · exact h2.2.2.2 x hx hb

theorem push_grow (s : RSt) (t d : Nat) : RGrow s (push s t d) ∧ t ∈ (push s t d).done := by
  unfold push
  split
  · rename_i h; exact ⟨RGrow.refl s, h⟩
  · rename_i hnin
    refine ⟨⟨fun e he => List.mem_append_left _ he, fun x hx => List.mem_cons_of_mem _ hx, fun _ h => h, ?_⟩,
      List.mem_cons_self ..⟩
    intro x hx hn
    simp only [List.mem_cons] at hx
    rcases hx with rfl | hx
    · exact ⟨d, by simp⟩
    · exact absurd hx hn

/-- `t`, examined as a reverse dependency of the popped target `x`, has been reported (as itself or as its rule) whenever
the step from `x` to `t` costs a level: always with `--hidden`, otherwise when the two are not the same target/rule -/
def Rep (G : Graph) (hidden : Bool) (x t : Nat) (ret : List Nat) : Prop :=
  (hidden = true ∨ isSameTarget G x t = false) → ∀ r, report G hidden t = some r → r ∈ ret

/-- one pass over the reverse dependencies of the popped target, without a limit -/
theorem revStep_all (cfg : Cfg) (G : Graph) (hidden : Bool) (next d : Nat) : ∀ (ts : List Nat) (s : RSt),
    RGrow s (revStep cfg G none hidden next d ts s) ∧
    ∀ t ∈ ts, t ∈ (revStep cfg G none hidden next d ts s).done ∧
      Rep G hidden next t (revStep cfg G none hidden next d ts s).ret := by
  intro ts
  induction ts with
  | nil => intro s; simp only [revStep]; exact ⟨RGrow.refl s, by simp⟩
  | cons t ts ih =>
    intro s
    simp only [revStep, within, ite_true]
    -- the state after handling t
    generalize hs1 : (push (if nextDepth G hidden next d t > 0 then
        match report G hidden t with
        | some x => { s with ret := x :: s.ret }
        | none => s
      else s) t (nextDepth G hidden next d t)) = s1
    have hg : RGrow s s1 ∧ t ∈ s1.done ∧ Rep G hidden next t s1.ret := by
      subst hs1
      have hpg := push_grow (if nextDepth G hidden next d t > 0 then
        match report G hidden t with
        | some x => { s with ret := x :: s.ret }
        | none => s
      else s) t (nextDepth G hidden next d t)
      have hmid : RGrow s (if nextDepth G hidden next d t > 0 then
          match report G hidden t with
          | some x => { s with ret := x :: s.ret }
          | none => s
        else s) := by
        split
        · split
          · exact ⟨fun _ h => h, fun _ h => h, fun x hx => List.mem_cons_of_mem _ hx, fun x hx hn => absurd hx hn⟩
          · exact RGrow.refl s
        · exact RGrow.refl s
      refine ⟨hmid.trans hpg.1, hpg.2, ?_⟩
      intro hc r hr
      apply hpg.1.2.2.1
      have hd : nextDepth G hidden next d t > 0 := by
        unfold nextDepth
        have : (hidden || !isSameTarget G next t) = true := by
          rcases hc with hc | hc <;> simp [hc]
        simp [this]
      simp only [hd, ite_true, hr]
      exact List.mem_cons_self ..
    obtain ⟨hrest, hall⟩ := ih s1
    refine ⟨hg.1.trans hrest, ?_⟩
    intro t' ht'
    simp only [List.mem_cons] at ht'
    rcases ht' with rfl | ht'
    · exact ⟨hrest.2.1 _ hg.2.1, fun hc r hr => hrest.2.2.1 _ (hg.2.2 hc r hr)⟩
    · exact hall t' ht'

/-- every done target is still queued, or all its reverse dependencies are done (and reported when `hidden`) -/
def PInv (G : Graph) (hidden : Bool) (s : RSt) : Prop :=
  ∀ x ∈ s.done, (∃ d, (x, d) ∈ s.queue) ∨ (∀ t ∈ rev G x, t ∈ s.done ∧ Rep G hidden x t s.ret)

theorem revLoop_closure (cfg : Cfg) (G : Graph) (hidden : Bool) : ∀ (fuel : Nat) (s : RSt), PInv G hidden s →
    (revLoop cfg G none hidden fuel s).oof = false →
    (∀ x ∈ s.done, x ∈ (revLoop cfg G none hidden fuel s).done) ∧
    ∀ x ∈ (revLoop cfg G none hidden fuel s).done, ∀ t ∈ rev G x,
      t ∈ (revLoop cfg G none hidden fuel s).done ∧ Rep G hidden x t (revLoop cfg G none hidden fuel s).ret := by
  intro fuel
  induction fuel with
  | zero =>
    intro s hs ho
    simp only [revLoop] at ho ⊢
    split
    · rename_i he
      refine ⟨fun _ h => h, fun x hx => ?_⟩
      rcases hs x hx with ⟨d, hd⟩ | hp
      · have : s.queue = [] := by simpa using he
        rw [this] at hd; simp at hd
      · exact hp
    · rename_i he; rw [if_neg he] at ho; simp at ho
  | succ fuel ih =>
    intro s hs ho
    simp only [revLoop] at ho ⊢
    split
    · rename_i hq
      refine ⟨fun _ h => h, fun x hx => ?_⟩
      rcases hs x hx with ⟨d, hd⟩ | hp
      · rw [hq] at hd; simp at hd
      · exact hp
    · rename_i next d q hq
      rw [hq] at ho
      simp only at ho
      obtain ⟨hgrow, hall⟩ := revStep_all cfg G hidden next d (rev G next) { s with queue := q }
      have hinv : PInv G hidden (revStep cfg G none hidden next d (rev G next) { s with queue := q }) := by
        intro x hx
        by_cases hxs : x ∈ s.done
        · rcases hs x hxs with ⟨d', hd'⟩ | hp
          · rw [hq] at hd'
            simp only [List.mem_cons, Prod.mk.injEq] at hd'
            rcases hd' with ⟨rfl, _⟩ | hd'
            · exact Or.inr hall
            · exact Or.inl ⟨d', hgrow.1 _ hd'⟩
          · exact Or.inr fun t ht => ⟨hgrow.2.1 _ (hp t ht).1, fun hc r hr => hgrow.2.2.1 _ ((hp t ht).2 hc r hr)⟩
        · exact Or.inl (hgrow.2.2.2 x hx hxs)
      obtain ⟨hm, hc⟩ := ih _ hinv ho
      exact ⟨fun x hx => hm x (hgrow.2.1 x hx), hc⟩

theorem revInit_pinv (G : Graph) (hidden : Bool) (roots : List Nat) :
    PInv G hidden (revInit G hidden roots) ∧ ∀ r ∈ roots, r ∈ (revInit G hidden roots).done := by
  unfold revInit
  -- every done target of the initial state is queued
  suffices h : ∀ (rs : List Nat) (s : RSt), (∀ x ∈ s.done, ∃ d, (x, d) ∈ s.queue) →
      (∀ x ∈ (rs.foldl (fun s r =>
        let s := push s r 0
        if !hidden && !G.hid r then (children G r).foldl (fun s c => push s c 0) s else s) s).done,
        ∃ d, (x, d) ∈ (rs.foldl (fun s r =>
        let s := push s r 0
        if !hidden && !G.hid r then (children G r).foldl (fun s c => push s c 0) s else s) s).queue) ∧
      (∀ x ∈ s.done, x ∈ (rs.foldl (fun s r =>
        let s := push s r 0
        if !hidden && !G.hid r then (children G r).foldl (fun s c => push s c 0) s else s) s).done) ∧
      ∀ r ∈ rs, r ∈ (rs.foldl (fun s r =>
        let s := push s r 0
        if !hidden && !G.hid r then (children G r).foldl (fun s c => push s c 0) s else s) s).done by
    obtain ⟨h1, _, h3⟩ := h roots { queue := [], done := [], ret := [] } (by simp)
    exact ⟨fun x hx => Or.inl (h1 x hx), h3⟩
  -- a fold of pushes keeps "done ⊆ queued" and is monotone
  have hpush : ∀ (s : RSt) (t : Nat), (∀ x ∈ s.done, ∃ d, (x, d) ∈ s.queue) →
      (∀ x ∈ (push s t 0).done, ∃ d, (x, d) ∈ (push s t 0).queue) := by
    intro s t hs x hx
    obtain ⟨hg, _⟩ := push_grow s t 0
    by_cases hxs : x ∈ s.done
    · obtain ⟨d, hd⟩ := hs x hxs; exact ⟨d, hg.1 _ hd⟩
    · exact hg.2.2.2 x hx hxs
  have hfold : ∀ (cs : List Nat) (s : RSt), (∀ x ∈ s.done, ∃ d, (x, d) ∈ s.queue) →
      (∀ x ∈ (cs.foldl (fun s c => push s c 0) s).done, ∃ d, (x, d) ∈ (cs.foldl (fun s c => push s c 0) s).queue) ∧
      ∀ x ∈ s.done, x ∈ (cs.foldl (fun s c => push s c 0) s).done := by
    intro cs
    induction cs with
    | nil => intro s hs; exact ⟨hs, fun _ h => h⟩
    | cons c cs ihc =>
      intro s hs
      simp only [List.foldl_cons]
      obtain ⟨h1, h2⟩ := ihc _ (hpush s c hs)
      exact ⟨h1, fun x hx => h2 x ((push_grow s c 0).1.2.1 x hx)⟩
  intro rs
  induction rs with
  | nil => intro s hs; exact ⟨hs, fun _ h => h, by simp⟩
  | cons r rs ih =>
    intro s hs
    simp only [List.foldl_cons]
    have hr := push_grow s r 0
    have hs1 := hpush s r hs
    split
    · obtain ⟨hf1, hf2⟩ := hfold (children G r) _ hs1
      obtain ⟨i1, i2, i3⟩ := ih _ hf1
      refine ⟨i1, fun x hx => i2 x (hf2 x (hr.1.2.1 x hx)), ?_⟩
      intro r' hr'
      simp only [List.mem_cons] at hr'
      rcases hr' with rfl | hr'
      · exact i2 _ (hf2 _ hr.2)
      · exact i3 r' hr'
    · obtain ⟨i1, i2, i3⟩ := ih _ hs1
      refine ⟨i1, fun x hx => i2 x (hr.1.2.1 x hx), ?_⟩
      intro r' hr'
      simp only [List.mem_cons] at hr'
      rcases hr' with rfl | hr'
      · exact i2 _ hr.2
      · exact i3 r' hr'

/-- `u` transitively depends on a queried target (`u` a target of the graph) -/
inductive DependsOn (G : Graph) (roots : List Nat) : Nat → Prop
  | direct {u x : Nat} : x ∈ roots → u ∈ G.nodes → Edge G u x → DependsOn G roots u
  | step {u x : Nat} : DependsOn G roots x → u ∈ G.nodes → Edge G u x → DependsOn G roots u

/-- Without a level limit `FindRevdeps` visits every target that transitively depends on the query, and with
`hidden = true` it reports every one of them. -/
theorem findRevdeps_complete_unlimited (cfg : Cfg) (G : Graph) (hidden : Bool) (roots : List Nat)
    (hr : ∀ r ∈ roots, r ∈ G.nodes) (u : Nat) (hu : DependsOn G roots u) :
    u ∈ (findRevdeps cfg G none hidden roots).done ∧ (hidden = true → u ∈ (findRevdeps cfg G none hidden roots).ret) := by
  have ho := findRevdeps_fuel cfg G none hidden roots hr
  unfold findRevdeps at ho ⊢
  obtain ⟨hp, hroots⟩ := revInit_pinv G hidden roots
  obtain ⟨hm, hc⟩ := revLoop_closure cfg G hidden _ _ hp ho
  have key : ∀ {x u : Nat}, x ∈ (revLoop cfg G none hidden (G.nodes.length + 1) (revInit G hidden roots)).done →
      u ∈ G.nodes → Edge G u x →
      u ∈ (revLoop cfg G none hidden (G.nodes.length + 1) (revInit G hidden roots)).done ∧
      (hidden = true → u ∈ (revLoop cfg G none hidden (G.nodes.length + 1) (revInit G hidden roots)).ret) := by
    intro x u hx hun he
    obtain ⟨h1, h2⟩ := hc _ hx _ (mem_rev_of hun he)
    exact ⟨h1, fun hh => h2 (Or.inl hh) u (by simp [report, hh])⟩
  induction hu with
  | direct hx hun he => exact key (hm _ (hroots _ hx)) hun he
  | step _ hun he ih => exact key ih.1 hun he

/-- Without a level limit and WITHOUT `--hidden` (the default of `plz query revdeps`): whenever a target `u` depends
directly on `x` — a queried target, one of its pushed hidden sub-targets, or anything that transitively depends on
those — and `u` is not the same target/rule as `x`, then `u` is reported: as itself, or as its rule when it is hidden. -/
theorem findRevdeps_reports_crossing (cfg : Cfg) (G : Graph) (hidden : Bool) (roots : List Nat)
    (hr : ∀ r ∈ roots, r ∈ G.nodes) (x u r : Nat) (hx : x ∈ roots ∨ DependsOn G roots x) (hun : u ∈ G.nodes)
    (he : Edge G u x) (hcross : hidden = true ∨ isSameTarget G x u = false) (hrep : report G hidden u = some r) :
    r ∈ (findRevdeps cfg G none hidden roots).ret := by
  have ho := findRevdeps_fuel cfg G none hidden roots hr
  have hxd := hx.elim (fun h => ?_) (fun h => (findRevdeps_complete_unlimited cfg G hidden roots hr x h).1)
  · unfold findRevdeps at ho hxd ⊢
    obtain ⟨hp, _⟩ := revInit_pinv G hidden roots
    obtain ⟨_, hc⟩ := revLoop_closure cfg G hidden _ _ hp ho
    exact (hc _ hxd _ (mem_rev_of hun he)).2 hcross r hrep
  · unfold findRevdeps at ho ⊢
    obtain ⟨hp, hroots⟩ := revInit_pinv G hidden roots
    obtain ⟨hm, _⟩ := revLoop_closure cfg G hidden _ _ hp ho
    exact hm _ (hroots _ h)

end PlzVerif.Query
