import PlzVerif.Model.DirCache
/-!
Lemmas about the directory-cache operation model: frame properties (operations under the temporary root leave
the entry alone), states after a partial recursive removal, the three phases of a store's operation list.
-/
namespace PlzVerif.DirCache

/-! ### plain mode: frame -/

theorem apply1_tmpOnly_final {fs : FS} {op : Op} (h : op.tmpOnly = true) (q : Path) :
    apply1 fs op .final q = fs .final q := by
  cases op with
  | rmSub r p => cases r <;> simp [Op.tmpOnly] at h; simp [apply1]
  | mkdirAll r p => cases r <;> simp [Op.tmpOnly] at h; simp [apply1]
  | put r p i => cases r <;> simp [Op.tmpOnly] at h; simp [apply1]
  | write r p c => cases r <;> simp [Op.tmpOnly] at h; simp [apply1]
  | mv r p q' =>
    cases r <;> simp [Op.tmpOnly] at h
    simp only [apply1]
    split <;> simp
  | rename => simp [Op.tmpOnly] at h

theorem applyOps_tmpOnly_final : ∀ (ops : List Op) (fs : FS), (∀ op ∈ ops, op.tmpOnly = true) →
    ∀ q, applyOps fs ops .final q = fs .final q := by
  intro ops
  induction ops with
  | nil => intro fs _ q; rfl
  | cons op ops ih =>
    intro fs h q
    simp only [applyOps, List.foldl_cons]
    have := ih (apply1 fs op) (fun o ho => h o (List.mem_cons_of_mem _ ho)) q
    simp only [applyOps] at this
    rw [this, apply1_tmpOnly_final (h op (List.mem_cons_self ..))]

theorem applyOps_append (fs : FS) (a b : List Op) : applyOps fs (a ++ b) = applyOps (applyOps fs a) b := by
  simp [applyOps, List.foldl_append]

theorem applyOps_cons (fs : FS) (a : Op) (b : List Op) : applyOps fs (a :: b) = applyOps (apply1 fs a) b := rfl

theorem applyOps_nil (fs : FS) : applyOps fs [] = fs := rfl

/-- After the whole old entry is gone nothing is left under the entry root. -/
theorem rmFinal_empty (fs : FS) (q : Path) : apply1 fs (.rmSub .final []) .final q = none := by
  simp [apply1, List.isPrefixOf]

/-- Removing subtrees of the entry only ever turns mapped paths into unmapped ones. -/
theorem rmSubs_final (ps : List Path) : ∀ (fs : FS) (q : Path),
    applyOps fs (ps.map (.rmSub .final)) .final q = none ∨
    applyOps fs (ps.map (.rmSub .final)) .final q = fs .final q := by
  induction ps with
  | nil => intro fs q; right; rfl
  | cons p ps ih =>
    intro fs q
    simp only [List.map_cons, applyOps_cons]
    rcases ih (apply1 fs (.rmSub .final p)) q with h | h
    · left; exact h
    · rw [h]
      simp only [apply1]
      split
      · left; rfl
      · right; rfl

/-- The three phases of a store's operation list, cut at any point. -/
theorem take_phases {α} (A : List α) (b : α) (M : List α) (c : α) (n : Nat) :
    (∃ k, (A ++ b :: (M ++ [c])).take n = A.take k) ∨
    (∃ j, (A ++ b :: (M ++ [c])).take n = A ++ b :: M.take j) ∨
    (A ++ b :: (M ++ [c])).take n = A ++ b :: (M ++ [c]) := by
  by_cases h1 : n ≤ A.length
  · left; exact ⟨n, by rw [List.take_append_of_le_length h1]⟩
  · right
    have h1' : A.length < n := Nat.lt_of_not_le h1
    obtain ⟨m, hm⟩ : ∃ m, n = A.length + (m + 1) := ⟨n - A.length - 1, by omega⟩
    subst hm
    rw [List.take_length_add_append]
    simp only [List.take_succ_cons]
    by_cases h2 : m ≤ M.length
    · left; exact ⟨m, by rw [List.take_append_of_le_length h2]⟩
    · right
      rw [List.take_of_length_le]
      simp; omega

/-! ### compressed mode: frame -/

theorem applyC1_tmpOnly_final {fs : CFS} {op : COp} (h : op.tmpOnly = true) :
    applyC1 fs op .final = fs .final := by
  cases op with
  | rm r => cases r <;> simp [COp.tmpOnly] at h; simp [applyC1]
  | create => simp [applyC1]
  | append e => simp [applyC1]
  | close => simp [applyC1]
  | nop => rfl
  | rename => simp [COp.tmpOnly] at h

theorem applyOpsC_tmpOnly_final : ∀ (ops : List COp) (fs : CFS), (∀ op ∈ ops, op.tmpOnly = true) →
    applyOpsC fs ops .final = fs .final := by
  intro ops
  induction ops with
  | nil => intro fs _; rfl
  | cons op ops ih =>
    intro fs h
    simp only [applyOpsC, List.foldl_cons]
    have := ih (applyC1 fs op) (fun o ho => h o (List.mem_cons_of_mem _ ho))
    simp only [applyOpsC] at this
    rw [this, applyC1_tmpOnly_final (h op (List.mem_cons_self ..))]

theorem applyOpsC_append (fs : CFS) (a b : List COp) : applyOpsC fs (a ++ b) = applyOpsC (applyOpsC fs a) b := by
  simp [applyOpsC, List.foldl_append]

theorem applyOpsC_cons (fs : CFS) (a : COp) (b : List COp) : applyOpsC fs (a :: b) = applyOpsC (applyC1 fs a) b := rfl


/-! ### crash points -/

theorem filterMap_congr' {α β} {f g : α → Option β} : ∀ (l : List α), (∀ a ∈ l, f a = g a) →
    l.filterMap f = l.filterMap g := by
  intro l
  induction l with
  | nil => intro _; rfl
  | cons a l ih =>
    intro h
    rw [List.filterMap_cons, List.filterMap_cons, h a (List.mem_cons_self ..),
      ih (fun b hb => h b (List.mem_cons_of_mem _ hb))]

/-- The requested outputs of the old entry are leaves (files, symlinks, empty directories or absent). -/
def LeafOuts (fs : FS) (outs : List Path) : Prop :=
  ∀ o ∈ outs, ∀ p, o.isPrefixOf p = true → p ≠ o → fs .final p = none

/-- A state in which some nodes of the entry have been unlinked and nothing else changed answers a retrieve
    with a miss or exactly as before — provided the requested outputs are leaves. -/
theorem retrieve_of_partial {fs0 s : FS} {cands outs : List Path}
    (hs : ∀ q, s .final q = none ∨ s .final q = fs0 .final q) (hleaf : LeafOuts fs0 outs) :
    retrieveU s cands outs = .miss ∨ retrieveU s cands outs = retrieveU fs0 cands outs := by
  unfold retrieveU
  by_cases h0 : s .final [] = none
  · left; simp [h0]
  · have h0' : fs0 .final [] ≠ none := by
      rcases hs [] with h | h
      · exact absurd h h0
      · rw [← h]; exact h0
    by_cases hany : (outs.any fun o => decide (s .final o = none)) = true
    · left; simp [h0, hany]
    · right
      have hall : ∀ o ∈ outs, s .final o = fs0 .final o ∧ s .final o ≠ none := by
        intro o ho
        have hne : s .final o ≠ none := by
          intro hc
          apply hany
          rw [List.any_eq_true]
          exact ⟨o, ho, by simp [hc]⟩
        rcases hs o with h | h
        · exact absurd h hne
        · exact ⟨h, hne⟩
      have hany0 : (outs.any fun o => decide (fs0 .final o = none)) = false := by
        rw [List.any_eq_false]
        intro o ho
        have := hall o ho
        simp only [decide_eq_true_eq]
        rw [← this.1]; exact this.2
      have hany' : (outs.any fun o => decide (s .final o = none)) = false := by
        simpa using hany
      simp only [h0, h0', hany0, hany', if_false, Bool.false_eq_true]
      congr 1
      apply filterMap_congr'
      intro p _
      by_cases hp : (outs.any (·.isPrefixOf p)) = true
      · simp only [hp, if_true]
        rw [List.any_eq_true] at hp
        obtain ⟨o, ho, hop⟩ := hp
        by_cases hpo : p = o
        · subst hpo; rw [(hall p ho).1]
        · have hn := hleaf o ho p hop hpo
          rcases hs p with h | h
          · rw [h, hn]
          · rw [h]
      · simp [hp]

theorem retrieve_miss_of_absent {s : FS} (cands outs : List Path) (h : s .final [] = none) :
    retrieveU s cands outs = .miss := by
  simp [retrieveU, h]

/-- Every cut of `partial removals ++ removal ++ temp-only operations ++ rename`. -/
theorem crash_cases (fs0 : FS) (ps : List Path) (M : List Op) (hM : ∀ op ∈ M, op.tmpOnly = true) (n : Nat) :
    let ops := ps.map (Op.rmSub .final) ++ Op.rmSub .final [] :: (M ++ [Op.rename])
    (∀ q, applyOps fs0 (ops.take n) .final q = none ∨ applyOps fs0 (ops.take n) .final q = fs0 .final q) ∨
    ops.take n = ops := by
  intro ops
  rcases take_phases (ps.map (Op.rmSub .final)) (Op.rmSub .final []) M Op.rename n with ⟨k, hk⟩ | ⟨j, hj⟩ | h
  · left
    intro q
    show applyOps fs0 (List.take n (ps.map (Op.rmSub .final) ++ Op.rmSub .final [] :: (M ++ [Op.rename]))) .final q = none ∨ _
    rw [hk, ← List.map_take]
    exact rmSubs_final _ fs0 q
  · left
    intro q
    left
    show applyOps fs0 (List.take n (ps.map (Op.rmSub .final) ++ Op.rmSub .final [] :: (M ++ [Op.rename]))) .final q = none
    rw [hj, applyOps_append, applyOps_cons,
      applyOps_tmpOnly_final _ _ (fun op ho => hM op (List.mem_of_mem_take ho))]
    exact rmFinal_empty _ q
  · right; exact h

theorem crash_generic (fs0 : FS) (ps : List Path) (M : List Op) (hM : ∀ op ∈ M, op.tmpOnly = true)
    (cands outs : List Path) (hleaf : LeafOuts fs0 outs) (n : Nat) :
    let ops := ps.map (Op.rmSub .final) ++ Op.rmSub .final [] :: (M ++ [Op.rename])
    let s := applyOps fs0 (ops.take n)
    retrieveU s cands outs = .miss ∨ retrieveU s cands outs = retrieveU fs0 cands outs ∨
      retrieveU s cands outs = retrieveU (applyOps fs0 ops) cands outs := by
  intro ops s
  rcases crash_cases fs0 ps M hM n with h | h
  · rcases retrieve_of_partial (cands := cands) h hleaf with h' | h'
    · left; exact h'
    · right; left; exact h'
  · right; right
    show retrieveU (applyOps fs0 (List.take n ops)) cands outs = _
    rw [h]

/-- Before the rename has happened a fresh key (no entry yet) has no entry. -/
theorem absent_before_rename (fs0 : FS) (hfresh : fs0 .final [] = none) (ps : List Path) (M : List Op)
    (hM : ∀ op ∈ M, op.tmpOnly = true) (n : Nat)
    (hn : n < (ps.map (Op.rmSub .final) ++ Op.rmSub .final [] :: (M ++ [Op.rename])).length) :
    applyOps fs0 ((ps.map (Op.rmSub .final) ++ Op.rmSub .final [] :: (M ++ [Op.rename])).take n) .final [] = none := by
  rcases crash_cases fs0 ps M hM n with h | h
  · rcases h [] with h' | h'
    · exact h'
    · rw [h']; exact hfresh
  · exfalso
    have := congrArg List.length h
    rw [List.length_take] at this
    omega

/-! ### the reader -/

theorem readStep_done (cands outs : List Path) (fs : FS) (r : Res) :
    readStep cands outs fs (.done r) = .done r := rfl

theorem readRun_done_stable (cands outs : List Path) (snaps : Nat → FS) (r : Res) :
    ∀ n m, readRun cands outs snaps n = .done r → n ≤ m → readRun cands outs snaps m = .done r := by
  intro n m h hnm
  induction m with
  | zero => have : n = 0 := by omega
            subst this; exact h
  | succ m ih =>
    by_cases hn : n = m + 1
    · subst hn; exact h
    · have := ih (by omega)
      simp only [readRun, this, readStep_done]

theorem readRun_congr (cands outs : List Path) (s1 s2 : Nat → FS) :
    ∀ n, (∀ i, i < n → s1 i = s2 i) → readRun cands outs s1 n = readRun cands outs s2 n := by
  intro n
  induction n with
  | zero => intro _; rfl
  | succ n ih =>
    intro h
    simp only [readRun]
    rw [ih (fun i hi => h i (by omega)), h n (by omega)]

/-- One store interleaved in any way with one reader on a fresh key: the reader misses or reads exactly what it
    would read from the finished entry. -/
theorem conc_generic (fs0 : FS) (hfresh : fs0 .final [] = none) (ps : List Path) (M : List Op)
    (hM : ∀ op ∈ M, op.tmpOnly = true) (cands outs : List Path)
    (sched : Nat → Nat) (hmono : ∀ i j, i ≤ j → sched i ≤ sched j) (fuel : Nat) (hfuel : 0 < fuel) :
    let ops := ps.map (Op.rmSub .final) ++ Op.rmSub .final [] :: (M ++ [Op.rename])
    readRun cands outs (fun i => applyOps fs0 (ops.take (sched i))) fuel = .done .miss ∨
    readRun cands outs (fun i => applyOps fs0 (ops.take (sched i))) fuel =
      readRun cands outs (fun _ => applyOps fs0 ops) fuel := by
  intro ops
  by_cases h0 : sched 0 < ops.length
  · left
    have habs := absent_before_rename fs0 hfresh ps M hM (sched 0) h0
    apply readRun_done_stable cands outs _ .miss 1 fuel _ hfuel
    simp only [readRun, readStep]
    rw [if_pos habs]
  · right
    apply readRun_congr
    intro i _
    have : ops.length ≤ sched i := Nat.le_trans (Nat.le_of_not_lt h0) (hmono 0 i (Nat.zero_le _))
    show applyOps fs0 (List.take (sched i) ops) = _
    rw [List.take_of_length_le this]

/-! ### compressed mode -/

theorem crashC_generic (dmg : Bool) (fs0 : CFS) (M : List COp) (hM : ∀ op ∈ M, op.tmpOnly = true) (outs : List Path) (n : Nat) :
    let ops := COp.rm .final :: (M ++ [COp.rename])
    let s := applyOpsC fs0 (ops.take n)
    retrieveC dmg s outs = .miss ∨ retrieveC dmg s outs = retrieveC dmg fs0 outs ∨
      retrieveC dmg s outs = retrieveC dmg (applyOpsC fs0 ops) outs := by
  intro ops s
  rcases take_phases ([] : List COp) (COp.rm .final) M COp.rename n with ⟨k, hk⟩ | ⟨j, hj⟩ | h
  · right; left
    have : s = fs0 := by
      show applyOpsC fs0 (List.take n ([] ++ COp.rm .final :: (M ++ [COp.rename]))) = fs0
      rw [hk, List.take_nil]; rfl
    rw [this]
  · left
    have : s .final = none := by
      show applyOpsC fs0 (List.take n ([] ++ COp.rm .final :: (M ++ [COp.rename]))) .final = none
      rw [hj, List.nil_append, applyOpsC_cons,
        applyOpsC_tmpOnly_final _ _ (fun op ho => hM op (List.mem_of_mem_take ho))]
      simp [applyC1]
    simp [retrieveC, this]
  · right; right
    show retrieveC dmg (applyOpsC fs0 (List.take n ([] ++ COp.rm .final :: (M ++ [COp.rename])))) outs = _
    rw [h]; rfl

theorem absentC_before_rename (fs0 : CFS) (hfresh : fs0 .final = none) (M : List COp)
    (hM : ∀ op ∈ M, op.tmpOnly = true) (n : Nat) (hn : n < (COp.rm .final :: (M ++ [COp.rename])).length) :
    applyOpsC fs0 ((COp.rm .final :: (M ++ [COp.rename])).take n) .final = none := by
  rcases take_phases ([] : List COp) (COp.rm .final) M COp.rename n with ⟨k, hk⟩ | ⟨j, hj⟩ | h
  · simp only [List.nil_append] at hk
    rw [hk, List.take_nil]; exact hfresh
  · simp only [List.nil_append] at hj
    rw [hj, applyOpsC_cons, applyOpsC_tmpOnly_final _ _ (fun op ho => hM op (List.mem_of_mem_take ho))]
    simp [applyC1]
  · exfalso
    simp only [List.nil_append] at h
    have := congrArg List.length h
    rw [List.length_take] at this
    omega

end PlzVerif.DirCache
