import PlzVerif.Model.TestCache
import PlzVerif.Lemmas.Build
import PlzVerif.Lemmas.BuildNoop
/-! Lemmas for C11: the history invariant of the results files and "reported outcome = outcome of the current
    runtime inputs".  Core only. -/
namespace PlzVerif.TestCache
open PlzVerif.Build
set_option linter.unusedSectionVars false
set_option linter.unusedSimpArgs false

variable {K A F N C S H A' S' G : Type}
variable [DecidableEq K] [DecidableEq S] [DecidableEq N] [DecidableEq H] [DecidableEq S'] [DecidableEq G]
variable (fx : Facts) (ruleSerRT : A' → S') (pathSer : C → H)
variable (outcome : A' → List (N × C) → Outcome)

/-- The runtime pre-image determines the runtime inputs, on the inputs satisfying `P`. -/
def InjOn (P : A' → List (N × C) → Prop) : Prop :=
  ∀ (g g' : G) a f a' f', P a f → P a' f' →
    runtimeSer fx ruleSerRT pathSer g a f = runtimeSer fx ruleSerRT pathSer g' a' f' → a = a' ∧ f = f'

/-- A stored result is a PASS and its stamp describes inputs (satisfying `P`) on which the test passes. -/
def Good (P : A' → List (N × C) → Prop) (s : Stored (RStamp S' G N H)) : Prop :=
  s.res = .pass ∧ ∃ (g : G) (a : A') (f : List (N × C)), P a f ∧ s.stamp = runtimeSer fx ruleSerRT pathSer g a f ∧ outcome a f = .pass

/-- History invariant of the results files. -/
def RInv (P : A' → List (N × C) → Prop) (res : Results K (RStamp S' G N H)) : Prop :=
  ∀ k s, res k = some s → Good fx ruleSerRT pathSer outcome P s

theorem rinv_empty (P : A' → List (N × C) → Prop) :
    RInv fx ruleSerRT pathSer outcome P (fun (_ : K) => (none : Option (Stored (RStamp S' G N H)))) := by
  intro k s h; simp at h

theorem rinv_restrict (P : A' → List (N × C) → Prop) (res : Results K (RStamp S' G N H)) (keep : K → Bool)
    (h : RInv fx ruleSerRT pathSer outcome P res) :
    RInv fx ruleSerRT pathSer outcome P (fun k => if keep k then res k else none) := by
  intro k s hk
  by_cases hkk : keep k = true
  · simp [hkk] at hk; exact h k s hk
  · simp [hkk] at hk

/-- What is in the results file after `testOne` is good (needs only the AllSucceeded guard of the store). -/
theorem testOne_stored_good (P : A' → List (N × C) → Prop) (hstore : fx.storeIfAllSucceeded = true)
    (fl : Flags) (bs : BState) (noOut : Bool) (g : G) (a : A') (files : List (N × C))
    (stored : Option (Stored (RStamp S' G N H)))
    (hg : ∀ s, stored = some s → Good fx ruleSerRT pathSer outcome P s) (hp : P a files) :
    ∀ s', (testOne fx outcome fl bs noOut a files (runtimeSer fx ruleSerRT pathSer g a files) stored).1 = some s' →
      Good fx ruleSerRT pathSer outcome P s' := by
  intro s' hs'
  unfold testOne at hs'
  simp only at hs'
  split at hs'
  · exact hg s' hs'
  · split at hs'
    · split at hs'
      · rename_i hst
        simp only [hstore, Bool.not_true, Bool.false_or, Bool.and_eq_true, beq_iff_eq] at hst
        simp only [Option.some.injEq] at hs'
        subst hs'
        refine ⟨?_, g, a, files, hp, rfl, hst.1.1⟩
        simp only [hst.1.1]; split <;> rfl
      · split at hs'
        · simp at hs'
        · exact hg s' hs'
    · split at hs'
      · simp at hs'
      · exact hg s' hs'

/-- The reported outcome is the outcome of the current runtime inputs (needs the hash check and injectivity). -/
theorem testOne_res (P : A' → List (N × C) → Prop) (hv : fx.verifiesHash = true)
    (hinj : InjOn (G := G) fx ruleSerRT pathSer P)
    (fl : Flags) (bs : BState) (noOut : Bool) (g : G) (a : A') (files : List (N × C))
    (stored : Option (Stored (RStamp S' G N H)))
    (hg : ∀ s, stored = some s → Good fx ruleSerRT pathSer outcome P s) (hp : P a files) :
    (testOne fx outcome fl bs noOut a files (runtimeSer fx ruleSerRT pathSer g a files) stored).2.res = outcome a files := by
  unfold testOne
  simp only
  split
  · rename_i o ho
    -- reused: the stored stamp equals the current pre-image
    split at ho
    · rename_i hreuse
      cases hst : stored with
      | none => simp [hst] at ho
      | some s =>
        simp only [hst] at ho
        have hs := hg s hst
        obtain ⟨hpass, g0, a0, f0, hp0, hstamp, hout⟩ := hs
        simp only [Bool.and_eq_true, Bool.not_eq_true'] at hreuse
        have hn := hreuse.2
        unfold needToRun at hn
        simp only [hst] at hn
        split at hn
        · simp at hn
        · split at hn
          · simp only [hv, Bool.true_and, bne_eq_false_iff_eq] at hn
            rw [hstamp] at hn
            obtain ⟨ha, hf⟩ := hinj g0 g a0 f0 a files hp0 hp hn
            subst ha; subst hf
            split at ho
            · simp at ho
            · simp only [Option.some.injEq] at ho
              simp only [← ho, hpass, hout]
          · simp at hn
    · simp at ho
  · split <;> rfl

/-- A result reported as cached is a pass (no injectivity: only the store guard). -/
theorem testOne_cached_pass (fl : Flags) (bs : BState) (noOut : Bool) (a : A') (files : List (N × C))
    {R : Type} [DecidableEq R] (h : R) (stored : Option (Stored R))
    (hg : ∀ s, stored = some s → s.res = .pass) :
    (testOne fx outcome fl bs noOut a files h stored).2.cached = true →
      (testOne fx outcome fl bs noOut a files h stored).2.res = .pass ∧
      (testOne fx outcome fl bs noOut a files h stored).2.runs = 0 ∧
      ∃ s, stored = some s ∧ s.res = .pass ∧ (fx.verifiesHash = true → s.stamp = h) := by
  unfold testOne
  simp only
  split
  · rename_i o ho
    intro _
    split at ho
    · rename_i hreuse
      cases hst : stored with
      | none => simp [hst] at ho
      | some s =>
        simp only [hst] at ho
        have hpass := hg s hst
        split at ho
        · simp at ho
        · simp only [Option.some.injEq] at ho
          refine ⟨by simp only [← ho, hpass], rfl, s, rfl, hpass, ?_⟩
          intro hv
          simp only [Bool.and_eq_true, Bool.not_eq_true'] at hreuse
          have hn := hreuse.2
          unfold needToRun at hn
          simp only [hst] at hn
          split at hn
          · simp at hn
          · split at hn
            · simpa [hv] using hn
            · simp at hn
    · simp at ho
  · split <;> simp

/-- A run that did not pass leaves no results file (RemoveTestOutputs + the store guard). -/
theorem testOne_not_pass_clears (hstore : fx.storeIfAllSucceeded = true) (hrm : fx.removesBefore = true)
    (fl : Flags) (bs : BState) (noOut : Bool) (a : A') (files : List (N × C))
    {R : Type} [DecidableEq R] (h : R) (stored : Option (Stored R))
    (hg : ∀ s, stored = some s → s.res = .pass)
    (hne : (testOne fx outcome fl bs noOut a files h stored).2.res ≠ .pass) :
    (testOne fx outcome fl bs noOut a files h stored).1 = none := by
  unfold testOne at hne ⊢
  simp only at hne ⊢
  split
  · rename_i o ho
    simp only [ho] at hne
    split at ho
    · cases hst : stored with
      | none => simp [hst] at ho
      | some s =>
        simp only [hst] at ho
        split at ho
        · simp at ho
        · simp only [Option.some.injEq] at ho
          exact absurd (ho ▸ hg s hst) hne
    · simp at ho
  · rename_i hnone
    simp only [hnone] at hne
    have ho : outcome a files ≠ .pass := by
      intro h'
      apply hne
      split <;> exact h'
    by_cases hnr : (fl.numRuns == 1) = true
    · have hst : ((!fx.storeIfAllSucceeded || outcome a files == .pass) && (!fx.storeIfNoFailures || outcome a files != .fail) &&
          (!fx.storeIfNoArgs || !fl.hasArgs)) = false := by
        simp [hstore, ho]
      simp only [hnr, if_true, hst, hrm]
      simp
    · simp only [hnr, hrm]
      simp

/-- With no results file the command is executed. -/
theorem testOne_none_runs (fl : Flags) (bs : BState) (noOut : Bool) (a : A') (files : List (N × C))
    {R : Type} [DecidableEq R] (h : R) (hn : fl.numRuns ≥ 1) :
    (testOne fx outcome fl bs noOut a files h none).2.runs ≥ 1 ∧
    (testOne fx outcome fl bs noOut a files h none).2.cached = false := by
  unfold testOne needToRun
  simp only
  split
  · rename_i o ho
    split at ho <;> simp at ho
  · split
    · simp
    · exact ⟨hn, rfl⟩

/-- The tests whose runtime inputs satisfy `P` (all of those the invocation would test). -/
def Adm (P : A' → List (N × C) → Prop) (r : TRepo K A F N C A' G) (tsel : K → Bool) (out' : Out K C S N H)
    (ts : List (Target K A F)) : Prop :=
  ∀ t ∈ ts, tsel t.key = true → ∀ td, r.tests t.key = some td → ∀ files,
    runtimeFiles r.repo r.ownName out' t.key td = some files → P td.rattrs files

/-- The outcomes a correct `plz test` reports: per requested test, the outcome on its current runtime inputs. -/
def expected (r : TRepo K A F N C A' G) (tsel : K → Bool) (out' : Out K C S N H) :
    List (Target K A F) → List (K × Option Outcome)
  | [] => []
  | t :: ts =>
    if tsel t.key then
      match r.tests t.key with
      | none => expected r tsel out' ts
      | some td => (t.key, (runtimeFiles r.repo r.ownName out' t.key td).map (outcome td.rattrs)) :: expected r tsel out' ts
    else expected r tsel out' ts

def outcomes (reps : List (K × Option Report)) : List (K × Option Outcome) :=
  reps.map (fun p => (p.1, p.2.map (·.res)))

theorem testList_spec (P : A' → List (N × C) → Prop) (hstore : fx.storeIfAllSucceeded = true)
    (r : TRepo K A F N C A' G) (tsel : K → Bool) (fl : Flags) (out0 out' : Out K C S N H) (ran : List K) :
    ∀ (ts : List (Target K A F)) (res : Results K (RStamp S' G N H)),
      RInv fx ruleSerRT pathSer outcome P res → Adm P r tsel out' ts →
      RInv fx ruleSerRT pathSer outcome P (testList fx ruleSerRT pathSer outcome r tsel fl out0 out' ran ts res).1 ∧
      (fx.verifiesHash = true → InjOn (G := G) fx ruleSerRT pathSer P →
        outcomes (testList fx ruleSerRT pathSer outcome r tsel fl out0 out' ran ts res).2 = expected outcome r tsel out' ts) := by
  intro ts
  induction ts with
  | nil => intro res h _; exact ⟨h, fun _ _ => rfl⟩
  | cons t ts ih =>
    intro res hinv hadm
    have hadm' : Adm P r tsel out' ts := fun t' ht' => hadm t' (List.mem_cons_of_mem _ ht')
    by_cases hs : tsel t.key = true
    · cases htd : r.tests t.key with
      | none =>
        have := ih res hinv hadm'
        simpa [testList, expected, hs, htd] using this
      | some td =>
        cases hf : runtimeFiles r.repo r.ownName out' t.key td with
        | none =>
          obtain ⟨h1, h2⟩ := ih res hinv hadm'
          refine ⟨by simpa [testList, hs, htd, hf] using h1, ?_⟩
          intro hv hi
          have := h2 hv hi
          simp only [testList, expected, hs, htd, hf, if_true, outcomes, List.map_cons, Option.map_none] at this ⊢
          rw [← this]
        | some files =>
          have hp : P td.rattrs files := hadm t (List.mem_cons_self ..) hs td htd files hf
          have hg : ∀ s, res t.key = some s → Good fx ruleSerRT pathSer outcome P s := fun s hs' => hinv t.key s hs'
          have hinv' : RInv fx ruleSerRT pathSer outcome P (fun j => if j = t.key then
              (testOne fx outcome fl (bstateOf pathSer out0 out' ran t.key) td.dummy td.rattrs files
                (runtimeSer fx ruleSerRT pathSer r.cfg td.rattrs files) (res t.key)).1 else res j) := by
            intro j s hj
            by_cases hjk : j = t.key
            · simp only [hjk, if_true] at hj
              exact testOne_stored_good fx ruleSerRT pathSer outcome P hstore fl _ td.dummy r.cfg td.rattrs files
                (res t.key) hg hp s hj
            · simp only [hjk, if_false] at hj
              exact hinv j s hj
          obtain ⟨h1, h2⟩ := ih _ hinv' hadm'
          refine ⟨by simpa [testList, hs, htd, hf] using h1, ?_⟩
          intro hv hi
          have h3 := h2 hv hi
          have h4 := testOne_res fx ruleSerRT pathSer outcome P hv hi fl (bstateOf pathSer out0 out' ran t.key)
            td.dummy r.cfg td.rattrs files (res t.key) hg hp
          simp only [testList, expected, hs, htd, hf, if_true, outcomes, List.map_cons, Option.map_some] at h3 ⊢
          rw [← h3, h4]
    · simp only [Bool.not_eq_true] at hs
      have := ih res hinv hadm'
      simpa [testList, expected, hs] using this

/-- Content agreement of two plz-outs on a set of keys. -/
def AgreeOn (ks : List K) (out out' : Out K C S N H) : Prop :=
  ∀ k ∈ ks, (out k).map Prod.fst = (out' k).map Prod.fst

theorem dataMap_congr (r : Repo K A F N C) (out out' : Out K C S N H) (ks : List K) (hag : AgreeOn ks out out') :
    ∀ (ds : List (F ⊕ K)), (∀ l, Sum.inr l ∈ ds → l ∈ ks) →
      ds.mapM (dataEntry r out) = ds.mapM (dataEntry r out') := by
  intro ds
  induction ds with
  | nil => intro _; rfl
  | cons d ds ih =>
    intro h
    have ih' := ih (fun l hl => h l (List.mem_cons_of_mem _ hl))
    simp only [List.mapM_cons, ih']
    cases d with
    | inl f => rfl
    | inr l =>
      have := hag l (h l (List.mem_cons_self ..))
      simp only [dataEntry]
      cases h1 : out l <;> cases h2 : out' l <;> simp_all

theorem runtimeFiles_congr (r : Repo K A F N C) (ownName : K → N) (out out' : Out K C S N H) (ks : List K)
    (hag : AgreeOn ks out out')
    (k : K) (td : TestDef K F A') (hown : td.own = true → k ∈ ks) (hdata : ∀ l, Sum.inr l ∈ td.data → l ∈ ks) :
    runtimeFiles r ownName out k td = runtimeFiles r ownName out' k td := by
  unfold runtimeFiles
  rw [dataMap_congr r out out' ks hag td.data hdata]
  have : ownEntry ownName out k td.own = ownEntry ownName out' k td.own := by
    unfold ownEntry
    by_cases ho : td.own = true
    · have := hag k (hown ho)
      simp only [ho, if_true]
      cases h1 : out k <;> cases h2 : out' k <;> simp_all
    · simp [ho]
  rw [this]

/-- The runtime files of every requested test are read from built targets of the invocation's closure. -/
def DataClosed (r : TRepo K A F N C A' G) (tsel : K → Bool) (ks : List K) : Prop :=
  ∀ t ∈ r.repo.targets, tsel t.key = true → ∀ td, r.tests t.key = some td →
    (td.own = true → t.key ∈ ks) ∧ ∀ l, Sum.inr l ∈ td.data → l ∈ ks

theorem expected_congr (r : TRepo K A F N C A' G) (tsel : K → Bool) (out out' : Out K C S N H) (ks : List K)
    (hag : AgreeOn ks out out') :
    ∀ (ts : List (Target K A F)),
      (∀ t ∈ ts, tsel t.key = true → ∀ td, r.tests t.key = some td →
        (td.own = true → t.key ∈ ks) ∧ ∀ l, Sum.inr l ∈ td.data → l ∈ ks) →
      expected outcome r tsel out ts = expected outcome r tsel out' ts := by
  intro ts
  induction ts with
  | nil => intro _; rfl
  | cons t ts ih =>
    intro h
    have ih' := ih (fun t' ht' => h t' (List.mem_cons_of_mem _ ht'))
    by_cases hs : tsel t.key = true
    · cases htd : r.tests t.key with
      | none => simp [expected, hs, htd, ih']
      | some td =>
        obtain ⟨h1, h2⟩ := h t (List.mem_cons_self ..) hs td htd
        simp [expected, hs, htd, ih', runtimeFiles_congr r.repo r.ownName out out' ks hag t.key td h1 h2]
    · simp only [Bool.not_eq_true] at hs
      simp [expected, hs, ih']

/-- Every report marked cached is a pass that executed nothing. -/
theorem testList_cached_pass (P : A' → List (N × C) → Prop) (hstore : fx.storeIfAllSucceeded = true)
    (r : TRepo K A F N C A' G) (tsel : K → Bool) (fl : Flags) (out0 out' : Out K C S N H) (ran : List K) :
    ∀ (ts : List (Target K A F)) (res : Results K (RStamp S' G N H)),
      RInv fx ruleSerRT pathSer outcome P res → Adm P r tsel out' ts →
      ∀ k rep, (k, some rep) ∈ (testList fx ruleSerRT pathSer outcome r tsel fl out0 out' ran ts res).2 →
        rep.cached = true → rep.res = .pass ∧ rep.runs = 0 := by
  intro ts
  induction ts with
  | nil => intro res _ _ k rep hm; simp [testList] at hm
  | cons t ts ih =>
    intro res hinv hadm k rep hm hc
    have hadm' : Adm P r tsel out' ts := fun t' ht' => hadm t' (List.mem_cons_of_mem _ ht')
    by_cases hs : tsel t.key = true
    · cases htd : r.tests t.key with
      | none =>
        simp only [testList, hs, htd, if_true] at hm
        exact ih res hinv hadm' k rep hm hc
      | some td =>
        cases hf : runtimeFiles r.repo r.ownName out' t.key td with
        | none =>
          simp only [testList, hs, htd, hf, if_true, List.mem_cons, Prod.mk.injEq, reduceCtorEq, and_false, false_or] at hm
          exact ih res hinv hadm' k rep hm hc
        | some files =>
          have hp : P td.rattrs files := hadm t (List.mem_cons_self ..) hs td htd files hf
          have hg : ∀ s, res t.key = some s → Good fx ruleSerRT pathSer outcome P s := fun s hs' => hinv t.key s hs'
          have hinv' : RInv fx ruleSerRT pathSer outcome P (fun j => if j = t.key then
              (testOne fx outcome fl (bstateOf pathSer out0 out' ran t.key) td.dummy td.rattrs files
                (runtimeSer fx ruleSerRT pathSer r.cfg td.rattrs files) (res t.key)).1 else res j) := by
            intro j s hj
            by_cases hjk : j = t.key
            · simp only [hjk, if_true] at hj
              exact testOne_stored_good fx ruleSerRT pathSer outcome P hstore fl _ td.dummy r.cfg td.rattrs files
                (res t.key) hg hp s hj
            · simp only [hjk, if_false] at hj
              exact hinv j s hj
          simp only [testList, hs, htd, hf, if_true, List.mem_cons, Prod.mk.injEq, Option.some.injEq] at hm
          rcases hm with ⟨_, hrep⟩ | hm
          · subst hrep
            have := testOne_cached_pass fx outcome fl (bstateOf pathSer out0 out' ran t.key) td.dummy td.rattrs files
              (runtimeSer fx ruleSerRT pathSer r.cfg td.rattrs files) (res t.key) (fun s hs' => (hg s hs').1) hc
            exact ⟨this.1, this.2.1⟩
          · exact ih _ hinv' hadm' k rep hm hc
    · simp only [Bool.not_eq_true] at hs
      simp only [testList, hs] at hm
      exact ih res hinv hadm' k rep (by simpa using hm) hc

theorem fst_snd_ext {α β} : ∀ (l l' : List (α × β)), l.map Prod.fst = l'.map Prod.fst → l.map Prod.snd = l'.map Prod.snd → l = l'
  | [], [], _, _ => rfl
  | [], _ :: _, h, _ => by simp at h
  | _ :: _, [], h, _ => by simp at h
  | a :: l, b :: l', h1, h2 => by
    simp only [List.map_cons, List.cons.injEq] at h1 h2
    rw [Prod.ext h1.1 h2.1, fst_snd_ext l l' h1.2 h2.2]

/-- If the names of the runtime files are determined by the runtime attributes (e.g. every data entry is a source
    file: its name is written into the rule pre-image), the pre-image as coded determines the runtime inputs —
    given C08's and C09's statements for the rule and path pre-images. -/
theorem injOn_of_names (hr : fx.hashesRule = true) (hf : fx.hashesFiles = true)
    (hRT : Function.Injective ruleSerRT) (hP : Function.Injective pathSer) (names : A' → List N) :
    InjOn (G := G) fx ruleSerRT pathSer (fun a f => f.map Prod.fst = names a) := by
  intro g g' a f a' f' hp hp' h
  simp only [runtimeSer, hr, hf, if_true, RStamp.mk.injEq, Option.some.injEq] at h
  have ha : a = a' := hRT h.1
  subst ha
  refine ⟨rfl, fst_snd_ext f f' (by rw [hp, hp']) ?_⟩
  have h3 : (f.map (fun p => pathSer p.2)) = (f'.map (fun p => pathSer p.2)) := by
    have := congrArg (List.map (fun (q : Option N × Option H) => q.2)) h.2.2
    have h3' : (f.map (fun p => pathSer p.2)).map some = (f'.map (fun p => pathSer p.2)).map some := by
      simpa [List.map_map, Function.comp_def] using this
    exact map_inj (fun _ _ e => Option.some.inj e) h3'
  have h4 : (f.map Prod.snd).map pathSer = (f'.map Prod.snd).map pathSer := by
    simpa [List.map_map, Function.comp_def] using h3
  exact map_inj hP h4

/-- Were the entry names written into the runtime hash, it would determine the runtime inputs outright. -/
theorem injOn_of_hashesNames (hr : fx.hashesRule = true) (hf : fx.hashesFiles = true) (hn : fx.hashesNames = true)
    (hRT : Function.Injective ruleSerRT) (hP : Function.Injective pathSer) :
    InjOn (G := G) fx ruleSerRT pathSer (fun (_ : A') (_ : List (N × C)) => True) := by
  intro g g' a f a' f' _ _ h
  simp only [runtimeSer, hr, hf, hn, if_true, RStamp.mk.injEq, Option.some.injEq] at h
  refine ⟨hRT h.1, ?_⟩
  refine map_inj (f := fun (p : N × C) => (some p.1, some (pathSer p.2))) ?_ h.2.2
  intro p q hpq
  simp only [Prod.mk.injEq, Option.some.injEq] at hpq
  exact Prod.ext hpq.1 (hP hpq.2)

variable (bfx : Build.Facts) (mv : C → C → C) (exec : A → List (N × C) → C) (ruleSer : A → S)

/-- Admissibility of a whole history: at every `plz test` the runtime inputs of the tested targets satisfy `P`. -/
def AdmHist (P : A' → List (N × C) → Prop) :
    List (TOp K A F N C A' G) → TState K C S N H (RStamp S' G N H) → Prop
  | [], _ => True
  | .test r sel tsel fl :: ops, st =>
    Adm P r tsel (build bfx mv exec ruleSer pathSer r.repo sel st.out).1 r.repo.targets ∧
    AdmHist P ops (testAll fx ruleSerRT pathSer outcome bfx mv exec ruleSer r sel tsel fl st).1
  | .build r sel :: ops, st => AdmHist P ops ⟨(build bfx mv exec ruleSer pathSer r sel st.out).1, st.res⟩
  | .rmOut keep :: ops, st => AdmHist P ops ⟨fun k => if keep k then st.out k else none, st.res⟩
  | .rmRes keep :: ops, st => AdmHist P ops ⟨st.out, fun k => if keep k then st.res k else none⟩

theorem admHist_true : ∀ (ops : List (TOp K A F N C A' G)) (st : TState K C S N H (RStamp S' G N H)),
    AdmHist fx ruleSerRT pathSer outcome bfx mv exec ruleSer (fun _ _ => True) ops st := by
  intro ops
  induction ops with
  | nil => intro _; trivial
  | cons op ops ih =>
    intro st
    cases op with
    | test r sel tsel fl => exact ⟨fun _ _ _ _ _ _ _ => trivial, ih _⟩
    | build r sel => exact ih _
    | rmOut keep => exact ih _
    | rmRes keep => exact ih _

/-- Every history keeps the results invariant (no injectivity needed) … -/
theorem runHistT_rinv (P : A' → List (N × C) → Prop) (hstore : fx.storeIfAllSucceeded = true) :
    ∀ (ops : List (TOp K A F N C A' G)) (st : TState K C S N H (RStamp S' G N H)),
      RInv fx ruleSerRT pathSer outcome P st.res → AdmHist fx ruleSerRT pathSer outcome bfx mv exec ruleSer P ops st →
      RInv fx ruleSerRT pathSer outcome P (runHistT fx ruleSerRT pathSer outcome bfx mv exec ruleSer ops st).res := by
  intro ops
  induction ops with
  | nil => intro st h _; exact h
  | cons op ops ih =>
    intro st h hadm
    cases op with
    | test r sel tsel fl =>
      obtain ⟨ha, hrest⟩ := hadm
      refine ih _ ?_ hrest
      exact (testList_spec fx ruleSerRT pathSer outcome P hstore r tsel fl st.out _ _ r.repo.targets st.res h ha).1
    | build r sel => exact ih _ h hadm
    | rmOut keep => exact ih _ h hadm
    | rmRes keep => exact ih _ (rinv_restrict fx ruleSerRT pathSer outcome P st.res keep h) hadm

/-- … and the build invariant of plz-out (needs `pathSer` injective, as in C01). -/
theorem runHistT_inv (hmv : MvOK pathSer mv) (hP : Function.Injective pathSer) :
    ∀ (ops : List (TOp K A F N C A' G)) (st : TState K C S N H (RStamp S' G N H)),
      Inv exec ruleSer pathSer st.out →
      Inv exec ruleSer pathSer (runHistT fx ruleSerRT pathSer outcome bfx mv exec ruleSer ops st).out := by
  intro ops
  induction ops with
  | nil => intro st h; exact h
  | cons op ops ih =>
    intro st h
    cases op with
    | test r sel tsel fl => exact ih _ (buildList_inv bfx mv exec ruleSer pathSer hmv hP r.repo sel r.repo.targets st.out h)
    | build r sel => exact ih _ (buildList_inv bfx mv exec ruleSer pathSer hmv hP r sel r.targets st.out h)
    | rmOut keep => exact ih _ (inv_restrict exec ruleSer pathSer st.out keep h)
    | rmRes keep => exact ih _ h

end PlzVerif.TestCache
