import PlzVerif.Model.TestCache
import PlzVerif.Lemmas.Build
import PlzVerif.Lemmas.BuildNoop
import PlzVerif.Lemmas.BuildCache
/-! Lemmas for C11: the history invariant of the results files and "reported outcome = outcome of the current
    runtime inputs".  Core only. -/
namespace PlzVerif.TestCache
open PlzVerif.Build
set_option linter.unusedSectionVars false
set_option linter.unusedSimpArgs false

variable {K A F N C S H A' S' G : Type}
variable [DecidableEq K] [DecidableEq S] [DecidableEq N] [DecidableEq H] [DecidableEq S'] [DecidableEq G]
variable (fx : Facts) (ruleSerRT : A' → S') (pathSer : C → H)
variable (outcome : A' → List (N × C) → Outcome)

/-- The runtime pre-image determines the runtime inputs, on the inputs satisfying `P`. -/
def InjOn (P : A' → List (N × C) → Prop) : Prop :=
  ∀ (g g' : G) a f a' f', P a f → P a' f' →
    runtimeSer fx ruleSerRT pathSer g a f = runtimeSer fx ruleSerRT pathSer g' a' f' → a = a' ∧ f = f'

/-- A stored result is a PASS and its stamp describes inputs (satisfying `P`) on which the test passes. -/
def Good (P : A' → List (N × C) → Prop) (s : Stored (RStamp S' G N H)) : Prop :=
  s.res = .pass ∧ ∃ (g : G) (a : A') (f : List (N × C)), P a f ∧ s.stamp = runtimeSer fx ruleSerRT pathSer g a f ∧ outcome a f = .pass

/-- History invariant of the results files. -/
def RInv (P : A' → List (N × C) → Prop) (res : Results K (RStamp S' G N H)) : Prop :=
  ∀ k s, res k = some s → Good fx ruleSerRT pathSer outcome P s

theorem rinv_empty (P : A' → List (N × C) → Prop) :
    RInv fx ruleSerRT pathSer outcome P (fun (_ : K) => (none : Option (Stored (RStamp S' G N H)))) := by
  intro k s h; simp at h

theorem rinv_restrict (P : A' → List (N × C) → Prop) (res : Results K (RStamp S' G N H)) (keep : K → Bool)
    (h : RInv fx ruleSerRT pathSer outcome P res) :
    RInv fx ruleSerRT pathSer outcome P (fun k => if keep k then res k else none) := by
  intro k s hk
  by_cases hkk : keep k = true
  · simp [hkk] at hk; exact h k s hk
  · simp [hkk] at hk

/-- Invariant of the results files held by the artifact cache: filed under their own hash, and good. -/
def RCInv (P : A' → List (N × C) → Prop) (rc : RCache K (RStamp S' G N H)) : Prop :=
  ∀ k h s, rc (k, h) = some s → s.stamp = h ∧ Good fx ruleSerRT pathSer outcome P s

theorem rcinv_empty (P : A' → List (N × C) → Prop) :
    RCInv fx ruleSerRT pathSer outcome P (fun (_ : K × RStamp S' G N H) => (none : Option (Stored (RStamp S' G N H)))) := by
  intro k h s hh; simp at hh

theorem rcinv_restrict (P : A' → List (N × C) → Prop) (rc : RCache K (RStamp S' G N H)) (keep : K × RStamp S' G N H → Bool)
    (h : RCInv fx ruleSerRT pathSer outcome P rc) :
    RCInv fx ruleSerRT pathSer outcome P (fun q => if keep q then rc q else none) := by
  intro k hh s hk
  by_cases hkk : keep (k, hh) = true
  · simp [hkk] at hk; exact h k hh s hk
  · simp [hkk] at hk

section one
variable {R : Type} [DecidableEq R]

/-- When `needToRun` says no, the results file it leaves is either the stored one (whose recorded hash was
    compared with the current one) or the one just retrieved from the cache. -/
theorem needToRun_false (fl : Flags) (bs : BState) (stored hit : Option (Stored R)) (h : R) (f : Option (Stored R))
    (hn : needToRun fx fl bs stored h hit = (false, f)) :
    (∃ s, stored = some s ∧ f = some s ∧ (fx.verifiesHash = true → s.stamp = h)) ∨ (∃ c, hit = some c ∧ f = some c) := by
  unfold needToRun at hn
  by_cases hf : (fx.rerunForces && fl.rerun) = true
  · rw [if_pos hf] at hn; simp at hn
  · rw [if_neg hf] at hn
    split at hn
    · rename_i s _
      simp only [Prod.mk.injEq] at hn
      refine Or.inl ⟨s, rfl, hn.2.symm, ?_⟩
      intro hv
      simpa [hv] using hn.1
    · split at hn
      · rename_i c
        simp only [Prod.mk.injEq, true_and] at hn
        exact Or.inr ⟨c, rfl, hn.symm⟩
      · simp at hn

/-- The results file `needToRun` leaves is the stored one, or the one retrieved from the cache. -/
theorem needToRun_snd (fl : Flags) (bs : BState) (stored hit : Option (Stored R)) (h : R) :
    (needToRun fx fl bs stored h hit).2 = stored ∨ ∃ c, hit = some c ∧ (needToRun fx fl bs stored h hit).2 = some c := by
  unfold needToRun
  by_cases hf : (fx.rerunForces && fl.rerun) = true
  · rw [if_pos hf]; exact Or.inl rfl
  · rw [if_neg hf]
    split
    · exact Or.inl rfl
    · split
      · rename_i c; exact Or.inr ⟨c, rfl, rfl⟩
      · exact Or.inl rfl

theorem afterNeedToRun_snd (fl : Flags) (bs : BState) (stored hit : Option (Stored R)) (h : R) :
    (afterNeedToRun fx fl bs stored h hit).2 = stored ∨
    ∃ c, hit = some c ∧ (afterNeedToRun fx fl bs stored h hit).2 = some c := by
  unfold afterNeedToRun
  split
  · exact needToRun_snd fx fl bs stored hit h
  · exact Or.inl rfl

theorem reused_some (fl : Flags) (bs : BState) (stored hit : Option (Stored R)) (h : R) (s : Stored R)
    (hr : reused fx fl bs stored h hit = some s) :
    (stored = some s ∧ (fx.verifiesHash = true → s.stamp = h)) ∨ hit = some s := by
  unfold reused at hr
  split at hr
  · rename_i s0 heq
    split at hr
    · simp at hr
    · simp only [Option.some.injEq] at hr
      subst hr
      unfold afterNeedToRun at heq
      split at heq
      · rcases needToRun_false fx fl bs stored hit h _ heq with ⟨s1, h1, h2, h3⟩ | ⟨c, h1, h2⟩
        · simp only [Option.some.injEq] at h2; subst h2; exact Or.inl ⟨h1, h3⟩
        · simp only [Option.some.injEq] at h2; subst h2; exact Or.inr h1
      · simp at heq
  · simp at hr

/-- Facts about a real run of the command. -/
theorem runTest_spec (fl : Flags) (dummy : Bool) (a : A') (files : List (N × C)) (h : R) (file1 : Option (Stored R)) :
    (runTest fx outcome fl dummy a files h file1).2.2.res = outcome a files ∧
    (runTest fx outcome fl dummy a files h file1).2.2.cached = false ∧
    (runTest fx outcome fl dummy a files h file1).2.2.runs = (if fl.numRuns == 1 then 1 else fl.numRuns) ∧
    (∀ s', (runTest fx outcome fl dummy a files h file1).2.1 = some s' →
      (runTest fx outcome fl dummy a files h file1).1 = some s' ∧ s'.stamp = h ∧
      (fx.storeIfAllSucceeded = true → outcome a files = .pass ∧ s'.res = .pass)) ∧
    (∀ s', (runTest fx outcome fl dummy a files h file1).1 = some s' →
      (runTest fx outcome fl dummy a files h file1).2.1 = some s' ∨ (fx.removesBefore = false ∧ file1 = some s')) := by
  unfold runTest
  by_cases hnr : (fl.numRuns == 1) = true
  · simp only [hnr, if_true]
    split
    · rename_i hst
      refine ⟨rfl, rfl, rfl, ?_, ?_⟩
      · intro s' hs'
        simp only [Option.some.injEq] at hs'
        subst hs'
        refine ⟨rfl, rfl, ?_⟩
        intro hsa
        simp only [hsa, Bool.not_true, Bool.false_or, Bool.and_eq_true, beq_iff_eq] at hst
        refine ⟨hst.1.1, ?_⟩
        simp only [hst.1.1]; split <;> rfl
      · intro s' hs'; exact Or.inl hs'
    · refine ⟨rfl, rfl, rfl, ?_, ?_⟩
      · intro s' hs'; simp at hs'
      · intro s' hs'
        right
        by_cases hrm : fx.removesBefore = true
        · simp [hrm] at hs'
        · simp only [hrm] at hs'
          exact ⟨by simpa using hrm, by simpa using hs'⟩
  · simp only [hnr]
    refine ⟨rfl, rfl, rfl, ?_, ?_⟩
    · intro s' hs'; simp at hs'
    · intro s' hs'
      right
      by_cases hrm : fx.removesBefore = true
      · simp [hrm] at hs'
      · simp only [hrm] at hs'
        exact ⟨by simpa using hrm, by simpa using hs'⟩

/-- `testOne` either reports a reused result (from the results file or the cache) or runs the command. -/
theorem testOne_cases (fl : Flags) (bs : BState) (dummy : Bool) (a : A') (files : List (N × C)) (h : R)
    (stored hit : Option (Stored R)) :
    (∃ s, ((stored = some s ∧ (fx.verifiesHash = true → s.stamp = h)) ∨ hit = some s) ∧
        testOne fx outcome fl bs dummy a files h stored hit = (some s, none, ⟨s.res, true, 0⟩)) ∨
    ((testOne fx outcome fl bs dummy a files h stored hit).2.2.res = outcome a files ∧
     (testOne fx outcome fl bs dummy a files h stored hit).2.2.cached = false ∧
     (testOne fx outcome fl bs dummy a files h stored hit).2.2.runs = (if fl.numRuns == 1 then 1 else fl.numRuns) ∧
     (∀ s', (testOne fx outcome fl bs dummy a files h stored hit).2.1 = some s' →
        (testOne fx outcome fl bs dummy a files h stored hit).1 = some s' ∧ s'.stamp = h ∧
        (fx.storeIfAllSucceeded = true → outcome a files = .pass ∧ s'.res = .pass)) ∧
     (∀ s', (testOne fx outcome fl bs dummy a files h stored hit).1 = some s' →
        (testOne fx outcome fl bs dummy a files h stored hit).2.1 = some s' ∨
        (fx.removesBefore = false ∧ (stored = some s' ∨ hit = some s')))) := by
  unfold testOne
  cases hr : reused fx fl bs stored h hit with
  | some s => exact Or.inl ⟨s, reused_some fx fl bs stored hit h s hr, rfl⟩
  | none =>
    right
    obtain ⟨h1, h2, h3, h4, h5⟩ := runTest_spec fx outcome fl dummy a files h (afterNeedToRun fx fl bs stored h hit).2
    refine ⟨h1, h2, h3, h4, ?_⟩
    intro s' hs'
    rcases h5 s' hs' with h6 | ⟨h6, h7⟩
    · exact Or.inl h6
    · refine Or.inr ⟨h6, ?_⟩
      rcases afterNeedToRun_snd fx fl bs stored hit h with h8 | ⟨c, h8, h9⟩
      · rw [h8] at h7; exact Or.inl h7
      · rw [h9] at h7; exact Or.inr (h8.trans h7)

end one

/-- What `testOne` leaves in the results file and puts into the cache is good (needs only the AllSucceeded guard). -/
theorem testOne_stored_good (P : A' → List (N × C) → Prop) (hstore : fx.storeIfAllSucceeded = true)
    (fl : Flags) (bs : BState) (noOut : Bool) (g : G) (a : A') (files : List (N × C))
    (stored hit : Option (Stored (RStamp S' G N H)))
    (hg : ∀ s, stored = some s → Good fx ruleSerRT pathSer outcome P s)
    (hh : ∀ s, hit = some s → Good fx ruleSerRT pathSer outcome P s) (hp : P a files) :
    (∀ s', (testOne fx outcome fl bs noOut a files (runtimeSer fx ruleSerRT pathSer g a files) stored hit).1 = some s' →
      Good fx ruleSerRT pathSer outcome P s') ∧
    (∀ s', (testOne fx outcome fl bs noOut a files (runtimeSer fx ruleSerRT pathSer g a files) stored hit).2.1 = some s' →
      s'.stamp = runtimeSer fx ruleSerRT pathSer g a files ∧ Good fx ruleSerRT pathSer outcome P s') := by
  rcases testOne_cases fx outcome fl bs noOut a files (runtimeSer fx ruleSerRT pathSer g a files) stored hit with
    ⟨s, hs, he⟩ | ⟨_, _, _, h4, h5⟩
  · rw [he]
    refine ⟨?_, by intro s' hs'; simp at hs'⟩
    intro s' hs'
    simp only [Option.some.injEq] at hs'
    subst hs'
    rcases hs with ⟨h1, _⟩ | h1
    · exact hg _ h1
    · exact hh _ h1
  · have hnew : ∀ s', (testOne fx outcome fl bs noOut a files (runtimeSer fx ruleSerRT pathSer g a files) stored hit).2.1 = some s' →
        s'.stamp = runtimeSer fx ruleSerRT pathSer g a files ∧ Good fx ruleSerRT pathSer outcome P s' := by
      intro s' hs'
      obtain ⟨_, hst, hps⟩ := h4 s' hs'
      obtain ⟨ho, hr⟩ := hps hstore
      exact ⟨hst, hr, g, a, files, hp, hst, ho⟩
    refine ⟨?_, hnew⟩
    intro s' hs'
    rcases h5 s' hs' with h6 | ⟨_, h6 | h6⟩
    · exact (hnew s' h6).2
    · exact hg _ h6
    · exact hh _ h6

/-- The reported outcome is the outcome of the current runtime inputs (needs the hash check and injectivity). -/
theorem testOne_res (P : A' → List (N × C) → Prop) (hv : fx.verifiesHash = true)
    (hinj : InjOn (G := G) fx ruleSerRT pathSer P)
    (fl : Flags) (bs : BState) (noOut : Bool) (g : G) (a : A') (files : List (N × C))
    (stored hit : Option (Stored (RStamp S' G N H)))
    (hg : ∀ s, stored = some s → Good fx ruleSerRT pathSer outcome P s)
    (hh : ∀ s, hit = some s → s.stamp = runtimeSer fx ruleSerRT pathSer g a files ∧ Good fx ruleSerRT pathSer outcome P s)
    (hp : P a files) :
    (testOne fx outcome fl bs noOut a files (runtimeSer fx ruleSerRT pathSer g a files) stored hit).2.2.res = outcome a files := by
  rcases testOne_cases fx outcome fl bs noOut a files (runtimeSer fx ruleSerRT pathSer g a files) stored hit with
    ⟨s, hs, he⟩ | ⟨h1, _⟩
  · rw [he]
    have : s.stamp = runtimeSer fx ruleSerRT pathSer g a files ∧ Good fx ruleSerRT pathSer outcome P s := by
      rcases hs with ⟨h1, h2⟩ | h1
      · exact ⟨h2 hv, hg _ h1⟩
      · exact hh _ h1
    obtain ⟨hst, hpass, g0, a0, f0, hp0, hstamp, hout⟩ := this
    rw [hstamp] at hst
    obtain ⟨ha, hf⟩ := hinj g0 g a0 f0 a files hp0 hp hst
    subst ha; subst hf
    simp only [hpass, hout]
  · exact h1

/-- A result reported as cached is a pass, nothing was executed, and it came from a results file whose recorded
    hash equals the current one, or from the cache entry filed under the current hash. -/
theorem testOne_cached_pass (fl : Flags) (bs : BState) (noOut : Bool) (a : A') (files : List (N × C))
    {R : Type} [DecidableEq R] (h : R) (stored hit : Option (Stored R))
    (hg : ∀ s, stored = some s → s.res = .pass) (hh : ∀ s, hit = some s → s.res = .pass) :
    (testOne fx outcome fl bs noOut a files h stored hit).2.2.cached = true →
      (testOne fx outcome fl bs noOut a files h stored hit).2.2.res = .pass ∧
      (testOne fx outcome fl bs noOut a files h stored hit).2.2.runs = 0 ∧
      ∃ s, s.res = .pass ∧ ((stored = some s ∧ (fx.verifiesHash = true → s.stamp = h)) ∨ hit = some s) := by
  rcases testOne_cases fx outcome fl bs noOut a files h stored hit with ⟨s, hs, he⟩ | ⟨_, h2, _⟩
  · rw [he]
    intro _
    have hp : s.res = .pass := by
      rcases hs with ⟨h1, _⟩ | h1
      · exact hg _ h1
      · exact hh _ h1
    exact ⟨hp, rfl, s, hp, hs⟩
  · intro hc; rw [h2] at hc; simp at hc

/-- A run that did not pass leaves no results file (RemoveTestOutputs + the store guard). -/
theorem testOne_not_pass_clears (hstore : fx.storeIfAllSucceeded = true) (hrm : fx.removesBefore = true)
    (fl : Flags) (bs : BState) (noOut : Bool) (a : A') (files : List (N × C))
    {R : Type} [DecidableEq R] (h : R) (stored hit : Option (Stored R))
    (hg : ∀ s, stored = some s → s.res = .pass) (hh : ∀ s, hit = some s → s.res = .pass)
    (hne : (testOne fx outcome fl bs noOut a files h stored hit).2.2.res ≠ .pass) :
    (testOne fx outcome fl bs noOut a files h stored hit).1 = none ∧
    (testOne fx outcome fl bs noOut a files h stored hit).2.1 = none := by
  rcases testOne_cases fx outcome fl bs noOut a files h stored hit with ⟨s, hs, he⟩ | ⟨h1, _, _, h4, h5⟩
  · rw [he] at hne
    have hp : s.res = .pass := by
      rcases hs with ⟨h1, _⟩ | h1
      · exact hg _ h1
      · exact hh _ h1
    exact absurd hp hne
  · rw [h1] at hne
    have hc : (testOne fx outcome fl bs noOut a files h stored hit).2.1 = none := by
      cases hx : (testOne fx outcome fl bs noOut a files h stored hit).2.1 with
      | none => rfl
      | some s' => exact absurd ((h4 s' hx).2.2 hstore).1 hne
    refine ⟨?_, hc⟩
    cases hx : (testOne fx outcome fl bs noOut a files h stored hit).1 with
    | none => rfl
    | some s' =>
      rcases h5 s' hx with h6 | ⟨h6, _⟩
      · rw [hc] at h6; simp at h6
      · rw [hrm] at h6; simp at h6

/-- With no results file and nothing in the cache the command is executed. -/
theorem testOne_none_runs (fl : Flags) (bs : BState) (noOut : Bool) (a : A') (files : List (N × C))
    {R : Type} [DecidableEq R] (h : R) (hn : fl.numRuns ≥ 1) :
    (testOne fx outcome fl bs noOut a files h none none).2.2.runs ≥ 1 ∧
    (testOne fx outcome fl bs noOut a files h none none).2.2.cached = false := by
  rcases testOne_cases fx outcome fl bs noOut a files h none none with ⟨s, hs, _⟩ | ⟨_, h2, h3, _⟩
  · rcases hs with ⟨h1, _⟩ | h1 <;> simp at h1
  · refine ⟨?_, h2⟩
    rw [h3]; split <;> omega

/-- The tests whose runtime inputs satisfy `P` (all of those the invocation would test). -/
def Adm (P : A' → List (N × C) → Prop) (r : TRepo K A F N C A' G) (tsel : K → Bool) (out' : Out K C S N H)
    (ts : List (Target K A F)) : Prop :=
  ∀ t ∈ ts, tsel t.key = true → ∀ td, r.tests t.key = some td → ∀ files,
    runtimeFiles r.repo r.ownName out' t.key td = some files → P td.rattrs files

/-- The outcomes a correct `plz test` reports: per requested test, the outcome on its current runtime inputs. -/
def expected (r : TRepo K A F N C A' G) (tsel : K → Bool) (out' : Out K C S N H) :
    List (Target K A F) → List (K × Option Outcome)
  | [] => []
  | t :: ts =>
    if tsel t.key then
      match r.tests t.key with
      | none => expected r tsel out' ts
      | some td => (t.key, (runtimeFiles r.repo r.ownName out' t.key td).map (outcome td.rattrs)) :: expected r tsel out' ts
    else expected r tsel out' ts

def outcomes (reps : List (K × Option Report)) : List (K × Option Outcome) :=
  reps.map (fun p => (p.1, p.2.map (·.res)))

/-- The cache lookup of one test step, and the cache after it. -/
theorem hit_good (P : A' → List (N × C) → Prop) (rc : RCache K (RStamp S' G N H)) (on : Bool) (k : K) (h : RStamp S' G N H)
    (hrc : RCInv fx ruleSerRT pathSer outcome P rc) :
    ∀ s, (if on then rc (k, h) else none) = some s → s.stamp = h ∧ Good fx ruleSerRT pathSer outcome P s := by
  intro s hs
  cases on with
  | false => simp at hs
  | true => exact hrc k h s (by simpa using hs)

theorem rcinv_update (P : A' → List (N × C) → Prop) (rc : RCache K (RStamp S' G N H)) (on : Bool) (k : K) (h : RStamp S' G N H)
    (new : Option (Stored (RStamp S' G N H)))
    (hrc : RCInv fx ruleSerRT pathSer outcome P rc)
    (hnew : ∀ s, new = some s → s.stamp = h ∧ Good fx ruleSerRT pathSer outcome P s) :
    RCInv fx ruleSerRT pathSer outcome P (match new with
      | some s => if on then (fun q => if q = (k, h) then some s else rc q) else rc
      | none => rc) := by
  cases new with
  | none => exact hrc
  | some s =>
    cases on with
    | false => exact hrc
    | true =>
      intro k' h' s' hq
      simp only [if_true] at hq
      by_cases hqe : (k', h') = (k, h)
      · simp only [hqe, if_true, Option.some.injEq] at hq
        subst hq
        have := hnew s rfl
        simp only [Prod.mk.injEq] at hqe
        exact ⟨by rw [this.1, hqe.2], this.2⟩
      · simp only [hqe, if_false] at hq
        exact hrc k' h' s' hq

theorem testList_spec (P : A' → List (N × C) → Prop) (hstore : fx.storeIfAllSucceeded = true)
    (hlx : fx.linkXattr = false)
    (r : TRepo K A F N C A' G) (tsel : K → Bool) (fl : Flags) (out0 out' : Out K C S N H) (ran : List K) (xh : Nat → Option H) :
    ∀ (ts : List (Target K A F)) (res : Results K (RStamp S' G N H)) (rc : RCache K (RStamp S' G N H)),
      RInv fx ruleSerRT pathSer outcome P res → RCInv fx ruleSerRT pathSer outcome P rc → Adm P r tsel out' ts →
      RInv fx ruleSerRT pathSer outcome P (testList fx ruleSerRT pathSer outcome r tsel fl out0 out' ran xh ts res rc).1 ∧
      RCInv fx ruleSerRT pathSer outcome P (testList fx ruleSerRT pathSer outcome r tsel fl out0 out' ran xh ts res rc).2.1 ∧
      (fx.verifiesHash = true → InjOn (G := G) fx ruleSerRT pathSer P →
        outcomes (testList fx ruleSerRT pathSer outcome r tsel fl out0 out' ran xh ts res rc).2.2 = expected outcome r tsel out' ts) := by
  intro ts
  induction ts with
  | nil => intro res rc h hc _; exact ⟨h, hc, fun _ _ => rfl⟩
  | cons t ts ih =>
    intro res rc hinv hcinv hadm
    have hadm' : Adm P r tsel out' ts := fun t' ht' => hadm t' (List.mem_cons_of_mem _ ht')
    by_cases hs : tsel t.key = true
    · cases htd : r.tests t.key with
      | none =>
        have := ih res rc hinv hcinv hadm'
        simpa [testList, expected, hs, htd] using this
      | some td =>
        cases hf : runtimeFiles r.repo r.ownName out' t.key td with
        | none =>
          obtain ⟨h1, h1c, h2⟩ := ih res rc hinv hcinv hadm'
          refine ⟨by simpa [testList, hs, htd, hf] using h1, by simpa [testList, hs, htd, hf] using h1c, ?_⟩
          intro hv hi
          have := h2 hv hi
          simp only [testList, expected, hs, htd, hf, if_true, outcomes, List.map_cons, Option.map_none] at this ⊢
          rw [← this]
        | some files =>
          have hp : P td.rattrs files := hadm t (List.mem_cons_self ..) hs td htd files hf
          have hg : ∀ s, res t.key = some s → Good fx ruleSerRT pathSer outcome P s := fun s hs' => hinv t.key s hs'
          have hh := hit_good fx ruleSerRT pathSer outcome P rc r.cacheOn t.key
            (runtimeSer fx ruleSerRT pathSer r.cfg td.rattrs files) hcinv
          have hgood := testOne_stored_good fx ruleSerRT pathSer outcome P hstore fl
            (bstateOf pathSer out0 out' ran t.key) td.dummy r.cfg td.rattrs files (res t.key)
            (if r.cacheOn then rc (t.key, runtimeSer fx ruleSerRT pathSer r.cfg td.rattrs files) else none)
            hg (fun s hs' => (hh s hs').2) hp
          have hinv' : RInv fx ruleSerRT pathSer outcome P (fun j => if j = t.key then
              (testOne fx outcome fl (bstateOf pathSer out0 out' ran t.key) td.dummy td.rattrs files
                (runtimeSer fx ruleSerRT pathSer r.cfg td.rattrs files) (res t.key)
                (if r.cacheOn then rc (t.key, runtimeSer fx ruleSerRT pathSer r.cfg td.rattrs files) else none)).1 else res j) := by
            intro j s hj
            by_cases hjk : j = t.key
            · simp only [hjk, if_true] at hj
              exact hgood.1 s hj
            · simp only [hjk, if_false] at hj
              exact hinv j s hj
          have hcinv' := rcinv_update fx ruleSerRT pathSer outcome P rc r.cacheOn t.key
            (runtimeSer fx ruleSerRT pathSer r.cfg td.rattrs files) _ hcinv hgood.2
          obtain ⟨h1, h1c, h2⟩ := ih _ _ hinv' hcinv' hadm'
          refine ⟨by simp only [testList, hs, htd, hf, if_true, hlx, Bool.false_eq_true, if_false]; exact h1,
                  by simp only [testList, hs, htd, hf, if_true, hlx, Bool.false_eq_true, if_false]; exact h1c, ?_⟩
          intro hv hi
          have h3 := h2 hv hi
          have h4 := testOne_res fx ruleSerRT pathSer outcome P hv hi fl (bstateOf pathSer out0 out' ran t.key)
            td.dummy r.cfg td.rattrs files (res t.key) _ hg hh hp
          simp only [testList, expected, hs, htd, hf, if_true, hlx, Bool.false_eq_true, if_false, outcomes, List.map_cons, Option.map_some] at h3 ⊢
          rw [h4]
          exact congrArg (List.cons _) h3
    · simp only [Bool.not_eq_true] at hs
      have := ih res rc hinv hcinv hadm'
      simpa [testList, expected, hs] using this

/-- Content agreement of two plz-outs on a set of keys. -/
def AgreeOn (ks : List K) (out out' : Out K C S N H) : Prop :=
  ∀ k ∈ ks, (out k).map Prod.fst = (out' k).map Prod.fst

theorem dataMap_congr (r : Repo K A F N C) (out out' : Out K C S N H) (ks : List K) (hag : AgreeOn ks out out') :
    ∀ (ds : List (F ⊕ K)), (∀ l, Sum.inr l ∈ ds → l ∈ ks) →
      ds.mapM (dataEntry r out) = ds.mapM (dataEntry r out') := by
  intro ds
  induction ds with
  | nil => intro _; rfl
  | cons d ds ih =>
    intro h
    have ih' := ih (fun l hl => h l (List.mem_cons_of_mem _ hl))
    simp only [List.mapM_cons, ih']
    cases d with
    | inl f => rfl
    | inr l =>
      have := hag l (h l (List.mem_cons_self ..))
      simp only [dataEntry]
      cases h1 : out l <;> cases h2 : out' l <;> simp_all

theorem runtimeFiles_congr (r : Repo K A F N C) (ownName : K → N) (out out' : Out K C S N H) (ks : List K)
    (hag : AgreeOn ks out out')
    (k : K) (td : TestDef K F A') (hown : td.own = true → k ∈ ks) (hdata : ∀ l, Sum.inr l ∈ td.data → l ∈ ks) :
    runtimeFiles r ownName out k td = runtimeFiles r ownName out' k td := by
  unfold runtimeFiles
  rw [dataMap_congr r out out' ks hag td.data hdata]
  have : ownEntry ownName out k td.own = ownEntry ownName out' k td.own := by
    unfold ownEntry
    by_cases ho : td.own = true
    · have := hag k (hown ho)
      simp only [ho, if_true]
      cases h1 : out k <;> cases h2 : out' k <;> simp_all
    · simp [ho]
  rw [this]

/-- The runtime files of every requested test are read from built targets of the invocation's closure. -/
def DataClosed (r : TRepo K A F N C A' G) (tsel : K → Bool) (ks : List K) : Prop :=
  ∀ t ∈ r.repo.targets, tsel t.key = true → ∀ td, r.tests t.key = some td →
    (td.own = true → t.key ∈ ks) ∧ ∀ l, Sum.inr l ∈ td.data → l ∈ ks

theorem expected_congr (r : TRepo K A F N C A' G) (tsel : K → Bool) (out out' : Out K C S N H) (ks : List K)
    (hag : AgreeOn ks out out') :
    ∀ (ts : List (Target K A F)),
      (∀ t ∈ ts, tsel t.key = true → ∀ td, r.tests t.key = some td →
        (td.own = true → t.key ∈ ks) ∧ ∀ l, Sum.inr l ∈ td.data → l ∈ ks) →
      expected outcome r tsel out ts = expected outcome r tsel out' ts := by
  intro ts
  induction ts with
  | nil => intro _; rfl
  | cons t ts ih =>
    intro h
    have ih' := ih (fun t' ht' => h t' (List.mem_cons_of_mem _ ht'))
    by_cases hs : tsel t.key = true
    · cases htd : r.tests t.key with
      | none => simp [expected, hs, htd, ih']
      | some td =>
        obtain ⟨h1, h2⟩ := h t (List.mem_cons_self ..) hs td htd
        simp [expected, hs, htd, ih', runtimeFiles_congr r.repo r.ownName out out' ks hag t.key td h1 h2]
    · simp only [Bool.not_eq_true] at hs
      simp [expected, hs, ih']

/-- Every report marked cached is a pass that executed nothing. -/
theorem testList_cached_pass (P : A' → List (N × C) → Prop) (hstore : fx.storeIfAllSucceeded = true)
    (hlx : fx.linkXattr = false)
    (r : TRepo K A F N C A' G) (tsel : K → Bool) (fl : Flags) (out0 out' : Out K C S N H) (ran : List K) (xh : Nat → Option H) :
    ∀ (ts : List (Target K A F)) (res : Results K (RStamp S' G N H)) (rc : RCache K (RStamp S' G N H)),
      RInv fx ruleSerRT pathSer outcome P res → RCInv fx ruleSerRT pathSer outcome P rc → Adm P r tsel out' ts →
      ∀ k rep, (k, some rep) ∈ (testList fx ruleSerRT pathSer outcome r tsel fl out0 out' ran xh ts res rc).2.2 →
        rep.cached = true → rep.res = .pass ∧ rep.runs = 0 := by
  intro ts
  induction ts with
  | nil => intro res rc _ _ _ k rep hm; simp [testList] at hm
  | cons t ts ih =>
    intro res rc hinv hcinv hadm k rep hm hc
    have hadm' : Adm P r tsel out' ts := fun t' ht' => hadm t' (List.mem_cons_of_mem _ ht')
    by_cases hs : tsel t.key = true
    · cases htd : r.tests t.key with
      | none =>
        simp only [testList, hs, htd, if_true] at hm
        exact ih res rc hinv hcinv hadm' k rep hm hc
      | some td =>
        cases hf : runtimeFiles r.repo r.ownName out' t.key td with
        | none =>
          simp only [testList, hs, htd, hf, if_true, List.mem_cons, Prod.mk.injEq, reduceCtorEq, and_false, false_or] at hm
          exact ih res rc hinv hcinv hadm' k rep hm hc
        | some files =>
          have hp : P td.rattrs files := hadm t (List.mem_cons_self ..) hs td htd files hf
          have hg : ∀ s, res t.key = some s → Good fx ruleSerRT pathSer outcome P s := fun s hs' => hinv t.key s hs'
          have hh := hit_good fx ruleSerRT pathSer outcome P rc r.cacheOn t.key
            (runtimeSer fx ruleSerRT pathSer r.cfg td.rattrs files) hcinv
          have hgood := testOne_stored_good fx ruleSerRT pathSer outcome P hstore fl
            (bstateOf pathSer out0 out' ran t.key) td.dummy r.cfg td.rattrs files (res t.key)
            (if r.cacheOn then rc (t.key, runtimeSer fx ruleSerRT pathSer r.cfg td.rattrs files) else none)
            hg (fun s hs' => (hh s hs').2) hp
          have hinv' : RInv fx ruleSerRT pathSer outcome P (fun j => if j = t.key then
              (testOne fx outcome fl (bstateOf pathSer out0 out' ran t.key) td.dummy td.rattrs files
                (runtimeSer fx ruleSerRT pathSer r.cfg td.rattrs files) (res t.key)
                (if r.cacheOn then rc (t.key, runtimeSer fx ruleSerRT pathSer r.cfg td.rattrs files) else none)).1 else res j) := by
            intro j s hj
            by_cases hjk : j = t.key
            · simp only [hjk, if_true] at hj
              exact hgood.1 s hj
            · simp only [hjk, if_false] at hj
              exact hinv j s hj
          have hcinv' := rcinv_update fx ruleSerRT pathSer outcome P rc r.cacheOn t.key
            (runtimeSer fx ruleSerRT pathSer r.cfg td.rattrs files) _ hcinv hgood.2
          simp only [testList, hs, htd, hf, if_true, hlx, Bool.false_eq_true, if_false, List.mem_cons, Prod.mk.injEq, Option.some.injEq] at hm
          rcases hm with ⟨_, hrep⟩ | hm
          · subst hrep
            have := testOne_cached_pass fx outcome fl (bstateOf pathSer out0 out' ran t.key) td.dummy td.rattrs files
              (runtimeSer fx ruleSerRT pathSer r.cfg td.rattrs files) (res t.key)
              (if r.cacheOn then rc (t.key, runtimeSer fx ruleSerRT pathSer r.cfg td.rattrs files) else none)
              (fun s hs' => (hg s hs').1) (fun s hs' => (hh s hs').2.1) hc
            exact ⟨this.1, this.2.1⟩
          · exact ih _ _ hinv' hcinv' hadm' k rep hm hc
    · simp only [Bool.not_eq_true] at hs
      simp only [testList, hs] at hm
      exact ih res rc hinv hcinv hadm' k rep (by simpa using hm) hc

theorem fst_snd_ext {α β} : ∀ (l l' : List (α × β)), l.map Prod.fst = l'.map Prod.fst → l.map Prod.snd = l'.map Prod.snd → l = l'
  | [], [], _, _ => rfl
  | [], _ :: _, h, _ => by simp at h
  | _ :: _, [], h, _ => by simp at h
  | a :: l, b :: l', h1, h2 => by
    simp only [List.map_cons, List.cons.injEq] at h1 h2
    rw [Prod.ext h1.1 h2.1, fst_snd_ext l l' h1.2 h2.2]

/-- If the names of the runtime files are determined by the runtime attributes (e.g. every data entry is a source
    file: its name is written into the rule pre-image), the pre-image as coded determines the runtime inputs —
    given C08's and C09's statements for the rule and path pre-images. -/
theorem injOn_of_names (hr : fx.hashesRule = true) (hf : fx.hashesFiles = true)
    (hRT : Function.Injective ruleSerRT) (hP : Function.Injective pathSer) (names : A' → List N) :
    InjOn (G := G) fx ruleSerRT pathSer (fun a f => f.map Prod.fst = names a) := by
  intro g g' a f a' f' hp hp' h
  simp only [runtimeSer, hr, hf, if_true, RStamp.mk.injEq, Option.some.injEq] at h
  have ha : a = a' := hRT h.1
  subst ha
  refine ⟨rfl, fst_snd_ext f f' (by rw [hp, hp']) ?_⟩
  have h3 : (f.map (fun p => pathSer p.2)) = (f'.map (fun p => pathSer p.2)) := by
    have := congrArg (List.map (fun (q : Option N × Option H) => q.2)) h.2.2
    have h3' : (f.map (fun p => pathSer p.2)).map some = (f'.map (fun p => pathSer p.2)).map some := by
      simpa [List.map_map, Function.comp_def] using this
    exact map_inj (fun _ _ e => Option.some.inj e) h3'
  have h4 : (f.map Prod.snd).map pathSer = (f'.map Prod.snd).map pathSer := by
    simpa [List.map_map, Function.comp_def] using h3
  exact map_inj hP h4

/-- Were the entry names written into the runtime hash, it would determine the runtime inputs outright. -/
theorem injOn_of_hashesNames (hr : fx.hashesRule = true) (hf : fx.hashesFiles = true) (hn : fx.hashesNames = true)
    (hRT : Function.Injective ruleSerRT) (hP : Function.Injective pathSer) :
    InjOn (G := G) fx ruleSerRT pathSer (fun (_ : A') (_ : List (N × C)) => True) := by
  intro g g' a f a' f' _ _ h
  simp only [runtimeSer, hr, hf, hn, if_true, RStamp.mk.injEq, Option.some.injEq] at h
  refine ⟨hRT h.1, ?_⟩
  refine map_inj (f := fun (p : N × C) => (some p.1, some (pathSer p.2))) ?_ h.2.2
  intro p q hpq
  simp only [Prod.mk.injEq, Option.some.injEq] at hpq
  exact Prod.ext hpq.1 (hP hpq.2)

variable (bfx : Build.Facts) (mv rs : C → C → C) (exec : A → List (N × C) → C) (ruleSer : A → S)

/-- The build phase keeps the build invariants of plz-out and of the artifact cache. -/
theorem buildPhase_inv (hmv : MvOK pathSer mv) (hrs : ∀ o n, rs o n = n) (hP : Function.Injective pathSer)
    (r : TRepo K A F N C A' G) (sel : K → Bool) (out : Out K C S N H) (bc : Build.Cache K C S N H)
    (h : Inv exec ruleSer pathSer out) (hc : InvC exec ruleSer pathSer bc) :
    Inv exec ruleSer pathSer (buildPhase pathSer bfx mv rs exec ruleSer r sel out bc).1 ∧
    InvC exec ruleSer pathSer (buildPhase pathSer bfx mv rs exec ruleSer r sel out bc).2.1 := by
  unfold buildPhase
  by_cases hon : r.cacheOn = true
  · simp only [hon, if_true]
    exact buildListC_inv bfx mv rs exec ruleSer pathSer hmv hrs hP r.repo sel r.repo.targets out bc h hc
  · simp only [hon]
    exact ⟨buildList_inv bfx mv exec ruleSer pathSer hmv hP r.repo sel r.repo.targets out h, hc⟩

/-- From invariant-satisfying plz-out and cache, the build phase gives every target of the closure its clean output. -/
theorem buildPhase_clean (hmv : MvOK pathSer mv) (hrs : ∀ o n, rs o n = n) (hf : bfx.cmpRule = true ∧ bfx.cmpSource = true)
    (hR : Function.Injective ruleSer) (hP : Function.Injective pathSer)
    (r : TRepo K A F N C A' G) (sel : K → Bool) (out : Out K C S N H) (bc : Build.Cache K C S N H)
    (h : Inv exec ruleSer pathSer out) (hc : InvC exec ruleSer pathSer bc) (hwf : WFList sel [] r.repo.targets) :
    ∀ k ∈ selKeys sel r.repo.targets, ∃ c st,
      (buildPhase pathSer bfx mv rs exec ruleSer r sel out bc).1 k = some (c, st) ∧ (clean exec r.repo sel).lookup k = some c := by
  unfold buildPhase
  by_cases hon : r.cacheOn = true
  · simp only [hon, if_true]
    have := buildListC_spec bfx mv rs exec ruleSer pathSer hmv hrs hf hR hP r.repo sel r.repo.targets [] out bc [] rfl h hc
      (by intro k hk; simp at hk) hwf
    intro k hk
    exact this.2.2.2 k (by simpa using hk)
  · simp only [hon]
    have := buildList_spec bfx mv exec ruleSer pathSer hmv hf hR hP r.repo sel r.repo.targets [] out [] rfl h
      (by intro k hk; simp at hk) hwf
    intro k hk
    exact this.2.2 k (by simpa using hk)

/-- Admissibility of a whole history: at every `plz test` the runtime inputs of the tested targets satisfy `P`. -/
def AdmHist (P : A' → List (N × C) → Prop) :
    List (TOp K A F N C S H A' G (RStamp S' G N H)) → TState K C S N H (RStamp S' G N H) → Prop
  | [], _ => True
  | .test r sel tsel fl :: ops, st =>
    Adm P r tsel (buildPhase pathSer bfx mv rs exec ruleSer r sel st.out st.bcache).1 r.repo.targets ∧
    AdmHist P ops (testAll fx ruleSerRT pathSer outcome bfx mv rs exec ruleSer r sel tsel fl st).1
  | .build r sel :: ops, st =>
    AdmHist P ops { st with out := (buildPhase pathSer bfx mv rs exec ruleSer r sel st.out st.bcache).1,
                            bcache := (buildPhase pathSer bfx mv rs exec ruleSer r sel st.out st.bcache).2.1 }
  | .rmOut keep :: ops, st => AdmHist P ops { st with out := fun k => if keep k then st.out k else none }
  | .rmRes keep :: ops, st => AdmHist P ops { st with res := fun k => if keep k then st.res k else none }
  | .evictB keep :: ops, st => AdmHist P ops { st with bcache := fun q => if keep q then st.bcache q else none }
  | .evictR keep :: ops, st => AdmHist P ops { st with rcache := fun q => if keep q then st.rcache q else none }

theorem admHist_true : ∀ (ops : List (TOp K A F N C S H A' G (RStamp S' G N H))) (st : TState K C S N H (RStamp S' G N H)),
    AdmHist fx ruleSerRT pathSer outcome bfx mv rs exec ruleSer (fun _ _ => True) ops st := by
  intro ops
  induction ops with
  | nil => intro _; trivial
  | cons op ops ih =>
    intro st
    cases op with
    | test r sel tsel fl => exact ⟨fun _ _ _ _ _ _ _ => trivial, ih _⟩
    | build r sel => exact ih _
    | rmOut keep => exact ih _
    | rmRes keep => exact ih _
    | evictB keep => exact ih _
    | evictR keep => exact ih _

/-- Every history keeps the invariants of the results files and of the cached results (no injectivity needed) … -/
theorem runHistT_rinv (P : A' → List (N × C) → Prop) (hstore : fx.storeIfAllSucceeded = true) (hlx : fx.linkXattr = false) :
    ∀ (ops : List (TOp K A F N C S H A' G (RStamp S' G N H))) (st : TState K C S N H (RStamp S' G N H)),
      RInv fx ruleSerRT pathSer outcome P st.res → RCInv fx ruleSerRT pathSer outcome P st.rcache →
      AdmHist fx ruleSerRT pathSer outcome bfx mv rs exec ruleSer P ops st →
      RInv fx ruleSerRT pathSer outcome P (runHistT fx ruleSerRT pathSer outcome bfx mv rs exec ruleSer ops st).res ∧
      RCInv fx ruleSerRT pathSer outcome P (runHistT fx ruleSerRT pathSer outcome bfx mv rs exec ruleSer ops st).rcache := by
  intro ops
  induction ops with
  | nil => intro st h hc _; exact ⟨h, hc⟩
  | cons op ops ih =>
    intro st h hc hadm
    cases op with
    | test r sel tsel fl =>
      obtain ⟨ha, hrest⟩ := hadm
      have := testList_spec fx ruleSerRT pathSer outcome P hstore hlx r tsel fl st.out
        (buildPhase pathSer bfx mv rs exec ruleSer r sel st.out st.bcache).1
        (buildPhase pathSer bfx mv rs exec ruleSer r sel st.out st.bcache).2.2 st.xh r.repo.targets st.res st.rcache h hc ha
      exact ih _ this.1 this.2.1 hrest
    | build r sel => exact ih _ h hc hadm
    | rmOut keep => exact ih _ h hc hadm
    | rmRes keep => exact ih _ (rinv_restrict fx ruleSerRT pathSer outcome P st.res keep h) hc hadm
    | evictB keep => exact ih _ h hc hadm
    | evictR keep => exact ih _ h (rcinv_restrict fx ruleSerRT pathSer outcome P st.rcache keep hc) hadm

/-- … and the build invariants of plz-out and of the artifact cache (needs `pathSer` injective, as in C01 / C02). -/
theorem runHistT_inv (hmv : MvOK pathSer mv) (hrs : ∀ o n, rs o n = n) (hP : Function.Injective pathSer) :
    ∀ (ops : List (TOp K A F N C S H A' G (RStamp S' G N H))) (st : TState K C S N H (RStamp S' G N H)),
      Inv exec ruleSer pathSer st.out → InvC exec ruleSer pathSer st.bcache →
      Inv exec ruleSer pathSer (runHistT fx ruleSerRT pathSer outcome bfx mv rs exec ruleSer ops st).out ∧
      InvC exec ruleSer pathSer (runHistT fx ruleSerRT pathSer outcome bfx mv rs exec ruleSer ops st).bcache := by
  intro ops
  induction ops with
  | nil => intro st h hc; exact ⟨h, hc⟩
  | cons op ops ih =>
    intro st h hc
    cases op with
    | test r sel tsel fl =>
      have := buildPhase_inv pathSer bfx mv rs exec ruleSer hmv hrs hP r sel st.out st.bcache h hc
      exact ih _ this.1 this.2
    | build r sel =>
      have := buildPhase_inv pathSer bfx mv rs exec ruleSer hmv hrs hP r sel st.out st.bcache h hc
      exact ih _ this.1 this.2
    | rmOut keep => exact ih _ (inv_restrict exec ruleSer pathSer st.out keep h) hc
    | rmRes keep => exact ih _ h hc
    | evictB keep =>
      refine ih _ h ?_
      intro k st' c hk
      by_cases hkk : keep (k, st') = true
      · simp [hkk] at hk; exact hc k st' c hk
      · simp [hkk] at hk
    | evictR keep => exact ih _ h hc

end PlzVerif.TestCache
