import PlzVerif.Lemmas.Lock
/-!
C31: how often an action runs (no `--rebuild`), core only.

`RK` is a second per-key invariant on top of `KInv`/`Inv`: the ghost counter `runs` of a target is 0 or 1; while it
is 0 nobody has touched the target's output, stamp or metadata file (so every needsBuilding decision so far was
taken on the INITIAL plz-out); once it is 1 the target is either still being moved into place by the one worker
that ran the action, or it is completely up to date — so every later entrant finds needsBuilding = false.
Consequence (`runs_exact`): for every interleaving, a target some process has finished was executed exactly once
if it was not up to date in the initial plz-out, and not at all otherwise.
-/
namespace PlzVerif.Lock
open PlzVerif.Build
set_option linter.unusedSectionVars false
set_option linter.unusedSimpArgs false
set_option linter.unusedVariables false

variable {P K A F N C S H : Type} [DecidableEq P] [DecidableEq K] [DecidableEq S] [DecidableEq N] [DecidableEq H]

def PC.preExec : PC S N H → Bool
  | .prep _ | .ready _ => true
  | _ => false

def PC.postExec : PC S N H → Bool
  | .built _ | .stored _ | .removed _ | .moved _ => true
  | _ => false

def PC.hasMeta : PC S N H → Bool
  | .stored _ | .removed _ | .moved _ => true
  | _ => false

section
variable (exec : A → List (N × C) → C) (ruleSer : A → S) (pathSer : C → H) (r : Repo K A F N C)

/-- Run-count invariant of one target key. `u0` = the target was up to date in the initial plz-out;
    `g0 st0 m0` = its initial output, stamp and metadata flag. -/
structure RK (t : Target K A F) (u0 : Bool) (g0 : Option C) (st0 : Option (Stamp S N H)) (m0 : Bool)
    (gen : Option C) (stamp : Option (Stamp S N H)) (mdat : Bool) (runs : Nat) (pcs : P → PC S N H) : Prop where
  pre  : ∀ p, (pcs p).preExec = true → runs = 0 ∧ u0 = false
  le   : runs ≤ 1
  one  : runs = 1 → u0 = false ∧ ((∃ p, (pcs p).postExec = true) ∨
           (gen = some (cleanv exec r t) ∧ stamp = some (cstamp exec ruleSer pathSer r t) ∧ mdat = true))
  md   : ∀ p, (pcs p).hasMeta = true → mdat = true
  zero : runs = 0 → gen = g0 ∧ stamp = st0 ∧ mdat = m0
  skp  : runs = 0 → ∀ p, (pcs p = .skip ∨ pcs p = .finished) → u0 = true
  post : ∀ p, ((pcs p).postExec = true ∨ pcs p = .stamped) → runs = 1

variable {exec ruleSer pathSer r}

theorem RK.update {t : Target K A F} {u0 : Bool} {g0 : Option C} {st0 : Option (Stamp S N H)} {m0 : Bool}
    {gen gen' : Option C} {stamp stamp' : Option (Stamp S N H)} {mdat mdat' : Bool} {runs runs' : Nat}
    {pcs pcs' : P → PC S N H}
    (h : RK exec ruleSer pathSer r t u0 g0 st0 m0 gen stamp mdat runs pcs) {p : P}
    (hothers : ∀ q, q ≠ p → (pcs q).inCS = false) (c : PC S N H)
    (hpc : pcs' p = c) (hoth : ∀ q, q ≠ p → pcs' q = pcs q)
    (hpre : c.preExec = true → runs' = 0 ∧ u0 = false)
    (hle : runs' ≤ 1)
    (hone : runs' = 1 → u0 = false ∧ (c.postExec = true ∨
      (gen' = some (cleanv exec r t) ∧ stamp' = some (cstamp exec ruleSer pathSer r t) ∧ mdat' = true)))
    (hmd : c.hasMeta = true → mdat' = true)
    (hzero : runs' = 0 → gen' = g0 ∧ stamp' = st0 ∧ mdat' = m0)
    (hskp : runs' = 0 → (c = .skip ∨ c = .finished ∨ ∃ q, q ≠ p ∧ pcs q = .finished) → u0 = true)
    (hpost : (c.postExec = true ∨ c = .stamped) → runs' = 1) :
    RK exec ruleSer pathSer r t u0 g0 st0 m0 gen' stamp' mdat' runs' pcs' := by
  have hq : ∀ q, q ≠ p → pcs' q = .idle ∨ pcs' q = .finished ∨ pcs' q = .failed := by
    intro q hne; rw [hoth q hne]; exact inCS_false_cases (hothers q hne)
  refine ⟨?_, hle, ?_, ?_, hzero, ?_, ?_⟩
  · intro q hs
    by_cases e : q = p
    · subst e; rw [hpc] at hs; exact hpre hs
    · rcases hq q e with h' | h' | h' <;> rw [h'] at hs <;> simp [PC.preExec] at hs
  · intro h1
    obtain ⟨a, b⟩ := hone h1
    refine ⟨a, ?_⟩
    rcases b with b | b
    · exact Or.inl ⟨p, by rw [hpc]; exact b⟩
    · exact Or.inr b
  · intro q hs
    by_cases e : q = p
    · subst e; rw [hpc] at hs; exact hmd hs
    · rcases hq q e with h' | h' | h' <;> rw [h'] at hs <;> simp [PC.hasMeta] at hs
  · intro h0 q hs
    by_cases e : q = p
    · subst e; rw [hpc] at hs
      rcases hs with hs | hs
      · exact hskp h0 (Or.inl hs)
      · exact hskp h0 (Or.inr (Or.inl hs))
    · rcases hs with hs | hs
      · rcases hq q e with h' | h' | h' <;> rw [h'] at hs <;> simp at hs
      · rw [hoth q e] at hs; exact hskp h0 (Or.inr (Or.inr ⟨q, e, hs⟩))
  · intro q hs
    by_cases e : q = p
    · subst e; rw [hpc] at hs; exact hpost hs
    · rcases hq q e with h' | h' | h' <;> rw [h'] at hs <;> simp [PC.postExec] at hs

/-- What the old invariant says about the stepping worker itself, the others being outside the critical section. -/
theorem RK.one_self {t : Target K A F} {u0 : Bool} {g0 : Option C} {st0 : Option (Stamp S N H)} {m0 : Bool}
    {gen : Option C} {stamp : Option (Stamp S N H)} {mdat : Bool} {runs : Nat} {pcs : P → PC S N H}
    (h : RK exec ruleSer pathSer r t u0 g0 st0 m0 gen stamp mdat runs pcs) {p : P}
    (hothers : ∀ q, q ≠ p → (pcs q).inCS = false) (h1 : runs = 1) :
    u0 = false ∧ ((pcs p).postExec = true ∨
      (gen = some (cleanv exec r t) ∧ stamp = some (cstamp exec ruleSer pathSer r t) ∧ mdat = true)) := by
  obtain ⟨a, b⟩ := h.one h1
  refine ⟨a, ?_⟩
  rcases b with ⟨q, hq⟩ | b
  · by_cases e : q = p
    · subst e; exact Or.inl hq
    · rcases inCS_false_cases (hothers q e) with h' | h' | h' <;> rw [h'] at hq <;> simp [PC.postExec] at hq
  · exact Or.inr b

end

section
variable (fx : Facts) (lf : LFacts) (exec : A → List (N × C) → C) (ruleSer : A → S) (pathSer : C → H)
variable (r : Repo K A F N C) (ps : List P) (req : P → K → Bool) (force : P → K → Bool)

/-- The target was up to date in the initial plz-out (with respect to the clean inputs). -/
def u0 (s0 : State P K C S N H) (t : Target K A F) : Bool := upToDate fx s0 t.key (cstamp exec ruleSer pathSer r t)

def RInv (s0 s : State P K C S N H) : Prop :=
  ∀ t ∈ r.targets, RK exec ruleSer pathSer r t (u0 fx exec ruleSer pathSer r s0 t) (s0.gen t.key) (s0.stamp t.key) (s0.mdat t.key)
    (s.gen t.key) (s.stamp t.key) (s.mdat t.key) (s.runs t.key) (fun p => s.pc p t.key)

variable {fx lf exec ruleSer pathSer r ps req force}

theorem rinv_init {s0 : State P K C S N H} (h0 : Init s0) : RInv fx exec ruleSer pathSer r s0 s0 := by
  intro t _
  refine ⟨?_, ?_, ?_, ?_, ?_, ?_, ?_⟩
  · intro p h; simp [h0.pc, PC.preExec] at h
  · rw [h0.runs]; omega
  · intro h; rw [h0.runs] at h; omega
  · intro p h; simp [h0.pc, PC.hasMeta] at h
  · intro _; exact ⟨rfl, rfl, rfl⟩
  · intro _ p h; simp [h0.pc] at h
  · intro p h; simp [h0.pc, PC.postExec] at h

theorem upToDate_congr {s s' : State P K C S N H} {k : K} (st : Stamp S N H)
    (h1 : s.gen k = s'.gen k) (h2 : s.stamp k = s'.stamp k) (h3 : s.mdat k = s'.mdat k) :
    upToDate fx s k st = upToDate fx s' k st := by
  unfold upToDate; rw [h1, h2, h3]

theorem upToDate_of_good {s : State P K C S N H} {k : K} {c : C} {st : Stamp S N H}
    (h1 : s.gen k = some c) (h2 : s.stamp k = some st) (h3 : s.mdat k = true) : upToDate fx s k st = true := by
  unfold upToDate; rw [h1, h2, h3]; simp [stampEq]

theorem rkey_step (hy : Hyp fx lf ruleSer pathSer r req) {s0 s s' : State P K C S N H}
    (hr : RInv fx exec ruleSer pathSer r s0 s) {p : P} {t : Target K A F} (ht : t ∈ r.targets) (c : PC S N H)
    (hgen : ∀ k, k ≠ t.key → s'.gen k = s.gen k) (hst : ∀ k, k ≠ t.key → s'.stamp k = s.stamp k)
    (hmd : ∀ k, k ≠ t.key → s'.mdat k = s.mdat k) (hruns : ∀ k, k ≠ t.key → s'.runs k = s.runs k)
    (hpc : s'.pc = upd2 s.pc p t.key c)
    (hk : RK exec ruleSer pathSer r t (u0 fx exec ruleSer pathSer r s0 t) (s0.gen t.key) (s0.stamp t.key) (s0.mdat t.key)
      (s'.gen t.key) (s'.stamp t.key) (s'.mdat t.key) (s'.runs t.key) (fun q => s'.pc q t.key)) :
    RInv fx exec ruleSer pathSer r s0 s' := by
  intro t' ht'
  by_cases e : t'.key = t.key
  · have : t' = t := wf_key_inj r hy.wf t' ht' t ht e
    subst this; exact hk
  · rw [hgen _ e, hst _ e, hmd _ e, hruns _ e, hpc]
    have : (fun q => upd2 s.pc p t.key c q t'.key) = fun q => s.pc q t'.key := by
      funext q; exact upd2_key_ne _ _ e
    rw [this]
    exact hr t' ht'

/-- The run-count invariant is preserved by every step when no process forces rebuilds. -/
theorem step_rinv (hy : Hyp fx lf ruleSer pathSer r req) (hnf : ∀ p k, force p k = false) {s0 s s' : State P K C S N H}
    (hi : Inv lf exec ruleSer pathSer r ps req s) (hr : RInv fx exec ruleSer pathSer r s0 s)
    (hs : Step fx lf exec ruleSer pathSer r ps req force s s') : RInv fx exec ruleSer pathSer r s0 s' := by
  cases hs with
  | enter p => exact hr
  | leave p => exact hr
  | fail p t ht hf => exact absurd hf (no_fail hy hi ht)
  | acquire p t hp ht hin hreq hidle hdeps hfree =>
    have hk := hi.key t ht
    have hrk := hr t ht
    have hoth := hk.others (p := p) (Or.inr (hfree hy.excl))
    apply rkey_step hy hr ht .locked <;> first | (intro k e; rfl) | rfl | skip
    apply hrk.update hoth .locked (by simp) (fun q hq => upd2_ne _ _ (fun e => hq e.1))
    · intro h; simp [PC.preExec] at h
    · exact hrk.le
    · intro h1
      obtain ⟨a, b⟩ := hrk.one_self hoth h1
      refine ⟨a, Or.inr ?_⟩
      rcases b with b | b
      · simp [hidle, PC.postExec] at b
      · exact b
    · intro h; simp [PC.hasMeta] at h
    · exact hrk.zero
    · intro h0 hc
      rcases hc with hc | hc | ⟨q, _, hq⟩
      · simp at hc
      · simp at hc
      · exact hrk.skp h0 q (Or.inr hq)
    · intro h; simp [PC.postExec] at h
  | checkSkip p t ins ht hpc hins hup hforce =>
    have hk := hi.key t ht
    have hrk := hr t ht
    have hcs : (s.pc p t.key).inCS = true := by rw [hpc]; rfl
    have hoth := hk.others (p := p) (Or.inl hcs)
    have hrd := reads_clean hy hi ht (p := p) (by rw [hpc]; simp)
    rw [hrd] at hins
    have hins' : ins = cins exec r t := (Option.some.inj hins).symm
    subst hins'
    apply rkey_step hy hr ht .skip <;> first | (intro k e; rfl) | rfl | skip
    apply hrk.update hoth .skip (by simp) (fun q hq => upd2_ne _ _ (fun e => hq e.1))
    · intro h; simp [PC.preExec] at h
    · exact hrk.le
    · intro h1
      obtain ⟨a, b⟩ := hrk.one_self hoth h1
      refine ⟨a, Or.inr ?_⟩
      rcases b with b | b
      · simp [hpc, PC.postExec] at b
      · exact b
    · intro h; simp [PC.hasMeta] at h
    · exact hrk.zero
    · intro h0 _
      obtain ⟨z1, z2, z3⟩ := hrk.zero h0
      show upToDate fx s0 t.key _ = true
      rw [← upToDate_congr _ z1 z2 z3]
      exact hup
    · intro h; simp [PC.postExec] at h
  | checkBuild p t ins ht hpc hins hneed =>
    have hk := hi.key t ht
    have hrk := hr t ht
    have hcs : (s.pc p t.key).inCS = true := by rw [hpc]; rfl
    have hoth := hk.others (p := p) (Or.inl hcs)
    have hrd := reads_clean hy hi ht (p := p) (by rw [hpc]; simp)
    rw [hrd] at hins
    have hins' : ins = cins exec r t := (Option.some.inj hins).symm
    subst hins'
    have hup : upToDate fx s t.key (cstamp exec ruleSer pathSer r t) = false := by
      rcases hneed with h | h
      · exact h
      · rw [hnf] at h; exact absurd h (by simp)
    have hruns0 : s.runs t.key = 0 := by
      have hle := hrk.le
      by_cases h1 : s.runs t.key = 1
      · obtain ⟨_, b⟩ := hrk.one_self hoth h1
        rcases b with b | ⟨b1, b2, b3⟩
        · simp [hpc, PC.postExec] at b
        · rw [upToDate_of_good b1 b2 b3] at hup; exact absurd hup (by simp)
      · omega
    have hu0 : u0 fx exec ruleSer pathSer r s0 t = false := by
      obtain ⟨z1, z2, z3⟩ := hrk.zero hruns0
      show upToDate fx s0 t.key _ = false
      rw [← upToDate_congr _ z1 z2 z3]
      exact hup
    apply rkey_step hy hr ht (.prep (stampOf ruleSer pathSer t.attrs (cins exec r t))) <;> first | (intro k e; rfl) | rfl | skip
    apply hrk.update hoth (.prep (stampOf ruleSer pathSer t.attrs (cins exec r t))) (by simp) (fun q hq => upd2_ne _ _ (fun e => hq e.1))
    · intro _; exact ⟨hruns0, hu0⟩
    · exact hrk.le
    · intro h1; rw [hruns0] at h1; omega
    · intro h; simp [PC.hasMeta] at h
    · exact hrk.zero
    · intro h0 hc
      rcases hc with hc | hc | ⟨q, _, hq⟩
      · simp at hc
      · simp at hc
      · exact hrk.skp h0 q (Or.inr hq)
    · intro h; simp [PC.postExec] at h
  | releaseSkip p t ht hpc =>
    have hk := hi.key t ht
    have hrk := hr t ht
    have hcs : (s.pc p t.key).inCS = true := by rw [hpc]; rfl
    have hoth := hk.others (p := p) (Or.inl hcs)
    apply rkey_step hy hr ht .finished <;> first | (intro k e; rfl) | rfl | skip
    apply hrk.update hoth .finished (by simp) (fun q hq => upd2_ne _ _ (fun e => hq e.1))
    · intro h; simp [PC.preExec] at h
    · exact hrk.le
    · intro h1
      obtain ⟨a, b⟩ := hrk.one_self hoth h1
      refine ⟨a, Or.inr ?_⟩
      rcases b with b | b
      · simp [hpc, PC.postExec] at b
      · exact b
    · intro h; simp [PC.hasMeta] at h
    · exact hrk.zero
    · intro h0 _; exact hrk.skp h0 p (Or.inl hpc)
    · intro h; simp [PC.postExec] at h
  | prepare p t st ht hpc =>
    have hk := hi.key t ht
    have hrk := hr t ht
    have hcs : (s.pc p t.key).inCS = true := by rw [hpc]; rfl
    have hoth := hk.others (p := p) (Or.inl hcs)
    have hp0 := hrk.pre p (by simp [hpc, PC.preExec])
    apply rkey_step hy hr ht (.ready st) <;> first | (intro k e; rfl) | rfl | skip
    apply hrk.update hoth (.ready st) (by simp) (fun q hq => upd2_ne _ _ (fun e => hq e.1))
    · intro _; exact hp0
    · exact hrk.le
    · intro h1; rw [hp0.1] at h1; omega
    · intro h; simp [PC.hasMeta] at h
    · exact hrk.zero
    · intro h0 hc
      rcases hc with hc | hc | ⟨q, _, hq⟩
      · simp at hc
      · simp at hc
      · exact hrk.skp h0 q (Or.inr hq)
    · intro h; simp [PC.postExec] at h
  | exec p t st ins ht hpc hins =>
    have hk := hi.key t ht
    have hrk := hr t ht
    have hcs : (s.pc p t.key).inCS = true := by rw [hpc]; rfl
    have hoth := hk.others (p := p) (Or.inl hcs)
    have hp0 := hrk.pre p (by simp [hpc, PC.preExec])
    apply rkey_step hy hr ht (.built st) <;> first | (intro k e; first | rfl | exact upd_ne _ _ e) | rfl | skip
    apply hrk.update hoth (.built st) (by simp) (fun q hq => upd2_ne _ _ (fun e => hq e.1))
    · intro h; simp [PC.preExec] at h
    · simp [hp0.1]
    · intro _; exact ⟨hp0.2, Or.inl rfl⟩
    · intro h; simp [PC.hasMeta] at h
    · intro h; simp [hp0.1] at h
    · intro h; simp [hp0.1] at h
    · intro _; simp [hp0.1]
  | store p t st ht hpc =>
    have hk := hi.key t ht
    have hrk := hr t ht
    have hcs : (s.pc p t.key).inCS = true := by rw [hpc]; rfl
    have hoth := hk.others (p := p) (Or.inl hcs)
    have h1 := hrk.post p (Or.inl (by simp [hpc, PC.postExec]))
    have hu := (hrk.one h1).1
    apply rkey_step hy hr ht (.stored st) <;> first | (intro k e; first | rfl | exact upd_ne _ _ e) | rfl | skip
    apply hrk.update hoth (.stored st) (by simp) (fun q hq => upd2_ne _ _ (fun e => hq e.1))
    · intro h; simp [PC.preExec] at h
    · exact hrk.le
    · intro _; exact ⟨hu, Or.inl rfl⟩
    · intro _; simp
    · intro h; rw [h1] at h; omega
    · intro h; rw [h1] at h; omega
    · intro _; exact h1
  | moveKeep p t st c c' ht hpc htmp hgen hkeep hhash =>
    have hk := hi.key t ht
    have hrk := hr t ht
    have hcs : (s.pc p t.key).inCS = true := by rw [hpc]; rfl
    have hoth := hk.others (p := p) (Or.inl hcs)
    have h1 := hrk.post p (Or.inl (by simp [hpc, PC.postExec]))
    have hu := (hrk.one h1).1
    have hm := hrk.md p (by simp [hpc, PC.hasMeta])
    apply rkey_step hy hr ht (.moved st) <;> first | (intro k e; first | rfl | exact upd_ne _ _ e) | rfl | skip
    apply hrk.update hoth (.moved st) (by simp) (fun q hq => upd2_ne _ _ (fun e => hq e.1))
    · intro h; simp [PC.preExec] at h
    · exact hrk.le
    · intro _; exact ⟨hu, Or.inl rfl⟩
    · intro _; exact hm
    · intro h; rw [h1] at h; omega
    · intro h; rw [h1] at h; omega
    · intro _; exact h1
  | moveRemove p t st c c' ht hpc htmp hgen hdiff =>
    have hk := hi.key t ht
    have hrk := hr t ht
    have hcs : (s.pc p t.key).inCS = true := by rw [hpc]; rfl
    have hoth := hk.others (p := p) (Or.inl hcs)
    have h1 := hrk.post p (Or.inl (by simp [hpc, PC.postExec]))
    have hu := (hrk.one h1).1
    have hm := hrk.md p (by simp [hpc, PC.hasMeta])
    apply rkey_step hy hr ht (.removed st) <;> first | (intro k e; first | rfl | exact upd_ne _ _ e) | rfl | skip
    apply hrk.update hoth (.removed st) (by simp) (fun q hq => upd2_ne _ _ (fun e => hq e.1))
    · intro h; simp [PC.preExec] at h
    · exact hrk.le
    · intro _; exact ⟨hu, Or.inl rfl⟩
    · intro _; exact hm
    · intro h; rw [h1] at h; omega
    · intro h; rw [h1] at h; omega
    · intro _; exact h1
  | moveNew p t st c' ht hpc htmp hgen =>
    have hk := hi.key t ht
    have hrk := hr t ht
    have hcs : (s.pc p t.key).inCS = true := by rw [hpc]; rfl
    have hoth := hk.others (p := p) (Or.inl hcs)
    have h1 := hrk.post p (Or.inl (by simp [hpc, PC.postExec]))
    have hu := (hrk.one h1).1
    have hm := hrk.md p (by simp [hpc, PC.hasMeta])
    apply rkey_step hy hr ht (.moved st) <;> first | (intro k e; first | rfl | exact upd_ne _ _ e) | rfl | skip
    apply hrk.update hoth (.moved st) (by simp) (fun q hq => upd2_ne _ _ (fun e => hq e.1))
    · intro h; simp [PC.preExec] at h
    · exact hrk.le
    · intro _; exact ⟨hu, Or.inl rfl⟩
    · intro _; exact hm
    · intro h; rw [h1] at h; omega
    · intro h; rw [h1] at h; omega
    · intro _; exact h1
  | rename p t st c' ht hpc htmp =>
    have hk := hi.key t ht
    have hrk := hr t ht
    have hcs : (s.pc p t.key).inCS = true := by rw [hpc]; rfl
    have hoth := hk.others (p := p) (Or.inl hcs)
    have h1 := hrk.post p (Or.inl (by simp [hpc, PC.postExec]))
    have hu := (hrk.one h1).1
    have hm := hrk.md p (by simp [hpc, PC.hasMeta])
    apply rkey_step hy hr ht (.moved st) <;> first | (intro k e; first | rfl | exact upd_ne _ _ e) | rfl | skip
    apply hrk.update hoth (.moved st) (by simp) (fun q hq => upd2_ne _ _ (fun e => hq e.1))
    · intro h; simp [PC.preExec] at h
    · exact hrk.le
    · intro _; exact ⟨hu, Or.inl rfl⟩
    · intro _; exact hm
    · intro h; rw [h1] at h; omega
    · intro h; rw [h1] at h; omega
    · intro _; exact h1
  | stamp p t st c ht hpc hgen =>
    have hk := hi.key t ht
    have hrk := hr t ht
    have hcs : (s.pc p t.key).inCS = true := by rw [hpc]; rfl
    have hoth := hk.others (p := p) (Or.inl hcs)
    have h1 := hrk.post p (Or.inl (by simp [hpc, PC.postExec]))
    have hu := (hrk.one h1).1
    have hm := hrk.md p (by simp [hpc, PC.hasMeta])
    have hclean := hk.genClean p (by simp [hpc, PC.genClean])
    have hst : st = cstamp exec ruleSer pathSer r t := hk.carried p st (by simp [hpc, PC.carried])
    apply rkey_step hy hr ht .stamped <;> first | (intro k e; first | rfl | exact upd_ne _ _ e) | rfl | skip
    apply hrk.update hoth .stamped (by simp) (fun q hq => upd2_ne _ _ (fun e => hq e.1))
    · intro h; simp [PC.preExec] at h
    · exact hrk.le
    · intro _; exact ⟨hu, Or.inr ⟨hclean, by simp [hst], hm⟩⟩
    · intro h; simp [PC.hasMeta] at h
    · intro h; rw [h1] at h; omega
    · intro h; rw [h1] at h; omega
    · intro _; exact h1
  | release p t ht hpc =>
    have hk := hi.key t ht
    have hrk := hr t ht
    have hcs : (s.pc p t.key).inCS = true := by rw [hpc]; rfl
    have hoth := hk.others (p := p) (Or.inl hcs)
    have h1 := hrk.post p (Or.inr hpc)
    apply rkey_step hy hr ht .finished <;> first | (intro k e; rfl) | rfl | skip
    apply hrk.update hoth .finished (by simp) (fun q hq => upd2_ne _ _ (fun e => hq e.1))
    · intro h; simp [PC.preExec] at h
    · exact hrk.le
    · intro _
      obtain ⟨a, b⟩ := hrk.one_self hoth h1
      refine ⟨a, Or.inr ?_⟩
      rcases b with b | b
      · simp [hpc, PC.postExec] at b
      · exact b
    · intro h; simp [PC.hasMeta] at h
    · intro h; rw [h1] at h; omega
    · intro h; rw [h1] at h; omega
    · intro h; simp [PC.postExec] at h

theorem reach_rinv (hy : Hyp fx lf ruleSer pathSer r req) (hnf : ∀ p k, force p k = false) {s0 s : State P K C S N H}
    (h0 : Init s0) (hh : Hist exec ruleSer pathSer s0.gen s0.stamp)
    (hr : Reach fx lf exec ruleSer pathSer r ps req force s0 s) : RInv fx exec ruleSer pathSer r s0 s := by
  induction hr with
  | init => exact rinv_init h0
  | step hr' hs ih => exact step_rinv hy hnf (reach_inv hy h0 hh hr') ih hs

/-- A target somebody has finished was executed exactly once if it was stale initially, never otherwise. -/
theorem runs_exact {s0 s : State P K C S N H} (hr : RInv fx exec ruleSer pathSer r s0 s) {p : P} {t : Target K A F}
    (ht : t ∈ r.targets) (hf : s.pc p t.key = .finished) :
    s.runs t.key = if u0 fx exec ruleSer pathSer r s0 t = true then 0 else 1 := by
  have hrk := hr t ht
  have hle := hrk.le
  by_cases h1 : s.runs t.key = 1
  · rw [(hrk.one h1).1, h1]; simp
  · have h0 : s.runs t.key = 0 := by omega
    rw [hrk.skp h0 p (Or.inr hf), h0]; simp

end
end PlzVerif.Lock
