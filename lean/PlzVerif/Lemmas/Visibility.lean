import PlzVerif.Model.Visibility
import PlzVerif.Lemmas.Label
/-!
Specification of visibility / test_only (written from the documentation, aware of subrepos) and its relation
to the transcribed `canSee` / `checkDeps`.
-/
namespace PlzVerif.Visibility
open PlzVerif.Label

/-- `PUBLIC` (`core.WholeGraph[0]`). -/
def publicLabel : Label := ⟨[], dots, []⟩

def SamePackage (a b : Label) : Prop := a.pkg = b.pkg ∧ a.sub = b.sub

/-- In an experimental directory of the top-level repository. -/
def Experimental (dirs : List Str) (l : Label) : Prop := l.sub = [] ∧ ∃ d ∈ dirs, Under d l.pkg

/-- Visibility entry `v` grants access to source label `src` (hidden sub-targets act as their parent). -/
def Grants (v src : Label) : Prop := (v = publicLabel ∨ v.sub = src.sub) ∧ PatternSelects v (parent src)

/-- The documented rule: same package; otherwise never from outside into the experimental tree; otherwise a
    granting visibility entry (a pattern, or PUBLIC) or the experimental exemption for the depending target. -/
def Visible (dirs : List Str) (src : Label) (dep : VTarget) : Prop :=
  SamePackage src dep.label ∨
  (¬ (Experimental dirs dep.label ∧ ¬ Experimental dirs src) ∧
    ((∃ v ∈ dep.visibility, Grants v src) ∨ Experimental dirs src))

instance (a b : Label) : Decidable (SamePackage a b) := by unfold SamePackage; exact inferInstance
instance (dirs : List Str) (l : Label) : Decidable (Experimental dirs l) := by unfold Experimental; exact inferInstance
instance (v src : Label) : Decidable (Grants v src) := by unfold Grants; exact inferInstance
instance (dirs : List Str) (src : Label) (dep : VTarget) : Decidable (Visible dirs src dep) := by
  unfold Visible; exact inferInstance

def TestOnlyOK (dirs : List Str) (t dep : VTarget) : Prop :=
  dep.testOnly = false ∨ t.isTest = true ∨ t.testOnly = true ∨ Experimental dirs t.label

def DepOK (dirs : List Str) (t dep : VTarget) : Prop := Visible dirs t.label dep ∧ TestOnlyOK dirs t dep

/-- What `canSee` computes (exactly). -/
def CodeVisible (vf : VFacts) (dirs : List Str) (src : Label) (dep : VTarget) : Prop :=
  (src.pkg = dep.label.pkg ∧ (vf.samePkgChecksSubrepo = true → src.sub = dep.label.sub)) ∨
  (¬ (Experimental dirs dep.label ∧ ¬ Experimental dirs src) ∧
    ((∃ v ∈ dep.visibility, PatternSelects v (parent src)) ∨ Experimental dirs src))

theorem parent_pkg (l : Label) : (parent l).pkg = l.pkg := by
  unfold parent; split
  · rfl
  · split <;> rfl

theorem parent_sub (l : Label) : (parent l).sub = l.sub := by
  unfold parent; split
  · rfl
  · split <;> rfl

theorem experimental_iff (lf : Label.Facts) (h : lf.includesSlash = true) (dirs : List Str) (l : Label) :
    isExperimental lf dirs l = true ↔ Experimental dirs l := isExperimental_iff lf h dirs l

theorem canSee_iff (lf : Label.Facts) (h : lf.includesSlash = true) (vf : VFacts) (dirs : List Str) (l : Label)
    (dep : VTarget) : canSee lf vf dirs l dep = true ↔ CodeVisible vf dirs l dep := by
  unfold canSee CodeVisible
  have e1 := experimental_iff lf h dirs dep.label
  have e2 := experimental_iff lf h dirs l
  have e3 : (dep.visibility.any (fun v => includes lf v (parent l)) = true) ↔ ∃ v ∈ dep.visibility, PatternSelects v (parent l) := by
    simp [List.any_eq_true, includes_iff_patternSelects lf h]
  rw [← e1, ← e2, ← e3]
  dsimp only
  rw [parent_pkg, parent_sub]
  have hp : (dep.label.pkg == l.pkg) = (l.pkg == dep.label.pkg) := by
    by_cases hh : l.pkg = dep.label.pkg
    · simp [hh]
    · have h1 : (l.pkg == dep.label.pkg) = false := by simpa using hh
      have h2 : (dep.label.pkg == l.pkg) = false := by simpa using fun e => hh e.symm
      rw [h1, h2]
  have hs : (l.sub == dep.label.sub) = true ↔ l.sub = dep.label.sub := by simp
  rw [hp]
  have hpq : (l.pkg == dep.label.pkg) = true ↔ l.pkg = dep.label.pkg := by simp
  rw [← hpq, ← hs]
  generalize (l.pkg == dep.label.pkg) = A
  generalize (l.sub == dep.label.sub) = B
  generalize isExperimental lf dirs dep.label = C
  generalize isExperimental lf dirs l = D
  generalize dep.visibility.any (fun v => includes lf v (parent l)) = E
  generalize vf.samePkgChecksSubrepo = F
  cases A <;> cases B <;> cases C <;> cases D <;> cases E <;> cases F <;> simp

/-- The documented rule is never stricter than the code: whatever is `Visible` is accepted by `canSee`. -/
theorem visible_imp_code (vf : VFacts) (dirs : List Str) (src : Label) (dep : VTarget) (h : Visible dirs src dep) :
    CodeVisible vf dirs src dep := by
  rcases h with ⟨h1, h2⟩ | ⟨h1, h2⟩
  · exact Or.inl ⟨h1, fun _ => h2⟩
  · refine Or.inr ⟨h1, ?_⟩
    rcases h2 with ⟨v, hv, _, hg⟩ | h2
    · exact Or.inl ⟨v, hv, hg⟩
    · exact Or.inr h2

/-- All labels involved live in one repository (or the visibility entry is PUBLIC). -/
def OneRepo (src : Label) (dep : VTarget) : Prop :=
  src.sub = dep.label.sub ∧ ∀ v ∈ dep.visibility, v = publicLabel ∨ v.sub = src.sub

theorem code_imp_visible (vf : VFacts) (dirs : List Str) (src : Label) (dep : VTarget) (hr : OneRepo src dep)
    (h : CodeVisible vf dirs src dep) : Visible dirs src dep := by
  rcases h with ⟨h1, _⟩ | ⟨h1, h2⟩
  · exact Or.inl ⟨h1, hr.1⟩
  · refine Or.inr ⟨h1, ?_⟩
    rcases h2 with ⟨v, hv, hg⟩ | h2
    · exact Or.inl ⟨v, hv, hr.2 v hv, hg⟩
    · exact Or.inr h2

/-! ### the loop over the dependencies -/

/-- One dependency passes the code's two tests. -/
def codeOK (lf : Label.Facts) (vf : VFacts) (dirs : List Str) (t d : VTarget) : Bool :=
  canSee lf vf dirs t.label d && (!(d.testOnly && !t.isTest && !t.testOnly) || isExperimental lf dirs t.label)

theorem checkDeps_none_iff (lf : Label.Facts) (vf : VFacts) (dirs : List Str) (t : VTarget) (deps : List VTarget) :
    checkDeps lf vf dirs t deps = none ↔ ∀ d ∈ deps, codeOK lf vf dirs t d = true := by
  induction deps with
  | nil => simp [checkDeps]
  | cons d ds ih =>
    have hs : ∀ x, shift x = none ↔ x = none := by
      intro x; cases x with
      | none => simp [shift]
      | some ie => obtain ⟨i, e⟩ := ie; simp [shift]
    rw [List.forall_mem_cons, ← ih]
    simp only [checkDeps, codeOK]
    generalize canSee lf vf dirs t.label d = A
    generalize (d.testOnly && !t.isTest && !t.testOnly) = B
    generalize isExperimental lf dirs t.label = C
    generalize checkDeps lf vf dirs t ds = R
    cases A <;> cases B <;> cases C <;> simp [hs]

/-- The reported dependency is the first one that fails, and the kind of error says which test failed. -/
theorem checkDeps_some (lf : Label.Facts) (vf : VFacts) (dirs : List Str) (t : VTarget) (deps : List VTarget)
    (i : Nat) (e : Err) (h : checkDeps lf vf dirs t deps = some (i, e)) :
    ∃ d, deps[i]? = some d ∧ codeOK lf vf dirs t d = false ∧
      (∀ j, j < i → ∀ d', deps[j]? = some d' → codeOK lf vf dirs t d' = true) ∧
      (e = .notVisible ↔ canSee lf vf dirs t.label d = false) := by
  induction deps generalizing i with
  | nil => simp [checkDeps] at h
  | cons d ds ih =>
    simp only [checkDeps] at h
    by_cases hA : canSee lf vf dirs t.label d = true
    · by_cases hB : (d.testOnly && !t.isTest && !t.testOnly) = true
      · by_cases hC : isExperimental lf dirs t.label = true
        · simp only [hA, hB, hC, Bool.not_true, Bool.false_eq_true, if_false, if_true] at h
          cases hr : checkDeps lf vf dirs t ds with
          | none => simp [hr, shift] at h
          | some ie =>
            obtain ⟨i', e'⟩ := ie
            simp [hr, shift] at h; obtain ⟨rfl, rfl⟩ := h
            obtain ⟨d0, h1, h2, h3, h4⟩ := ih i' hr
            refine ⟨d0, by simpa using h1, h2, ?_, h4⟩
            intro j hj d' hd'
            cases j with
            | zero => simp at hd'; rw [← hd']; simp [codeOK, hA, hC]
            | succ j => exact h3 j (by omega) d' (by simpa using hd')
        · simp only [hA, hB, hC, Bool.not_true, Bool.false_eq_true, if_false, if_true] at h
          simp at h; obtain ⟨rfl, rfl⟩ := h
          have hC' : isExperimental lf dirs t.label = false := by simpa using hC
          refine ⟨d, by simp, by simp [codeOK, hA, hB, hC'], by intro j hj; omega, ?_⟩
          simp [hA]
      · simp only [hA, hB, Bool.not_true, Bool.false_eq_true, if_false] at h
        cases hr : checkDeps lf vf dirs t ds with
        | none => simp [hr, shift] at h
        | some ie =>
          obtain ⟨i', e'⟩ := ie
          simp [hr, shift] at h; obtain ⟨rfl, rfl⟩ := h
          obtain ⟨d0, h1, h2, h3, h4⟩ := ih i' hr
          refine ⟨d0, by simpa using h1, h2, ?_, h4⟩
          intro j hj d' hd'
          cases j with
          | zero =>
            simp at hd'; rw [← hd']
            have hB' : (d.testOnly && !t.isTest && !t.testOnly) = false := by simpa using hB
            simp only [codeOK, hA, hB']; simp
          | succ j => exact h3 j (by omega) d' (by simpa using hd')
    · have hA' : canSee lf vf dirs t.label d = false := by simpa using hA
      simp only [hA', Bool.not_false, if_true] at h
      simp at h; obtain ⟨rfl, rfl⟩ := h
      exact ⟨d, by simp, by simp [codeOK, hA'], by intro j hj; omega, by simp [hA']⟩

end PlzVerif.Visibility
