import PlzVerif.Model.Cmd
/-! Helper lemmas for C37: the word splitter on quoted paths, `filepath.Join` with ".", the fuel of the
    label parser and of the regex pass. -/
namespace PlzVerif.Cmd

-- `cl% "abc"` is the character list `['a', 'b', 'c']` (string literals do not reduce in the kernel).
open Lean in
macro "cl%" s:str : term => do
  let cs := s.getString.toList.map fun c => Syntax.mkCharLit c
  `([$(cs.toArray),*])

/-! ### characters -/

theorem plain_not_special {c : Char} (h : plainChar c = true) :
    c ≠ ' ' ∧ c ≠ '\t' ∧ c ≠ '\'' ∧ c ≠ '"' ∧ c ≠ '\\' := by
  simp only [plainChar, specialChars, Bool.and_eq_true, decide_eq_true_eq, Bool.not_eq_true',
    List.contains_eq_mem, List.mem_cons, List.mem_nil_iff, or_false, decide_eq_false_iff_not, not_or] at h
  obtain ⟨⟨h32, _⟩, hs⟩ := h
  refine ⟨?_, ?_, hs.2.1, hs.1, hs.2.2.1⟩
  · rintro rfl; exact absurd h32 (by decide)
  · rintro rfl; exact absurd h32 (by decide)

theorem plain_unqLiteral {c : Char} (h : plainChar c = true) : unqLiteral c = true := by
  simp [unqLiteral, h]

theorem plain_dqLiteral {c : Char} (h : plainChar c = true) : dqLiteral c = true := by
  simp only [plainChar, specialChars, Bool.and_eq_true, decide_eq_true_eq, Bool.not_eq_true',
    List.contains_eq_mem, List.mem_cons, List.mem_nil_iff, or_false, decide_eq_false_iff_not, not_or] at h
  obtain ⟨⟨h32, h127⟩, hs⟩ := h
  simp only [dqLiteral, Bool.and_eq_true, decide_eq_true_eq, Bool.not_eq_true', List.contains_eq_mem,
    List.mem_cons, List.mem_nil_iff, or_false, decide_eq_false_iff_not, not_or]
  refine ⟨⟨by omega, h127⟩, hs.1, hs.2.2.1, hs.2.2.2.1, hs.2.2.2.2.1, ?_⟩
  exact hs.2.2.2.2.2.2.2.2.2.2.2.2.1

theorem dq_not_special {c : Char} (h : dqLiteral c = true) : c ≠ '"' ∧ c ≠ '\\' := by
  simp only [dqLiteral, Bool.and_eq_true, decide_eq_true_eq, Bool.not_eq_true', List.contains_eq_mem,
    List.mem_cons, List.mem_nil_iff, or_false, decide_eq_false_iff_not, not_or] at h
  exact ⟨h.2.1, h.2.2.1⟩

/-! ### the splitter on runs of ordinary characters -/

/-- One step on a literal unquoted character. -/
theorem sw_unq_step {c : Char} (st : Bool) (cur rest : Str) (h1 : c ≠ ' ') (h2 : c ≠ '\t') (h3 : c ≠ '\'')
    (h4 : c ≠ '"') (h5 : c ≠ '\\') (hu : unqLiteral c = true) :
    sw .unq st cur (c :: rest) = sw .unq true (c :: cur) rest := by
  rw [sw.eq_def]
  simp [h1, h2, h3, h4, h5, hu]

theorem sw_unq_space (st : Bool) (cur rest : Str) :
    sw .unq st cur (' ' :: rest) =
      if st then (sw .unq false [] rest).map (cur.reverse :: ·) else sw .unq false [] rest := by
  rw [sw.eq_def]
  simp

theorem sw_unq_dquote (st : Bool) (cur rest : Str) : sw .unq st cur ('"' :: rest) = sw .dq true cur rest := by
  rw [sw.eq_def]
  simp

theorem sw_dq_step {c : Char} (st : Bool) (cur rest : Str) (h1 : c ≠ '"') (h2 : c ≠ '\\') (hd : dqLiteral c = true) :
    sw .dq st cur (c :: rest) = sw .dq st (c :: cur) rest := by
  rw [sw.eq_def]
  simp [h1, h2, hd]

theorem sw_dq_close (st : Bool) (cur rest : Str) : sw .dq st cur ('"' :: rest) = sw .unq st cur rest := by
  rw [sw.eq_def]
  simp

theorem sw_unq_nil (st : Bool) (cur : Str) : sw .unq st cur [] = some (if st then [cur.reverse] else []) := by
  rw [sw.eq_def]

/-- A run of plain characters is appended to the current word. -/
theorem sw_unq_plain (p : Str) : ∀ (st : Bool) (cur rest : Str), (∀ c ∈ p, plainChar c = true) →
    sw .unq st cur (p ++ rest) = sw .unq (st || !p.isEmpty) (p.reverse ++ cur) rest := by
  induction p with
  | nil => intro st cur rest _; simp
  | cons c p ih =>
    intro st cur rest h
    have hc := h c (by simp)
    obtain ⟨h1, h2, h3, h4, h5⟩ := plain_not_special hc
    have hu := plain_unqLiteral hc
    have := ih true (c :: cur) rest (fun d hd => h d (by simp [hd]))
    rw [List.cons_append, sw_unq_step st cur _ h1 h2 h3 h4 h5 hu, this]
    simp

/-- Inside double quotes a run of dq-literal characters up to the closing quote is appended. -/
theorem sw_dq_lit (p : Str) : ∀ (st : Bool) (cur rest : Str), (∀ c ∈ p, dqLiteral c = true) →
    sw .dq st cur (p ++ '"' :: rest) = sw .unq st (p.reverse ++ cur) rest := by
  induction p with
  | nil => intro st cur rest _; simp [sw_dq_close]
  | cons c p ih =>
    intro st cur rest h
    have hc := h c (by simp)
    obtain ⟨h1, h2⟩ := dq_not_special hc
    have := ih st (c :: cur) rest (fun d hd => h d (by simp [hd]))
    rw [List.cons_append, sw_dq_step st cur _ h1 h2 hc, this]
    simp

/-! ### `quote` yields one word on good paths -/

/-- The characters `quote` can cope with: plain ones, and the ones it reacts to (which it wraps in
    double quotes, where they are literal). -/
def goodChar (q : QuoteFacts) (c : Char) : Bool := plainChar c || q.chars.contains c

def goodPath (q : QuoteFacts) (p : Str) : Bool := !p.isEmpty && p.all (goodChar q)

/-- What the proofs need of the regenerated `quote` facts. -/
def QuoteOK (q : QuoteFacts) : Prop :=
  q.left = ['"'] ∧ q.right = ['"'] ∧ ∀ c ∈ q.chars, dqLiteral c = true

theorem containsAny_false {s chars : Str} (h : containsAny s chars = false) : ∀ c ∈ s, chars.contains c = false := by
  intro c hc
  simp only [containsAny, List.any_eq_false] at h
  simpa using h c hc

/-- A good path followed by a blank: one word, then the rest. -/
theorem sw_quote_then {q : QuoteFacts} (hq : QuoteOK q) {p : Str} (hp : goodPath q p = true) (rest : Str) :
    sw .unq false [] (quote q p ++ ' ' :: rest) = (sw .unq false [] rest).map (p :: ·) := by
  obtain ⟨hl, hr, hcs⟩ := hq
  simp only [goodPath, Bool.and_eq_true, Bool.not_eq_true', List.all_eq_true] at hp
  obtain ⟨hne, hall⟩ := hp
  unfold quote
  by_cases hany : containsAny p q.chars = true
  · -- wrapped in double quotes
    have hd : ∀ c ∈ p, dqLiteral c = true := by
      intro c hc
      have := hall c hc
      simp only [goodChar, Bool.or_eq_true] at this
      rcases this with h | h
      · exact plain_dqLiteral h
      · exact hcs c (by simpa using h)
    simp only [hany, ↓reduceIte, hl, hr, List.cons_append, List.nil_append, List.append_assoc]
    have e := sw_dq_lit p true [] (' ' :: rest) hd
    rw [sw_unq_dquote, e, sw_unq_space]
    simp
  · have hany' : containsAny p q.chars = false := by simpa using hany
    have hpl : ∀ c ∈ p, plainChar c = true := by
      intro c hc
      have := hall c hc
      simp only [goodChar, Bool.or_eq_true] at this
      rcases this with h | h
      · exact h
      · have := containsAny_false hany' c hc; simp_all
    simp only [hany', Bool.false_eq_true, ↓reduceIte]
    rw [sw_unq_plain p false [] (' ' :: rest) hpl, sw_unq_space]
    simp [hne]

/-- A good path at the end of the text: one word. -/
theorem sw_quote_end {q : QuoteFacts} (hq : QuoteOK q) {p : Str} (hp : goodPath q p = true) :
    sw .unq false [] (quote q p) = some [p] := by
  obtain ⟨hl, hr, hcs⟩ := hq
  simp only [goodPath, Bool.and_eq_true, Bool.not_eq_true', List.all_eq_true] at hp
  obtain ⟨hne, hall⟩ := hp
  unfold quote
  by_cases hany : containsAny p q.chars = true
  · have hd : ∀ c ∈ p, dqLiteral c = true := by
      intro c hc
      have := hall c hc
      simp only [goodChar, Bool.or_eq_true] at this
      rcases this with h | h
      · exact plain_dqLiteral h
      · exact hcs c (by simpa using h)
    simp only [hany, ↓reduceIte, hl, hr, List.cons_append, List.nil_append]
    have e := sw_dq_lit p true [] [] hd
    rw [sw_unq_dquote, e, sw_unq_nil]
    simp
  · have hany' : containsAny p q.chars = false := by simpa using hany
    have hpl : ∀ c ∈ p, plainChar c = true := by
      intro c hc
      have := hall c hc
      simp only [goodChar, Bool.or_eq_true] at this
      rcases this with h | h
      · exact h
      · have := containsAny_false hany' c hc; simp_all
    simp only [hany', Bool.false_eq_true, ↓reduceIte]
    have := sw_unq_plain p false [] [] hpl
    simp only [List.append_nil] at this
    rw [this, sw_unq_nil]
    simp [hne]

/-- `quote p` of a good path does not end in a blank (so `TrimRight` removes only the separator). -/
theorem quote_getLast_ne_space {q : QuoteFacts} (hq : QuoteOK q) {p : Str} (hp : goodPath q p = true) :
    ∃ s c, quote q p = s ++ [c] ∧ c ≠ ' ' := by
  obtain ⟨hl, hr, hcs⟩ := hq
  simp only [goodPath, Bool.and_eq_true, Bool.not_eq_true', List.all_eq_true] at hp
  obtain ⟨hne, hall⟩ := hp
  unfold quote
  by_cases hany : containsAny p q.chars = true
  · simp only [hany, ↓reduceIte, hl, hr]
    exact ⟨'"' :: p, '"', by simp, by decide⟩
  · have hany' : containsAny p q.chars = false := by simpa using hany
    simp only [hany', Bool.false_eq_true, ↓reduceIte]
    have hp' : p ≠ [] := by intro h; simp [h] at hne
    refine ⟨p.dropLast, p.getLast hp', (List.dropLast_concat_getLast hp').symm, ?_⟩
    have hm : p.getLast hp' ∈ p := List.getLast_mem hp'
    have := hall _ hm
    simp only [goodChar, Bool.or_eq_true] at this
    rcases this with h | h
    · exact (plain_not_special h).1
    · have := containsAny_false hany' _ hm; simp_all

theorem trimRightSpaces_snoc (s : Str) (c : Char) (hc : c ≠ ' ') : trimRightSpaces (s ++ [c] ++ [' ']) = s ++ [c] := by
  simp [trimRightSpaces, List.dropWhile, hc]

theorem trimRightSpaces_nil : trimRightSpaces [] = [] := rfl

/-- The text `render` produces for good paths, before trimming, splits into exactly those paths. -/
theorem sw_render_body {q : QuoteFacts} (hq : QuoteOK q) : ∀ (paths : List Str), (∀ p ∈ paths, goodPath q p = true) →
    sw .unq false [] (paths.flatMap fun p => quote q p ++ [' ']) = some paths := by
  intro paths
  induction paths with
  | nil => intro _; simp [sw_unq_nil]
  | cons p ps ih =>
    intro h
    have := sw_quote_then hq (h p (by simp)) (ps.flatMap fun p => quote q p ++ [' '])
    simp only [List.flatMap_cons, List.append_assoc, List.singleton_append]
    rw [this, ih (fun x hx => h x (by simp [hx]))]
    rfl


theorem sw_body_then {q : QuoteFacts} (hq : QuoteOK q) : ∀ (ps : List Str) (tail : Str), (∀ p ∈ ps, goodPath q p = true) →
    sw .unq false [] ((ps.flatMap fun p => quote q p ++ [' ']) ++ tail) = (sw .unq false [] tail).map (ps ++ ·) := by
  intro ps
  induction ps with
  | nil => intro tail _; simp
  | cons p ps ih =>
    intro tail h
    have := sw_quote_then hq (h p (by simp)) ((ps.flatMap fun p => quote q p ++ [' ']) ++ tail)
    have e : ((p :: ps).flatMap fun p => quote q p ++ [' ']) ++ tail =
        quote q p ++ ' ' :: ((ps.flatMap fun p => quote q p ++ [' ']) ++ tail) := by simp
    rw [e, this, ih tail (fun x hx => h x (by simp [hx]))]
    cases sw .unq false [] tail <;> simp

/-- `render` on good paths: the shell sees exactly the paths. -/
theorem shellWords_render {q : QuoteFacts} (hq : QuoteOK q) (paths : List Str) (h : ∀ p ∈ paths, goodPath q p = true) :
    shellWords (render q paths) = some paths := by
  unfold shellWords render
  rcases List.eq_nil_or_concat paths with rfl | ⟨ps, last, rfl⟩
  · simp [trimRightSpaces, sw_unq_nil]
  · rw [List.concat_eq_append] at h ⊢
    have hl : goodPath q last = true := h last (by simp)
    obtain ⟨s, c, hs, hc⟩ := quote_getLast_ne_space hq hl
    have e : ((ps ++ [last]).flatMap fun p => quote q p ++ [' ']) =
        ((ps.flatMap fun p => quote q p ++ [' ']) ++ s) ++ [c] ++ [' '] := by
      simp [List.flatMap_append, hs]
    rw [e, trimRightSpaces_snoc _ _ hc]
    have e2 : (ps.flatMap fun p => quote q p ++ [' ']) ++ s ++ [c] = (ps.flatMap fun p => quote q p ++ [' ']) ++ quote q last := by
      simp [hs]
    rw [e2, sw_body_then hq ps _ (fun x hx => h x (by simp [hx])), sw_quote_end hq hl]
    simp


/-! ### `filepath.Join(".", o)` = `filepath.Join("", o)` -/

theorem splitOnChar_ne_nil (sep : Char) (s : Str) : splitOnChar sep s ≠ [] := by
  induction s with
  | nil => simp [splitOnChar]
  | cons c cs ih =>
    unfold splitOnChar
    cases h : splitOnChar sep cs with
    | nil => simp
    | cons w ws => by_cases hc : c = sep <;> simp [hc]

theorem splitOnChar_dot_slash (o : Str) : splitOnChar '/' ('.' :: '/' :: o) = ['.'] :: splitOnChar '/' o := by
  have h1 : splitOnChar '/' ('/' :: o) = [] :: splitOnChar '/' o := by
    rw [splitOnChar]
    cases h : splitOnChar '/' o with
    | nil => exact absurd h (splitOnChar_ne_nil _ _)
    | cons w ws => simp
  rw [splitOnChar, h1]
  simp

/-- The package directory of the root package is "."; joining an output to it gives what joining it to the
    (empty) package name gives. -/
theorem pathJoin_dot (o : Str) (h1 : o ≠ []) (h2 : hasPrefix o ['/'] = false) :
    pathJoin [['.'], o] = pathJoin [[], o] := by
  have e1 : pathJoin [[], o] = pathClean o := by
    simp [pathJoin, List.dropWhile, h1, joinWith]
  have e2 : pathJoin [['.'], o] = pathClean ('.' :: '/' :: o) := by
    simp [pathJoin, List.dropWhile, joinWith]
  rw [e1, e2]
  unfold pathClean
  have r1 : hasPrefix ('.' :: '/' :: o) ['/'] = false := by simp [hasPrefix, stripPrefix?]
  simp only [h1, ↓reduceIte, r1, h2, splitOnChar_dot_slash, List.foldl_cons, cleanStep, or_true, reduceCtorEq]

/-! ### membership in the linked paths -/

theorem mem_tmpPaths_of_src {t : Target} {i : Input} {l : Label} {dep : TSpec} {p : Str}
    (hi : i ∈ t.srcs) (hl : i.label = some l) (hd : dep ∈ t.dependenciesFor l) (hp : p ∈ dep.paths) :
    p ∈ t.tmpPaths := by
  unfold Target.tmpPaths
  simp only [List.mem_append, List.mem_flatMap]
  left
  refine ⟨i, hi, ?_⟩
  simp only [hl, List.mem_flatMap]
  exact ⟨dep, hd, hp⟩

theorem mem_tmpPaths_of_dep {t : Target} {d : DepDecl} {dep : TSpec} {p : Str}
    (hd : d ∈ t.deps) (hs : d.sourceOnly = false) (hdata : d.isData = false) (hm : dep ∈ d.deps)
    (ht : t.isTool dep.label = false) (hp : p ∈ dep.paths) : p ∈ t.tmpPaths := by
  unfold Target.tmpPaths
  simp only [List.mem_append, List.mem_flatMap]
  right
  refine ⟨d, hd, ?_⟩
  simp only [hs, hdata, Bool.or_self, Bool.false_eq_true, ↓reduceIte, List.mem_flatMap, List.mem_filter]
  exact ⟨dep, ⟨hm, by simp [ht]⟩, hp⟩

/-- The path `fileDestination` computes for a dependency's output in a build command is the path
    `BuildLabel.Paths` gives `IterSources`: both join the output to the package *directory* ("." for the root
    package). -/
theorem fileDestination_mem_paths (dep : TSpec) (out : Str) (ho : out ∈ dep.outs) :
    fileDestination false dep out false false false ∈ dep.paths := by
  simp only [fileDestination, Bool.false_eq_true, ↓reduceIte, Bool.and_false, handleDir, TSpec.paths, List.mem_map]
  exact ⟨out, ho, rfl⟩

theorem pkgDir_ne_nil (d : TSpec) : d.pkgDir ≠ [] := by
  unfold TSpec.pkgDir
  split <;> simp_all

/-! ### the regex pass: fuel, and commands that consist of a single sequence -/

theorem stripPrefix?_length : ∀ (s p r : Str), stripPrefix? s p = some r → s.length = p.length + r.length
  | s, [], r, h => by simp [stripPrefix?] at h; simp [h]
  | [], _ :: _, r, h => by simp [stripPrefix?] at h
  | c :: s, p :: ps, r, h => by
    simp only [stripPrefix?] at h
    split at h
    · have := stripPrefix?_length s ps r h; simp [this]; omega
    · cases h

theorem stripPrefix?_append : ∀ (p r : Str), stripPrefix? (p ++ r) p = some r
  | [], r => by cases r <;> simp [stripPrefix?]
  | c :: p, r => by simp [stripPrefix?, stripPrefix?_append p r]

theorem dropWhile_length_le (p : Char → Bool) : ∀ (l : Str), (l.dropWhile p).length ≤ l.length
  | [] => by simp
  | c :: l => by
    simp only [List.dropWhile]
    split
    · have := dropWhile_length_le p l; simp; omega
    · simp

theorem matchSeq_rest_length {kw s m rest : Str} (h : matchSeq kw s = some (m, rest)) : rest.length < s.length := by
  unfold matchSeq at h
  split at h
  · cases h
  · rename_i r hr
    have hl := stripPrefix?_length _ _ _ hr
    have hd : (r.dropWhile (· ≠ ')')).length ≤ r.length := dropWhile_length_le _ _
    dsimp only at h
    split at h
    · cases h
    · rename_i rest' _ hdw
      cases h
      rw [hdw] at hd
      simp at hd hl
      omega
    · cases h

/-- Fuel suffices: any two fuels at least the length of the text give the same result. -/
theorem replaceAll_fuel (kw : Str) (f : Str → Except Err Str) : ∀ (n m : Nat) (s : Str), s.length ≤ n → s.length ≤ m →
    replaceAll kw f n s = replaceAll kw f m s := by
  intro n
  induction n with
  | zero => intro m s hn _; cases s with
    | nil => cases m <;> simp [replaceAll]
    | cons c cs => simp at hn
  | succ n ih =>
    intro m s hn hm
    cases s with
    | nil => cases m <;> simp [replaceAll]
    | cons c cs =>
      cases m with
      | zero => simp at hm
      | succ m =>
        simp only [replaceAll]
        cases hms : matchSeq kw (c :: cs) with
        | none =>
          simp only
          rw [ih m cs (by simp at hn; omega) (by simp at hm; omega)]
        | some mr =>
          obtain ⟨mt, rest⟩ := mr
          have hl := matchSeq_rest_length hms
          simp only
          rw [ih m rest (by simp at hn hl; omega) (by simp at hm hl; omega)]

/-- With enough fuel the "out of fuel" error never arises by itself. -/
theorem replaceAll_no_fuel_error (kw : Str) (f : Str → Except Err Str) (hf : ∀ m, f m ≠ .error .slice) :
    ∀ (n : Nat) (s : Str), s.length ≤ n → replaceAll kw f n s ≠ .error .slice := by
  intro n
  induction n with
  | zero => intro s hn; cases s with
    | nil => simp [replaceAll]
    | cons c cs => simp at hn
  | succ n ih =>
    intro s hn
    cases s with
    | nil => simp [replaceAll]
    | cons c cs =>
      simp only [replaceAll]
      cases hms : matchSeq kw (c :: cs) with
      | none =>
        simp only
        have := ih cs (by simp at hn; omega)
        cases h : replaceAll kw f n cs with
        | error e => intro hh; simp [h, bind, Except.bind] at hh; exact this (by rw [h, hh])
        | ok v => simp [bind, Except.bind, pure, Except.pure]
      | some mr =>
        obtain ⟨mt, rest⟩ := mr
        have hl := matchSeq_rest_length hms
        simp only
        cases hfm : f mt with
        | error e => intro hh; simp [bind, Except.bind] at hh; exact hf mt (by rw [hfm, hh])
        | ok v =>
          have := ih rest (by simp at hn hl; omega)
          cases h : replaceAll kw f n rest with
          | error e => intro hh; simp [h, bind, Except.bind] at hh; exact this (by rw [h, hh])
          | ok w => simp [bind, Except.bind, pure, Except.pure]

theorem matchSeq_no_dollar {kw : Str} {c : Char} {cs : Str} (hc : c ≠ '$') : matchSeq kw (c :: cs) = none := by
  simp [matchSeq, stripPrefix?, hc]

/-- A text without `$` is left alone by every pass. -/
theorem replaceAll_no_dollar (kw : Str) (f : Str → Except Err Str) : ∀ (n : Nat) (s : Str), s.length ≤ n → '$' ∉ s →
    replaceAll kw f n s = .ok s := by
  intro n
  induction n with
  | zero => intro s hn _; cases s with
    | nil => simp [replaceAll]
    | cons c cs => simp at hn
  | succ n ih =>
    intro s hn hd
    cases s with
    | nil => simp [replaceAll]
    | cons c cs =>
      have hc : c ≠ '$' := by intro h; apply hd; simp [h]
      have hcs : '$' ∉ cs := by intro h; apply hd; simp [h]
      simp only [replaceAll, matchSeq_no_dollar hc]
      rw [ih cs (by simp at hn; omega) hcs]
      rfl

theorem unescapeDollar_no_dollar : ∀ (s : Str), '$' ∉ s → unescapeDollar s = s
  | [], _ => by simp [unescapeDollar]
  | [c], _ => by unfold unescapeDollar; split <;> simp_all [unescapeDollar]
  | c :: d :: rest, h => by
    have hd : d ≠ '$' := by intro e; apply h; simp [e]
    have hr : '$' ∉ d :: rest := by intro e; apply h; simp at e ⊢; right; exact e
    unfold unescapeDollar
    split
    · rename_i heq; simp at heq; exact absurd heq.2.1 hd
    · rename_i c' rest' _ heq
      simp at heq; obtain ⟨rfl, rfl⟩ := heq
      rw [unescapeDollar_no_dollar _ hr]
    · rename_i heq; simp at heq

/-- Another keyword does not match where `$(kw ` starts (keywords contain no blank). -/
theorem stripPrefix?_other_kw : ∀ (kw kw' tail : Str), kw ≠ kw' → ' ' ∉ kw → ' ' ∉ kw' →
    stripPrefix? (kw ++ ' ' :: tail) (kw' ++ [' ']) = none
  | [], [], _, h, _, _ => absurd rfl h
  | [], c' :: k', tail, _, _, h' => by
    have : c' ≠ ' ' := by intro e; apply h'; simp [e]
    simp [stripPrefix?, Ne.symm this]
  | c :: k, [], tail, _, h, _ => by
    have : c ≠ ' ' := by intro e; apply h; simp [e]
    simp [stripPrefix?, this]
  | c :: k, c' :: k', tail, hne, h, h' => by
    simp only [List.cons_append, stripPrefix?]
    split
    · rename_i hcc
      apply stripPrefix?_other_kw k k' tail
      · intro e; apply hne; rw [hcc, e]
      · intro e; apply h; simp [e]
      · intro e; apply h'; simp [e]
    · rfl

theorem matchSeq_other_kw (kw kw' tail : Str) (hne : kw ≠ kw') (h : ' ' ∉ kw) (h' : ' ' ∉ kw') :
    matchSeq kw' (['$', '('] ++ kw ++ ' ' :: tail) = none := by
  simp [matchSeq, stripPrefix?, stripPrefix?_other_kw kw kw' tail hne h h']

theorem takeWhile_until : ∀ (arg rest : Str), ')' ∉ arg → (arg ++ ')' :: rest).takeWhile (· ≠ ')') = arg
  | [], rest, _ => by simp [List.takeWhile]
  | c :: a, rest, h => by
    have hc : c ≠ ')' := by intro e; apply h; simp [e]
    have ha : ')' ∉ a := by intro e; apply h; simp [e]
    have ih := takeWhile_until a rest ha
    simp only [List.cons_append, List.takeWhile_cons, hc, ne_eq, not_false_eq_true, decide_true, ↓reduceIte, ih]

theorem dropWhile_until : ∀ (arg rest : Str), ')' ∉ arg → (arg ++ ')' :: rest).dropWhile (· ≠ ')') = ')' :: rest
  | [], rest, _ => by simp [List.dropWhile]
  | c :: a, rest, h => by
    have hc : c ≠ ')' := by intro e; apply h; simp [e]
    have ha : ')' ∉ a := by intro e; apply h; simp [e]
    have ih := dropWhile_until a rest ha
    simp only [List.cons_append, List.dropWhile_cons, hc, ne_eq, not_false_eq_true, decide_true, ↓reduceIte, ih]

/-- The text of one sequence. -/
def seqText (kw arg : Str) : Str := ['$', '('] ++ kw ++ [' '] ++ arg ++ [')']

theorem matchSeq_self (kw arg rest : Str) (ha : arg ≠ []) (hp : ')' ∉ arg) :
    matchSeq kw (seqText kw arg ++ rest) = some (seqText kw arg, rest) := by
  have e : seqText kw arg ++ rest = (['$', '('] ++ kw ++ [' ']) ++ (arg ++ ')' :: rest) := by simp [seqText]
  rw [e]
  unfold matchSeq
  rw [stripPrefix?_append]
  simp only [takeWhile_until arg rest hp, dropWhile_until arg rest hp]
  cases arg with
  | nil => exact absurd rfl ha
  | cons a as => simp [seqText]


theorem foldlM_id (pass : Str → SeqDef → Except Err Str) : ∀ (l : List SeqDef) (c : Str),
    (∀ sd ∈ l, pass c sd = .ok c) → l.foldlM pass c = .ok c
  | [], c, _ => rfl
  | sd :: l, c, h => by
    simp only [List.foldlM_cons, h sd (by simp), bind, Except.bind]
    exact foldlM_id pass l c (fun x hx => h x (by simp [hx]))

theorem seqText_cons (kw arg : Str) : seqText kw arg = '$' :: '(' :: (kw ++ ' ' :: (arg ++ [')'])) := by
  simp [seqText]

theorem replaceAll_step_none {kw : Str} {f : Str → Except Err Str} {n : Nat} {c : Char} {cs : Str}
    (h : matchSeq kw (c :: cs) = none) :
    replaceAll kw f (n + 1) (c :: cs) = (do let t ← replaceAll kw f n cs; pure (c :: t)) := by
  rw [replaceAll.eq_def]
  simp only [h]

theorem replaceAll_step_some {kw : Str} {f : Str → Except Err Str} {n : Nat} {c : Char} {cs m rest : Str}
    (h : matchSeq kw (c :: cs) = some (m, rest)) :
    replaceAll kw f (n + 1) (c :: cs) = (do let r ← f m; let t ← replaceAll kw f n rest; pure (r ++ t)) := by
  rw [replaceAll.eq_def]
  simp only [h]

theorem replaceAll_nil (kw : Str) (f : Str → Except Err Str) (n : Nat) : replaceAll kw f n [] = .ok [] := by
  cases n <;> simp [replaceAll]

/-- A pass for another keyword leaves a single-sequence command alone. -/
theorem seqPass_other (q : QuoteFacts) (root : Str) (t : Target) (test : Bool) (sd : SeqDef) (kw arg : Str)
    (hne : kw ≠ sd.kw) (h1 : ' ' ∉ kw) (h2 : ' ' ∉ sd.kw) (hk : '$' ∉ kw) (ha : '$' ∉ arg) :
    seqPass q root t test sd (seqText kw arg) = .ok (seqText kw arg) := by
  unfold seqPass
  rw [seqText_cons]
  have hm := matchSeq_other_kw kw sd.kw (arg ++ [')']) hne h1 h2
  simp only [List.cons_append, List.nil_append] at hm
  have hd : '$' ∉ '(' :: (kw ++ ' ' :: (arg ++ [')'])) := by
    simp only [List.mem_cons, List.mem_append, List.mem_nil_iff, or_false, not_or]
    exact ⟨by decide, hk, by decide, ha, by decide⟩
  rw [List.length_cons, replaceAll_step_none hm, replaceAll_no_dollar _ _ _ _ (Nat.le_refl _) hd]
  rfl

/-- The pass for the command's own keyword hands the argument to `replaceSequence`. -/
theorem seqPass_self (q : QuoteFacts) (root : Str) (t : Target) (test : Bool) (sd : SeqDef) (arg : Str)
    (ha : arg ≠ []) (hp : ')' ∉ arg) (hoff : sd.off = sd.kw.length + 3) :
    seqPass q root t test sd (seqText sd.kw arg) =
      replaceSequence q root t arg sd.runnable sd.multiple sd.dir sd.outPrefix sd.hash test := by
  unfold seqPass
  have hm := matchSeq_self sd.kw arg [] ha hp
  simp only [List.append_nil] at hm
  have hc := seqText_cons sd.kw arg
  have hlen : (seqText sd.kw arg).length = sd.kw.length + 3 + arg.length + 1 := by simp [seqText]; omega
  have hslice : ((seqText sd.kw arg).drop sd.off).take ((seqText sd.kw arg).length - sd.off - 1) = arg := by
    rw [hoff, hlen]
    have e : seqText sd.kw arg = (['$', '('] ++ sd.kw ++ [' ']) ++ (arg ++ [')']) := by simp [seqText]
    have hl : (['$', '('] ++ sd.kw ++ [' ']).length = sd.kw.length + 3 := by simp
    rw [e, ← hl, List.drop_left]
    have : (['$', '('] ++ sd.kw ++ [' ']).length + arg.length + 1 - (['$', '('] ++ sd.kw ++ [' ']).length - 1 = arg.length := by omega
    rw [this, List.take_left]
  have hno : ¬ (sd.off + 1 > (seqText sd.kw arg).length) := by rw [hoff, hlen]; omega
  generalize seqText sd.kw arg = s at *
  subst hc
  rw [List.length_cons, replaceAll_step_some hm, replaceAll_nil]
  simp only [hno, ↓reduceIte, hslice]
  cases replaceSequence q root t arg sd.runnable sd.multiple sd.dir sd.outPrefix sd.hash test with
  | error e => rfl
  | ok r => simp [bind, Except.bind, pure, Except.pure]


/-- What the single-sequence theorem needs of a sequence table. -/
def SeqsOK (seqs : List SeqDef) : Prop :=
  (seqs.map (·.kw)).Nodup ∧ ∀ sd ∈ seqs, ' ' ∉ sd.kw ∧ '$' ∉ sd.kw ∧ sd.off = sd.kw.length + 3

/-- A command that consists of exactly one sequence `$(kw arg)`: the passes before the keyword's own pass
    leave it alone, its own pass hands `arg` to `replaceSequence`. -/
theorem replaceSequences_single_prefix (pre post : List SeqDef) (sd : SeqDef) (hs : SeqsOK (pre ++ sd :: post))
    (q : QuoteFacts) (root : Str) (t : Target) (test : Bool) (arg : Str) (ha : arg ≠ []) (hp : ')' ∉ arg) (hd : '$' ∉ arg) :
    (pre ++ [sd]).foldlM (fun c sd => seqPass q root t test sd c) (seqText sd.kw arg) =
      replaceSequence q root t arg sd.runnable sd.multiple sd.dir sd.outPrefix sd.hash test := by
  obtain ⟨hnd, hall⟩ := hs
  have hsdok := hall sd (by simp)
  have hpre : ∀ x ∈ pre, sd.kw ≠ x.kw := by
    intro x hx e
    rw [List.map_append, List.map_cons, List.nodup_append] at hnd
    exact hnd.2.2 x.kw (List.mem_map.mpr ⟨x, hx, rfl⟩) sd.kw (by simp) e.symm
  have e1 : pre.foldlM (fun c sd => seqPass q root t test sd c) (seqText sd.kw arg) = .ok (seqText sd.kw arg) :=
    foldlM_id _ pre _ (fun x hx => by
      have hx' := hall x (by simp [hx])
      exact seqPass_other q root t test x sd.kw arg (hpre x hx) hsdok.1 hx'.1 hsdok.2.1 hd)
  rw [List.foldlM_append, e1]
  simp only [bind, Except.bind, List.foldlM_cons, List.foldlM_nil, seqPass_self q root t test sd arg ha hp hsdok.2.2]
  cases replaceSequence q root t arg sd.runnable sd.multiple sd.dir sd.outPrefix sd.hash test <;> rfl

/-- … and when `replaceSequence` rejects, the whole command is rejected with the same error. -/
theorem replaceSequences_single_err (seqs : List SeqDef) (hs : SeqsOK seqs) (q : QuoteFacts) (root : Str) (t : Target)
    (test : Bool) (sd : SeqDef) (hsd : sd ∈ seqs) (arg : Str) (ha : arg ≠ []) (hp : ')' ∉ arg) (hd : '$' ∉ arg) (e : Err)
    (hr : replaceSequence q root t arg sd.runnable sd.multiple sd.dir sd.outPrefix sd.hash test = .error e) :
    replaceSequences seqs q root t test (seqText sd.kw arg) = .error e := by
  obtain ⟨pre, post, rfl⟩ := List.append_of_mem hsd
  have h1 := replaceSequences_single_prefix pre post sd hs q root t test arg ha hp hd
  unfold replaceSequences
  have e0 : pre ++ sd :: post = (pre ++ [sd]) ++ post := by simp
  rw [e0, List.foldlM_append, h1, hr]
  rfl

/-- … and when it expands to a text without `$` (nothing for a later pass to re-scan, no `\$` to
    unescape), that text is the result of the whole command. -/
theorem replaceSequences_single_ok (seqs : List SeqDef) (hs : SeqsOK seqs) (q : QuoteFacts) (root : Str) (t : Target)
    (test : Bool) (sd : SeqDef) (hsd : sd ∈ seqs) (arg : Str) (ha : arg ≠ []) (hp : ')' ∉ arg) (hd : '$' ∉ arg) (r : Str)
    (hr : replaceSequence q root t arg sd.runnable sd.multiple sd.dir sd.outPrefix sd.hash test = .ok r) (hdr : '$' ∉ r) :
    replaceSequences seqs q root t test (seqText sd.kw arg) = .ok r := by
  obtain ⟨pre, post, rfl⟩ := List.append_of_mem hsd
  have h1 := replaceSequences_single_prefix pre post sd hs q root t test arg ha hp hd
  have e2 : post.foldlM (fun c sd => seqPass q root t test sd c) r = .ok r :=
    foldlM_id _ post _ (fun x _ => by
      unfold seqPass
      exact replaceAll_no_dollar _ _ _ _ (Nat.le_refl _) hdr)
  unfold replaceSequences
  have e0 : pre ++ sd :: post = (pre ++ [sd]) ++ post := by simp
  rw [e0, List.foldlM_append, h1, hr]
  simp only [bind, Except.bind, e2, pure, Except.pure, unescapeDollar_no_dollar r hdr]


/-! ### the label parser: fuel suffices -/

/-- Any two fuels larger than the length of the label text give the same parse: the recursion of
    `ParseBuildLabelParts`/`parseBuildLabelSubrepo` is always on a strictly shorter suffix. -/
theorem parseParts_fuel : ∀ (n m : Nat) (target cp sub : Str), target.length < n → target.length < m →
    parseParts n target cp sub = parseParts m target cp sub := by
  intro n
  induction n with
  | zero => intro m target cp sub hn; omega
  | succ n ih =>
    intro m target cp sub hn hm
    cases m with
    | zero => omega
    | succ m =>
      by_cases h2 : target.length < 2
      · simp [parseParts, h2]
      · have k1 : ∀ idx, parseParts n ((target.drop 1).drop idx) cp [] = parseParts m ((target.drop 1).drop idx) cp [] := by
          intro idx
          apply ih <;> simp [List.length_drop] <;> omega
        have k3 : ∀ idx, parseParts n ((target.drop 3).drop idx) cp [] = parseParts m ((target.drop 3).drop idx) cp [] := by
          intro idx
          apply ih <;> simp [List.length_drop] <;> omega
        simp only [parseParts, k1, k3]

theorem tryParseLabel_fuel (n : Nat) (target cp sub : Str) (hn : target.length < n) :
    tryParseLabel target cp sub =
      (let r := parseParts n target cp sub; if r.2.1 = [] then none else some ⟨r.2.2, r.1, r.2.1⟩) := by
  unfold tryParseLabel
  rw [parseParts_fuel (target.length + 1) n target cp sub (by omega) hn]


/-! ### a sequence inside a longer command: `pre ++ $(kw arg) ++ post` with no other `$` -/

/-- A `$`-free prefix is copied by every pass. -/
theorem replaceAll_prefix (kw : Str) (f : Str → Except Err Str) : ∀ (pre s : Str) (n : Nat), '$' ∉ pre →
    replaceAll kw f (n + pre.length) (pre ++ s) = (do let t ← replaceAll kw f n s; pure (pre ++ t)) := by
  intro pre
  induction pre with
  | nil => intro s n _; simp only [List.length_nil, Nat.add_zero, List.nil_append]; cases replaceAll kw f n s <;> rfl
  | cons c cs ih =>
    intro s n hd
    have hc : c ≠ '$' := by intro e; apply hd; simp [e]
    have hcs : '$' ∉ cs := by intro e; apply hd; simp [e]
    rw [show n + (c :: cs).length = (n + cs.length) + 1 from by simp; omega, List.cons_append,
      replaceAll_step_none (matchSeq_no_dollar hc), ih s n hcs]
    cases replaceAll kw f n s <;> rfl

/-- The text of a command with one sequence in the middle. -/
def inCtx (pre mid post : Str) : Str := pre ++ mid ++ post

theorem seqPass_other_ctx (q : QuoteFacts) (root : Str) (t : Target) (test : Bool) (sd : SeqDef) (kw arg pre post : Str)
    (hne : kw ≠ sd.kw) (h1 : ' ' ∉ kw) (h2 : ' ' ∉ sd.kw) (hk : '$' ∉ kw) (ha : '$' ∉ arg)
    (hpre : '$' ∉ pre) (hpost : '$' ∉ post) :
    seqPass q root t test sd (inCtx pre (seqText kw arg) post) = .ok (inCtx pre (seqText kw arg) post) := by
  unfold seqPass inCtx
  have hlen : (pre ++ seqText kw arg ++ post).length = ((seqText kw arg ++ post).length) + pre.length := by
    simp; omega
  rw [hlen, List.append_assoc, replaceAll_prefix _ _ pre _ _ hpre, seqText_cons]
  have hm := matchSeq_other_kw kw sd.kw (arg ++ [')'] ++ post) hne h1 h2
  simp only [List.cons_append, List.nil_append, List.append_assoc] at hm ⊢
  have hd : '$' ∉ '(' :: (kw ++ ' ' :: (arg ++ ')' :: post)) := by
    simp only [List.mem_cons, List.mem_append, not_or]
    exact ⟨by decide, hk, by decide, ha, by decide, hpost⟩
  rw [List.length_cons, replaceAll_step_none hm, replaceAll_no_dollar _ _ _ _ (Nat.le_refl _) hd]
  rfl

theorem seqPass_self_ctx (q : QuoteFacts) (root : Str) (t : Target) (test : Bool) (sd : SeqDef) (arg pre post : Str)
    (ha : arg ≠ []) (hp : ')' ∉ arg) (hoff : sd.off = sd.kw.length + 3) (hpre : '$' ∉ pre) (hpost : '$' ∉ post) :
    seqPass q root t test sd (inCtx pre (seqText sd.kw arg) post) =
      (do let r ← replaceSequence q root t arg sd.runnable sd.multiple sd.dir sd.outPrefix sd.hash test
          pure (inCtx pre r post)) := by
  unfold seqPass inCtx
  have hlen : (pre ++ seqText sd.kw arg ++ post).length = ((seqText sd.kw arg ++ post).length) + pre.length := by
    simp; omega
  rw [hlen, List.append_assoc, replaceAll_prefix _ _ pre _ _ hpre]
  have hm := matchSeq_self sd.kw arg post ha hp
  have hc := seqText_cons sd.kw arg
  have hlen2 : (seqText sd.kw arg).length = sd.kw.length + 3 + arg.length + 1 := by simp [seqText]; omega
  have hslice : ((seqText sd.kw arg).drop sd.off).take ((seqText sd.kw arg).length - sd.off - 1) = arg := by
    rw [hoff, hlen2]
    have e : seqText sd.kw arg = (['$', '('] ++ sd.kw ++ [' ']) ++ (arg ++ [')']) := by simp [seqText]
    have hl : (['$', '('] ++ sd.kw ++ [' ']).length = sd.kw.length + 3 := by simp
    rw [e, ← hl, List.drop_left]
    have : (['$', '('] ++ sd.kw ++ [' ']).length + arg.length + 1 - (['$', '('] ++ sd.kw ++ [' ']).length - 1 = arg.length := by omega
    rw [this, List.take_left]
  have hno : ¬ (sd.off + 1 > (seqText sd.kw arg).length) := by rw [hoff, hlen2]; omega
  generalize seqText sd.kw arg = s at *
  subst hc
  simp only [List.cons_append] at hm ⊢
  rw [List.length_cons, replaceAll_step_some hm, replaceAll_no_dollar _ _ _ _ (by simp; omega) hpost]
  simp only [hno, ↓reduceIte, hslice]
  cases replaceSequence q root t arg sd.runnable sd.multiple sd.dir sd.outPrefix sd.hash test with
  | error e => rfl
  | ok r => simp [bind, Except.bind, pure, Except.pure]

theorem not_mem_append3 {c : Char} {a b d : Str} (h1 : c ∉ a) (h2 : c ∉ b) (h3 : c ∉ d) : c ∉ inCtx a b d := by
  simp [inCtx, h1, h2, h3]

/-- One sequence inside a command with no other `$`: rejected exactly when `replaceSequence` rejects … -/
theorem replaceSequences_ctx_err (seqs : List SeqDef) (hs : SeqsOK seqs) (q : QuoteFacts) (root : Str) (t : Target)
    (test : Bool) (sd : SeqDef) (hsd : sd ∈ seqs) (arg pre post : Str) (ha : arg ≠ []) (hp : ')' ∉ arg) (hd : '$' ∉ arg)
    (hpre : '$' ∉ pre) (hpost : '$' ∉ post) (e : Err)
    (hr : replaceSequence q root t arg sd.runnable sd.multiple sd.dir sd.outPrefix sd.hash test = .error e) :
    replaceSequences seqs q root t test (inCtx pre (seqText sd.kw arg) post) = .error e := by
  obtain ⟨pre', post', rfl⟩ := List.append_of_mem hsd
  obtain ⟨hnd, hall⟩ := hs
  have hsdok := hall sd (by simp)
  have hpre' : ∀ x ∈ pre', sd.kw ≠ x.kw := by
    intro x hx e
    rw [List.map_append, List.map_cons, List.nodup_append] at hnd
    exact hnd.2.2 x.kw (List.mem_map.mpr ⟨x, hx, rfl⟩) sd.kw (by simp) e.symm
  have e1 : pre'.foldlM (fun c sd => seqPass q root t test sd c) (inCtx pre (seqText sd.kw arg) post) =
      .ok (inCtx pre (seqText sd.kw arg) post) :=
    foldlM_id _ pre' _ (fun x hx => by
      have hx' := hall x (by simp [hx])
      exact seqPass_other_ctx q root t test x sd.kw arg pre post (hpre' x hx) hsdok.1 hx'.1 hsdok.2.1 hd hpre hpost)
  unfold replaceSequences
  rw [List.foldlM_append, e1]
  simp only [bind, Except.bind, List.foldlM_cons, seqPass_self_ctx q root t test sd arg pre post ha hp hsdok.2.2 hpre hpost, hr]

/-- … and otherwise the expansion replaces the sequence in place, the rest of the command untouched. -/
theorem replaceSequences_ctx_ok (seqs : List SeqDef) (hs : SeqsOK seqs) (q : QuoteFacts) (root : Str) (t : Target)
    (test : Bool) (sd : SeqDef) (hsd : sd ∈ seqs) (arg pre post : Str) (ha : arg ≠ []) (hp : ')' ∉ arg) (hd : '$' ∉ arg)
    (hpre : '$' ∉ pre) (hpost : '$' ∉ post) (r : Str)
    (hr : replaceSequence q root t arg sd.runnable sd.multiple sd.dir sd.outPrefix sd.hash test = .ok r) (hdr : '$' ∉ r) :
    replaceSequences seqs q root t test (inCtx pre (seqText sd.kw arg) post) = .ok (inCtx pre r post) := by
  obtain ⟨pre', post', rfl⟩ := List.append_of_mem hsd
  obtain ⟨hnd, hall⟩ := hs
  have hsdok := hall sd (by simp)
  have hpre' : ∀ x ∈ pre', sd.kw ≠ x.kw := by
    intro x hx e
    rw [List.map_append, List.map_cons, List.nodup_append] at hnd
    exact hnd.2.2 x.kw (List.mem_map.mpr ⟨x, hx, rfl⟩) sd.kw (by simp) e.symm
  have e1 : pre'.foldlM (fun c sd => seqPass q root t test sd c) (inCtx pre (seqText sd.kw arg) post) =
      .ok (inCtx pre (seqText sd.kw arg) post) :=
    foldlM_id _ pre' _ (fun x hx => by
      have hx' := hall x (by simp [hx])
      exact seqPass_other_ctx q root t test x sd.kw arg pre post (hpre' x hx) hsdok.1 hx'.1 hsdok.2.1 hd hpre hpost)
  have hnd' : '$' ∉ inCtx pre r post := not_mem_append3 hpre hdr hpost
  have e2 : post'.foldlM (fun c sd => seqPass q root t test sd c) (inCtx pre r post) = .ok (inCtx pre r post) :=
    foldlM_id _ post' _ (fun x _ => by
      unfold seqPass
      exact replaceAll_no_dollar _ _ _ _ (Nat.le_refl _) hnd')
  unfold replaceSequences
  rw [List.foldlM_append, e1]
  simp only [bind, Except.bind, List.foldlM_cons, seqPass_self_ctx q root t test sd arg pre post ha hp hsdok.2.2 hpre hpost, hr,
    pure, Except.pure, e2, unescapeDollar_no_dollar _ hnd']

end PlzVerif.Cmd
