import PlzVerif.Lemmas.BuildNoop
/-!
C03, whole-build form of "only if changed": every key in the run list of a build has a reason that can be read off
the plz-out before the build and the plz-out after it — its output was missing, or the rule pre-image recorded in
its stamp differs from the current one, or the recorded (name, pre-image) list of inputs differs from the current
inputs (dependency outputs as they are after the build).  No injectivity is needed.
-/
namespace PlzVerif.Build
set_option linter.unusedSectionVars false
set_option linter.unusedSimpArgs false

variable {K A F N C S H : Type} [DecidableEq K] [DecidableEq S] [DecidableEq N] [DecidableEq H]
variable (fx : Facts) (mv : C → C → C) (exec : A → List (N × C) → C) (ruleSer : A → S) (pathSer : C → H)

/-- Why the action of `t` ran: `before` is plz-out when the build started, `after` when it ended. -/
def RanReason (r : Repo K A F N C) (before after : Out K C S N H) (t : Target K A F) : Prop :=
  before t.key = none ∨
  ∃ c st, before t.key = some (c, st) ∧
    (st.rule ≠ ruleSer t.attrs ∨
     ∀ ins, inputs r after t = some ins → st.ins ≠ ins.map (fun p => (p.1, pathSer p.2)))

/-- One step: if the action ran, the output was missing or the stamp differs from the current one. -/
theorem buildOne_ran_reason (hf : fx.cmpRule = true ∧ fx.cmpSource = true) (r : Repo K A F N C) (out : Out K C S N H)
    (t : Target K A F) (hran : (buildOne fx mv exec ruleSer pathSer r out t).2 = true) :
    ∃ ins, inputs r out t = some ins ∧
      (out t.key = none ∨ ∃ c st, out t.key = some (c, st) ∧ st ≠ stampOf ruleSer pathSer t.attrs ins) := by
  unfold buildOne at hran
  cases hin : inputs r out t with
  | none => simp [hin] at hran
  | some ins =>
    refine ⟨ins, rfl, ?_⟩
    rw [hin] at hran
    simp only at hran
    cases ho : out t.key with
    | none => exact Or.inl rfl
    | some p =>
      obtain ⟨c0, st0⟩ := p
      right
      refine ⟨c0, st0, rfl, ?_⟩
      simp only [ho] at hran
      split at hran
      · simp at hran
      · rename_i hne
        intro e; exact hne ((stampEq_iff fx hf _ _).mpr e)

theorem buildList_ran_reason (hf : fx.cmpRule = true ∧ fx.cmpSource = true) (r : Repo K A F N C) (sel : K → Bool) :
    ∀ (ts : List (Target K A F)) (seen : List K) (out : Out K C S N H), WFList sel seen ts →
      ∀ k ∈ (buildList fx mv exec ruleSer pathSer r sel ts out).2,
        ∃ t ∈ ts, t.key = k ∧ sel t.key = true ∧
          RanReason ruleSer pathSer r out (buildList fx mv exec ruleSer pathSer r sel ts out).1 t := by
  intro ts
  induction ts with
  | nil => intro seen out _ k hk; simp [buildList] at hk
  | cons t ts ih =>
    intro seen out hwf k hk
    by_cases hs : sel t.key = true
    · simp only [WFList, hs, if_true] at hwf
      obtain ⟨hd, hnew, hwf'⟩ := hwf
      have hdisj := wf_selKeys_not_seen sel ts (seen ++ [t.key]) hwf'
      simp only [buildList, hs, if_true] at hk ⊢
      -- the rest of the list does not touch `t.key` nor the keys in `seen`
      have hframe : ∀ j, j ∈ seen ++ [t.key] →
          (buildList fx mv exec ruleSer pathSer r sel ts (buildOne fx mv exec ruleSer pathSer r out t).1).1 j =
            (buildOne fx mv exec ruleSer pathSer r out t).1 j :=
        fun j hj => buildList_frame fx mv exec ruleSer pathSer r sel ts _ j (fun hm => hdisj j hm hj)
      have hhere : (buildOne fx mv exec ruleSer pathSer r out t).2 = true → k = t.key →
          ∃ t' ∈ t :: ts, t'.key = k ∧ sel t'.key = true ∧ RanReason ruleSer pathSer r out
            (buildList fx mv exec ruleSer pathSer r sel ts (buildOne fx mv exec ruleSer pathSer r out t).1).1 t' := by
        intro hran hkt
        obtain ⟨ins, hin, hreason⟩ := buildOne_ran_reason fx mv exec ruleSer pathSer hf r out t hran
        refine ⟨t, List.mem_cons_self .., hkt.symm, hs, ?_⟩
        rcases hreason with h | ⟨c, st, ho, hne⟩
        · exact Or.inl h
        · right
          refine ⟨c, st, ho, ?_⟩
          -- inputs of `t` in the final plz-out are its inputs at the time it was built
          have hins : inputs r (buildList fx mv exec ruleSer pathSer r sel ts (buildOne fx mv exec ruleSer pathSer r out t).1).1 t
              = some ins := by
            rw [inputs_congr r out _ t]; exact hin
            intro d hdm
            have hds : d ∈ seen := hd d hdm
            rw [hframe d (List.mem_append_left _ hds)]
            exact buildOne_other fx mv exec ruleSer pathSer r out t d (fun e => hnew (e ▸ hds))
          obtain ⟨sr, si⟩ := st
          simp only [stampOf, ne_eq, Stamp.mk.injEq] at hne
          by_cases h1 : sr = ruleSer t.attrs
          · right
            intro ins' hi'
            rw [hins] at hi'
            have : ins' = ins := (Option.some.inj hi').symm
            subst this
            exact fun h2 => hne ⟨h1, h2⟩
          · exact Or.inl h1
      have hrest : k ∈ (buildList fx mv exec ruleSer pathSer r sel ts (buildOne fx mv exec ruleSer pathSer r out t).1).2 →
          ∃ t' ∈ t :: ts, t'.key = k ∧ sel t'.key = true ∧ RanReason ruleSer pathSer r out
            (buildList fx mv exec ruleSer pathSer r sel ts (buildOne fx mv exec ruleSer pathSer r out t).1).1 t' := by
        intro hk'
        obtain ⟨t', ht', hk1, hs', hr'⟩ := ih (seen ++ [t.key]) _ hwf' k hk'
        refine ⟨t', List.mem_cons_of_mem _ ht', hk1, hs', ?_⟩
        -- `t'` is a later target: its entry was not touched by building `t`
        have hmem : t'.key ∈ selKeys sel ts := by
          simp only [selKeys, List.mem_map, List.mem_filter]
          exact ⟨t', ⟨ht', hs'⟩, rfl⟩
        have hne : t'.key ≠ t.key := fun e => hdisj _ hmem (by simp [e])
        have hsame := buildOne_other fx mv exec ruleSer pathSer r out t t'.key hne
        unfold RanReason at hr' ⊢
        rw [hsame] at hr'
        exact hr'
      by_cases hran : (buildOne fx mv exec ruleSer pathSer r out t).2 = true
      · simp only [hran, if_true, List.mem_cons] at hk
        rcases hk with hk | hk
        · exact hhere hran hk
        · exact hrest hk
      · simp only [hran, Bool.false_eq_true, if_false] at hk
        exact hrest hk
    · simp only [Bool.not_eq_true] at hs
      simp only [WFList, hs] at hwf
      simp only [buildList, hs] at hk ⊢
      obtain ⟨t', ht', h1, h2, h3⟩ := ih seen out (by simpa using hwf) k hk
      exact ⟨t', List.mem_cons_of_mem _ ht', h1, h2, h3⟩

end PlzVerif.Build
