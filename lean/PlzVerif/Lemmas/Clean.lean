import PlzVerif.Model.Clean
/-!
The eviction loop, for ANY order of the candidates.
-/
namespace PlzVerif.Clean

theorem sizeSum_nil : sizeSum [] = 0 := rfl
theorem sizeSum_cons (e : Entry) (l : List Entry) : sizeSum (e :: l) = e.size + sizeSum l := by
  simp [sizeSum]
theorem sizeSum_append (a b : List Entry) : sizeSum (a ++ b) = sizeSum a + sizeSum b := by
  simp [sizeSum, List.sum_append]

theorem sizeSum_perm {a b : List Entry} (h : a.Perm b) : sizeSum a = sizeSum b := by
  induction h with
  | nil => rfl
  | cons x _ ih => simp [sizeSum_cons, ih]
  | swap x y l => simp [sizeSum_cons]; omega
  | trans _ _ ih1 ih2 => exact ih1.trans ih2

/-! ### the walk -/

theorem scan_aux (marks : Marks) : ∀ (found : List Entry) (acc : List Entry × Nat),
    sizeSum acc.1 ≤ acc.2 → (∀ e ∈ acc.1, marks e.path = none) →
    let r := found.foldl (fun acc e =>
      match marks e.path with
      | some sz => (acc.1, acc.2 + sz)
      | none => (acc.1 ++ [e], acc.2 + e.size)) acc
    sizeSum r.1 ≤ r.2 ∧ (∀ e ∈ r.1, marks e.path = none) ∧ (∀ e ∈ r.1, e ∈ acc.1 ∨ e ∈ found) := by
  intro found
  induction found with
  | nil => intro acc h1 h2; exact ⟨h1, h2, fun e he => Or.inl he⟩
  | cons x xs ih =>
    intro acc h1 h2
    simp only [List.foldl_cons]
    cases hm : marks x.path with
    | some sz =>
      have := ih (acc.1, acc.2 + sz) (by simp only; omega) h2
      simp only at this
      refine ⟨this.1, this.2.1, ?_⟩
      intro e he
      rcases this.2.2 e he with h | h
      · exact Or.inl h
      · exact Or.inr (List.mem_cons_of_mem _ h)
    | none =>
      have := ih (acc.1 ++ [x], acc.2 + x.size)
        (by simp only [sizeSum_append, sizeSum_cons, sizeSum_nil]; omega)
        (by intro e he
            rcases List.mem_append.mp he with h | h
            · exact h2 e h
            · simp only [List.mem_cons, List.mem_nil_iff, or_false] at h; subst h; exact hm)
      simp only at this
      refine ⟨this.1, this.2.1, ?_⟩
      intro e he
      rcases this.2.2 e he with h | h
      · rcases List.mem_append.mp h with h | h
        · exact Or.inl h
        · simp only [List.mem_cons, List.mem_nil_iff, or_false] at h
          subst h; exact Or.inr (List.mem_cons_self ..)
      · exact Or.inr (List.mem_cons_of_mem _ h)

/-- The candidates are unmarked entries found on disk, and their sizes are part of the total. -/
theorem scan_spec (marks : Marks) (found : List Entry) :
    sizeSum (scan marks found).1 ≤ (scan marks found).2 ∧
    (∀ e ∈ (scan marks found).1, marks e.path = none) ∧
    (∀ e ∈ (scan marks found).1, e ∈ found) := by
  have := scan_aux marks found ([], 0) (by simp [sizeSum]) (by intro e he; cases he)
  simp only at this
  refine ⟨this.1, this.2.1, ?_⟩
  intro e he
  rcases this.2.2 e he with h | h
  · cases h
  · exact h

/-! ### the loop -/

/-- Nothing marked (as the loop sees it) and nothing whose removal fails is ever evicted. -/
theorem evict_unmarked (marks' : Marks) (ok : Bytes → Bool) (low : Nat) : ∀ (l : List Entry) (t : Nat),
    ∀ e ∈ (evict marks' ok low l t).1, marks' e.path = none ∧ ok e.path = true := by
  intro l
  induction l with
  | nil => intro t e he; simp [evict] at he
  | cons x xs ih =>
    intro t e he
    simp only [evict] at he
    by_cases hm : (marks' x.path).isSome = true
    · simp only [hm, if_true] at he; exact ih t e he
    · simp only [hm, Bool.false_eq_true, if_false] at he
      by_cases hk : ok x.path = true
      · simp only [hk, Bool.not_true, Bool.false_eq_true, if_false] at he
        have hxm : marks' x.path = none := by
          cases h : marks' x.path with
          | none => rfl
          | some v => simp [h] at hm
        by_cases hl : t - x.size < low
        · simp only [hl, if_true, List.mem_cons, List.mem_nil_iff, or_false] at he
          subst he; exact ⟨hxm, hk⟩
        · simp only [hl, if_false, List.mem_cons] at he
          rcases he with h | h
          · subst h; exact ⟨hxm, hk⟩
          · exact ih _ e h
      · have hk' : ok x.path = false := by simpa using hk
        simp only [hk', Bool.not_false, if_true] at he
        exact ih t e he

/-- Evicted and kept together are exactly the input (as multisets). -/
theorem evict_perm (marks' : Marks) (ok : Bytes → Bool) (low : Nat) : ∀ (l : List Entry) (t : Nat),
    ((evict marks' ok low l t).1 ++ (evict marks' ok low l t).2.1).Perm l := by
  intro l
  induction l with
  | nil => intro t; simp [evict]
  | cons x xs ih =>
    intro t
    simp only [evict]
    by_cases hm : (marks' x.path).isSome = true
    · simp only [hm, if_true]
      exact (List.perm_middle).trans ((ih t).cons x)
    · simp only [hm, Bool.false_eq_true, if_false]
      by_cases hk : ok x.path = true
      · simp only [hk, Bool.not_true, Bool.false_eq_true, if_false]
        by_cases hl : t - x.size < low
        · simp only [hl, if_true]; exact List.Perm.refl _
        · simp only [hl, if_false, List.cons_append]
          exact (ih _).cons x
      · have hk' : ok x.path = false := by simpa using hk
        simp only [hk', Bool.not_false, if_true]
        exact (List.perm_middle).trans ((ih t).cons x)

/-- Accounting: nothing is subtracted twice and the unsigned subtraction never wraps, so the returned total is
    the walked total minus what was evicted, and what is kept still fits inside it. -/
theorem evict_total (marks' : Marks) (ok : Bytes → Bool) (low : Nat) : ∀ (l : List Entry) (t : Nat),
    sizeSum l ≤ t →
    (evict marks' ok low l t).2.2 + sizeSum (evict marks' ok low l t).1 = t ∧
    sizeSum (evict marks' ok low l t).2.1 ≤ (evict marks' ok low l t).2.2 := by
  intro l
  induction l with
  | nil => intro t _; simp [evict, sizeSum]
  | cons x xs ih =>
    intro t ht
    rw [sizeSum_cons] at ht
    simp only [evict]
    by_cases hm : (marks' x.path).isSome = true
    · simp only [hm, if_true]
      have := ih t (by omega)
      refine ⟨this.1, ?_⟩
      -- the kept entry's size is inside t too: use the permutation
      have hp := sizeSum_perm (evict_perm marks' ok low xs t)
      rw [sizeSum_append] at hp
      rw [sizeSum_cons]; omega
    · simp only [hm, Bool.false_eq_true, if_false]
      by_cases hk : ok x.path = true
      · simp only [hk, Bool.not_true, Bool.false_eq_true, if_false]
        by_cases hl : t - x.size < low
        · simp only [hl, if_true, sizeSum_cons, sizeSum_nil]
          exact ⟨by omega, by omega⟩
        · simp only [hl, if_false, sizeSum_cons]
          have := ih (t - x.size) (by omega)
          exact ⟨by omega, this.2⟩
      · have hk' : ok x.path = false := by simpa using hk
        simp only [hk', Bool.not_false, if_true]
        have := ih t (by omega)
        refine ⟨this.1, ?_⟩
        have hp := sizeSum_perm (evict_perm marks' ok low xs t)
        rw [sizeSum_append] at hp
        rw [sizeSum_cons]; omega

/-- The bound: the loop ends below the low-water mark, or everything it kept was protected or could not be
    removed. -/
theorem evict_bound (marks' : Marks) (ok : Bytes → Bool) (low : Nat) : ∀ (l : List Entry) (t : Nat),
    (evict marks' ok low l t).2.2 < low ∨
    ∀ e ∈ (evict marks' ok low l t).2.1, (marks' e.path).isSome = true ∨ ok e.path = false := by
  intro l
  induction l with
  | nil => intro t; right; intro e he; simp [evict] at he
  | cons x xs ih =>
    intro t
    simp only [evict]
    by_cases hm : (marks' x.path).isSome = true
    · simp only [hm, if_true]
      rcases ih t with h | h
      · left; exact h
      · right
        intro e he
        rcases List.mem_cons.mp he with h' | h'
        · subst h'; exact Or.inl hm
        · exact h e h'
    · simp only [hm, Bool.false_eq_true, if_false]
      by_cases hk : ok x.path = true
      · simp only [hk, Bool.not_true, Bool.false_eq_true, if_false]
        by_cases hl : t - x.size < low
        · rw [if_pos hl]; left; exact hl
        · rw [if_neg hl]; exact ih _
      · have hk' : ok x.path = false := by simpa using hk
        simp only [hk', Bool.not_false, if_true]
        rcases ih t with h | h
        · left; exact h
        · right
          intro e he
          rcases List.mem_cons.mp he with h' | h'
          · subst h'; exact Or.inr hk'
          · exact h e h'

/-- The loop stops as soon as the total is below the low-water mark: if anything was evicted, the last entry to
    go was still needed. -/
theorem evict_not_beyond (marks' : Marks) (ok : Bytes → Bool) (low : Nat) : ∀ (l : List Entry) (t : Nat),
    low ≤ t → sizeSum l ≤ t →
    (evict marks' ok low l t).1 = [] ∨
    ∃ e ∈ (evict marks' ok low l t).1, low ≤ (evict marks' ok low l t).2.2 + e.size := by
  intro l
  induction l with
  | nil => intro t _ _; left; simp [evict]
  | cons x xs ih =>
    intro t hlow ht
    rw [sizeSum_cons] at ht
    simp only [evict]
    by_cases hm : (marks' x.path).isSome = true
    · simp only [hm, if_true]; exact ih t hlow (by omega)
    · simp only [hm, Bool.false_eq_true, if_false]
      by_cases hk : ok x.path = true
      · simp only [hk, Bool.not_true, Bool.false_eq_true, if_false]
        by_cases hl : t - x.size < low
        · simp only [hl, if_true]
          right; exact ⟨x, List.mem_cons_self .., by omega⟩
        · simp only [hl, if_false]
          right
          rcases ih (t - x.size) (by omega) (by omega) with h | ⟨e, he, hb⟩
          · -- nothing further went: x itself is the witness, the total stayed at t - x.size
            have htot := (evict_total marks' ok low xs (t - x.size) (by omega)).1
            rw [h, sizeSum_nil] at htot
            exact ⟨x, List.mem_cons_self .., by omega⟩
          · exact ⟨e, List.mem_cons_of_mem _ he, hb⟩
      · have hk' : ok x.path = false := by simpa using hk
        simp only [hk', Bool.not_false, if_true]
        exact ih t hlow (by omega)

end PlzVerif.Clean
