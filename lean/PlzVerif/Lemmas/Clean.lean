import PlzVerif.Model.Clean
/-!
The eviction loop, for ANY order of the candidates.
-/
namespace PlzVerif.Clean

theorem sizeSum_nil : sizeSum [] = 0 := rfl
theorem sizeSum_cons (e : Entry) (l : List Entry) : sizeSum (e :: l) = e.size + sizeSum l := by
  simp [sizeSum]
theorem sizeSum_append (a b : List Entry) : sizeSum (a ++ b) = sizeSum a + sizeSum b := by
  simp [sizeSum, List.sum_append]

theorem sizeSum_perm {a b : List Entry} (h : a.Perm b) : sizeSum a = sizeSum b := by
  induction h with
  | nil => rfl
  | cons x _ ih => simp [sizeSum_cons, ih]
  | swap x y l => simp [sizeSum_cons]; omega
  | trans _ _ ih1 ih2 => exact ih1.trans ih2

/-! ### the walk -/

theorem scan_aux (marks : Marks) : ∀ (found : List Entry) (acc : List Entry × Nat),
    sizeSum acc.1 ≤ acc.2 → (∀ e ∈ acc.1, marks e.path = none) →
    let r := found.foldl (fun acc e =>
      match marks e.path with
      | some sz => (acc.1, acc.2 + sz)
      | none => (acc.1 ++ [e], acc.2 + e.size)) acc
    sizeSum r.1 ≤ r.2 ∧ (∀ e ∈ r.1, marks e.path = none) ∧ (∀ e ∈ r.1, e ∈ acc.1 ∨ e ∈ found) := by
  intro found
  induction found with
  | nil => intro acc h1 h2; exact ⟨h1, h2, fun e he => Or.inl he⟩
  | cons x xs ih =>
    intro acc h1 h2
    simp only [List.foldl_cons]
    cases hm : marks x.path with
    | some sz =>
      have := ih (acc.1, acc.2 + sz) (by simp only; omega) h2
      simp only at this
      refine ⟨this.1, this.2.1, ?_⟩
      intro e he
      rcases this.2.2 e he with h | h
      · exact Or.inl h
      · exact Or.inr (List.mem_cons_of_mem _ h)
    | none =>
      have := ih (acc.1 ++ [x], acc.2 + x.size)
        (by simp only [sizeSum_append, sizeSum_cons, sizeSum_nil]; omega)
        (by intro e he
            rcases List.mem_append.mp he with h | h
            · exact h2 e h
            · simp only [List.mem_cons, List.mem_nil_iff, or_false] at h; subst h; exact hm)
      simp only at this
      refine ⟨this.1, this.2.1, ?_⟩
      intro e he
      rcases this.2.2 e he with h | h
      · rcases List.mem_append.mp h with h | h
        · exact Or.inl h
        · simp only [List.mem_cons, List.mem_nil_iff, or_false] at h
          subst h; exact Or.inr (List.mem_cons_self ..)
      · exact Or.inr (List.mem_cons_of_mem _ h)

/-- The candidates are unmarked entries found on disk, and their sizes are part of the total. -/
theorem scan_spec (marks : Marks) (found : List Entry) :
    sizeSum (scan marks found).1 ≤ (scan marks found).2 ∧
    (∀ e ∈ (scan marks found).1, marks e.path = none) ∧
    (∀ e ∈ (scan marks found).1, e ∈ found) := by
  have := scan_aux marks found ([], 0) (by simp [sizeSum]) (by intro e he; cases he)
  simp only at this
  refine ⟨this.1, this.2.1, ?_⟩
  intro e he
  rcases this.2.2 e he with h | h
  · cases h
  · exact h

/-! ### the loop -/

/-- Nothing marked (as the loop's `isMarked` test sees it) is ever renamed: neither the evicted nor the half-removed. -/
theorem evict_unmarked (marks' : Marks) (rn rm : Bytes → Bool) (low : Nat) : ∀ (l : List Entry) (t : Nat),
    (∀ e ∈ (evict marks' rn rm low l t).evicted, marks' e.path = none ∧ rn e.path = true ∧ rm e.path = true) ∧
    (∀ e ∈ (evict marks' rn rm low l t).half, marks' e.path = none ∧ rn e.path = true ∧ rm e.path = false) := by
  intro l
  induction l with
  | nil => intro t; simp [evict]
  | cons x xs ih =>
    intro t
    simp only [evict]
    by_cases hm : (marks' x.path).isSome = true
    · simp only [hm, if_true]; exact ih t
    · have hxm : marks' x.path = none := by
        cases h : marks' x.path with
        | none => rfl
        | some v => simp [h] at hm
      simp only [hm, Bool.false_eq_true, if_false]
      by_cases hrn : rn x.path = true
      · simp only [hrn, Bool.not_true, Bool.false_eq_true, if_false]
        by_cases hrm : rm x.path = true
        · simp only [hrm, Bool.not_true, Bool.false_eq_true, if_false]
          by_cases hl : t - x.size < low
          · rw [if_pos hl]
            refine ⟨?_, by simp⟩
            intro e he
            simp only [List.mem_cons, List.mem_nil_iff, or_false] at he
            subst he; exact ⟨hxm, hrn, hrm⟩
          · rw [if_neg hl]
            refine ⟨?_, (ih _).2⟩
            intro e he
            rcases List.mem_cons.mp he with h | h
            · subst h; exact ⟨hxm, hrn, hrm⟩
            · exact (ih _).1 e h
        · have hrm' : rm x.path = false := by simpa using hrm
          simp only [hrm', Bool.not_false, if_true]
          refine ⟨(ih t).1, ?_⟩
          intro e he
          rcases List.mem_cons.mp he with h | h
          · subst h; exact ⟨hxm, hrn, hrm'⟩
          · exact (ih t).2 e h
      · have hrn' : rn x.path = false := by simpa using hrn
        simp only [hrn', Bool.not_false, if_true]; exact ih t

/-- Evicted, kept and half-removed together are exactly the input (as multisets). -/
theorem evict_perm (marks' : Marks) (rn rm : Bytes → Bool) (low : Nat) : ∀ (l : List Entry) (t : Nat),
    ((evict marks' rn rm low l t).evicted ++ (evict marks' rn rm low l t).kept ++
      (evict marks' rn rm low l t).half).Perm l := by
  intro l
  induction l with
  | nil => intro t; simp [evict]
  | cons x xs ih =>
    intro t
    simp only [evict]
    by_cases hm : (marks' x.path).isSome = true
    · simp only [hm, if_true]
      have := (ih t).cons x
      refine List.Perm.trans ?_ this
      simp only [List.append_assoc]
      exact List.perm_middle
    · simp only [hm, Bool.false_eq_true, if_false]
      by_cases hrn : rn x.path = true
      · simp only [hrn, Bool.not_true, Bool.false_eq_true, if_false]
        by_cases hrm : rm x.path = true
        · simp only [hrm, Bool.not_true, Bool.false_eq_true, if_false]
          by_cases hl : t - x.size < low
          · rw [if_pos hl]; simp
          · rw [if_neg hl]
            simp only [List.cons_append]
            exact (ih _).cons x
        · have hrm' : rm x.path = false := by simpa using hrm
          simp only [hrm', Bool.not_false, if_true]
          have := (ih t).cons x
          refine List.Perm.trans ?_ this
          exact List.perm_middle
      · have hrn' : rn x.path = false := by simpa using hrn
        simp only [hrn', Bool.not_false, if_true]
        have := (ih t).cons x
        refine List.Perm.trans ?_ this
        simp only [List.append_assoc]
        exact List.perm_middle

/-- Accounting: nothing is subtracted twice and the unsigned subtraction never wraps, so the returned total is
    the walked total minus what was evicted, and what is left (kept and half-removed) still fits inside it. -/
theorem evict_total (marks' : Marks) (rn rm : Bytes → Bool) (low : Nat) : ∀ (l : List Entry) (t : Nat),
    sizeSum l ≤ t →
    (evict marks' rn rm low l t).total + sizeSum (evict marks' rn rm low l t).evicted = t ∧
    sizeSum (evict marks' rn rm low l t).kept + sizeSum (evict marks' rn rm low l t).half ≤
      (evict marks' rn rm low l t).total := by
  intro l
  induction l with
  | nil => intro t _; simp [evict, sizeSum]
  | cons x xs ih =>
    intro t ht
    rw [sizeSum_cons] at ht
    have hp : ∀ t', sizeSum (evict marks' rn rm low xs t').evicted + sizeSum (evict marks' rn rm low xs t').kept +
        sizeSum (evict marks' rn rm low xs t').half = sizeSum xs := by
      intro t'
      have := sizeSum_perm (evict_perm marks' rn rm low xs t')
      rw [sizeSum_append, sizeSum_append] at this
      exact this
    simp only [evict]
    by_cases hm : (marks' x.path).isSome = true
    · simp only [hm, if_true]
      have := ih t (by omega)
      have := hp t
      refine ⟨by omega, ?_⟩
      rw [sizeSum_cons]; omega
    · simp only [hm, Bool.false_eq_true, if_false]
      by_cases hrn : rn x.path = true
      · simp only [hrn, Bool.not_true, Bool.false_eq_true, if_false]
        by_cases hrm : rm x.path = true
        · simp only [hrm, Bool.not_true, Bool.false_eq_true, if_false]
          by_cases hl : t - x.size < low
          · rw [if_pos hl]
            simp only [sizeSum_cons, sizeSum_nil]
            exact ⟨by omega, by omega⟩
          · rw [if_neg hl]
            have := ih (t - x.size) (by omega)
            simp only [sizeSum_cons]
            exact ⟨by omega, this.2⟩
        · have hrm' : rm x.path = false := by simpa using hrm
          simp only [hrm', Bool.not_false, if_true]
          have := ih t (by omega)
          have := hp t
          refine ⟨by omega, ?_⟩
          rw [sizeSum_cons]; omega
      · have hrn' : rn x.path = false := by simpa using hrn
        simp only [hrn', Bool.not_false, if_true]
        have := ih t (by omega)
        have := hp t
        refine ⟨by omega, ?_⟩
        rw [sizeSum_cons]; omega

/-- The bound: the loop ends below the low-water mark, or everything it left untouched was protected or could not
    be renamed (the half-removed ones are accounted for separately). -/
theorem evict_bound (marks' : Marks) (rn rm : Bytes → Bool) (low : Nat) : ∀ (l : List Entry) (t : Nat),
    (evict marks' rn rm low l t).total < low ∨
    ∀ e ∈ (evict marks' rn rm low l t).kept, (marks' e.path).isSome = true ∨ rn e.path = false := by
  intro l
  induction l with
  | nil => intro t; right; intro e he; simp [evict] at he
  | cons x xs ih =>
    intro t
    simp only [evict]
    by_cases hm : (marks' x.path).isSome = true
    · simp only [hm, if_true]
      rcases ih t with h | h
      · left; exact h
      · right
        intro e he
        rcases List.mem_cons.mp he with h' | h'
        · subst h'; exact Or.inl hm
        · exact h e h'
    · simp only [hm, Bool.false_eq_true, if_false]
      by_cases hrn : rn x.path = true
      · simp only [hrn, Bool.not_true, Bool.false_eq_true, if_false]
        by_cases hrm : rm x.path = true
        · simp only [hrm, Bool.not_true, Bool.false_eq_true, if_false]
          by_cases hl : t - x.size < low
          · rw [if_pos hl]; left; exact hl
          · rw [if_neg hl]; exact ih _
        · have hrm' : rm x.path = false := by simpa using hrm
          simp only [hrm', Bool.not_false, if_true]
          exact ih t
      · have hrn' : rn x.path = false := by simpa using hrn
        simp only [hrn', Bool.not_false, if_true]
        rcases ih t with h | h
        · left; exact h
        · right
          intro e he
          rcases List.mem_cons.mp he with h' | h'
          · subst h'; exact Or.inr hrn'
          · exact h e h'

/-- The loop stops as soon as the total is below the low-water mark: if anything was evicted, the last entry to
    go was still needed. -/
theorem evict_not_beyond (marks' : Marks) (rn rm : Bytes → Bool) (low : Nat) : ∀ (l : List Entry) (t : Nat),
    low ≤ t → sizeSum l ≤ t →
    (evict marks' rn rm low l t).evicted = [] ∨
    ∃ e ∈ (evict marks' rn rm low l t).evicted, low ≤ (evict marks' rn rm low l t).total + e.size := by
  intro l
  induction l with
  | nil => intro t _ _; left; simp [evict]
  | cons x xs ih =>
    intro t hlow ht
    rw [sizeSum_cons] at ht
    simp only [evict]
    by_cases hm : (marks' x.path).isSome = true
    · simp only [hm, if_true]; exact ih t hlow (by omega)
    · simp only [hm, Bool.false_eq_true, if_false]
      by_cases hrn : rn x.path = true
      · simp only [hrn, Bool.not_true, Bool.false_eq_true, if_false]
        by_cases hrm : rm x.path = true
        · simp only [hrm, Bool.not_true, Bool.false_eq_true, if_false]
          by_cases hl : t - x.size < low
          · rw [if_pos hl]
            right; exact ⟨x, List.mem_cons_self .., by simp; omega⟩
          · rw [if_neg hl]
            right
            rcases ih (t - x.size) (by omega) (by omega) with h | ⟨e, he, hb⟩
            · have htot := (evict_total marks' rn rm low xs (t - x.size) (by omega)).1
              rw [h, sizeSum_nil] at htot
              exact ⟨x, List.mem_cons_self .., by simp; omega⟩
            · exact ⟨e, List.mem_cons_of_mem _ he, hb⟩
        · have hrm' : rm x.path = false := by simpa using hrm
          simp only [hrm', Bool.not_false, if_true]
          exact ih t hlow (by omega)
      · have hrn' : rn x.path = false := by simpa using hrn
        simp only [hrn', Bool.not_false, if_true]
        exact ih t hlow (by omega)

/-- When every removal of a renamed entry succeeds nothing is left half-removed. -/
theorem evict_no_half (marks' : Marks) (rn : Bytes → Bool) (low : Nat) : ∀ (l : List Entry) (t : Nat),
    (evict marks' rn (fun _ => true) low l t).half = [] := by
  intro l
  induction l with
  | nil => intro t; simp [evict]
  | cons x xs ih =>
    intro t
    simp only [evict]
    by_cases hm : (marks' x.path).isSome = true
    · simp only [hm, if_true]; exact ih t
    · simp only [hm, Bool.false_eq_true, if_false]
      by_cases hrn : rn x.path = true
      · simp only [hrn, Bool.not_true, Bool.false_eq_true, if_false]
        by_cases hl : t - x.size < low
        · rw [if_pos hl]
        · rw [if_neg hl]; exact ih _
      · have hrn' : rn x.path = false := by simpa using hrn
        simp only [hrn', Bool.not_false, if_true]; exact ih t

/-! ### marks that change during the loop -/

/-- With the same marks at every test `evictP` is `evict`. -/
theorem evictP_const (marks' : Marks) (rn rm : Bytes → Bool) (low : Nat) : ∀ (l : List Entry) (t : Nat),
    evictP rn rm low (l.map fun e => (e, marks')) t = evict marks' rn rm low l t := by
  intro l
  induction l with
  | nil => intro t; rfl
  | cons x xs ih =>
    intro t
    simp only [List.map_cons, evictP, evict]
    by_cases hm : (marks' x.path).isSome = true
    · simp only [hm, if_true, ih]
    · simp only [hm, Bool.false_eq_true, if_false]
      by_cases hrn : rn x.path = true
      · simp only [hrn, Bool.not_true, Bool.false_eq_true, if_false]
        by_cases hrm : rm x.path = true
        · simp only [hrm, Bool.not_true, Bool.false_eq_true, if_false]
          by_cases hl : t - x.size < low
          · rw [if_pos hl, if_pos hl]; simp [Function.comp_def]
          · rw [if_neg hl, if_neg hl, ih]
        · have hrm' : rm x.path = false := by simpa using hrm
          simp only [hrm', Bool.not_false, if_true, ih]
      · have hrn' : rn x.path = false := by simpa using hrn
        simp only [hrn', Bool.not_false, if_true, ih]

/-- Whenever the marks arrive: every entry that is renamed (evicted or half-removed) was unmarked at its own test. -/
theorem evictP_unmarked (rn rm : Bytes → Bool) (low : Nat) : ∀ (l : List (Entry × Marks)) (t : Nat),
    ∀ e, e ∈ (evictP rn rm low l t).evicted ∨ e ∈ (evictP rn rm low l t).half →
      ∃ m, (e, m) ∈ l ∧ m e.path = none := by
  intro l
  induction l with
  | nil => intro t e he; simp [evictP] at he
  | cons p ps ih =>
    obtain ⟨x, m⟩ := p
    intro t e he
    have lift : (∃ m', (e, m') ∈ ps ∧ m' e.path = none) → ∃ m', (e, m') ∈ (x, m) :: ps ∧ m' e.path = none :=
      fun ⟨m', h1, h2⟩ => ⟨m', List.mem_cons_of_mem _ h1, h2⟩
    simp only [evictP] at he
    by_cases hm : (m x.path).isSome = true
    · simp only [hm, if_true] at he; exact lift (ih t e he)
    · have hxm : m x.path = none := by
        cases h : m x.path with
        | none => rfl
        | some v => simp [h] at hm
      simp only [hm, Bool.false_eq_true, if_false] at he
      by_cases hrn : rn x.path = true
      · simp only [hrn, Bool.not_true, Bool.false_eq_true, if_false] at he
        by_cases hrm : rm x.path = true
        · simp only [hrm, Bool.not_true, Bool.false_eq_true, if_false] at he
          by_cases hl : t - x.size < low
          · rw [if_pos hl] at he
            rcases he with h | h
            · simp only [List.mem_cons, List.mem_nil_iff, or_false] at h
              subst h; exact ⟨m, List.mem_cons_self .., hxm⟩
            · cases h
          · rw [if_neg hl] at he
            simp only [List.mem_cons] at he
            rcases he with (h | h) | h
            · subst h; exact ⟨m, List.mem_cons_self .., hxm⟩
            · exact lift (ih _ e (Or.inl h))
            · exact lift (ih _ e (Or.inr h))
        · have hrm' : rm x.path = false := by simpa using hrm
          simp only [hrm', Bool.not_false, if_true, List.mem_cons] at he
          rcases he with h | h | h
          · exact lift (ih t e (Or.inl h))
          · subst h; exact ⟨m, List.mem_cons_self .., hxm⟩
          · exact lift (ih t e (Or.inr h))
      · have hrn' : rn x.path = false := by simpa using hrn
        simp only [hrn', Bool.not_false, if_true] at he
        exact lift (ih t e he)

end PlzVerif.Clean
