import PlzVerif.Lemmas.BuildCache
import PlzVerif.Model.BuildCacheKey
/-!
C02 with the cache key as a function: when `keyOf` is injective, the keyed model (`Model/BuildCacheKey.lean`) is
simulated step by step by the stamp-keyed model of `Model/BuildCache.lean` through `cacheOf ck := ck ∘ keyOf`, so
every theorem of `Lemmas/BuildCache.lean` transfers.  Without injectivity the simulation fails at the store step
(two target states share a slot) — see the witness in Props/C02.lean.
-/
namespace PlzVerif.Build
set_option linter.unusedSectionVars false

variable {K A F N C S H Q : Type} [DecidableEq K] [DecidableEq S] [DecidableEq N] [DecidableEq H] [DecidableEq Q]
variable (keyOf : K × Stamp S N H → Q)
variable (fx : Facts) (mv : C → C → C) (rs : C → C → C) (exec : A → List (N × C) → C) (ruleSer : A → S) (pathSer : C → H)

/-- The stamp-keyed view of a keyed cache. -/
def cacheOf (ck : CacheK Q C) : Cache K C S N H := fun p => ck (keyOf p)

theorem buildOneCK_sim (hK : Function.Injective keyOf) (r : Repo K A F N C) (out : Out K C S N H) (ck : CacheK Q C)
    (t : Target K A F) :
    let res := buildOneCK keyOf fx mv rs exec ruleSer pathSer r out ck t
    (res.1, cacheOf keyOf res.2.1, res.2.2) = buildOneC fx mv rs exec ruleSer pathSer r out (cacheOf keyOf ck) t := by
  unfold buildOneCK buildOneC
  cases inputs r out t with
  | none => rfl
  | some ins =>
    simp only
    have key : ∀ (x : C),
        cacheOf (K := K) (S := S) (N := N) (H := H) keyOf
          (fun q => if q = keyOf (t.key, stampOf ruleSer pathSer t.attrs ins) then some x else ck q) =
        (fun p => if p = (t.key, stampOf ruleSer pathSer t.attrs ins) then some x else cacheOf keyOf ck p) := by
      intro x
      funext p
      simp only [cacheOf]
      by_cases hp : p = (t.key, stampOf ruleSer pathSer t.attrs ins)
      · simp [hp]
      · have : keyOf p ≠ keyOf (t.key, stampOf ruleSer pathSer t.attrs ins) := fun e => hp (hK e)
        simp [hp, this]
    have hck : cacheOf keyOf ck (t.key, stampOf ruleSer pathSer t.attrs ins) =
        ck (keyOf (t.key, stampOf ruleSer pathSer t.attrs ins)) := rfl
    rw [hck]
    cases ho : out t.key with
    | none =>
      simp only [Bool.false_eq_true, if_false]
      cases hc : ck (keyOf (t.key, stampOf ruleSer pathSer t.attrs ins)) with
      | some c => rfl
      | none =>
        simp only [Prod.mk.injEq, true_and, and_true]
        cases hb : (buildOne fx mv exec ruleSer pathSer r out t).1 t.key with
        | none =>
          funext p
          simp only [cacheOf, Option.map_none]
          by_cases hp : p = (t.key, stampOf ruleSer pathSer t.attrs ins)
          · simp [hp]
          · have : keyOf p ≠ keyOf (t.key, stampOf ruleSer pathSer t.attrs ins) := fun e => hp (hK e)
            simp [hp, this]
        | some y => simpa using key y.1
    | some pr =>
      obtain ⟨c0, st0⟩ := pr
      simp only
      cases hs : stampEq fx st0 (stampOf ruleSer pathSer t.attrs ins) with
      | true => simp
      | false =>
        simp only [Bool.false_eq_true, if_false]
        cases hc : ck (keyOf (t.key, stampOf ruleSer pathSer t.attrs ins)) with
        | some c => rfl
        | none =>
          simp only [Prod.mk.injEq, true_and, and_true]
          cases hb : (buildOne fx mv exec ruleSer pathSer r out t).1 t.key with
          | none =>
            funext p
            simp only [cacheOf, Option.map_none]
            by_cases hp : p = (t.key, stampOf ruleSer pathSer t.attrs ins)
            · simp [hp]
            · have : keyOf p ≠ keyOf (t.key, stampOf ruleSer pathSer t.attrs ins) := fun e => hp (hK e)
              simp [hp, this]
          | some y => simpa using key y.1

theorem buildListCK_sim (hK : Function.Injective keyOf) (r : Repo K A F N C) (sel : K → Bool) :
    ∀ (ts : List (Target K A F)) (out : Out K C S N H) (ck : CacheK Q C),
      let res := buildListCK keyOf fx mv rs exec ruleSer pathSer r sel ts out ck
      (res.1, cacheOf keyOf res.2.1, res.2.2) = buildListC fx mv rs exec ruleSer pathSer r sel ts out (cacheOf keyOf ck) := by
  intro ts
  induction ts with
  | nil => intro out ck; rfl
  | cons t ts ih =>
    intro out ck
    by_cases hs : sel t.key = true
    · have h1 := buildOneCK_sim keyOf fx mv rs exec ruleSer pathSer hK r out ck t
      simp only at h1
      simp only [buildListCK, buildListC, hs, if_true]
      rw [← h1]
      simp only
      have h2 := ih (buildOneCK keyOf fx mv rs exec ruleSer pathSer r out ck t).1
        (buildOneCK keyOf fx mv rs exec ruleSer pathSer r out ck t).2.1
      simp only at h2
      rw [← h2]
    · simp only [Bool.not_eq_true] at hs
      simp only [buildListCK, buildListC, hs]
      exact ih out ck

/-- The stamp-keyed history corresponding to a keyed history. -/
def histOf : List (HOpCK K A F N C Q) → List (HOpC K A F N C S H)
  | [] => []
  | .build r sel :: ops => .build r sel :: histOf ops
  | .remove keep :: ops => .remove keep :: histOf ops
  | .evict keep :: ops => .evict (fun p => keep (keyOf p)) :: histOf ops

theorem runHistCK_sim (hK : Function.Injective keyOf) :
    ∀ (ops : List (HOpCK K A F N C Q)) (out : Out K C S N H) (ck : CacheK Q C),
      let res := runHistCK keyOf fx mv rs exec ruleSer pathSer ops (out, ck)
      (res.1, cacheOf keyOf res.2) =
        runHistC fx mv rs exec ruleSer pathSer (histOf keyOf ops) (out, cacheOf keyOf ck) := by
  intro ops
  induction ops with
  | nil => intro out ck; rfl
  | cons op ops ih =>
    intro out ck
    cases op with
    | build r sel =>
      have h1 := buildListCK_sim keyOf fx mv rs exec ruleSer pathSer hK r sel r.targets out ck
      simp only at h1
      simp only [runHistCK, runHistC, histOf, buildCK, buildC]
      rw [← h1]
      exact ih _ _
    | remove keep =>
      simp only [runHistCK, runHistC, histOf]
      exact ih _ _
    | evict keep =>
      simp only [runHistCK, runHistC, histOf]
      have : cacheOf keyOf (fun q => if keep q = true then ck q else none) =
          (fun p : K × Stamp S N H => if keep (keyOf p) = true then cacheOf keyOf ck p else none) := by
        funext p; simp [cacheOf]
      rw [← this]
      exact ih _ _

end PlzVerif.Build
