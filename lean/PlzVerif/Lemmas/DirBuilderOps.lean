import PlzVerif.Lemmas.DirBuilder
/-!
C28, the builder level: `dir()` with its `hasChild` guard analysed on the builder seen as a partial function
(`View`), a declarative description of the builder after any list of operations (`applyOps_rel`), and from it:
any permutation of the operations gives builders with permuted insertion lists (`applyOps_perm`), and
consistent operations give consistent directories (`applyOps_cons`).
-/
namespace PlzVerif.DirBuilder

/-! ### the builder as a partial function -/

abbrev View := Path → Option Dir

def vupd (v : View) (p : Path) (d : Option Dir) : View := fun q => if q = p then d else v q

theorem has_eq_get (b : Builder) (q : Path) : b.has q = (b.get q).isSome := by
  unfold Builder.has Builder.get
  induction b with
  | nil => rfl
  | cons e es ih =>
    simp only [List.any_cons, List.find?_cons]
    by_cases h : (e.1 == q) = true
    · simp [h]
    · simp [h, ih]

theorem get_append_new (b : Builder) (p : Path) (d : Dir) (h : b.get p = none) :
    (b ++ [(p, d)]).get = vupd b.get p (some d) := by
  funext q
  unfold Builder.get vupd at *
  rw [List.find?_append]
  by_cases hq : q = p
  · subst hq
    simp only [if_true]
    cases hf : List.find? (fun x => x.1 == q) b with
    | none => simp
    | some x => simp [hf] at h
  · simp only [hq, if_false]
    cases hf : List.find? (fun x => x.1 == q) b with
    | none =>
      simp only [Option.none_or, List.find?_cons, List.find?_nil]
      have : (p == q) = false := by simpa using fun e => hq e.symm
      simp [this]
    | some x => simp

theorem get_modify (b : Builder) (p : Path) (f : Dir → Dir) :
    (b.modify p f).get = vupd b.get p ((b.get p).map f) := by
  funext q
  unfold Builder.modify Builder.get vupd
  induction b with
  | nil => simp
  | cons e es ih =>
    simp only [List.map_cons, List.find?_cons]
    by_cases hep : e.1 = p <;> by_cases heq : e.1 = q <;> by_cases hq : q = p
    · simp [hep, hq]
    · exact absurd (heq.symm.trans hep) hq
    · subst hq; exact absurd hep (by simpa using heq)
    · have h1 : (e.1 == q) = false := by simpa using heq
      have h2 : (p == q) = false := by simpa using fun e' => hq e'.symm
      simp only [hep, beq_self_eq_true, if_true, h2, hq, if_false] at ih ⊢
      exact ih
    · subst hq; exact absurd heq hep
    · have h1 : (e.1 == p) = false := by simpa using hep
      simp [heq, hq]
    · subst hq
      have h1 : (e.1 == q) = false := by simpa using hep
      simp only [h1, Bool.false_eq_true, if_false, if_true] at ih ⊢
      exact ih
    · have h1 : (e.1 == p) = false := by simpa using hep
      have h2 : (e.1 == q) = false := by simpa using heq
      simp only [h1, h2, Bool.false_eq_true, if_false, hq] at ih ⊢
      exact ih

/-! ### `dir()` on views -/

/-- `ensureRev` on the view (argument: the path innermost component first). -/
def ensureV (v : View) : List Name → View
  | [] => v
  | c :: pr =>
    if (v (c :: pr).reverse).isSome then v
    else
      let v1 := ensureV (vupd v (c :: pr).reverse (some {})) pr
      vupd v1 pr.reverse ((v1 pr.reverse).map (addChild c))

theorem ensureRev_get (b : Builder) (rp : List Name) : (ensureRev b rp).get = ensureV b.get rp := by
  induction rp generalizing b with
  | nil => rfl
  | cons c pr ih =>
    unfold ensureRev ensureV
    simp only [has_eq_get]
    by_cases h : (b.get (c :: pr).reverse).isSome = true
    · simp only [h, if_true]
    · have hn : b.get (c :: pr).reverse = none := by simpa using h
      simp only [h, Bool.false_eq_true, if_false]
      rw [get_modify, ih, get_append_new b _ _ hn]

theorem vupd_same (v : View) (p : Path) (d : Option Dir) : vupd v p d p = d := by simp [vupd]
theorem vupd_other (v : View) {p q : Path} (d : Option Dir) (h : q ≠ p) : vupd v p d q = v q := by simp [vupd, h]

theorem vupd_comm (v : View) {p q : Path} (a b : Option Dir) (h : p ≠ q) :
    vupd (vupd v p a) q b = vupd (vupd v q b) p a := by
  funext x; simp only [vupd]
  by_cases h1 : x = p <;> by_cases h2 : x = q <;> simp_all

/-- A path strictly longer than everything `ensureV v pr` looks at commutes with it. -/
theorem ensureV_vupd_long (v : View) (pr : List Name) (P : Path) (x : Option Dir) (hl : pr.length < P.length) :
    ensureV (vupd v P x) pr = vupd (ensureV v pr) P x := by
  induction pr generalizing v with
  | nil => rfl
  | cons c r ih =>
    have hne : (c :: r).reverse ≠ P := by intro e; rw [← e] at hl; simp at hl
    have hne' : r.reverse ≠ P := by intro e; rw [← e] at hl; simp at hl; omega
    have hl' : r.length < P.length := by simp at hl; omega
    unfold ensureV
    rw [vupd_other v x hne]
    by_cases h : (v (c :: r).reverse).isSome = true
    · simp only [h, if_true]
    · simp only [h, Bool.false_eq_true, if_false]
      rw [vupd_comm v x (some {}) (Ne.symm hne), ih _ hl']
      rw [vupd_other _ x hne']
      rw [vupd_comm _ x _ (Ne.symm hne')]

/-- `ensureV` in terms of `ensureV` on the parent, with the same starting view. -/
theorem ensureV_cons (v : View) (c : Name) (pr : List Name) :
    ensureV v (c :: pr) =
      if (v (c :: pr).reverse).isSome then v
      else vupd (vupd (ensureV v pr) (c :: pr).reverse (some {})) pr.reverse
            ((ensureV v pr pr.reverse).map (addChild c)) := by
  have hne : pr.reverse ≠ (c :: pr).reverse := by
    intro e; have := congrArg List.length e; simp at this
  conv => lhs; unfold ensureV
  by_cases h : (v (c :: pr).reverse).isSome = true
  · simp only [h, if_true]
  · simp only [h, Bool.false_eq_true, if_false]
    rw [ensureV_vupd_long v pr (c :: pr).reverse (some {}) (by simp)]
    rw [vupd_other _ _ hne]

/-! ### what `addChild` does to the four components of a directory -/

def digs (d : Dir) : List DirNode := d.dirs.filter (·.dg.isSome)
def nils (d : Dir) : List Name := (d.dirs.filter (·.dg.isNone)).map (·.name)

theorem addChild_files (c : Name) (d : Dir) : (addChild c d).files = d.files := by
  unfold addChild; split <;> rfl
theorem addChild_syms (c : Name) (d : Dir) : (addChild c d).syms = d.syms := by
  unfold addChild; split <;> rfl
theorem addChild_digs (c : Name) (d : Dir) : digs (addChild c d) = digs d := by
  unfold addChild digs; split
  · rfl
  · simp [List.filter_append]
theorem addChild_nils (c : Name) (d : Dir) :
    nils (addChild c d) = if d.dirs.any (·.name == c) then nils d else nils d ++ [c] := by
  unfold addChild nils; split
  · rfl
  · simp [List.filter_append]

/-- `hasChild` is false when `c` is neither a nil child nor the name of a node with a digest. -/
theorem hasChild_false (c : Name) (d : Dir) (h1 : c ∉ nils d) (h2 : ∀ n ∈ digs d, n.name ≠ c) :
    d.dirs.any (·.name == c) = false := by
  rw [List.any_eq_false]
  intro n hn hname
  have hname' : n.name = c := by simpa using hname
  cases hdg : n.dg with
  | none =>
    apply h1
    unfold nils
    simp only [List.mem_map, List.mem_filter]
    exact ⟨n, ⟨hn, by simp [hdg]⟩, hname'⟩
  | some x =>
    exact h2 n (by unfold digs; simp only [List.mem_filter]; exact ⟨hn, by simp [hdg]⟩) hname'

/-! ### invariants of a view -/

structure InvV (v : View) : Prop where
  root : (v []).isSome = true
  pc : ∀ q c, (v (q ++ [c])).isSome = true → (v q).isSome = true
  nil_nodup : ∀ q d, v q = some d → (nils d).Nodup
  nil_iff : ∀ q d, v q = some d → ∀ c, c ∈ nils d ↔ (v (q ++ [c])).isSome = true

theorem InvV.prefix {v : View} (h : InvV v) {p q : Path} (hp : (v p).isSome = true) (hq : q <+: p) :
    (v q).isSome = true := by
  obtain ⟨t, rfl⟩ := hq
  induction t generalizing q with
  | nil => simpa using hp
  | cons c t ih =>
    apply h.pc _ c
    apply ih
    simpa [List.append_assoc] using hp

/-- No node with a digest sits where `ensure P` would have to register a child. -/
def NoDig (v : View) (P : Path) : Prop :=
  ∀ q c d, q ++ [c] <+: P → v q = some d → ∀ n ∈ digs d, n.name ≠ c

theorem prefix_concat_iff (q l : Path) (c : Name) : q <+: l ++ [c] ↔ q <+: l ∨ q = l ++ [c] := by
  constructor
  · rintro ⟨t, ht⟩
    rcases List.eq_nil_or_concat t with rfl | ⟨t', x, rfl⟩
    · right; simpa using ht
    · left
      rw [List.concat_eq_append, ← List.append_assoc] at ht
      have := List.append_inj' ht rfl
      exact ⟨t', this.1⟩
  · rintro (h | h)
    · exact h.trans (List.prefix_append _ _)
    · subst h; exact List.prefix_refl _

structure Step (v w : View) (P : Path) : Prop where
  inv : InvV w
  keys : ∀ q, (w q).isSome = true ↔ (v q).isSome = true ∨ q <+: P
  old : ∀ q d0 d, v q = some d0 → w q = some d → d.files = d0.files ∧ d.syms = d0.syms ∧ digs d = digs d0
  new : ∀ q d, v q = none → w q = some d → d.files = [] ∧ d.syms = [] ∧ digs d = []

theorem Step.refl_of_present {v : View} (h : InvV v) {P : Path} (hp : (v P).isSome = true) : Step v v P where
  inv := h
  keys := fun q => ⟨Or.inl, fun h' => h'.elim id (fun hq => h.prefix hp hq)⟩
  old := fun q d0 d h0 h1 => by rw [h0] at h1; cases h1; exact ⟨rfl, rfl, rfl⟩
  new := fun q d h0 h1 => by rw [h0] at h1; cases h1

theorem NoDig.parent {v : View} {Q : Path} {c : Name} (h : NoDig v (Q ++ [c])) : NoDig v Q :=
  fun q c' d hq => h q c' d (hq.trans (List.prefix_append _ _))

theorem ensureV_step (v : View) (hv : InvV v) (rp : List Name) (hnd : NoDig v rp.reverse) :
    Step v (ensureV v rp) rp.reverse := by
  induction rp with
  | nil =>
    simp only [ensureV, List.reverse_nil]
    exact Step.refl_of_present hv hv.root
  | cons c pr ih =>
    rw [ensureV_cons]
    have hP : (c :: pr).reverse = pr.reverse ++ [c] := List.reverse_cons
    rw [hP] at hnd ⊢
    by_cases hp : (v (pr.reverse ++ [c])).isSome = true
    · simp only [hp, if_true]
      exact Step.refl_of_present hv hp
    · simp only [hp, Bool.false_eq_true, if_false]
      have hvP : v (pr.reverse ++ [c]) = none := by simpa using hp
      have st := ih hnd.parent
      -- abbreviations
      generalize hQ : pr.reverse = Q at *
      generalize hw : ensureV v pr = w at *
      have hne : Q ≠ Q ++ [c] := by intro e; have := congrArg List.length e; simp at this
      have hwP : w (Q ++ [c]) = none := by
        have h2 : ¬ (Q ++ [c] <+: Q) := by
          intro hpre; have := hpre.length_le; simp at this; omega
        cases hx : w (Q ++ [c]) with
        | none => rfl
        | some x =>
          have := (st.keys (Q ++ [c])).mp (by simp [hx])
          rcases this with h' | h'
          · exact absurd h' hp
          · exact absurd h' h2
      have hwQ : (w Q).isSome = true := (st.keys Q).mpr (Or.inr (List.prefix_refl _))
      obtain ⟨dQ, hdQ⟩ := Option.isSome_iff_exists.mp hwQ
      -- c is not yet a child of Q
      have hc_nil : c ∉ nils dQ := by
        intro hin
        have := (st.inv.nil_iff Q dQ hdQ c).mp hin
        rw [hwP] at this; simp at this
      have hc_dig : ∀ n ∈ digs dQ, n.name ≠ c := by
        cases hvQ : v Q with
        | none =>
          have := (st.new Q dQ hvQ hdQ).2.2
          rw [this]; intro n hn; simp at hn
        | some d0 =>
          have := (st.old Q d0 dQ hvQ hdQ).2.2
          rw [this]
          exact hnd Q c d0 (List.prefix_refl _) hvQ
      have hany := hasChild_false c dQ hc_nil hc_dig
      have hnils : nils (addChild c dQ) = nils dQ ++ [c] := by rw [addChild_nils, hany]; simp
      -- the resulting view
      have hR : ∀ q, vupd (vupd w (Q ++ [c]) (some {})) Q ((w Q).map (addChild c)) q =
          if q = Q then some (addChild c dQ) else if q = Q ++ [c] then some {} else w q := by
        intro q; simp only [vupd, hdQ, Option.map_some]
      generalize hRdef : vupd (vupd w (Q ++ [c]) (some {})) Q ((w Q).map (addChild c)) = R at *
      have hRQ : R Q = some (addChild c dQ) := by rw [hR]; simp
      have hRP : R (Q ++ [c]) = some {} := by rw [hR]; simp [Ne.symm hne]
      have hRo : ∀ q, q ≠ Q → q ≠ Q ++ [c] → R q = w q := by intro q h1 h2; rw [hR]; simp [h1, h2]
      -- nothing lives below the new directory
      have hbelow : ∀ c', w (Q ++ [c] ++ [c']) = none := by
        intro c'
        cases hx : w (Q ++ [c] ++ [c']) with
        | none => rfl
        | some x =>
          have := st.inv.pc (Q ++ [c]) c' (by rw [hx]; rfl)
          rw [hwP] at this; simp at this
      refine ⟨⟨?_, ?_, ?_, ?_⟩, ?_, ?_, ?_⟩
      · -- root
        by_cases h0 : ([] : Path) = Q
        · rw [h0, hRQ]; rfl
        · rw [hRo [] h0 (by simp)]; exact st.inv.root
      · -- prefix closed
        intro q c' hsome
        by_cases h1 : q = Q
        · rw [h1, hRQ]; rfl
        · by_cases h2 : q = Q ++ [c]
          · rw [h2, hRP]; rfl
          · rw [hRo q h1 h2]
            by_cases h3 : q ++ [c'] = Q
            · apply st.inv.pc q c'; rw [h3]; exact hwQ
            · have h4 : q ++ [c'] ≠ Q ++ [c] := by
                intro e; exact h1 (List.append_inj' e rfl).1
              rw [hRo _ h3 h4] at hsome
              exact st.inv.pc q c' hsome
      · -- nil names distinct
        intro q d hd
        by_cases h1 : q = Q
        · rw [h1, hRQ] at hd; cases hd
          rw [hnils, List.nodup_append]
          refine ⟨st.inv.nil_nodup Q dQ hdQ, by simp, ?_⟩
          intro a ha b hb; simp only [List.mem_singleton] at hb; subst hb
          intro e; subst e; exact hc_nil ha
        · by_cases h2 : q = Q ++ [c]
          · rw [h2, hRP] at hd; cases hd; simp [nils]
          · rw [hRo q h1 h2] at hd; exact st.inv.nil_nodup q d hd
      · -- nil child iff directory exists
        intro q d hd c'
        by_cases h1 : q = Q
        · rw [h1, hRQ] at hd; cases hd
          rw [h1, hnils, List.mem_append, List.mem_singleton]
          by_cases hcc : c' = c
          · subst hcc; simp [hRP]
          · have h3 : Q ++ [c'] ≠ Q := by intro e; have := congrArg List.length e; simp at this
            have h4 : Q ++ [c'] ≠ Q ++ [c] := by intro e; exact hcc (by simpa using e)
            rw [hRo _ h3 h4]
            simp only [hcc, or_false]
            exact st.inv.nil_iff Q dQ hdQ c'
        · by_cases h2 : q = Q ++ [c]
          · rw [h2, hRP] at hd; cases hd
            have h3 : Q ++ [c] ++ [c'] ≠ Q := by intro e; have := congrArg List.length e; simp at this
            have h4 : Q ++ [c] ++ [c'] ≠ Q ++ [c] := by intro e; have := congrArg List.length e; simp at this
            rw [h2, hRo _ h3 h4, hbelow c']; simp [nils]
          · rw [hRo q h1 h2] at hd
            rw [st.inv.nil_iff q d hd c']
            by_cases h3 : q ++ [c'] = Q
            · rw [h3, hRQ, hdQ]; simp
            · have h4 : q ++ [c'] ≠ Q ++ [c] := by
                intro e; exact h1 (List.append_inj' e rfl).1
              rw [hRo _ h3 h4]
      · -- keys
        intro q
        rw [prefix_concat_iff]
        by_cases h1 : q = Q
        · rw [h1, hRQ]; simp
        · by_cases h2 : q = Q ++ [c]
          · rw [h2, hRP]; simp
          · rw [hRo q h1 h2, st.keys q]; simp [h2]
      · -- old directories keep files, symlinks and digest nodes
        intro q d0 d h0 hd
        by_cases h1 : q = Q
        · rw [h1, hRQ] at hd; cases hd
          rw [addChild_files, addChild_syms, addChild_digs]
          exact st.old Q d0 dQ (h1 ▸ h0) hdQ
        · by_cases h2 : q = Q ++ [c]
          · rw [h2] at h0; rw [hvP] at h0; cases h0
          · rw [hRo q h1 h2] at hd; exact st.old q d0 d h0 hd
      · -- new directories are empty apart from nil children
        intro q d h0 hd
        by_cases h1 : q = Q
        · rw [h1, hRQ] at hd; cases hd
          rw [addChild_files, addChild_syms, addChild_digs]
          exact st.new Q dQ (h1 ▸ h0) hdQ
        · by_cases h2 : q = Q ++ [c]
          · rw [h2, hRP] at hd; cases hd; simp [digs]
          · rw [hRo q h1 h2] at hd; exact st.new q d h0 hd

/-! ### operations -/

def Op.path : Op → Path
  | .dir p => p | .file p _ => p | .dirNode p _ => p | .sym p _ => p

def filesAt (ops : List Op) (q : Path) : List FileNode :=
  ops.filterMap fun | .file p n => if p = q then some n else none | _ => none
def symsAt (ops : List Op) (q : Path) : List SymNode :=
  ops.filterMap fun | .sym p n => if p = q then some n else none | _ => none
def digsAt (ops : List Op) (q : Path) : List DirNode :=
  ops.filterMap fun | .dirNode p n => if p = q then some n else none | _ => none

/-- `q` is the root or a prefix of the directory some operation names. -/
def KeyOf (ops : List Op) (q : Path) : Prop := q = [] ∨ ∃ op ∈ ops, q <+: op.path

/-- What one operation does, on views. -/
def opV (v : View) : Op → View
  | .dir p => ensureV v p.reverse
  | .file p n => let w := ensureV v p.reverse; vupd w p ((w p).map fun d => { d with files := d.files ++ [n] })
  | .dirNode p n => let w := ensureV v p.reverse; vupd w p ((w p).map fun d => { d with dirs := d.dirs ++ [n] })
  | .sym p n => let w := ensureV v p.reverse; vupd w p ((w p).map fun d => { d with syms := d.syms ++ [n] })

theorem applyOp_get (b : Builder) (op : Op) : (applyOp b op).get = opV b.get op := by
  cases op <;> simp only [applyOp, opV, ensure, get_modify, ensureRev_get]

structure Rel (v : View) (ops : List Op) : Prop where
  inv : InvV v
  keys : ∀ q, (v q).isSome = true ↔ KeyOf ops q
  content : ∀ q d, v q = some d → d.files = filesAt ops q ∧ d.syms = symsAt ops q ∧ digs d = digsAt ops q

/-- Directory nodes are inserted with their digest (a nil digest would make `walk` dereference a missing entry). -/
def OpsOK (all : List Op) : Prop := ∀ p n, Op.dirNode p n ∈ all → n.dg.isSome = true
/-- A directory node with a digest never names a directory that is also built up from entries. -/
def NoOverlap (all : List Op) : Prop := ∀ p n, Op.dirNode p n ∈ all → ¬ KeyOf all (p ++ [n.name])

theorem Rel.empty : Rel Builder.empty.get [] where
  inv := by
    have hget : ∀ q, Builder.empty.get q = if q = [] then some {} else none := by
      intro q; unfold Builder.empty Builder.get
      by_cases h : q = []
      · subst h; simp
      · have : (([] : Path) == q) = false := by simpa using fun e => h e
        simp [this, h]
    refine ⟨by rw [hget]; simp, ?_, ?_, ?_⟩
    · intro q c h; rw [hget] at h; simp at h
    · intro q d h; rw [hget] at h; by_cases hq : q = [] <;> simp [hq] at h; subst h; simp [nils]
    · intro q d h c; rw [hget] at h; by_cases hq : q = [] <;> simp [hq] at h; subst h
      rw [hget]; simp [nils]
  keys := by
    intro q
    unfold Builder.empty Builder.get KeyOf
    by_cases h : q = []
    · subst h; simp
    · have : (([] : Path) == q) = false := by simpa using fun e => h e
      simp [this, h]
  content := by
    intro q d h
    unfold Builder.empty Builder.get at h
    by_cases hq : q = []
    · subst hq; simp at h; subst h; simp [filesAt, symsAt, digsAt, digs]
    · have : (([] : Path) == q) = false := by simpa using fun e => hq e
      simp [this] at h

theorem filesAt_snoc (ops : List Op) (op : Op) (q : Path) :
    filesAt (ops ++ [op]) q = filesAt ops q ++ (match op with | .file p n => if p = q then [n] else [] | _ => []) := by
  unfold filesAt; rw [List.filterMap_append]
  cases op <;> simp
  split <;> simp_all
theorem symsAt_snoc (ops : List Op) (op : Op) (q : Path) :
    symsAt (ops ++ [op]) q = symsAt ops q ++ (match op with | .sym p n => if p = q then [n] else [] | _ => []) := by
  unfold symsAt; rw [List.filterMap_append]
  cases op <;> simp
  split <;> simp_all
theorem digsAt_snoc (ops : List Op) (op : Op) (q : Path) :
    digsAt (ops ++ [op]) q = digsAt ops q ++ (match op with | .dirNode p n => if p = q then [n] else [] | _ => []) := by
  unfold digsAt; rw [List.filterMap_append]
  cases op <;> simp
  split <;> simp_all

theorem mem_digsAt {ops : List Op} {q : Path} {n : DirNode} (h : n ∈ digsAt ops q) : Op.dirNode q n ∈ ops := by
  unfold digsAt at h
  simp only [List.mem_filterMap] at h
  obtain ⟨op, hop, h⟩ := h
  cases op <;> simp at h
  obtain ⟨rfl, rfl⟩ := h; exact hop
theorem mem_filesAt {ops : List Op} {q : Path} {n : FileNode} (h : n ∈ filesAt ops q) : Op.file q n ∈ ops := by
  unfold filesAt at h
  simp only [List.mem_filterMap] at h
  obtain ⟨op, hop, h⟩ := h
  cases op <;> simp at h
  obtain ⟨rfl, rfl⟩ := h; exact hop
theorem mem_symsAt {ops : List Op} {q : Path} {n : SymNode} (h : n ∈ symsAt ops q) : Op.sym q n ∈ ops := by
  unfold symsAt at h
  simp only [List.mem_filterMap] at h
  obtain ⟨op, hop, h⟩ := h
  cases op <;> simp at h
  obtain ⟨rfl, rfl⟩ := h; exact hop

theorem keyOf_of_mem {ops : List Op} {op : Op} (h : op ∈ ops) : KeyOf ops op.path :=
  Or.inr ⟨op, h, List.prefix_refl _⟩

theorem keyOf_snoc (ops : List Op) (op : Op) (q : Path) : KeyOf (ops ++ [op]) q ↔ KeyOf ops q ∨ q <+: op.path := by
  unfold KeyOf
  simp only [List.mem_append, List.mem_singleton]
  constructor
  · rintro (h | ⟨o, ho | rfl, hq⟩)
    · exact Or.inl (Or.inl h)
    · exact Or.inl (Or.inr ⟨o, ho, hq⟩)
    · exact Or.inr hq
  · rintro ((h | ⟨o, ho, hq⟩) | h)
    · exact Or.inl h
    · exact Or.inr ⟨o, Or.inl ho, hq⟩
    · exact Or.inr ⟨op, Or.inr rfl, h⟩

/-- Replacing a directory by one with the same nil children keeps the invariants. -/
theorem InvV.vupd_same_nils {w : View} (h : InvV w) {p : Path} {d d' : Dir} (hd : w p = some d) (hn : nils d' = nils d) :
    InvV (vupd w p (some d')) := by
  have hsome : ∀ q, (vupd w p (some d') q).isSome = (w q).isSome := by
    intro q; unfold vupd; by_cases hq : q = p
    · subst hq; simp [hd]
    · simp [hq]
  refine ⟨by rw [hsome]; exact h.root, ?_, ?_, ?_⟩
  · intro q c hc; rw [hsome] at hc ⊢; exact h.pc q c hc
  · intro q x hx
    unfold vupd at hx
    by_cases hq : q = p
    · subst hq; simp at hx; subst hx; rw [hn]; exact h.nil_nodup q d hd
    · simp [hq] at hx; exact h.nil_nodup q x hx
  · intro q x hx c
    rw [hsome]
    unfold vupd at hx
    by_cases hq : q = p
    · subst hq; simp at hx; subst hx; rw [hn]; exact h.nil_iff q d hd c
    · simp [hq] at hx; exact h.nil_iff q x hx c

theorem Rel.noDig {v : View} {ops all : List Op} (h : Rel v ops) (hsub : ∀ o ∈ ops, o ∈ all) (hno : NoOverlap all)
    {op : Op} (hop : op ∈ all) : NoDig v op.path := by
  intro q c d hq hvq n hn hname
  rw [(h.content q d hvq).2.2] at hn
  have hmem := hsub _ (mem_digsAt hn)
  apply hno q n hmem
  rw [hname]
  exact Or.inr ⟨op, hop, hq⟩

theorem filesAt_nil_of_not_key {ops : List Op} {q : Path} (h : ¬ KeyOf ops q) :
    filesAt ops q = [] ∧ symsAt ops q = [] ∧ digsAt ops q = [] := by
  refine ⟨?_, ?_, ?_⟩
  · apply List.eq_nil_iff_forall_not_mem.mpr; intro n hn; exact h (keyOf_of_mem (mem_filesAt hn))
  · apply List.eq_nil_iff_forall_not_mem.mpr; intro n hn; exact h (keyOf_of_mem (mem_symsAt hn))
  · apply List.eq_nil_iff_forall_not_mem.mpr; intro n hn; exact h (keyOf_of_mem (mem_digsAt hn))

/-- After `ensure op.path` the view is related to `ops ++ [.dir op.path]`, content-wise to `ops`. -/
theorem Rel.ensure {v : View} {ops all : List Op} (h : Rel v ops) (hsub : ∀ o ∈ ops, o ∈ all) (hno : NoOverlap all)
    {op : Op} (hop : op ∈ all) :
    let w := ensureV v op.path.reverse
    InvV w ∧ (∀ q, (w q).isSome = true ↔ KeyOf (ops ++ [op]) q) ∧
    (∀ q d, w q = some d → d.files = filesAt ops q ∧ d.syms = symsAt ops q ∧ digs d = digsAt ops q) := by
  intro w
  have st := ensureV_step v h.inv op.path.reverse (by rw [List.reverse_reverse]; exact h.noDig hsub hno hop)
  rw [List.reverse_reverse] at st
  refine ⟨st.inv, ?_, ?_⟩
  · intro q; rw [st.keys q, keyOf_snoc, h.keys q]
  · intro q d hd
    cases hvq : v q with
    | some d0 =>
      obtain ⟨h1, h2, h3⟩ := st.old q d0 d hvq hd
      obtain ⟨g1, g2, g3⟩ := h.content q d0 hvq
      exact ⟨h1.trans g1, h2.trans g2, h3.trans g3⟩
    | none =>
      obtain ⟨h1, h2, h3⟩ := st.new q d hvq hd
      have hk : ¬ KeyOf ops q := by
        intro hk; have := (h.keys q).mpr hk; rw [hvq] at this; simp at this
      obtain ⟨g1, g2, g3⟩ := filesAt_nil_of_not_key hk
      exact ⟨h1.trans g1.symm, h2.trans g2.symm, h3.trans g3.symm⟩

theorem Rel.step {v : View} {ops all : List Op} (h : Rel v ops) (hsub : ∀ o ∈ ops, o ∈ all) (hok : OpsOK all)
    (hno : NoOverlap all) {op : Op} (hop : op ∈ all) : Rel (opV v op) (ops ++ [op]) := by
  obtain ⟨hinv, hkeys, hcont⟩ := h.ensure hsub hno hop
  have hpres : (ensureV v op.path.reverse op.path).isSome = true :=
    (hkeys op.path).mpr ((keyOf_snoc ops op op.path).mpr (Or.inr (List.prefix_refl _)))
  obtain ⟨dp, hdp⟩ := Option.isSome_iff_exists.mp hpres
  cases op with
  | dir p =>
    refine ⟨hinv, hkeys, ?_⟩
    intro q d hd
    obtain ⟨h1, h2, h3⟩ := hcont q d hd
    rw [filesAt_snoc, symsAt_snoc, digsAt_snoc]; simp [h1, h2, h3]
  | file p n =>
    simp only [Op.path] at hdp hkeys hcont hinv
    simp only [opV, hdp, Option.map_some]
    refine ⟨hinv.vupd_same_nils hdp (by simp [nils]), ?_, ?_⟩
    · intro q; rw [← hkeys q]; unfold vupd; by_cases hq : q = p
      · subst hq; simp [hdp]
      · simp [hq]
    · intro q d hd
      rw [filesAt_snoc, symsAt_snoc, digsAt_snoc]
      unfold vupd at hd
      by_cases hq : q = p
      · subst hq; simp at hd; subst hd
        obtain ⟨h1, h2, h3⟩ := hcont q dp hdp
        simp [h1, h2, ← h3, digs]
      · simp [hq] at hd
        obtain ⟨h1, h2, h3⟩ := hcont q d hd
        have : ¬ p = q := fun e => hq e.symm
        simp [h1, h2, h3, this]
  | sym p n =>
    simp only [Op.path] at hdp hkeys hcont hinv
    simp only [opV, hdp, Option.map_some]
    refine ⟨hinv.vupd_same_nils hdp (by simp [nils]), ?_, ?_⟩
    · intro q; rw [← hkeys q]; unfold vupd; by_cases hq : q = p
      · subst hq; simp [hdp]
      · simp [hq]
    · intro q d hd
      rw [filesAt_snoc, symsAt_snoc, digsAt_snoc]
      unfold vupd at hd
      by_cases hq : q = p
      · subst hq; simp at hd; subst hd
        obtain ⟨h1, h2, h3⟩ := hcont q dp hdp
        simp [h1, h2, ← h3, digs]
      · simp [hq] at hd
        obtain ⟨h1, h2, h3⟩ := hcont q d hd
        have : ¬ p = q := fun e => hq e.symm
        simp [h1, h2, h3, this]
  | dirNode p n =>
    simp only [Op.path] at hdp hkeys hcont hinv
    have hdg : n.dg.isSome = true := hok p n hop
    simp only [opV, hdp, Option.map_some]
    have hdg' : n.dg ≠ none := by intro e; rw [e] at hdg; simp at hdg
    refine ⟨hinv.vupd_same_nils hdp (by simp [nils, List.filter_append, hdg']), ?_, ?_⟩
    · intro q; rw [← hkeys q]; unfold vupd; by_cases hq : q = p
      · subst hq; simp [hdp]
      · simp [hq]
    · intro q d hd
      rw [filesAt_snoc, symsAt_snoc, digsAt_snoc]
      unfold vupd at hd
      by_cases hq : q = p
      · subst hq; simp at hd; subst hd
        obtain ⟨h1, h2, h3⟩ := hcont q dp hdp
        simp [h1, h2, ← h3, digs, List.filter_append, hdg]
      · simp [hq] at hd
        obtain ⟨h1, h2, h3⟩ := hcont q d hd
        have : ¬ p = q := fun e => hq e.symm
        simp [h1, h2, h3, this]

theorem Rel.foldl {all : List Op} (hok : OpsOK all) (hno : NoOverlap all) (rest : List Op) :
    ∀ (b : Builder) (pre : List Op), Rel b.get pre → (∀ o ∈ pre ++ rest, o ∈ all) →
      Rel (rest.foldl applyOp b).get (pre ++ rest) := by
  induction rest with
  | nil => intro b pre h _; simpa using h
  | cons op rest ih =>
    intro b pre h hsub
    rw [List.foldl_cons]
    have : pre ++ op :: rest = (pre ++ [op]) ++ rest := by simp
    rw [this] at hsub ⊢
    apply ih
    · rw [applyOp_get]
      exact h.step (fun o ho => hsub o (by simp [ho])) hok hno (hsub op (by simp))
    · exact hsub

/-- The builder after any list of operations, described declaratively. -/
theorem applyOps_rel {ops : List Op} (hok : OpsOK ops) (hno : NoOverlap ops) : Rel (applyOps ops).get ops := by
  have := Rel.foldl hok hno ops Builder.empty [] Rel.empty (by simp)
  simpa [applyOps] using this

/-! ### any permutation of the operations gives an equivalent builder -/

theorem keyOf_perm {ops₁ ops₂ : List Op} (p : ops₁.Perm ops₂) (q : Path) : KeyOf ops₁ q ↔ KeyOf ops₂ q := by
  unfold KeyOf
  constructor
  · rintro (h | ⟨o, ho, hq⟩)
    · exact Or.inl h
    · exact Or.inr ⟨o, p.mem_iff.mp ho, hq⟩
  · rintro (h | ⟨o, ho, hq⟩)
    · exact Or.inl h
    · exact Or.inr ⟨o, p.mem_iff.mpr ho, hq⟩

theorem OpsOK.perm {ops₁ ops₂ : List Op} (p : ops₁.Perm ops₂) (h : OpsOK ops₁) : OpsOK ops₂ :=
  fun q n hn => h q n (p.mem_iff.mpr hn)
theorem NoOverlap.perm {ops₁ ops₂ : List Op} (p : ops₁.Perm ops₂) (h : NoOverlap ops₁) : NoOverlap ops₂ :=
  fun q n hn hk => h q n (p.mem_iff.mpr hn) ((keyOf_perm p _).mpr hk)

theorem dirs_perm_split (d : Dir) : d.dirs.Perm (digs d ++ (nils d).map fun c => ⟨c, none⟩) := by
  have h := (List.filter_append_perm (fun n : DirNode => n.dg.isSome) d.dirs).symm
  have hnone : d.dirs.filter (fun n => !n.dg.isSome) = (nils d).map fun c => ⟨c, none⟩ := by
    unfold nils
    rw [List.map_map]
    have : d.dirs.filter (fun n => !n.dg.isSome) = d.dirs.filter (fun n => n.dg.isNone) := by
      congr 1; funext n; cases n.dg <;> rfl
    rw [this]
    symm
    calc List.map ((fun c => (⟨c, none⟩ : DirNode)) ∘ fun n => n.name) (d.dirs.filter fun n => n.dg.isNone)
        = List.map id (d.dirs.filter fun n => n.dg.isNone) := by
          apply List.map_congr_left
          intro n hn
          simp only [List.mem_filter] at hn
          obtain ⟨nm, dg⟩ := n
          have : dg = none := by simpa using hn.2
          simp [this]
      _ = _ := by simp
  rw [hnone] at h
  exact h

theorem applyOps_perm {ops₁ ops₂ : List Op} (p : ops₁.Perm ops₂) (hok : OpsOK ops₁) (hno : NoOverlap ops₁) :
    BEquiv (applyOps ops₁) (applyOps ops₂) := by
  have r₁ := applyOps_rel hok hno
  have r₂ := applyOps_rel (hok.perm p) (hno.perm p)
  intro q
  cases h1 : (applyOps ops₁).get q with
  | none =>
    cases h2 : (applyOps ops₂).get q with
    | none => trivial
    | some d₂ =>
      have := (r₁.keys q).mpr ((keyOf_perm p q).mpr ((r₂.keys q).mp (by simp [h2])))
      rw [h1] at this; simp at this
  | some d₁ =>
    cases h2 : (applyOps ops₂).get q with
    | none =>
      have := (r₂.keys q).mpr ((keyOf_perm p q).mp ((r₁.keys q).mp (by simp [h1])))
      rw [h2] at this; simp at this
    | some d₂ =>
      simp only
      obtain ⟨f1, s1, g1⟩ := r₁.content q d₁ h1
      obtain ⟨f2, s2, g2⟩ := r₂.content q d₂ h2
      refine ⟨?_, ?_, ?_⟩
      · rw [f1, f2]; exact p.filterMap _
      · refine (dirs_perm_split d₁).trans (List.Perm.trans ?_ (dirs_perm_split d₂).symm)
        apply List.Perm.append
        · rw [g1, g2]; exact p.filterMap _
        · apply List.Perm.map
          rw [List.perm_ext_iff_of_nodup (r₁.inv.nil_nodup q d₁ h1) (r₂.inv.nil_nodup q d₂ h2)]
          intro c
          rw [r₁.inv.nil_iff q d₁ h1 c, r₂.inv.nil_iff q d₂ h2 c, r₁.keys, r₂.keys]
          exact keyOf_perm p _
      · rw [s1, s2]; exact p.filterMap _

/-- Consistent duplicates, stated on the operations: in one directory, entries of one kind with the same
    name are identical. -/
def ConsOps (ops : List Op) : Prop :=
  ∀ q, Cons (·.name) (filesAt ops q) ∧ Cons (·.name) (symsAt ops q) ∧ Cons (·.name) (digsAt ops q)

theorem applyOps_cons {ops : List Op} (hok : OpsOK ops) (hno : NoOverlap ops) (hc : ConsOps ops) :
    BCons (applyOps ops) := by
  have r := applyOps_rel hok hno
  intro q d hd
  obtain ⟨f1, s1, g1⟩ := r.content q d hd
  refine ⟨by rw [f1]; exact (hc q).1, ?_, by rw [s1]; exact (hc q).2.1⟩
  intro a ha b hb hab
  -- split by whether the nodes carry a digest
  have hmem_dig : ∀ n ∈ d.dirs, n.dg.isSome = true → n ∈ digsAt ops q := by
    intro n hn hs; rw [← g1]; unfold digs; simp [List.mem_filter, hn, hs]
  have hmem_nil : ∀ n ∈ d.dirs, n.dg = none → n.name ∈ nils d := by
    intro n hn hs; unfold nils; simp only [List.mem_map, List.mem_filter]
    exact ⟨n, ⟨hn, by simp [hs]⟩, rfl⟩
  have hclash : ∀ x y : DirNode, x ∈ d.dirs → y ∈ d.dirs → x.dg = none → y.dg.isSome = true → x.name = y.name → False := by
    intro x y hx hy hxn hys hname
    have hk := (r.keys _).mp ((r.inv.nil_iff q d hd x.name).mp (hmem_nil x hx hxn))
    have hmem := mem_digsAt (hmem_dig y hy hys)
    exact hno q y hmem (hname ▸ hk)
  cases hadg : a.dg with
  | none =>
    cases hbdg : b.dg with
    | none =>
      obtain ⟨an, adg⟩ := a; obtain ⟨bn, bdg⟩ := b
      simp only at hab hadg hbdg; subst hab hadg hbdg; rfl
    | some y => exact absurd hab (fun e => hclash a b ha hb hadg (by simp [hbdg]) e)
  | some x =>
    cases hbdg : b.dg with
    | none => exact absurd hab.symm (fun e => hclash b a hb ha hbdg (by simp [hadg]) e)
    | some y => exact (hc q).2.2 a (hmem_dig a ha (by simp [hadg])) b (hmem_dig b hb (by simp [hbdg])) hab

end PlzVerif.DirBuilder

namespace PlzVerif.DirBuilder

/-! ### `walk` never fails on a builder produced by well-formed operations -/

theorem fillWith_isSome (wc : Name → Option Walked) (H : Dir → Dg) (l : List DirNode)
    (h : ∀ n ∈ l, n.dg = none → (wc n.name).isSome = true) : (fillWith wc H l).isSome = true := by
  induction l with
  | nil => simp [fillWith]
  | cons n rest ih =>
    have hr := ih (fun m hm => h m (List.mem_cons_of_mem _ hm))
    obtain ⟨r, hr'⟩ := Option.isSome_iff_exists.mp hr
    unfold fillWith
    cases hdg : n.dg with
    | some x => simp [hr']
    | none =>
      obtain ⟨w, hw⟩ := Option.isSome_iff_exists.mp (h n (by simp) hdg)
      simp [hw, hr']

theorem foldl_max_le (b : Builder) (a : Nat) : a ≤ b.foldl (fun a e => max a e.1.length) a := by
  induction b generalizing a with
  | nil => exact Nat.le_refl _
  | cons e es ih => exact Nat.le_trans (Nat.le_max_left _ _) (ih _)

theorem length_le_depth (b : Builder) (q : Path) (h : (b.get q).isSome = true) : q.length ≤ b.depth := by
  unfold Builder.depth
  rw [← has_eq_get] at h
  unfold Builder.has at h
  suffices hs : ∀ a, q.length ≤ b.foldl (fun a e => max a e.1.length) a from hs 0
  induction b with
  | nil => simp at h
  | cons e es ih =>
    intro a
    simp only [List.any_cons, Bool.or_eq_true] at h
    rw [List.foldl_cons]
    rcases h with h | h
    · have : e.1 = q := by simpa using h
      rw [← this]
      exact Nat.le_trans (Nat.le_max_right _ _) (foldl_max_le es _)
    · exact ih h _

/-- With enough fuel for the deepest directory, walking any existing directory succeeds: every child without
    a digest is a directory of the builder (`Rel`), so no lookup fails. -/
theorem walkWith_isSome (shared : Bool) (sf : List FileNode → List FileNode) (sd : List DirNode → List DirNode)
    (ss : List SymNode → List SymNode) (H : Dir → Dg) (b : Builder) (ops : List Op) (r : Rel b.get ops) :
    ∀ fuel p, (b.get p).isSome = true → b.depth + 1 ≤ fuel + p.length →
      (walkWith shared sf sd ss H b fuel p).isSome = true := by
  intro fuel
  induction fuel with
  | zero =>
    intro p hp hf
    have := length_le_depth b p hp
    omega
  | succ fuel ih =>
    intro p hp hf
    obtain ⟨d, hd⟩ := Option.isSome_iff_exists.mp hp
    unfold walkWith
    simp only [hd]
    have hfill : (fillWith (fun c => walkWith shared sf sd ss H b fuel (p ++ [c])) H d.dirs).isSome = true := by
      apply fillWith_isSome
      intro n hn hdg
      have hmem : n.name ∈ nils d := by
        unfold nils; simp only [List.mem_map, List.mem_filter]
        exact ⟨n, ⟨hn, by simp [hdg]⟩, rfl⟩
      have hchild := (r.inv.nil_iff p d hd n.name).mp hmem
      apply ih _ hchild
      simp; omega
    obtain ⟨x, hx⟩ := Option.isSome_iff_exists.mp hfill
    simp [hx]

end PlzVerif.DirBuilder

namespace PlzVerif.DirBuilder

/-! ### more fuel does not change a successful walk -/

theorem fillWith_congr (wc₁ wc₂ : Name → Option Walked) (H : Dir → Dg) (l : List DirNode)
    (h : ∀ n ∈ l, n.dg = none → wc₁ n.name = wc₂ n.name) : fillWith wc₁ H l = fillWith wc₂ H l := by
  induction l with
  | nil => rfl
  | cons n rest ih =>
    have hr := ih (fun m hm => h m (List.mem_cons_of_mem _ hm))
    unfold fillWith
    cases hdg : n.dg with
    | some x => simp [hr]
    | none => simp only []; rw [h n (by simp) hdg, hr]

theorem fillWith_children_some (wc : Name → Option Walked) (H : Dir → Dg) (l : List DirNode)
    (h : (fillWith wc H l).isSome = true) : ∀ n ∈ l, n.dg = none → (wc n.name).isSome = true := by
  induction l with
  | nil => intro n hn; simp at hn
  | cons m rest ih =>
    unfold fillWith at h
    intro n hn hdg
    cases hm : m.dg with
    | some x =>
      simp only [hm] at h
      have hr : (fillWith wc H rest).isSome = true := by
        cases hf : fillWith wc H rest <;> simp [hf] at h ⊢
      simp only [List.mem_cons] at hn
      rcases hn with rfl | hn
      · rw [hm] at hdg; cases hdg
      · exact ih hr n hn hdg
    | none =>
      simp only [hm] at h
      cases hw : wc m.name with
      | none => simp [hw] at h
      | some w =>
        cases hf : fillWith wc H rest with
        | none => simp [hw, hf] at h
        | some r =>
          simp only [List.mem_cons] at hn
          rcases hn with rfl | hn
          · simp [hw]
          · exact ih (by simp [hf]) n hn hdg

theorem walkWith_mono (shared : Bool) (sf : List FileNode → List FileNode) (sd : List DirNode → List DirNode)
    (ss : List SymNode → List SymNode) (H : Dir → Dg) (b : Builder) :
    ∀ fuel p w, walkWith shared sf sd ss H b fuel p = some w → walkWith shared sf sd ss H b (fuel + 1) p = some w := by
  intro fuel
  induction fuel with
  | zero => intro p w h; simp [walkWith] at h
  | succ fuel ih =>
    intro p w h
    unfold walkWith at h ⊢
    cases hd : b.get p with
    | none => simp [hd] at h
    | some d =>
      simp only [hd] at h ⊢
      have hsome : (fillWith (fun c => walkWith shared sf sd ss H b fuel (p ++ [c])) H d.dirs).isSome = true := by
        cases hf : fillWith (fun c => walkWith shared sf sd ss H b fuel (p ++ [c])) H d.dirs with
        | none => simp [hf] at h
        | some r => rfl
      have hc := fillWith_children_some _ H d.dirs hsome
      have heq : fillWith (fun c => walkWith shared sf sd ss H b (fuel + 1) (p ++ [c])) H d.dirs
          = fillWith (fun c => walkWith shared sf sd ss H b fuel (p ++ [c])) H d.dirs := by
        apply fillWith_congr
        intro n hn hdg
        obtain ⟨w', hw'⟩ := Option.isSome_iff_exists.mp (hc n hn hdg)
        simp only [hw']
        exact ih _ _ hw'
      rw [heq]; exact h

theorem walkWith_mono_le (shared : Bool) (sf : List FileNode → List FileNode) (sd : List DirNode → List DirNode)
    (ss : List SymNode → List SymNode) (H : Dir → Dg) (b : Builder) (fuel k : Nat) (p : Path) (w : Walked)
    (h : walkWith shared sf sd ss H b fuel p = some w) : walkWith shared sf sd ss H b (fuel + k) p = some w := by
  induction k with
  | zero => exact h
  | succ k ih => exact walkWith_mono shared sf sd ss H b (fuel + k) p w ih

end PlzVerif.DirBuilder
