import PlzVerif.Lemmas.Cycle
/-!
C06, stronger soundness: a reported cycle never repeats a target (it is a simple cycle).  Core Lean only.
-/
namespace PlzVerif.Cycle

theorem eq_dropLast_append {l : Nat} : ∀ {c : List Nat}, c.getLast? = some l → c = c.dropLast ++ [l]
  | [], h => by simp at h
  | [a], h => by simp at h; subst h; rfl
  | a :: b :: r, h => by
    have h' : (b :: r).getLast? = some l := by rw [List.getLast?_cons_cons] at h; exact h
    have ih := eq_dropLast_append h'
    rw [List.dropLast_cons_cons, List.cons_append, ← ih]

theorem nodup_of_parts {c : List Nat} {l : Nat} (hl : c.getLast? = some l) (hn : c.dropLast.Nodup) (hni : l ∉ c.dropLast) :
    c.Nodup := by
  rw [eq_dropLast_append hl]
  refine List.nodup_append.mpr ⟨hn, (by simp), ?_⟩
  intro a ha b hb
  simp only [List.mem_singleton] at hb
  subst hb
  intro h; subst h; exact hni ha

/-- an unfinished result relative to the stack `base`: no repeats before the last element, nothing of it on the
stack except the last element -/
def OpenSimple (base : List Nat) (c : List Nat) : Prop :=
  c.dropLast.Nodup ∧ (∀ x ∈ c.dropLast, x ∉ base) ∧ ∃ l, c.getLast? = some l ∧ l ∈ base

def VisitS (s : St) (r : Res) : Prop :=
  (∀ c, r = .cyc c true → c.Nodup) ∧ (∀ c, r = .cyc c false → OpenSimple s.part c)

def ListS (base : List Nat) (t : Nat) (r : Res) : Prop :=
  (∀ c, r = .cyc c true → c.Nodup) ∧ (∀ c, r = .cyc c false → OpenSimple base c)

theorem list_simple {cfg : Cfg} (hcfg : cfg.OK = true) (g : Graph) (fuel : Nat)
    (ih : ∀ s t, VisitS s (visit cfg g fuel s t).1) (base : List Nat) (t : Nat) (htb : t ∉ base) :
    ∀ (ds : List Nat) (s : St), s.part = t :: base → ListS base t (visitList cfg g fuel s t ds).1 := by
  intro ds
  induction ds with
  | nil => intro s _; rw [visitList_nil]; exact ⟨by simp, by simp⟩
  | cons d ds ihl =>
    intro s hs
    have hv := ih s d
    have hok := visit_ok hcfg g fuel s d
    rw [visitList_cons]
    generalize visit cfg g fuel s d = vr at hv hok
    obtain ⟨r, s1⟩ := vr
    cases r with
    | none => exact ihl s1 (by rw [hok.1 rfl]; exact hs)
    | oof => exact ⟨by simp, by simp⟩
    | cyc c done =>
      simp only [close_ok hcfg] at hv ⊢
      cases done with
      | true =>
        simp only [Bool.true_or, ite_true]
        exact ⟨fun c' h => by cases h; exact hv.1 c rfl, by simp⟩
      | false =>
        obtain ⟨hnd, hnot, l, hl, hlp⟩ := hv.2 c rfl
        rw [hs] at hnot hlp
        by_cases hlt : c.getLast? = some t
        · simp only [Bool.false_or, hlt, beq_self_eq_true, ite_true]
          refine ⟨fun c' h => ?_, by simp⟩
          cases h
          apply nodup_of_parts hlt hnd
          intro hin
          exact hnot t hin (List.mem_cons_self ..)
        · have : (c.getLast? == some t) = false := by simpa using hlt
          simp only [Bool.false_or, this, Bool.false_eq_true, ite_false]
          refine ⟨by simp, fun c' h => ?_⟩
          cases h
          have hne : c ≠ [] := by intro h; simp [h] at hl
          have hlb : l ∈ base := by
            simp only [List.mem_cons] at hlp
            rcases hlp with rfl | h
            · exact absurd hl hlt
            · exact h
          have hdl : (t :: c).dropLast = t :: c.dropLast := by
            cases c with
            | nil => exact absurd rfl hne
            | cons a r => rfl
          refine ⟨?_, ?_, l, by rw [List.getLast?_cons_of_ne_nil hne]; exact hl, hlb⟩
          · rw [hdl]
            refine List.nodup_cons.mpr ⟨?_, hnd⟩
            intro hin; exact hnot t hin (List.mem_cons_self ..)
          · rw [hdl]
            intro x hx
            simp only [List.mem_cons] at hx
            rcases hx with rfl | hx
            · exact htb
            · intro hxb; exact hnot x hx (List.mem_cons_of_mem _ hxb)

theorem visit_simple {cfg : Cfg} (hcfg : cfg.OK = true) (g : Graph) : ∀ (fuel : Nat) (s : St) (t : Nat),
    VisitS s (visit cfg g fuel s t).1 := by
  intro fuel
  induction fuel with
  | zero => intro s t; rw [visit_zero]; exact ⟨by simp, by simp⟩
  | succ fuel ih =>
    intro s t
    rw [visit_succ]
    cases hg : guard cfg s t with
    | some r =>
      simp only
      rcases guard_some hg with ⟨rfl, _⟩ | ⟨rfl, hp⟩
      · exact ⟨by simp, by simp⟩
      · refine ⟨by simp, fun c h => ?_⟩
        cases h
        exact ⟨by simp, by simp, t, rfl, hp⟩
    | none =>
      simp only
      have htb := (guard_none hg).2
      have hl := list_simple hcfg g fuel ih s.part t htb (g t) { s with part := t :: s.part } rfl
      generalize visitList cfg g fuel { s with part := t :: s.part } t (g t) = vr at hl
      obtain ⟨r, s2⟩ := vr
      cases r with
      | none => exact ⟨by simp, by simp⟩
      | oof => exact ⟨by simp, by simp⟩
      | cyc c done => exact hl

theorem checkFrom_simple {cfg : Cfg} (hcfg : cfg.OK = true) (g : Graph) (fuel : Nat) :
    ∀ (ts : List Nat) (s : St), s.part = [] → ∀ c d, (checkFrom cfg g fuel s ts).1 = .cyc c d → c.Nodup := by
  intro ts
  induction ts with
  | nil => intro s _ c d h; simp [checkFrom] at h
  | cons t ts ih =>
    intro s hs c d h
    have hv := visit_simple hcfg g fuel s t
    have hok := visit_ok hcfg g fuel s t
    unfold checkFrom at h
    split at h
    · exact ih s hs c d h
    · generalize visit cfg g fuel s t = vr at hv hok h
      obtain ⟨r, s1⟩ := vr
      cases r with
      | none => exact ih s1 (by rw [hok.1 rfl, hs]) c d h
      | oof => simp at h
      | cyc c' d' =>
        simp only at h
        cases h
        cases d with
        | true => exact hv.1 c rfl
        | false =>
          obtain ⟨_, _, l, _, hl⟩ := hv.2 c rfl
          rw [hs] at hl; simp at hl

/-- a reported cycle never repeats a target -/
theorem check_simple {cfg : Cfg} (hcfg : cfg.OK = true) (g : Graph) (nodes c : List Nat) (d : Bool)
    (h : check cfg g nodes = .cyc c d) : c.Nodup :=
  checkFrom_simple hcfg g _ nodes ⟨[], []⟩ rfl c d h

/-! ### sequences of checks on one detector -/

/-- When nothing persists in the detector, every call of a sequence is exactly a fresh `check` of the graph given to
that call — whatever the earlier calls saw. -/
theorem runSeq_stateless (cfg : Cfg) : ∀ (calls : List (Graph × List Nat)) (st : DetState),
    runSeq cfg Persist.none st calls = calls.map fun c => check cfg c.1 c.2 := by
  intro calls
  induction calls with
  | nil => intro st; rfl
  | cons c rest ih =>
    intro st
    obtain ⟨g, nodes⟩ := c
    simp only [runSeq, List.map_cons]
    rw [ih]
    rfl

end PlzVerif.Cycle
