import PlzVerif.Model.Query
/-!
Lemmas for C23 (part 1): the specification (weighted dependency paths) and `deps`.
Core Lean only.
-/
namespace PlzVerif.Query

def Edge (G : Graph) (a b : Nat) : Prop := b ∈ G.adj a

instance (G : Graph) (a b : Nat) : Decidable (Edge G a b) := inferInstanceAs (Decidable (b ∈ G.adj a))

/-- dependencies of targets are targets (`TargetOrDie` would exit otherwise) -/
def GWF (G : Graph) : Prop := ∀ t ∈ G.nodes, ∀ d ∈ G.adj t, d ∈ G.nodes

/-- Two targets belong to one rule: their labels have the same `Parent()` (the rule itself and its
`_rule#tag` sub-targets). -/
def sameRule (G : Graph) (a b : Nat) : Bool := G.pl a == G.pl b

/-- The specification's cost of a dependency edge: nothing between targets of one rule, unless hidden
targets are counted (`--hidden`); one step otherwise. -/
def costS (G : Graph) (hidden : Bool) (a b : Nat) : Nat := if !hidden && sameRule G a b then 0 else 1

/-- non-empty dependency path with its total cost -/
inductive WPath (G : Graph) (c : Nat → Nat → Nat) : Nat → Nat → Nat → Prop
  | single {a b} : Edge G a b → WPath G c a b (c a b)
  | cons {a b z k} : Edge G a b → WPath G c b z k → WPath G c a z (c a b + k)

theorem WPath.snoc {G : Graph} {c : Nat → Nat → Nat} {a b z k : Nat} (p : WPath G c a b k) (e : Edge G b z) :
    WPath G c a z (k + c b z) := by
  induction p with
  | single e' => exact .cons e' (.single e)
  | cons e' _ ih => rw [Nat.add_assoc]; exact .cons e' (ih e)

/-- unweighted non-empty path -/
inductive Path (G : Graph) : Nat → Nat → Prop
  | single {a b} : Edge G a b → Path G a b
  | cons {a b c} : Edge G a b → Path G b c → Path G a c

theorem WPath.path {G : Graph} {c : Nat → Nat → Nat} {a b k : Nat} (p : WPath G c a b k) : Path G a b := by
  induction p with
  | single e => exact .single e
  | cons e _ ih => exact .cons e ih

theorem Path.wpath {G : Graph} (c : Nat → Nat → Nat) {a b : Nat} (p : Path G a b) : ∃ k, WPath G c a b k := by
  induction p with
  | single e => exact ⟨_, .single e⟩
  | cons e _ ih => obtain ⟨k, hk⟩ := ih; exact ⟨_, .cons e hk⟩

/-- `t` is the root, or at most `lv` steps below it -/
def Near (G : Graph) (hidden : Bool) (r t lv : Nat) : Prop :=
  t = r ∨ ∃ k, k ≤ lv ∧ WPath G (costS G hidden) r t k

theorem Near.step {G : Graph} {hidden : Bool} {r t lv l : Nat} (h : Near G hidden r t lv) (e : Edge G t l) :
    ∃ k, k ≤ lv + costS G hidden t l ∧ WPath G (costS G hidden) r l k := by
  rcases h with rfl | ⟨k, hk, p⟩
  · exact ⟨_, Nat.le_add_left _ _, .single e⟩
  · exact ⟨_, Nat.add_le_add_right hk _, p.snoc e⟩

/-! ### deps: equations -/

/-- the dependency loop of `deps(target, level)` at recursion budget `fuel` -/
def depsL (cfg : Cfg) (G : Graph) (lim : Limit) (hidden : Bool) (fuel target level : Nat) (ls : List Nat) (s : DSt) : DSt :=
  depsList cfg G hidden (deps cfg G lim hidden fuel) target level ls s

theorem deps_zero (cfg : Cfg) (G : Graph) (lim : Limit) (hidden : Bool) (s : DSt) (t l : Nat) :
    deps cfg G lim hidden 0 s t l = { s with oof := true } := rfl

theorem deps_succ (cfg : Cfg) (G : Graph) (lim : Limit) (hidden : Bool) (fuel : Nat) (s : DSt) (t l : Nat) :
    deps cfg G lim hidden (fuel+1) s t l =
      if lim == some l then s else depsL cfg G lim hidden fuel t l (G.adj t) s := rfl

theorem depsL_nil (cfg : Cfg) (G : Graph) (lim : Limit) (hidden : Bool) (fuel t lv : Nat) (s : DSt) :
    depsL cfg G lim hidden fuel t lv [] s = s := rfl

/-- the state in which the recursive call for dependency `l` starts -/
def markDone (cfg : Cfg) (G : Graph) (hidden : Bool) (t lv l : Nat) (s : DSt) : DSt :=
  { s with done := l :: s.done, out := if (depsStep cfg G hidden t lv l).1 then s.out ++ [(l, lv)] else s.out }

theorem depsL_cons (cfg : Cfg) (G : Graph) (lim : Limit) (hidden : Bool) (fuel t lv l : Nat) (ls : List Nat) (s : DSt) :
    depsL cfg G lim hidden fuel t lv (l :: ls) s =
      if l ∈ s.done then depsL cfg G lim hidden fuel t lv ls s
      else depsL cfg G lim hidden fuel t lv ls
        (deps cfg G lim hidden fuel (markDone cfg G hidden t lv l s) l (depsStep cfg G hidden t lv l).2) := rfl

/-! ### deps: what the three branches do at `Cfg.std` -/

theorem depsStep_std (G : Graph) (hidden : Bool) (t lv l : Nat) :
    ((depsStep Cfg.std G hidden t lv l).1 = true → (hidden = true ∨ hasParent G l = false)) ∧
    (depsStep Cfg.std G hidden t lv l).2 ≤ lv + 1 ∧
    lv + costS G hidden t l ≤ (depsStep Cfg.std G hidden t lv l).2 := by
  unfold depsStep costS sameRule Cfg.std
  by_cases h1 : (hidden || !hasParent G l) = true
  · rw [if_pos h1]
    refine ⟨fun _ => ?_, Nat.le_refl _, ?_⟩
    · cases hidden <;> simp_all
    · simp only; split <;> omega
  · rw [if_neg h1]
    have hh : hidden = false := by cases hidden <;> simp_all
    subst hh
    by_cases h2 : (G.pl l == G.pl t) = true
    · rw [if_pos h2]
      have h3 : (G.pl t == G.pl l) = true := by simp only [beq_iff_eq] at h2 ⊢; exact h2.symm
      simp [h3]
    · rw [if_neg h2]
      refine ⟨by simp, Nat.le_refl _, ?_⟩
      simp only; split <;> omega

/-! ### deps: soundness — everything printed is within the limit -/

/-- a printed line `(target, indentation)` is justified: the target is printable, the limit allows the level,
and some queried target reaches it within `indentation + 1` steps -/
def GoodOut (G : Graph) (lim : Limit) (hidden : Bool) (roots : List Nat) (e : Nat × Nat) : Prop :=
  (hidden = true ∨ hasParent G e.1 = false) ∧ (∀ N, lim = some N → e.2 + 1 ≤ N) ∧
  ∃ r ∈ roots, ∃ k, k ≤ e.2 + 1 ∧ WPath G (costS G hidden) r e.1 k

theorem depsL_sound (G : Graph) (lim : Limit) (hidden : Bool) (roots : List Nat) (r : Nat) (hr : r ∈ roots) (fuel : Nat)
    (ih : ∀ (s : DSt) (t lv : Nat), Near G hidden r t lv → (∀ N, lim = some N → lv ≤ N) →
      (∀ e ∈ s.out, GoodOut G lim hidden roots e) →
      ∀ e ∈ (deps Cfg.std G lim hidden fuel s t lv).out, GoodOut G lim hidden roots e)
    (t lv : Nat) (hn : Near G hidden r t lv) (hlt : ∀ N, lim = some N → lv + 1 ≤ N) :
    ∀ (ls : List Nat) (s : DSt), (∀ l ∈ ls, Edge G t l) → (∀ e ∈ s.out, GoodOut G lim hidden roots e) →
      ∀ e ∈ (depsL Cfg.std G lim hidden fuel t lv ls s).out, GoodOut G lim hidden roots e := by
  intro ls
  induction ls with
  | nil => intro s _ hs; rw [depsL_nil]; exact hs
  | cons l ls ihl =>
    intro s hls hs
    rw [depsL_cons]
    have hls' : ∀ l' ∈ ls, Edge G t l' := fun l' h => hls l' (List.mem_cons_of_mem _ h)
    split
    · exact ihl s hls' hs
    · apply ihl _ hls'
      obtain ⟨hpr, hle, hge⟩ := depsStep_std G hidden t lv l
      obtain ⟨k, hk, p⟩ := hn.step (hls l (List.mem_cons_self ..))
      apply ih
      · exact Or.inr ⟨k, Nat.le_trans hk hge, p⟩
      · intro N hN; exact Nat.le_trans hle (hlt N hN)
      · intro e he
        unfold markDone at he
        simp only at he
        split at he
        · rename_i hst
          rcases List.mem_append.mp he with he | he
          · exact hs e he
          · simp only [List.mem_singleton] at he
            subst he
            refine ⟨hpr hst, hlt, r, hr, k, ?_, p⟩
            have : costS G hidden t l ≤ 1 := by unfold costS; split <;> simp
            omega
        · exact hs e he

theorem deps_sound_aux (G : Graph) (lim : Limit) (hidden : Bool) (roots : List Nat) (r : Nat) (hr : r ∈ roots) :
    ∀ (fuel : Nat) (s : DSt) (t lv : Nat), Near G hidden r t lv → (∀ N, lim = some N → lv ≤ N) →
      (∀ e ∈ s.out, GoodOut G lim hidden roots e) →
      ∀ e ∈ (deps Cfg.std G lim hidden fuel s t lv).out, GoodOut G lim hidden roots e := by
  intro fuel
  induction fuel with
  | zero => intro s t lv _ _ hs; rw [deps_zero]; exact hs
  | succ fuel ih =>
    intro s t lv hn hle hs
    rw [deps_succ]
    split
    · exact hs
    · rename_i hne
      apply depsL_sound G lim hidden roots r hr fuel ih t lv hn _ (G.adj t) s (fun _ h => h) hs
      intro N hN
      have := hle N hN
      have hne' : lv ≠ N := by intro h; subst h; simp [hN] at hne
      omega

/-- `Deps` prints only printable targets that some queried target reaches within the level limit -/
theorem depsAll_sound (G : Graph) (lim : Limit) (hidden : Bool) (roots : List Nat) :
    ∀ e ∈ (depsAll Cfg.std G lim hidden roots).out, GoodOut G lim hidden roots e := by
  unfold depsAll
  suffices h : ∀ (rs : List Nat) (s : DSt), (∀ r ∈ rs, r ∈ roots) → (∀ e ∈ s.out, GoodOut G lim hidden roots e) →
      ∀ e ∈ (rs.foldl (fun s r => deps Cfg.std G lim hidden (G.nodes.length + 1) s r 0) s).out,
        GoodOut G lim hidden roots e from
    h roots _ (fun _ h => h) (by simp)
  intro rs
  induction rs with
  | nil => intro s _ hs; exact hs
  | cons r rs ih =>
    intro s hrs hs
    simp only [List.foldl_cons]
    apply ih _ (fun r' h => hrs r' (List.mem_cons_of_mem _ h))
    exact deps_sound_aux G lim hidden roots r (hrs r (List.mem_cons_self ..)) _ s r 0 (Or.inl rfl)
      (fun N _ => Nat.zero_le N) hs

end PlzVerif.Query
