import PlzVerif.Model.Sched
/-!
C04/C05 facts: what `harness/extract/c04` reads from build_target.go, state.go, build_step.go and plz.go, as
it is for the code the model was transcribed from (`expected…`), and the parts of it the model can be asked
about (`model…`).
-/
namespace PlzVerif.Sched.Facts
open PlzVerif.Sched

def expected_btIsBuilt : String :=
  "returnBuilt<=recv&&recv<DependencyFailed"

def expected_btState : String :=
  "returnBuildTargetState(atomic.LoadInt32(&recv.state))"

def expected_btSetState : String :=
  "atomic.StoreInt32(&recv.state,int32(p0))"

def expected_btSyncUpdateState : String :=
  "returnatomic.CompareAndSwapInt32(&recv.state,int32(p0),int32(p1))"

def expected_btFinishBuild : String :=
  "close(recv.finishedBuilding)"

def expected_btWaitForBuild : String :=
  "waitOnChan(recv.finishedBuilding,\"Stillwaitingon(target%v).WaitForBuild(dependant%v)\",recv.Label,p0)"

def expected_sk_queueResolvedTarget : String :=
  "if(p0.State()>=Active&&!p1){returnnil};queueAsync:=func{atomic.AddInt64(&recv.progress.numPending,1);go recv.queueTargetAsync(p0,p1,l0,p2)};if(recv.NeedBuild||p1){if(p0.SyncUpdateState(Inactive,Active)||p0.SyncUpdateState(Semiactive,Active)){queueAsync(true)}}else{if(p0.SyncUpdateState(Inactive,Semiactive)){queueAsync(false)}};returnnil"

def expected_sk_queueTargetAsync : String :=
  "defer recv.taskDone(true);range(p0.DeclaredDependencies()){if(l1:=recv.queueTarget(l0,p0.Label,p1,p3);l1!=nil){recv.asyncError(l0,l1);return}};for(;;){if(l3:=p0.resolveDependencies(recv.Graph,func{returnrecv.queueResolvedTarget(l4,p1,ParseModeNormal)});l3!=nil){recv.asyncError(p0.Label,l3);return};if(p2){range(p0.Dependencies()){l5.WaitForBuild(p0.Label);if(l5.State()>=DependencyFailed){p0.SetState(DependencyFailed);recv.LogBuildResult(p0,TargetBuilt,\"Dependencyfailed\");p0.FinishBuild();return}}};if(!l2.Load()){if(p2&&p0.SyncUpdateState(Active,Pending)){recv.addPendingBuild(p0)};return}}"

def expected_sk_addPendingBuild : String :=
  "atomic.AddInt64(&recv.progress.numPending,1);go func{recv.pendingActions<-Task{Target:p0,Type:BuildTask}}()"

def expected_sk_taskDone : String :=
  "if(!p0){atomic.AddInt64(&recv.progress.numDone,1)};if(atomic.AddInt64(&recv.progress.numPending,-1)<=0){recv.Stop()}"

def expected_sk_Stop : String :=
  "recv.progress.closeOnce.Do(func{close(recv.pendingParses);close(recv.pendingActions)})"

def expected_sk_asyncError : String :=
  "recv.LogBuildError(p0,TargetBuildFailed,p1,\"\");recv.Stop()"

def expected_sk_checkForCycles : String :=
  "if(l0:=recv.progress.cycleDetector.Check();l0!=nil){recv.LogBuildError(l0.Cycle[0].Label,TargetBuildFailed,l0,\"\");recv.Stop()}"

def expected_sk_Build : String :=
  "p1.SetState(core.Building);if(l1:=buildTarget(p0,p1,p2);l1!=nil){if(errors.Is(l1,errStop)){p1.SetState(core.Stopped);p0.LogBuildResult(p1,core.TargetBuildStopped,\"Buildstopped\");return};p0.LogBuildError(p1.Label,core.TargetBuildFailed,l1,\"Buildfailed:%s\",l1);p1.SetState(core.Failed);p1.FinishBuild();p0.TargetFailed(p1);return};p1.FinishBuild()"

def expected_sk_Run : String :=
  "completeAction:=func{if(l6.Type!=core.BuildTask){p2.TaskDone();return};if(!l6.Target.State().IsBuilt()){p2.TaskDone();return};p2.TaskDone()};go func{range(l0){go func{p2.Parses().Add(1);parse.Parse(p2,l10.Label,l10.Dependent,l10.Mode);p2.Parses().Add(-1);p2.TaskDone()}(l9)}}();go func{range(l1){go func{defer completeAction(l13,l12);switch(l12.Type){case(core.BuildTask){build.Build(p2,l12.Target,l13)}}}(l11)}}()"

def expected_sk_addPendingParse : String :=
  "atomic.AddInt64(&recv.progress.numActive,1);atomic.AddInt64(&recv.progress.numPending,1);go func{recv.pendingParses<-ParseTask{Label:p0,Dependent:p1,Mode:p2}}()"

def expected_sk_LogParseResult : String :=
  "if(p1==PackageParsed){if(l1:=recv.progress.pendingPackages.Get(l0);l1!=nil){close(l1)};if(l2:=recv.progress.packageWaits.Get(l0);l2!=nil){close(l2)};return}"

def expected_sk_SyncParsePackage : String :=
  "if(l1,l2:=recv.progress.pendingPackages.AddOrGet(p0.packageKey(),func{});!l2){waitOnChan(l1,\"StillwaitingforSyncParsePackage(%v)\",p0)};returnrecv.Graph.PackageByLabel(p0)"

def expected_sk_WaitForPackage : String :=
  "if(l2:=recv.progress.pendingPackages.Get(l1);l2!=nil){waitOnChan(l2,\"StillwaitingforpendingpackageinWaitForPackage(%v,%v,%v)\",p0,p1,p2);returnrecv.Graph.PackageByLabel(p0)};if(l3:=recv.progress.packageWaits.Get(l1);l3!=nil){waitOnChan(l3,\"StillwaitingforpackagewaitinWaitForPackage(%v,%v,%v)\",p0,p1,p2);returnrecv.Graph.PackageByLabel(p0)};recv.progress.packageWaits.Set(l1,make(chanstruct{}));returnrecv.WaitForPackage(p0,p1,p2)"

def expected_sk_handleOutput : String :=
  "if(p0.Status.IsFailure()){recv.FailedTargets[l0]=p0.Err;if(p0.Status!=core.TargetTestFailed){if(!recv.state.KeepGoing||p0.Status==core.ParseFailed){recv.state.Stop()}}}else{if(p0.Status==core.TargetBuildStopped){recv.FailedTargets[l0]=nil}}"

def expected_sk_buildTarget : String :=
  "if(p2){}else{if(!p1.IsFilegroup&&!needsBuilding(p0,p1,false)){if(!p1.BuildCouldModifyTarget()||!needsBuilding(p0,p1,true)){p1.SetState(core.Reused);p0.LogBuildResult(p1,core.TargetCached,\"Unchanged\");returnnil}};if(p1.IsFilegroup){if(l12){p1.SetState(core.Built);p0.LogBuildResult(p1,core.TargetBuilt,\"Built\")}else{p1.SetState(core.Unchanged);p0.LogBuildResult(p1,core.TargetCached,\"Unchanged\")};returnnil}};if(p2){if(l7.Cached){p1.SetState(core.ReusedRemotely);p0.LogBuildResult(p1,core.TargetBuilt,\"Reusedexistingaction\")}else{p1.SetState(core.BuiltRemotely);p0.LogBuildResult(p1,core.TargetBuilt,\"Builtremotely\")};if(p0.ShouldDownload(p1)){if(l23:=p0.EnsureDownloaded(p1);l23!=nil){returnl23}};returnnil};if(l26){p1.SetState(core.Built)}else{p1.SetState(core.Unchanged)};if(l26){p0.LogBuildResult(p1,core.TargetBuilt,\"Built\")}else{p0.LogBuildResult(p1,core.TargetBuilt,\"Built(unchanged)\")};returnnil"

def expected_sk_LogBuildResult : String :=
  "if(p1==TargetBuilt||p1==TargetCached){if(l0:=recv.progress.pendingTargets.Get(p0.Label);l0!=nil){close(l0)}}"

def expected_sk_WaitForBuiltTarget : String :=
  "if(l0:=recv.Graph.Target(p0);l0!=nil&&(l0.State().IsBuilt()||l0.State()>=DependencyFailed)){returnl0};if(l1,l2:=recv.progress.pendingTargets.AddOrGet(p0,func{});!l2){waitOnChan(l1,\"StillwaitingonWaitForBuiltTarget(label%v,dependant%v,ParseMode(%v))\",p0,p1,p2);returnrecv.Graph.Target(p0)};if(l3:=recv.queueTarget(p0,p1,p2.IsForSubinclude(),p2);l3!=nil){};returnrecv.WaitForBuiltTarget(p0,p1,p2)"

def expected_sk_TargetFailed : String :=
  "if(l0:=recv.progress.pendingTargets.Get(p0.Label);l0!=nil){select{comm(default){close(l0)}}}"

def expected_sk_forwardResults : String :=
  "l2:=time.NewTimer(cycleCheckDuration);for(;;){if(len(l1)==0){l2.Reset(cycleCheckDuration);select{comm(l3=<-recv.progress.internalResults){}comm(<-l2.C){go recv.checkForCycles();l3=<-recv.progress.internalResults}}}else{l3=<-recv.progress.internalResults};if(l3.Status.IsActive()){if(l3.target!=nil){l1[l3.Label]=struct{}{}}}else{delete(l1,l3.Label)}}"

/-- `forwardResults`' set of active targets: keyed by label, a result with an active status and a target pointer adds
    its label, every other result (failures included, which carry no target pointer) deletes its label; the cycle
    check is started from the timer branch taken only while the set is empty -/
def expectedActiveSet : List String := ["key:BuildLabel", "check:comm,empty", "add:IsActive,target!=nil:.Label", "del:!IsActive:.Label"]

/-- who closes `pendingTargets[label]`: `LogBuildResult` on TargetBuilt / TargetCached (the DependencyFailed path logs
    TargetBuilt), `TargetFailed` (unless already closed), `ArchSubrepoInitialised`; `build.Build` calls `FinishBuild` and
    `TargetFailed` after `SetState(Failed)`; `WaitForBuiltTarget` returns at once for a built or a failed target -/
def expectedWakeFacts : List String := ["close:LogBuildResult:p1==TargetBuilt||p1==TargetCached", "close:TargetFailed:unless-closed", "close:ArchSubrepoInitialised:", "failed-then:FinishBuild,TargetFailed", "return-at-once:t!=nil&&(t.State().IsBuilt()||t.State()>=DependencyFailed)"]

/-- a failure result clears its target from the active set (so the idle-time cycle check is armed again) -/
def failClearsOf (l : List String) : Bool :=
  l.contains "key:BuildLabel" && l.contains "del:!IsActive:.Label" && l.contains "check:comm,empty"

/-- the waiters of a target are signalled when its build fails -/
def failWakesOf (l : List String) : Bool :=
  l.contains "failed-then:FinishBuild,TargetFailed" &&
    (l.contains "close:TargetFailed:unless-closed" || l.contains "close:TargetFailed:")

/-- `WaitForBuiltTarget` does not wait for a target that has already failed -/
def lateOKOf (l : List String) : Bool :=
  l.contains "return-at-once:t!=nil&&(t.State().IsBuilt()||t.State()>=DependencyFailed)"

/-- `numPending` starts at 1 (the initial target scan), the task queues are buffered channels -/
def expectedInitFacts : List String := ["pendingParses:make(chanParseTask,10000)", "pendingActions:make(chanTask,1000)", "numPending:1"]

/-- the dependency wait loop: `WaitForBuild`, then the DependencyFailed test; nothing before the wait -/
def expectedWaitLoop : List String := ["wait", "if dep.State()>=DependencyFailed fail"]

/-- the rank from which a dependency is passed over without waiting, as the extractor read it (`none`: no such test) -/
def skipOf (o : Option String) : Option Nat :=
  o.bind fun n => (TS.all.find? (fun x => x.name == n)).map TS.rank

def expectedCasPairs : List (String × String × String) :=
  [("queueResolvedTarget", "Inactive", "Active"), ("queueResolvedTarget", "Semiactive", "Active"),
   ("queueResolvedTarget", "Inactive", "Semiactive"), ("queueTargetAsync", "Active", "Pending")]

/-- the enum in the order of the model's `rank` -/
def modelEnumOrder : List String := TS.all.map TS.name

def rankSorted : Bool := TS.all.map TS.rank == List.range 14

def cfg0 (nb : Bool) : Cfg := { n := 1, deps := fun _ => [], needBuild := nb }

def stateWith (x : TS) : St := { St.init with st := fun _ => x }

/-- every state change `queueResolvedTarget` can make, over all states / NeedBuild / forceBuild -/
def modelQrtPairs : List (String × String × String) :=
  let all := TS.all.flatMap fun x => [true, false].flatMap fun nb => [true, false].filterMap fun f =>
    let s' := qrt (cfg0 nb) (stateWith x) 0 f
    if s'.st 0 == x then none else some ("queueResolvedTarget", x.name, (s'.st 0).name)
  all.eraseDups

/-- every state change the last step of the building queuer can make -/
def modelQueuerPairs : List (String × String × String) :=
  (TS.all.filterMap fun x =>
    match queuerStep (cfg0 true) (stateWith x) 0 ⟨0, true, false, .waitDeps []⟩ with
    | some s' => if s'.st 0 == x then none else some ("queueTargetAsync", x.name, (s'.st 0).name)
    | none => none).eraseDups

/-- the early return of queueResolvedTarget: `State() >= Active && !forceBuild` -/
def modelQrtEarlyReturn : List (String × Bool × Bool) :=
  TS.all.flatMap fun x => [true, false].map fun f =>
    (x.name, f, (qrt (cfg0 true) (stateWith x) 0 f).nextQ == 0)

def expectedQrtEarlyReturn : List (String × Bool × Bool) :=
  TS.all.flatMap fun x => [true, false].map fun f =>
    (x.name, f, (decide (TS.active.rank ≤ x.rank) && !f) || !(x == .inactive || x == .semiactive))

/-- `IsBuilt` as the Go expression reads: `Built <= s && s < DependencyFailed` -/
def modelIsBuilt : List (String × Bool) := TS.all.map fun x => (x.name, x.isBuilt)
def expectedIsBuilt : List (String × Bool) :=
  TS.all.map fun x => (x.name, decide (TS.built.rank ≤ x.rank ∧ x.rank < TS.depFailed.rank))

end PlzVerif.Sched.Facts
