import PlzVerif.Model.AspInterp
import PlzVerif.Model.PyInterp
/-!
The sorting step of `sorted` (C16): the insertion sort of the asp model (what `sort.Slice` does on up to 12 elements,
and what any stable sort computes) and the stable sort of the Python reference are the same function of the list,
for every strict weak order on the keys — in particular with the comparison flipped (`reverse=True`), where tied
elements keep their original order.  Sorting ascending and reversing afterwards is a different function.
-/
namespace PlzVerif.SortSpec
variable {α : Type}

/-- insert `x` after every element that is not greater (one step of Go's insertion sort; the asp model) -/
def insA (lt : α → α → Bool) (x : α) : List α → List α
  | [] => [x]
  | y :: ys => if lt x y then x :: y :: ys else y :: insA lt x ys

/-- front to back: the asp model's sort -/
def sortA (lt : α → α → Bool) (l : List α) : List α := l.foldl (fun s x => insA lt x s) []

/-- insert `x` before the first element that is not smaller (the reference) -/
def insB (lt : α → α → Bool) (x : α) : List α → List α
  | [] => [x]
  | y :: ys => if lt y x then y :: insB lt x ys else x :: y :: ys

/-- back to front: the reference's sort -/
def sortB (lt : α → α → Bool) : List α → List α
  | [] => []
  | x :: xs => insB lt x (sortB lt xs)

/-- A strict weak order: what `<` is on the keys `sorted` is documented for (ints, strings, keys computed from them). -/
structure StrictWeak (lt : α → α → Bool) : Prop where
  trans : ∀ a b c, lt a b = true → lt b c = true → lt a c = true
  ntrans : ∀ a b c, lt a b = false → lt b c = false → lt a c = false

theorem StrictWeak.flip {lt : α → α → Bool} (h : StrictWeak lt) : StrictWeak (fun a b => lt b a) :=
  ⟨fun a b c h1 h2 => h.trans c b a h2 h1, fun a b c h1 h2 => h.ntrans c b a h2 h1⟩

/-- the two insertions commute: `x` goes in front of its equals, `z` behind its equals -/
theorem ins_comm {lt : α → α → Bool} (h : StrictWeak lt) (x z : α) :
    ∀ s : List α, insA lt z (insB lt x s) = insB lt x (insA lt z s) := by
  intro s
  induction s with
  | nil =>
    cases hzx : lt z x <;> simp [insA, insB, hzx]
  | cons y s ih =>
    cases hyx : lt y x <;> cases hzy : lt z y
    · -- x ≤ y ≤ z
      have hzx : lt z x = false := h.ntrans z y x hzy hyx
      simp [insA, insB, hyx, hzy, hzx]
    · -- x ≤ y, z < y
      cases hzx : lt z x <;> simp [insA, insB, hyx, hzy, hzx]
    · -- y < x, y ≤ z
      simp [insA, insB, hyx, hzy, ih]
    · -- z < y < x
      have hzx : lt z x = true := h.trans z y x hzy hyx
      simp [insA, insB, hyx, hzy, hzx]

theorem foldl_insA_insB {lt : α → α → Bool} (h : StrictWeak lt) (x : α) :
    ∀ (l s : List α), l.foldl (fun s z => insA lt z s) (insB lt x s) = insB lt x (l.foldl (fun s z => insA lt z s) s) := by
  intro l
  induction l with
  | nil => intro s; rfl
  | cons z l ih => intro s; simp only [List.foldl_cons]; rw [ins_comm h x z s, ih]

/-- **The asp model's sort is the reference's sort**, for every list and every strict weak order. -/
theorem sortA_eq_sortB {lt : α → α → Bool} (h : StrictWeak lt) : ∀ l : List α, sortA lt l = sortB lt l := by
  intro l
  induction l with
  | nil => rfl
  | cons x l ih =>
    have e : insA lt x [] = insB lt x [] := rfl
    simp only [sortA, List.foldl_cons, sortB] at ih ⊢
    rw [e, foldl_insA_insB h x l [], ih]

/-! ### The monadic sorts of the two models with a pure comparison -/

open PlzVerif in
theorem asp_insertBy_pure (lt : α → α → Bool) (x : α) :
    ∀ l : List α, Asp.insertBy (fun a b => (pure (lt a b) : Asp.EM Bool)) x l = pure (insA lt x l) := by
  intro l
  induction l with
  | nil => rfl
  | cons y ys ih =>
    simp only [Asp.insertBy, insA, pure_bind]
    cases lt x y <;> simp [ih]

open PlzVerif in
theorem asp_sortBy_pure (lt : α → α → Bool) :
    ∀ l : List α, Asp.sortBy (fun a b => (pure (lt a b) : Asp.EM Bool)) l = pure (l.foldr (insA lt) []) := by
  intro l
  induction l with
  | nil => rfl
  | cons x xs ih => simp only [Asp.sortBy, ih, pure_bind, List.foldr_cons, asp_insertBy_pure]

open PlzVerif in
/-- the asp model's `stableSort` computes `sortA` -/
theorem asp_stableSort_pure (lt : α → α → Bool) (l : List α) :
    Asp.stableSort (fun a b => (pure (lt a b) : Asp.EM Bool)) l = pure (sortA lt l) := by
  simp only [Asp.stableSort, asp_sortBy_pure, sortA, List.foldr_reverse]

open PlzVerif in
theorem py_ins_pure (lt : Py.Val → Py.Val → Bool) (x : Py.Val) :
    ∀ l : List Py.Val, Py.stableSort.ins (fun a b => (pure (lt a b) : Py.PM Bool)) x l = pure (insB lt x l) := by
  intro l
  induction l with
  | nil => rfl
  | cons y ys ih =>
    simp only [Py.stableSort.ins, insB, pure_bind]
    cases lt y x <;> simp [ih]

open PlzVerif in
/-- the reference's `stableSort` computes `sortB` -/
theorem py_stableSort_pure (lt : Py.Val → Py.Val → Bool) :
    ∀ l : List Py.Val, Py.stableSort (fun a b => (pure (lt a b) : Py.PM Bool)) l = pure (sortB lt l) := by
  intro l
  induction l with
  | nil => rfl
  | cons x xs ih => simp only [Py.stableSort, ih, pure_bind, sortB, py_ins_pure]

end PlzVerif.SortSpec
