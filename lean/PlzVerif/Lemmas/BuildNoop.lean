import PlzVerif.Lemmas.Build
/-! C03: a second build with nothing changed executes nothing (no injectivity needed). -/
namespace PlzVerif.Build
set_option linter.unusedSectionVars false
set_option linter.unusedSimpArgs false

variable {K A F N C S H : Type} [DecidableEq K] [DecidableEq S] [DecidableEq N] [DecidableEq H]
variable (fx : Facts) (mv : C → C → C) (exec : A → List (N × C) → C) (ruleSer : A → S) (pathSer : C → H)

/-- The target's stamp in plz-out describes exactly its current definition and current inputs. -/
def Fresh (r : Repo K A F N C) (out : Out K C S N H) (t : Target K A F) : Prop :=
  ∃ ins c, inputs r out t = some ins ∧ out t.key = some (c, stampOf ruleSer pathSer t.attrs ins)

theorem stampEq_refl (a : Stamp S N H) : stampEq fx a a = true := by
  simp [stampEq]

theorem buildOne_noop (r : Repo K A F N C) (out : Out K C S N H) (t : Target K A F)
    (h : Fresh ruleSer pathSer r out t) : buildOne fx mv exec ruleSer pathSer r out t = (out, false) := by
  obtain ⟨ins, c, hi, ho⟩ := h
  unfold buildOne
  simp [hi, ho, stampEq_refl]

theorem depIns_congr (r : Repo K A F N C) (out out' : Out K C S N H) (deps : List K)
    (h : ∀ d ∈ deps, out' d = out d) : depIns r out' deps = depIns r out deps := by
  induction deps with
  | nil => rfl
  | cons d ds ih =>
    have hd := h d (List.mem_cons_self ..)
    have ih' := ih (fun d' hd' => h d' (List.mem_cons_of_mem _ hd'))
    simp only [depIns] at ih' ⊢
    simp [List.mapM_cons, hd, ih']

theorem inputs_congr (r : Repo K A F N C) (out out' : Out K C S N H) (t : Target K A F)
    (h : ∀ d ∈ t.deps, out' d = out d) : inputs r out' t = inputs r out t := by
  simp [inputs, depIns_congr r out out' t.deps h]

theorem fresh_congr (r : Repo K A F N C) (out out' : Out K C S N H) (t : Target K A F)
    (hk : out' t.key = out t.key) (hd : ∀ d ∈ t.deps, out' d = out d)
    (h : Fresh ruleSer pathSer r out t) : Fresh ruleSer pathSer r out' t := by
  obtain ⟨ins, c, hi, ho⟩ := h
  exact ⟨ins, c, by rw [inputs_congr r out out' t hd]; exact hi, by rw [hk]; exact ho⟩

theorem buildOne_key (hf : fx.cmpRule = true ∧ fx.cmpSource = true) (r : Repo K A F N C) (out : Out K C S N H) (t : Target K A F)
    (ins : List (N × C)) (hin : inputs r out t = some ins) :
    ∃ c, (buildOne fx mv exec ruleSer pathSer r out t).1 t.key = some (c, stampOf ruleSer pathSer t.attrs ins) := by
  unfold buildOne
  rw [hin]
  simp only
  cases ho : out t.key with
  | none => exact ⟨exec t.attrs ins, by simp⟩
  | some p =>
    obtain ⟨c0, st0⟩ := p
    simp only
    split
    · rename_i hst
      rw [stampEq_iff fx hf] at hst
      exact ⟨c0, by show out t.key = _; rw [ho, hst]⟩
    · exact ⟨mv c0 (exec t.attrs ins), by simp⟩

/-- After `buildOne`, the target is fresh (when its dependencies were present and it is not its own dependency). -/
theorem buildOne_fresh (hf : fx.cmpRule = true ∧ fx.cmpSource = true) (r : Repo K A F N C) (out : Out K C S N H) (t : Target K A F)
    (hself : t.key ∉ t.deps) (ins : List (N × C)) (hin : inputs r out t = some ins) :
    Fresh ruleSer pathSer r (buildOne fx mv exec ruleSer pathSer r out t).1 t := by
  have hi' : inputs r (buildOne fx mv exec ruleSer pathSer r out t).1 t = some ins := by
    rw [inputs_congr r out _ t]; exact hin
    intro d hd
    exact buildOne_other fx mv exec ruleSer pathSer r out t d (fun e => hself (e ▸ hd))
  obtain ⟨c, hc⟩ := buildOne_key fx mv exec ruleSer pathSer hf r out t ins hin
  exact ⟨ins, c, hi', hc⟩

theorem wf_selKeys_not_seen (sel : K → Bool) : ∀ (ts : List (Target K A F)) (seen : List K),
    WFList sel seen ts → ∀ k ∈ selKeys sel ts, k ∉ seen := by
  intro ts
  induction ts with
  | nil => intro seen _ k hk; simp [selKeys] at hk
  | cons t ts ih =>
    intro seen hwf k hk
    by_cases hs : sel t.key = true
    · simp only [WFList, hs, if_true] at hwf
      obtain ⟨_, hnew, hwf'⟩ := hwf
      simp only [selKeys, List.filter_cons, hs, if_true, List.map_cons, List.mem_cons] at hk
      rcases hk with rfl | hk
      · exact hnew
      · have := ih (seen ++ [t.key]) hwf' k (by simpa [selKeys] using hk)
        exact fun hm => this (List.mem_append_left _ hm)
    · simp only [Bool.not_eq_true] at hs
      simp only [WFList, hs] at hwf
      have hk' : k ∈ selKeys sel ts := by simpa [selKeys, List.filter_cons, hs] using hk
      exact ih seen (by simpa using hwf) k hk'

theorem buildList_frame (r : Repo K A F N C) (sel : K → Bool) :
    ∀ (ts : List (Target K A F)) (out : Out K C S N H) (k : K), k ∉ selKeys sel ts →
      (buildList fx mv exec ruleSer pathSer r sel ts out).1 k = out k := by
  intro ts
  induction ts with
  | nil => intro out k _; rfl
  | cons t ts ih =>
    intro out k hk
    by_cases hs : sel t.key = true
    · simp only [selKeys, List.filter_cons, hs, if_true, List.map_cons, List.mem_cons, not_or] at hk
      simp only [buildList, hs, if_true]
      rw [ih _ k (by simpa [selKeys] using hk.2)]
      exact buildOne_other fx mv exec ruleSer pathSer r out t k hk.1
    · simp only [Bool.not_eq_true] at hs
      simp only [buildList, hs]
      exact ih out k (by simpa [selKeys, List.filter_cons, hs] using hk)

/-- After building a well-formed list from a state where everything already processed is present,
    every selected target is present and fresh. -/
theorem buildList_fresh (hf : fx.cmpRule = true ∧ fx.cmpSource = true) (r : Repo K A F N C) (sel : K → Bool) :
    ∀ (ts : List (Target K A F)) (seen : List K) (out : Out K C S N H),
      WFList sel seen ts → (∀ k ∈ seen, (out k).isSome) →
      (∀ k ∈ seen ++ selKeys sel ts, ((buildList fx mv exec ruleSer pathSer r sel ts out).1 k).isSome) ∧
      (∀ t ∈ ts, sel t.key = true → Fresh ruleSer pathSer r (buildList fx mv exec ruleSer pathSer r sel ts out).1 t) := by
  intro ts
  induction ts with
  | nil => intro seen out _ hp; simpa [buildList, selKeys] using hp
  | cons t ts ih =>
    intro seen out hwf hp
    by_cases hs : sel t.key = true
    · simp only [WFList, hs, if_true] at hwf
      obtain ⟨hd, hnew, hwf'⟩ := hwf
      have hself : t.key ∉ t.deps := fun hm => hnew (hd _ hm)
      -- inputs are present
      have hdep : ∀ (deps : List K), (∀ d ∈ deps, d ∈ seen) → ∃ l, depIns r out deps = some l := by
        intro deps
        induction deps with
        | nil => intro _; exact ⟨[], by simp [depIns]⟩
        | cons d ds ihd =>
          intro h
          obtain ⟨l, hl⟩ := ihd (fun d' hd' => h d' (List.mem_cons_of_mem _ hd'))
          have := hp d (h d (List.mem_cons_self ..))
          cases hod : out d with
          | none => simp [hod] at this
          | some p =>
            simp only [depIns] at hl ⊢
            exact ⟨(r.outName d, p.1) :: l, by simp [List.mapM_cons, hod, hl]⟩
      obtain ⟨l, hl⟩ := hdep t.deps hd
      have hin : inputs r out t = some (t.srcs.map (fun f => (r.fname f, r.files f)) ++ l) := by simp [inputs, hl]
      have hfresh := buildOne_fresh fx mv exec ruleSer pathSer hf r out t hself _ hin
      have hp' : ∀ k ∈ seen ++ [t.key], ((buildOne fx mv exec ruleSer pathSer r out t).1 k).isSome := by
        intro k hk
        rcases List.mem_append.mp hk with hks | hkt
        · rw [buildOne_other fx mv exec ruleSer pathSer r out t k (fun e => hnew (e ▸ hks))]; exact hp k hks
        · have : k = t.key := by simpa using hkt
          subst this
          obtain ⟨_, c, _, ho⟩ := hfresh
          simp [ho]
      obtain ⟨h1, h2⟩ := ih (seen ++ [t.key]) _ hwf' hp'
      have hdisj := wf_selKeys_not_seen sel ts (seen ++ [t.key]) hwf'
      simp only [buildList, hs, if_true]
      refine ⟨?_, ?_⟩
      · intro k hk
        apply h1 k
        simp only [selKeys, List.filter_cons, hs, if_true, List.map_cons] at hk
        simpa [selKeys, List.append_assoc] using hk
      · intro t' ht' hs'
        rcases List.mem_cons.mp ht' with rfl | ht'
        · apply fresh_congr ruleSer pathSer r _ _ t' _ _ hfresh
          · exact buildList_frame fx mv exec ruleSer pathSer r sel ts _ _ (fun hm => hdisj _ hm (by simp))
          · intro d hdm
            exact buildList_frame fx mv exec ruleSer pathSer r sel ts _ _
              (fun hm => hdisj _ hm (List.mem_append_left _ (hd d hdm)))
        · exact h2 t' ht' hs'
    · simp only [Bool.not_eq_true] at hs
      simp only [WFList, hs] at hwf
      obtain ⟨h1, h2⟩ := ih seen out (by simpa using hwf) hp
      simp only [buildList, hs]
      refine ⟨?_, ?_⟩
      · intro k hk; apply h1 k; simpa [selKeys, List.filter_cons, hs] using hk
      · intro t' ht' hs'
        rcases List.mem_cons.mp ht' with rfl | ht'
        · simp [hs] at hs'
        · exact h2 t' ht' hs'

/-- If every selected target is fresh, a build runs nothing and leaves plz-out untouched. -/
theorem buildList_all_fresh (r : Repo K A F N C) (sel : K → Bool) :
    ∀ (ts : List (Target K A F)) (out : Out K C S N H),
      (∀ t ∈ ts, sel t.key = true → Fresh ruleSer pathSer r out t) →
      buildList fx mv exec ruleSer pathSer r sel ts out = (out, []) := by
  intro ts
  induction ts with
  | nil => intro out _; rfl
  | cons t ts ih =>
    intro out h
    have ih' := ih out (fun t' ht' => h t' (List.mem_cons_of_mem _ ht'))
    by_cases hs : sel t.key = true
    · have hn := buildOne_noop fx mv exec ruleSer pathSer r out t (h t (List.mem_cons_self ..) hs)
      simp [buildList, hs, hn, ih']
    · simp only [Bool.not_eq_true] at hs
      simp [buildList, hs, ih']

end PlzVerif.Build
