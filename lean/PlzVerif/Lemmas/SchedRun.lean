import PlzVerif.Lemmas.Sched
/-! Running a list of actions (used for in-kernel witnesses that the reachable set is not trivial). -/
namespace PlzVerif.Sched

def runActs (c : Cfg) : St → List Action → Option St
  | s, [] => some s
  | s, a :: r => (fire c s a).bind fun s' => runActs c s' r

theorem runActs_reach (c : Cfg) {s s' : St} (as : List Action) (hr : Reach c s) (h : runActs c s as = some s') :
    Reach c s' := by
  induction as generalizing s with
  | nil => simp [runActs] at h; exact h ▸ hr
  | cons a r ih =>
    simp only [runActs] at h
    cases hf : fire c s a with
    | none => simp [hf] at h
    | some s1 => rw [hf] at h; exact ih (Reach.step hr ⟨a, hf⟩) h

/-- the state a schedule leads to (the initial state if the schedule is not executable) -/
def after (c : Cfg) (as : List Action) : St := (runActs c St.init as).getD St.init

theorem after_reach (c : Cfg) (as : List Action) (h : (runActs c St.init as).isSome = true) : Reach c (after c as) := by
  cases hr : runActs c St.init as with
  | none => rw [hr] at h; cases h
  | some s =>
    have : after c as = s := by unfold after; rw [hr]; rfl
    rw [this]; exact runActs_reach c _ Reach.init hr

end PlzVerif.Sched
