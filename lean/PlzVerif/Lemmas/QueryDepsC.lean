import PlzVerif.Lemmas.Query
import PlzVerif.Lemmas.Cycle
/-!
Lemmas for C23 (part 4): `deps` without a level limit prints every printable target below the query
(the part of completeness that does hold), and the recursion bound `nodes.length + 1` is never reached.
Core Lean only.
-/
namespace PlzVerif.Query

/-! ### running out of fuel is sticky -/

theorem depsL_oof_mono (cfg : Cfg) (G : Graph) (lim : Limit) (hidden : Bool) (fuel : Nat)
    (ih : ∀ s t lv, s.oof = true → (deps cfg G lim hidden fuel s t lv).oof = true) (t lv : Nat) :
    ∀ (ls : List Nat) (s : DSt), s.oof = true → (depsL cfg G lim hidden fuel t lv ls s).oof = true := by
  intro ls
  induction ls with
  | nil => intro s h; rw [depsL_nil]; exact h
  | cons l ls ihl =>
    intro s h
    rw [depsL_cons]
    split
    · exact ihl s h
    · exact ihl _ (ih _ _ _ (by simpa [markDone] using h))

theorem deps_oof_mono (cfg : Cfg) (G : Graph) (lim : Limit) (hidden : Bool) :
    ∀ (fuel : Nat) (s : DSt) (t lv : Nat), s.oof = true → (deps cfg G lim hidden fuel s t lv).oof = true := by
  intro fuel
  induction fuel with
  | zero => intro s t lv _; rw [deps_zero]
  | succ fuel ih =>
    intro s t lv h
    rw [deps_succ]
    split
    · exact h
    · exact depsL_oof_mono cfg G lim hidden fuel ih t lv _ s h

/-! ### closure: without a limit, every newly done target has all its dependencies done and is printed when printable -/

def printedSet (s : DSt) : List Nat := s.out.map Prod.fst

/-- progress from `s` to `s'` -/
def DNew (G : Graph) (hidden : Bool) (s s' : DSt) : Prop :=
  (∀ x ∈ s.done, x ∈ s'.done) ∧ (∀ x ∈ printedSet s, x ∈ printedSet s') ∧
  ∀ x ∈ s'.done, x ∉ s.done →
    (∀ y ∈ G.adj x, y ∈ s'.done) ∧ ((hidden = true ∨ hasParent G x = false) → x ∈ printedSet s')

theorem DNew.refl (G : Graph) (hidden : Bool) (s : DSt) : DNew G hidden s s :=
  ⟨fun _ h => h, fun _ h => h, fun x hx hn => absurd hx hn⟩

theorem DNew.trans {G : Graph} {hidden : Bool} {a b c : DSt} (h1 : DNew G hidden a b) (h2 : DNew G hidden b c) :
    DNew G hidden a c := by
  refine ⟨fun x hx => h2.1 x (h1.1 x hx), fun x hx => h2.2.1 x (h1.2.1 x hx), ?_⟩
  intro x hx hna
  by_cases hb : x ∈ b.done
  · obtain ⟨hadj, hpr⟩ := h1.2.2 x hb hna
    exact ⟨fun y hy => h2.1 y (hadj y hy), fun hp => h2.2.1 x (hpr hp)⟩
  · exact h2.2.2 x hx hb

theorem depsStep_printed (cfg : Cfg) (G : Graph) (hidden : Bool) (t lv l : Nat) :
    (depsStep cfg G hidden t lv l).1 = (hidden || !hasParent G l) := by
  unfold depsStep
  split
  · rename_i h; simp [h]
  · rename_i h
    split <;> simp [h]

theorem depsL_closure (cfg : Cfg) (G : Graph) (hidden : Bool) (fuel : Nat)
    (ih : ∀ s t lv, (deps cfg G none hidden fuel s t lv).oof = false →
      DNew G hidden s (deps cfg G none hidden fuel s t lv) ∧ ∀ y ∈ G.adj t, y ∈ (deps cfg G none hidden fuel s t lv).done)
    (t lv : Nat) :
    ∀ (ls : List Nat) (s : DSt), (depsL cfg G none hidden fuel t lv ls s).oof = false →
      DNew G hidden s (depsL cfg G none hidden fuel t lv ls s) ∧
      ∀ l ∈ ls, l ∈ (depsL cfg G none hidden fuel t lv ls s).done := by
  intro ls
  induction ls with
  | nil => intro s _; rw [depsL_nil]; exact ⟨DNew.refl .., by simp⟩
  | cons l ls ihl =>
    intro s h
    rw [depsL_cons] at h ⊢
    split
    · rename_i hin
      rw [if_pos hin] at h
      obtain ⟨hd, hls⟩ := ihl s h
      refine ⟨hd, ?_⟩
      intro l' hl'
      simp only [List.mem_cons] at hl'
      rcases hl' with rfl | hl'
      · exact hd.1 _ hin
      · exact hls l' hl'
    · rename_i hnin
      rw [if_neg hnin] at h
      -- the recursive call did not run out of fuel either
      have h1 : (deps cfg G none hidden fuel (markDone cfg G hidden t lv l s) l (depsStep cfg G hidden t lv l).2).oof = false := by
        cases hc : (deps cfg G none hidden fuel (markDone cfg G hidden t lv l s) l (depsStep cfg G hidden t lv l).2).oof
        · rfl
        · have := depsL_oof_mono cfg G none hidden fuel (deps_oof_mono cfg G none hidden fuel) t lv ls _ hc
          rw [this] at h; cases h
      obtain ⟨hv, hadj⟩ := ih _ _ _ h1
      obtain ⟨hd2, hls⟩ := ihl _ h
      -- from s to the state after the recursive call
      have hs1 : DNew G hidden s (deps cfg G none hidden fuel (markDone cfg G hidden t lv l s) l (depsStep cfg G hidden t lv l).2) := by
        refine ⟨fun x hx => hv.1 x (by simp [markDone, hx]), ?_, ?_⟩
        · intro x hx
          apply hv.2.1
          unfold printedSet markDone at *
          simp only
          split
          · simp only [List.map_append, List.mem_append]; exact Or.inl hx
          · exact hx
        · intro x hx hns
          by_cases hxl : x = l
          · subst hxl
            refine ⟨hadj, fun hp => ?_⟩
            apply hv.2.1
            unfold printedSet markDone
            simp only
            have : (depsStep cfg G hidden t lv x).1 = true := by
              rw [depsStep_printed]
              rcases hp with hp | hp <;> simp [hp]
            rw [if_pos this]
            simp
          · exact hv.2.2 x hx (by simp [markDone, hxl, hns])
      refine ⟨hs1.trans hd2, ?_⟩
      intro l' hl'
      simp only [List.mem_cons] at hl'
      rcases hl' with rfl | hl'
      · exact hd2.1 _ (hv.1 _ (by simp [markDone]))
      · exact hls l' hl'

theorem deps_closure (cfg : Cfg) (G : Graph) (hidden : Bool) : ∀ (fuel : Nat) (s : DSt) (t lv : Nat),
    (deps cfg G none hidden fuel s t lv).oof = false →
      DNew G hidden s (deps cfg G none hidden fuel s t lv) ∧ ∀ y ∈ G.adj t, y ∈ (deps cfg G none hidden fuel s t lv).done := by
  intro fuel
  induction fuel with
  | zero => intro s t lv h; rw [deps_zero] at h; simp at h
  | succ fuel ih =>
    intro s t lv h
    rw [deps_succ] at h ⊢
    have hne : ((none : Limit) == some lv) = false := rfl
    simp only [hne, Bool.false_eq_true, ite_false] at h ⊢
    exact depsL_closure cfg G hidden fuel ih t lv (G.adj t) s h

/-- every done target has all its dependencies done, and is printed when printable -/
def FullClosed (G : Graph) (hidden : Bool) (s : DSt) : Prop :=
  ∀ x ∈ s.done, (∀ y ∈ G.adj x, y ∈ s.done) ∧ ((hidden = true ∨ hasParent G x = false) → x ∈ printedSet s)

theorem FullClosed.step {G : Graph} {hidden : Bool} {s s' : DSt} (hc : FullClosed G hidden s) (hn : DNew G hidden s s') :
    FullClosed G hidden s' := by
  intro x hx
  by_cases hxs : x ∈ s.done
  · obtain ⟨hadj, hpr⟩ := hc x hxs
    exact ⟨fun y hy => hn.1 y (hadj y hy), fun hp => hn.2.1 x (hpr hp)⟩
  · exact hn.2.2 x hx hxs

theorem FullClosed.path {G : Graph} {hidden : Bool} {s : DSt} (hc : FullClosed G hidden s) {a z : Nat}
    (p : Path G a z) : a ∈ s.done → z ∈ s.done := by
  induction p with
  | single e => intro ha; exact (hc _ ha).1 _ e
  | cons e _ ih => intro ha; exact ih ((hc _ ha).1 _ e)

/-- Without a level limit, `Deps` prints every printable target that some queried target reaches. -/
theorem depsAll_complete_unlimited (cfg : Cfg) (G : Graph) (hidden : Bool) (roots : List Nat)
    (hf : (depsAll cfg G none hidden roots).oof = false) (r : Nat) (hr : r ∈ roots) (x : Nat) (p : Path G r x)
    (hp : hidden = true ∨ hasParent G x = false) : x ∈ printedSet (depsAll cfg G none hidden roots) := by
  unfold depsAll at hf ⊢
  -- generalise over the fold
  suffices h : ∀ (rs : List Nat) (s : DSt), FullClosed G hidden s →
      (rs.foldl (fun s r => deps cfg G none hidden (G.nodes.length + 1) s r 0) s).oof = false →
      FullClosed G hidden (rs.foldl (fun s r => deps cfg G none hidden (G.nodes.length + 1) s r 0) s) ∧
      (∀ x ∈ s.done, x ∈ (rs.foldl (fun s r => deps cfg G none hidden (G.nodes.length + 1) s r 0) s).done) ∧
      ∀ r ∈ rs, ∀ y ∈ G.adj r, y ∈ (rs.foldl (fun s r => deps cfg G none hidden (G.nodes.length + 1) s r 0) s).done by
    obtain ⟨hc, _, hroots⟩ := h roots { done := [], out := [] } (by intro x hx; simp at hx) hf
    -- the first edge of the path lands in `done`; the rest stays inside by closure
    cases p with
    | single e => exact (hc x (hroots r hr x e)).2 hp
    | cons e p' => exact (hc x (hc.path p' (hroots r hr _ e))).2 hp
  intro rs
  induction rs with
  | nil => intro s hc _; exact ⟨hc, fun _ h => h, by simp⟩
  | cons r' rs ih =>
    intro s hc hf
    simp only [List.foldl_cons] at hf ⊢
    have h1 : (deps cfg G none hidden (G.nodes.length + 1) s r' 0).oof = false := by
      cases hcase : (deps cfg G none hidden (G.nodes.length + 1) s r' 0).oof
      · rfl
      · have : ∀ (rs : List Nat) (s : DSt), s.oof = true →
            (rs.foldl (fun s r => deps cfg G none hidden (G.nodes.length + 1) s r 0) s).oof = true := by
          intro rs
          induction rs with
          | nil => intro s h; exact h
          | cons a rs ih2 => intro s h; simp only [List.foldl_cons]; exact ih2 _ (deps_oof_mono cfg G none hidden _ _ _ _ h)
        rw [this rs _ hcase] at hf; cases hf
    obtain ⟨hn, hadj⟩ := deps_closure cfg G hidden _ s r' 0 h1
    obtain ⟨hc', hmono, hrs⟩ := ih _ (hc.step hn) hf
    refine ⟨hc', fun x hx => hmono x (hn.1 x hx), ?_⟩
    intro r'' hr''
    simp only [List.mem_cons] at hr''
    rcases hr'' with rfl | hr''
    · exact fun y hy => hmono y (hadj y hy)
    · exact hrs r'' hr''

/-! ### fuel -/

def DOK (nodes : List Nat) (s : DSt) : Prop := s.done.Nodup ∧ ∀ x ∈ s.done, x ∈ nodes

theorem depsL_fuel (cfg : Cfg) (G : Graph) (hwf : GWF G) (lim : Limit) (hidden : Bool) (fuel : Nat)
    (ih : ∀ s t lv, DOK G.nodes s → t ∈ G.nodes → G.nodes.length + 1 ≤ fuel + s.done.length → s.oof = false →
      (deps cfg G lim hidden fuel s t lv).oof = false ∧ DOK G.nodes (deps cfg G lim hidden fuel s t lv) ∧
      s.done.length ≤ (deps cfg G lim hidden fuel s t lv).done.length)
    (t lv : Nat) :
    ∀ (ls : List Nat) (s : DSt), (∀ l ∈ ls, l ∈ G.nodes) → DOK G.nodes s →
      G.nodes.length + 1 ≤ fuel + 1 + s.done.length → s.oof = false →
      (depsL cfg G lim hidden fuel t lv ls s).oof = false ∧ DOK G.nodes (depsL cfg G lim hidden fuel t lv ls s) ∧
      s.done.length ≤ (depsL cfg G lim hidden fuel t lv ls s).done.length := by
  intro ls
  induction ls with
  | nil => intro s _ hd _ ho; rw [depsL_nil]; exact ⟨ho, hd, Nat.le_refl _⟩
  | cons l ls ihl =>
    intro s hls hd hf ho
    have hls' : ∀ l' ∈ ls, l' ∈ G.nodes := fun l' h => hls l' (List.mem_cons_of_mem _ h)
    rw [depsL_cons]
    split
    · exact ihl s hls' hd hf ho
    · rename_i hnin
      have hl : l ∈ G.nodes := hls l (List.mem_cons_self ..)
      have hd0 : DOK G.nodes (markDone cfg G hidden t lv l s) := by
        refine ⟨?_, ?_⟩
        · simp only [markDone]; exact List.nodup_cons.mpr ⟨hnin, hd.1⟩
        · intro x hx
          simp only [markDone, List.mem_cons] at hx
          rcases hx with rfl | hx
          · exact hl
          · exact hd.2 x hx
      have hlen : (markDone cfg G hidden t lv l s).done.length = s.done.length + 1 := by simp [markDone]
      obtain ⟨ho1, hd1, hl1⟩ := ih (markDone cfg G hidden t lv l s) l (depsStep cfg G hidden t lv l).2 hd0 hl
        (by rw [hlen]; omega) (by simpa [markDone] using ho)
      obtain ⟨ho2, hd2, hl2⟩ := ihl _ hls' hd1 (by rw [hlen] at hl1; omega) ho1
      exact ⟨ho2, hd2, by rw [hlen] at hl1; omega⟩

theorem deps_fuel (cfg : Cfg) (G : Graph) (hwf : GWF G) (lim : Limit) (hidden : Bool) :
    ∀ (fuel : Nat) (s : DSt) (t lv : Nat), DOK G.nodes s → t ∈ G.nodes →
      G.nodes.length + 1 ≤ fuel + s.done.length → s.oof = false →
      (deps cfg G lim hidden fuel s t lv).oof = false ∧ DOK G.nodes (deps cfg G lim hidden fuel s t lv) ∧
      s.done.length ≤ (deps cfg G lim hidden fuel s t lv).done.length := by
  intro fuel
  induction fuel with
  | zero =>
    intro s t lv hd _ hf _
    have := PlzVerif.Cycle.nodup_subset_length _ _ hd.1 hd.2
    omega
  | succ fuel ih =>
    intro s t lv hd ht hf ho
    rw [deps_succ]
    split
    · exact ⟨ho, hd, Nat.le_refl _⟩
    · exact depsL_fuel cfg G hwf lim hidden fuel ih t lv (G.adj t) s (hwf t ht) hd (by omega) ho

/-- on a well-formed graph the recursion bound of the `deps` model is never reached -/
theorem depsAll_fuel (cfg : Cfg) (G : Graph) (hwf : GWF G) (lim : Limit) (hidden : Bool) (roots : List Nat)
    (hr : ∀ r ∈ roots, r ∈ G.nodes) : (depsAll cfg G lim hidden roots).oof = false := by
  unfold depsAll
  suffices h : ∀ (rs : List Nat) (s : DSt), (∀ r ∈ rs, r ∈ G.nodes) → DOK G.nodes s → s.oof = false →
      (rs.foldl (fun s r => deps cfg G lim hidden (G.nodes.length + 1) s r 0) s).oof = false from
    h roots _ hr ⟨List.nodup_nil, by simp⟩ rfl
  intro rs
  induction rs with
  | nil => intro s _ _ ho; exact ho
  | cons r rs ih =>
    intro s hrs hd ho
    simp only [List.foldl_cons]
    obtain ⟨ho1, hd1, _⟩ := deps_fuel cfg G hwf lim hidden (G.nodes.length + 1) s r 0 hd (hrs r (List.mem_cons_self ..))
      (Nat.le_add_right _ _) ho
    exact ih _ (fun r' h => hrs r' (List.mem_cons_of_mem _ h)) hd1 ho1

end PlzVerif.Query
