import PlzVerif.Model.LockTest
/-!
C31, test step (`Model/LockTest.lean`): invariants over all interleavings, core only.

* `TInv`  — lock discipline (mutual exclusion of the test's critical section), the results file is valid whenever
            some process has used or produced it and nobody is in the middle of a rerun, executions are bounded by
            the number of processes that got past `clear`;
* `NInv`  — when no process rebuilt the target itself (`built p = false` for all p) the test runs AT MOST ONCE:
            the second entrant finds the results of the first under the same hash;
* progress and a strictly decreasing measure.
-/
namespace PlzVerif.LockTest
set_option linter.unusedSectionVars false
set_option linter.unusedSimpArgs false
set_option linter.unusedVariables false

variable {P Hh : Type} [DecidableEq P] [DecidableEq Hh]

@[simp] theorem upd_same {α β : Type} [DecidableEq α] (f : α → β) (a : α) (b : β) : upd f a b a = b := by simp [upd]
theorem upd_ne {α β : Type} [DecidableEq α] (f : α → β) {a x : α} (b : β) (h : x ≠ a) : upd f a b x = f x := by
  simp [upd, h]

theorem sum_map_le {α : Type} {f g : α → Nat} : ∀ {l : List α}, (∀ x ∈ l, g x ≤ f x) → (l.map g).sum ≤ (l.map f).sum
  | [], _ => Nat.le_refl _
  | a :: l, h => by
    have h1 := h a (List.mem_cons_self ..)
    have h2 := sum_map_le (l := l) (fun x hx => h x (List.mem_cons_of_mem _ hx))
    simp only [List.map_cons, List.sum_cons]; omega

theorem sum_map_lt {α : Type} {f g : α → Nat} : ∀ {l : List α}, (∀ x ∈ l, g x ≤ f x) → ∀ {a}, a ∈ l → g a < f a →
    (l.map g).sum < (l.map f).sum
  | [], _, _, ha, _ => by simp at ha
  | b :: l, h, a, ha, hlt => by
    have h1 := h b (List.mem_cons_self ..)
    have hle := sum_map_le (l := l) (fun x hx => h x (List.mem_cons_of_mem _ hx))
    simp only [List.map_cons, List.sum_cons]
    rcases List.mem_cons.mp ha with rfl | ha'
    · omega
    · have := sum_map_lt (l := l) (fun x hx => h x (List.mem_cons_of_mem _ hx)) ha' hlt
      omega

theorem sum_le_length {α : Type} (f : α → Nat) : ∀ (l : List α), (∀ x ∈ l, f x ≤ 1) → (l.map f).sum ≤ l.length
  | [], _ => Nat.le_refl _
  | a :: l, h => by
    have h1 := h a (List.mem_cons_self ..)
    have h2 := sum_le_length f l (fun x hx => h x (List.mem_cons_of_mem _ hx))
    simp only [List.map_cons, List.sum_cons, List.length_cons]; omega

/-- 1 for a process that has executed the test. -/
def TPC.hasRun : TPC → Nat
  | .ran => 1
  | _ => 0

def TPC.rank : TPC → Nat
  | .idle => 5 | .locked => 4 | .cleared => 3 | .cached => 1 | .ran => 1 | .done => 0

section
variable (ps : List P) (want built : P → Bool) (h : Hh)

/-- `ranBy p` is a ghost that survives `release`: it is folded into the counter invariant through `runs`. -/
structure TInv (s : TState P Hh) : Prop where
  lockCS : ∀ p, (s.pc p).inCS = true → s.lock = some p
  csLock : ∀ p, s.lock = some p → (s.pc p).inCS = true
  valid  : ∀ p, (s.pc p = .cached ∨ s.pc p = .ran ∨ s.pc p = .done) → s.res = some h ∨ ∃ q, s.pc q = .cleared
  active : ∀ p, s.pc p ≠ .idle → p ∈ ps ∧ want p = true
  /-- executions so far = processes currently in `ran` + those already released after running; bounded by the
      number of processes that are past `locked` -/
  cnt    : s.runs ≤ (ps.map fun p => if s.pc p = .ran ∨ s.pc p = .done then 1 else 0).sum

variable {ps want built h}

theorem tinv_init {s0 : TState P Hh} (h0 : TInit s0) : TInv ps want h s0 := by
  refine ⟨?_, ?_, ?_, ?_, ?_⟩
  · intro p hp; rw [h0.pc p] at hp; simp [TPC.inCS] at hp
  · intro p hp; rw [h0.lock] at hp; simp at hp
  · intro p hp; rw [h0.pc p] at hp; simp at hp
  · intro p hp; exact absurd (h0.pc p) hp
  · rw [h0.runs]; exact Nat.zero_le _

theorem TInv.mutex {s : TState P Hh} (hi : TInv ps want h s) {p q : P}
    (hp : (s.pc p).inCS = true) (hq : (s.pc q).inCS = true) : p = q := by
  have a := hi.lockCS p hp
  have b := hi.lockCS q hq
  rw [a] at b; exact Option.some.inj b

theorem step_tinv {s s' : TState P Hh} (hi : TInv ps want h s) (hs : TStep ps want built h true s s') :
    TInv ps want h s' := by
  -- indicator monotonicity helper
  have ind : ∀ (p : P) (c : TPC), (s.pc p = .ran ∨ s.pc p = .done → c = .ran ∨ c = .done) →
      (ps.map fun q => if s.pc q = .ran ∨ s.pc q = .done then 1 else 0).sum ≤
      (ps.map fun q => if upd s.pc p c q = .ran ∨ upd s.pc p c q = .done then 1 else 0).sum := by
    intro p c hc
    apply sum_map_le
    intro q _
    by_cases e : q = p
    · subst e; simp only [upd_same]
      by_cases h1 : s.pc q = .ran ∨ s.pc q = .done
      · simp [h1, hc h1]
      · simp only [h1, if_false]; exact Nat.zero_le _
    · rw [upd_ne _ _ e]; exact Nat.le_refl _
  cases hs with
  | acquire p hp hw hidle hfree =>
    have hl : s.lock = none := hfree rfl
    have nocs : ∀ q, (s.pc q).inCS = false := by
      intro q; cases hq : (s.pc q).inCS with
      | false => rfl
      | true => have := hi.lockCS q hq; rw [hl] at this; simp at this
    refine ⟨?_, ?_, ?_, ?_, ?_⟩
    · intro q hq
      by_cases e : q = p
      · subst e; rfl
      · have hq' : (upd s.pc p .locked q).inCS = true := hq
        rw [upd_ne _ _ e, nocs q] at hq'; simp at hq'
    · intro q hq
      have : q = p := (Option.some.inj hq).symm
      subst this; show (upd s.pc q .locked q).inCS = true; simp [TPC.inCS]
    · intro q hq
      have hq' : upd s.pc p .locked q = .cached ∨ upd s.pc p .locked q = .ran ∨ upd s.pc p .locked q = .done := hq
      by_cases e : q = p
      · subst e; simp at hq'
      · rw [upd_ne _ _ e] at hq'
        rcases hi.valid q hq' with v | ⟨q', hq''⟩
        · exact Or.inl v
        · have := nocs q'; rw [hq''] at this; simp [TPC.inCS] at this
    · intro q hq
      by_cases e : q = p
      · subst e; exact ⟨hp, hw⟩
      · have hq' : upd s.pc p .locked q ≠ .idle := hq
        rw [upd_ne _ _ e] at hq'; exact hi.active q hq'
    · exact Nat.le_trans hi.cnt (ind p .locked (fun hc => by rw [hidle] at hc; simp at hc))
  | useCached p hpc hb hres =>
    have hcs : (s.pc p).inCS = true := by rw [hpc]; rfl
    refine ⟨?_, ?_, ?_, ?_, ?_⟩
    · intro q hq
      by_cases e : q = p
      · subst e; exact hi.lockCS q hcs
      · have hq' : (upd s.pc p .cached q).inCS = true := hq
        rw [upd_ne _ _ e] at hq'; exact hi.lockCS q hq'
    · intro q hq
      have := hi.csLock q hq
      by_cases e : q = p
      · subst e; show (upd s.pc q .cached q).inCS = true; simp [TPC.inCS]
      · show (upd s.pc p .cached q).inCS = true; rw [upd_ne _ _ e]; exact this
    · intro _ _; exact Or.inl hres
    · intro q hq
      by_cases e : q = p
      · subst e; exact hi.active q (by rw [hpc]; simp)
      · have hq' : upd s.pc p .cached q ≠ .idle := hq
        rw [upd_ne _ _ e] at hq'; exact hi.active q hq'
    · exact Nat.le_trans hi.cnt (ind p .cached (fun hc => by rw [hpc] at hc; simp at hc))
  | clear p hpc hneed =>
    have hcs : (s.pc p).inCS = true := by rw [hpc]; rfl
    refine ⟨?_, ?_, ?_, ?_, ?_⟩
    · intro q hq
      by_cases e : q = p
      · subst e; exact hi.lockCS q hcs
      · have hq' : (upd s.pc p .cleared q).inCS = true := hq
        rw [upd_ne _ _ e] at hq'; exact hi.lockCS q hq'
    · intro q hq
      have := hi.csLock q hq
      by_cases e : q = p
      · subst e; show (upd s.pc q .cleared q).inCS = true; simp [TPC.inCS]
      · show (upd s.pc p .cleared q).inCS = true; rw [upd_ne _ _ e]; exact this
    · intro _ _; exact Or.inr ⟨p, by show upd s.pc p .cleared p = .cleared; simp⟩
    · intro q hq
      by_cases e : q = p
      · subst e; exact hi.active q (by rw [hpc]; simp)
      · have hq' : upd s.pc p .cleared q ≠ .idle := hq
        rw [upd_ne _ _ e] at hq'; exact hi.active q hq'
    · exact Nat.le_trans hi.cnt (ind p .cleared (fun hc => by rw [hpc] at hc; simp at hc))
  | run p hpc =>
    have hcs : (s.pc p).inCS = true := by rw [hpc]; rfl
    have hp : p ∈ ps := (hi.active p (by rw [hpc]; simp)).1
    refine ⟨?_, ?_, ?_, ?_, ?_⟩
    · intro q hq
      by_cases e : q = p
      · subst e; exact hi.lockCS q hcs
      · have hq' : (upd s.pc p .ran q).inCS = true := hq
        rw [upd_ne _ _ e] at hq'; exact hi.lockCS q hq'
    · intro q hq
      have := hi.csLock q hq
      by_cases e : q = p
      · subst e; show (upd s.pc q .ran q).inCS = true; simp [TPC.inCS]
      · show (upd s.pc p .ran q).inCS = true; rw [upd_ne _ _ e]; exact this
    · intro _ _; exact Or.inl rfl
    · intro q hq
      by_cases e : q = p
      · subst e; exact hi.active q (by rw [hpc]; simp)
      · have hq' : upd s.pc p .ran q ≠ .idle := hq
        rw [upd_ne _ _ e] at hq'; exact hi.active q hq'
    · -- the counter and the indicator sum both grow: p's indicator goes 0 → 1
      have hlt : (ps.map fun q => if s.pc q = .ran ∨ s.pc q = .done then 1 else 0).sum <
          (ps.map fun q => if upd s.pc p .ran q = .ran ∨ upd s.pc p .ran q = .done then 1 else 0).sum := by
        apply sum_map_lt (a := p) _ hp
        · simp [hpc]
        · intro q _
          by_cases e : q = p
          · subst e; simp [hpc]
          · rw [upd_ne _ _ e]; exact Nat.le_refl _
      have := hi.cnt
      show s.runs + 1 ≤ (ps.map fun q => if upd s.pc p .ran q = .ran ∨ upd s.pc p .ran q = .done then 1 else 0).sum
      omega
  | release p hpc =>
    have hcs : (s.pc p).inCS = true := by rcases hpc with h' | h' <;> rw [h'] <;> rfl
    have others : ∀ q, q ≠ p → (s.pc q).inCS = false := by
      intro q e; cases hq : (s.pc q).inCS with
      | false => rfl
      | true => exact absurd (hi.mutex hq hcs) e
    refine ⟨?_, ?_, ?_, ?_, ?_⟩
    · intro q hq
      by_cases e : q = p
      · subst e; have hq' : (upd s.pc q .done q).inCS = true := hq; simp [TPC.inCS] at hq'
      · have hq' : (upd s.pc p .done q).inCS = true := hq
        rw [upd_ne _ _ e, others q e] at hq'; simp at hq'
    · intro q hq; have hq' : (none : Option P) = some q := hq; simp at hq'
    · intro q _
      have hv := hi.valid p (by rcases hpc with h' | h' <;> simp [h'])
      rcases hv with v | ⟨q', hq'⟩
      · exact Or.inl v
      · have : q' ≠ p := fun e => by subst e; rcases hpc with h' | h' <;> rw [h'] at hq' <;> simp at hq'
        exact Or.inr ⟨q', by show upd s.pc p .done q' = .cleared; rw [upd_ne _ _ this]; exact hq'⟩
    · intro q hq
      by_cases e : q = p
      · subst e; exact hi.active q (by rcases hpc with h' | h' <;> rw [h'] <;> simp)
      · have hq' : upd s.pc p .done q ≠ .idle := hq
        rw [upd_ne _ _ e] at hq'; exact hi.active q hq'
    · exact Nat.le_trans hi.cnt (ind p .done (fun _ => Or.inr rfl))

theorem reach_tinv {s0 s : TState P Hh} (h0 : TInit s0) (hr : TReach ps want built h true s0 s) : TInv ps want h s := by
  induction hr with
  | init => exact tinv_init h0
  | step _ hs ih => exact step_tinv ih hs

/-- The test is executed at most once per process. -/
theorem runs_le_procs {s : TState P Hh} (hi : TInv ps want h s) : s.runs ≤ ps.length := by
  refine Nat.le_trans hi.cnt (sum_le_length _ ps ?_)
  intro q _; split <;> omega

/-- When everybody is done, the cached results are the current ones. -/
theorem terminal_valid {s : TState P Hh} (hi : TInv ps want h s) (ht : TTerminal ps want s)
    {p : P} (hp : p ∈ ps) (hw : want p = true) : s.res = some h := by
  rcases hi.valid p (Or.inr (Or.inr (ht p hp hw))) with v | ⟨q, hq⟩
  · exact v
  · obtain ⟨hqp, hqw⟩ := hi.active q (by rw [hq]; simp)
    have := ht q hqp hqw; rw [hq] at this; simp at this

/-- No process rebuilt the target itself: the test runs at most once, the second entrant uses the cached results. -/
structure NInv (h : Hh) (s : TState P Hh) : Prop where
  once : s.runs ≥ 1 → s.res = some h
  clr  : ∀ p, s.pc p = .cleared → s.runs = 0
  le1  : s.runs ≤ 1

theorem ninv_init {s0 : TState P Hh} (h0 : TInit s0) : NInv h s0 :=
  ⟨fun hh => by rw [h0.runs] at hh; omega, fun p hp => by rw [h0.pc p] at hp; simp at hp, by rw [h0.runs]; omega⟩

theorem step_ninv (hnb : ∀ p, built p = false) {s s' : TState P Hh} (hi : TInv ps want h s) (hn : NInv h s)
    (hs : TStep ps want built h true s s') : NInv h s' := by
  cases hs with
  | acquire p hp hw hidle hfree =>
    refine ⟨hn.once, ?_, hn.le1⟩
    intro q hq
    have hq' : upd s.pc p .locked q = .cleared := hq
    by_cases e : q = p
    · subst e; simp at hq'
    · rw [upd_ne _ _ e] at hq'; exact hn.clr q hq'
  | useCached p hpc hb hres =>
    refine ⟨hn.once, ?_, hn.le1⟩
    intro q hq
    have hq' : upd s.pc p .cached q = .cleared := hq
    by_cases e : q = p
    · subst e; simp at hq'
    · rw [upd_ne _ _ e] at hq'; exact hn.clr q hq'
  | clear p hpc hneed =>
    have hne : s.res ≠ some h := by
      rcases hneed with hb | hr
      · rw [hnb p] at hb; simp at hb
      · exact hr
    have h0 : s.runs = 0 := by
      have := hn.le1
      by_cases h1 : s.runs ≥ 1
      · exact absurd (hn.once h1) hne
      · omega
    refine ⟨fun hh => by (have : s.runs ≥ 1 := hh); omega, fun _ _ => h0, hn.le1⟩
  | run p hpc =>
    have h0 := hn.clr p hpc
    have hcs : (s.pc p).inCS = true := by rw [hpc]; rfl
    refine ⟨fun _ => rfl, ?_, by show s.runs + 1 ≤ 1; omega⟩
    intro q hq
    have hq' : upd s.pc p .ran q = .cleared := hq
    by_cases e : q = p
    · subst e; simp at hq'
    · rw [upd_ne _ _ e] at hq'
      exact absurd (hi.mutex (by rw [hq']; rfl) hcs) e
  | release p hpc =>
    refine ⟨hn.once, ?_, hn.le1⟩
    intro q hq
    have hq' : upd s.pc p .done q = .cleared := hq
    by_cases e : q = p
    · subst e; simp at hq'
    · rw [upd_ne _ _ e] at hq'; exact hn.clr q hq'

theorem reach_ninv (hnb : ∀ p, built p = false) {s0 s : TState P Hh} (h0 : TInit s0)
    (hr : TReach ps want built h true s0 s) : NInv h s := by
  induction hr with
  | init => exact ninv_init h0
  | step hr' hs ih => exact step_ninv hnb (reach_tinv h0 hr') ih hs

/-- No deadlock: the holder of the test lock never waits for anything. -/
theorem tprogress {s : TState P Hh} (hi : TInv ps want h s) (hnt : ¬ TTerminal ps want s) :
    ∃ s', TStep ps want built h true s s' := by
  have cs : ∀ q, (s.pc q).inCS = true → ∃ s', TStep ps want built h true s s' := by
    intro q hq
    cases hpc : s.pc q with
    | idle => rw [hpc] at hq; simp [TPC.inCS] at hq
    | done => rw [hpc] at hq; simp [TPC.inCS] at hq
    | locked =>
      by_cases hc : built q = false ∧ s.res = some h
      · exact ⟨_, .useCached s q hpc hc.1 hc.2⟩
      · refine ⟨_, .clear s q hpc ?_⟩
        cases hb : built q with
        | true => exact Or.inl rfl
        | false => exact Or.inr (fun hr => hc ⟨hb, hr⟩)
    | cached => exact ⟨_, .release s q (Or.inl hpc)⟩
    | cleared => exact ⟨_, .run s q hpc⟩
    | ran => exact ⟨_, .release s q (Or.inr hpc)⟩
  have hex : ∃ p ∈ ps, want p = true ∧ s.pc p ≠ .done := by
    apply Classical.byContradiction
    intro hne
    apply hnt
    intro p hp hw
    apply Classical.byContradiction
    intro hd
    exact hne ⟨p, hp, hw, hd⟩
  obtain ⟨p, hp, hw, hd⟩ := hex
  cases hpc : s.pc p with
  | done => exact absurd hpc hd
  | idle =>
    cases hl : s.lock with
    | none => exact ⟨_, .acquire s p hp hw hpc (fun _ => hl)⟩
    | some q => exact cs q (hi.csLock q hl)
  | locked => exact cs p (by rw [hpc]; rfl)
  | cached => exact cs p (by rw [hpc]; rfl)
  | cleared => exact cs p (by rw [hpc]; rfl)
  | ran => exact cs p (by rw [hpc]; rfl)

/-- Every step strictly decreases the work left. -/
theorem tstep_measure {s s' : TState P Hh} (hi : TInv ps want h s) (hs : TStep ps want built h true s s') :
    (ps.map fun p => (s'.pc p).rank).sum < (ps.map fun p => (s.pc p).rank).sum := by
  have key : ∀ (p : P) (c : TPC), p ∈ ps → c.rank < (s.pc p).rank →
      (ps.map fun q => (upd s.pc p c q).rank).sum < (ps.map fun q => (s.pc q).rank).sum := by
    intro p c hp hlt
    apply sum_map_lt (a := p) _ hp
    · simp only [upd_same]; exact hlt
    · intro q _
      by_cases e : q = p
      · subst e; simp only [upd_same]; omega
      · rw [upd_ne _ _ e]; exact Nat.le_refl _
  have mem : ∀ p, s.pc p ≠ .idle → p ∈ ps := fun p hp => (hi.active p hp).1
  cases hs with
  | acquire p hp _ hidle => exact key p .locked hp (by rw [hidle]; decide)
  | useCached p hpc => exact key p .cached (mem p (by rw [hpc]; simp)) (by rw [hpc]; decide)
  | clear p hpc => exact key p .cleared (mem p (by rw [hpc]; simp)) (by rw [hpc]; decide)
  | run p hpc => exact key p .ran (mem p (by rw [hpc]; simp)) (by rw [hpc]; decide)
  | release p hpc =>
    rcases hpc with h' | h'
    · exact key p .done (mem p (by rw [h']; simp)) (by rw [h']; decide)
    · exact key p .done (mem p (by rw [h']; simp)) (by rw [h']; decide)

end
end PlzVerif.LockTest
