import PlzVerif.Model.Coverage
/-! Helper lemmas for C27: `mergeWith cmp` is pointwise `max` whenever `cmp` is `>` or `≥`. -/
namespace PlzVerif.Coverage

/-- The comparison behaves like "new is better (or equal)": picking by it yields the maximum. -/
def CmpIsMax (cmp : Nat → Nat → Bool) : Prop := ∀ new old, (if cmp new old then new else old) = max old new

theorem cmpIsMax_gt : CmpIsMax (cmpOf ">") := by
  intro n o; simp only [cmpOf]; simp only [if_true]
  by_cases h : n > o <;> simp [h] <;> omega

theorem cmpIsMax_ge : CmpIsMax (cmpOf ">=") := by
  intro n o
  have e : cmpOf ">=" n o = decide (n ≥ o) := by simp [cmpOf]
  rw [e]
  by_cases h : n ≥ o <;> simp [h] <;> omega

/-- Pointwise-max reference: the specification "best state any run observed". -/
def mergeMax : List Nat → List Nat → List Nat
  | [], ys => ys
  | xs, [] => xs
  | x :: xs, y :: ys => max x y :: mergeMax xs ys

theorem mergeWith_eq_max {cmp} (h : CmpIsMax cmp) : ∀ xs ys, mergeWith cmp xs ys = mergeMax xs ys
  | [], ys => by simp [mergeWith, mergeMax]
  | _ :: _, [] => by simp [mergeWith, mergeMax]
  | x :: xs, y :: ys => by simp [mergeWith, mergeMax, h y x, mergeWith_eq_max h xs ys]

theorem mergeMax_comm : ∀ xs ys, mergeMax xs ys = mergeMax ys xs
  | [], [] => rfl
  | [], _ :: _ => by simp [mergeMax]
  | _ :: _, [] => by simp [mergeMax]
  | x :: xs, y :: ys => by simp [mergeMax, Nat.max_comm x y, mergeMax_comm xs ys]

theorem mergeMax_idem : ∀ xs, mergeMax xs xs = xs
  | [] => rfl
  | x :: xs => by simp [mergeMax, mergeMax_idem xs]

theorem mergeMax_assoc : ∀ xs ys zs, mergeMax (mergeMax xs ys) zs = mergeMax xs (mergeMax ys zs)
  | [], ys, zs => by simp [mergeMax]
  | x :: xs, [], zs => by simp [mergeMax]
  | x :: xs, y :: ys, [] => by simp [mergeMax]
  | x :: xs, y :: ys, z :: zs => by simp [mergeMax, Nat.max_assoc, mergeMax_assoc xs ys zs]

theorem mergeMax_nil_right : ∀ xs, mergeMax xs [] = xs
  | [] => rfl
  | _ :: _ => by simp [mergeMax]

theorem mergeMax_length : ∀ xs ys, (mergeMax xs ys).length = max xs.length ys.length
  | [], ys => by simp [mergeMax]
  | x :: xs, [] => by simp [mergeMax]
  | x :: xs, y :: ys => by simp [mergeMax, mergeMax_length xs ys]

/-- Best of what two runs observed at one line (absent = nothing observed). -/
def bestAt : Option Nat → Option Nat → Option Nat
  | some a, some b => some (max a b)
  | some a, none => some a
  | none, some b => some b
  | none, none => none

/-- Every position holds the best value either side had there. -/
theorem mergeMax_get (xs ys : List Nat) (i : Nat) : (mergeMax xs ys)[i]? = bestAt xs[i]? ys[i]? := by
  induction xs generalizing ys i with
  | nil => simp [mergeMax]; cases ys[i]? <;> rfl
  | cons x xs ih =>
    cases ys with
    | nil => simp [mergeMax]; cases (x :: xs)[i]? <;> rfl
    | cons y ys =>
      cases i with
      | zero => simp [mergeMax, bestAt]
      | succ i => simp [mergeMax, ih ys i]

theorem foldl_mergeMax_perm {l₁ l₂ : List (List Nat)} (p : l₁.Perm l₂) (init : List Nat) :
    l₁.foldl mergeMax init = l₂.foldl mergeMax init := by
  apply List.Perm.foldl_eq' p
  intro x _ y _ z
  rw [mergeMax_assoc, mergeMax_comm x y, ← mergeMax_assoc]

end PlzVerif.Coverage

namespace PlzVerif.Coverage

/-! ### The index-based Go loop equals the structural definition -/

/-- State of the Go loop after consuming a prefix: `ret` and the loop index. -/
def loopStep (cmp : Nat → Nat → Bool) (acc : List Nat × Nat) (line : Nat) : List Nat × Nat :=
  let (ret, i) := acc
  if i ≥ ret.length then (ret ++ [line], i + 1)
  else if cmp line (ret.getD i 0) then (ret.set i line, i + 1)
  else (ret, i + 1)

theorem mergeLoop_eq_foldl (cmp) (existing coverage : List Nat) :
    mergeLoop cmp existing coverage = (coverage.foldl (loopStep cmp) (existing, 0)).1 := rfl

/-- Generalised loop invariant: with a processed prefix `pre` already in place, the loop over `cov`
    starting at index `pre.length` rewrites exactly the remaining suffix by `mergeWith`. -/
theorem loop_invariant (cmp : Nat → Nat → Bool) : ∀ (cov pre rest : List Nat),
    (cov.foldl (loopStep cmp) (pre ++ rest, pre.length)).1 = pre ++ mergeWith cmp rest cov
  | [], pre, rest => by cases rest <;> simp [mergeWith]
  | y :: ys, pre, [] => by
    have h := loop_invariant cmp ys (pre ++ [y]) []
    simp only [List.foldl_cons, loopStep, List.append_nil, Nat.le_refl, ge_iff_le, if_true]
    simp only [List.append_nil, List.length_append, List.length_cons, List.length_nil] at h
    rw [h]
    cases ys <;> simp [mergeWith]
  | y :: ys, pre, x :: xs => by
    have hlt : ¬ (pre.length ≥ (pre ++ x :: xs).length) := by simp
    simp only [List.foldl_cons, loopStep, hlt, if_false]
    have hget : (pre ++ x :: xs).getD pre.length 0 = x := by simp [List.getD]
    rw [hget]
    by_cases hc : cmp y x = true
    · simp only [hc, if_true]
      have hset : (pre ++ x :: xs).set pre.length y = (pre ++ [y]) ++ xs := by
        simp [List.set_append]
      rw [hset]
      have h := loop_invariant cmp ys (pre ++ [y]) xs
      simp only [List.length_append, List.length_cons, List.length_nil] at h
      rw [h]; simp [mergeWith, hc]
    · simp only [hc]
      have h := loop_invariant cmp ys (pre ++ [x]) xs
      simp only [List.length_append, List.length_cons, List.length_nil, List.append_assoc, List.singleton_append] at h
      simp only [Bool.false_eq_true, if_false]
      rw [h]; simp [mergeWith, hc]

/-- The transcription of the Go loop and the structural model are the same function. -/
theorem mergeLoop_eq_mergeWith (cmp : Nat → Nat → Bool) (existing coverage : List Nat) :
    mergeLoop cmp existing coverage = mergeWith cmp existing coverage := by
  have h := loop_invariant cmp coverage [] existing
  simpa [mergeLoop_eq_foldl] using h

end PlzVerif.Coverage

namespace PlzVerif.Coverage

/-! ### `TestCoverage.Aggregate` on the Files map, as a finite map `name ↦ vector` (a Go map: keys are unique,
    iteration order is not observable).  For every file of the incoming object: `acc[file] = merge(acc[file], c)`. -/

abbrev FMap := String → Option (List Nat)

def aggF (acc cov : FMap) : FMap := fun k =>
  match cov k with
  | none => acc k
  | some c => some (mergeMax ((acc k).getD []) c)

theorem mergeMax_nil_left (ys : List Nat) : mergeMax [] ys = ys := by cases ys <;> simp [mergeMax]

theorem aggF_comm (a b : FMap) : aggF a b = aggF b a := by
  funext k
  unfold aggF
  cases ha : a k <;> cases hb : b k <;> simp [mergeMax_nil_left, mergeMax_nil_right, mergeMax_comm]

theorem aggF_assoc (a b c : FMap) : aggF (aggF a b) c = aggF a (aggF b c) := by
  funext k
  unfold aggF
  cases ha : a k <;> cases hb : b k <;> cases hc : c k <;>
    simp [ha, hb, hc, mergeMax_nil_left, mergeMax_nil_right, mergeMax_assoc]

theorem aggF_idem (a : FMap) : aggF a a = a := by
  funext k
  unfold aggF
  cases ha : a k <;> simp [mergeMax_idem]

theorem foldl_aggF_perm {l₁ l₂ : List FMap} (p : l₁.Perm l₂) (init : FMap) :
    l₁.foldl aggF init = l₂.foldl aggF init := by
  apply List.Perm.foldl_eq' p
  intro x _ y _ z
  rw [aggF_assoc, aggF_comm x y, ← aggF_assoc]

end PlzVerif.Coverage
