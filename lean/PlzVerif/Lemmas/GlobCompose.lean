import PlzVerif.Lemmas.GlobWalk
set_option linter.unusedSimpArgs false
/-! C21: excludes against the specification, and the whole pipeline (walk, matchers, filters) on parsed patterns. -/
namespace PlzVerif.Glob
open PlzVerif.Walk

/-! ### splitting at '/' -/

theorem splitOnSlash_ne_nil : ∀ (s : List Char), splitOnSlash s ≠ []
  | [] => by simp [splitOnSlash]
  | c :: s => by
    simp only [splitOnSlash]
    cases h : splitOnSlash s with
    | nil => simp
    | cons a t => simp only []; split <;> simp

theorem joinSlash_splitOnSlash : ∀ (s : List Char), joinSlash (splitOnSlash s) = s
  | [] => by simp [splitOnSlash, joinSlash]
  | c :: s => by
    have ih := joinSlash_splitOnSlash s
    simp only [splitOnSlash]
    cases h : splitOnSlash s with
    | nil => exact absurd h (splitOnSlash_ne_nil s)
    | cons a t =>
      rw [h] at ih
      simp only []
      split
      · rename_i hc; subst hc
        simp only [joinSlash, List.nil_append, ih]
      · cases t with
        | nil => simp only [joinSlash] at ih ⊢; rw [ih]
        | cons b r => simp only [joinSlash, List.cons_append] at ih ⊢; rw [ih]

theorem contains_slash_iff (s : List Char) (g : gpath (splitOnSlash s) = true) :
    s.contains '/' = decide (1 < (splitOnSlash s).length) := by
  have hj := joinSlash_splitOnSlash s
  cases h : splitOnSlash s with
  | nil => exact absurd h (splitOnSlash_ne_nil s)
  | cons a t =>
    rw [h] at hj g
    cases t with
    | nil =>
      simp only [joinSlash] at hj
      have := gname_noslash (gpath_cons g).1
      rw [← hj]; simp [this]
    | cons b r =>
      have := joinSlash_has_slash a b r
      rw [hj] at this
      simp [this]

/-! ### `isBathPathOf` on components -/

theorem isBasePathOf_eq (p b : Name) : isBasePathOf p b = (p == b || (b ++ ['/']).isPrefixOf p) := by
  unfold isBasePathOf
  by_cases hp : b <+: p
  · obtain ⟨t, rfl⟩ := hp
    have h1 : b.isPrefixOf (b ++ t) = true := by rw [List.isPrefixOf_iff_prefix]; exact List.prefix_append _ _
    simp only [h1, Bool.true_and, List.drop_left]
    cases t with
    | nil => simp [List.isPrefixOf_iff_prefix]
    | cons c r =>
      have h2 : ((b ++ c :: r) == b) = false := by
        rw [beq_eq_false_iff_ne]; intro e
        have := congrArg List.length e; simp at this
      have h3 : (b ++ ['/']).isPrefixOf (b ++ c :: r) = (c == '/') := by
        rw [Bool.eq_iff_iff, List.isPrefixOf_iff_prefix, List.prefix_append_right_inj, List.cons_prefix_cons, beq_iff_eq]
        constructor
        · intro h; exact h.1.symm
        · intro h; exact ⟨h.symm, List.nil_prefix⟩
      simp only [h2, h3, Bool.false_or]
  · have h1 : b.isPrefixOf p = false := by
      rw [Bool.eq_false_iff]; intro h; exact hp (List.isPrefixOf_iff_prefix.mp h)
    have h2 : (p == b) = false := by
      rw [beq_eq_false_iff_ne]; intro e; exact hp (e ▸ List.prefix_refl _)
    have h3 : (b ++ ['/']).isPrefixOf p = false := by
      rw [Bool.eq_false_iff]; intro h
      exact hp ((List.prefix_append _ _).trans (List.isPrefixOf_iff_prefix.mp h))
    simp [h1, h2, h3]

theorem isBasePathOf_componentwise (d q : List Name) (gd : gpath d = true) (gq : gpath q = true) (hd : d ≠ []) (hq : q ≠ []) :
    isBasePathOf (joinSlash q) (joinSlash d) = d.isPrefixOf q := by
  rw [isBasePathOf_eq, ← inDirs_componentwise d q gd gq hd hq]
  simp only [isInDirectories, List.any_cons, List.any_nil, Bool.or_false, Bool.or_comm, Bool.false_or]


/-! ### one exclude pattern -/

/-- `shouldExcludeMatch` for one exclude pattern, with the matcher denoted on the parsed pattern (`structMatch`). -/
def exclOneS (o : MOpts) (root : List Name) (m raw : Name) (segs : List Seg) : Bool :=
  isBasePathOf m (if nameOf root == ['.'] then raw else nameOf root ++ '/' :: raw) ||
  (if m.contains '/' && !raw.contains '/' then structMatch o [] segs (base m) else structMatch o root segs m)

/-- The matcher hypotheses of `C21_match_exact` for one parsed pattern in the package at `root`. -/
def patOK (o : MOpts) (root : List Name) (segs : List Seg) : Prop :=
  okSegs (modeOf o segs) segs = true ∧ noAdjacentDstar segs = true ∧ segs ≠ [] ∧
  safePath (modeOf o segs) root = true ∧ (root = [] → o.leadOpt = true ∨ leadingDstar segs = false)

/-- What one exclude entry says in the specification. -/
def specExclOne (raw : Name) (segs : List Seg) (e : List Name) : Bool :=
  (match segs, e.getLast? with
   | [s], some b => segMatch [s] [b]
   | _, _ => false) || segMatch segs e || (splitOnSlash raw).isPrefixOf e

theorem specExcludes_eq (q : Query) (e : List Name) :
    specExcludes q e = q.excludes.any fun x => specExclOne x.1 x.2 e := by
  simp only [specExcludes, specExclOne]
  congr 1

theorem joined_eq (root : List Name) (raw : Name) (gr : gpath root = true) :
    (if nameOf root == ['.'] then raw else nameOf root ++ '/' :: raw) = joinSlash (root ++ splitOnSlash raw) := by
  rw [root_is_dot root gr]
  cases root with
  | nil => simp [joinSlash_splitOnSlash]
  | cons a r =>
    simp only [List.isEmpty_cons, Bool.false_eq_true, if_false, nameOf]
    rw [joinSlash_append (a :: r) (splitOnSlash raw) (by simp) (splitOnSlash_ne_nil raw), joinSlash_splitOnSlash]

theorem joinSlash_contains_slash (p : List Name) (g : gpath p = true) (hne : p ≠ []) :
    (joinSlash p).contains '/' = decide (1 < p.length) := by
  cases p with
  | nil => exact absurd rfl hne
  | cons a t =>
    cases t with
    | nil => simpa [joinSlash] using gname_noslash (gpath_cons g).1
    | cons b r => simp [joinSlash_has_slash a b r]

theorem segMatch_single_long (s : Seg) (c c' : Name) (r : List Name) :
    segMatch [s] (c :: c' :: r) = (match s with | .dstar => true | .items _ => false) := by
  cases s <;> simp [segMatch]

theorem exclOneS_spec (o : MOpts) (root : List Name) (raw : Name) (segs : List Seg) (e : List Name)
    (gr : gpath root = true) (ge : gpath e = true) (he : e ≠ []) (hp : patOK o root segs)
    (hlen : segs.length = (splitOnSlash raw).length) (graw : gpath (splitOnSlash raw) = true) :
    exclOneS o root (nameOf (root ++ e)) raw segs = specExclOne raw segs e := by
  obtain ⟨ok, na, hs, sp, hl⟩ := hp
  have hne : root ++ e ≠ [] := by simp [he]
  have gall := gpath_append gr ge
  have hn : nameOf (root ++ e) = joinSlash (root ++ e) := by
    cases h : root ++ e with
    | nil => exact absurd h hne
    | cons a b => simp [nameOf]
  -- the "names the entry or a directory above it" clause
  have hbase : isBasePathOf (nameOf (root ++ e)) (if nameOf root == ['.'] then raw else nameOf root ++ '/' :: raw)
      = (splitOnSlash raw).isPrefixOf e := by
    rw [joined_eq root raw gr, hn,
      isBasePathOf_componentwise _ _ (gpath_append gr graw) gall (by simp [splitOnSlash_ne_nil]) hne]
    rw [Bool.eq_iff_iff, List.isPrefixOf_iff_prefix, List.isPrefixOf_iff_prefix, List.prefix_append_right_inj]
  have hslash : (nameOf (root ++ e)).contains '/' = decide (1 < (root ++ e).length) := by
    rw [hn]; exact joinSlash_contains_slash (root ++ e) gall hne
  have hraw : raw.contains '/' = decide (1 < segs.length) := by rw [contains_slash_iff raw graw, hlen]
  have hbase' : base (nameOf (root ++ e)) = lastOr e := by
    rw [base_nameOf _ (gpath_good gall), lastOr_append root e he]
  -- the file-name-only reading: a single segment against the last component
  have single : ∀ (s : Seg) (b : Name), segs = [s] → gname b = true → structMatch o [] [s] b = segMatch [s] [b] := by
    intro s b hsg gb
    subst hsg
    have := structMatch_spec o [] [s] [b] ok na (by simp [gpath]) (by simp [safePath]) (by simp [gpath, gb]) (by simp)
      (by simp) (by intro _; right; simp [leadingDstar])
    simpa [joinSlash] using this
  have glast : gname (lastOr e) = true := by
    have hm : lastOr e ∈ e := by
      simp only [lastOr]
      cases h : e.getLast? with
      | none => simp [List.getLast?_eq_none_iff] at h; exact absurd h he
      | some x => exact List.mem_of_getLast? h
    simp only [gpath, List.all_eq_true] at ge; exact ge _ hm
  have whole := structMatch_spec o root segs e ok na gr sp ge he hs hl
  rw [← hn] at whole
  unfold exclOneS specExclOne
  rw [hbase, hslash, hraw, hbase']
  rw [Bool.or_comm]
  congr 1
  cases segs with
  | nil => exact absurd rfl hs
  | cons s1 t =>
    cases t with
    | cons s2 t' =>
      -- the pattern has a separator: matched from the package directory
      simp only [List.length_cons, whole]
      have : decide (1 < t'.length + 1 + 1) = true := by simp
      simp [this]
    | nil =>
      simp only [List.length_cons, List.length_nil, Nat.lt_irrefl, decide_false, Bool.not_false, Bool.and_true]
      cases e with
      | nil => exact absurd rfl he
      | cons c r =>
        cases r with
        | nil =>
          have hl1 : lastOr [c] = c := by simp [lastOr]
          simp only [List.getLast?_singleton, Bool.or_self]
          cases root with
          | nil =>
            simp only [List.nil_append, List.length_singleton, Nat.lt_irrefl, decide_false, Bool.false_eq_true, if_false]
            simpa using whole
          | cons a r' =>
            have : decide (1 < (a :: r' ++ [c]).length) = true := by simp
            rw [this, if_pos rfl, hl1]
            exact single s1 c rfl (by simpa [lastOr] using glast)
        | cons c' r' =>
          have hlen2 : decide (1 < (root ++ c :: c' :: r').length) = true := by simp; omega
          rw [hlen2, if_pos rfl, single s1 _ rfl glast, segMatch_single_long]
          have hg : (c :: c' :: r').getLast? = some (lastOr (c :: c' :: r')) := by
            simp only [lastOr]
            cases h : (c :: c' :: r').getLast? with
            | none => simp [List.getLast?_eq_none_iff] at h
            | some x => rfl
          rw [hg]
          cases s1 with
          | dstar => simp [segMatch]
          | items p => simp


/-! ### the whole pipeline on parsed patterns -/

mutual
theorem ownEntry_shape (cfg : Cfg) (hidden top : Bool) : ∀ (t : Tree) (n : Name) (q : List Name) (e : List Name) (l : Bool),
    (e, l) ∈ ownEntry cfg hidden top q n t → gname n = true → Tree.gok t = true → gpath q = true →
    gpath e = true ∧ e ≠ []
  | .leaf k, n, q, e, l, h, gn, _, gq => by
    simp only [ownEntry] at h
    split at h
    · simp at h
    · simp only [List.mem_singleton, Prod.mk.injEq] at h
      rw [h.1]; exact ⟨gpath_snoc gq gn, by simp⟩
  | .dir cs, n, q, e, l, h, gn, gt, gq => by
    simp only [ownEntry] at h
    split at h
    · simp at h
    · split at h
      · simp at h
      · simp only [List.mem_cons, Prod.mk.injEq] at h
        rcases h with h | h
        · rw [h.1]; exact ⟨gpath_snoc gq gn, by simp⟩
        · exact ownFo_shape cfg hidden top cs (q ++ [n]) e l h (by simpa [Tree.gok] using gt) (gpath_snoc gq gn)
theorem ownFo_shape (cfg : Cfg) (hidden top : Bool) : ∀ (cs : Forest) (q : List Name) (e : List Name) (l : Bool),
    (e, l) ∈ ownFo cfg hidden top q cs → Forest.gok cs = true → gpath q = true → gpath e = true ∧ e ≠ []
  | .nil, _, _, _, h, _, _ => by simp [ownFo] at h
  | .cons n t rest, q, e, l, h, gc, gq => by
    simp only [Forest.gok, Bool.and_eq_true] at gc
    simp only [ownFo, List.mem_append] at h
    rcases h with h | h
    · exact ownEntry_shape cfg hidden top t n q e l h gc.1.1 gc.1.2 gq
    · exact ownFo_shape cfg hidden top rest q e l h gc.2 gq
end

/-- **The whole of `glob`, on parsed patterns, against the specification (partial).** -/
theorem glob_struct_exact (F : Facts) (hF : walkFactsOK' F) (o : MOpts) (cfg : Cfg) (q : Query) (root : List Name) (cs : Forest)
    (gr : gpath root = true) (gok : Forest.gok cs.sort = true)
    (ben : benF cfg q.hidden root.isEmpty true cs.sort = true)
    (hroot : cfg.buildNames.contains (lastOr root) = false)
    (hinc : ∀ segs ∈ q.includes, patOK o root segs)
    (hexc : ∀ x ∈ q.excludes, patOK o root x.2 ∧ x.2.length = (splitOnSlash x.1).length ∧ gpath (splitOnSlash x.1) = true)
    (m : Name) (hm : m ≠ nameOf root) :
    ((m ∈ (walkDir F cfg root (.dir cs)).files ∨ (q.symlinks = true ∧ m ∈ (walkDir F cfg root (.dir cs)).symlinks)) ∧
      (q.includes.any fun s => structMatch o root s m) = true ∧
      isInDirectories m (walkDir F cfg root (.dir cs)).subPackages = false ∧
      (q.hidden = true ∨ isHidden F m = false) ∧
      (q.excludes.any fun x => exclOneS o root m x.1 x.2) = false)
    ↔ ∃ e ∈ specFo cfg q root.isEmpty [] cs.sort, m = nameOf (root ++ e) := by
  -- matchers and excludes on the path of an owned entry
  have onEntry : ∀ e, gpath e = true → e ≠ [] →
      (q.includes.any fun s => structMatch o root s (nameOf (root ++ e))) = (q.includes.any fun s => segMatch s e) ∧
      (q.excludes.any fun x => exclOneS o root (nameOf (root ++ e)) x.1 x.2) = specExcludes q e := by
    intro e ge he
    have hn : nameOf (root ++ e) = joinSlash (root ++ e) := by
      cases h : root ++ e with
      | nil => simp at h; exact absurd h.2 he
      | cons a b => simp [nameOf]
    constructor
    · apply any_congr_of
      intro segs hs
      obtain ⟨ok, na, hne, sp, hl⟩ := hinc segs hs
      rw [hn]; exact structMatch_spec o root segs e ok na gr sp ge he hne hl
    · rw [specExcludes_eq]
      apply any_congr_of
      intro x hx
      obtain ⟨hp, hlen, graw⟩ := hexc x hx
      exact exclOneS_spec o root x.1 x.2 e gr ge he hp hlen graw
  have wc := fun l => walk_candidates F hF cfg q.hidden root cs gr gok ben hroot m l hm
  rw [show (∃ e ∈ specFo cfg q root.isEmpty [] cs.sort, m = nameOf (root ++ e)) ↔
      ∃ e l, (e, l) ∈ ownFo cfg q.hidden root.isEmpty [] cs.sort ∧ selects q (e, l) = true ∧ m = nameOf (root ++ e) by
    rw [specFo_eq_own]
    simp only [List.mem_map, List.mem_filter, Prod.exists]
    constructor
    · rintro ⟨e, ⟨e', l, ⟨h1, h2⟩, rfl⟩, h3⟩; exact ⟨e', l, h1, h2, h3⟩
    · rintro ⟨e, l, h1, h2, h3⟩; exact ⟨e, ⟨e, l, ⟨h1, h2⟩, rfl⟩, h3⟩]
  constructor
  · rintro ⟨hmem, hinc', hin, hvis, hexc'⟩
    have go : ∀ l, (l = true → q.symlinks = true) →
        m ∈ (if l then (walkDir F cfg root (.dir cs)).symlinks else (walkDir F cfg root (.dir cs)).files) →
        ∃ e l, (e, l) ∈ ownFo cfg q.hidden root.isEmpty [] cs.sort ∧ selects q (e, l) = true ∧ m = nameOf (root ++ e) := by
      intro l hl hml
      obtain ⟨e, he, rfl⟩ := (wc l).mp ⟨hml, hin, hvis⟩
      obtain ⟨ge, hne⟩ := ownFo_shape cfg q.hidden root.isEmpty cs.sort [] e l he gok (by simp [gpath])
      obtain ⟨h1, h2⟩ := onEntry e ge hne
      refine ⟨e, l, he, ?_, rfl⟩
      rw [h1] at hinc'; rw [h2] at hexc'
      simp only [selects, hinc', hexc', Bool.not_false, Bool.and_true, Bool.or_eq_true, Bool.not_eq_true']
      cases l with
      | false => exact Or.inl rfl
      | true => exact Or.inr (hl rfl)
    rcases hmem with h | ⟨hs, h⟩
    · exact go false (fun e => by cases e) (by simpa using h)
    · exact go true (fun _ => hs) (by simpa using h)
  · rintro ⟨e, l, he, hsel, rfl⟩
    obtain ⟨ge, hne⟩ := ownFo_shape cfg q.hidden root.isEmpty cs.sort [] e l he gok (by simp [gpath])
    obtain ⟨h1, h2⟩ := onEntry e ge hne
    obtain ⟨hml, hin, hvis⟩ := (wc l).mpr ⟨e, he, rfl⟩
    simp only [selects, Bool.and_eq_true, Bool.or_eq_true, Bool.not_eq_true'] at hsel
    obtain ⟨⟨hl, hi⟩, hx⟩ := hsel
    refine ⟨?_, by rw [h1]; exact hi, hin, hvis, by rw [h2]; exact hx⟩
    cases l with
    | false => exact Or.inl (by simpa using hml)
    | true =>
      rcases hl with hl | hl
      · cases hl
      · exact Or.inr ⟨hl, by simpa using hml⟩

end PlzVerif.Glob
