import PlzVerif.Lemmas.CMapInv
/-! C15: helper lemmas for the property theorems (strong linearizability without `Values`, what a step can
do to the shared memory and to a blocked thread). -/
namespace PlzVerif.CMap
set_option linter.unusedSectionVars false

variable {V : Type} [Inhabited V] (c : Cfg V)

/-- no thread is inside a multi-step `Values` -/
def NoV (a : ASys V) : Prop := ∀ t i acc, a.th t ≠ .vpend i acc

def noValues : List (Ev V) → Prop
  | [] => True
  | .inv _ .values :: _ => False
  | _ :: r => noValues r

theorem noValues_append (tr : List (Ev V)) (e : Ev V) : noValues (tr ++ [e]) ↔ noValues tr ∧ noValues [e] := by
  induction tr with
  | nil => simp [noValues]
  | cons x r ih =>
    cases x with
    | inv t op => cases op <;> simp [noValues, ih]
    | ret t r' => simp [noValues, ih]

theorem astep_strong_of_noV {a a' : ASys V} {l} (h : AStep c false a l a') (hn : NoV a)
    (hl : ∀ t, l ≠ some (.inv t .values)) : AStep c true a l a' ∧ NoV a' := by
  cases h with
  | inv t op hth =>
    have hop : op ≠ .values := fun e => hl t (by rw [e])
    have e : astartPC op = .pend op := by cases op <;> first | rfl | exact absurd rfl hop
    refine ⟨by simpa [e] using AStep.inv (c := c) (strong := true) a t op hth, ?_⟩
    intro t' i acc hc
    by_cases ht : t' = t
    · subst ht; simp [e] at hc
    · simp [upd_other _ _ _ _ ht] at hc; exact hn t' i acc hc
  | lin t op hth =>
    refine ⟨AStep.lin a t op hth, ?_⟩
    intro t' i acc hc
    by_cases ht : t' = t
    · subst ht; simp at hc
    · simp [upd_other _ _ _ _ ht] at hc; exact hn t' i acc hc
  | vlin t i acc hth => exact absurd hth (hn t i acc)
  | vend t i acc hth => exact absurd hth (hn t i acc)
  | ret t r hth =>
    refine ⟨AStep.ret a t r hth, ?_⟩
    intro t' i acc hc
    by_cases ht : t' = t
    · subst ht; simp at hc
    · simp [upd_other _ _ _ _ ht] at hc; exact hn t' i acc hc

theorem aexec_strong_of_noValues {a0 a : ASys V} {tr} (h : AExec c false a0 tr a) (h0 : NoV a0) (hv : noValues tr) :
    AExec c true a0 tr a ∧ NoV a := by
  induction h with
  | nil => exact ⟨.nil _, h0⟩
  | tau _ hs ih =>
    obtain ⟨e, n⟩ := ih hv
    obtain ⟨s1, n1⟩ := astep_strong_of_noV c hs n (by intro t h; cases h)
    exact ⟨.tau e s1, n1⟩
  | @ev _ _ tr e _ hs ih =>
    rw [noValues_append] at hv
    obtain ⟨ex, n⟩ := ih hv.1
    have : ∀ t, some e ≠ some (.inv t .values) := by
      intro t h; cases h; simp [noValues] at hv
    obtain ⟨s1, n1⟩ := astep_strong_of_noV c hs n this
    exact ⟨.ev ex s1, n1⟩

/-- what a step can do to the shared memory -/
theorem step_shared {s s' : Sys V} {l} (h : Step c s l s') :
    s'.sh = s.sh ∨ (∃ t k v ow, s.pc t = .set k v ow ∧ s'.sh = (csSet c s.sh k v ow).1) ∨
    (∃ t k v, s.pc t = .lazy k v ∧ s'.sh = (csLazySet c s.sh k v).1) ∨
    (∃ t k full, s.pc t = .getSlow k full ∧ s'.sh = (csGetSlow c s.sh k).1) := by
  cases h <;> first
    | exact .inl rfl
    | exact .inr (.inl ⟨_, _, _, _, ‹_›, rfl⟩)
    | exact .inr (.inr (.inl ⟨_, _, _, ‹_›, rfl⟩))
    | exact .inr (.inr (.inr ⟨_, _, _, ‹_›, rfl⟩))

theorem csSet_closes {σ : Shared V} {k v ow ch} (h1 : ch ∉ σ.closed) (h2 : ch ∈ (csSet c σ k v ow).1.closed) :
    σ.lookup c k = some (.waiting ch) := by
  unfold csSet at h2
  split at h2
  · split at h2 <;> exact absurd h2 h1
  · rename_i ch0 hl
    have : ch ∈ ch0 :: σ.closed := h2
    rcases List.mem_cons.mp this with e | e
    · rw [e]; exact hl
    · exact absurd e h1
  · exact absurd h2 h1

theorem csLazySet_closes {σ : Shared V} {k v ch} (h1 : ch ∉ σ.closed) (h2 : ch ∈ (csLazySet c σ k v).1.closed) :
    σ.lookup c k = some (.waiting ch) := by
  unfold csLazySet at h2
  split at h2
  · exact absurd h2 h1
  · rename_i ch0 hl
    have : ch ∈ ch0 :: σ.closed := h2
    rcases List.mem_cons.mp this with e | e
    · rw [e]; exact hl
    · exact absurd e h1
  · exact absurd h2 h1

theorem csGetSlow_closed {σ : Shared V} {k} : (csGetSlow c σ k).1.closed = σ.closed := by
  unfold csGetSlow; split <;> rfl


/-- a thread blocked in `<-ch` stays blocked unless the channel is closed -/
theorem step_await {s s' : Sys V} {l} (h : Step c s l s') {t : Tid} {ch : Chan} (hcl : s.cl t = .await ch) :
    s'.cl t = .await ch ∨ (ch ∈ s.sh.closed ∧ s'.cl t = .free) := by
  cases h with
  | awaitWake t0 ch0 hcl0 hm =>
    by_cases e : t = t0
    · subst e; rw [hcl] at hcl0; cases hcl0; exact .inr ⟨hm, by simp⟩
    · left; simp [upd_other _ _ _ _ e, hcl]
  | awaitStart t0 _ _ hcl0 =>
    left; by_cases e : t = t0
    · subst e; rw [hcl] at hcl0; cases hcl0
    · simp [upd_other _ _ _ _ e, hcl]
  | gosStart t0 _ _ _ hcl0 =>
    left; by_cases e : t = t0
    · subst e; rw [hcl] at hcl0; cases hcl0
    · simp [upd_other _ _ _ _ e, hcl]
  | gosRet1 t0 _ _ _ _ _ _ hcl0 =>
    left; by_cases e : t = t0
    · subst e; rw [hcl] at hcl0; cases hcl0
    · simp [upd_other _ _ _ _ e, hcl]
  | gosRunF t0 _ _ _ hcl0 =>
    left; by_cases e : t = t0
    · subst e; rw [hcl] at hcl0; cases hcl0
    · simp [upd_other _ _ _ _ e, hcl]
  | gosRet2 t0 _ _ _ _ hcl0 =>
    left; by_cases e : t = t0
    · subst e; rw [hcl] at hcl0; cases hcl0
    · simp [upd_other _ _ _ _ e, hcl]
  | gosWake t0 _ _ _ hcl0 _ =>
    left; by_cases e : t = t0
    · subst e; rw [hcl] at hcl0; cases hcl0
    · simp [upd_other _ _ _ _ e, hcl]
  | gosRet3 t0 _ _ _ hcl0 =>
    left; by_cases e : t = t0
    · subst e; rw [hcl] at hcl0; cases hcl0
    · simp [upd_other _ _ _ _ e, hcl]
  | gosDone t0 _ _ _ hcl0 =>
    left; by_cases e : t = t0
    · subst e; rw [hcl] at hcl0; cases hcl0
    · simp [upd_other _ _ _ _ e, hcl]
  | _ => exact .inl hcl

/-- consecutive states are related by a step -/
def Chain : List (Sys V) → Prop
  | s :: s' :: r => (∃ l, Step c s l s') ∧ Chain (s' :: r)
  | _ => True

theorem runSched_head (s : Sys V) (sched) : ∃ r, runSched c s sched = s :: r := by
  cases sched with
  | nil => exact ⟨[], rfl⟩
  | cons x r =>
    obtain ⟨t, o⟩ := x
    cases o with
    | some call => simp only [runSched]; split <;> exact ⟨_, rfl⟩
    | none => simp only [runSched]; split <;> exact ⟨_, rfl⟩

theorem runSched_chain (s : Sys V) (sched) : Chain c (runSched c s sched) := by
  induction sched generalizing s with
  | nil => simp [runSched, Chain]
  | cons x r ih =>
    obtain ⟨t, o⟩ := x
    cases o with
    | some call =>
      simp only [runSched]
      split
      · rename_i l s' h
        obtain ⟨r', hr⟩ := runSched_head c s' r
        rw [hr]; exact ⟨⟨l, start_sound c h⟩, hr ▸ ih s'⟩
      · simp [Chain]
    | none =>
      simp only [runSched]
      split
      · rename_i l s' h
        obtain ⟨r', hr⟩ := runSched_head c s' r
        rw [hr]; exact ⟨⟨l, advance_sound c h⟩, hr ▸ ih s'⟩
      · simp [Chain]

end PlzVerif.CMap
