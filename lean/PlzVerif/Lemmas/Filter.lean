import PlzVerif.Model.Filter
import PlzVerif.Lemmas.Label
/-!
Lemmas for the include/exclude filter model (`Model/Filter.lean`): `splitOn` is `strings.Split`, the
documented selection rule (`Carries`, `GroupHolds`, `PatternSelects`, `Selected`) and the equivalences between
the transcribed functions and that rule.
-/
namespace PlzVerif.Filter
open PlzVerif.Label

/-! ### splitOn is `strings.Split` -/

theorem splitOn_ne_nil (sep : Char) (s : Str) : splitOn sep s ≠ [] := by
  cases s with
  | nil => simp [splitOn]
  | cons c r => unfold splitOn; split; simp; split <;> simp

theorem splitOn_no_sep (sep : Char) (s : Str) : ∀ x ∈ splitOn sep s, sep ∉ x := by
  induction s with
  | nil => simp [splitOn]
  | cons c r ih =>
    unfold splitOn
    split
    · intro x hx; simp at hx; rcases hx with rfl | hx; simp; exact ih x hx
    · rename_i hc
      cases hr : splitOn sep r with
      | nil => exact absurd hr (splitOn_ne_nil sep r)
      | cons h t =>
        rw [hr] at ih
        intro x hx; simp at hx
        rcases hx with rfl | hx
        · have := ih h (by simp)
          simp [this]; exact fun e => hc e.symm
        · exact ih x (by simp [hx])

theorem splitOn_join (sep : Char) (s : Str) : [sep].intercalate (splitOn sep s) = s := by
  induction s with
  | nil => simp [splitOn, List.intercalate]
  | cons c r ih =>
    unfold splitOn
    split
    · rename_i hc; subst hc
      cases hr : splitOn c r with
      | nil => exact absurd hr (splitOn_ne_nil c r)
      | cons h t => rw [hr] at ih; simp [List.intercalate] at ih ⊢; simpa using ih
    · cases hr : splitOn sep r with
      | nil => exact absurd hr (splitOn_ne_nil sep r)
      | cons h t =>
        rw [hr] at ih
        simp [List.intercalate] at ih ⊢
        cases t with
        | nil => simpa using ih
        | cons h2 t2 => simpa using ih

/-! ### specification -/

/-- Target `t` carries label `lab`: one of its labels equals it, or `lab` ends in the wildcard and one of its
    labels starts with the rest; tests carry the test label implicitly. -/
def Carries (ff : FFacts) (t : Target) (lab : Str) : Prop :=
  (∃ l ∈ t.labels, l = lab ∨ ∃ pre, lab = pre ++ [ff.star] ∧ pre <+: l) ∨ (lab = ff.testLabel ∧ t.isTest = true)

/-- Every label of the comma-separated group is carried. -/
def GroupHolds (ff : FFacts) (t : Target) (g : Str) : Prop := ∀ lab ∈ splitOn ff.sep g, Carries ff t lab

/-- The documented selection rule. -/
def Selected (ff : FFacts) (st : FilterState) (t : Target) : Prop :=
  (st.incl = [] ∨ ∃ g ∈ st.incl, GroupHolds ff t g) ∧
  (¬ ∃ g ∈ st.excl, GroupHolds ff t g) ∧
  (¬ ∃ e ∈ st.excludeTargets, PatternSelects e t.label)

theorem take_length_pred_append (pre : Str) (c : Char) : (pre ++ [c]).take ((pre ++ [c]).length - 1) = pre := by
  simp

theorem matchLabel_iff (ff : FFacts) (p s : Str) :
    matchLabel ff p s = true ↔ s = p ∨ ∃ pre, p = pre ++ [ff.star] ∧ pre <+: s := by
  unfold matchLabel
  simp only [Bool.or_eq_true, Bool.and_eq_true, beq_iff_eq, startsWith_iff]
  constructor
  · rintro (h | ⟨h1, h2⟩)
    · exact Or.inl h.symm
    · right
      rcases List.eq_nil_or_concat p with e | ⟨u, c, e⟩
      · subst e; simp at h1
      · subst e
        simp at h1; subst h1
        refine ⟨u, by simp, ?_⟩
        simpa using h2
  · rintro (h | ⟨pre, rfl, h⟩)
    · exact Or.inl h.symm
    · right; exact ⟨by simp, by simpa using h⟩

theorem hasLabel_iff (ff : FFacts) (t : Target) (lab : Str) : hasLabel ff t lab = true ↔ Carries ff t lab := by
  unfold hasLabel Carries
  simp only [Bool.or_eq_true, List.any_eq_true, matchLabel_iff, Bool.and_eq_true, beq_iff_eq]

theorem groupHolds_iff (ff : FFacts) (t : Target) (g : Str) : groupHolds ff t g = true ↔ GroupHolds ff t g := by
  unfold groupHolds hasAllLabels GroupHolds
  simp only [List.all_eq_true, hasLabel_iff]

theorem shouldIncludeT_iff (ff : FFacts) (h1 : ff.excludeLast = true) (h2 : ff.defaultInclude = true)
    (t : Target) (inc exc : List Str) :
    shouldIncludeT ff t inc exc = true ↔
      (inc = [] ∨ ∃ g ∈ inc, GroupHolds ff t g) ∧ ¬ ∃ g ∈ exc, GroupHolds ff t g := by
  have e1 : (inc.any (groupHolds ff t) = true) ↔ ∃ g ∈ inc, GroupHolds ff t g := by
    simp [List.any_eq_true, groupHolds_iff]
  have e2 : (exc.any (groupHolds ff t) = true) ↔ ∃ g ∈ exc, GroupHolds ff t g := by
    simp [List.any_eq_true, groupHolds_iff]
  rw [← e1, ← e2]
  unfold shouldIncludeT
  simp only [h1, h2, if_true, Bool.true_and]
  by_cases hinc : inc = []
  · subst hinc
    by_cases hexc : exc = []
    · subst hexc; simp
    · have : exc.isEmpty = false := by cases exc <;> simp_all
      generalize exc.any (groupHolds ff t) = B
      cases B <;> simp [this]
  · have : inc.isEmpty = false := by cases inc <;> simp_all
    generalize exc.any (groupHolds ff t) = B
    generalize inc.any (groupHolds ff t) = A
    cases A <;> cases B <;> simp [this, hinc]

/-- `state.ShouldInclude` computes exactly the documented selection. -/
theorem shouldIncludeS_iff (lf : Label.Facts) (ff : FFacts) (hl : lf.includesSlash = true)
    (h1 : ff.excludeLast = true) (h2 : ff.defaultInclude = true) (st : FilterState) (t : Target) :
    shouldIncludeS lf ff st t = true ↔ Selected ff st t := by
  unfold shouldIncludeS Selected
  have e : (st.excludeTargets.any (fun e => includes lf e t.label) = true) ↔ ∃ e ∈ st.excludeTargets, PatternSelects e t.label := by
    simp [List.any_eq_true, includes_iff_patternSelects lf hl]
  rw [← e]
  generalize st.excludeTargets.any (fun e => includes lf e t.label) = X
  cases X
  · simp [shouldIncludeT_iff ff h1 h2]
  · simp

/-- Which packages a pseudo-target names. -/
def PkgSelected (pat : Label) (p : Str) : Prop :=
  if pat.name = allName then (p = pat.pkg ∧ pat.sub = []) else PatternSelects pat ⟨p, [], []⟩

theorem mem_expand_iff (lf : Label.Facts) (ff : FFacts) (hl : lf.includesSlash = true)
    (h1 : ff.excludeLast = true) (h2 : ff.defaultInclude = true) (st : FilterState) (pkgs : List Pkg)
    (pat : Label) (justTests : Bool) (l : Label) :
    l ∈ expand lf ff st pkgs pat justTests ↔
      ∃ p ∈ pkgs, PkgSelected pat p.1 ∧ ∃ t ∈ p.2, t.label = l ∧ Selected ff st t ∧ (justTests = true → t.isTest = true) := by
  unfold expand PkgSelected
  by_cases hn : pat.name = allName
  · simp only [hn, beq_self_eq_true, if_true, List.mem_flatMap, List.mem_filter, List.mem_map,
      Bool.and_eq_true, beq_iff_eq, shouldIncludeS_iff lf ff hl h1 h2, Bool.or_eq_true, Bool.not_eq_true']
    constructor
    · rintro ⟨p, ⟨hp, hs⟩, t, ⟨ht, hsel, hj⟩, rfl⟩
      refine ⟨p, hp, hs, t, ht, rfl, hsel, fun h => ?_⟩
      rcases hj with hj | hj
      · rw [h] at hj; exact absurd hj (by decide)
      · exact hj
    · rintro ⟨p, hp, hs, t, ht, rfl, hsel, hj⟩
      refine ⟨p, ⟨hp, hs⟩, t, ⟨ht, hsel, ?_⟩, rfl⟩
      cases justTests
      · exact Or.inl rfl
      · exact Or.inr (hj rfl)
  · have hb : (pat.name == allName) = false := by simpa using hn
    simp only [hb, hn, if_false, Bool.false_eq_true, List.mem_flatMap, List.mem_filter, List.mem_map,
      Bool.and_eq_true, includes_iff_patternSelects lf hl, shouldIncludeS_iff lf ff hl h1 h2, Bool.or_eq_true,
      Bool.not_eq_true']
    constructor
    · rintro ⟨p, ⟨hp, hs⟩, t, ⟨ht, hsel, hj⟩, rfl⟩
      refine ⟨p, hp, hs, t, ht, rfl, hsel, fun h => ?_⟩
      rcases hj with hj | hj
      · rw [h] at hj; exact absurd hj (by decide)
      · exact hj
    · rintro ⟨p, hp, hs, t, ht, rfl, hsel, hj⟩
      refine ⟨p, ⟨hp, hs⟩, t, ⟨ht, hsel, ?_⟩, rfl⟩
      cases justTests
      · exact Or.inl rfl
      · exact Or.inr (hj rfl)

end PlzVerif.Filter
