import PlzVerif.Lemmas.SchedProgress
/-! C05: recognising a state in which nothing but an external `Stop` can change anything (for the witnesses). -/
namespace PlzVerif.Sched

variable (c : Cfg)

/-- nothing the program can do, and nothing that may arrive from outside except `Stop`, changes the state -/
def Stuck (s : St) : Prop :=
  ¬ Final s ∧ ¬ CanStep c s ∧ (fire c s .cycleCheck = none) ∧
    ∀ a s', fire c s a = some s' → (∃ t f, a = .activate t f ∧ s' = s) ∨ a = .stop

theorem stuck_of {s : St} (hinit : s.initDone = true) (hst : s.stopped = false)
    (hchan : ∀ m, s.chan m = none) (hws : ∀ w, s.ws w = none)
    (hq : ∀ i q, s.qs i = some q → queuerStep c s i q = none ∧ ∀ d r, q.ph ≠ .queueDeps (d :: r))
    (hact : ∀ (t : Nat) f, t < c.n → qrt c s t f = s)
    (hcc : fire c s .cycleCheck = none) : Stuck c s := by
  have key : ∀ a s', fire c s a = some s' → (∃ t f, a = .activate t f ∧ s' = s) ∨ a = .stop := by
    intro a s' hf
    cases a with
    | activate t f =>
      simp only [fire] at hf
      split at hf
      · rename_i ht; cases hf; exact .inl ⟨t, f, rfl, hact t f ht⟩
      · cases hf
    | queuer i =>
      simp only [fire] at hf
      split at hf
      · rename_i q hq'; rw [(hq i q hq').1] at hf; cases hf
      · cases hf
    | queuerAbort i =>
      simp only [fire] at hf
      split at hf
      · rename_i q hq'
        split at hf
        · rename_i d r hph; exact absurd hph ((hq i q hq').2 d r)
        · cases hf
      · cases hf
    | take m => simp [fire, hchan m] at hf
    | drop m => simp [fire, hchan m] at hf
    | workerStart w => simp [fire, hws w] at hf
    | workerOk w ts cd => simp [fire, hws w] at hf
    | workerFail w => simp [fire, hws w] at hf
    | workerDone w => simp [fire, hws w] at hf
    | initDone => simp [fire, hinit] at hf
    | stop => exact .inr rfl
    | subWait t => simp [fire, hinit] at hf
    | cycleCheck => rw [hcc] at hf; cases hf
  have hnf : ¬ Final s := fun hf => by
    have h1 := hf.1; rw [hst] at h1; cases h1
  refine ⟨hnf, ?_, hcc, key⟩
  intro ⟨a, s', hint, hf⟩
  rcases key a s' hf with ⟨t, f, rfl, _⟩ | rfl
  · exact hint
  · exact hint

/-- an indexed family that is `none` below a bound known to be `none` and empty from the fresh index on -/
theorem none_from {α : Type} (f : Nat → Option α) (k : Nat) (hfresh : ∀ i x, f i = some x → i < k)
    (hlow : ∀ i, i < k → f i = none) : ∀ i, f i = none := by
  intro i
  cases h : f i with
  | none => rfl
  | some x => have := hlow i (hfresh i x h); rw [h] at this; cases this

theorem none_from1 {α : Type} (f : Nat → Option α) (hfresh : ∀ i x, f i = some x → i < 1) (h0 : f 0 = none) :
    ∀ i, f i = none :=
  none_from f 1 hfresh (fun i hlt => by
    have : i = 0 := by omega
    subst this
    exact h0)

end PlzVerif.Sched
