import PlzVerif.Model.WriteFile
/-! C32: fs.WriteFile is atomic at its destination for every cut of its operation list. Core only. -/
namespace PlzVerif.WriteFile
set_option linter.unusedSimpArgs false

/-- operations that only touch the temporary -/
def TempOnly (t : String) : Op → Prop
  | .mkdirAll | .close => True
  | .createTemp t' | .write t' _ | .chmod t' _ => t' = t
  | .rename _ _ => False

theorem step_tempOnly {t : String} {op : Op} (h : TempOnly t op) (d : Dir) (x : String) (hx : x ≠ t) : step d op x = d x := by
  cases op <;> simp only [TempOnly] at h <;> simp [step, h, hx]

theorem run_tempOnly {t : String} : ∀ (l : List Op) (d : Dir), (∀ op ∈ l, TempOnly t op) → ∀ x, x ≠ t → run d l x = d x
  | [], _, _, _, _ => rfl
  | op :: l, d, h, x, hx => by
    simp only [run, List.foldl_cons]
    have := run_tempOnly l (step d op) (fun o ho => h o (List.mem_cons_of_mem _ ho)) x hx
    simp only [run] at this
    rw [this, step_tempOnly (h op (List.mem_cons_self ..)) d x hx]

def pre (t : String) (chunks : List (List UInt8)) (mode : Nat) : List Op :=
  [.mkdirAll, .createTemp t] ++ (chunks.map (.write t) ++ [.close, .chmod t (effMode mode)])

theorem ops_eq (t dest : String) (chunks : List (List UInt8)) (mode : Nat) :
    ops t dest chunks mode = pre t chunks mode ++ [.rename t dest] := by
  simp [ops, opsWith, codedCalls, callOps, pre, List.append_assoc]

theorem pre_tempOnly (t : String) (chunks : List (List UInt8)) (mode : Nat) : ∀ op ∈ pre t chunks mode, TempOnly t op := by
  intro op h
  simp only [pre, List.mem_append, List.mem_cons, List.not_mem_nil, or_false, List.mem_map] at h
  rcases h with (rfl | rfl) | ⟨c, _, rfl⟩ | rfl | rfl <;> simp [TempOnly]

theorem run_writes (t : String) : ∀ (chunks : List (List UInt8)) (d : Dir) (f : File), d t = some f →
    run d (chunks.map (.write t)) t = some { f with data := f.data ++ chunks.flatten }
  | [], d, f, h => by simp [run, h]
  | c :: cs, d, f, h => by
    simp only [List.map_cons, run, List.foldl_cons]
    have h' : step d (.write t c) t = some { f with data := f.data ++ c } := by simp [step, h]
    have := run_writes t cs (step d (.write t c)) _ h'
    simp only [run] at this
    rw [this]; simp [List.append_assoc]

/-- the temporary, once everything before the rename has run -/
theorem run_pre_temp (t : String) (chunks : List (List UInt8)) (mode : Nat) (d : Dir) :
    run d (pre t chunks mode) t = some ⟨chunks.flatten, effMode mode⟩ := by
  simp only [pre, run, List.foldl_append, List.foldl_cons, List.foldl_nil]
  have h0 : step (step d .mkdirAll) (.createTemp t) t = some ⟨[], 0o600⟩ := by simp [step]
  have h1 := run_writes t chunks _ _ h0
  simp only [run, List.nil_append] at h1
  generalize hd : List.foldl step (step (step d .mkdirAll) (.createTemp t)) (List.map (Op.write t) chunks) = d2 at h1
  simp [step, h1]

end PlzVerif.WriteFile
