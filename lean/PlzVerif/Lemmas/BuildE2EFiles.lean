import PlzVerif.Lemmas.BuildOn
import PlzVerif.Model.BuildE2E
/-!
A class of repositories on which the pre-images of the end-to-end instance (`BuildE2E.pathSer`, `BuildE2E.ruleSer`:
the path hash ignores names and modes, the rule hash is concatenated unframed) ARE injective, so that
`Lemmas/BuildOn.lean` applies with no unproved hypothesis (C01, `C01_e2e_files`).

* Trees: plain non-executable files (`pathSer (.file c) = c`).  The commands `cat`, `catfirst`, `catn`, `const`,
  `text` and the filegroup `fg` produce nothing else, whatever they read.
* Attribute records: the label, every source and the output name are *words* — strings that end in a terminator
  character (any fixed predicate `term`, e.g. "is a digit" for `//p:t3`, `f7`, `o3`) which occurs nowhere else in
  them — and contain no `\x01`.  Such words form a prefix code, so the unframed concatenation
  `label ++ srcs… ++ out ++ "\x01" ++ cmdTag` can be decoded in exactly one way.
-/
namespace PlzVerif.BuildE2E
open PlzVerif.Build

/-! ### prefix codes over `List Char` -/

/-- `x ++ c :: r` determines `x` and `r` when `c` does not occur in `x`. -/
theorem split_unique {α} (c : α) : ∀ {x x' r r' : List α}, c ∉ x → c ∉ x' → x ++ c :: r = x' ++ c :: r' → x = x' ∧ r = r'
  | [], [], _, _, _, _, h => by simp at h; exact ⟨rfl, h⟩
  | [], b :: x', _, _, _, h', h => by
    simp at h; exact absurd h.1 (by intro e; exact h' (by simp [e]))
  | a :: x, [], _, _, hx, _, h => by
    simp at h; exact absurd h.1.symm (by intro e; exact hx (by simp [e]))
  | a :: x, b :: x', r, r', hx, hx', h => by
    simp only [List.cons_append, List.cons.injEq] at h
    have := split_unique c (x := x) (x' := x') (by intro e; exact hx (List.mem_cons_of_mem _ e))
      (by intro e; exact hx' (List.mem_cons_of_mem _ e)) h.2
    exact ⟨by rw [h.1, this.1], this.2⟩

/-- A word: a body without terminators followed by one terminator. -/
def Word (term : Char → Bool) (w : List Char) : Prop :=
  ∃ body t, w = body ++ [t] ∧ term t = true ∧ ∀ c ∈ body, term c = false

theorem word_ne_nil {term : Char → Bool} {w : List Char} (h : Word term w) : w ≠ [] := by
  obtain ⟨b, t, rfl, _, _⟩ := h; simp

/-- Words form a prefix code. -/
theorem word_prefix_unique {term : Char → Bool} {w w' r r' : List Char} (hw : Word term w) (hw' : Word term w')
    (h : w ++ r = w' ++ r') : w = w' ∧ r = r' := by
  obtain ⟨b, t, rfl, ht, hb⟩ := hw
  obtain ⟨b', t', rfl, ht', hb'⟩ := hw'
  simp only [List.append_assoc, List.singleton_append] at h
  induction b generalizing b' with
  | nil =>
    cases b' with
    | nil => simp at h; exact ⟨by simp [h.1], h.2⟩
    | cons c b'' =>
      simp at h
      have := hb' c (List.mem_cons_self ..)
      rw [← h.1, ht] at this; exact absurd this (by decide)
  | cons a b ih =>
    cases b' with
    | nil =>
      simp at h
      have := hb a (List.mem_cons_self ..)
      rw [h.1, ht'] at this; exact absurd this (by decide)
    | cons c b'' =>
      simp only [List.cons_append, List.cons.injEq] at h
      have := ih (fun x hx => hb x (List.mem_cons_of_mem _ hx)) b'' (fun x hx => hb' x (List.mem_cons_of_mem _ hx)) h.2
      simp only [List.cons_append, List.cons.injEq]
      exact ⟨⟨h.1, by simpa using this.1⟩, this.2⟩

/-- A concatenation of words determines the words. -/
theorem words_flatten_inj {term : Char → Bool} : ∀ {ws ws' : List (List Char)},
    (∀ w ∈ ws, Word term w) → (∀ w ∈ ws', Word term w) → ws.flatten = ws'.flatten → ws = ws'
  | [], [], _, _, _ => rfl
  | [], w :: _, _, h', h => by
    simp at h; exact absurd h.1 (word_ne_nil (h' w (List.mem_cons_self ..)))
  | w :: _, [], h1, _, h => by
    simp at h; exact absurd h.1 (word_ne_nil (h1 w (List.mem_cons_self ..)))
  | w :: ws, w' :: ws', h1, h2, h => by
    simp only [List.flatten_cons] at h
    obtain ⟨e1, e2⟩ := word_prefix_unique (h1 w (List.mem_cons_self ..)) (h2 w' (List.mem_cons_self ..)) h
    rw [e1, words_flatten_inj (fun x hx => h1 x (List.mem_cons_of_mem _ hx)) (fun x hx => h2 x (List.mem_cons_of_mem _ hx)) e2]

/-! ### the domains -/

def sep : Char := '\x01'

/-- Outputs that are plain, non-executable files. -/
def IsFile : Tree → Prop
  | .file _ => True
  | _ => False

/-- Commands whose output is a plain file whatever they read. -/
def fileCmd : Cmd → Bool
  | .cat | .catfirst | .catn | .fg | .const _ | .text _ => true
  | _ => false

/-- A string usable as label, source or output name: a word without `\x01`. -/
def GoodWord (term : Char → Bool) (s : String) : Prop := Word term s.toList ∧ sep ∉ s.toList

/-- Attribute records whose unframed rule pre-image is uniquely decodable. -/
def DAttrs (term : Char → Bool) (a : Attrs) : Prop :=
  fileCmd a.cmd = true ∧ GoodWord term a.label ∧ (∀ s ∈ a.srcs, GoodWord term s) ∧ GoodWord term a.out

theorem pathSer_inj_files : InjPOn pathSer IsFile := by
  intro c c' hc hc' h
  cases c <;> cases c' <;> simp_all [IsFile, pathSer]

theorem exec_closed_files (term : Char → Bool) : ExecClosed exec (DAttrs term) IsFile := by
  intro a ins ha _
  obtain ⟨hcmd, _⟩ := ha
  unfold exec
  cases hc : a.cmd <;> simp_all [fileCmd, IsFile]

/-- On plain files the coded move (`mvE2E`) is `mvCoded`, which is fine. -/
theorem mvE2E_ok_files : MvOKOn mvE2E pathSer IsFile := by
  intro old new _ hn
  cases new <;> simp [IsFile] at hn
  exact mvCoded_ok generatedFacts pathSer old _

/-! ### the rule pre-image is injective on `DAttrs` -/

theorem cmdTag_inj_file {c c' : Cmd} (h1 : fileCmd c = true) (h2 : fileCmd c' = true)
    (h : (cmdTag c).toList = (cmdTag c').toList) : c = c' := by
  have kc : "const:".toList = ['c', 'o', 'n', 's', 't', ':'] := by decide
  have kt : "text:".toList = ['t', 'e', 'x', 't', ':'] := by decide
  have k1 : "cat".toList = ['c', 'a', 't'] := by decide
  have k2 : "catfirst".toList = ['c', 'a', 't', 'f', 'i', 'r', 's', 't'] := by decide
  have k3 : "catn".toList = ['c', 'a', 't', 'n'] := by decide
  have k4 : "fg".toList = ['f', 'g'] := by decide
  cases c <;> cases c' <;> simp only [fileCmd] at h1 h2 <;> try (exact absurd h1 (by decide)) <;> try (exact absurd h2 (by decide))
  all_goals (simp only [cmdTag, String.toList_append, kc, kt, k1, k2, k3, k4] at h)
  all_goals (first
    | rfl
    | (exfalso; revert h; simp; done)
    | (simp at h; rw [String.toList_inj.mp h]))

theorem ruleSer_toList (a : Attrs) :
    (ruleSer a).toList =
      ((a.label.toList :: a.srcs.map String.toList ++ [a.out.toList]).flatten) ++ sep :: (cmdTag a.cmd).toList := by
  have ks : "\x01".toList = [sep] := by decide
  simp [ruleSer, String.toList_append, String.toList_join, ks, List.flatMap, List.flatten_append]

theorem sep_not_mem_flatten {ws : List (List Char)} (h : ∀ w ∈ ws, sep ∉ w) : sep ∉ ws.flatten := by
  intro hm
  rw [List.mem_flatten] at hm
  obtain ⟨w, hw, hs⟩ := hm
  exact h w hw hs

theorem ruleSer_inj_on (term : Char → Bool) : InjROn ruleSer (DAttrs term) := by
  intro a a' ha ha' h
  obtain ⟨hc, hl, hs, ho⟩ := ha
  obtain ⟨hc', hl', hs', ho'⟩ := ha'
  have h' := congrArg String.toList h
  rw [ruleSer_toList, ruleSer_toList] at h'
  have wds : ∀ w ∈ (a.label.toList :: a.srcs.map String.toList ++ [a.out.toList]), Word term w ∧ sep ∉ w := by
    intro w hw
    simp at hw
    rcases hw with rfl | ⟨s, hs1, rfl⟩ | rfl
    · exact hl
    · exact hs s hs1
    · exact ho
  have wds' : ∀ w ∈ (a'.label.toList :: a'.srcs.map String.toList ++ [a'.out.toList]), Word term w ∧ sep ∉ w := by
    intro w hw
    simp at hw
    rcases hw with rfl | ⟨s, hs1, rfl⟩ | rfl
    · exact hl'
    · exact hs' s hs1
    · exact ho'
  obtain ⟨hx, htag⟩ := split_unique sep (sep_not_mem_flatten fun w hw => (wds w hw).2)
    (sep_not_mem_flatten fun w hw => (wds' w hw).2) h'
  have hcmd := cmdTag_inj_file hc hc' htag
  have hws := words_flatten_inj (fun w hw => (wds w hw).1) (fun w hw => (wds' w hw).1) hx
  simp only [List.cons_append, List.cons.injEq] at hws
  obtain ⟨e1, e2⟩ := hws
  have e3 := List.append_inj' e2 (by simp)
  have hsr : a.srcs = a'.srcs := by
    have := e3.1
    exact map_inj (fun x y hxy => String.toList_inj.mp hxy) this
  have hout : a.out = a'.out := String.toList_inj.mp (by simpa using e3.2)
  have hlab : a.label = a'.label := String.toList_inj.mp e1
  cases a; cases a'; simp_all

end PlzVerif.BuildE2E
