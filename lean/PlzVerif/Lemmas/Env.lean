import PlzVerif.Model.Env
import PlzVerif.Lemmas.RuleHash
/-!
Lemmas for C10: which part of the invoking shell's environment can reach the build environment, the rule hash
and the config hash.

`Agree names c c'`: the two callers give the same answer to `os.LookupEnv` for every name in `names`.
* `getBuildEnv_agree`, `targetEnv_agree`, `buildEnvironment_agree`: the environment functions only look at the
  names in `visible cfg t` (and at `HOME` when the target has secrets — the leak).
* `ruleSer_agree`, `configSer_agree`: the hashes only look at `pass_env` names.
-/
namespace PlzVerif.Env
open PlzVerif.RuleHash

def Agree (names : List Bytes) (c c' : Caller) : Prop := ∀ k ∈ names, lookup k c = lookup k c'

theorem Agree.mono {a b : List Bytes} {c c' : Caller} (h : Agree b c c') (hs : ∀ k ∈ a, k ∈ b) : Agree a c c' :=
  fun k hk => h k (hs k hk)

theorem Agree.getenv {names : List Bytes} {c c' : Caller} (h : Agree names c c') {k : Bytes} (hk : k ∈ names) :
    getenv c k = getenv c' k := by
  simp only [Env.getenv, h k hk]

theorem foldl_congr_mem {α β : Type} {f g : β → α → β} : ∀ (l : List α) (b : β),
    (∀ x ∈ l, ∀ a, f a x = g a x) → l.foldl f b = l.foldl g b
  | [], _, _ => rfl
  | x :: r, b, h => by
    simp only [List.foldl_cons]
    rw [h x (List.mem_cons_self ..) b]
    exact foldl_congr_mem r _ (fun y hy a => h y (List.mem_cons_of_mem _ hy) a)

theorem addEnv_agree (cfg : Cfg) {c c' : Caller} (vars : List Bytes) (h : Agree vars c c') (st : Env × Bool) :
    addEnv cfg c vars st = addEnv cfg c' vars st := by
  unfold addEnv
  apply foldl_congr_mem
  intro k hk a
  simp only [h k hk]

theorem getBuildEnv_agree (cfg : Cfg) {c c' : Caller} (ip iu : Bool)
    (h : Agree (cfg.passEnv ++ cfg.passUnsafeEnv) c c') : getBuildEnv cfg c ip iu = getBuildEnv cfg c' ip iu := by
  unfold getBuildEnv
  have h1 : Agree cfg.passEnv c c' := h.mono (fun k hk => List.mem_append_left _ hk)
  have h2 : Agree cfg.passUnsafeEnv c c' := h.mono (fun k hk => List.mem_append_right _ hk)
  simp only [addEnv_agree cfg _ h1, addEnv_agree cfg _ h2]

/-- The config-hash pre-image only sees `[build] passenv` names. -/
theorem getBuildEnv_hash_agree (cfg : Cfg) {c c' : Caller} (h : Agree cfg.passEnv c c') :
    getBuildEnv cfg c false false = getBuildEnv cfg c' false false := by
  unfold getBuildEnv
  simp only [addEnv_agree cfg _ h, Bool.false_eq_true, if_false]

theorem configSer_agree (cfg : Cfg) {c c' : Caller} (h : Agree cfg.passEnv c c') : configSer cfg c = configSer cfg c' := by
  unfold configSer
  rw [getBuildEnv_hash_agree cfg h]

theorem generalEnv_agree (cfg : Cfg) {c c' : Caller} (h : Agree (cfg.passEnv ++ cfg.passUnsafeEnv) c c') :
    generalEnv cfg c = generalEnv cfg c' := by
  unfold generalEnv
  rw [getBuildEnv_agree cfg true true h]

theorem visible_cfg (cfg : Cfg) (t : Target) : ∀ k ∈ cfg.passEnv ++ cfg.passUnsafeEnv, k ∈ visible cfg t := by
  intro k hk
  simp only [visible, List.mem_append] at hk ⊢
  rcases hk with hk | hk
  · exact Or.inl (Or.inl (Or.inl hk))
  · exact Or.inl (Or.inl (Or.inr hk))

theorem passFold_agree {names : List Bytes} {c c' : Caller} (l : List Bytes) (hl : ∀ k ∈ l, k ∈ names)
    (h : Agree names c c') (env : Env) :
    l.foldl (fun acc e => acc.set e (getenv c e)) env = l.foldl (fun acc e => acc.set e (getenv c' e)) env := by
  apply foldl_congr_mem
  intro k hk a
  rw [h.getenv (hl k hk)]

theorem targetEnv_agree (cfg : Cfg) (t : Target) (d : Derived) {c c' : Caller} (h : Agree (visible cfg t) c c') :
    targetEnv cfg t d c = targetEnv cfg t d c' := by
  unfold targetEnv
  rw [generalEnv_agree cfg (h.mono (visible_cfg cfg t))]
  have hu : ∀ l, t.passUnsafeEnv = some l → ∀ k ∈ l, k ∈ visible cfg t := by
    intro l hl k hk; simp [visible, hl, hk]
  have hp : ∀ l, t.passEnv = some l → ∀ k ∈ l, k ∈ visible cfg t := by
    intro l hl k hk; simp [visible, hl, hk]
  cases hpu : t.passUnsafeEnv <;> cases hpe : t.passEnv <;> simp only
  · rw [passFold_agree _ (hp _ hpe) h]
  · rw [passFold_agree _ (hu _ hpu) h]
  · rw [passFold_agree _ (hu _ hpu) h, passFold_agree _ (hp _ hpe) h]

theorem expandHome_agree {c c' : Caller} (hh : getenv c [72, 79, 77, 69] = getenv c' [72, 79, 77, 69]) (p : Bytes) :
    expandHome c p = expandHome c' p := by
  unfold expandHome
  rw [hh]

/-- Everything the action's environment takes from the caller: the visible names, and `HOME` if there are secrets. -/
theorem preUserEnv_agree (cfg : Cfg) (t : Target) (d : Derived) {c c' : Caller} (h : Agree (visible cfg t) c c')
    (hh : (t.secrets = [] ∧ t.namedSecrets = [] ∧ t.tools = [] ∧ t.namedTools = []) ∨
          getenv c [72, 79, 77, 69] = getenv c' [72, 79, 77, 69]) :
    preUserEnv cfg t d c = preUserEnv cfg t d c' := by
  unfold preUserEnv
  rw [targetEnv_agree cfg t d h]
  rcases hh with ⟨h1, h2, h3, h4⟩ | hh
  · simp [h1, h2, h3, h4, keysOrder, isort]
  · have e : expandHome c = expandHome c' := funext (expandHome_agree hh)
    simp only [e]

/-- Everything the action's environment takes from the caller: the visible names, and `HOME` if there are secrets / tools. -/
theorem buildEnvironment_agree (S : Bool) (cfg : Cfg) (t : Target) (d : Derived) {c c' : Caller} (h : Agree (visible cfg t) c c')
    (hh : (t.secrets = [] ∧ t.namedSecrets = [] ∧ t.tools = [] ∧ t.namedTools = []) ∨
          getenv c [72, 79, 77, 69] = getenv c' [72, 79, 77, 69]) :
    buildEnvironment S cfg t d c = buildEnvironment S cfg t d c' := by
  unfold buildEnvironment
  rw [preUserEnv_agree cfg t d h hh]

/-- The part before `withUserProvidedEnv` does not look at `target.Env`. -/
theorem preUserEnv_env (cfg : Cfg) (t : Target) (d : Derived) (c : Caller) (e' : List (Bytes × Bytes)) :
    preUserEnv cfg { t with env := e' } d c = preUserEnv cfg t d c := rfl

/-! ### the rule hash only reads the caller through `pass_env` -/

theorem passEnv_flatMap_agree (sep : Bytes) (c c' : Ctx) : ∀ (l : List Bytes), (∀ e ∈ l, c.getenv e = c'.getenv e) →
    (l.flatMap fun e => e ++ sep ++ c.getenv e) = (l.flatMap fun e => e ++ sep ++ c'.getenv e)
  | [], _ => rfl
  | e :: r, h => by
    simp only [List.flatMap_cons]
    rw [h e (List.mem_cons_self ..), passEnv_flatMap_agree sep c c' r (fun x hx => h x (List.mem_cons_of_mem _ hx))]

theorem serGuarded_env_agree (F : Facts) (c c' : Ctx) (v : View) (hcfg : c.runtime = c'.runtime)
    (h : ∀ l, v.passEnv = some l → ∀ e ∈ l, c.getenv e = c'.getenv e) (gi : Guard × Item) :
    serGuarded F c v gi = serGuarded F c' v gi := by
  obtain ⟨g, i⟩ := gi
  have hg : guardOn c v g = guardOn c' v g := by cases g <;> simp [guardOn, hcfg]
  simp only [serGuarded, hg]
  split
  · cases i <;> simp only [serItem]
    cases hp : v.passEnv with
    | none => rfl
    | some l => exact passEnv_flatMap_agree _ c c' l (h l hp)
  · rfl

/-- Two contexts that differ only in the caller's environment, and agree on the target's `pass_env` names,
    give the same rule-hash pre-image. -/
theorem ruleSer_agree (F : Facts) (c : Ctx) (env env' : Caller) (t : Target)
    (h : Agree (t.passEnv.getD []) env env') :
    ruleSer F { c with environ := env } t = ruleSer F { c with environ := env' } t := by
  unfold ruleSer
  have hv : view F { c with environ := env } t = view F { c with environ := env' } t := rfl
  rw [hv]
  unfold serView
  apply flatMap_congr_mem
  intro gi _
  refine serGuarded_env_agree F { c with environ := env } { c with environ := env' } _ rfl ?_ gi
  intro l hl e he
  have hl' : t.passEnv = some l := hl
  have : e ∈ t.passEnv.getD [] := by simp [hl', he]
  simp only [Ctx.getenv, h e this]

end PlzVerif.Env

namespace PlzVerif.Env
open PlzVerif.RuleHash

/-! ### `target.Env` without `$`: the result, read as a map, does not depend on the iteration order -/

theorem lookup_set (e : Env) (k k' v : Bytes) : lookup k (Env.set e k' v) = if k = k' then some v else lookup k e := by
  induction e with
  | nil => simp only [Env.set, lookup]
  | cons x r ih =>
    obtain ⟨k0, v0⟩ := x
    simp only [Env.set]
    by_cases h0 : k' = k0
    · subst h0
      simp only [if_true, lookup]
      by_cases h1 : k = k' <;> simp [h1]
    · simp only [h0, if_false, lookup, ih]
      by_cases h1 : k = k0
      · subst h1
        have : ¬ k = k' := fun e => h0 e.symm
        simp [this]
      · simp [h1]

/-- Plain (no `$`) user entries: `withUserEnv` is a sequence of `set`s. -/
theorem withUserEnv_plain : ∀ (l : List (Bytes × Bytes)) (env : Env), (∀ kv ∈ l, kv.2.contains 36 = false) →
    withUserEnv false l env = l.foldl (fun acc kv => Env.set acc kv.1 kv.2) env := by
  intro l env h
  simp only [withUserEnv, keysOrder, Bool.false_eq_true, if_false]
  apply foldl_congr_mem
  intro kv hkv acc
  simp only [h kv hkv, Bool.false_eq_true, if_false]

theorem lookup_none_of_not_mem (k : Bytes) : ∀ (r : List (Bytes × Bytes)), k ∉ r.map (·.1) → lookup k r = none
  | [], _ => rfl
  | (ky, vy) :: s, h => by
    simp only [List.map_cons, List.mem_cons, not_or] at h
    simp only [lookup, h.1, if_false]
    exact lookup_none_of_not_mem k s h.2

theorem lookup_foldl_set (k : Bytes) : ∀ (l : List (Bytes × Bytes)) (env : Env), KeysNodup l →
    lookup k (l.foldl (fun acc kv => Env.set acc kv.1 kv.2) env) =
      (match lookup k l with | some v => some v | none => lookup k env)
  | [], env, _ => by simp [lookup]
  | (k0, v0) :: r, env, hn => by
    simp only [KeysNodup, List.map_cons, List.nodup_cons] at hn
    simp only [List.foldl_cons]
    rw [lookup_foldl_set k r _ hn.2]
    simp only [lookup]
    by_cases h : k = k0
    · subst h
      simp [lookup_none_of_not_mem k r hn.1, lookup_set]
    · simp only [h, if_false, lookup_set]

/-- Read as a map, the environment after plain user entries is independent of their order. -/
theorem withUserEnv_perm_lookup {l l' : List (Bytes × Bytes)} (p : l'.Perm l) (hn : KeysNodup l)
    (hd : ∀ kv ∈ l, kv.2.contains 36 = false) (env : Env) (k : Bytes) :
    lookup k (withUserEnv false l' env) = lookup k (withUserEnv false l env) := by
  have hd' : ∀ kv ∈ l', kv.2.contains 36 = false := fun kv hkv => hd kv (p.subset hkv)
  rw [withUserEnv_plain l env hd, withUserEnv_plain l' env hd', lookup_foldl_set k l env hn,
    lookup_foldl_set k l' env (hn.perm p.symm), lookup_perm k hn p.symm]

/-- With the key sort, the whole function is independent of the map's iteration order. -/
theorem withUserEnv_sorted_perm {l l' : List (Bytes × Bytes)} (p : l'.Perm l) (hn : KeysNodup l) (env : Env) :
    withUserEnv true l' env = withUserEnv true l env := by
  simp only [withUserEnv]
  rw [keysOrder_perm (hn.perm p.symm) p]

end PlzVerif.Env
