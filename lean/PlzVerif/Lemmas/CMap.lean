import PlzVerif.Model.CMap
/-! Lemmas for C15: association-list algebra, the forward simulation `Step ⟶ AStep`, the wake-up invariant
and the `GetOrSet` invariant.  Core Lean only. -/
namespace PlzVerif.CMap

variable {V : Type}

/-! ### association lists -/
namespace AMap

theorem get_put (m : AMap V) (k k' : Key) (e : Entry V) :
    (m.put k e).get k' = if k' = k then some e else m.get k' := by
  induction m with
  | nil => simp only [put, get]; by_cases h : k = k' <;> simp [h, eq_comm]
  | cons p r ih =>
    obtain ⟨k0, e0⟩ := p
    simp only [put]
    by_cases h0 : k0 = k
    · subst h0; simp only [if_pos, get]
      by_cases h1 : k0 = k'
      · subst h1; simp
      · have : ¬ k' = k0 := fun h => h1 h.symm
        simp [h1, this]
    · simp only [h0, if_false, get]
      by_cases h1 : k0 = k'
      · subst h1; simp [h0]
      · simp [h1, ih]

end AMap

/-! ### the shared memory -/
namespace Shared
variable (c : Cfg V)

@[simp] theorem lookup_store (σ : Shared V) (k k' : Key) (e : Entry V) :
    (σ.store c k e).lookup c k' = if k' = k then some e else σ.lookup c k' := by
  unfold lookup store
  by_cases hi : c.idx k' = c.idx k
  · simp only [hi, upd_same, AMap.get_put]
  · have hk : ¬ k' = k := fun h => hi (by rw [h])
    simp [upd_other _ _ _ _ hi, hk]

@[simp] theorem lookup_storeVal (σ : Shared V) (k k' : Key) (v : V) :
    (σ.storeVal c k v).lookup c k' = if k' = k then some (.val v) else σ.lookup c k' := by
  unfold storeVal; exact lookup_store c σ k k' (.val v)

@[simp] theorem storeVal_closed (σ : Shared V) (k v) : (σ.storeVal c k v).closed = σ.closed := rfl
@[simp] theorem storeVal_nextCh (σ : Shared V) (k v) : (σ.storeVal c k v).nextCh = σ.nextCh := rfl
@[simp] theorem storeVal_chanKey (σ : Shared V) (k v) : (σ.storeVal c k v).chanKey = σ.chanKey := rfl
@[simp] theorem storeVal_stored (σ : Shared V) (k v) :
    (σ.storeVal c k v).stored = upd σ.stored k (v :: σ.stored k) := rfl
@[simp] theorem store_closed (σ : Shared V) (k e) : (σ.store c k e).closed = σ.closed := rfl
@[simp] theorem store_nextCh (σ : Shared V) (k e) : (σ.store c k e).nextCh = σ.nextCh := rfl
@[simp] theorem store_chanKey (σ : Shared V) (k e) : (σ.store c k e).chanKey = σ.chanKey := rfl
@[simp] theorem store_stored (σ : Shared V) (k e) : (σ.store c k e).stored = σ.stored := rfl
@[simp] theorem lookup_mk_shards (σ : Shared V) (a : Chan) (b : List Chan) (d : Chan → Option Key) (e : Key → List V) (k) :
    (Shared.mk σ.shards a b d e).lookup c k = σ.lookup c k := rfl

@[simp] theorem lookup_closed_irrel (σ : Shared V) (l : List Chan) (k) :
    ({ σ with closed := l } : Shared V).lookup c k = σ.lookup c k := rfl

end Shared

/-! ### the slow path alone already is the atomic `Get` (this is what the re-check under the write lock buys) -/
section
variable [Inhabited V] (c : Cfg V)

theorem specGet_eq_slow (σ : Shared V) (k : Key) (full : Bool) :
    specGet c σ k full =
      ((csGetSlow c σ k).1, getRet full (csGetSlow c σ k).2.1 (csGetSlow c σ k).2.2.1 (csGetSlow c σ k).2.2.2) := by
  unfold specGet csGetFast csGetSlow
  cases h : σ.lookup c k with
  | none => simp
  | some e => simp

theorem specGet_of_fast (σ : Shared V) (k : Key) (full : Bool) (v w) (h : csGetFast c σ k = some (v, w)) :
    specGet c σ k full = (σ, getRet full v w false) := by
  unfold specGet; rw [h]

end

/-! ### forward simulation: the abstraction function -/

def absPC : PC V → APC V
  | .idle => .idle
  | .set k v false => .pend (.add k v)
  | .set k v true => .pend (.set k v)
  | .lazy k v => .pend (.addOrGet k v)
  | .getFast k true => .pend (.getOrWait k)
  | .getFast k false => .pend (.get k)
  | .getSlow k true => .pend (.getOrWait k)
  | .getSlow k false => .pend (.get k)
  | .contains k => .pend (.contains k)
  | .values i acc => .vpend i acc
  | .done r => .done r

def abs (s : Sys V) : ASys V := ⟨s.sh, fun t => absPC (s.pc t)⟩

theorem absPC_start (op : Op V) : absPC (startPC op) = astartPC op := by
  cases op <;> rfl

theorem abs_upd (s : Sys V) (t : Tid) (p : PC V) :
    (fun t' => absPC (upd s.pc t p t')) = upd (fun t' => absPC (s.pc t')) t (absPC p) := by
  funext t'; by_cases h : t' = t <;> simp [upd, h]

section Sim
variable [Inhabited V] (c : Cfg V)

theorem abs_mk (s : Sys V) (sh' : Shared V) (t : Tid) (p : PC V) (cl' fr') :
    abs (Sys.mk sh' (upd s.pc t p) cl' fr') = ASys.mk sh' (upd (abs s).th t (absPC p)) := by
  simp only [abs, abs_upd]

theorem abs_cl (s : Sys V) (cl' fr') : abs (Sys.mk s.sh s.pc cl' fr') = abs s := rfl

theorem upd_self {α} (f : Nat → α) (i : Nat) (v : α) (h : f i = v) : upd f i v = f := by
  funext j; by_cases hj : j = i <;> simp [upd, hj, h]

/-- zero or one atomic steps with the same label -/
inductive AStep01 : ASys V → Option (Ev V) → ASys V → Prop
  | stutter (a) : AStep01 a none a
  | one {a l a'} : AStep c false a l a' → AStep01 a l a'

/-- **Forward simulation.** Every step of the implementation is matched by at most one step of the atomic
    automaton with the same call/return label; the linearization point is the critical section that
    produces the result (`setCS`, `lazyCS`, `getFastHit`, `getSlowCS`, `containsCS`, each `valuesCS`);
    a fast-path miss is a stutter. -/
theorem step_sim {s s' : Sys V} {l} (h : Step c s l s') : AStep01 c (abs s) l (abs s') := by
  cases h with
  | invoke t op hpc hcl =>
    rw [abs_mk, absPC_start]
    exact .one (AStep.inv (abs s) t op (by simp [abs, hpc, absPC]))
  | setCS t k v ow hpc =>
    rw [abs_mk]
    cases ow with
    | false => exact .one (AStep.lin (abs s) t (.add k v) (by simp [abs, hpc, absPC]))
    | true => exact .one (AStep.lin (abs s) t (.set k v) (by simp [abs, hpc, absPC]))
  | lazyCS t k v hpc =>
    rw [abs_mk]
    exact .one (AStep.lin (abs s) t (.addOrGet k v) (by simp [abs, hpc, absPC]))
  | getFastHit t k full v w hpc hf =>
    rw [abs_mk]
    cases full with
    | false =>
      have := AStep.lin (c := c) (strong := false) (abs s) t (.get k) (by simp [abs, hpc, absPC])
      simp only [apply, specGet_of_fast c _ _ _ _ _ hf, abs] at this
      exact .one this
    | true =>
      have := AStep.lin (c := c) (strong := false) (abs s) t (.getOrWait k) (by simp [abs, hpc, absPC])
      simp only [apply, specGet_of_fast c _ _ _ _ _ hf, abs] at this
      exact .one this
  | getFastMiss t k full hpc hf =>
    rw [abs_mk, upd_self]
    · exact .stutter _
    · cases full <;> simp [abs, hpc, absPC]
  | getSlowCS t k full hpc =>
    rw [abs_mk]
    cases full with
    | false =>
      have := AStep.lin (c := c) (strong := false) (abs s) t (.get k) (by simp [abs, hpc, absPC])
      simp only [apply, specGet_eq_slow, abs] at this
      exact .one this
    | true =>
      have := AStep.lin (c := c) (strong := false) (abs s) t (.getOrWait k) (by simp [abs, hpc, absPC])
      simp only [apply, specGet_eq_slow, abs] at this
      exact .one this
  | containsCS t k hpc =>
    rw [abs_mk]
    exact .one (AStep.lin (abs s) t (.contains k) (by simp [abs, hpc, absPC]))
  | valuesCS t i acc hpc hi =>
    rw [abs_mk]
    exact .one (AStep.vlin (abs s) t i acc (by simp [abs, hpc, absPC]) hi)
  | valuesEnd t i acc hpc hi =>
    rw [abs_mk]
    exact .one (AStep.vend (abs s) t i acc (by simp [abs, hpc, absPC]) hi)
  | ret t r hpc hcl =>
    rw [abs_mk]
    exact .one (AStep.ret (abs s) t r (by simp [abs, hpc, absPC]))
  | awaitStart t ch hpc hcl => rw [abs_cl]; exact .stutter _
  | awaitWake t ch hcl hch => rw [abs_cl]; exact .stutter _
  | gosStart t k fv hpc hcl =>
    rw [abs_mk]
    exact .one (AStep.inv (abs s) t (.getOrWait k) (by simp [abs, hpc, absPC]))
  | gosRet1 t k fv v w first hpc hcl =>
    rw [abs_mk]
    exact .one (AStep.ret (abs s) t (.gw v w first) (by simp [abs, hpc, absPC]))
  | gosRunF t k fv hpc hcl =>
    rw [abs_mk]
    exact .one (AStep.inv (abs s) t (.set k fv) (by simp [abs, hpc, absPC]))
  | gosRet2 t k fv r hpc hcl =>
    rw [abs_mk]
    exact .one (AStep.ret (abs s) t r (by simp [abs, hpc, absPC]))
  | gosWake t k ch hpc hcl hch =>
    rw [abs_mk]
    exact .one (AStep.inv (abs s) t (.get k) (by simp [abs, hpc, absPC]))
  | gosRet3 t k v hpc hcl =>
    rw [abs_mk]
    exact .one (AStep.ret (abs s) t (.val v) (by simp [abs, hpc, absPC]))
  | gosDone t v hpc hcl => rw [abs_cl]; exact .stutter _

theorem aexec_snoc01 {a0 a a' : ASys V} {tr l} (h : AExec c false a0 tr a) (h1 : AStep01 c a l a') :
    AExec c false a0 (tr ++ l.toList) a' := by
  cases h1 with
  | stutter => simpa using h
  | one hs =>
    cases l with
    | none => simpa using AExec.tau h hs
    | some e => simpa using AExec.ev h hs

/-- Trace inclusion: whatever the implementation can do, the atomic automaton can do with the same history. -/
theorem exec_sim {s0 s : Sys V} {tr} (h : Exec c s0 tr s) : AExec c false (abs s0) tr (abs s) := by
  induction h with
  | nil => exact .nil _
  | tau _ hs ih => simpa using aexec_snoc01 c ih (step_sim c hs)
  | ev _ hs ih => simpa using aexec_snoc01 c ih (step_sim c hs)

end Sim

end PlzVerif.CMap
