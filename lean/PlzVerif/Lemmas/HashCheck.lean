import PlzVerif.Model.HashCheck
/-! Lemmas about the hash-verification model (C35). -/
namespace PlzVerif.HashCheck

/-! ### UnprefixedHashes -/

theorem afterLastColon_none_iff (h : Str) : afterLastColon h = none ↔ ':' ∉ h := by
  induction h with
  | nil => simp [afterLastColon]
  | cons c cs ih =>
    simp only [afterLastColon]
    cases hr : afterLastColon cs with
    | some t =>
      have : ¬ (':' ∉ cs) := fun hn => by rw [ih.mpr hn] at hr; cases hr
      simp only [List.mem_cons, not_or]
      constructor
      · intro h; cases h
      · intro h; exact absurd h.2 this
    | none =>
      have hn := ih.mp hr
      by_cases hc : c = ':'
      · simp [hc]
      · simp only [hc, if_false, List.mem_cons, not_or, true_iff]
        exact ⟨fun e => hc e.symm, hn⟩

theorem afterLastColon_no_colon {h t : Str} (e : afterLastColon h = some t) : ':' ∉ t := by
  induction h with
  | nil => simp [afterLastColon] at e
  | cons c cs ih =>
    simp only [afterLastColon] at e
    cases hr : afterLastColon cs with
    | some t' => rw [hr] at e; cases e; exact ih hr
    | none =>
      rw [hr] at e
      by_cases hc : c = ':'
      · simp only [hc, if_true, Option.some.injEq] at e; subst e
        exact (afterLastColon_none_iff cs).mp hr
      · simp [hc] at e

theorem afterLastColon_append (p v : Str) (hv : ':' ∉ v) : afterLastColon (p ++ ':' :: v) = some v := by
  induction p with
  | nil => simp [afterLastColon, (afterLastColon_none_iff v).mpr hv]
  | cons c cs ih => simp [afterLastColon, ih]

theorem mem_trimSpace {c : Char} {t : Str} (h : c ∈ trimSpace t) : c ∈ t := by
  unfold trimSpace trimRight trimLeft at h
  have h1 := List.mem_reverse.mp h
  have h2 := (List.dropWhile_suffix isSpace).subset h1
  have h3 := List.mem_reverse.mp h2
  exact (List.dropWhile_suffix isSpace).subset h3

theorem unprefix_no_colon (h : Str) (hc : ':' ∈ h) : ':' ∉ unprefix .asCoded h := by
  unfold unprefix
  simp only [UFacts.asCoded, if_true]
  cases hr : afterLastColon h with
  | none => exact absurd hc ((afterLastColon_none_iff h).mp hr)
  | some t => exact fun hm => afterLastColon_no_colon hr (mem_trimSpace hm)

/-- A value without a colon is taken as it is — in particular it is NOT trimmed. -/
theorem unprefix_of_no_colon (h : Str) (hc : ':' ∉ h) : unprefix .asCoded h = h := by
  unfold unprefix
  simp [UFacts.asCoded, (afterLastColon_none_iff h).mpr hc]

/-- Unprefixing is idempotent: verifying again — in particular on a list that an aliasing `UnprefixedHashes` had
    overwritten in place — gives the same decision. -/
theorem unprefix_idem (h : Str) : unprefix .asCoded (unprefix .asCoded h) = unprefix .asCoded h := by
  by_cases hc : ':' ∈ h
  · exact unprefix_of_no_colon _ (unprefix_no_colon h hc)
  · rw [unprefix_of_no_colon h hc, unprefix_of_no_colon h hc]

/-- `unprefix` does not look at the aliasing fact. -/
theorem unprefix_alias_irrel (f : UFacts) (b : Bool) (h : Str) : unprefix { f with alias := b } h = unprefix f h := rfl

theorem unprefixedHashes_idem (b : Bool) (hs : List Str) :
    (unprefixedHashes { UFacts.asCoded with alias := b } (unprefixedHashes { UFacts.asCoded with alias := b } hs).2).1 =
      (unprefixedHashes { UFacts.asCoded with alias := b } hs).1 := by
  cases b
  · simp [unprefixedHashes, UFacts.asCoded]
  · simp only [unprefixedHashes, UFacts.asCoded, if_true, List.map_map]
    apply List.map_congr_left
    intro a _
    exact unprefix_idem a

theorem dropWhile_all {p : Char → Bool} (ws v : Str) (h : ∀ c ∈ ws, p c = true) :
    (ws ++ v).dropWhile p = v.dropWhile p := by
  induction ws with
  | nil => rfl
  | cons c cs ih =>
    have hc : p c = true := h c (by simp)
    simp only [List.cons_append, List.dropWhile_cons, hc, if_true]
    exact ih (fun x hx => h x (by simp [hx]))

theorem dropWhile_head {p : Char → Bool} (v : Str) (h : ∀ c, v.head? = some c → p c = false) : v.dropWhile p = v := by
  cases v with
  | nil => rfl
  | cons c cs => simp [h c rfl]

/-- First and last character (if any) are not white space. -/
def Clean (v : Str) : Prop :=
  (∀ c, v.head? = some c → isSpace c = false) ∧ (∀ c, v.getLast? = some c → isSpace c = false)

theorem trimSpace_pad (ws1 v ws2 : Str) (h1 : ∀ c ∈ ws1, isSpace c = true) (h2 : ∀ c ∈ ws2, isSpace c = true)
    (hv : Clean v) : trimSpace (ws1 ++ v ++ ws2) = v := by
  unfold trimSpace trimLeft trimRight
  by_cases hnil : v = []
  · subst hnil
    have : (ws1 ++ [] ++ ws2).dropWhile isSpace = [] := by
      rw [List.append_nil, ← List.append_nil (ws1 ++ ws2)]
      rw [dropWhile_all (ws1 ++ ws2) [] (by
        intro c hc; rcases List.mem_append.mp hc with h | h
        · exact h1 c h
        · exact h2 c h)]
      rfl
    rw [this]; rfl
  · rw [List.append_assoc, dropWhile_all ws1 _ h1]
    have hh : (v ++ ws2).dropWhile isSpace = v ++ ws2 := by
      apply dropWhile_head
      intro c hc
      apply hv.1 c
      cases v with
      | nil => exact absurd rfl hnil
      | cons x xs => simpa using hc
    rw [hh, List.reverse_append, dropWhile_all ws2.reverse _ (by intro c hc; exact h2 c (List.mem_reverse.mp hc))]
    rw [dropWhile_head v.reverse (by
      intro c hc
      apply hv.2 c
      rw [List.getLast?_eq_head?_reverse]; exact hc)]
    exact List.reverse_reverse v

/-- `"<anything>:<spaces><v><spaces>"` unprefixes to `v`: several colons are fine, the last one counts. -/
theorem unprefix_prefixed (p ws1 v ws2 : Str) (h1 : ∀ c ∈ ws1, isSpace c = true) (h2 : ∀ c ∈ ws2, isSpace c = true)
    (hv : Clean v) (hc : ':' ∉ v) : unprefix .asCoded (p ++ ':' :: (ws1 ++ v ++ ws2)) = v := by
  have hnc : ':' ∉ ws1 ++ v ++ ws2 := by
    intro hm
    rcases List.mem_append.mp hm with h | h
    · rcases List.mem_append.mp h with h | h
      · have := h1 _ h; simp [isSpace] at this
      · exact hc h
    · have := h2 _ h; simp [isSpace] at this
  unfold unprefix
  simp only [UFacts.asCoded, if_true, afterLastColon_append p _ hnc]
  exact trimSpace_pad ws1 v ws2 h1 h2 hv

/-! ### checkRuleHashesOfType / checkRuleHashes -/

variable {O D : Type}

theorem checkOfType_true_iff (f : CFacts) (env : Env O D) (hs : List Str) (outs : List O) (combine : Bool)
    (checkers : List Algo) (acc : List Str) :
    (checkOfType f env hs outs combine checkers acc).2 = true ↔
      ∃ a ∈ checkers, ∃ h ∈ hs, lenOK f h.length a.size = true ∧ hexOpt env (outputHash env a outs combine) = h := by
  induction checkers generalizing acc with
  | nil => simp [checkOfType]
  | cons a as ih =>
    simp only [checkOfType]
    split
    · rename_i hany
      simp only [List.any_eq_true, Bool.and_eq_true, decide_eq_true_eq] at hany
      obtain ⟨h, hm, hl, he⟩ := hany
      simp only [true_iff]
      exact ⟨a, by simp, h, hm, hl, he⟩
    · rename_i hany
      rw [ih]
      constructor
      · rintro ⟨b, hb, r⟩
        exact ⟨b, by simp [hb], r⟩
      · rintro ⟨b, hb, h, hm, hl, he⟩
        rcases List.mem_cons.mp hb with rfl | hb'
        · exfalso; apply hany
          simp only [List.any_eq_true, Bool.and_eq_true, decide_eq_true_eq]
          exact ⟨h, hm, hl, he⟩
        · exact ⟨b, hb', h, hm, hl, he⟩

/-- When nothing matches, the message lists one `algo: hex` line per configured checker, in order. -/
theorem checkOfType_false_valid (f : CFacts) (env : Env O D) (hs : List Str) (outs : List O) (combine : Bool)
    (checkers : List Algo) (acc : List Str) (h : (checkOfType f env hs outs combine checkers acc).2 = false) :
    (checkOfType f env hs outs combine checkers acc).1 =
      acc.reverse ++ checkers.map (fun a => validLine a (hexOpt env (outputHash env a outs combine))) := by
  induction checkers generalizing acc with
  | nil => simp [checkOfType]
  | cons a as ih =>
    simp only [checkOfType] at h ⊢
    split
    · rename_i hany; simp [hany] at h
    · rename_i hany
      simp only [hany] at h
      rw [ih _ (by simpa using h)]
      simp

theorem checkRuleHashes_ok_iff (uf : UFacts) (env : Env O D) (hashes : List Str) (outs : List O) (hash : D)
    (checkers : List Algo) :
    (checkRuleHashes uf .asCoded env hashes outs hash checkers).1.isOk = true ↔
      hashes = [] ∨ ∃ d ∈ hashes, unprefix uf d = env.hex hash ∨
        ∃ a ∈ checkers, lenOK .asCoded (unprefix uf d).length a.size = true ∧
          hexOpt env (checkerOutputHash env a outs) = unprefix uf d := by
  unfold checkRuleHashes
  cases hashes with
  | nil => simp [Verdict.isOk]
  | cons h0 hr =>
    simp only [List.isEmpty_cons, Bool.false_eq_true, if_false, unprefixedHashes, CFacts.asCoded, Bool.true_and]
    split
    · rename_i hany
      simp only [List.any_eq_true, decide_eq_true_eq, List.mem_map] at hany
      obtain ⟨h, ⟨d, hd, rfl⟩, he⟩ := hany
      simp only [Verdict.isOk, true_iff]
      exact Or.inr ⟨d, hd, Or.inl he⟩
    · rename_i hany
      simp only [List.any_eq_true, decide_eq_true_eq, List.mem_map, not_exists, not_and] at hany
      have key := checkOfType_true_iff CFacts.asCoded env ((h0 :: hr).map (unprefix uf)) outs (outs.length != 1) checkers []
      generalize hct : checkOfType CFacts.asCoded env ((h0 :: hr).map (unprefix uf)) outs (outs.length != 1) checkers [] = r at key
      simp only [CFacts.asCoded] at hct
      rw [hct]
      obtain ⟨valid, ok⟩ := r
      cases ok with
      | true =>
        simp only [Verdict.isOk, true_iff]
        obtain ⟨a, ha, h, hm, hl, he⟩ := key.mp rfl
        obtain ⟨d, hd, rfl⟩ := List.mem_map.mp hm
        exact Or.inr ⟨d, hd, Or.inr ⟨a, ha, hl, he⟩⟩
      | false =>
        simp only [Verdict.isOk, Bool.false_eq_true, false_iff]
        rintro (hnil | ⟨d, hd, hcase⟩)
        · cases hnil
        · rcases hcase with he | ⟨a, ha, hl, he⟩
          · exact hany _ ⟨d, hd, rfl⟩ he
          · have : (valid, false).2 = true := key.mpr ⟨a, ha, unprefix uf d, List.mem_map.mpr ⟨d, hd, rfl⟩, hl, he⟩
            cases this

/-- Digest lengths: every configured checker has a positive size and hex-encodes to twice that many characters. -/
def LenLaw (env : Env O D) (checkers : List Algo) (outs : List O) : Prop :=
  ∀ a ∈ checkers, 0 < a.size ∧ ∀ d, checkerOutputHash env a outs = some d → (env.hex d).length = a.size * 2

/-- Under `LenLaw` the length filter is redundant: a checker matches exactly when the value is its digest. -/
theorem checker_match_iff (env : Env O D) (checkers : List Algo) (outs : List O) (hl : LenLaw env checkers outs)
    (a : Algo) (ha : a ∈ checkers) (s : Str) :
    (lenOK .asCoded s.length a.size = true ∧ hexOpt env (checkerOutputHash env a outs) = s) ↔
      ∃ dg, checkerOutputHash env a outs = some dg ∧ s = env.hex dg := by
  obtain ⟨hpos, hlen⟩ := hl a ha
  constructor
  · rintro ⟨hlo, he⟩
    cases hc : checkerOutputHash env a outs with
    | some dg => rw [hc] at he; exact ⟨dg, rfl, he.symm⟩
    | none =>
      rw [hc] at he; simp only [hexOpt] at he; subst he
      simp [lenOK, CFacts.asCoded] at hlo
      omega
  · rintro ⟨dg, hc, rfl⟩
    refine ⟨?_, by simp [hc, hexOpt]⟩
    simp [lenOK, CFacts.asCoded, hlen dg hc]

theorem th_eq_ch (env : Env O D) (isFile : O → Bool) (a : Algo) (outs : List O)
    (h : ∀ o, outs = [o] → isFile o = true) : targetOutputHash env isFile a outs = checkerOutputHash env a outs := by
  unfold targetOutputHash checkerOutputHash
  match outs with
  | [] => rfl
  | [o] => simp [h o rfl]
  | o1 :: o2 :: r => simp

/-- Exact characterisation of one fresh verification (default flags). -/
theorem accepts_iff (uf : UFacts) (env : Env O D) (isFile : O → Bool) (cfg : Algo) (checkers : List Algo)
    (hashes : List Str) (outs : List O) (hl : LenLaw env checkers outs) :
    accepts uf .asCoded env isFile cfg checkers hashes outs = true ↔
      ∃ h0, targetOutputHash env isFile cfg outs = some h0 ∧
        (hashes = [] ∨ ∃ d ∈ hashes, unprefix uf d = env.hex h0 ∨
          ∃ a ∈ checkers, ∃ dg, checkerOutputHash env a outs = some dg ∧ unprefix uf d = env.hex dg) := by
  unfold accepts calcAndCheck
  cases hth : targetOutputHash env isFile cfg outs with
  | none => simp
  | some h0 =>
    simp only [Bool.or_false, Bool.not_true, Option.some.injEq, exists_eq_left']
    have := checkRuleHashes_ok_iff uf env hashes outs h0 checkers
    by_cases hok : (checkRuleHashes uf CFacts.asCoded env hashes outs h0 checkers).1.isOk = true
    · simp only [hok, if_true, Option.isSome_some, true_iff]
      rcases this.mp hok with h | ⟨d, hd, h⟩
      · exact Or.inl h
      · refine Or.inr ⟨d, hd, ?_⟩
        rcases h with h | ⟨a, ha, hm⟩
        · exact Or.inl h
        · exact Or.inr ⟨a, ha, (checker_match_iff env checkers outs hl a ha _).mp hm⟩
    · simp only [hok, Bool.false_eq_true, if_false, Option.isSome_none, false_iff]
      intro hh
      apply hok
      apply this.mpr
      rcases hh with h | ⟨d, hd, h⟩
      · exact Or.inl h
      · refine Or.inr ⟨d, hd, ?_⟩
        rcases h with h | ⟨a, ha, hm⟩
        · exact Or.inl h
        · exact Or.inr ⟨a, ha, (checker_match_iff env checkers outs hl a ha _).mpr hm⟩

/-! ### step order -/

variable {K C : Type} [DecidableEq K] [DecidableEq C]

/-- A check that passed only because of a stale memoised hash would also have passed fresh, given that the
    memoised outputs themselves had been rejected (the failed cache restore). -/
def StaleSound (check : K → Option C → C → Bool) : Prop :=
  ∀ k m c, check k none m = false → check k (some m) c = true → check k none c = true

/-- Everything in plz-out that carries a stamp passed verification under the definition the stamp names. -/
def Trusted (check : K → Option C → C → Bool) (st : TState K C) : Prop :=
  ∀ c k, st.out = some (c, some k) → check k none c = true

theorem finishBuild_failed (check : K → Option C → C → Bool) (cacheOn : Bool) (key : K) (cache : K → Option C)
    (out1 : Option (C × Option K)) (memo : Option C) (fresh : C)
    (h : (finishBuild .asCoded check cacheOn key cache out1 memo fresh).2 = .failed) :
    (finishBuild .asCoded check cacheOn key cache out1 memo fresh).1.out = none ∧
    (finishBuild .asCoded check cacheOn key cache out1 memo fresh).1.cache = cache := by
  simp only [finishBuild] at h ⊢
  by_cases hc : check key memo (moveOutputs SFacts.asCoded out1 fresh).1 = true
  · simp [hc] at h
  · rw [if_neg hc]; simp [SFacts.asCoded]

theorem finishBuild_built (check : K → Option C → C → Bool) (cacheOn : Bool) (key : K) (cache : K → Option C)
    (out1 : Option (C × Option K)) (memo : Option C) (fresh : C)
    (h : (finishBuild .asCoded check cacheOn key cache out1 memo fresh).2 ≠ .failed) :
    ∃ c, (finishBuild .asCoded check cacheOn key cache out1 memo fresh).1.out = some (c, some key) ∧
      check key memo c = true ∧ (out1 = none → c = fresh) := by
  simp only [finishBuild] at h ⊢
  by_cases hc : check key memo (moveOutputs SFacts.asCoded out1 fresh).1 = true
  · simp only [hc, if_true]
    refine ⟨_, rfl, hc, ?_⟩
    intro hn; subst hn; rfl
  · simp [hc] at h

theorem finishBuild_res (fx : SFacts) (check : K → Option C → C → Bool) (cacheOn : Bool) (key : K) (cache : K → Option C)
    (out1 : Option (C × Option K)) (memo : Option C) (fresh : C) :
    (finishBuild fx check cacheOn key cache out1 memo fresh).2 = .built ∨
    (finishBuild fx check cacheOn key cache out1 memo fresh).2 = .failed := by
  simp only [finishBuild]
  by_cases hc : check key memo (moveOutputs fx out1 fresh).1 = true <;> simp [hc]

theorem buildTarget_failed (check : K → Option C → C → Bool) (cacheOn : Bool) (key : K) (fresh : C) (st : TState K C)
    (h : (buildTarget .asCoded check cacheOn key fresh st).2 = .failed) :
    (buildTarget .asCoded check cacheOn key fresh st).1.out = none ∧
    (buildTarget .asCoded check cacheOn key fresh st).1.cache = st.cache := by
  unfold buildTarget at h ⊢
  by_cases hnb : needsBuilding st key = true
  · simp only [hnb, if_true] at h ⊢
    cases hhit : (if cacheOn = true then st.cache key else none) with
    | none =>
      simp only [hhit] at h ⊢
      exact finishBuild_failed check cacheOn key st.cache st.out none fresh h
    | some c =>
      simp only [hhit] at h ⊢
      by_cases hc : check key none c = true
      · simp [hc] at h
      · simp only [hc, Bool.false_eq_true, if_false] at h ⊢
        exact finishBuild_failed check cacheOn key st.cache _ (some c) fresh h
  · simp [hnb] at h

theorem buildTarget_reused (fx : SFacts) (check : K → Option C → C → Bool) (cacheOn : Bool) (key : K) (fresh : C)
    (st : TState K C) (h : (buildTarget fx check cacheOn key fresh st).2 = .reused) :
    (buildTarget fx check cacheOn key fresh st).1 = st ∧ ∃ c, st.out = some (c, some key) := by
  unfold buildTarget at h ⊢
  by_cases hnb : needsBuilding st key = true
  · exfalso
    simp only [hnb, if_true] at h
    cases hhit : (if cacheOn = true then st.cache key else none) with
    | none =>
      simp only [hhit] at h
      rcases finishBuild_res fx check cacheOn key st.cache st.out none fresh with h' | h' <;> rw [h'] at h <;> cases h
    | some c =>
      simp only [hhit] at h
      by_cases hc : check key none c = true
      · simp [hc] at h
      · simp only [hc, Bool.false_eq_true, if_false] at h
        rcases finishBuild_res fx check cacheOn key st.cache
          (if fx.removeOnRetrieveFail = true then none else some (c, none)) (some c) fresh with h' | h' <;>
          rw [h'] at h <;> cases h
  · simp only [hnb, Bool.false_eq_true, if_false, true_and]
    unfold needsBuilding at hnb
    split at hnb
    · rename_i c k heq
      have : k = key := by simpa using hnb
      exact ⟨c, by rw [heq, this]⟩
    · simp at hnb

theorem buildTarget_success (check : K → Option C → C → Bool) (hlaw : StaleSound check) (cacheOn : Bool) (key : K)
    (fresh : C) (st : TState K C)
    (h : (buildTarget .asCoded check cacheOn key fresh st).2 = .cached ∨
         (buildTarget .asCoded check cacheOn key fresh st).2 = .built) :
    ∃ c, (buildTarget .asCoded check cacheOn key fresh st).1.out = some (c, some key) ∧ check key none c = true := by
  unfold buildTarget at h ⊢
  by_cases hnb : needsBuilding st key = true
  · simp only [hnb, if_true] at h ⊢
    cases hhit : (if cacheOn = true then st.cache key else none) with
    | none =>
      simp only [hhit] at h ⊢
      obtain ⟨c, ho, hc, _⟩ := finishBuild_built check cacheOn key st.cache st.out none fresh (by
        rcases h with h | h <;> rw [h] <;> simp)
      exact ⟨c, ho, hc⟩
    | some c =>
      simp only [hhit] at h ⊢
      by_cases hc : check key none c = true
      · simp only [hc, if_true]; exact ⟨c, rfl, hc⟩
      · simp only [hc, Bool.false_eq_true, if_false] at h ⊢
        obtain ⟨c', ho, hc', hfresh⟩ := finishBuild_built check cacheOn key st.cache
          (if SFacts.asCoded.removeOnRetrieveFail = true then none else some (c, none)) (some c) fresh (by
          rcases h with h | h <;> rw [h] <;> simp)
        exact ⟨c', ho, hlaw key c c' (by simpa using hc) hc'⟩
  · simp [hnb] at h

theorem buildTarget_trusted (check : K → Option C → C → Bool) (hlaw : StaleSound check) (cacheOn : Bool) (key : K)
    (fresh : C) (st : TState K C) (ht : Trusted check st) :
    Trusted check (buildTarget .asCoded check cacheOn key fresh st).1 := by
  cases hr : (buildTarget .asCoded check cacheOn key fresh st).2 with
  | reused => rw [(buildTarget_reused _ check cacheOn key fresh st hr).1]; exact ht
  | failed =>
    intro c k ho
    rw [(buildTarget_failed check cacheOn key fresh st hr).1] at ho; cases ho
  | cached =>
    obtain ⟨c, ho, hc⟩ := buildTarget_success check hlaw cacheOn key fresh st (Or.inl hr)
    intro c' k ho'
    rw [ho] at ho'; cases ho'; exact hc
  | built =>
    obtain ⟨c, ho, hc⟩ := buildTarget_success check hlaw cacheOn key fresh st (Or.inr hr)
    intro c' k ho'
    rw [ho] at ho'; cases ho'; exact hc

theorem runHist_trusted (check : K → Option C → C → Bool) (hlaw : StaleSound check) (h : List (HOp K C))
    (st : TState K C) (ht : Trusted check st) : Trusted check (runHist .asCoded check h st) := by
  induction h generalizing st with
  | nil => exact ht
  | cons op ops ih =>
    simp only [runHist, List.foldl_cons]
    apply ih
    cases op with
    | build cacheOn key fresh => exact buildTarget_trusted check hlaw cacheOn key fresh st ht
    | setCache cache => intro c k ho; exact ht c k ho
    | rmOut => intro c k ho; cases ho

/-! ### the concrete check and its stale-memo law -/

/-- `check` of the step model instantiated with the decision model: the key determines the declared hashes (they are
    part of the rule hash), the hash function (path hashes of the sources are taken with it) and the checkers (written
    into the rule hash of every target that declares hashes); the contents determine the output list. -/
def concreteCheck (uf : UFacts) (cf : CFacts) (env : Env O D) (isFile : O → Bool) (cfgOf : K → Algo)
    (checkersOf : K → List Algo) (hashesOf : K → List Str) (outsOf : C → List O) : K → Option C → C → Bool :=
  fun k memo c =>
    (calcAndCheck uf cf env isFile (cfgOf k) (checkersOf k) {} (hashesOf k) (outsOf c)
      (memo.bind fun m => targetOutputHash env isFile (cfgOf k) (outsOf m))).isSome

omit [DecidableEq K] [DecidableEq C] in
theorem concreteCheck_none (uf : UFacts) (cf : CFacts) (env : Env O D) (isFile : O → Bool) (cfgOf : K → Algo)
    (checkersOf : K → List Algo) (hashesOf : K → List Str) (outsOf : C → List O) (k : K) (c : C) :
    concreteCheck uf cf env isFile cfgOf checkersOf hashesOf outsOf k none c =
      accepts uf cf env isFile (cfgOf k) (checkersOf k) (hashesOf k) (outsOf c) := rfl

omit [DecidableEq K] [DecidableEq C] in
theorem concreteCheck_staleSound (uf : UFacts) (env : Env O D) (isFile : O → Bool) (cfgOf : K → Algo)
    (checkersOf : K → List Algo) (hashesOf : K → List Str) (outsOf : C → List O)
    (htot : ∀ k c, (targetOutputHash env isFile (cfgOf k) (outsOf c)).isSome = true) :
    StaleSound (concreteCheck uf .asCoded env isFile cfgOf checkersOf hashesOf outsOf) := by
  intro k m c hm hc
  obtain ⟨hmv, hmE⟩ := Option.isSome_iff_exists.mp (htot k m)
  obtain ⟨hcv, hcE⟩ := Option.isSome_iff_exists.mp (htot k c)
  simp only [concreteCheck, calcAndCheck, Option.bind_none, Option.bind_some, hmE, hcE, Bool.or_false, Bool.not_true] at hm hc ⊢
  have im := checkRuleHashes_ok_iff uf env (hashesOf k) (outsOf m) hmv (checkersOf k)
  have ic := checkRuleHashes_ok_iff uf env (hashesOf k) (outsOf c) hmv (checkersOf k)
  have ic' := checkRuleHashes_ok_iff uf env (hashesOf k) (outsOf c) hcv (checkersOf k)
  by_cases h1 : (checkRuleHashes uf CFacts.asCoded env (hashesOf k) (outsOf m) hmv (checkersOf k)).1.isOk = true
  · simp [h1] at hm
  · by_cases h2 : (checkRuleHashes uf CFacts.asCoded env (hashesOf k) (outsOf c) hmv (checkersOf k)).1.isOk = true
    · have h3 : (checkRuleHashes uf CFacts.asCoded env (hashesOf k) (outsOf c) hcv (checkersOf k)).1.isOk = true := by
        apply ic'.mpr
        rcases ic.mp h2 with h | ⟨d, hd, h⟩
        · exact Or.inl h
        · rcases h with h | h
          · exact absurd (im.mpr (Or.inr ⟨d, hd, Or.inl h⟩)) h1
          · exact Or.inr ⟨d, hd, Or.inr h⟩
      simp [h3]
    · simp [h2] at hc

end PlzVerif.HashCheck
