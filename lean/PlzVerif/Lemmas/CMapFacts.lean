import PlzVerif.Model.CMap
/-!
C15 facts: the decision tables the extractor (`harness/extract/c15`) computes from `cmap.go` / `cerrmap.go` by
symbolic execution, as they are for the code the model was transcribed from (`expected…`), and the same
tables *computed from the model* on representative states (`model…`).  `Props/C15.lean` proves
`Generated = expected` (the obligation a code change breaks) and `expected ≈ model` (the tables say what the
model does).

A row is (case, store, close, returned values, calls, lock operations and map accesses in program order,
further effects in order); roles:
`recv` receiver, `p<i>` i-th parameter, `entry#<i>` / `present#<i>` result of the i-th map lookup.
-/
namespace PlzVerif.CMap.Facts
open PlzVerif.CMap

abbrev Row := String × String × String × String × List String × List String × List String

def expectedSetRows : List Row := [
  ("absent/ow", "val:param", "-", "true", [], ["Lock", "defer Unlock", "access"], []),
  ("absent/!ow", "val:param", "-", "true", [], ["Lock", "defer Unlock", "access"], []),
  ("val/ow", "val:param", "-", "true", [], ["Lock", "defer Unlock", "access"], []),
  ("val/!ow", "-", "-", "false", [], ["Lock", "defer Unlock", "access"], []),
  ("waiting/ow", "val:param", "entry#1.Wait", "true", [], ["Lock", "defer Unlock", "access"], []),
  ("waiting/!ow", "val:param", "entry#1.Wait", "true", [], ["Lock", "defer Unlock", "access"], [])]

def expectedLazySetRows : List Row := [
  ("absent", "val:f", "-", "p1(),true", ["p1()"], ["Lock", "defer Unlock", "access"], []),
  ("val", "-", "-", "entry#1.Val,false", [], ["Lock", "defer Unlock", "access"], []),
  ("waiting", "val:f", "entry#1.Wait", "p1(),true", ["p1()"], ["Lock", "defer Unlock", "access"], [])]

def expectedGetRows : List Row := [
  ("fast:val", "-", "-", "entry#1.Val,entry#1.Wait,false", [], ["RLock", "access", "RUnlock"], []),
  ("fast:waiting", "-", "-", "entry#1.Val,entry#1.Wait,false", [], ["RLock", "access", "RUnlock"], []),
  ("slow:absent", "placeholder", "-", "zero,make(chan),true", [], ["RLock", "access", "RUnlock", "Lock", "defer Unlock", "access"], []),
  ("slow:val", "-", "-", "entry#2.Val,entry#2.Wait,false", [], ["RLock", "access", "RUnlock", "Lock", "defer Unlock", "access"], []),
  ("slow:waiting", "-", "-", "entry#2.Val,entry#2.Wait,false", [], ["RLock", "access", "RUnlock", "Lock", "defer Unlock", "access"], [])]

def expectedContainsRows : List Row := [
  ("any", "-", "-", "present#1", [], ["RLock", "defer RUnlock", "access"], [])]

def expectedValuesRows : List Row := [
  ("val", "-", "-", "make(slice)", [], ["RLock", "defer RUnlock", "access"], ["append entry#1.Val"]),
  ("waiting", "-", "-", "make(slice)", [], ["RLock", "defer RUnlock", "access"], [])]

def expectedRangeRows : List Row := [
  ("val", "-", "-", "", ["p0(key#1,entry#1.Val)"], ["RLock", "defer RUnlock", "access"], []),
  ("waiting", "-", "-", "", [], ["RLock", "defer RUnlock", "access"], [])]

def expectedMapRows : List Row := [
  ("Add", "-", "-", "recv.shards[recv.hasher(p0)&recv.mask].Set(p0,p1,false)", [], [], []),
  ("AddOrGet", "-", "-", "recv.shards[recv.hasher(p0)&recv.mask].LazySet(p0,p1)", [], [], []),
  ("Set", "-", "-", "", ["recv.shards[recv.hasher(p0)&recv.mask].Set(p0,p1,true)"], [], []),
  ("Get", "-", "-", "recv.shards[recv.hasher(p0)&recv.mask].Get(p0).0", ["recv.shards[recv.hasher(p0)&recv.mask].Get(p0)"], [], []),
  ("Contains", "-", "-", "recv.shards[recv.hasher(p0)&recv.mask].Contains(p0)", [], [], []),
  ("GetOrWait", "-", "-", "recv.shards[recv.hasher(p0)&recv.mask].Get(p0)", [], [], [])]

def expectedValuesLoop : List String := ["i:=0", "i<len(recv.shards)", "i++", "ret=append(ret,recv.shards[i].Values()...)"]

/-- `mask := shardCount - 1`, panic unless `(shardCount & mask) == 0`, `mask: mask` -/
def expectedNewFacts : List String := ["p0-1", "(p0&mask)!=0", "mask"]

def gosReturnGot : Row :=
  ("", "-", "-", "recv.m.GetOrWait(p0).0.Val,recv.m.GetOrWait(p0).0.Err", ["recv.m.GetOrWait(p0)"], [], [])
def gosRunF : Row :=
  ("", "-", "-", "p1().0,p1().1", ["recv.m.GetOrWait(p0)", "p1()", "recv.m.Set(p0,errV{Err:p1().1,Val:p1().0})"], [], [])
def gosWait (limiter : Bool) : Row :=
  if limiter then
    ("", "-", "-", "recv.Get(p0)", ["recv.m.GetOrWait(p0)", "recv.l.Release()"], [],
      ["defer call recv.l.Acquire()", "recv recv.m.GetOrWait(p0).1"])
  else ("", "-", "-", "recv.Get(p0)", ["recv.m.GetOrWait(p0)"], [], ["recv recv.m.GetOrWait(p0).1"])

def gosCaseName (e f w l : Bool) : String := s!"err={e},first={f},wait={w},limiter={l}"

/-- which of the three behaviours `GetOrSet` shows in a case, as a tag -/
inductive GosAct | returnGot | runF | wait
deriving DecidableEq, Repr

/-- the branch structure of cerrmap.go:63-79 as read off the code -/
def expectedGosAct (e f w : Bool) : GosAct :=
  if e then .returnGot else if f then .runF else if w then .wait else .returnGot

def gosRowOf (a : GosAct) (l : Bool) : Row :=
  match a with
  | .returnGot => gosReturnGot
  | .runF => gosRunF
  | .wait => gosWait l

def bools : List Bool := [true, false]

def expectedGetOrSetRows : List Row :=
  bools.flatMap fun e => bools.flatMap fun f => bools.flatMap fun w => bools.map fun l =>
    let r := gosRowOf (expectedGosAct e f w) l
    (gosCaseName e f w l, r.2)

def expectedErrGetRows : List Row := [
  ("any", "-", "-", "recv.m.Get(p0).Val,recv.m.Get(p0).Err", ["recv.m.Get(p0)"], [], [])]

/-- Lock discipline of a row: every access to the map happens while the shard lock is held, and a row that
    stores or closes makes its last access under the write lock.  (`defer` releases at return.) -/
def rowLockOK (r : Row) : Bool :=
  let final := r.2.2.2.2.2.1.foldl (fun (acc : Bool × String × String) ev =>
    let (ok, held, lastAcc) := acc
    if ev == "Lock" then (ok && held == "", "w", lastAcc)
    else if ev == "RLock" then (ok && held == "", "r", lastAcc)
    else if ev == "Unlock" || ev == "RUnlock" then (ok && held != "", "", lastAcc)
    else if ev == "access" then (ok && held != "", held, held)
    else (ok, held, lastAcc)) (true, "", "")
  final.1 && (if r.2.1 != "-" || r.2.2.1 != "-" then final.2.2 == "w" else true)

/-! ### the same tables computed from the model -/

def cfg1 : Cfg Nat := ⟨1, fun _ => 0, fun v => v ≥ 100⟩

/-- representative shared states for key 1: absent / value 7 / placeholder with channel 0 -/
def rep : String → Shared Nat
  | "val" => (Shared.init : Shared Nat).storeVal cfg1 1 7
  | "waiting" => (csGetSlow cfg1 (Shared.init : Shared Nat) 1).1
  | _ => Shared.init

def storeKind (before after : Shared Nat) (newVal : Nat) (fTag : String) : String :=
  if after.lookup cfg1 1 == before.lookup cfg1 1 then "-"
  else if after.lookup cfg1 1 == some (.val newVal) then fTag
  else if after.lookup cfg1 1 == some (.waiting before.nextCh) then "placeholder"
  else "other"

def closeKind (before after : Shared Nat) (i : Nat) : String :=
  if after.closed == before.closed then "-"
  else match before.lookup cfg1 1 with
    | some (.waiting ch) => if after.closed == ch :: before.closed then s!"entry#{i}.Wait" else "other"
    | _ => "other"

def modelSetRows : List (String × String × String × String) :=
  ["absent", "val", "waiting"].flatMap fun cs => bools.map fun ow =>
    let σ := rep cs
    let r := csSet cfg1 σ 1 99 ow
    (cs ++ (if ow then "/ow" else "/!ow"), storeKind σ r.1 99 "val:param", closeKind σ r.1 1, toString r.2)

def modelLazySetRows : List (String × String × String × String) :=
  ["absent", "val", "waiting"].map fun cs =>
    let σ := rep cs
    let r := csLazySet cfg1 σ 1 99
    let v := if r.2.1 == 99 then "p1()" else if some (Entry.val r.2.1) == σ.lookup cfg1 1 then "entry#1.Val" else "other"
    (cs, storeKind σ r.1 99 "val:f", closeKind σ r.1 1, v ++ "," ++ toString r.2.2)

/-- `entry.Val, entry.Wait` of the entry under key 1 -/
def entryFields (σ : Shared Nat) : Option (Nat × Option Chan) :=
  match σ.lookup cfg1 1 with
  | some (.val v) => some (v, none)          -- awaitableValue{Val: v}: Wait is nil
  | some (.waiting ch) => some (0, some ch)  -- awaitableValue{Wait: ch}: Val is the zero value
  | none => none

def modelGetRows : List (String × String × String × String) :=
  (["val", "waiting"].map fun cs =>
    let σ := rep cs
    let ret := match csGetFast cfg1 σ 1 with
      | some r => if some r == entryFields σ then "entry#1.Val,entry#1.Wait,false" else "other"
      | none => "fallthrough"
    ("fast:" ++ cs, "-", "-", ret)) ++
  (["absent", "val", "waiting"].map fun cs =>
    let σ := rep cs
    let fast := match csGetFast cfg1 σ 1 with | some _ => "hit" | none => "miss"
    let r := csGetSlow cfg1 σ 1
    let ret :=
      if some (r.2.1, r.2.2.1) == entryFields σ && r.2.2.2 == false then "entry#2.Val,entry#2.Wait,false"
      else if r.2.1 == 0 && r.2.2.1 == some σ.nextCh && r.2.2.2 == true then "zero,make(chan),true"
      else "other"
    -- the slow path is only reached after a fast-path miss, i.e. from the absent state; the re-check rows
    -- describe what it does when another thread has filled the key in between
    ("slow:" ++ cs, storeKind σ r.1 0 "val", closeKind σ r.1 2, if cs == "absent" && fast != "miss" then "other" else ret))

def modelContains : List (String × Bool) :=
  ["absent", "val", "waiting"].map fun cs => (cs, csContains cfg1 (rep cs) 1)

def modelValues : List (String × List Nat) :=
  ["val", "waiting"].map fun cs => (cs, csValues (rep cs) 0)

/-- what the model's `GetOrSet` client does after `GetOrWait` returned `(v, w, first)` -/
def modelGosAct (e f w : Bool) : GosAct :=
  let v := if e then 100 else 5
  match gosBranch cfg1 1 9 v (if w then some 0 else none) f with
  | .gosRet _ v' => if v' == v then .returnGot else .wait
  | .gosF _ fv => if fv == 9 then .runF else .wait
  | .gosW _ _ => .wait
  | _ => .wait

/-- how the model starts each Map method: every method works on the shard `hasher(key) & mask` of its key -/
def modelMapRows : List (String × String) := [
  ("Add", match (startPC (.add 1 2) : PC Nat) with
    | .set 1 2 false => "recv.shards[recv.hasher(p0)&recv.mask].Set(p0,p1,false)" | _ => "other"),
  ("AddOrGet", match (startPC (.addOrGet 1 2) : PC Nat) with
    | .lazy 1 2 => "recv.shards[recv.hasher(p0)&recv.mask].LazySet(p0,p1)" | _ => "other"),
  ("Set", match (startPC (.set 1 2) : PC Nat) with
    | .set 1 2 true => "recv.shards[recv.hasher(p0)&recv.mask].Set(p0,p1,true)" | _ => "other"),
  ("Get", match (startPC (.get 1) : PC Nat) with
    | .getFast 1 false => "recv.shards[recv.hasher(p0)&recv.mask].Get(p0).0" | _ => "other"),
  ("Contains", match (startPC (.contains 1) : PC Nat) with
    | .contains 1 => "recv.shards[recv.hasher(p0)&recv.mask].Contains(p0)" | _ => "other"),
  ("GetOrWait", match (startPC (.getOrWait 1) : PC Nat) with
    | .getFast 1 true => "recv.shards[recv.hasher(p0)&recv.mask].Get(p0)" | _ => "other")]

/-- projection of a code row to what the model can talk about -/
def core (r : Row) : String × String × String × String := (r.1, r.2.1, r.2.2.1, r.2.2.2.1)

/-- the shard call of a `Map` method row: its returned expression, or its only call when it returns nothing -/
def shardCall (r : Row) : String × String :=
  (r.1, if r.2.2.2.1 == "" then r.2.2.2.2.1.headD "" else r.2.2.2.1)

end PlzVerif.CMap.Facts
